(* The "regenerated model" tie.  gen/Pure.v (module P) is produced from /repo's CURRENT Go sources by
   tools/srcgen/pure.go on every check run; this file proves, for ALL inputs, that each regenerated definition
   equals the hand-written model (Helpers/Helpers.v, Ledger/Env.v) on which every property proof rests.
   A semantic edit of one of the whitelisted Go functions makes the corresponding [tie_...] theorem fail; an edit
   outside the translated subset replaces [P.f] by [P.f_unrecognised], so the theorem no longer type-checks.

   Part 1: facts about the GoSem combinators and the tactics.  Part 2: the tie theorems.
   Part 3: headline theorems of C20 / C05 / C06 / C09 transported to the generated functions (restated in
   Properties/C20_srctie.v, C05_srctie.v, C06_srctie.v, C09_srctie.v).

   The proofs avoid depending on the shape of the generated term: they unfold the combinators on both sides,
   inline the lets, split on every test ([tie_break]) and close the leaves with [lia] / congruence of the list
   operations ([tie_close]); callee functions are rewritten with their own tie theorem. *)
From Coq.Strings Require Import String.
From EV Require Import Base.Bytes gen.Consts Base.GoSem gen.Pure Helpers.Helpers Helpers.HelpersProofs
  Codec.Types Ledger.Types Ledger.Env.

(* ================================================================== *)
(* Part 1: GoSem facts and tactics                                      *)
(* ================================================================== *)
Lemma go_index_nth (s : bytes) (i : nat) (b : byte) :
  nth_error s i = Some b -> go_index s (Z.of_nat i) = Some (b2n b).
Proof.
  intros H. unfold go_index, go_len.
  assert (i < length s)%nat by (apply nth_error_Some; congruence).
  replace ((0 <=? Z.of_nat i) && (Z.of_nat i <? Z.of_nat (length s)))%Z with true by lia.
  rewrite Nat2Z.id, H. reflexivity.
Qed.

(* the loop `for i := 0; i < len(l); i++ { if !p(l[i]) { return r } }` *)
Lemma go_for_from_all {R} (p : byte -> bool) (r : R) (body : Z -> option (option R)) :
  forall (l pre : bytes),
  (forall i b, nth_error (pre ++ l) i = Some b -> (length pre <= i)%nat ->
               body (Z.of_nat i) = Some (if p b then None else Some r)) ->
  go_for_from (length l) (Z.of_nat (length pre)) body = Some (if forallb p l then None else Some r).
Proof.
  induction l as [|b l IH]; intros pre H; [reflexivity|].
  cbn [length go_for_from forallb].
  rewrite (H (length pre) b); [|rewrite nth_error_app2, Nat.sub_diag by lia; reflexivity|lia].
  destruct (p b); [|reflexivity]. cbn [andb].
  replace (Z.of_nat (length pre) + 1)%Z with (Z.of_nat (length (pre ++ [b]))) by (rewrite app_length; cbn [length]; lia).
  apply IH. intros i c Hi Hl. apply H.
  - rewrite <- app_assoc in Hi. exact Hi.
  - rewrite app_length in Hl. cbn [length] in Hl. lia.
Qed.
Lemma go_for_upto_all {R} (p : byte -> bool) (r : R) (l : bytes) (body : Z -> option (option R)) :
  (forall i b, nth_error l i = Some b -> body (Z.of_nat i) = Some (if p b then None else Some r)) ->
  go_for_upto (length l) body = Some (if forallb p l then None else Some r).
Proof. intros H. apply (go_for_from_all p r body l []). intros i b Hi _. apply H. exact Hi. Qed.

Ltac is_nat_num n := lazymatch n with O => idtac | S ?m => is_nat_num m end.
(* closed conversions of small index constants: Z.to_nat 1 ~> 1%nat, so that both sides name the same element *)
Ltac tie_nums :=
  repeat match goal with
  | |- context [Z.to_nat ?z] => let v := eval cbv in (Z.to_nat z) in is_nat_num v; progress change (Z.to_nat z) with v
  | |- context [N.to_nat ?z] => let v := eval cbv in (N.to_nat z) in is_nat_num v; progress change (N.to_nat z) with v
  end.
(* the vocabulary of both sides, down to list operations and comparisons of numbers *)
Ltac tie_unfold :=
  unfold go_slice_to, go_slice, go_slice_from, go_make_bytes, go_index, go_set_index, go_len, bytes_equal, go_deref,
    go_break, go_continue, int_add, int_sub, int_mul, wrap_int, two63Z, two64Z,
    u8_add, u8_sub, u8_mul, u32_add, u32_sub, u32_mul, u64_add, u64_sub, u64_mul, u_and, u_or,
    is_empty_address, slice_to, slice, index, blen, alen, SC, zeros, mask, bor, sub64, two64, two32 in *;
  unfold C.numInitCharactersForSystemAccountAddress, C.NumInitCharactersForScAddress, C.VMTypeLen,
    C.numInitCharactersForOnMetachainSC, C.metaChainShardIdentifier, C.lengthOfCodeMetadata,
    C.MetadataUpgradeable, C.MetadataReadable, C.MetadataPayable, C.bif_lengthOfESDTMetadata,
    C.bif_MetadataPaused, C.bif_MetadataFrozen in *;
  unfold go_ret, go_bind, option_map in *; cbv zeta; tie_nums; cbn [skipn] in *.
Ltac tie_destruct x :=
  lazymatch x with
  | context [match ?y with _ => _ end] => tie_destruct y
  | _ => destruct x eqn:?
  end.
Ltac tie_break :=
  repeat (cbv beta iota;
          match goal with
          | |- context [match ?x with _ => _ end] => tie_destruct x
          end);
  cbv beta iota.
Ltac tie_eq := first [reflexivity | lia | congruence | progress f_equal; tie_eq].
Ltac tie_facts :=
  repeat match goal with
  | H : Some _ = Some _ |- _ => inversion H; clear H; subst
  | H : Some _ = None |- _ => discriminate H
  | H : None = Some _ |- _ => discriminate H
  | H : nth_error _ _ = None |- _ => apply nth_error_None in H
  | H : nth_error ?l ?i = Some _ |- _ =>
    lazymatch goal with
    | _ : (i < length l)%nat |- _ => fail
    | _ => assert (i < length l)%nat by (apply nth_error_Some; congruence)
    end
  end.
(* a test split on one side before the other side exposed the same test *)
Ltac tie_rew :=
  repeat match goal with
  | H : ?t = true |- context [?t] => rewrite H
  | H : ?t = false |- context [?t] => rewrite H
  end; cbv beta iota.
Ltac tie_close0 := first [tie_eq | exfalso; lia | exfalso; congruence].
Ltac tie_close := tie_facts; cbn [length] in *; first [tie_close0 | tie_rew; tie_close0].
Ltac tie := tie_unfold; tie_break; try tie_close.

(* ================================================================== *)
(* Part 2: the tie theorems                                             *)
(* ================================================================== *)

(* ---- address.go ---- *)
Theorem tie_IsSystemAccountAddress : forall a, P.IsSystemAccountAddress a = is_system_account_address a.
Proof. intros a. unfold P.IsSystemAccountAddress, is_system_account_address. tie. Qed.

Theorem tie_IsEmptyAddress : forall a, P.IsEmptyAddress a = Some (is_empty_address a).
Proof.
  intros a. unfold P.IsEmptyAddress. tie.
Qed.

Theorem tie_IsSmartContractAddress : forall a, P.IsSmartContractAddress a = is_sc_address a.
Proof.
  intros a. unfold P.IsSmartContractAddress, is_sc_address. rewrite tie_IsEmptyAddress. tie.
Qed.

Theorem tie_IsMetachainIdentifier : forall id, P.IsMetachainIdentifier id = Some (is_metachain_identifier id).
Proof.
  intros id. unfold P.IsMetachainIdentifier, is_metachain_identifier.
  rewrite (go_for_upto_all (fun b => (b2n b =? C.metaChainShardIdentifier)%N) false).
  - destruct id as [|b r]; [reflexivity|]. tie.
  - intros i b Hi. rewrite (go_index_nth _ _ _ Hi). tie.
Qed.

Theorem tie_IsSmartContractOnMetachain : forall id a, P.IsSmartContractOnMetachain id a = is_sc_on_metachain id a.
Proof.
  intros id a. unfold P.IsSmartContractOnMetachain, is_sc_on_metachain.
  rewrite tie_IsMetachainIdentifier, tie_IsSmartContractAddress. tie.
Qed.

Theorem tie_IsAllowedToSaveUnderKey : forall k, P.IsAllowedToSaveUnderKey k = is_allowed_to_save_under_key k.
Proof. intros k. unfold P.IsAllowedToSaveUnderKey, is_allowed_to_save_under_key. tie. Qed.

(* ---- codeMetadata.go: the generated record and the hand record, field by field.  [cm_to_P] names every field
        of the generated record: a field added to the Go struct breaks it. ---- *)
Definition cm_of (m : P.CodeMetadata) : codemeta :=
  {| cm_payable := P.CodeMetadata_Payable m; cm_upgradeable := P.CodeMetadata_Upgradeable m;
     cm_readable := P.CodeMetadata_Readable m |}.
Definition cm_to_P (m : codemeta) : P.CodeMetadata :=
  {| P.CodeMetadata_Payable := cm_payable m; P.CodeMetadata_Upgradeable := cm_upgradeable m;
     P.CodeMetadata_Readable := cm_readable m |}.
Lemma cm_of_to_P m : cm_of (cm_to_P m) = m. Proof. destruct m; reflexivity. Qed.
Lemma cm_to_P_of m : cm_to_P (cm_of m) = m. Proof. destruct m; reflexivity. Qed.

Theorem tie_CodeMetadataFromBytes : forall l, option_map cm_of (P.CodeMetadataFromBytes l) = codemeta_from l.
Proof. intros l. unfold P.CodeMetadataFromBytes, codemeta_from. tie. Qed.

(* the receiver is a pointer: [Some m] = a non-nil *CodeMetadata; finitely many records, by evaluation *)
Theorem tie_CodeMetadata_ToBytes : forall m, P.CodeMetadata_ToBytes (Some (cm_to_P m)) = codemeta_to m.
Proof. intros [[] [] []]; vm_compute; reflexivity. Qed.
Theorem tie_CodeMetadata_ToBytes_nil : P.CodeMetadata_ToBytes None = None.
Proof. vm_compute; reflexivity. Qed.

(* ---- gasCost.go: the error is a value, not a panic; uint64 operands ---- *)
Theorem tie_SafeSubUint64 : forall a b, (a < two64)%N ->
  P.SafeSubUint64 a b = Some (match safe_sub_u64 a b with
                              | Some r => (r, go_nil)
                              | None => (0%N, go_err "ErrSubtractionOverflow")
                              end).
Proof. intros a b Ha. unfold P.SafeSubUint64, safe_sub_u64. tie. Qed.
Corollary tie_SafeSubUint64_value : forall a b, (a < two64)%N ->
  safe_sub_u64 a b = match P.SafeSubUint64 a b with Some (r, go_nil) => Some r | _ => None end.
Proof. intros a b Ha. rewrite (tie_SafeSubUint64 a b Ha). destruct (safe_sub_u64 a b); reflexivity. Qed.

(* ---- builtInFunctions/esdtMetaData.go: one-field structs (the literals name every field of the generated record) ---- *)
Theorem tie_ESDTGlobalMetadataFromBytes : forall l,
  option_map P.ESDTGlobalMetadata_Paused (P.ESDTGlobalMetadataFromBytes l) = paused_from l.
Proof. intros l. unfold P.ESDTGlobalMetadataFromBytes, paused_from, flag_from. tie. Qed.
Theorem tie_ESDTGlobalMetadata_ToBytes : forall f,
  P.ESDTGlobalMetadata_ToBytes (Some {| P.ESDTGlobalMetadata_Paused := f |}) = paused_to f.
Proof. intros []; vm_compute; reflexivity. Qed.
Lemma ESDTGlobalMetadata_eta : forall m, m = {| P.ESDTGlobalMetadata_Paused := P.ESDTGlobalMetadata_Paused m |}.
Proof. intros []; reflexivity. Qed.
Theorem tie_ESDTUserMetadataFromBytes : forall l,
  option_map P.ESDTUserMetadata_Frozen (P.ESDTUserMetadataFromBytes l) = frozen_from l.
Proof. intros l. unfold P.ESDTUserMetadataFromBytes, frozen_from, flag_from. tie. Qed.
Theorem tie_ESDTUserMetadata_ToBytes : forall f,
  P.ESDTUserMetadata_ToBytes (Some {| P.ESDTUserMetadata_Frozen := f |}) = frozen_to f.
Proof. intros []; vm_compute; reflexivity. Qed.
Lemma ESDTUserMetadata_eta : forall m, m = {| P.ESDTUserMetadata_Frozen := P.ESDTUserMetadata_Frozen m |}.
Proof. intros []; reflexivity. Qed.
Theorem tie_ESDTMetadata_ToBytes_nil : P.ESDTGlobalMetadata_ToBytes None = None /\ P.ESDTUserMetadata_ToBytes None = None.
Proof. split; vm_compute; reflexivity. Qed.

(* ---- builtInFunctions/changeOwnerAddress.go: the account argument is only tested for nil; the model's flag
        [snd] of Ledger/Env.v says "the account is present" ---- *)
Theorem tie_computeGasRemaining : forall (snd_is_nil : bool) provided cost,
  P.computeGasRemaining snd_is_nil provided cost = Some (compute_gas_remaining (negb snd_is_nil) provided cost).
Proof. intros n p c. unfold P.computeGasRemaining, compute_gas_remaining. tie. Qed.

(* ---- builtInFunctions/esdtTransfer.go: mustVerifyPayable reads three fields of *vmcommon.ContractCallInput
        (CallType is promoted from the embedded VMInput).  The generated "view" record has exactly the fields the
        function reads; [cci_of] names all of them, so a newly read field breaks it.  CallType is `type CallType int`. ---- *)
Definition cci_of (i : input) : P.ContractCallInput :=
  {| P.ContractCallInput_Arguments := i_args i; P.ContractCallInput_CallType := Z.of_N (i_callType i);
     P.ContractCallInput_CallerAddr := i_caller i |}.
Theorem tie_mustVerifyPayable : forall i minLen,
  P.mustVerifyPayable (Some (cci_of i)) (Z.of_N minLen) = Some (must_verify_payable i minLen).
Proof.
  intros i m. unfold P.mustVerifyPayable, must_verify_payable, cci_of.
  cbn [P.ContractCallInput_Arguments P.ContractCallInput_CallType P.ContractCallInput_CallerAddr go_deref go_bind]. tie.
Qed.
Theorem tie_mustVerifyPayable_nil : forall m, P.mustVerifyPayable None m = None.
Proof. intros m. reflexivity. Qed.


(* ================================================================== *)
(* Part 3: headline theorems transported to the generated functions     *)
(* ================================================================== *)
(* Every statement below is obtained by rewriting with a tie theorem and applying the existing lemma of
   Helpers/HelpersProofs.v; no mathematics is re-proved. *)

Lemma P_CodeMetadataFromBytes_some l m : codemeta_from l = Some m -> P.CodeMetadataFromBytes l = Some (cm_to_P m).
Proof.
  rewrite <- tie_CodeMetadataFromBytes. destruct (P.CodeMetadataFromBytes l) as [x|]; cbn [option_map]; intros H; [|discriminate].
  inversion H. rewrite cm_to_P_of. reflexivity.
Qed.
Lemma P_flag_from_some {T} (proj : T -> bool) (mk : bool -> T) (from : bytes -> option T) (hand : bytes -> option bool) :
  (forall m, mk (proj m) = m) -> (forall l, option_map proj (from l) = hand l) ->
  forall l f, hand l = Some f -> from l = Some (mk f).
Proof.
  intros Heta Htie l f. rewrite <- Htie. destruct (from l) as [x|]; cbn [option_map]; intros H; [|discriminate].
  inversion H. rewrite Heta. reflexivity.
Qed.
Definition mkPaused (f : bool) : P.ESDTGlobalMetadata := {| P.ESDTGlobalMetadata_Paused := f |}.
Definition mkFrozen (f : bool) : P.ESDTUserMetadata := {| P.ESDTUserMetadata_Frozen := f |}.
Lemma P_paused_from_some l f : paused_from l = Some f -> P.ESDTGlobalMetadataFromBytes l = Some (mkPaused f).
Proof.
  apply (P_flag_from_some P.ESDTGlobalMetadata_Paused mkPaused); [intros []; reflexivity|exact tie_ESDTGlobalMetadataFromBytes].
Qed.
Lemma P_frozen_from_some l f : frozen_from l = Some f -> P.ESDTUserMetadataFromBytes l = Some (mkFrozen f).
Proof.
  apply (P_flag_from_some P.ESDTUserMetadata_Frozen mkFrozen); [intros []; reflexivity|exact tie_ESDTUserMetadataFromBytes].
Qed.

(* ---- C20: code metadata ---- *)
Theorem P_codemeta_bytes_roundtrip : forall a b : byte,
  exists m bs, P.CodeMetadataFromBytes [a; b] = Some m /\ P.CodeMetadata_ToBytes (Some m) = Some bs
    /\ bs = [n2b (N.land (b2n a) 5); n2b (N.land (b2n b) 2)]
    /\ P.CodeMetadataFromBytes bs = Some m
    /\ P.CodeMetadata_Upgradeable m = N.testbit (b2n a) 0 /\ P.CodeMetadata_Readable m = N.testbit (b2n a) 2
    /\ P.CodeMetadata_Payable m = N.testbit (b2n b) 1.
Proof.
  intros a b. destruct (codemeta_bytes_roundtrip a b) as (m & bs & H1 & H2 & H3 & H4 & H5 & H6 & H7).
  exists (cm_to_P m), bs. rewrite tie_CodeMetadata_ToBytes.
  repeat split; auto using P_CodeMetadataFromBytes_some.
Qed.
Theorem P_codemeta_record_roundtrip : forall m : P.CodeMetadata,
  exists bs, P.CodeMetadata_ToBytes (Some m) = Some bs /\ length bs = 2 /\ P.CodeMetadataFromBytes bs = Some m.
Proof.
  intros m. destruct (codemeta_record_roundtrip (cm_of m)) as (bs & H1 & H2 & H3).
  exists bs. rewrite <- (cm_to_P_of m), tie_CodeMetadata_ToBytes. auto using P_CodeMetadataFromBytes_some.
Qed.
Theorem P_codemeta_other_lengths : forall l, length l <> 2 ->
  P.CodeMetadataFromBytes l =
  Some {| P.CodeMetadata_Payable := false; P.CodeMetadata_Upgradeable := false; P.CodeMetadata_Readable := false |}.
Proof. intros l H. apply (P_CodeMetadataFromBytes_some l cm_empty). apply codemeta_other_lengths. exact H. Qed.
Theorem P_codemeta_never_panics : forall l (m : P.CodeMetadata),
  P.CodeMetadataFromBytes l <> None /\ P.CodeMetadata_ToBytes (Some m) <> None.
Proof.
  intros l m. split.
  - pose proof (codemeta_from_total l) as H. rewrite <- tie_CodeMetadataFromBytes in H.
    destruct (P.CodeMetadataFromBytes l); [discriminate|exfalso; apply H; reflexivity].
  - rewrite <- (cm_to_P_of m), tie_CodeMetadata_ToBytes. apply codemeta_to_total.
Qed.

(* ---- C20: ESDT freeze / pause flags ---- *)
Theorem P_frozen_bytes_roundtrip : forall a b : byte,
  exists f bs, P.ESDTUserMetadataFromBytes [a; b] = Some (mkFrozen f) /\ f = N.testbit (b2n a) 0
     /\ P.ESDTUserMetadata_ToBytes (Some (mkFrozen f)) = Some bs
     /\ bs = [n2b (N.land (b2n a) 1); x00] /\ P.ESDTUserMetadataFromBytes bs = Some (mkFrozen f).
Proof.
  intros a b. destruct (frozen_bytes_roundtrip a b) as (f & bs & H1 & H2 & H3 & H4 & H5).
  exists f, bs. unfold mkFrozen at 2. rewrite tie_ESDTUserMetadata_ToBytes. auto 6 using P_frozen_from_some.
Qed.
Theorem P_paused_bytes_roundtrip : forall a b : byte,
  exists f bs, P.ESDTGlobalMetadataFromBytes [a; b] = Some (mkPaused f) /\ f = N.testbit (b2n a) 0
     /\ P.ESDTGlobalMetadata_ToBytes (Some (mkPaused f)) = Some bs
     /\ bs = [n2b (N.land (b2n a) 1); x00] /\ P.ESDTGlobalMetadataFromBytes bs = Some (mkPaused f).
Proof.
  intros a b. destruct (paused_bytes_roundtrip a b) as (f & bs & H1 & H2 & H3 & H4 & H5).
  exists f, bs. unfold mkPaused at 2. rewrite tie_ESDTGlobalMetadata_ToBytes. auto 6 using P_paused_from_some.
Qed.
Theorem P_flag_other_lengths : forall l, length l <> 2 ->
  P.ESDTUserMetadataFromBytes l = Some (mkFrozen false) /\ P.ESDTGlobalMetadataFromBytes l = Some (mkPaused false).
Proof.
  intros l H. destruct (flag_other_lengths l H) as [H1 H2]. auto using P_frozen_from_some, P_paused_from_some.
Qed.
Theorem P_flag_never_panics : forall l f,
  P.ESDTUserMetadataFromBytes l <> None /\ P.ESDTGlobalMetadataFromBytes l <> None
  /\ P.ESDTUserMetadata_ToBytes (Some (mkFrozen f)) <> None /\ P.ESDTGlobalMetadata_ToBytes (Some (mkPaused f)) <> None.
Proof.
  intros l f. destruct (flag_from_total l) as [H1 H2].
  rewrite <- tie_ESDTUserMetadataFromBytes in H1. rewrite <- tie_ESDTGlobalMetadataFromBytes in H2.
  destruct (flag_value_roundtrip f) as [(bs1 & Hf & _) (bs2 & Hp & _)].
  unfold mkFrozen, mkPaused. rewrite tie_ESDTUserMetadata_ToBytes, tie_ESDTGlobalMetadata_ToBytes, Hf, Hp.
  repeat split; try discriminate.
  - destruct (P.ESDTUserMetadataFromBytes l); [discriminate|exfalso; apply H1; reflexivity].
  - destruct (P.ESDTGlobalMetadataFromBytes l); [discriminate|exfalso; apply H2; reflexivity].
Qed.

(* ---- C20: address classification ---- *)
Theorem P_address_classification_total : forall id a,
  P.IsSystemAccountAddress a <> None /\ P.IsSmartContractAddress a <> None
  /\ P.IsSmartContractOnMetachain id a <> None /\ P.IsAllowedToSaveUnderKey a <> None
  /\ P.IsEmptyAddress a <> None /\ P.IsMetachainIdentifier id <> None.
Proof.
  intros id a. rewrite tie_IsSystemAccountAddress, tie_IsSmartContractAddress, tie_IsSmartContractOnMetachain,
    tie_IsAllowedToSaveUnderKey, tie_IsEmptyAddress, tie_IsMetachainIdentifier.
  repeat split; try discriminate;
    [exact (is_system_account_address_total a)|exact (is_sc_address_total a)
    |exact (is_sc_on_metachain_total id a)|exact (is_allowed_to_save_under_key_total a)].
Qed.
Theorem P_meta_sc_is_sc : forall id a,
  P.IsSmartContractOnMetachain id a = Some true -> P.IsSmartContractAddress a = Some true.
Proof. intros id a. rewrite tie_IsSmartContractOnMetachain, tie_IsSmartContractAddress. apply meta_sc_is_sc. Qed.
Theorem P_system_account_classified :
  P.IsSystemAccountAddress C.SystemAccountAddress = Some true
  /\ P.IsSmartContractAddress C.SystemAccountAddress = Some false
  /\ length C.SystemAccountAddress = 32.
Proof. rewrite tie_IsSystemAccountAddress, tie_IsSmartContractAddress. exact system_account_classified. Qed.
Theorem P_esdt_sc_classified :
  P.IsSmartContractAddress C.ESDTSCAddress = Some true
  /\ P.IsSmartContractOnMetachain [xff; xff] C.ESDTSCAddress = Some true
  /\ P.IsSystemAccountAddress C.ESDTSCAddress = Some false
  /\ length C.ESDTSCAddress = 32.
Proof. rewrite tie_IsSystemAccountAddress, tie_IsSmartContractAddress, tie_IsSmartContractOnMetachain. exact esdt_sc_classified. Qed.
Theorem P_protected_key_iff : forall k,
  P.IsAllowedToSaveUnderKey k = Some false <-> exists r, k = C.ElrondProtectedKeyPrefix ++ r.
Proof. intros k. rewrite tie_IsAllowedToSaveUnderKey. apply protected_key_iff. Qed.

(* ---- C20: checked subtraction: an error exactly on underflow, else the exact difference ---- *)
Theorem P_safe_sub_spec : forall a b, (a < two64)%N ->
  exists r e, P.SafeSubUint64 a b = Some (r, e)
    /\ (e <> go_nil <-> (a < b)%N) /\ (e = go_nil -> (r + b = a)%N) /\ (e <> go_nil -> r = 0%N).
Proof.
  intros a b Ha. rewrite (tie_SafeSubUint64 a b Ha). destruct (safe_sub_spec a b) as [Hn Hs].
  destruct (safe_sub_u64 a b) as [r|] eqn:E.
  - exists r, go_nil. split; [reflexivity|]. split; [|split].
    + split; [intros H; exfalso; apply H; reflexivity|intros H; apply Hn in H; discriminate H].
    + intros _. apply Hs. reflexivity.
    + intros H. exfalso. apply H. reflexivity.
  - exists 0%N, (go_err "ErrSubtractionOverflow"). split; [reflexivity|]. split; [|split].
    + split; [intros _; apply Hn; reflexivity|intros _; discriminate].
    + intros H. discriminate H.
    + intros _. reflexivity.
Qed.

(* ---- C05: the key filter of SaveKeyValue and the contract test, as total functions (Ledger/Env.v) ---- *)
Theorem P_IsAllowedToSaveUnderKey_key_allowed : forall k, P.IsAllowedToSaveUnderKey k = Some (key_allowed k).
Proof.
  intros k. rewrite tie_IsAllowedToSaveUnderKey. unfold key_allowed.
  pose proof (is_allowed_to_save_under_key_total k). destruct (is_allowed_to_save_under_key k); congruence.
Qed.
Theorem P_IsSmartContractAddress_is_sc : forall a, P.IsSmartContractAddress a = Some (is_sc a).
Proof.
  intros a. rewrite tie_IsSmartContractAddress. unfold is_sc.
  pose proof (is_sc_address_total a). destruct (is_sc_address a); congruence.
Qed.
Theorem P_IsSystemAccountAddress_is_sys : forall a, P.IsSystemAccountAddress a = Some (is_sys a).
Proof.
  intros a. rewrite tie_IsSystemAccountAddress. unfold is_sys.
  pose proof (is_system_account_address_total a). destruct (is_system_account_address a); congruence.
Qed.
Theorem P_IsAllowedToSaveUnderKey_char : forall k,
  P.IsAllowedToSaveUnderKey k = Some (negb (prefix_of C.ElrondProtectedKeyPrefix k)).
Proof.
  intros k. pose proof (P_protected_key_iff k) as Hiff. rewrite <- prefix_of_true in Hiff.
  pose proof (P_address_classification_total [] k) as (_ & _ & _ & Ht & _).
  destruct (P.IsAllowedToSaveUnderKey k) as [[]|]; [| |congruence].
  - destruct (prefix_of C.ElrondProtectedKeyPrefix k); [|reflexivity].
    destruct Hiff as [_ H]. specialize (H eq_refl). discriminate.
  - destruct Hiff as [H _]. rewrite (H eq_refl). reflexivity.
Qed.

(* ---- C06: anything proved of the model's gas helper holds of the value the Go function returns ---- *)
Theorem P_computeGasRemaining_transport : forall (snd_is_nil : bool) provided cost (Q : N -> Prop),
  Q (compute_gas_remaining (negb snd_is_nil) provided cost) ->
  exists r, P.computeGasRemaining snd_is_nil provided cost = Some r /\ Q r.
Proof. intros n p c Q H. rewrite tie_computeGasRemaining. eauto. Qed.

(* ---- C09: the payability test of the transfer functions ---- *)
Theorem P_mustVerifyPayable_true_iff : forall i minLen,
  P.mustVerifyPayable (Some (cci_of i)) (Z.of_N minLen) = Some true <-> must_verify_payable i minLen = true.
Proof. intros i m. rewrite tie_mustVerifyPayable. split; [intros H; inversion H; reflexivity|intros ->; reflexivity]. Qed.
Theorem P_mustVerifyPayable_total : forall i minLen, P.mustVerifyPayable (Some (cci_of i)) (Z.of_N minLen) <> None.
Proof. intros i m. rewrite tie_mustVerifyPayable. discriminate. Qed.
