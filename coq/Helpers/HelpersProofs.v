(* Laws of the helper types (property C20), proved for the model in Helpers.v, which reads its
   constants (masks, lengths, addresses, prefix) from the generated gen/Consts.v. *)
From EV Require Import Base.Bytes gen.Consts Helpers.Helpers.

(* ---- every byte, for exhaustive sweeps lifted to universally quantified statements ---- *)
Definition all_bytes : list byte := map (fun n => n2b (N.of_nat n)) (seq 0 256).
Lemma in_all_bytes b : In b all_bytes.
Proof.
  unfold all_bytes. apply in_map_iff. exists (N.to_nat (b2n b)). split.
  - rewrite Nnat.N2Nat.id. apply n2b_b2n.
  - apply in_seq. pose proof (b2n_lt b). lia.
Qed.
Lemma forall_bytes (P : byte -> bool) : forallb P all_bytes = true -> forall b, P b = true.
Proof. intros H b. rewrite forallb_forall in H. apply H. apply in_all_bytes. Qed.
Lemma forall_byte_pairs (P : byte -> byte -> bool) :
  forallb (fun a => forallb (P a) all_bytes) all_bytes = true -> forall a b, P a b = true.
Proof. intros H a b. apply (forall_bytes (P a)). apply (forall_bytes _ H a). Qed.

Lemma blen_cons a (l : bytes) : blen (a :: l) = (1 + blen l)%N.
Proof. unfold blen. cbn [length]. lia. Qed.
Lemma blen_nil : blen [] = 0%N. Proof. reflexivity. Qed.

(* ---- code metadata ---- *)
Definition opt_eqb_bytes (a b : option bytes) : bool :=
  match a, b with Some x, Some y => beqb x y | None, None => true | _, _ => false end.
Definition cm_eqb (a b : codemeta) : bool :=
  Bool.eqb (cm_payable a) (cm_payable b) && Bool.eqb (cm_upgradeable a) (cm_upgradeable b)
  && Bool.eqb (cm_readable a) (cm_readable b).
Lemma cm_eqb_true a b : cm_eqb a b = true -> a = b.
Proof.
  destruct a, b; unfold cm_eqb; simpl. intros H.
  apply andb_prop in H; destruct H as [H H3]. apply andb_prop in H; destruct H as [H1 H2].
  apply eqb_prop in H1, H2, H3. congruence.
Qed.

Definition cm_pair_ok (a b : byte) : bool :=
  match codemeta_from [a; b] with
  | Some m =>
    match codemeta_to m with
    | Some bs =>
      beqb bs [n2b (N.land (b2n a) 5); n2b (N.land (b2n b) 2)]
      && match codemeta_from bs with Some m' => cm_eqb m m' | None => false end
      && Bool.eqb (cm_upgradeable m) (N.testbit (b2n a) 0)
      && Bool.eqb (cm_readable m) (N.testbit (b2n a) 2)
      && Bool.eqb (cm_payable m) (N.testbit (b2n b) 1)
    | None => false
    end
  | None => false
  end.
Lemma cm_pairs_sweep : forallb (fun a => forallb (cm_pair_ok a) all_bytes) all_bytes = true.
Proof. vm_compute. reflexivity. Qed.

Theorem codemeta_bytes_roundtrip a b :
  exists m bs, codemeta_from [a; b] = Some m /\ codemeta_to m = Some bs
    /\ bs = [n2b (N.land (b2n a) 5); n2b (N.land (b2n b) 2)]
    /\ codemeta_from bs = Some m
    /\ cm_upgradeable m = N.testbit (b2n a) 0 /\ cm_readable m = N.testbit (b2n a) 2
    /\ cm_payable m = N.testbit (b2n b) 1.
Proof.
  pose proof (forall_byte_pairs _ cm_pairs_sweep a b) as H. unfold cm_pair_ok in H.
  destruct (codemeta_from [a; b]) as [m|]; [|discriminate].
  destruct (codemeta_to m) as [bs|] eqn:Eto; [|discriminate].
  repeat (apply andb_prop in H; destruct H as [H ?]).
  apply beqb_true in H. destruct (codemeta_from bs) as [m'|] eqn:Efrom; [|discriminate].
  match goal with H : cm_eqb _ _ = true |- _ => apply cm_eqb_true in H; subst m' end.
  exists m, bs. repeat split; auto using eqb_prop.
Qed.

Theorem codemeta_record_roundtrip m :
  exists bs, codemeta_to m = Some bs /\ length bs = 2 /\ codemeta_from bs = Some m.
Proof. destruct m as [[] [] []]; eexists; vm_compute; repeat split. Qed.

Theorem codemeta_other_lengths l : length l <> 2 -> codemeta_from l = Some cm_empty.
Proof.
  intros H. unfold codemeta_from.
  destruct (blen l =? C.lengthOfCodeMetadata)%N eqn:E; [|reflexivity].
  apply N.eqb_eq in E. unfold blen in E. change C.lengthOfCodeMetadata with 2%N in E. lia.
Qed.

Theorem codemeta_from_total l : codemeta_from l <> None.
Proof.
  destruct l as [|a [|b [|c r]]]; try (rewrite codemeta_other_lengths by (simpl; lia); discriminate).
  destruct (codemeta_bytes_roundtrip a b) as (m & bs & H & _). congruence.
Qed.
Theorem codemeta_to_total m : codemeta_to m <> None.
Proof. destruct (codemeta_record_roundtrip m) as (bs & H & _). congruence. Qed.

(* ---- ESDT freeze / pause flag bytes ---- *)
Definition flag_pair_ok (from : bytes -> option bool) (to : bool -> option bytes) (a b : byte) : bool :=
  match from [a; b] with
  | Some f =>
    Bool.eqb f (N.testbit (b2n a) 0) &&
    match to f with
    | Some bs => beqb bs [n2b (N.land (b2n a) 1); x00]
                 && match from bs with Some f' => Bool.eqb f f' | None => false end
    | None => false
    end
  | None => false
  end.
Lemma frozen_sweep : forallb (fun a => forallb (flag_pair_ok frozen_from frozen_to a) all_bytes) all_bytes = true.
Proof. vm_compute. reflexivity. Qed.
Lemma paused_sweep : forallb (fun a => forallb (flag_pair_ok paused_from paused_to a) all_bytes) all_bytes = true.
Proof. vm_compute. reflexivity. Qed.

Lemma flag_pair_ok_spec from to a b : flag_pair_ok from to a b = true ->
  exists f bs, from [a; b] = Some f /\ f = N.testbit (b2n a) 0 /\ to f = Some bs
     /\ bs = [n2b (N.land (b2n a) 1); x00] /\ from bs = Some f.
Proof.
  unfold flag_pair_ok. destruct (from [a; b]) as [f|]; [|discriminate]. intros H.
  apply andb_prop in H; destruct H as [H1 H]. destruct (to f) as [bs|] eqn:Eto; [|discriminate].
  apply andb_prop in H; destruct H as [H2 H3]. destruct (from bs) as [f'|] eqn:Efrom; [|discriminate].
  apply eqb_prop in H1, H3. apply beqb_true in H2. exists f, bs. subst f'. repeat split; auto.
Qed.
Theorem frozen_bytes_roundtrip a b :
  exists f bs, frozen_from [a; b] = Some f /\ f = N.testbit (b2n a) 0 /\ frozen_to f = Some bs
     /\ bs = [n2b (N.land (b2n a) 1); x00] /\ frozen_from bs = Some f.
Proof. apply flag_pair_ok_spec. apply (forall_byte_pairs _ frozen_sweep). Qed.
Theorem paused_bytes_roundtrip a b :
  exists f bs, paused_from [a; b] = Some f /\ f = N.testbit (b2n a) 0 /\ paused_to f = Some bs
     /\ bs = [n2b (N.land (b2n a) 1); x00] /\ paused_from bs = Some f.
Proof. apply flag_pair_ok_spec. apply (forall_byte_pairs _ paused_sweep). Qed.
Theorem flag_value_roundtrip f :
  (exists bs, frozen_to f = Some bs /\ frozen_from bs = Some f) /\
  (exists bs, paused_to f = Some bs /\ paused_from bs = Some f).
Proof. destruct f; split; eexists; vm_compute; split; reflexivity. Qed.
Theorem flag_other_lengths l : length l <> 2 -> frozen_from l = Some false /\ paused_from l = Some false.
Proof.
  intros H. unfold frozen_from, paused_from, flag_from.
  destruct (blen l =? C.bif_lengthOfESDTMetadata)%N eqn:E; [|split; reflexivity].
  apply N.eqb_eq in E. unfold blen in E. change C.bif_lengthOfESDTMetadata with 2%N in E. lia.
Qed.
Theorem flag_from_total l : frozen_from l <> None /\ paused_from l <> None.
Proof.
  destruct l as [|a [|b [|c r]]]; try (destruct (flag_other_lengths _ ltac:(simpl; lia) : _ ) as [-> ->]; split; discriminate).
  - destruct (flag_other_lengths [] ltac:(simpl; lia)) as [-> ->]; split; discriminate.
  - destruct (flag_other_lengths [a] ltac:(simpl; lia)) as [-> ->]; split; discriminate.
  - destruct (frozen_bytes_roundtrip a b) as (f & bs & H & _).
    destruct (paused_bytes_roundtrip a b) as (f' & bs' & H' & _). split; congruence.
  - destruct (flag_other_lengths (a :: b :: c :: r) ltac:(simpl; lia)) as [-> ->]; split; discriminate.
Qed.

(* ---- address classification: total on every length ---- *)
Lemma slice_to_some n l : (n <= blen l)%N -> exists x, slice_to n l = Some x /\ length x = N.to_nat n.
Proof.
  intros H. unfold slice_to. fold (blen l). replace (n <=? blen l)%N with true by lia.
  eexists; split; [reflexivity|]. rewrite firstn_length. unfold blen in H. lia.
Qed.
Lemma slice_some a b l : (a <= b)%N -> (b <= blen l)%N -> exists x, slice a b l = Some x.
Proof.
  intros H1 H2. unfold slice. fold (blen l). replace ((a <=? b) && (b <=? blen l))%N with true by lia. eauto.
Qed.

Theorem is_system_account_address_total a : is_system_account_address a <> None.
Proof.
  unfold is_system_account_address.
  destruct (blen a <? C.numInitCharactersForSystemAccountAddress)%N eqn:E; [discriminate|].
  destruct (slice_to_some C.numInitCharactersForSystemAccountAddress a) as (x & -> & _); [lia|].
  vm_compute (slice_to _ C.SystemAccountAddress). discriminate.
Qed.
Theorem is_sc_address_total a : is_sc_address a <> None.
Proof.
  unfold is_sc_address.
  destruct (blen a <=? C.NumInitCharactersForScAddress)%N eqn:E; [discriminate|].
  destruct (is_empty_address a); [discriminate|].
  destruct (slice_to_some (C.NumInitCharactersForScAddress - C.VMTypeLen) a) as (x & -> & _); [|discriminate].
  change C.NumInitCharactersForScAddress with 10%N in *. change C.VMTypeLen with 2%N. lia.
Qed.
Theorem is_sc_on_metachain_total id a : is_sc_on_metachain id a <> None.
Proof.
  unfold is_sc_on_metachain.
  destruct (blen a <=? _)%N eqn:E; [discriminate|].
  destruct (negb (is_metachain_identifier id)); [discriminate|].
  pose proof (is_sc_address_total a). destruct (is_sc_address a) as [[]|]; try discriminate; try congruence.
  destruct (slice_some C.NumInitCharactersForScAddress
              (C.NumInitCharactersForScAddress + C.numInitCharactersForOnMetachainSC) a) as (x & ->);
    [lia|lia|discriminate].
Qed.
Theorem is_allowed_to_save_under_key_total k : is_allowed_to_save_under_key k <> None.
Proof.
  unfold is_allowed_to_save_under_key.
  destruct (blen k <? blen C.ElrondProtectedKeyPrefix)%N eqn:E; [discriminate|].
  destruct (slice_to_some (blen C.ElrondProtectedKeyPrefix) k) as (x & -> & _); [lia|discriminate].
Qed.

(* consistency *)
Theorem meta_sc_is_sc id a : is_sc_on_metachain id a = Some true -> is_sc_address a = Some true.
Proof.
  unfold is_sc_on_metachain. destruct (blen a <=? _)%N; [discriminate|].
  destruct (negb _); [discriminate|]. destruct (is_sc_address a) as [[]|]; try discriminate. reflexivity.
Qed.
Theorem system_account_classified :
  is_system_account_address C.SystemAccountAddress = Some true
  /\ is_sc_address C.SystemAccountAddress = Some false
  /\ length C.SystemAccountAddress = 32.
Proof. vm_compute. repeat split. Qed.
Theorem esdt_sc_classified :
  is_sc_address C.ESDTSCAddress = Some true
  /\ is_sc_on_metachain [xff; xff] C.ESDTSCAddress = Some true
  /\ is_system_account_address C.ESDTSCAddress = Some false
  /\ length C.ESDTSCAddress = 32.
Proof. vm_compute. repeat split. Qed.
Theorem empty_address_is_sc a : (10 < length a)%nat -> is_empty_address a = true -> is_sc_address a = Some true.
Proof.
  intros H E. unfold is_sc_address. rewrite E.
  replace (blen a <=? C.NumInitCharactersForScAddress)%N with false; [reflexivity|].
  unfold blen. change C.NumInitCharactersForScAddress with 10%N. lia.
Qed.
Theorem protected_key_iff k : is_allowed_to_save_under_key k = Some false <-> exists r, k = C.ElrondProtectedKeyPrefix ++ r.
Proof.
  unfold is_allowed_to_save_under_key. change (blen C.ElrondProtectedKeyPrefix) with 6%N.
  split.
  - destruct (blen k <? 6)%N eqn:E; [discriminate|]. unfold slice_to.
    fold (blen k). replace (6 <=? blen k)%N with true by lia. intros H.
    assert (H1 : beqb (firstn 6 k) C.ElrondProtectedKeyPrefix = true).
    { change (N.to_nat 6) with 6%nat in H. destruct (beqb _ _); [reflexivity|discriminate]. }
    apply beqb_true in H1. exists (skipn 6 k). rewrite <- H1. symmetry. apply firstn_skipn.
  - intros [r ->]. unfold blen. rewrite app_length. change (length C.ElrondProtectedKeyPrefix) with 6%nat.
    replace (N.of_nat (6 + length r) <? 6)%N with false by lia.
    unfold slice_to. rewrite app_length. change (length C.ElrondProtectedKeyPrefix) with 6%nat.
    replace (6 <=? N.of_nat (6 + length r))%N with true by lia.
    change (N.to_nat 6) with (length C.ElrondProtectedKeyPrefix).
    rewrite firstn_app, Nat.sub_diag, firstn_all. simpl firstn. rewrite app_nil_r, beqb_refl. reflexivity.
Qed.

(* ---- checked subtraction ---- *)
Theorem safe_sub_spec a b :
  (safe_sub_u64 a b = None <-> (a < b)%N) /\ (forall r, safe_sub_u64 a b = Some r -> (r + b = a)%N).
Proof.
  unfold safe_sub_u64. destruct (a <? b)%N eqn:E.
  - split; [split; [lia|reflexivity]|discriminate].
  - split; [split; [discriminate|lia]|]. intros r H; inversion H; lia.
Qed.

(* ---- merging output accounts ---- *)
Definition dz (d : option Z) : Z := match d with Some x => x | None => 0%Z end.
Theorem merge_delta_adds o a : oa_delta (merge o a) = Some (dz (oa_delta o) + dz (oa_delta a))%Z.
Proof. unfold merge; simpl. destruct (oa_delta o), (oa_delta a); simpl; f_equal; lia. Qed.
Theorem merge_nonce_max o a : oa_nonce (merge o a) = N.max (oa_nonce o) (oa_nonce a).
Proof. unfold merge; simpl. destruct (oa_nonce o <? oa_nonce a)%N eqn:E; lia. Qed.
Theorem merge_transfers_only_new o a :
  oa_transfers (merge o a) = oa_transfers o ++ skipn (length (oa_transfers o)) (oa_transfers a)
  /\ (length (oa_transfers a) <= length (oa_transfers o) -> oa_transfers (merge o a) = oa_transfers o)
  /\ (forall ext, oa_transfers a = oa_transfers o ++ ext -> oa_transfers (merge o a) = oa_transfers a).
Proof.
  unfold merge; simpl. split; [reflexivity|split].
  - intros H. rewrite skipn_all2 by assumption. apply app_nil_r.
  - intros ext ->. rewrite skipn_app, skipn_all, Nat.sub_diag. reflexivity.
Qed.

Lemma su_get_put m k v k' : su_get (su_put m k v) k' = if beqb k' k then Some v else su_get m k'.
Proof.
  induction m as [|[k0 v0] r IH]; simpl.
  - destruct (beqb k' k); reflexivity.
  - destruct (beqb k k0) eqn:E; simpl.
    + apply beqb_true in E. subst k0. destruct (beqb k' k); reflexivity.
    + rewrite IH. destruct (beqb k' k0) eqn:E2; [|reflexivity].
      apply beqb_true in E2. subst k0. rewrite beqb_sym, E. reflexivity.
Qed.
Fixpoint su_last (a : list (bytes * (bytes * bytes))) (k : bytes) : option (bytes * bytes) :=
  match a with [] => None | (k', v) :: r => match su_last r k with Some x => Some x | None => if beqb k k' then Some v else None end end.
Theorem merge_storage_later_wins o a k :
  su_get (merge_storage o a) k = match su_last a k with Some v => Some v | None => su_get o k end.
Proof.
  unfold merge_storage. revert o. induction a as [|[k' v] r IH]; intros o; simpl; [reflexivity|].
  rewrite IH. destruct (su_last r k); [reflexivity|]. rewrite su_get_put. destruct (beqb k k'); reflexivity.
Qed.
Theorem merge_scalars o a :
  oa_address (merge o a) = (match oa_address a with [] => oa_address o | x => x end)
  /\ oa_balance (merge o a) = (match oa_balance a with Some b => Some b | None => oa_balance o end)
  /\ oa_gasUsed (merge o a) = oa_gasUsed a.
Proof. repeat split. Qed.
