(* The "regenerated model" tie for computeGasRemaining (builtInFunctions/changeOwnerAddress.go), the helper through
   which the built-in functions report the gas they leave (property C06) = [compute_gas_remaining] of Ledger/Env.v.
   gen/Pure.v (module P) is produced from /repo's CURRENT Go sources by tools/srcgen/pure.go on every check run.
   A semantic edit of a translated Go function makes its [tie_...] theorem fail; an edit outside the translated
   subset replaces [P.f] by [P.f_unrecognised], so the theorem no longer type-checks.  The ties are split by source
   area (PureTie_Addr / _Meta / _Gas / _Payable over the shared PureTie_Base) so that an edit of one area breaks only
   the proof cones of the properties that are about that area (gen/Pure.v itself always compiles). *)
From EV Require Import Base.Bytes gen.Consts Base.GoSem gen.Pure Helpers.Helpers
  Codec.Types Ledger.Types Ledger.Env Helpers.PureTie_Base.

(* ---- builtInFunctions/changeOwnerAddress.go: the account argument is only tested for nil; the model's flag
        [snd] of Ledger/Env.v says "the account is present" ---- *)
Theorem tie_computeGasRemaining : forall (snd_is_nil : bool) provided cost,
  P.computeGasRemaining snd_is_nil provided cost = Some (compute_gas_remaining (negb snd_is_nil) provided cost).
Proof. intros n p c. unfold P.computeGasRemaining, compute_gas_remaining, sub64. tie. Qed.
#[global] Hint Rewrite tie_computeGasRemaining : pure_tie.

(* ---- C06: anything proved of the model's gas helper holds of the value the Go function returns ---- *)
Theorem P_computeGasRemaining_transport : forall (snd_is_nil : bool) provided cost (Q : N -> Prop),
  Q (compute_gas_remaining (negb snd_is_nil) provided cost) ->
  exists r, P.computeGasRemaining snd_is_nil provided cost = Some r /\ Q r.
Proof. intros n p c Q H. rewrite tie_computeGasRemaining. eauto. Qed.
