(* The "regenerated model" tie, shared part: facts about the GoSem combinators (Base/GoSem.v) and the tactics.
   gen/Pure.v (module P) is produced from /repo's CURRENT Go sources by tools/srcgen/pure.go on every check run.
   A semantic edit of a translated Go function makes its [tie_...] theorem fail; an edit outside the translated
   subset replaces [P.f] by [P.f_unrecognised], so the theorem no longer type-checks.  The ties are split by source
   area (PureTie_Addr / _Meta / _Gas / _Payable over the shared PureTie_Base) so that an edit of one area breaks only
   the proof cones of the properties that are about that area (gen/Pure.v itself always compiles). *)
(* The tie proofs avoid depending on the shape of the generated term: they unfold the combinators on both sides,
   inline the lets, split on every test ([tie_break]) and close the leaves with [lia] / congruence of the list
   operations ([tie_close]); callee functions are rewritten with their own tie theorem, private helpers are unfolded
   (see the description of [tie] below).  This file does not depend on gen/Pure.v. *)
From EV Require Import Base.Bytes gen.Consts Base.GoSem Helpers.Helpers.

Lemma go_index_nth (s : bytes) (i : nat) (b : byte) :
  nth_error s i = Some b -> go_index s (Z.of_nat i) = Some (b2n b).
Proof.
  intros H. unfold go_index, go_len.
  assert (i < length s)%nat by (apply nth_error_Some; congruence).
  replace ((0 <=? Z.of_nat i) && (Z.of_nat i <? Z.of_nat (length s)))%Z with true by lia.
  rewrite Nat2Z.id, H. reflexivity.
Qed.

(* the loop `for i := 0; i < len(l); i++ { if !p(l[i]) { return r } }` *)
Lemma go_for_from_all {R} (p : byte -> bool) (r : R) (body : Z -> option (option R)) :
  forall (l pre : bytes),
  (forall i b, nth_error (pre ++ l) i = Some b -> (length pre <= i)%nat ->
               body (Z.of_nat i) = Some (if p b then None else Some r)) ->
  go_for_from (length l) (Z.of_nat (length pre)) body = Some (if forallb p l then None else Some r).
Proof.
  induction l as [|b l IH]; intros pre H; [reflexivity|].
  cbn [length go_for_from forallb].
  rewrite (H (length pre) b); [|rewrite nth_error_app2, Nat.sub_diag by lia; reflexivity|lia].
  destruct (p b); [|reflexivity]. cbn [andb].
  replace (Z.of_nat (length pre) + 1)%Z with (Z.of_nat (length (pre ++ [b]))) by (rewrite app_length; cbn [length]; lia).
  apply IH. intros i c Hi Hl. apply H.
  - rewrite <- app_assoc in Hi. exact Hi.
  - rewrite app_length in Hl. cbn [length] in Hl. lia.
Qed.
Lemma go_for_upto_all {R} (p : byte -> bool) (r : R) (l : bytes) (body : Z -> option (option R)) :
  (forall i b, nth_error l i = Some b -> body (Z.of_nat i) = Some (if p b then None else Some r)) ->
  go_for_upto (length l) body = Some (if forallb p l then None else Some r).
Proof. intros H. apply (go_for_from_all p r body l []). intros i b Hi _. apply H. exact Hi. Qed.

(* `n := len(l); for i := 0; i < n; i++` is the loop over l *)
Lemma go_for_range_len {R} (l : bytes) (body : Z -> option (option R)) :
  go_for_range 0 (go_len l) body = go_for_upto (length l) body.
Proof. unfold go_for_range, go_for_upto, go_len. rewrite Z.sub_0_r, Nat2Z.id. reflexivity. Qed.

Example go_for_range_examples :
  go_for_range 2 5 (fun i => if (i =? 4)%Z then go_break i else go_continue) = Some (Some 4%Z)
  /\ go_for_range 2 4 (fun i => if (i =? 4)%Z then go_break i else go_continue) = Some None
  /\ go_for_range 5 2 (fun i => go_break i) = Some None
  /\ go_for_range 0 3 (fun i => if (i =? 1)%Z then None else @go_continue Z) = None.
Proof. repeat split. Qed.

(* (b & flag) for a single-bit flag: either the flag or 0, whichever test the code applies to it afterwards
   ((b & f) != 0, (b & f) == f, ...) *)
Lemma land_pow2 (x k : N) : N.land x (2 ^ k) = if N.testbit x k then (2 ^ k)%N else 0%N.
Proof.
  apply N.bits_inj. intros n. rewrite N.land_spec, N.pow2_bits_eqb.
  destruct (N.eqb_spec k n) as [->|Hne].
  - rewrite Bool.andb_true_r. destruct (N.testbit x n) eqn:E.
    + rewrite N.pow2_bits_true. reflexivity.
    + rewrite N.bits_0. reflexivity.
  - rewrite Bool.andb_false_r. destruct (N.testbit x k).
    + rewrite N.pow2_bits_false by exact Hne. reflexivity.
    + rewrite N.bits_0. reflexivity.
Qed.

(* ------------------------------------------------------------------------------------------------------------
   The generic tie tactic.  A tie proof is `intros; unfold P.<root>, <model function>; tie.` and nothing else;
   [tie] does not depend on the shape of the generated body:
     1. callees that have a tie theorem of their own are rewritten with it (rewrite database [pure_tie]; every
        PureTie_*.v file registers its theorems there);
     2. every other generated function in the goal -- the private helpers a refactoring may introduce, under any
        name -- is unfolded (unfold database [pure_gen], filled by gen/Pure.v itself);
     3. the GoSem vocabulary and the model's vocabulary are unfolded down to list operations and comparisons of
        numbers, integer constants are replaced by their values, lets are inlined, single-bit masks become
        bit tests ([tie_bits]), && || ! become conditionals;
     4. every test that occurs in the goal is split ([tie_break], innermost first);
     5. the leaves are closed by reflexivity / lia / congruence under the facts collected on the way.
   ------------------------------------------------------------------------------------------------------------ *)
Ltac tie_callees := try (progress autorewrite with pure_tie); try (repeat (progress autounfold with pure_gen)).

(* closed conversions of small index constants: Z.to_nat 1 ~> 1%nat, Z.to_nat (Z.of_N 8) ~> 8%nat, so that both sides
   name the same element.  Only an argument that is syntactically a closed arithmetic expression is evaluated, in
   binary, and converted to a unary numeral only when it is below 4096 (evaluating an open term, or a large one,
   towards nat does not terminate in practice). *)
Ltac closed_pos p := lazymatch p with xH => idtac | xO ?q => closed_pos q | xI ?q => closed_pos q end.
Ltac closed_num z :=
  lazymatch z with
  | Z0 => idtac | Zpos ?p => closed_pos p | Zneg ?p => closed_pos p | N0 => idtac | Npos ?p => closed_pos p
  | Z.of_N ?a => closed_num a | Z.to_N ?a => closed_num a | Z.opp ?a => closed_num a
  | Z.add ?a ?b => closed_num a; closed_num b | Z.sub ?a ?b => closed_num a; closed_num b
  | Z.mul ?a ?b => closed_num a; closed_num b | Z.modulo ?a ?b => closed_num a; closed_num b
  | N.add ?a ?b => closed_num a; closed_num b | N.sub ?a ?b => closed_num a; closed_num b
  | N.mul ?a ?b => closed_num a; closed_num b | N.modulo ?a ?b => closed_num a; closed_num b
  end.
Ltac tie_nums :=
  repeat match goal with
  | |- context [Z.to_nat ?z] =>
    closed_num z; let v := eval cbv in z in
    let small := eval cbv in (Z.ltb v 4096) in constr_eq small true;
    let n := eval cbv in (Z.to_nat v) in progress change (Z.to_nat z) with n
  | |- context [N.to_nat ?z] =>
    closed_num z; let v := eval cbv in z in
    let small := eval cbv in (N.ltb v 4096) in constr_eq small true;
    let n := eval cbv in (N.to_nat v) in progress change (N.to_nat z) with n
  end.
(* every constant of type N or Z whose body is a numeral (the integer constants of gen/Consts.v, whichever the
   current Go code refers to -- a refactoring may introduce new ones --, two64, ...) is replaced by its value *)
Ltac tie_consts :=
  repeat match goal with
  | |- context [?c] =>
    is_const c;
    let T := type of c in
    lazymatch T with N => idtac | Z => idtac end;
    let v := eval unfold c in c in
    lazymatch v with N0 => idtac | Npos _ => idtac | Z0 => idtac | Zpos _ => idtac | Zneg _ => idtac end;
    progress change c with v in *
  end.
(* N.land x c, c a literal power of two: the bit test *)
Ltac tie_bits :=
  repeat match goal with
  | |- context [N.land ?x ?c] =>
    lazymatch c with Npos _ => idtac end;
    let k := eval cbv in (N.log2 c) in
    let p := eval cbv in (2 ^ k)%N in
    constr_eq p c;
    replace (N.land x c) with (if N.testbit x k then c else 0%N) by (symmetry; exact (land_pow2 x k))
  end.
(* the vocabulary of both sides, down to list operations and comparisons of numbers *)
Ltac tie_unfold :=
  unfold go_slice_to, go_slice, go_slice_from, go_make_bytes, go_index, go_set_index, go_len, bytes_equal, bytes_has_prefix, bytes_has_suffix, go_deref,
    go_append, go_big_uint64_bytes, go_bytes_lit,
    go_break, go_continue, int_add, int_sub, int_mul, wrap_int, two63Z, two64Z,
    u8_add, u8_sub, u8_mul, u32_add, u32_sub, u32_mul, u64_add, u64_sub, u64_mul, u_and, u_or,
    is_empty_address, slice_to, slice, index, blen, zeros, mask, bor, two64, two32 in *;
  tie_consts;
  unfold go_ret, go_bind, option_map in *; cbv zeta; tie_nums; cbn [skipn List.map] in *;
  tie_bits;
  unfold andb, orb, negb, Bool.eqb in *.
Ltac tie_destruct x :=
  lazymatch x with
  | context [match ?y with _ => _ end] => tie_destruct y
  | _ => destruct x eqn:?
  end.
(* ([tie_bits] again at every step: a mask applied to a value bound by a panic-monad bind is only reachable once the
   bind has been split) *)
Ltac tie_break :=
  repeat (cbv beta iota; tie_bits;
          match goal with
          | |- context [match ?x with _ => _ end] => tie_destruct x
          end);
  cbv beta iota.
Ltac tie_eq := first [reflexivity | lia | congruence | progress f_equal; tie_eq].
Ltac tie_facts :=
  repeat match goal with
  | H : Some _ = Some _ |- _ => inversion H; clear H; subst
  | H : Some _ = None |- _ => discriminate H
  | H : None = Some _ |- _ => discriminate H
  | H : true = false |- _ => discriminate H
  | H : false = true |- _ => discriminate H
  | H : nth_error _ _ = None |- _ => apply nth_error_None in H
  | H : nth_error ?l ?i = Some _ |- _ =>
    lazymatch goal with
    | _ : (i < length l)%nat |- _ => fail
    | _ => assert (i < length l)%nat by (apply nth_error_Some; congruence)
    end
  end.
(* a test split on one side before the other side exposed the same test *)
Ltac tie_rew :=
  repeat match goal with
  | H : ?t = true |- context [?t] => rewrite H
  | H : ?t = false |- context [?t] => rewrite H
  end; cbv beta iota.
Ltac tie_close0 := first [tie_eq | exfalso; lia | exfalso; congruence].
(* lengths of the list operations that slices, make and append unfold to: lia knows min and - *)
#[global] Hint Rewrite Nat2Z.id Nat2N.id firstn_length skipn_length repeat_length app_length map_length : tie_len.
Ltac tie_close := tie_facts; cbn [length] in *; first [tie_close0 | tie_rew; tie_close0 | autorewrite with tie_len in *; tie_close0].
Ltac tie := tie_callees; tie_unfold; tie_break; try tie_close.
