(* The "regenerated model" tie for mustVerifyPayable (builtInFunctions/esdtTransfer.go), the test that decides whether
   a transfer asks the payability oracle (property C09) = [must_verify_payable] of Ledger/Env.v.
   gen/Pure.v (module P) is produced from /repo's CURRENT Go sources by tools/srcgen/pure.go on every check run.
   A semantic edit of a translated Go function makes its [tie_...] theorem fail; an edit outside the translated
   subset replaces [P.f] by [P.f_unrecognised], so the theorem no longer type-checks.  The ties are split by source
   area (PureTie_Addr / _Meta / _Gas / _Payable over the shared PureTie_Base) so that an edit of one area breaks only
   the proof cones of the properties that are about that area (gen/Pure.v itself always compiles). *)
From EV Require Import Base.Bytes gen.Consts Base.GoSem gen.Pure Helpers.Helpers
  Codec.Types Ledger.Types Ledger.Env Helpers.PureTie_Base.

(* ---- builtInFunctions/esdtTransfer.go: mustVerifyPayable reads three fields of *vmcommon.ContractCallInput
        (CallType is promoted from the embedded VMInput).  The generated "view" record has exactly the fields the
        function reads; [cci_of] names all of them, so a newly read field breaks it.  CallType is `type CallType int`. ---- *)
Definition cci_of (i : input) : P.ContractCallInput :=
  {| P.ContractCallInput_Arguments := i_args i; P.ContractCallInput_CallType := Z.of_N (i_callType i);
     P.ContractCallInput_CallerAddr := i_caller i |}.
Theorem tie_mustVerifyPayable : forall i minLen,
  P.mustVerifyPayable (Some (cci_of i)) (Z.of_N minLen) = Some (must_verify_payable i minLen).
Proof.
  intros i m. unfold P.mustVerifyPayable, must_verify_payable, cci_of, alen, SC.
  cbn [P.ContractCallInput_Arguments P.ContractCallInput_CallType P.ContractCallInput_CallerAddr go_deref go_bind]. tie.
Qed.
Theorem tie_mustVerifyPayable_nil : forall m, P.mustVerifyPayable None m = None.
Proof. intros m. unfold P.mustVerifyPayable. tie. Qed.

(* ---- C09: the payability test of the transfer functions ---- *)
Theorem P_mustVerifyPayable_true_iff : forall i minLen,
  P.mustVerifyPayable (Some (cci_of i)) (Z.of_N minLen) = Some true <-> must_verify_payable i minLen = true.
Proof. intros i m. rewrite tie_mustVerifyPayable. split; [intros H; inversion H; reflexivity|intros ->; reflexivity]. Qed.
Theorem P_mustVerifyPayable_total : forall i minLen, P.mustVerifyPayable (Some (cci_of i)) (Z.of_N minLen) <> None.
Proof. intros i m. rewrite tie_mustVerifyPayable. discriminate. Qed.
