(* C16 correspondence: (1) schedule acceptance — the harness hands a two-level map to the REAL
   NewBuiltInFunctionsFactory (whose only failing step with valid collaborators is createGasConfig) and
   records whether it was accepted; the model's [create_gas_config] must agree; (2) sequences of
   GasScheduleChange calls — the values the harness found in force (confirmed on the implementation by the
   charge monitors) must be the model's [in_force].  The executed built-in calls themselves are ordinary
   xcases of Corr/Exec.v (gas projection), whose x_cfg carries the schedule in force. *)
From EV Require Import Base.Bytes Base.Store Base.Monad gen.Consts Ledger.Types
  LedgerProofs.GasSpec LedgerProofs.GasSpecExact LedgerProofs.GasSchedule Corr.Exec.

Inductive scase :=
| SchedCase (m : smap) (accepted : bool)
| ChangeCase (init : smap) (changes : list smap) (in_force_values : list N).

Definition is_some {A} (o : option A) : bool := match o with Some _ => true | None => false end.

Definition check_scase (c : scase) : bool :=
  match c with
  | SchedCase m acc => Bool.eqb (is_some (create_gas_config m)) acc
  | ChangeCase init ms obs =>
    match create_gas_config init with
    | Some g0 => list_eqb N.eqb (gas_fields (in_force g0 ms)) obs
    | None => false
    end
  end.

Fixpoint smismatches_from (i : nat) (l : list scase) : list nat :=
  match l with
  | [] => []
  | c :: r => if check_scase c then smismatches_from (S i) r else i :: smismatches_from (S i) r
  end.
Definition smismatches (l : list scase) : list nat := smismatches_from 0 l.

(* the order of [gas_fields] is the order of Corr/Exec.v's [gas_of] (and of the harness' gasList) *)
Example gas_fields_order : forall l, length l = 22%nat -> gas_fields (gas_of l) = l.
Proof.
  intros l H. do 22 (destruct l as [|? l]; [discriminate H|]). destruct l; [reflexivity|discriminate H].
Qed.
