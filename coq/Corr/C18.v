(* Correspondence check for C18: the harness drives the REAL objects built by the REAL factory with
   epoch sequences and reflects on the registered objects; [check_case] recomputes with the model
   (Concurrency/Activation.v) and the binding table (Concurrency/RegistryTable.v). *)
From Coq.Strings Require Import String.
From EV Require Import Base.Bytes gen.Consts gen.Registry Concurrency.Activation Concurrency.RegistryTable.

Inductive case :=
(* IsActive of the function registered under [name], built with activation epoch [activation]:
   before any notification, and after each EpochConfirmed(e) of [es] *)
| KEpochs (name : bytes) (activation : N) (es : list N) (before : bool) (after : list bool)
(* container.Keys() (sorted) and container.Len() *)
| KKeys (keys : list bytes) (len : N)
(* reflect on container.Get(name): concrete type name, literal flag fields (freeze, wipe, pause, set — those
   present, in this order), whether *baseEnabled is embedded, and its function / activationEpoch fields *)
| KBound (name : bytes) (typ : string) (flags : list (string * bool)) (enabled : bool)
         (function : bytes) (activation cfg_activation : N).

Fixpoint flags_eqb (a b : list (string * bool)) : bool :=
  match a, b with
  | [], [] => true
  | (x, p) :: a', (y, q) :: b' => String.eqb x y && Bool.eqb p q && flags_eqb a' b'
  | _, _ => false
  end.

Definition check_case (c : case) : bool :=
  match c with
  | KEpochs name a es before after =>
    match lookup_binding name expected with
    | Some b =>
      let k := if b_epoch b then Enabled a else AlwaysActive in
      Bool.eqb (is_active (init k)) before && blist_eqb (trace (init k) es) after
    | None => false
    end
  | KKeys keys len =>
    (len =? 23)%N && Nat.eqb (List.length keys) 23 && nodupb keys
    && names_sub keys protocol_names && names_sub protocol_names keys
  | KBound name typ flags enabled function a cfg =>
    match lookup_binding name expected with
    | Some b =>
      String.eqb typ (b_type b) && flags_eqb flags (b_flags b) && Bool.eqb enabled (b_epoch b)
      && (if enabled then beqb function name && (a =? cfg)%N else true)
    | None => false
    end
  end.

Fixpoint mismatches_from (i : nat) (l : list case) : list nat :=
  match l with [] => [] | c :: r => if check_case c then mismatches_from (S i) r else i :: mismatches_from (S i) r end.
Definition mismatches (l : list case) : list nat := mismatches_from 0 l.
