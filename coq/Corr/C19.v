(* Correspondence check for C19.  The harness runs the REAL container.MutexMap, the REAL function container,
   the REAL atomic types and the REAL priced built-in functions under 2–16 goroutines, records call/return
   histories with timestamps from one global atomic counter, and lets a linearizability checker
   (porcupine) search for a linearization.  A sample of what it found is re-checked here against the SAME
   sequential specifications the theorems are about:

     KLin / KCLin : the linearization order found for a recorded history, replayed with [spec] / [cspec]
                    of Concurrency/MutexMapLin.v from the empty map; every recorded result must be the one the
                    specification computes, the order must contain every operation once, and it must respect
                    real time (no operation is placed after one that was CALLED after it had RETURNED);
     KCounterSeq / KFlagSeq / KStoreSeq / KStringSeq : single-thread scripts on the real atomic types, all results
                    and the final value recomputed with the step functions of Concurrency/Atomics.v;
     KCounterSum  : concurrent add-only mixes: the final value is initial + sum of all deltas (mod 2^64);
     KFlagFinal / KStoreFinal : concurrent writer mixes: the final value is some thread's LAST write;
     KCharge / KChargeCopy : a successful execution overlapping gas-schedule changes between schedules a and b
                    was charged the formula of Concurrency/GasScheduleAtomic.v under a or under b. *)
From Coq.Strings Require Import String.
From EV Require Import Base.Bytes Concurrency.RWLock Concurrency.MutexMapLin Concurrency.Atomics
  Concurrency.GasScheduleAtomic.

(* ---------------------------------------------------------------- linearizations *)
(* one operation of a recorded history: index in the history, call / return timestamps, operation, result *)
Record lop := LOp { lo_id : nat; lo_call : N; lo_ret : N; lo_op : op; lo_res : ret }.
Record clop := CLOp { co_id : nat; co_call : N; co_ret : N; co_op : cop; co_res : cret }.

Fixpoint memk (k : K) (l : list K) : bool := match l with [] => false | x :: r => beqb k x || memk k r end.
Definition same_keys (a b : list K) : bool :=
  Nat.eqb (List.length a) (List.length b) && forallb (fun k => memk k b) a && forallb (fun k => memk k a) b.
Definition optv_eqb (a b : option V) : bool :=
  match a, b with Some x, Some y => (x =? y)%N | None, None => true | _, _ => false end.
(* Go's map iteration order is unspecified: key lists are compared as sets *)
Definition ret_eqb (a b : ret) : bool :=
  match a, b with
  | RVal x, RVal y => optv_eqb x y
  | RBool x, RBool y => Bool.eqb x y
  | RUnit, RUnit => true
  | RNat x, RNat y => Nat.eqb x y
  | RKeys x, RKeys y => same_keys x y
  | _, _ => false
  end.
Definition cret_eqb (a b : cret) : bool :=
  match a, b with
  | CFun x, CFun y => (x =? y)%N
  | CErrInvalidKey, CErrInvalidKey | CErrNilElement, CErrNilElement | CErrEmptyName, CErrEmptyName
  | CErrExists, CErrExists | COk, COk => true
  | CNat x, CNat y => Nat.eqb x y
  | CKeysR x, CKeysR y => same_keys x y
  | _, _ => false
  end.

(* sequential replay of the linearization order *)
Fixpoint replay (m : amap) (l : list lop) : bool :=
  match l with
  | [] => true
  | x :: r => let (m', res) := spec m (lo_op x) in ret_eqb res (lo_res x) && replay m' r
  end.
Fixpoint creplay (m : amap) (l : list clop) : bool :=
  match l with
  | [] => true
  | x :: r => let (m', res) := cspec m (co_op x) in cret_eqb res (co_res x) && creplay m' r
  end.

(* real time: an operation placed later in the order must not have returned before an earlier one was called;
   and every operation's call precedes its return *)
Fixpoint realtime (l : list (N * N)) : bool :=
  match l with
  | [] => true
  | (c, r) :: rest => (c <? r)%N && forallb (fun y => negb (snd y <? c)%N) rest && realtime rest
  end.
(* the order mentions every operation of the history exactly once *)
Fixpoint nodup_nat (l : list nat) : bool :=
  match l with [] => true | x :: r => negb (existsb (Nat.eqb x) r) && nodup_nat r end.
Definition complete (n : nat) (ids : list nat) : bool :=
  Nat.eqb (List.length ids) n && forallb (fun i => Nat.ltb i n) ids && nodup_nat ids.

(* ---------------------------------------------------------------- atomics *)
Definition cres_eqb (a b : counter_res) : bool :=
  match a, b with CUnit, CUnit => true | CInt x, CInt y => (x =? y)%Z | CUint x, CUint y => (x =? y)%Z | _, _ => false end.
Definition fres_eqb (a b : flag_res) : bool :=
  match a, b with FUnit, FUnit => true | FBool x, FBool y => Bool.eqb x y | _, _ => false end.
Fixpoint list_eqb {A} (eq : A -> A -> bool) (a b : list A) : bool :=
  match a, b with [] , [] => true | x :: a', y :: b' => eq x y && list_eqb eq a' b' | _, _ => false end.
Definition script {Op} (l : list Op) : list (tid * Op) := map (fun o => (0%nat, o)) l.

Inductive width := W32 | W64 | WI64.
Definition wnorm (w : width) (z : Z) : Z :=
  match w with W32 => (z mod 4294967296)%Z | W64 => (z mod 18446744073709551616)%Z | WI64 => wrap64 z end.
Definition slres_eqb {V} (eq : V -> V -> bool) (a b : sl_res V) : bool :=
  match a, b with SUnit _, SUnit _ => true | SVal _ x, SVal _ y => eq x y | _, _ => false end.

(* the last write of each thread's program (None = the thread writes nothing) *)
Definition thread_last {Op V} (w : Op -> option V) (p : list Op) : option V :=
  fold_left (fun acc o => match w o with Some x => Some x | None => acc end) p None.
Definition final_is_some_last {Op V} (eq : V -> V -> bool) (w : Op -> option V) (init : V) (progs : list (list Op)) (final : V) : bool :=
  let lasts := map (thread_last w) progs in
  if forallb (fun x => match x with None => true | Some _ => false end) lasts
  then eq final init
  else existsb (fun x => match x with Some v => eq final v | None => false end) lasts.

(* ---------------------------------------------------------------- charges *)
Definition mk_sched (base store persist dcopy : N) : sched :=
  fun f => match f with FBase => base | FStorePerByte => store | FPersistPerByte => persist | FDataCopyPerByte => dcopy end.
(* the charge formula of charge_formula_single_schedule: base + len * persist-per-byte + chg * store-per-byte *)
Definition charge (g : sched) (len chg : N) : N := (g FBase + len * g FPersistPerByte + chg * g FStorePerByte)%N.
Definition charge_copy (g : sched) (n bytes : N) : N := (n * g FBase + bytes * g FDataCopyPerByte)%N.

(* ---------------------------------------------------------------- cases *)
Inductive case :=
| KLin (n : nat) (order : list lop)
| KCLin (n : nat) (order : list clop)
| KCounterSeq (init : Z) (ops : list counter_op) (res : list counter_res) (final : Z)
| KFlagSeq (init : N) (ops : list flag_op) (res : list flag_res) (final : N)
| KStoreSeq (w : width) (init : Z) (ops : list (sl_op Z)) (res : list (sl_res Z)) (final : Z)
| KStringSeq (ops : list (sl_op bytes)) (res : list (sl_res bytes)) (final : bytes)
| KCounterSum (init : Z) (progs : list (list counter_op)) (final : Z)
| KFlagFinal (init : N) (progs : list (list flag_op)) (final : N)
| KStoreFinal (w : width) (init : Z) (progs : list (list (sl_op Z))) (final : Z)
| KCharge (a b : N * N * N * N) (len chg : N) (observed : N)
(* sender side of ESDTNFTTransfer (n = 1) / MultiESDTNFTTransfer (n transfers): n * base + payload bytes * data-copy-per-byte *)
| KChargeCopy (a b : N * N * N * N) (n bytes : N) (observed : N).

Definition sched_of (x : N * N * N * N) : sched := let '(b, s, p, d) := x in mk_sched b s p d.

Definition check_case (c : case) : bool :=
  match c with
  | KLin n order =>
    complete n (map lo_id order) && realtime (map (fun x => (lo_call x, lo_ret x)) order) && replay [] order
  | KCLin n order =>
    complete n (map co_id order) && realtime (map (fun x => (co_call x, co_ret x)) order) && creplay [] order
  | KCounterSeq init ops res final =>
    list_eqb cres_eqb (seq_outs _ _ _ counter_apply init (script ops) 0%nat) res
    && (seq_cell _ _ _ counter_apply init (script ops) =? final)%Z
  | KFlagSeq init ops res final =>
    list_eqb fres_eqb (seq_outs _ _ _ flag_apply init (script ops) 0%nat) res
    && (seq_cell _ _ _ flag_apply init (script ops) =? final)%N
  | KStoreSeq w init ops res final =>
    list_eqb (slres_eqb Z.eqb) (seq_outs _ _ _ (sl_apply Z (wnorm w)) init (script ops) 0%nat) res
    && (seq_cell _ _ _ (sl_apply Z (wnorm w)) init (script ops) =? final)%Z
  | KStringSeq ops res final =>
    list_eqb (slres_eqb beqb) (seq_outs _ _ _ string_apply None (script ops) 0%nat) res
    && beqb (match seq_cell _ _ _ string_apply None (script ops) with Some s => s | None => [] end) final
  | KCounterSum init progs final =>
    forallb (forallb (fun o => match counter_delta o with Some _ => true | None => false end)) progs
    && (seq_cell _ _ _ counter_apply init (script (concat progs)) =? final)%Z
    && (wrap64 (init + sum_deltas (script (concat progs))) =? final)%Z
  | KFlagFinal init progs final => final_is_some_last N.eqb flag_writes init progs final
  | KStoreFinal w init progs final => final_is_some_last Z.eqb (sl_writes Z (wnorm w)) init progs final
  | KCharge a b len chg observed =>
    (observed =? charge (sched_of a) len chg)%N || (observed =? charge (sched_of b) len chg)%N
  | KChargeCopy a b n bytes observed =>
    (observed =? charge_copy (sched_of a) n bytes)%N || (observed =? charge_copy (sched_of b) n bytes)%N
  end.

Fixpoint mismatches_from (i : nat) (l : list case) : list nat :=
  match l with [] => [] | c :: r => if check_case c then mismatches_from (S i) r else i :: mismatches_from (S i) r end.
Definition mismatches (l : list case) : list nat := mismatches_from 0 l.

(* the check can fail: a stale read, a real-time violation, a lost update, a mixed charge *)
Example corr_rejects :
  check_case (KLin 2 [LOp 0 1 2 (Set_ [x61] 1%N) RUnit; LOp 1 3 4 (Get [x61]) (RVal None)]) = false
  /\ check_case (KLin 2 [LOp 1 3 4 (Get [x61]) (RVal None); LOp 0 1 2 (Set_ [x61] 1%N) RUnit]) = false
  /\ check_case (KLin 2 [LOp 0 1 4 (Set_ [x61] 1%N) RUnit; LOp 1 2 3 (Get [x61]) (RVal (Some 1%N))]) = true
  /\ check_case (KCounterSum 5%Z [[CIncrement]; [CIncrement]] 6%Z) = false
  /\ check_case (KCharge (10, 2, 3, 4)%N (100, 20, 30, 40)%N 0 5 (10 + 5 * 20)%N) = false
  /\ check_case (KCharge (10, 2, 3, 4)%N (100, 20, 30, 40)%N 0 5 (100 + 5 * 20)%N) = true
  /\ check_case (KChargeCopy (10, 2, 3, 4)%N (100, 20, 30, 40)%N 2 7 (2 * 10 + 7 * 40)%N) = false
  /\ check_case (KChargeCopy (10, 2, 3, 4)%N (100, 20, 30, 40)%N 2 7 (2 * 100 + 7 * 40)%N) = true.
Proof. vm_compute. repeat split. Qed.
