(* Correspondence at the level of one built-in call: the harness executes the real function on a
   shard state and writes pre-state, input, observed result and post-state; [check_xcase]
   recomputes the call with the model [exec] (concrete protobuf codec) and compares the
   projection selected by [proj].  Shared by most ledger properties. *)
From EV Require Import Base.Bytes Base.Store Base.Monad gen.Consts Codec.Types Codec.Proto
  Ledger.Types Ledger.Env Ledger.Funcs Ledger.Transfers.

Definition the_codec : codec :=
  {| enc_tok := enc_token; dec_tok := dec_token; enc_rol := enc_roles; dec_rol := dec_roles |}.

Record xcfg := {
  xc_shards : list (bytes * N); xc_shard_default : N;
  xc_pay : list (bytes * N); xc_pay_default : N;      (* 0 payable, 1 not payable, 2 oracle error *)
  xc_dns : list bytes; xc_enable : bool;
  xc_gas : list N }.                                   (* 16 BuiltInCost fields then 6 BaseOperationCost fields *)

Fixpoint lookupN (l : list (bytes * N)) (d : N) (k : bytes) : N :=
  match l with [] => d | (k', v) :: r => if beqb k k' then v else lookupN r d k end.
Definition gN (l : list N) (i : nat) : N := nth i l 0%N.
Definition gas_of (l : list N) : gascfg :=
  {| g_ChangeOwnerAddress := gN l 0; g_ClaimDeveloperRewards := gN l 1; g_SaveUserName := gN l 2; g_SaveKeyValue := gN l 3;
     g_ESDTTransfer := gN l 4; g_ESDTBurn := gN l 5; g_ESDTLocalMint := gN l 6; g_ESDTLocalBurn := gN l 7;
     g_ESDTNFTCreate := gN l 8; g_ESDTNFTAddQuantity := gN l 9; g_ESDTNFTBurn := gN l 10; g_ESDTNFTTransfer := gN l 11;
     g_ESDTNFTChangeCreateOwner := gN l 12; g_ESDTNFTMultiTransfer := gN l 13; g_ESDTNFTAddURI := gN l 14;
     g_ESDTNFTUpdateAttributes := gN l 15;
     g_StorePerByte := gN l 16; g_ReleasePerByte := gN l 17; g_DataCopyPerByte := gN l 18; g_PersistPerByte := gN l 19;
     g_CompilePerByte := gN l 20; g_AoTPreparePerByte := gN l 21 |}.
Definition pay_of (n : N) : payres := if (n =? 0)%N then PayYes else if (n =? 1)%N then PayNo else PayErr.

Definition env_of (c : xcfg) (self : N) (failAt : option nat) : env :=
  {| plan := fun n => match failAt with Some k => Nat.eqb n k | None => false end;
     cdc := the_codec;
     shard_of := lookupN (xc_shards c) (xc_shard_default c);
     self_shard := self;
     payable := fun a => pay_of (lookupN (xc_pay c) (xc_pay_default c) a);
     dns := xc_dns c; enable_change := xc_enable c; gas := gas_of (xc_gas c) |}.

(* an account as the harness lists it: live storage entries (sorted), balance, owner, user name, developer reward *)
Record acctl := { al_store : list (bytes * bytes); al_balance : Z; al_owner : bytes; al_username : bytes; al_reward : Z }.
Definition account_of (l : acctl) : account :=
  {| a_store := al_store l; a_balance := al_balance l; a_owner := al_owner l; a_username := al_username l; a_devreward := al_reward l |}.
Definition state_of (pre : list (bytes * acctl)) : mstate :=
  {| accts := fold_left (fun m kv => aput m (fst kv) (account_of (snd kv))) pre []; calls := 0; allocs := 0 |}.

Record xcase := {
  x_cfg : xcfg; x_self : N; x_failAt : option nat;
  x_pre : list (bytes * acctl);
  x_fn : bytes; x_in : input;
  x_status : N;                      (* 0 ok, 1 error, 2 panic *)
  x_out : output;                    (* meaningful when status = 0 *)
  x_post : list (bytes * acctl);     (* meaningful when status = 0 (failed calls are rolled back) *)
  x_deps : nat }.                    (* dependency calls made by the implementation *)

Record proj := { p_gas : bool; p_transfers : bool; p_logs : bool; p_retdata : bool; p_state : bool; p_deps : bool }.
Definition proj_all := {| p_gas := true; p_transfers := true; p_logs := true; p_retdata := true; p_state := true; p_deps := true |}.

Fixpoint list_eqb {A} (f : A -> A -> bool) (a b : list A) : bool :=
  match a, b with [], [] => true | x :: a', y :: b' => f x y && list_eqb f a' b' | _, _ => false end.
Definition transfer_eqb (a b : transfer) : bool :=
  (tr_value a =? tr_value b)%Z && (tr_gasLimit a =? tr_gasLimit b)%N && (tr_gasLocked a =? tr_gasLocked b)%N
  && beqb (tr_data a) (tr_data b) && (tr_callType a =? tr_callType b)%N && beqb (tr_sender a) (tr_sender b).
Definition outacct_eqb (a b : outacct) : bool :=
  beqb (oc_addr a) (oc_addr b) && (oc_delta a =? oc_delta b)%Z && list_eqb transfer_eqb (oc_transfers a) (oc_transfers b).
Definition log_eqb (a b : logentry) : bool :=
  beqb (lg_id a) (lg_id b) && beqb (lg_addr a) (lg_addr b) && list_eqb beqb (lg_topics a) (lg_topics b).

Definition acct_matches (a : account) (l : acctl) : bool :=
  store_matches (a_store a) (al_store l) && (a_balance a =? al_balance l)%Z && beqb (a_owner a) (al_owner l)
  && beqb (a_username a) (al_username l) && (a_devreward a =? al_reward l)%Z.
Definition empty_acctl : acctl := {| al_store := []; al_balance := 0; al_owner := []; al_username := []; al_reward := 0 |}.
Fixpoint find_acctl (l : list (bytes * acctl)) (k : bytes) : acctl :=
  match l with [] => empty_acctl | (k', v) :: r => if beqb k k' then v else find_acctl r k end.
Fixpoint has_acctl (l : list (bytes * acctl)) (k : bytes) : bool :=
  match l with [] => false | (k', _) :: r => beqb k k' || has_acctl r k end.
(* [post] lists only the accounts whose listing changed (or appeared); all others must equal [pre] *)
Definition state_matches (s : mstate) (pre post : list (bytes * acctl)) : bool :=
  forallb (fun kv => acct_matches (acct s (fst kv)) (snd kv)) post
  && forallb (fun kv => acct_matches (snd kv)
                          (if has_acctl post (fst kv) then find_acctl post (fst kv) else find_acctl pre (fst kv))) (accts s).

Definition out_matches (pr : proj) (o e : output) : bool :=
  (o_rc o =? o_rc e)%N
  && (negb (p_gas pr) || ((o_gasRemaining o =? o_gasRemaining e)%N && (sum_gasLimit o =? sum_gasLimit e)%N))
  && (negb (p_transfers pr) || list_eqb outacct_eqb (o_accounts o) (o_accounts e))
  && (negb (p_logs pr) || list_eqb log_eqb (o_logs o) (o_logs e))
  && (negb (p_retdata pr) || list_eqb beqb (o_returnData o) (o_returnData e)).

Definition run_model (c : xcase) : res err output * mstate :=
  exec (env_of (x_cfg c) (x_self c) (x_failAt c)) (x_fn c) (x_in c) (state_of (x_pre c)).

Definition check_xcase (pr : proj) (c : xcase) : bool :=
  match run_model c with
  | (Ok o, s) =>
    (x_status c =? 0)%N && out_matches pr o (x_out c)
    && (negb (p_state pr) || state_matches s (x_pre c) (x_post c))
    && (negb (p_deps pr) || Nat.eqb (calls s) (x_deps c))
  | (Err _, _) => (x_status c =? 1)%N
  | (Panic, _) => (x_status c =? 2)%N
  end.

Fixpoint xmismatches_from (pr : proj) (i : nat) (l : list xcase) : list nat :=
  match l with
  | [] => []
  | c :: r => if check_xcase pr c then xmismatches_from pr (S i) r else i :: xmismatches_from pr (S i) r
  end.
Definition xmismatches (pr : proj) (l : list xcase) : list nat := xmismatches_from pr 0 l.

(* for diagnosis: what the model computed *)
Definition model_status (c : xcase) : N := match run_model c with (Ok _, _) => 0 | (Err _, _) => 1 | (Panic, _) => 2 end%N.

(* ------------------------------------------------------------------------------------------------
   Narrow state projections.  [p_state] compares the complete raw storage of every changed account;
   a property whose theorems speak only about balances, or only about roles/flags/counters, selects
   the corresponding part of the state with an [sproj], so that a change to an observable outside the
   property cannot disturb its check. *)
Record sproj := {
  sp_tok_bytes : bool;   (* token cells (prefix ELRONDesdt): raw bytes *)
  sp_balance : bool;     (* token cells: decoded value *)
  sp_flags : bool;       (* token cells: frozen flag of the decoded entry; pause flag of the raw 2-byte value *)
  sp_meta : bool;        (* token cells: decoded type and metadata *)
  sp_roles : bool;       (* role cells (prefix ELRONDroleesdt): raw bytes *)
  sp_counters : bool;    (* counter cells (prefix ELRONDnonce): raw bytes *)
  sp_other : bool;       (* every other key: raw bytes *)
  sp_fields : bool }.    (* balance, owner, user name, developer reward of the account *)
Definition sp_all := {| sp_tok_bytes := true; sp_balance := true; sp_flags := true; sp_meta := true;
                        sp_roles := true; sp_counters := true; sp_other := true; sp_fields := true |}.
Definition sp_balances := {| sp_tok_bytes := false; sp_balance := true; sp_flags := false; sp_meta := false;
                             sp_roles := false; sp_counters := false; sp_other := false; sp_fields := false |}.
Definition sp_balances_flags := {| sp_tok_bytes := false; sp_balance := true; sp_flags := true; sp_meta := false;
                                   sp_roles := false; sp_counters := false; sp_other := false; sp_fields := false |}.
Definition sp_authority := {| sp_tok_bytes := false; sp_balance := false; sp_flags := true; sp_meta := false;
                              sp_roles := true; sp_counters := true; sp_other := false; sp_fields := true |}.
Definition sp_nonces := {| sp_tok_bytes := false; sp_balance := false; sp_flags := false; sp_meta := true;
                           sp_roles := true; sp_counters := true; sp_other := false; sp_fields := false |}.
Definition sp_metadata := {| sp_tok_bytes := false; sp_balance := false; sp_flags := false; sp_meta := true;
                             sp_roles := false; sp_counters := false; sp_other := false; sp_fields := false |}.

Definition opt_eqb {A} (f : A -> A -> bool) (a b : option A) : bool :=
  match a, b with Some x, Some y => f x y | None, None => true | _, _ => false end.
Definition metadata_eqb (a b : metadata) : bool :=
  (md_nonce a =? md_nonce b)%N && beqb (md_name a) (md_name b) && beqb (md_creator a) (md_creator b)
  && (md_royalties a =? md_royalties b)%N && beqb (md_hash a) (md_hash b)
  && list_eqb beqb (md_uris a) (md_uris b) && beqb (md_attributes a) (md_attributes b).
Definition dec_cell (b : bytes) : option token := match b with [] => None | _ => dec_token b end.
Definition cell_balance (b : bytes) : Z :=
  match dec_cell b with Some t => match t_value t with Some v => v | None => 0%Z end | None => 0%Z end.
Definition cell_frozen (b : bytes) : bool := match dec_cell b with Some t => frozen_props (t_props t) | None => false end.
Definition cell_meta (b : bytes) : option (N * option metadata) :=
  match dec_cell b with Some t => Some (t_type t, t_meta t) | None => None end.
Definition typed_meta_eqb (a b : N * option metadata) : bool :=
  (fst a =? fst b)%N && opt_eqb metadata_eqb (snd a) (snd b).

Definition cell_matches (sp : sproj) (k mv iv : bytes) : bool :=
  if prefix_of RP k then negb (sp_roles sp) || beqb mv iv
  else if prefix_of NP k then negb (sp_counters sp) || beqb mv iv
  else if prefix_of P k then
    (negb (sp_tok_bytes sp) || beqb mv iv)
    && (negb (sp_balance sp) || (cell_balance mv =? cell_balance iv)%Z)
    && (negb (sp_flags sp) || (Bool.eqb (cell_frozen mv) (cell_frozen iv) && Bool.eqb (paused_val mv) (paused_val iv)))
    && (negb (sp_meta sp) || opt_eqb typed_meta_eqb (cell_meta mv) (cell_meta iv))
  else negb (sp_other sp) || beqb mv iv.

Fixpoint lookup_listing (l : list (bytes * bytes)) (k : bytes) : bytes :=
  match l with [] => [] | (k', v) :: r => if beqb k k' then v else lookup_listing r k end.
Definition store_matches_s (sp : sproj) (s : store) (listing : list (bytes * bytes)) : bool :=
  forallb (fun kv => cell_matches sp (fst kv) (sget s (fst kv)) (snd kv)) listing
  && forallb (fun k => cell_matches sp k (sget s k) (lookup_listing listing k)) (skeys s).
Definition acct_matches_s (sp : sproj) (a : account) (l : acctl) : bool :=
  store_matches_s sp (a_store a) (al_store l)
  && (negb (sp_fields sp) || ((a_balance a =? al_balance l)%Z && beqb (a_owner a) (al_owner l)
                              && beqb (a_username a) (al_username l) && (a_devreward a =? al_reward l)%Z)).
Definition state_matches_s (sp : sproj) (s : mstate) (pre post : list (bytes * acctl)) : bool :=
  forallb (fun kv => acct_matches_s sp (acct s (fst kv)) (snd kv)) post
  && forallb (fun kv => acct_matches_s sp (snd kv)
                          (if has_acctl post (fst kv) then find_acctl post (fst kv) else find_acctl pre (fst kv))) (accts s).

Definition check_xcase_s (pr : proj) (sp : sproj) (c : xcase) : bool :=
  match run_model c with
  | (Ok o, s) =>
    (x_status c =? 0)%N && out_matches pr o (x_out c)
    && (negb (p_state pr) || state_matches_s sp s (x_pre c) (x_post c))
    && (negb (p_deps pr) || Nat.eqb (calls s) (x_deps c))
  | (Err _, _) => (x_status c =? 1)%N
  | (Panic, _) => (x_status c =? 2)%N
  end.
Fixpoint xmismatches_s_from (pr : proj) (sp : sproj) (i : nat) (l : list xcase) : list nat :=
  match l with
  | [] => []
  | c :: r => if check_xcase_s pr sp c then xmismatches_s_from pr sp (S i) r else i :: xmismatches_s_from pr sp (S i) r
  end.
Definition xmismatches_s (pr : proj) (sp : sproj) (l : list xcase) : list nat := xmismatches_s_from pr sp 0 l.
