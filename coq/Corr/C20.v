(* Correspondence check for C20: the harness runs the real helpers and writes one [case] per input
   with the implementation's results; [check_case] recomputes them with the model. *)
From EV Require Import Base.Bytes gen.Consts Helpers.Helpers.

Inductive case :=
| KCodeMeta (inp : bytes) (payable upgradeable readable : bool) (tobytes : bytes)
| KFlags (inp : bytes) (frozen paused : bool) (frozen_bytes paused_bytes : bytes)
| KAddr (a id : bytes) (sys sc empty metaid sc_on_meta allowed : bool)
| KSafeSub (a b : N) (r : option N)
| KMerge (o a r : oacct).

Definition ob_eqb (a : option bool) (b : bool) : bool := match a with Some x => Bool.eqb x b | None => false end.
Definition obytes_eqb (a : option bytes) (b : bytes) : bool := match a with Some x => beqb x b | None => false end.
Definition oN_eqb (a b : option N) : bool :=
  match a, b with Some x, Some y => (x =? y)%N | None, None => true | _, _ => false end.
Definition oZ_eqb (a b : option Z) : bool :=
  match a, b with Some x, Some y => (x =? y)%Z | None, None => true | _, _ => false end.
Definition obs_eqb (a b : option bytes) : bool :=
  match a, b with Some x, Some y => beqb x y | None, None => true | _, _ => false end.
Fixpoint list_eqb {A} (f : A -> A -> bool) (a b : list A) : bool :=
  match a, b with [] , [] => true | x :: a', y :: b' => f x y && list_eqb f a' b' | _, _ => false end.
Definition xfer_eqb (a b : xfer) : bool :=
  (x_value a =? x_value b)%Z && (x_gasLimit a =? x_gasLimit b)%N && (x_gasLocked a =? x_gasLocked b)%N
  && beqb (x_data a) (x_data b) && (x_callType a =? x_callType b)%N && beqb (x_sender a) (x_sender b).
(* storage maps are compared as maps: same keys, same value per key (the harness lists them sorted) *)
Definition su_sub (a b : list (bytes * (bytes * bytes))) : bool :=
  forallb (fun kv => match su_get b (fst kv) with
                     | Some v => beqb (fst v) (fst (snd kv)) && beqb (snd v) (snd (snd kv))
                     | None => false end) a.
Definition oacct_eqb (a b : oacct) : bool :=
  beqb (oa_address a) (oa_address b) && (oa_nonce a =? oa_nonce b)%N
  && oZ_eqb (oa_balance a) (oa_balance b) && oZ_eqb (oa_delta a) (oa_delta b)
  && su_sub (oa_storage a) (oa_storage b) && su_sub (oa_storage b) (oa_storage a)
  && beqb (oa_code a) (oa_code b) && beqb (oa_codeMetadata a) (oa_codeMetadata b)
  && obs_eqb (oa_deployer a) (oa_deployer b) && (oa_gasUsed a =? oa_gasUsed b)%N
  && list_eqb xfer_eqb (oa_transfers a) (oa_transfers b).

Definition check_case (c : case) : bool :=
  match c with
  | KCodeMeta inp p u r tb =>
    match codemeta_from inp with
    | Some m => Bool.eqb (cm_payable m) p && Bool.eqb (cm_upgradeable m) u && Bool.eqb (cm_readable m) r
                && obytes_eqb (codemeta_to m) tb
    | None => false
    end
  | KFlags inp f p fb pb =>
    ob_eqb (frozen_from inp) f && ob_eqb (paused_from inp) p
    && obytes_eqb (frozen_to f) fb && obytes_eqb (paused_to p) pb
  | KAddr a id sys sc emp mid scm allowed =>
    ob_eqb (is_system_account_address a) sys && ob_eqb (is_sc_address a) sc
    && Bool.eqb (is_empty_address a) emp && Bool.eqb (is_metachain_identifier id) mid
    && ob_eqb (is_sc_on_metachain id a) scm && ob_eqb (is_allowed_to_save_under_key a) allowed
  | KSafeSub a b r => oN_eqb (safe_sub_u64 a b) r
  | KMerge o a r => oacct_eqb (merge o a) r
  end.

Fixpoint mismatches_from (i : nat) (l : list case) : list nat :=
  match l with [] => [] | c :: r => if check_case c then mismatches_from (S i) r else i :: mismatches_from (S i) r end.
Definition mismatches (l : list case) : list nat := mismatches_from 0 l.
