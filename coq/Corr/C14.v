(* Correspondence check for C14: the harness runs the real BigIntCaster and the generated
   Marshal / Size / Reset+Unmarshal and writes one [case] per input with the observed results;
   [check_case] recomputes them with the model (Codec/BigIntCaster.v, Codec/Proto.v).
   Decode results are compared by class (value / error / panic) and, for values, field by field. *)
From EV Require Import Base.Bytes Base.Monad Codec.Types Codec.Varint Codec.BigIntCaster Codec.Proto Codec.CasterGo
  Codec.Format.

Inductive outcome (A : Type) := OVal (a : A) | OErr | OPanic.
Arguments OVal {A}. Arguments OErr {A}. Arguments OPanic {A}.

Inductive case :=
| KCasterEnc (v : option Z) (size : N) (b : bytes)           (* Size(v), bytes written by MarshalTo *)
| KCasterDec (buf : bytes) (r : outcome (option Z))          (* Unmarshal(buf) *)
| KCasterTo (v : option Z) (blen : N) (r : outcome (N * bytes))  (* MarshalTo(v, make([]byte, blen)): n, buf[:min(n, blen)] *)
| KTokEnc (t : token) (size : N) (b : bytes)                 (* t.Size(), t.Marshal() *)
| KTokDec (b : bytes) (r : outcome token)                    (* Reset(); Unmarshal(b) *)
| KTokFrom (t0 : token) (b : bytes) (r : outcome token)      (* Unmarshal(b) on a receiver holding t0 (merge) *)
| KRolesEnc (r : roles) (size : N) (b : bytes)
| KRolesDec (b : bytes) (r : outcome roles)
| KRolesFrom (r0 : roles) (b : bytes) (r : outcome roles)
| KMdEnc (m : metadata) (size : N) (b : bytes)
| KMdDec (b : bytes) (r : outcome metadata)
| KMdFrom (m0 : metadata) (b : bytes) (r : outcome metadata).

Definition oZ_eqb (a b : option Z) : bool :=
  match a, b with Some x, Some y => (x =? y)%Z | None, None => true | _, _ => false end.
Fixpoint list_eqb {A} (f : A -> A -> bool) (a b : list A) : bool :=
  match a, b with [] , [] => true | x :: a', y :: b' => f x y && list_eqb f a' b' | _, _ => false end.
Definition metadata_eqb (a b : metadata) : bool :=
  (md_nonce a =? md_nonce b)%N && beqb (md_name a) (md_name b) && beqb (md_creator a) (md_creator b)
  && (md_royalties a =? md_royalties b)%N && beqb (md_hash a) (md_hash b)
  && list_eqb beqb (md_uris a) (md_uris b) && beqb (md_attributes a) (md_attributes b).
Definition ometadata_eqb (a b : option metadata) : bool :=
  match a, b with Some x, Some y => metadata_eqb x y | None, None => true | _, _ => false end.
Definition token_eqb (a b : token) : bool :=
  (t_type a =? t_type b)%N && oZ_eqb (t_value a) (t_value b) && beqb (t_props a) (t_props b)
  && ometadata_eqb (t_meta a) (t_meta b) && beqb (t_reserved a) (t_reserved b).

Definition outcome_eqb {A} (f : A -> A -> bool) (r : R A) (o : outcome A) : bool :=
  match r, o with
  | Ok a, OVal b => f a b
  | Err _, OErr => true
  | Panic, OPanic => true
  | _, _ => false
  end.
Definition caster_outcome (r : option (option Z)) : R (option Z) :=
  match r with Some v => Ok v | None => Err EBadValue end.

Definition check_case (c : case) : bool :=
  match c with
  | KCasterEnc v size b => (caster_size v =? size)%N && beqb (caster_marshal v) b
  | KCasterDec buf r => outcome_eqb oZ_eqb (caster_outcome (caster_unmarshal buf)) r
                        && outcome_eqb oZ_eqb (caster_unmarshal_go buf) r
  | KCasterTo v blen r => outcome_eqb (fun x y => (fst x =? fst y)%N && beqb (snd x) (snd y)) (caster_marshal_to_go v blen) r
  | KTokEnc t size b => (size_token t =? size)%N && beqb (enc_token t) b && beqb (doc_token t) b
  | KTokDec b r => outcome_eqb token_eqb (dec_token_res b) r
  | KTokFrom t0 b r => outcome_eqb token_eqb (unmarshal_token t0 b) r
  | KRolesEnc x size b => (size_roles x =? size)%N && beqb (enc_roles x) b && beqb (doc_roles x) b
  | KRolesDec b r => outcome_eqb (list_eqb beqb) (dec_roles_res b) r
  | KRolesFrom r0 b r => outcome_eqb (list_eqb beqb) (unmarshal_roles r0 b) r
  | KMdEnc m size b => (size_metadata m =? size)%N && beqb (enc_metadata m) b && beqb (doc_metadata m) b
  | KMdDec b r => outcome_eqb metadata_eqb (dec_metadata_res b) r
  | KMdFrom m0 b r => outcome_eqb metadata_eqb (unmarshal_metadata m0 b) r
  end.

Fixpoint mismatches_from (i : nat) (l : list case) : list nat :=
  match l with [] => [] | c :: r => if check_case c then mismatches_from (S i) r else i :: mismatches_from (S i) r end.
Definition mismatches (l : list case) : list nat := mismatches_from 0 l.
