(* Correspondence at the level of whole histories: the harness runs a list of world operations
   (transactions, system calls, deliveries, re-deliveries, refunds) through the real built-in
   functions inside its node simulator and writes the initial world, the operations and the final
   world; [check_hcase] replays the same operations through [wrun] and compares the final world
   (every account of every shard, the in-flight messages and the failed set). *)
From EV Require Import Base.Bytes Base.Store Base.Monad gen.Consts Codec.Types Codec.Proto
  Ledger.Types Ledger.Env Ledger.Funcs Ledger.Transfers Ledger.World Corr.Exec.

Definition wcfg_of (c : xcfg) (n : N) : wcfg :=
  {| wc_cdc := the_codec; wc_shard_of := lookupN (xc_shards c) (xc_shard_default c);
     wc_payable := fun a => pay_of (lookupN (xc_pay c) (xc_pay_default c) a);
     wc_dns := xc_dns c; wc_enable := xc_enable c; wc_gas := gas_of (xc_gas c); wc_nshards := n |}.

Definition accts_of (pre : list (bytes * acctl)) : amap account :=
  fold_left (fun m kv => aput m (fst kv) (account_of (snd kv))) pre [].

Record mlist := { ml_id : nat; ml_fn : bytes; ml_caller : bytes; ml_dest : bytes; ml_args : list bytes; ml_sender : bytes }.

Record hcase := {
  h_cfg : xcfg; h_nshards : N;
  h_pre : list (list (bytes * acctl));     (* one listing per shard *)
  h_ops : list wop;
  h_post : list (list (bytes * acctl));
  h_inflight : list mlist;
  h_failed : list nat }.

Definition world_of (c : hcase) : world :=
  {| shards := map accts_of (h_pre c); inflight := []; failed := []; next_id := 0 |}.

Definition msg_matches (m : msg) (l : mlist) : bool :=
  Nat.eqb (m_id m) (ml_id l) && beqb (m_fn m) (ml_fn l) && beqb (m_caller m) (ml_caller l)
  && beqb (m_dest m) (ml_dest l) && list_eqb beqb (m_args m) (ml_args l) && beqb (m_sender m) (ml_sender l).

Definition shard_matches (m : amap account) (post : list (bytes * acctl)) : bool :=
  state_matches {| accts := m; calls := 0; allocs := 0 |} [] post.

Fixpoint list_eqb2 {A B} (f : A -> B -> bool) (a : list A) (b : list B) : bool :=
  match a, b with [], [] => true | x :: a', y :: b' => f x y && list_eqb2 f a' b' | _, _ => false end.
Definition natset_eqb (a b : list nat) : bool :=
  forallb (fun x => nat_in x b) a && forallb (fun x => nat_in x a) b.

Definition check_hcase (c : hcase) : bool :=
  let w := wrun (wcfg_of (h_cfg c) (h_nshards c)) (world_of c) (h_ops c) in
  list_eqb2 shard_matches (shards w) (h_post c)
  && list_eqb2 msg_matches (inflight w) (h_inflight c)
  && natset_eqb (failed w) (h_failed c).

Fixpoint hmismatches_from (i : nat) (l : list hcase) : list nat :=
  match l with
  | [] => []
  | c :: r => if check_hcase c then hmismatches_from (S i) r else i :: hmismatches_from (S i) r
  end.
Definition hmismatches (l : list hcase) : list nat := hmismatches_from 0 l.

(* history replay with a narrow state projection (see Corr/Exec.v sproj) *)
Definition shard_matches_s (sp : sproj) (m : amap account) (post : list (bytes * acctl)) : bool :=
  state_matches_s sp {| accts := m; calls := 0; allocs := 0 |} [] post.
Definition check_hcase_s (sp : sproj) (c : hcase) : bool :=
  let w := wrun (wcfg_of (h_cfg c) (h_nshards c)) (world_of c) (h_ops c) in
  list_eqb2 (shard_matches_s sp) (shards w) (h_post c)
  && list_eqb2 msg_matches (inflight w) (h_inflight c)
  && natset_eqb (failed w) (h_failed c).
Fixpoint hmismatches_s_from (sp : sproj) (i : nat) (l : list hcase) : list nat :=
  match l with
  | [] => []
  | c :: r => if check_hcase_s sp c then hmismatches_s_from sp (S i) r else i :: hmismatches_s_from sp (S i) r
  end.
Definition hmismatches_s (sp : sproj) (l : list hcase) : list nat := hmismatches_s_from sp 0 l.
