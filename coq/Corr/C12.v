(* Correspondence check for C12: the harness runs the real parsers / builders and writes one [case]
   per input with the implementation's observed result; [check_case] recomputes it with the model.
   Errors are compared by identity of the sentinel (a number), never by text; 11 = any other error
   (what the marshaller returned). *)
From EV Require Import Base.Bytes Base.Monad gen.Consts Codec.Types Helpers.Helpers.
From EV Require Import Parsers.Tokenize Parsers.CallArgs Parsers.DeployArgs Parsers.StorageUpdates
  Parsers.Builder Parsers.EsdtTransferParser.

Inductive outcome (A : Type) := OOk (a : A) | OErr (code : N) | OPanic.
Arguments OOk {A}. Arguments OErr {A}. Arguments OPanic {A}.

Definition err_code (e : perr) : N :=
  match e with
  | ErrTokenizeFailed => 1 | ErrInvalidDeployArguments => 2 | ErrNilFunction => 3 | ErrInvalidDataString => 4
  | ErrInvalidVMType => 5 | ErrInvalidCode => 6 | ErrInvalidCodeMetadata => 7 | ErrNotESDTTransferInput => 8
  | ErrNotEnoughArguments => 9 | ErrNilMarshalizer => 10 | ErrUnmarshal => 11
  end%N.

Definition outcome_eqb {A B} (eq : A -> B -> bool) (m : pres A) (o : outcome B) : bool :=
  match m, o with
  | Ok a, OOk b => eq a b
  | Err e, OErr c => (err_code e =? c)%N
  | Panic, OPanic => true
  | _, _ => false
  end.

Fixpoint list_eqb {A B} (f : A -> B -> bool) (a : list A) (b : list B) : bool :=
  match a, b with [], [] => true | x :: a', y :: b' => f x y && list_eqb f a' b' | _, _ => false end.
Definition pair_eqb (a b : bytes * bytes) : bool := beqb (fst a) (fst b) && beqb (snd a) (snd b).

Definition call_eqb (a b : bytes * list bytes) : bool := beqb (fst a) (fst b) && list_eqb beqb (snd a) (snd b).
(* deploy: code, vm type, (payable, upgradeable, readable), arguments *)
Definition deploy_obs := (bytes * bytes * (bool * bool * bool) * list bytes)%type.
Definition deploy_eqb (a : deploy_args) (b : deploy_obs) : bool :=
  let '(code, vm, (p, u, r), args) := b in
  beqb (da_code a) code && beqb (da_vmtype a) vm
  && Bool.eqb (cm_payable (da_codemeta a)) p && Bool.eqb (cm_upgradeable (da_codemeta a)) u
  && Bool.eqb (cm_readable (da_codemeta a)) r && list_eqb beqb (da_arguments a) args.

(* ESDT transfers: list of (token, nonce, value, type), receiver, call function, call arguments *)
Definition esdt_obs := (list (bytes * N * Z * N) * bytes * bytes * list bytes)%type.
Definition transfer_eqb (t : esdt_transfer) (o : bytes * N * Z * N) : bool :=
  let '(tok, nonce, value, ty) := o in
  beqb (et_token t) tok && (et_nonce t =? nonce)%N && (et_value t =? value)%Z && (et_type t =? ty)%N.
Definition esdt_eqb (p : parsed_transfers) (o : esdt_obs) : bool :=
  let '(ts, rcv, fn, cargs) := o in
  list_eqb transfer_eqb (pt_transfers p) ts && beqb (pt_rcv p) rcv
  && beqb (pt_call_function p) fn && list_eqb beqb (pt_call_args p) cargs.

(* the marshaller as a finite table: payload ↦ None (Unmarshal error) | Some value (nil = None) *)
Definition dec_table := list (bytes * option (option Z)).
Fixpoint table_dec (t : dec_table) (payload : bytes) : option token :=
  match t with
  | [] => None
  | (k, v) :: r =>
    if beqb k payload then match v with Some val => Some (set_value empty_token val) | None => None end
    else table_dec r payload
  end.

Definition obytes_eqb (a b : option bytes) : bool :=
  match a, b with Some x, Some y => beqb x y | None, None => true | _, _ => false end.

Inductive case :=
| KParse (data : bytes) (call : outcome (bytes * list bytes)) (deploy : outcome deploy_obs)
         (storage : outcome (list (bytes * bytes)))
| KBuildCall (f : bytes) (args : list bytes) (builder_out : bytes) (encoder_out : option bytes)
| KBuildDeploy (code vm : bytes) (p u r : bool) (args : list bytes) (data : bytes)
| KBuildStorage (l : list (bytes * bytes)) (data : bytes)
| KBuilder (ops : list bop) (out last : bytes)
| KHex (s : bytes) (decoded : option bytes)
| KHexEnc (b s : bytes)
| KEsdt (snd rcv function : bytes) (args : list bytes) (table : dec_table) (out : outcome esdt_obs).

Definition check_case (c : case) : bool :=
  match c with
  | KParse data call deploy storage =>
    outcome_eqb call_eqb (parse_call_data_r data) call
    && outcome_eqb deploy_eqb (parse_deploy_data_r data) deploy
    && outcome_eqb (list_eqb pair_eqb) (get_storage_updates_r data) storage
  | KBuildCall f args bo eo =>
    beqb (build_call f args) bo && beqb (b_to_string (builder_of f args)) bo
    && match eo with Some e => beqb (encode_message f args) e | None => true end
  | KBuildDeploy code vm p u r args data =>
    obytes_eqb (build_deploy code vm {| cm_payable := p; cm_upgradeable := u; cm_readable := r |} args) (Some data)
  | KBuildStorage l data => beqb (create_data_from_storage_update l) data
  | KBuilder ops out last => beqb (b_to_string (run_bops ops)) out && beqb (b_get_last (run_bops ops)) last
  | KHex s d => obytes_eqb (hex_dec s) d
  | KHexEnc b s => beqb (hex_enc b) s
  | KEsdt snd rcv fn args table out =>
    outcome_eqb esdt_eqb (parse_esdt_transfers (table_dec table) snd rcv fn args) out
  end.

Fixpoint mismatches_from (i : nat) (l : list case) : list nat :=
  match l with [] => [] | c :: r => if check_case c then mismatches_from (S i) r else i :: mismatches_from (S i) r end.
Definition mismatches (l : list case) : list nat := mismatches_from 0 l.
