(* C03 (authority): non-vacuity.  Concrete executions with [ideal_codec] (which is [codec_ok]), evaluated by
   vm_compute: a caller holding EVERY role except the required one is refused; a caller holding the required
   role only for a DIFFERENT token, or whose role is held by ANOTHER account, is refused; with the role the
   call succeeds (so the theorems' hypothesis "exec = Ok" is satisfiable for every gated function). *)
From Coq.Strings Require Import String.
From EV Require Import Base.Bytes Base.Store Base.Monad gen.Consts Codec.Types Codec.Proto Codec.Ideal Codec.CodecOk
  Helpers.Helpers Ledger.Types Ledger.Env Ledger.Funcs Ledger.Transfers Corr.Exec
  LedgerProofs.Defs LedgerProofs.EnvSpec LedgerProofs.Spec_Transfers_Base LedgerProofs.Spec_Supply
  LedgerProofs.Spec_Transfers_Multi LedgerProofs.C03_Authority LedgerProofs.C03_Frozen LedgerProofs.C03_SystemOnly.

Definition c03_alice : bytes := repeat x01 32.
Definition c03_bob : bytes := repeat x02 32.
Definition c03_dns : bytes := repeat x04 32.
Definition c03_tokA : bytes := str "TOK-a1b2c3"%string.
Definition c03_tokB : bytes := str "TOK-d4e5f6"%string.

Definition c03_cfg : xcfg :=
  {| xc_shards := []; xc_shard_default := 0%N; xc_pay := []; xc_pay_default := 0%N;
     xc_dns := [c03_dns]; xc_enable := false; xc_gas := repeat 10%N 22 |}.
Definition c03_E0 : env := env_of c03_cfg 0%N None.
Definition c03_EI : env :=
  {| plan := plan c03_E0; cdc := ideal_codec; shard_of := shard_of c03_E0; self_shard := self_shard c03_E0;
     payable := payable c03_E0; dns := dns c03_E0; enable_change := enable_change c03_E0; gas := gas c03_E0 |}.
Lemma c03_EI_ok : codec_ok (cdc c03_EI). Proof. exact ideal_codec_ok. Qed.

Definition c03_all_roles : list bytes :=
  [C.ESDTRoleLocalMint; C.ESDTRoleLocalBurn; C.ESDTRoleNFTCreate; C.ESDTRoleNFTAddQuantity; C.ESDTRoleNFTBurn;
   C.ESDTRoleNFTAddURI; C.ESDTRoleNFTUpdateAttributes].
Definition c03_all_but (r : bytes) : list bytes := filter (fun x => negb (beqb x r)) c03_all_roles.

Definition c03_tk (v : Z) : token :=
  {| t_type := C.Fungible; t_value := Some v; t_props := []; t_meta := None; t_reserved := [] |}.
Definition c03_nft (v : Z) (n : N) : token :=
  {| t_type := C.NonFungible; t_value := Some v; t_props := [];
     t_meta := Some {| md_nonce := n; md_name := str "n"%string; md_creator := c03_alice; md_royalties := 0;
                       md_hash := str "h"%string; md_uris := [str "u"%string]; md_attributes := [] |};
     t_reserved := [] |}.
Definition c03_acct (st : list (bytes * bytes)) : acctl :=
  {| al_store := st; al_balance := 100; al_owner := c03_bob; al_username := []; al_reward := 7 |}.
(* alice holds 50 TOK-a1b2c3 and 5 pieces of TOK-a1b2c3 nonce 1; her role lists are the parameters *)
Definition c03_state (rolesA rolesB bobA : list bytes) : mstate :=
  state_of [(c03_alice, c03_acct ([(P ++ c03_tokA, enc_token (c03_tk 50));
                                   (nft_key (P ++ c03_tokA) 1, enc_token (c03_nft 5 1))]
                                  ++ (match rolesA with [] => [] | _ => [(RP ++ c03_tokA, enc_roles rolesA)] end)
                                  ++ (match rolesB with [] => [] | _ => [(RP ++ c03_tokB, enc_roles rolesB)] end)));
            (c03_bob, c03_acct (match bobA with [] => [] | _ => [(RP ++ c03_tokA, enc_roles bobA)] end))].
Definition c03_in (args : list bytes) : input :=
  {| i_caller := c03_alice; i_rcpt := c03_alice; i_args := args; i_value := 0; i_gas := 100000; i_gasLocked := 0;
     i_callType := C.DirectCall; i_rae := false; i_snd := true; i_dst := true |}.

(* the eight gated calls of the harness' role matrix: (function, arguments, required role) *)
Definition c03_meta : list bytes := [str "name"%string; [x64]; str "hash"%string; str "attr"%string; str "uri"%string].
Definition c03_calls : list (bytes * list bytes * bytes) :=
  [ (C.BuiltInFunctionESDTLocalMint, [c03_tokA; [x05]], C.ESDTRoleLocalMint);
    (C.BuiltInFunctionESDTLocalBurn, [c03_tokA; [x01]], C.ESDTRoleLocalBurn);
    (C.BuiltInFunctionESDTNFTCreate, [c03_tokA; [x01]] ++ c03_meta, C.ESDTRoleNFTCreate);
    (C.BuiltInFunctionESDTNFTAddQuantity, [c03_tokA; [x01]; [x01]], C.ESDTRoleNFTAddQuantity);
    (C.BuiltInFunctionESDTNFTBurn, [c03_tokA; [x01]; [x01]], C.ESDTRoleNFTBurn);
    (C.BuiltInFunctionESDTNFTAddURI, [c03_tokA; [x01]; str "u2"%string], C.ESDTRoleNFTAddURI);
    (C.BuiltInFunctionESDTNFTUpdateAttributes, [c03_tokA; [x01]; str "a2"%string], C.ESDTRoleNFTUpdateAttributes) ].

(* 0 = Ok, 1 = Err EActionNotAllowed, 2 = anything else *)
Definition c03_status (E : env) (f : bytes) (args : list bytes) (s : mstate) : N :=
  match fst (exec E f (c03_in args) s) with Ok _ => 0 | Err EActionNotAllowed => 1 | _ => 2 end%N.
Definition c03_all_status (E : env) (st : bytes -> mstate) : list N :=
  map (fun x => c03_status E (fst (fst x)) (snd (fst x)) (st (snd x))) c03_calls.

(* the table is consistent with the rows used here *)
Example c03_calls_match_table :
  forallb (fun x => match role_of (fst (fst x)) with Some r => beqb r (snd x) | None => false end) c03_calls = true.
Proof. vm_compute. reflexivity. Qed.

(* with exactly the required role for that token every gated call succeeds (both codecs) *)
Example c03_with_role_accepted :
  c03_all_status c03_EI (fun r => c03_state [r] [] []) = repeat 0%N 7
  /\ c03_all_status c03_E0 (fun r => c03_state [r] [] []) = repeat 0%N 7.
Proof. vm_compute. split; reflexivity. Qed.
(* holding every role EXCEPT the required one for that token: refused *)
Example c03_all_but_required_rejected :
  c03_all_status c03_EI (fun r => c03_state (c03_all_but r) [] []) = repeat 1%N 7
  /\ c03_all_status c03_E0 (fun r => c03_state (c03_all_but r) [] []) = repeat 1%N 7.
Proof. vm_compute. split; reflexivity. Qed.
(* holding all seven roles, but for a DIFFERENT token: refused *)
Example c03_other_token_rejected :
  c03_all_status c03_EI (fun r => c03_state [] c03_all_roles []) = repeat 1%N 7
  /\ c03_all_status c03_EI (fun r => c03_state (c03_all_but r) c03_all_roles []) = repeat 1%N 7.
Proof. vm_compute. split; reflexivity. Qed.
(* the roles for that token held by ANOTHER account: refused *)
Example c03_other_account_rejected :
  c03_all_status c03_EI (fun r => c03_state [] [] c03_all_roles) = repeat 1%N 7.
Proof. vm_compute. reflexivity. Qed.

(* ESDTNFTCreate with quantity 2: the create role alone is not enough, all roles but add-quantity are not enough,
   add-quantity for the other token is not enough; create + add-quantity is.  Quantity 2^64 + 1 (low 64 bits = 1)
   still needs the add-quantity role: the comparison is on the integer. *)
Definition c03_create (q : bytes) (rolesA rolesB : list bytes) : N :=
  c03_status c03_EI C.BuiltInFunctionESDTNFTCreate ([c03_tokA; q] ++ c03_meta) (c03_state rolesA rolesB []).
Example c03_create_many :
  c03_create [x02] [C.ESDTRoleNFTCreate] [] = 1%N
  /\ c03_create [x02] (c03_all_but C.ESDTRoleNFTAddQuantity) [] = 1%N
  /\ c03_create [x02] [C.ESDTRoleNFTCreate] c03_all_roles = 1%N
  /\ c03_create [x02] [C.ESDTRoleNFTCreate; C.ESDTRoleNFTAddQuantity] [] = 0%N
  /\ c03_create [x01] [C.ESDTRoleNFTCreate] [] = 0%N
  /\ c03_create [x01; x00; x00; x00; x00; x00; x00; x00; x01] [C.ESDTRoleNFTCreate] [] = 1%N
  /\ c03_create [x01; x00; x00; x00; x00; x00; x00; x00; x01] [C.ESDTRoleNFTCreate; C.ESDTRoleNFTAddQuantity] [] = 0%N.
Proof. vm_compute. repeat split. Qed.

(* the theorem instantiated: the successful mint above implies the role is in alice's list for TOK-a1b2c3 *)
Example c03_inst_role_gated :
  exists o s', exec c03_EI C.BuiltInFunctionESDTLocalMint (c03_in [c03_tokA; [x05]]) (c03_state [C.ESDTRoleLocalMint] [] []) = (Ok o, s')
    /\ has_role c03_EI (c03_state [C.ESDTRoleLocalMint] [] []) c03_alice c03_tokA C.ESDTRoleLocalMint = true.
Proof.
  destruct (exec c03_EI C.BuiltInFunctionESDTLocalMint (c03_in [c03_tokA; [x05]]) (c03_state [C.ESDTRoleLocalMint] [] []))
    as [[o|e|] s'] eqn:Hx.
  - exists o, s'. split; [reflexivity|].
    apply (role_gated_row c03_EI c03_EI_ok _ _ _ _ _ _ Hx). vm_compute. reflexivity.
  - exfalso. revert Hx. vm_compute. discriminate.
  - exfalso. revert Hx. vm_compute. discriminate.
Qed.

(* owner / DNS guards: bob owns alice's account record in these states; carol-like callers are refused *)
Definition c03_acct_in (caller rcpt : bytes) (args : list bytes) (dst : bool) : input :=
  {| i_caller := caller; i_rcpt := rcpt; i_args := args; i_value := 0; i_gas := 1000; i_gasLocked := 0;
     i_callType := C.DirectCall; i_rae := false; i_snd := true; i_dst := dst |}.
Definition c03_ok (r : res err output * mstate) : bool := match fst r with Ok _ => true | _ => false end.
Example c03_owner_guard :
  c03_ok (exec c03_EI C.BuiltInFunctionChangeOwnerAddress (c03_acct_in c03_bob c03_alice [c03_dns] true) (c03_state [] [] [])) = true
  /\ c03_ok (exec c03_EI C.BuiltInFunctionChangeOwnerAddress (c03_acct_in c03_alice c03_alice [c03_dns] true) (c03_state [] [] [])) = false
  /\ c03_ok (exec c03_EI C.BuiltInFunctionClaimDeveloperRewards (c03_acct_in c03_bob c03_alice [] true) (c03_state [] [] [])) = true
  /\ c03_ok (exec c03_EI C.BuiltInFunctionClaimDeveloperRewards (c03_acct_in c03_dns c03_alice [] true) (c03_state [] [] [])) = false
  /\ c03_ok (exec c03_EI C.BuiltInFunctionSetUserName (c03_acct_in c03_dns c03_alice [str "name"%string] true) (c03_state [] [] [])) = true
  /\ c03_ok (exec c03_EI C.BuiltInFunctionSetUserName (c03_acct_in c03_bob c03_alice [str "name"%string] true) (c03_state [] [] [])) = false.
Proof. vm_compute. repeat split. Qed.

(* ================================================================== *)
(* system_only: non-vacuity and the witnesses for its exclusions       *)
(* ================================================================== *)
Definition c03_frozen_tk (v : Z) : token :=
  {| t_type := C.Fungible; t_value := Some v; t_props := flag_bytes true; t_meta := None; t_reserved := [] |}.
(* the storage key of a fungible token whose identifier is TOK-a1b2c3 followed by the byte 01: the SAME key as
   NFT TOK-a1b2c3 nonce 1 *)
Definition c03_alias_key : bytes := P ++ (c03_tokA ++ [x01]).
Example c03_alias_key_is_nft_key : c03_alias_key = nft_key (P ++ c03_tokA) 1.
Proof. vm_compute. reflexivity. Qed.

Definition c03_call (f : bytes) (caller rcpt : bytes) (args : list bytes) (rae snd dst : bool) : input :=
  {| i_caller := caller; i_rcpt := rcpt; i_args := args; i_value := 0; i_gas := 100000; i_gasLocked := 0;
     i_callType := C.DirectCall; i_rae := rae; i_snd := snd; i_dst := dst |}.
(* (result ok?, flag before, flag after) of account a's cell k *)
Definition c03_ff_run (f : bytes) (i : input) (s : mstate) (a k : bytes) : bool * bool * bool :=
  match exec c03_EI f i s with
  | (Ok _, s') => (true, fungible_frozen c03_EI s a k, fungible_frozen c03_EI s' a k)
  | _ => (false, false, false)
  end.

(* positive: the system contract freezes, unfreezes and wipes alice's entry; a pause by it sets the flag *)
Definition c03_s_plain : mstate := state_of [(c03_alice, c03_acct [(P ++ c03_tokA, enc_token (c03_tk 50))])].
Definition c03_s_frozen : mstate := state_of [(c03_alice, c03_acct [(P ++ c03_tokA, enc_token (c03_frozen_tk 50))])].
Example c03_sc_changes_flags :
  c03_ff_run C.BuiltInFunctionESDTFreeze (c03_call C.BuiltInFunctionESDTFreeze SC c03_alice [c03_tokA] false false true)
             c03_s_plain c03_alice (P ++ c03_tokA) = (true, false, true)
  /\ c03_ff_run C.BuiltInFunctionESDTUnFreeze (c03_call C.BuiltInFunctionESDTUnFreeze SC c03_alice [c03_tokA] false false true)
             c03_s_frozen c03_alice (P ++ c03_tokA) = (true, true, false)
  /\ c03_ff_run C.BuiltInFunctionESDTWipe (c03_call C.BuiltInFunctionESDTWipe SC c03_alice [c03_tokA] false false true)
             c03_s_frozen c03_alice (P ++ c03_tokA) = (true, true, false)
  /\ c03_ok (exec c03_EI C.BuiltInFunctionESDTFreeze (c03_call C.BuiltInFunctionESDTFreeze c03_bob c03_alice [c03_tokA] false false true) c03_s_plain) = false
  /\ c03_ok (exec c03_EI C.BuiltInFunctionESDTWipe (c03_call C.BuiltInFunctionESDTWipe c03_bob c03_alice [c03_tokA] false false true) c03_s_frozen) = false
  /\ c03_ok (exec c03_EI C.BuiltInFunctionESDTPause (c03_call C.BuiltInFunctionESDTPause c03_bob SYS [c03_tokA] false false true) c03_s_plain) = false
  /\ c03_ok (exec c03_EI C.BuiltInFunctionSetESDTRole (c03_call C.BuiltInFunctionSetESDTRole c03_bob c03_alice [c03_tokA; C.ESDTRoleLocalMint] false false true) c03_s_plain) = false.
Proof. vm_compute. repeat split. Qed.
(* the theorem instantiated: the successful freeze above changed a frozen flag, hence its caller is SC *)
Example c03_inst_system_only :
  exists o s', exec c03_EI C.BuiltInFunctionESDTFreeze (c03_call C.BuiltInFunctionESDTFreeze SC c03_alice [c03_tokA] false false true) c03_s_plain = (Ok o, s')
    /\ frozen_changed c03_EI C.BuiltInFunctionESDTFreeze (c03_call C.BuiltInFunctionESDTFreeze SC c03_alice [c03_tokA] false false true) c03_s_plain s'.
Proof.
  destruct (exec c03_EI C.BuiltInFunctionESDTFreeze (c03_call C.BuiltInFunctionESDTFreeze SC c03_alice [c03_tokA] false false true) c03_s_plain)
    as [[o|e|] s'] eqn:Hx; [|exfalso; revert Hx; vm_compute; discriminate|exfalso; revert Hx; vm_compute; discriminate].
  exists o, s'. split; [reflexivity|]. exists c03_alice, c03_tokA.
  assert (Hs : s' = snd (exec c03_EI C.BuiltInFunctionESDTFreeze (c03_call C.BuiltInFunctionESDTFreeze SC c03_alice [c03_tokA] false false true) c03_s_plain))
    by (rewrite Hx; reflexivity).
  split; [rewrite Hs; vm_compute; discriminate|]. split; [vm_compute; discriminate|]. split; [reflexivity|].
  unfold no_alias. vm_compute. exact I.
Qed.

(* ---- witnesses: each exclusion of [frozen_changed] is needed ---- *)
(* F4b (known finding): alice holds NFT TOK-a1b2c3 under nonce-2 key but with METADATA nonce 1, and a frozen fungible
   entry under the aliasing key; ESDTNFTAddQuantity(TOK-a1b2c3, nonce 2) by alice (who holds the role) stores the entry
   back under the metadata nonce and thereby replaces the frozen fungible entry: flag true -> false, caller <> SC *)
Definition c03_s_f4b : mstate :=
  state_of [(c03_alice, c03_acct [(nft_key (P ++ c03_tokA) 2, enc_token (c03_nft 5 1));
                                  (c03_alias_key, enc_token (c03_frozen_tk 7));
                                  (RP ++ c03_tokA, enc_roles [C.ESDTRoleNFTAddQuantity])])].
Example c03_frozen_refuted_f4b :
  c03_ff_run C.BuiltInFunctionESDTNFTAddQuantity (c03_in [c03_tokA; [x02]; [x01]]) c03_s_f4b c03_alice c03_alias_key
  = (true, true, false).
Proof. vm_compute. reflexivity. Qed.
Example c03_f4b_not_consistent :
  ~ lookup_consistent c03_EI c03_s_f4b c03_alice (P ++ c03_tokA) 2.
Proof. intros H. specialize (H (c03_nft 5 1)). vm_compute in H. specialize (H eq_refl). discriminate H. Qed.
(* the same aliasing through ESDTNFTCreate: the next nonce is 1, the cell under it holds the frozen fungible entry *)
Definition c03_s_create_alias : mstate :=
  state_of [(c03_alice, c03_acct [(c03_alias_key, enc_token (c03_frozen_tk 7));
                                  (RP ++ c03_tokA, enc_roles [C.ESDTRoleNFTCreate])])].
Example c03_frozen_refuted_create_alias :
  c03_ff_run C.BuiltInFunctionESDTNFTCreate (c03_in ([c03_tokA; [x01]] ++ c03_meta)) c03_s_create_alias c03_alice c03_alias_key
  = (true, true, false).
Proof. vm_compute. reflexivity. Qed.
(* ReturnCallAfterError set on a transaction (not reachable: the protocol sets it on refunds only): the frozen check is
   skipped, a MultiESDTNFTTransfer of the whole frozen holding deletes the entry and hands the frozen Properties to bob *)
Definition c03_s_rae : mstate :=
  state_of [(c03_alice, c03_acct [(P ++ c03_tokA, enc_token (c03_frozen_tk 50))]); (c03_bob, c03_acct [])].
Definition c03_in_rae (rae : bool) : input :=
  c03_call C.BuiltInFunctionMultiESDTNFTTransfer c03_alice c03_alice [c03_bob; [x01]; c03_tokA; []; [x32]] rae true true.
Example c03_frozen_refuted_rae :
  c03_ff_run C.BuiltInFunctionMultiESDTNFTTransfer (c03_in_rae true) c03_s_rae c03_alice (P ++ c03_tokA) = (true, true, false)
  /\ c03_ff_run C.BuiltInFunctionMultiESDTNFTTransfer (c03_in_rae true) c03_s_rae c03_bob (P ++ c03_tokA) = (true, false, true)
  /\ c03_ok (exec c03_EI C.BuiltInFunctionMultiESDTNFTTransfer (c03_in_rae false) c03_s_rae) = false.
Proof. vm_compute. repeat split. Qed.
(* without its side conditions the frozen clause of system_only is false *)
Theorem system_only_frozen_unconditional_refuted :
  ~ (forall (E : env), codec_ok (cdc E) -> forall f i s o s' a x,
       exec E f i s = (Ok o, s') -> i_rae i = false -> a <> SC ->
       fungible_frozen E s' a (P ++ x) <> fungible_frozen E s a (P ++ x) ->
       i_caller i = SC \/ (f = C.BuiltInFunctionESDTNFTCreateRoleTransfer /\ i_snd i = false /\ i_caller i <> SC)).
Proof.
  intros H.
  destruct (exec c03_EI C.BuiltInFunctionESDTNFTCreate (c03_in ([c03_tokA; [x01]] ++ c03_meta)) c03_s_create_alias)
    as [[o|e|] s'] eqn:Hx; [|revert Hx; vm_compute; discriminate|revert Hx; vm_compute; discriminate].
  assert (Hs : s' = snd (exec c03_EI C.BuiltInFunctionESDTNFTCreate (c03_in ([c03_tokA; [x01]] ++ c03_meta)) c03_s_create_alias))
    by (rewrite Hx; reflexivity).
  destruct (H c03_EI c03_EI_ok _ _ _ _ _ c03_alice (c03_tokA ++ [x01]) Hx eq_refl) as [Hc|(Hf & _)].
  - vm_compute. discriminate.
  - rewrite Hs. vm_compute. discriminate.
  - vm_compute in Hc. discriminate Hc.
  - vm_compute in Hf. discriminate Hf.
Qed.
