(* Capstone, part 4: boolean deciders of [honest_op] / [honest_ops] / [creator_ok] / [honest_ops7] with soundness
   lemmas, so that the capstone theorems can be instantiated on concrete histories by vm_compute (the checker is
   evaluated ALONG the run: each operation is decided at the world reached by its predecessors). *)
From Coq.Strings Require Import String.
From Coq Require Import Lia List.
From EV Require Import Base.Bytes Base.Store Base.Monad gen.Consts Codec.Types Helpers.Helpers
  Ledger.Types Ledger.Env Ledger.Funcs Ledger.Transfers Ledger.World
  LedgerProofs.Defs LedgerProofs.EnvSpec LedgerProofs.WorldDefs LedgerProofs.WorldSpec
  LedgerProofs.Spec_Transfers_Base LedgerProofs.Spec_Transfers_Multi LedgerProofs.Spec_Supply
  LedgerProofs.C01_World LedgerProofs.C01_Step LedgerProofs.C01_Check LedgerProofs.C01_Consistent
  LedgerProofs.C02_Effects LedgerProofs.C05_Footprint LedgerProofs.C07_Exec
  LedgerProofs.C15_Inv LedgerProofs.NoPanicWorldEmit
  LedgerProofs.Supply_Base LedgerProofs.Supply_Calls LedgerProofs.Supply_Step LedgerProofs.Supply_Check
  LedgerProofs.ValidIds_Id LedgerProofs.ValidIds_Inv
  LedgerProofs.Capstone_Defs LedgerProofs.Capstone_Step LedgerProofs.Capstone_Histories.
Import ListNotations.

Section Check.
  Variable c : wcfg.
  Notation shof := (wc_shard_of c).

  Definition call_ids_b (fn : bytes) (i : input) : bool := forallb valid_id_b (named_tokens fn i).
  Lemma call_ids_b_ok fn i : call_ids_b fn i = true -> call_ids fn i.
  Proof.
    unfold call_ids_b, call_ids. intros H. apply Forall_forall. intros x Hx.
    rewrite forallb_forall in H. apply valid_id_b_sound. apply H. exact Hx.
  Qed.
  Definition user_ids_b (fn : bytes) (i : input) : bool :=
    call_ids_b fn i && (if beqb fn FMulti then forallb (fun x => valid_id_b (rt_tok x)) (multi_snd_triples i) else true).
  Lemma user_ids_b_ok fn i : user_ids_b fn i = true -> user_ids fn i.
  Proof.
    unfold user_ids_b, user_ids. intros H. apply andb_prop in H as [H1 H2]. split; [apply call_ids_b_ok; exact H1|].
    intros ->. rewrite beqb_refl in H2. apply Forall_forall. intros x Hx. rewrite forallb_forall in H2.
    apply valid_id_b_sound. apply H2. exact Hx.
  Qed.

  Definition create_fresh_b (w : world) (sh : N) (i : input) : bool :=
    (balance (env_at c sh) (sstate w sh) (i_caller i) (nft_key (P ++ argn i 0) (create_nonce i (sstate w sh))) =? 0)%Z.
  Definition pause_clear_b (w : world) (sh : N) (i : input) : bool :=
    (balance (env_at c sh) (sstate w sh) SYS (P ++ argn i 0) =? 0)%Z.

  Definition user_call_b (w : world) (sh : N) (fn : bytes) (i : input) : bool :=
    origin_b c sh i && negb (beqb (i_caller i) SC) && user_ids_b fn i
    && (if beqb fn FCreate then create_fresh_b w sh i else true).
  Lemma user_call_b_ok w sh fn i : user_call_b w sh fn i = true -> user_call c w sh fn i.
  Proof.
    unfold user_call_b, user_call. intros H. apply andb_prop in H as [H H4]. apply andb_prop in H as [H H3].
    apply andb_prop in H as [H1 H2]. split; [apply origin_b_ok; exact H1|]. split; [|split; [apply user_ids_b_ok; exact H3|]].
    - intros He. rewrite He, beqb_refl in H2. discriminate H2.
    - intros ->. rewrite beqb_refl in H4. apply Z.eqb_eq. exact H4.
  Qed.

  Definition roles_disciplined_b (E : env) (s : mstate) (fn : bytes) (i : input) : bool :=
    if beqb fn FSetRole then
      match nth_error (i_args i) 0 with
      | Some tok => nodupb (roles_at E s (i_rcpt i) tok ++ skipn 1 (i_args i))
      | None => true
      end
    else true.
  Lemma roles_disciplined_b_ok E s fn i : roles_disciplined_b E s fn i = true -> roles_disciplined E s fn i.
  Proof.
    unfold roles_disciplined_b, roles_disciplined. intros H -> tok Ht. rewrite beqb_refl, Ht in H.
    apply nodupb_ok. exact H.
  Qed.

  Definition system_call_b (w : world) (sh : N) (fn : bytes) (i : input) : bool :=
    bytes_in fn sys_fns && beqb (i_caller i) SC && negb (i_snd i) && i_dst i && call_ids_b fn i
    && (if pause_fn_b fn then beqb (i_rcpt i) SYS && pause_clear_b w sh i
        else (shof (i_rcpt i) =? sh)%N && negb (beqb (i_rcpt i) SC))
    && roles_disciplined_b (env_at c sh) (sstate w sh) fn i.
  Lemma pause_fn_b_spec fn : pause_fn_b fn = true <-> is_pause_fn fn.
  Proof.
    unfold pause_fn_b, is_pause_fn. rewrite Bool.orb_true_iff, !beqb_true. tauto.
  Qed.
  Lemma system_call_b_ok w sh fn i : system_call_b w sh fn i = true -> system_call c w sh fn i.
  Proof.
    unfold system_call_b, system_call. intros H. apply andb_prop in H as [H H7]. apply andb_prop in H as [H H6].
    apply andb_prop in H as [H H5]. apply andb_prop in H as [H H4]. apply andb_prop in H as [H H3].
    apply andb_prop in H as [H1 H2].
    split; [apply bytes_in_true; exact H1|]. split; [apply beqb_true; exact H2|].
    split; [destruct (i_snd i); [discriminate H3|reflexivity]|]. split; [exact H4|].
    split; [apply call_ids_b_ok; exact H5|]. split; [|split; [|apply roles_disciplined_b_ok; exact H7]].
    - intros Hp. apply pause_fn_b_spec in Hp. rewrite Hp in H6. apply andb_prop in H6 as [Ha Hb].
      split; [apply beqb_true; exact Ha|apply Z.eqb_eq; exact Hb].
    - intros Hnp. destruct (pause_fn_b fn) eqn:Ep; [exfalso; apply Hnp; apply pause_fn_b_spec; exact Ep|].
      apply andb_prop in H6 as [Ha Hb]. split; [apply N.eqb_eq; exact Ha|].
      intros He. rewrite He, beqb_refl in Hb. discriminate Hb.
  Qed.

  Definition honest_op_b (w : world) (op : wop) : bool :=
    match op with
    | OCall sh fn i => (alen (i_args i) <? 2 ^ 40)%N && (user_call_b w sh fn i || system_call_b w sh fn i)
    | ODeliver _ _ | ORefund _ _ => true
    | ORedeliver _ _ => false
    end.
  Lemma honest_op_b_ok w op : honest_op_b w op = true -> honest_op c w op.
  Proof.
    destruct op as [sh fn i|? ?|? ?|? ?]; cbn [honest_op_b honest_op]; intros H; try exact I; try discriminate H.
    apply andb_prop in H as [H1 H2]. split; [apply N.ltb_lt; exact H1|].
    apply Bool.orb_prop in H2 as [H2|H2]; [left; apply user_call_b_ok|right; apply system_call_b_ok]; exact H2.
  Qed.
  Fixpoint honest_ops_b (w : world) (ops : list wop) : bool :=
    match ops with
    | [] => true
    | op :: r => honest_op_b w op && honest_ops_b (wstep c w op) r
    end.
  Lemma honest_ops_b_ok ops : forall w, honest_ops_b w ops = true -> honest_ops c w ops.
  Proof.
    induction ops as [|op r IH]; intros w H; [exact I|]. cbn [honest_ops_b] in H. apply andb_prop in H as [H1 H2].
    split; [apply honest_op_b_ok; exact H1|apply IH; exact H2].
  Qed.

  (* ---------------- level 2 ---------------- *)
  Definition creator_ok_b (G : list bytes) (w : world) (op : wop) : bool :=
    match op with
    | OCall sh fn i =>
      (if beqb (i_caller i) SC then
         (if (beqb fn FSetRole && bytes_in CR (tl (i_args i)))%bool then negb (bytes_in (argn i 0) G) else true)
         && (if beqb fn FUnSetRole then negb (bytes_in CR (tl (i_args i))) else true)
         && (if beqb fn CRT then has_role (env_at c sh) (sstate w sh) (i_rcpt i) (argn i 0) CR else true)
       else true)
      && (if beqb fn FCreate then (counter_at (sstate w sh) (i_caller i) (argn i 0) + 1 <? two64)%N else true)
    | _ => true
    end.
  Lemma creator_ok_b_ok G w op : creator_ok_b G w op = true -> creator_ok c G w op.
  Proof.
    destruct op as [sh fn i|? ?|? ?|? ?]; cbn [creator_ok_b creator_ok]; intros H; try exact I.
    apply andb_prop in H as [H1 H2]. split.
    - intros Hsc. rewrite Hsc, beqb_refl in H1. apply andb_prop in H1 as [H1 Hc3]. apply andb_prop in H1 as [Hc1 Hc2].
      split; [|split].
      + intros -> Hin Hg. rewrite beqb_refl in Hc1. apply bytes_in_true in Hin. rewrite Hin in Hc1. cbn [andb] in Hc1.
        apply bytes_in_true in Hg. rewrite Hg in Hc1. discriminate Hc1.
      + intros -> Hin. rewrite beqb_refl in Hc2. apply bytes_in_true in Hin. rewrite Hin in Hc2. discriminate Hc2.
      + intros ->. rewrite beqb_refl in Hc3. exact Hc3.
    - intros ->. rewrite beqb_refl in H2. apply N.ltb_lt. exact H2.
  Qed.
  Fixpoint honest_ops7_b (G : list bytes) (w : world) (ops : list wop) : bool :=
    match ops with
    | [] => true
    | op :: r => honest_op_b w op && creator_ok_b G w op && honest_ops7_b (granted_after G op) (wstep c w op) r
    end.
  Lemma honest_ops7_b_ok ops : forall G w, honest_ops7_b G w ops = true -> honest_ops7 c G w ops.
  Proof.
    induction ops as [|op r IH]; intros G w H; [exact I|]. cbn [honest_ops7_b] in H.
    apply andb_prop in H as [H H3]. apply andb_prop in H as [H1 H2].
    split; [apply honest_op_b_ok; exact H1|]. split; [apply creator_ok_b_ok; exact H2|apply IH; exact H3].
  Qed.
End Check.

Print Assumptions honest_ops_b_ok.
Print Assumptions honest_ops7_b_ok.
