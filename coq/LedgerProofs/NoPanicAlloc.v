(* C11 (totality), part 4: hypothesis-free facts about EVERY run of [exec]:
   [exec_shape]    every Ok output carries return code Ok;
   [alloc_bounded] the number of slice elements requested from make() during a call is at most
                   2 * (number of arguments) + 1, whatever the result (Ok, Err or Panic) — never a number
                   decoded from an argument. *)
From Coq Require Import Lia.
From EV Require Import Base.Bytes Base.Store Base.Monad gen.Consts Codec.Types Helpers.Helpers
  Ledger.Types Ledger.Env Ledger.Funcs Ledger.Transfers LedgerProofs.Defs LedgerProofs.EnvSpec.

Notation MT := (@M err mstate).

(* ================= shape ================= *)
Definition shape {A} (m : MT A) (Q : A -> Prop) : Prop := forall s a s', m s = (Ok a, s') -> Q a.
Lemma shape_ret {A} (a : A) (Q : A -> Prop) : Q a -> shape (ret a) Q.
Proof. intros H s x s' Hx. apply ret_ok in Hx as [-> _]. exact H. Qed.
Lemma shape_fail {A} e (Q : A -> Prop) : shape (fail e : MT A) Q.
Proof. intros s x s' Hx. discriminate. Qed.
Lemma shape_panic {A} (Q : A -> Prop) : shape (panic : MT A) Q.
Proof. intros s x s' Hx. discriminate. Qed.
Lemma shape_bind {A B} (m : MT A) (f : A -> MT B) (R : B -> Prop) :
  (forall a, shape (f a) R) -> shape (bind m f) R.
Proof. intros Hf s b s' Hb. apply bind_ok in Hb as (a & s1 & _ & H2). eapply Hf; eauto. Qed.
Lemma shape_bind2 {A B} (m : MT A) (f : A -> MT B) (Q : A -> Prop) (R : B -> Prop) :
  shape m Q -> (forall a, Q a -> shape (f a) R) -> shape (bind m f) R.
Proof. intros Hm Hf s b s' Hb. apply bind_ok in Hb as (a & s1 & H1 & H2). eapply Hf; eauto. Qed.

Lemma shape_bind_ret {A B} (x : A) (f : A -> MT B) (R : B -> Prop) : shape (f x) R -> shape (bind (ret x) f) R.
Proof. intros H s b s' Hb. apply (H s b s'). exact Hb. Qed.
Lemma shape_bind_assoc {A B C} (m : MT A) (g : A -> MT B) (f : B -> MT C) (R : C -> Prop) :
  shape (bind m (fun a => bind (g a) f)) R -> shape (bind (bind m g) f) R.
Proof.
  intros H s c s' Hc. apply (H s c s'). unfold bind in *. destruct (m s) as [[a|e|] s1]; auto.
Qed.

Ltac rc_ok :=
  repeat match goal with |- context [if ?b then _ else _] => destruct b end;
  first [reflexivity | assumption | cbn in *; congruence].

Section Shape.
  Variable E : env.
  Notation rcok := (fun o : output => o_rc o = C.Ok).

  Lemma shape_multi_out_args : forall l o acc, shape (multi_out_args E l o acc) (fun r => o_rc (snd r) = o_rc o).
  Proof.
    induction l as [|[tok t] r IH]; intros o acc; cbn [multi_out_args].
    - apply shape_ret. reflexivity.
    - destruct (t_meta t).
      + apply shape_bind; intros b. apply shape_bind; intros _. intros s x s' Hx. rewrite (IH _ _ _ _ _ Hx). reflexivity.
      + apply shape_bind; intros v. apply IH.
  Qed.

  Ltac shape_step :=
    cbv beta iota zeta;
    lazymatch goal with
    | |- shape (bind (if ?b then _ else _) _) _ => destruct b
    | |- shape (bind (ret _) _) _ => apply shape_bind_ret
    | |- shape (bind (bind _ _) _) _ => apply shape_bind_assoc
    | |- shape (bind (multi_out_args _ _ _ _) _) _ =>
        eapply shape_bind2; [apply shape_multi_out_args|intros [? ?] ?]
    | |- shape (bind _ _) _ => apply shape_bind; intros
    | |- shape (ret _) _ => apply shape_ret; rc_ok
    | |- shape (fail _) _ => apply shape_fail
    | |- shape panic _ => apply shape_panic
    | |- shape (if ?b then _ else _) _ => destruct b
    | |- shape (match ?x with _ => _ end) _ => destruct x
    end.
  Ltac shape_tac := repeat shape_step.

  Lemma shape_exec f i : shape (exec E f i) rcok.
  Proof.
    unfold exec.
    repeat match goal with |- shape (if ?b then _ else _) _ => destruct b end.
    all: unfold f_claim_rewards, f_change_owner, f_set_user_name, f_save_key_value, f_pause, f_esdt_transfer,
      f_esdt_burn, f_freeze_wipe, f_roles, f_local_burn, f_local_mint, f_nft_add_quantity, f_nft_burn, f_nft_create,
      f_nft_transfer, f_nft_transfer_sender, f_create_role_transfer, f_nft_update_attributes, f_nft_add_uri,
      f_multi_transfer, f_multi_transfer_sender.
    all: shape_tac.
  Qed.
End Shape.

(* every Ok output has return code Ok *)
Theorem exec_shape E f i s o s' : exec E f i s = (Ok o, s') -> o_rc o = C.Ok.
Proof. apply shape_exec. Qed.

(* ================= allocations ================= *)
(* [akeep m]: m never changes the allocation counter, whatever its result *)
Definition akeep {A} (m : MT A) : Prop := forall s, allocs (snd (m s)) = allocs s.
Lemma akeep_ret {A} (a : A) : akeep (ret a : MT A). Proof. intros s. reflexivity. Qed.
Lemma akeep_fail {A} e : akeep (fail e : MT A). Proof. intros s. reflexivity. Qed.
Lemma akeep_panic {A} : akeep (panic : MT A). Proof. intros s. reflexivity. Qed.
Lemma akeep_guard b e : akeep (guard b e : MT unit). Proof. destruct b; [apply akeep_ret|apply akeep_fail]. Qed.
Lemma akeep_lift_opt {A} (o : option A) e : akeep (lift_opt o e : MT A).
Proof. destruct o; [apply akeep_ret|apply akeep_fail]. Qed.
Lemma akeep_opt_or_panic {A} (o : option A) : akeep (opt_or_panic o : MT A).
Proof. destruct o; [apply akeep_ret|apply akeep_panic]. Qed.
Lemma akeep_bind {A B} (m : MT A) (f : A -> MT B) : akeep m -> (forall a, akeep (f a)) -> akeep (bind m f).
Proof.
  intros Hm Hf s. unfold bind. specialize (Hm s). destruct (m s) as [[a|e|] s1]; simpl in *; auto.
  rewrite (Hf a s1). exact Hm.
Qed.
Lemma akeep_dep E : akeep (dep E).
Proof. intros s. unfold dep. destruct (plan E (calls s)); reflexivity. Qed.
Lemma akeep_retrieve a k : akeep (retrieve a k). Proof. intros s. reflexivity. Qed.
Lemma akeep_write_kv a k v : akeep (write_kv a k v). Proof. intros s. reflexivity. Qed.
Lemma akeep_upd_acct a f : akeep (upd_acct a f). Proof. intros s. reflexivity. Qed.
Lemma akeep_get_acct a : akeep (get_acct a). Proof. intros s. reflexivity. Qed.
Lemma akeep_arg args i : akeep (arg args i).
Proof. unfold arg. destruct (i <? alen args)%N; [apply akeep_opt_or_panic|apply akeep_panic]. Qed.
Lemma akeep_args_from args i : akeep (args_from args i).
Proof. unfold args_from. destruct (i <=? alen args)%N; [apply akeep_ret|apply akeep_panic]. Qed.
Lemma akeep_val_of t : akeep (val_of t). Proof. apply akeep_opt_or_panic. Qed.
Lemma akeep_meta_of t : akeep (meta_of t). Proof. apply akeep_opt_or_panic. Qed.

Create HintDb akeep discriminated.
#[export] Hint Resolve akeep_ret akeep_fail akeep_panic akeep_guard akeep_lift_opt akeep_opt_or_panic
  akeep_dep akeep_retrieve akeep_write_kv akeep_upd_acct akeep_get_acct akeep_arg akeep_args_from
  akeep_val_of akeep_meta_of : akeep.
Ltac akeep_step :=
  first
    [ solve [auto with akeep]
    | apply akeep_bind; [|intros]
    | match goal with
      | |- akeep (if ?b then _ else _) => destruct b
      | |- akeep (match ?x with _ => _ end) => destruct x
      | |- akeep (let _ := _ in _) => cbv zeta
      end ].
Ltac akeep_tac := repeat akeep_step.

Lemma akeep_save_kv E a k v : akeep (save_kv E a k v). Proof. unfold save_kv. akeep_tac. Qed.
Lemma akeep_load_account E a : akeep (load_account E a). Proof. apply akeep_dep. Qed.
Lemma akeep_save_account E a : akeep (save_account E a). Proof. apply akeep_dep. Qed.
Lemma akeep_marshal_tok E t : akeep (marshal_tok E t). Proof. unfold marshal_tok. akeep_tac. Qed.
Lemma akeep_unmarshal_tok E b : akeep (unmarshal_tok E b). Proof. unfold unmarshal_tok. akeep_tac. Qed.
Lemma akeep_marshal_rol E r : akeep (marshal_rol E r). Proof. unfold marshal_rol. akeep_tac. Qed.
Lemma akeep_unmarshal_rol E b : akeep (unmarshal_rol E b). Proof. unfold unmarshal_rol. akeep_tac. Qed.
Lemma akeep_is_payable E a : akeep (is_payable E a). Proof. unfold is_payable. akeep_tac. Qed.
#[export] Hint Resolve akeep_save_kv akeep_load_account akeep_save_account akeep_marshal_tok akeep_unmarshal_tok
  akeep_marshal_rol akeep_unmarshal_rol akeep_is_payable : akeep.
Lemma akeep_check_basic i : akeep (check_basic i). Proof. unfold check_basic. akeep_tac. Qed.
Lemma akeep_get_esdt_data E a k : akeep (get_esdt_data E a k). Proof. unfold get_esdt_data. akeep_tac. Qed.
Lemma akeep_is_paused k : akeep (is_paused k). Proof. unfold is_paused. akeep_tac. Qed.
#[export] Hint Resolve akeep_check_basic akeep_get_esdt_data akeep_is_paused : akeep.
Lemma akeep_check_froze_and_pause a k t rae : akeep (check_froze_and_pause a k t rae).
Proof. unfold check_froze_and_pause. akeep_tac. Qed.
Lemma akeep_save_esdt_data E a t k : akeep (save_esdt_data E a t k). Proof. unfold save_esdt_data. akeep_tac. Qed.
#[export] Hint Resolve akeep_check_froze_and_pause akeep_save_esdt_data : akeep.
Lemma akeep_add_to_esdt_balance E a k d rae : akeep (add_to_esdt_balance E a k d rae).
Proof. unfold add_to_esdt_balance. akeep_tac. Qed.
Lemma akeep_get_nft_on_destination E a k n : akeep (get_nft_on_destination E a k n).
Proof. unfold get_nft_on_destination. akeep_tac. Qed.
#[export] Hint Resolve akeep_add_to_esdt_balance akeep_get_nft_on_destination : akeep.
Lemma akeep_get_nft_on_sender E a k n : akeep (get_nft_on_sender E a k n).
Proof. unfold get_nft_on_sender. akeep_tac. Qed.
Lemma akeep_save_nft E a k t rae : akeep (save_nft E a k t rae). Proof. unfold save_nft. akeep_tac. Qed.
Lemma akeep_get_latest_nonce a tok : akeep (get_latest_nonce a tok). Proof. unfold get_latest_nonce. akeep_tac. Qed.
Lemma akeep_save_latest_nonce E a tok n : akeep (save_latest_nonce E a tok n). Proof. unfold save_latest_nonce. akeep_tac. Qed.
Lemma akeep_get_roles E a k : akeep (get_roles E a k). Proof. unfold get_roles. akeep_tac. Qed.
#[export] Hint Resolve akeep_get_nft_on_sender akeep_save_nft akeep_get_latest_nonce akeep_save_latest_nonce akeep_get_roles : akeep.
Lemma akeep_check_allowed E snd a tok role : akeep (check_allowed E snd a tok role).
Proof. unfold check_allowed. akeep_tac. Qed.
Lemma akeep_save_roles E a k r : akeep (save_roles E a k r). Proof. unfold save_roles. akeep_tac. Qed.
Lemma akeep_check_payable E v a : akeep (check_payable E v a). Proof. unfold check_payable. akeep_tac. Qed.
#[export] Hint Resolve akeep_check_allowed akeep_save_roles akeep_check_payable : akeep.
Lemma akeep_add_nft_to_destination E dst k t v rae : akeep (add_nft_to_destination E dst k t v rae).
Proof. unfold add_nft_to_destination. akeep_tac. Qed.
#[export] Hint Resolve akeep_add_nft_to_destination : akeep.

Section Alloc.
  Variable E : env.

  Lemma akeep_check_local_action i c : akeep (check_local_action i c). Proof. unfold check_local_action. akeep_tac. Qed.
  Lemma akeep_check_create_burn_add i c : akeep (check_create_burn_add i c). Proof. unfold check_create_burn_add. akeep_tac. Qed.
  Lemma akeep_check_system_one_arg i : akeep (check_system_one_arg i). Proof. unfold check_system_one_arg. akeep_tac. Qed.
  Hint Resolve akeep_check_local_action akeep_check_create_burn_add akeep_check_system_one_arg : akeep.
  Lemma akeep_delete_create_role a k : akeep (delete_create_role E a k). Proof. unfold delete_create_role. akeep_tac. Qed.
  Lemma akeep_add_create_role a k : akeep (add_create_role E a k). Proof. unfold add_create_role. akeep_tac. Qed.
  Hint Resolve akeep_delete_create_role akeep_add_create_role : akeep.

  Lemma akeep_skv_loop a gp : forall n pairs use, (length pairs <= n)%nat -> akeep (skv_loop E a gp pairs use).
  Proof.
    induction n as [|n IH]; intros pairs use Hl.
    - destruct pairs; [|simpl in Hl; lia]. cbn [skv_loop]. apply akeep_ret.
    - destruct pairs as [|k [|v rest]]; cbn [skv_loop]; [apply akeep_ret|apply akeep_panic|].
      assert (Hr : (length rest <= n)%nat) by (simpl in Hl; lia).
      akeep_tac; apply IH; exact Hr.
  Qed.

  Lemma akeep_f_claim_rewards i : akeep (f_claim_rewards E i). Proof. unfold f_claim_rewards. akeep_tac. Qed.
  Lemma akeep_f_change_owner i : akeep (f_change_owner E i). Proof. unfold f_change_owner. akeep_tac. Qed.
  Lemma akeep_f_set_user_name i : akeep (f_set_user_name E i). Proof. unfold f_set_user_name. akeep_tac. Qed.
  Lemma akeep_f_save_key_value i : akeep (f_save_key_value E i).
  Proof. unfold f_save_key_value. akeep_tac. eapply akeep_skv_loop. apply le_n. Qed.
  Lemma akeep_f_pause p i : akeep (f_pause E p i). Proof. unfold f_pause. akeep_tac. Qed.
  Lemma akeep_f_esdt_transfer i : akeep (f_esdt_transfer E i). Proof. unfold f_esdt_transfer. akeep_tac. Qed.
  Lemma akeep_f_esdt_burn i : akeep (f_esdt_burn E i). Proof. unfold f_esdt_burn. akeep_tac. Qed.
  Lemma akeep_f_freeze_wipe a b i : akeep (f_freeze_wipe E a b i). Proof. unfold f_freeze_wipe. akeep_tac. Qed.
  Lemma akeep_f_roles b i : akeep (f_roles E b i). Proof. unfold f_roles. akeep_tac. Qed.
  Lemma akeep_f_local_burn i : akeep (f_local_burn E i). Proof. unfold f_local_burn. akeep_tac. Qed.
  Lemma akeep_f_local_mint i : akeep (f_local_mint E i). Proof. unfold f_local_mint. akeep_tac. Qed.
  Lemma akeep_f_nft_add_quantity i : akeep (f_nft_add_quantity E i). Proof. unfold f_nft_add_quantity. akeep_tac. Qed.
  Lemma akeep_f_nft_burn i : akeep (f_nft_burn E i). Proof. unfold f_nft_burn. akeep_tac. Qed.
  Lemma akeep_f_nft_create i : akeep (f_nft_create E i). Proof. unfold f_nft_create. akeep_tac. Qed.
  Lemma akeep_f_nft_transfer i : akeep (f_nft_transfer E i).
  Proof. unfold f_nft_transfer, f_nft_transfer_sender. akeep_tac. Qed.
  Lemma akeep_f_create_role_transfer i : akeep (f_create_role_transfer E i). Proof. unfold f_create_role_transfer. akeep_tac. Qed.
  Lemma akeep_f_nft_update_attributes i : akeep (f_nft_update_attributes E i). Proof. unfold f_nft_update_attributes. akeep_tac. Qed.
  Lemma akeep_f_nft_add_uri i : akeep (f_nft_add_uri E i). Proof. unfold f_nft_add_uri. akeep_tac. Qed.
End Alloc.

(* [abound m k]: m raises the allocation counter by at most k, whatever its result *)
Definition abound {A} (m : MT A) (k : N) : Prop := forall s, (allocs (snd (m s)) <= allocs s + k)%N.
Lemma abound_keep {A} (m : MT A) k : akeep m -> abound m k.
Proof. intros H s. rewrite H. lia. Qed.
Lemma abound_mono {A} (m : MT A) k k' : abound m k -> (k <= k')%N -> abound m k'.
Proof. intros H Hk s. specialize (H s). lia. Qed.
Lemma abound_bind_keep {A B} (m : MT A) (f : A -> MT B) k :
  akeep m -> (forall a, abound (f a) k) -> abound (bind m f) k.
Proof.
  intros Hm Hf s. unfold bind. specialize (Hm s). destruct (m s) as [[a|e|] s1]; simpl in *; try lia.
  specialize (Hf a s1). lia.
Qed.
Lemma abound_guard {B} b e (f : unit -> MT B) k :
  (b = true -> forall u, abound (f u) k) -> abound (bind (guard b e) f) k.
Proof.
  intros Hf s. destruct b; unfold bind, guard; simpl; [apply (Hf eq_refl tt s)|lia].
Qed.
Lemma abound_alloc {B} n (f : unit -> MT B) c k :
  (n <= c)%N -> (forall u, abound (f u) k) -> abound (bind (alloc n) f) (c + k)%N.
Proof.
  intros Hn Hf s. unfold bind, alloc. destruct (1099511627776 <? n)%N; simpl; [lia|].
  specialize (Hf tt {| accts := accts s; calls := calls s; allocs := (allocs s + n)%N |}). simpl in Hf. lia.
Qed.

Section AllocMulti.
  Variable E : env.
  Hint Resolve akeep_check_local_action akeep_check_create_burn_add akeep_check_system_one_arg : akeep.

  Lemma akeep_transfer_one_sender sp c dl dst tok n q v rae : akeep (transfer_one_sender E sp c dl dst tok n q v rae).
  Proof. unfold transfer_one_sender. akeep_tac. Qed.
  Hint Resolve akeep_transfer_one_sender : akeep.
  Lemma akeep_multi_sender_loop i dl dst v : forall fuel idx acc logs, akeep (multi_sender_loop E fuel i dl dst v idx acc logs).
  Proof. induction fuel as [|f IH]; intros; cbn [multi_sender_loop]; akeep_tac; try apply IH. Qed.
  Lemma akeep_multi_out_args : forall l o acc, akeep (multi_out_args E l o acc).
  Proof. induction l as [|[tok t] r IH]; intros; cbn [multi_out_args]; akeep_tac; try apply IH. Qed.
  Lemma akeep_multi_dest_loop i ma : forall fuel idx logs, akeep (multi_dest_loop E fuel i ma idx logs).
  Proof. induction fuel as [|f IH]; intros; cbn [multi_dest_loop]; akeep_tac; try apply IH. Qed.
  Hint Resolve akeep_multi_sender_loop akeep_multi_out_args akeep_multi_dest_loop : akeep.

  Ltac ab_step :=
    cbv beta iota zeta;
    lazymatch goal with
    | |- abound (bind (guard _ _) _) _ => apply abound_guard; intros ? ?
    | |- abound (bind (alloc _) _) _ => fail
    | |- abound (bind _ _) _ => apply abound_bind_keep; [solve [akeep_tac]|intros]
    | |- abound (match ?x with _ => _ end) _ => destruct x
    end.

  Lemma abound_f_multi_transfer_sender i : abound (f_multi_transfer_sender E i) (2 * alen (i_args i) + 1).
  Proof.
    unfold f_multi_transfer_sender. repeat ab_step.
    unfold apt, C.bif_argumentsPerTransfer in *.
    lazymatch goal with |- abound (bind (alloc ?n) _) _ =>
      apply abound_mono with (k := (n + (n + (n + ((3 * n + 1) + 0))))%N); [|lia] end.
    do 3 (apply abound_alloc; [lia|intros]).
    repeat ab_step.
    apply abound_alloc; [apply u64_le|intros].
    apply abound_keep. akeep_tac.
  Qed.

  Lemma abound_f_multi_transfer i : abound (f_multi_transfer E i) (2 * alen (i_args i) + 1).
  Proof.
    unfold f_multi_transfer. repeat ab_step.
    - apply abound_f_multi_transfer_sender.
    - unfold apt, C.bif_argumentsPerTransfer in *.
      lazymatch goal with |- abound (bind (alloc ?n) _) _ =>
        apply abound_mono with (k := (n + 0)%N); [|lia] end.
      apply abound_alloc; [lia|intros].
      apply abound_keep. akeep_tac.
  Qed.

  Lemma abound_exec f i : abound (exec E f i) (2 * alen (i_args i) + 1).
  Proof.
    unfold exec.
    repeat match goal with |- abound (if ?b then _ else _) _ => destruct b end.
    all: try (apply abound_f_multi_transfer).
    all: apply abound_keep.
    all: first
      [ apply akeep_f_claim_rewards | apply akeep_f_change_owner | apply akeep_f_set_user_name
      | apply akeep_f_save_key_value | apply akeep_f_pause | apply akeep_f_esdt_transfer
      | apply akeep_f_esdt_burn | apply akeep_f_freeze_wipe | apply akeep_f_roles
      | apply akeep_f_local_burn | apply akeep_f_local_mint | apply akeep_f_nft_add_quantity
      | apply akeep_f_nft_burn | apply akeep_f_nft_create | apply akeep_f_nft_transfer | apply akeep_f_create_role_transfer
      | apply akeep_f_nft_update_attributes | apply akeep_f_nft_add_uri | apply akeep_fail ].
  Qed.
End AllocMulti.

(* allocations recorded during a call are linear in the NUMBER of arguments, for every result *)
Theorem alloc_bounded E f i s r s' :
  exec E f i s = (r, s') -> (allocs s' <= allocs s + 2 * alen (i_args i) + 1)%N.
Proof. intros H. pose proof (abound_exec E f i s) as Hb. rewrite H in Hb. cbn [snd] in Hb. lia. Qed.
(* only the multi-transfer allocates at all *)
Theorem alloc_none E f i s r s' :
  f <> C.BuiltInFunctionMultiESDTNFTTransfer -> exec E f i s = (r, s') -> allocs s' = allocs s.
Proof.
  intros Hf H.
  assert (Hk : akeep (exec E f i)).
  { unfold exec.
    repeat match goal with |- akeep (if beqb f ?c then _ else _) => destruct (beqb_spec f c) end.
    all: try contradiction.
    all: first
      [ apply akeep_f_claim_rewards | apply akeep_f_change_owner | apply akeep_f_set_user_name
      | apply akeep_f_save_key_value | apply akeep_f_pause | apply akeep_f_esdt_transfer
      | apply akeep_f_esdt_burn | apply akeep_f_freeze_wipe | apply akeep_f_roles
      | apply akeep_f_local_burn | apply akeep_f_local_mint | apply akeep_f_nft_add_quantity
      | apply akeep_f_nft_burn | apply akeep_f_nft_create | apply akeep_f_nft_transfer | apply akeep_f_create_role_transfer
      | apply akeep_f_nft_update_attributes | apply akeep_f_nft_add_uri | apply akeep_fail ]. }
  specialize (Hk s). rewrite H in Hk. exact Hk.
Qed.

Print Assumptions exec_shape.
Print Assumptions alloc_bounded.
Print Assumptions alloc_none.
