(* C01, liveness half for MultiESDTNFTTransfer: what the sender side LEAVES at the sender does not stand in the way of the
   refund, in the common case of pairwise distinct cells.
     snd_left_ready           after the sender loop (cross shard), every triple of the emitted message is ready
                              (return-after-error: no flag is looked at) in the sender's post-state, and writes the cell
                              the corresponding requested triple debited
     emitted_multi_refundable world form: dest_ready of the message's triples at the sender, in the post-state of the call
     multi_rejected_refund_restores_untouched   composition: if the listed cells of the sender are untouched between the
                              emission and the refund, the refund succeeds and every holding of the sender is restored.
   Hypotheses: F4b consistency of the sender-side lookups; pairwise distinct requested cells; the sender's entries
   addressed with nonce 0 are of fungible type (the multi transfer's sender side does not check the type, the refund's
   add_to_esdt_balance does: an entry under "P ++ token" with another type can be sent but not refunded; no built-in
   function creates such an entry). *)
From Coq.Strings Require Import String.
From EV Require Import Base.Bytes Base.Store Base.Monad gen.Consts Codec.Types Helpers.Helpers
  Ledger.Types Ledger.Env Ledger.Funcs Ledger.Transfers Ledger.World
  LedgerProofs.Defs LedgerProofs.EnvSpec LedgerProofs.WorldDefs LedgerProofs.WorldSpec
  LedgerProofs.Spec_Transfers_Base LedgerProofs.Spec_Transfers_Esdt LedgerProofs.Spec_Transfers_Nft
  LedgerProofs.Spec_Transfers_Multi LedgerProofs.Spec_Transfers
  LedgerProofs.C01_World LedgerProofs.C01_Step LedgerProofs.C01_Exact LedgerProofs.C01_Live
  LedgerProofs.C10_Emit LedgerProofs.C10_Parser LedgerProofs.C10_Accept
  LedgerProofs.Live_World LedgerProofs.Live_Nft LedgerProofs.Live_Multi.

Section SndLeft.
  Variable E : env.
  Hypothesis Hc : codec_ok (cdc E).

  (* the sender's entries addressed with nonce 0 are of fungible type *)
  Definition fungible_typed (s : mstate) (caller : bytes) (trs : list rawtriple) : Prop :=
    forall x t, In x trs -> rt_nonce x = 0%N -> tok_at E s caller (rt_cell x) = Some t -> t_type t = C.Fungible.

  Lemma snd_left_ready caller dst verify rae trs s s' lst :
    dst <> caller ->
    snd_steps E caller dst false verify rae trs s s' lst ->
    triples_consistent E s caller trs -> NoDup (map rt_cell trs) -> fungible_typed s caller trs ->
    Forall (fun y => triple_ready E caller false true (raw_of E y) s') lst
    /\ map (dest_cell E) (map (raw_of E) lst) = map rt_cell trs.
  Proof.
    intros Hne Hs. induction Hs as [s|x rest s s1 s' t t2 l Hp Hs IH]; intros Hcons Hnd Hft.
    - split; [constructor|reflexivity].
    - inversion Hcons as [|x0 r0 Hx Hrest]; subst. cbn [map] in Hnd. inversion Hnd as [|c0 l0 Hnotin Hnd']; subst.
      pose proof Hp as Hpp. destruct Hpp. destruct os_debit as (s2 & D & Hs2). specialize (Hs2 eq_refl). subst s2.
      pose proof D as DD. destruct DD.
      assert (Htn : tok_nonce t = rt_nonce x) by (apply Hx; exact db_entry).
      assert (Hfull : nft_key (P ++ rt_tok x) (tok_nonce t) = rt_cell x) by (unfold rt_cell; rewrite Htn; reflexivity).
      rewrite Hfull in *. fold (rt_cell x) in db_entry.
      assert (Hcons1 : triples_consistent E s1 caller rest).
      { unfold triples_consistent in *. rewrite Forall_forall in *. intros y Hy. eapply one_snd_post_consistent; eauto. }
      assert (Hft1 : fungible_typed s1 caller rest).
      { intros y ty Hy Hn0 Hty. apply (Hft y ty (or_intror Hy) Hn0). rewrite <- Hty. symmetry.
        apply (ue_tok_at E _ _ _ _ db_frame). intros [_ Hk]. apply Hnotin. rewrite <- Hk. apply in_map. exact Hy. }
      destruct (IH Hcons1 Hnd' Hft1) as [IH1 IH2].
      (* the later steps leave the cell of x alone *)
      assert (Hprem : false = true -> nonneg_balances E s1 dst) by (intros h; discriminate h).
      destruct (snd_steps_spec E _ _ _ _ _ _ _ _ _ Hne Hs Hcons1 Hprem) as (_ & _ & _ & Hue & _).
      assert (Hnf : ~ ((caller = caller \/ false = true /\ caller = dst) /\ exists y, In y rest /\ rt_cell x = rt_cell y)).
      { intros [_ (y & Hy & Hk)]. apply Hnotin. rewrite Hk. apply in_map. exact Hy. }
      assert (Hcell : cell s' caller (rt_cell x) = cell s1 caller (rt_cell x)) by (apply (ue_cell _ _ _ _ Hue); exact Hnf).
      assert (Htok : tok_at E s' caller (rt_cell x) = tok_at E s1 caller (rt_cell x)) by (apply (ue_tok_at E _ _ _ _ Hue); exact Hnf).
      assert (Hbal : balance E s' caller (rt_cell x) = balance E s1 caller (rt_cell x)) by (apply (ue_balance E _ _ _ _ Hue); exact Hnf).
      pose proof (bigZ_nonneg (snd x)) as Hq0. fold (rt_qty x) in Hq0.
      assert (Hwf2 : wf_token t2) by (rewrite os_travel; apply wf_set_value; exact db_wf).
      (* the triple of the message and the cell it writes *)
      assert (Hhead : triple_ready E caller false true (raw_of E (rt_tok x, t2)) s'
                      /\ dest_cell E (raw_of E (rt_tok x, t2)) = rt_cell x).
      { unfold raw_of. cbn [fst snd]. rewrite os_travel at 1 2. rewrite t_meta_set_value.
        destruct (t_meta t) as [m|] eqn:Em.
        - (* an NFT triple: the payload is the travelling entry *)
          assert (Hmn : md_nonce m = rt_nonce x) by (rewrite <- Htn; unfold tok_nonce; rewrite Em; reflexivity).
          assert (Hpos : (0 < rt_nonce x)%N).
          { destruct (N.eq_dec (rt_nonce x) 0) as [H0|H0]; [|lia]. discriminate (db_meta_0 H0). }
          assert (Hrn : rt_nonce (rt_tok x, u64_bytes (md_nonce m), enc_tok (cdc E) t2) = rt_nonce x).
          { unfold rt_nonce at 1. cbn [fst snd]. rewrite bigU64_u64_bytes, Hmn. apply u64_small.
            rewrite <- Htn. apply tok_nonce_lt. exact db_wf. }
          assert (Hdec : dec_tok (cdc E) (rt_third (rt_tok x, u64_bytes (md_nonce m), enc_tok (cdc E) t2)) = Some t2)
            by (apply (dec_enc_tok _ Hc); exact Hwf2).
          assert (Hk2 : nft_key (P ++ rt_tok x) (tok_nonce t2) = rt_cell x)
            by (rewrite os_travel, tok_nonce_set_value; exact Hfull).
          split.
          + apply (triple_ready_nft E _ _ _ _ _ t2); [intros h; discriminate h|rewrite Hrn; lia|exact Hdec| | |intros h; discriminate h].
            * rewrite os_travel. discriminate.
            * unfold rt_tok at 1. cbn [fst]. rewrite Hk2.
              destruct (val_or_0 t - rt_qty x <=? 0)%Z eqn:Ev.
              -- left. rewrite Hcell, db_cell, ?Ev. reflexivity.
              -- right. exists (set_value t (Some (val_or_0 t - rt_qty x)%Z)).
                 split; [rewrite Htok, db_tok_at, ?Ev; reflexivity|]. split; [discriminate|].
                 intros cm Hcm. rewrite t_meta_set_value in Hcm. rewrite os_travel, t_meta_set_value. exists cm. split; [exact Hcm|reflexivity].
          + unfold dest_cell. rewrite Hrn. destruct (0 <? rt_nonce x)%N eqn:E0; [|lia]. rewrite Hdec.
            unfold rt_tok at 1. cbn [fst]. exact Hk2.
        - (* a fungible triple *)
          assert (Hn0 : rt_nonce x = 0%N) by (rewrite <- Htn; unfold tok_nonce; rewrite Em; reflexivity).
          assert (Hk0 : P ++ rt_tok x = rt_cell x) by (unfold rt_cell; rewrite Hn0, nft_key_0; reflexivity).
          assert (Hrn : (0 <? rt_nonce (rt_tok x, [x00], Z_bytes (val_or_0 t2)))%N = false) by (vm_compute; reflexivity).
          split.
          + apply triple_ready_fungible; [intros h; discriminate h|exact Hrn| |intros h; discriminate h|].
            * unfold rt_tok at 1. cbn [fst]. rewrite Hk0.
              destruct (val_or_0 t - rt_qty x <=? 0)%Z eqn:Ev.
              -- left. rewrite Hcell, db_cell, ?Ev. reflexivity.
              -- right. exists (set_value t (Some (val_or_0 t - rt_qty x)%Z)).
                 split; [rewrite Htok, db_tok_at, ?Ev; reflexivity|]. split; [|discriminate].
                 apply (Hft x t (or_introl eq_refl) Hn0 db_entry).
            * unfold rt_tok at 1, rt_qty. cbn [fst snd]. rewrite Hk0, Hbal, db_balance.
              rewrite os_travel, val_or_0_set_value. rewrite bigZ_Z_bytes by exact Hq0. lia.
          + unfold dest_cell. rewrite Hrn. unfold rt_tok at 1. cbn [fst]. exact Hk0. }
      destruct Hhead as [Hh1 Hh2].
      split; [constructor; [exact Hh1|exact IH1]|]. cbn [map]. rewrite Hh2, IH2. reflexivity.
  Qed.

  (* a state that agrees with s on the cell the triple writes is as ready as s (return-after-error, no payability check) *)
  Lemma triple_ready_cell_eq rcpt y s s2 :
    cell s2 rcpt (dest_cell E y) = cell s rcpt (dest_cell E y) ->
    triple_ready E rcpt false true y s -> triple_ready E rcpt false true y s2.
  Proof.
    intros Hcell [Hp H]. split; [exact Hp|]. unfold dest_cell in Hcell. destruct (0 <? rt_nonce y)%N.
    - destruct H as (t & Hdec & Hv & Hent & _). rewrite Hdec in Hcell. exists t. split; [exact Hdec|]. split; [exact Hv|].
      split; [|intros h; discriminate h].
      destruct Hent as [Hn|(cur & Hcur & Hrest)]; [left; rewrite Hcell; exact Hn|right].
      exists cur. split; [unfold tok_at in *; rewrite Hcell; exact Hcur|exact Hrest].
    - destruct H as (Hent & _ & Hbal). split; [|split; [intros h; discriminate h|]].
      + destruct Hent as [Hn|(cur & Hcur & Hrest)]; [left; rewrite Hcell; exact Hn|right].
        exists cur. split; [unfold tok_at in *; rewrite Hcell; exact Hcur|exact Hrest].
      + unfold balance in *. rewrite Hcell. exact Hbal.
  Qed.
End SndLeft.

Section RefundableWorld.
  Variable c : wcfg.
  Hypothesis Hc : codec_ok (wc_cdc c).
  Notation shof := (wc_shard_of c).

  Theorem emitted_multi_refundable sh m0 i id o s' m :
    let E := env_at c sh in
    origin_call c sh i -> exec E C.BuiltInFunctionMultiESDTNFTTransfer i (mk_state m0) = (Ok o, s') ->
    In m (collect c sh C.BuiltInFunctionMultiESDTNFTTransfer i id o) ->
    triples_consistent E (mk_state m0) (i_caller i) (multi_snd_triples i) ->
    NoDup (map rt_cell (multi_snd_triples i)) ->
    fungible_typed E (mk_state m0) (i_caller i) (multi_snd_triples i) ->
    Forall (fun y => triple_ready E (i_caller i) false true y s') (mmsg_triples c m)
    /\ map (dest_cell E) (mmsg_triples c m) = map rt_cell (multi_snd_triples i)
    /\ dest_ready E (i_caller i) false true (mmsg_triples c m) s'.
  Proof.
    intros E Hor Hex Hin Hcons Hnd Hft. subst E.
    destruct (emitted_multi_wf c Hc sh m0 i id o s' m Hor Hex Hin) as (_ & _ & _ & Hmd & _ & _ & Hne & _ & lst & Hp & Htr & _).
    destruct Hp. destruct mp_steps as (s0 & s1 & Q0 & Hs & Q1).
    assert (Hsame : multi_same (env_at c sh) i = false).
    { unfold multi_same. cbn [self_shard shard_of env_at]. apply N.eqb_neq. intros h. apply Hne. rewrite Hmd. symmetry. exact h. }
    rewrite Hsame in Hs.
    destruct (snd_left_ready (env_at c sh) Hc _ _ _ _ _ _ _ _ mp_dst_ne Hs) as [H1 H2].
    - apply (silent_consistent (env_at c sh) _ _ _ _ Q0). exact Hcons.
    - exact Hnd.
    - intros x t Hx Hn0 Ht. apply (Hft x t Hx Hn0). rewrite <- Ht. symmetry. apply (silent_tok_at (env_at c sh) _ _ _ _ Q0).
    - assert (Hall : Forall (fun y => triple_ready (env_at c sh) (i_caller i) false true y s') (mmsg_triples c m)).
      { rewrite Htr. apply Forall_forall. intros y Hy. apply in_map_iff in Hy as (p & <- & Hp').
        rewrite Forall_forall in H1. apply (triple_ready_accts (env_at c sh) _ _ _ _ s1 s' (proj1 Q1)). apply H1. exact Hp'. }
      assert (Hcells : map (dest_cell (env_at c sh)) (mmsg_triples c m) = map rt_cell (multi_snd_triples i)) by (rewrite Htr; exact H2).
      split; [exact Hall|]. split; [exact Hcells|].
      apply dest_ready_distinct; [rewrite Hcells; exact Hnd|intros h; discriminate h|exact Hall].
  Qed.

  (* composition: nothing touched the listed cells of the sender between the emission and the refund *)
  Theorem multi_rejected_refund_restores_untouched sh m0 i id0 o s1 m w id gas gas' :
    let E := env_at c sh in
    let s := mk_state (shard_accts w sh) in
    origin_call c sh i -> triples_consistent E (mk_state m0) (i_caller i) (multi_snd_triples i) ->
    NoDup (map rt_cell (multi_snd_triples i)) -> fungible_typed E (mk_state m0) (i_caller i) (multi_snd_triples i) ->
    exec E C.BuiltInFunctionMultiESDTNFTTransfer i (mk_state m0) = (Ok o, s1) ->
    In m (collect c sh C.BuiltInFunctionMultiESDTNFTTransfer i id0 o) ->
    WInv c w -> find_msg (inflight w) id = Some m ->
    (shof (m_dest m) <? wc_nshards c)%N = true -> (sh <? wc_nshards c)%N = true ->
    (forall x, In x (multi_snd_triples i) -> cell s (i_caller i) (rt_cell x) = cell s1 (i_caller i) (rt_cell x)) ->
    (forall o' s', exec (env_at c (shof (m_dest m))) (m_fn m) (deliver_input c m (shof (m_dest m)) gas)
                     (mk_state (shard_accts w (shof (m_dest m)))) <> (Ok o', s')) ->
    let w2 := wstep c (wstep c w (ODeliver id gas)) (ORefund id gas') in
    inflight w2 = drop_msg (inflight w) id /\ nat_in id (failed w2) = false
    /\ (forall x, In x (multi_snd_triples i) ->
          wbal c w2 (i_caller i) (rt_cell x) = balance E (mk_state m0) (i_caller i) (rt_cell x))
    /\ forall k, total c k w2 = total c k w.
  Proof.
    intros E s Hor Hcons Hnd Hft Hex Hin Hinv Hfind Hshd Hshs Hcell Hrej. subst E s.
    destruct (emitted_multi_refundable sh m0 i id0 o s1 m Hor Hex Hin Hcons Hnd Hft) as (Hall & Hcells & _).
    destruct (emitted_multi_wf c Hc sh m0 i id0 o s1 m Hor Hex Hin) as (Hem & _ & _ & Hmd & Hms & _ & Hne & _ & lst & _ & _ & Hcr).
    destruct (Hcr Hcons) as [Hcred _].
    pose proof Hor as (Hcal & _).
    (* readiness at refund time, from the untouched cells *)
    assert (Hready : dest_ready (env_at c sh) (i_caller i) false true (mmsg_triples c m) (mk_state (shard_accts w sh))).
    { apply dest_ready_distinct; [rewrite Hcells; exact Hnd|intros h; discriminate h|].
      rewrite Forall_forall in *. intros y Hy. apply (triple_ready_cell_eq (env_at c sh) (i_caller i) y s1 (mk_state (shard_accts w sh))); [|apply Hall; exact Hy].
      assert (Hin' : In (dest_cell (env_at c sh) y) (map rt_cell (multi_snd_triples i))) by (rewrite <- Hcells; apply in_map; exact Hy).
      apply in_map_iff in Hin' as (x & Hx & Hxin). rewrite <- Hx. apply Hcell. exact Hxin. }
    assert (Hshs' : (shof (m_sender m) <? wc_nshards c)%N = true) by (rewrite Hms, Hcal; exact Hshs).
    assert (Hr' : dest_ready (env_at c (shof (m_sender m))) (m_sender m) false true (mmsg_triples c m)
                    (mk_state (shard_accts w (shof (m_sender m))))) by (rewrite Hms, Hcal; exact Hready).
    destruct (rejected_then_refund_multi c Hc w id gas gas' m Hinv Hfind Hem Hshd Hshs' Hrej Hr') as (_ & _ & _ & H4 & H5 & Hb & Ht).
    cbv zeta. split; [exact H4|]. split; [exact H5|]. split; [|exact Ht].
    intros x Hx. rewrite Hb, Hms, beqb_refl, wbal_state, Hcal. 
    assert (Hbal : balance (env_at c sh) (mk_state (shard_accts w sh)) (i_caller i) (rt_cell x) = balance (env_at c sh) s1 (i_caller i) (rt_cell x))
      by (unfold balance; rewrite (Hcell x Hx); reflexivity).
    rewrite Hbal. unfold qty. rewrite Hcred.
    pose proof Hex as Hex'. rewrite exec_multi_transfer in Hex'.
    pose proof (origin_multi_caller_is_rcpt c Hc sh i _ _ _ Hor Hex') as Heq.
    destruct (sender_debits_exact_multi (env_at c sh) Hc i _ _ _ Hex Heq Hcons) with (k := rt_cell x) as [_ Hd].
    { intros h. exfalso. unfold multi_same in h. cbn [self_shard shard_of env_at] in h. apply N.eqb_eq in h.
      apply Hne. rewrite Hmd. unfold multi_dst. symmetry. exact h. }
    rewrite Hd. lia.
  Qed.
End RefundableWorld.

Print Assumptions snd_left_ready.
Print Assumptions emitted_multi_refundable.
Print Assumptions multi_rejected_refund_restores_untouched.
