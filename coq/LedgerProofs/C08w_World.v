(* C08, world-level formulation, part 4: histories of the world model (Ledger/World.v).

   The history variable.  Along a run, every successful execution of ESDTNFTCreate, ESDTNFTAddURI or
   ESDTNFTUpdateAttributes is logged as an event  (function name, (token identifier, nonce, metadata value)):
     ESDTNFTCreate            the metadata of the created entry under the issued nonce,
     ESDTNFTAddURI            f(m) = m with the given URIs appended, m the UPDATER's copy just before the call,
     ESDTNFTUpdateAttributes  f(m) = m with the attributes replaced, m the UPDATER's copy just before the call
   ([step_evs], [wrun_evs], computed from the pre-world of each step).  [vals_of L0 evs] = the initial set L0
   plus the values of the events: the set Vals of metadata values ever produced.

   [MInv V c w]: every shard state satisfies [PInv V] (honest identifiers + provenance, C08w_Inv.v) and every
   in-flight message names valid identifiers, carries NFT payloads of record, and -- if it is a
   MultiESDTNFTTransfer message -- was emitted by its debited sender towards another address.

   provenance_step / provenance_histories   one honest operation / every history of honest operations keeps
                                            MInv for the Vals computed along the run
   copies_have_provenance                   every stored entry with metadata, on every shard, sits under
                                            token identifier ++ its own nonce for a VALID identifier and its
                                            metadata is in Vals; every in-flight NFT payload likewise
   route_histories                          no update event for (tok, n), created once: every copy of (tok, n),
                                            stored or in flight, carries exactly the creation metadata
   created_once_disciplined                 "created once" from C07's single-creator discipline + no wrap
   transfer_chain_delivers                  what B holds at the end = what A held at the start
   Honest operations ([honest_op]): direct calls that name valid identifiers, whose recipient account is
   present only on its own shard, and that are not forged destination-side NFT transfers (ESDTNFTTransfer /
   MultiESDTNFTTransfer with the caller's account absent); deliveries, re-deliveries and refunds of in-flight
   messages unconditionally. *)
From Coq.Strings Require Import String.
From Coq Require Import Lia List.
From EV Require Import Base.Bytes Base.Store Base.Monad gen.Consts Codec.Types Helpers.Helpers
  Parsers.Tokenize Parsers.CallArgs
  Ledger.Types Ledger.Env Ledger.Funcs Ledger.Transfers Ledger.World
  LedgerProofs.Defs LedgerProofs.EnvSpec LedgerProofs.WorldDefs LedgerProofs.WorldSpec
  LedgerProofs.Spec_Transfers_Base LedgerProofs.Spec_Transfers_Multi LedgerProofs.Spec_Supply LedgerProofs.C01_Consistent LedgerProofs.C05_Footprint
  LedgerProofs.C15_Inv LedgerProofs.C15_World
  LedgerProofs.ValidIds_Id LedgerProofs.ValidIds_Inv LedgerProofs.ValidIds_Exec LedgerProofs.ValidIds_World
  LedgerProofs.C07_Exec LedgerProofs.C07_World LedgerProofs.C08_Base
  LedgerProofs.C08w_Inv LedgerProofs.C08w_Funcs LedgerProofs.C08w_Transfers.
Import ListNotations.

(* ---------------- value sets ---------------- *)
Definition vals := list (bytes * N * metadata).
Definition inV (L : vals) : bytes -> N -> metadata -> Prop := fun tok n m => In (tok, n, m) L.
Lemma inV_app L L' tok n m : inV L tok n m -> inV (L ++ L') tok n m.
Proof. unfold inV. intros H. apply in_or_app. left. exact H. Qed.

(* an event: (function name, (token identifier, nonce, produced metadata value)) *)
Definition pev := (bytes * (bytes * N * metadata))%type.
Definition vals_of (L0 : vals) (evs : list pev) : vals := L0 ++ map snd evs.
Lemma vals_of_app L0 e1 e2 : vals_of L0 (e1 ++ e2) = vals_of (vals_of L0 e1) e2.
Proof. unfold vals_of. rewrite map_app, app_assoc. reflexivity. Qed.
Lemma map_snd_pair {A B} (a : A) (l : list B) : map snd (map (pair a) l) = l.
Proof. induction l as [|x r IH]; [reflexivity|]. cbn [map snd]. rewrite IH. reflexivity. Qed.

Lemma PInv_env V E E' s : cdc E' = cdc E -> PInv V E s -> PInv V E' s.
Proof. intros He Hs a k Hne x t Hk Hd. rewrite He in Hd. exact (Hs a k Hne x t Hk Hd). Qed.
Lemma PInv_empty V E : PInv V E (mk_state []).
Proof. intros a k H. exfalso. apply H. apply cell_empty_state. Qed.

(* the named tokens of every function but the multi-transfer depend on the arguments only *)
Lemma named_tokens_args F i i' : F <> W_MULTIT -> i_args i' = i_args i -> named_tokens F i' = named_tokens F i.
Proof.
  intros HF Ha. unfold named_tokens. destruct (classify F) as [b|] eqn:Ec; [|reflexivity].
  apply classify_some in Ec. subst F.
  destruct b; cbn [named_tokens_b]; try reflexivity; try (unfold argn; rewrite Ha; reflexivity).
  exfalso. apply HF. reflexivity.
Qed.
Lemma args_ids_call_ids F A i : args_ids F A -> i_args i = A -> (F = W_MULTIT -> i_caller i <> i_rcpt i) -> call_ids F i.
Proof.
  intros Hids Ha Hm. destruct (beqb_spec (i_caller i) (i_rcpt i)) as [Heq|Hne]; [|apply Hids; assumption].
  assert (HF : F <> W_MULTIT) by (intros H; exact (Hm H Heq)).
  set (i' := {| i_caller := i_caller i; i_rcpt := x00 :: i_caller i; i_args := i_args i; i_value := i_value i;
                i_gas := i_gas i; i_gasLocked := i_gasLocked i; i_callType := i_callType i; i_rae := i_rae i;
                i_snd := i_snd i; i_dst := i_dst i |}).
  assert (H' : call_ids F i').
  { apply Hids; [exact Ha|]. cbn [i' i_caller i_rcpt]. intros H. apply (f_equal (@length _)) in H. cbn in H. lia. }
  unfold call_ids in *. rewrite <- (named_tokens_args F i i' HF eq_refl). exact H'.
Qed.

Lemma NoDup_map_eq {A B} (f : A -> B) (l : list A) x y : NoDup (map f l) -> In x l -> In y l -> f x = f y -> x = y.
Proof.
  induction l as [|a r IH]; intros Hnd Hx Hy Hf; [destruct Hx|]. cbn [map] in Hnd. inversion Hnd as [|? ? Hn Hr]; subst.
  destruct Hx as [->|Hx], Hy as [->|Hy]; auto.
  - exfalso. apply Hn. rewrite Hf. apply in_map. exact Hy.
  - exfalso. apply Hn. rewrite <- Hf. apply in_map. exact Hx.
Qed.

Section World.
  Variable c : wcfg.
  Hypothesis Hc : codec_ok (wc_cdc c).
  Hypothesis Hf : flag_undec (wc_cdc c).
  Notation shof := (wc_shard_of c).
  Notation cd := (wc_cdc c).

  (* ================================================================ *)
  (* the history variable                                               *)
  (* ================================================================ *)
  Definition step_evs (w : world) (op : wop) : list pev :=
    match op_exec c w op with
    | None => []
    | Some (sh, fn, i) =>
      match exec (env_at c sh) fn i (wst w sh) with
      | (Ok _, _) => map (pair fn) (produced (env_at c sh) fn i (wst w sh))
      | _ => []
      end
    end.
  Fixpoint wrun_evs (w : world) (ops : list wop) : world * list pev :=
    match ops with
    | [] => (w, [])
    | op :: r => let res := wrun_evs (wstep c w op) r in (fst res, step_evs w op ++ snd res)
    end.
  Definition evs_of (w : world) (ops : list wop) : list pev := snd (wrun_evs w ops).
  Theorem wrun_evs_world w ops : fst (wrun_evs w ops) = wrun c w ops.
  Proof. revert w. induction ops as [|op r IH]; intros w; [reflexivity|]. cbn [wrun_evs fst]. rewrite IH. reflexivity. Qed.
  Lemma evs_of_cons w op r : evs_of w (op :: r) = step_evs w op ++ evs_of (wstep c w op) r.
  Proof. reflexivity. Qed.

  (* ================================================================ *)
  (* the invariant                                                      *)
  (* ================================================================ *)
  Definition msg_good (V : bytes -> N -> metadata -> Prop) (m : msg) : Prop :=
    args_ids (m_fn m) (m_args m)
    /\ args_prov V cd (m_fn m) (m_args m)
    /\ (m_fn m = W_MULTIT -> m_caller m <> m_dest m /\ m_dest m <> m_sender m).
  Definition MInv (V : bytes -> N -> metadata -> Prop) (w : world) : Prop :=
    (forall sh, PInv V (env_at c sh) (wst w sh)) /\ Forall (msg_good V) (inflight w).

  Lemma msg_good_mono (V V' : bytes -> N -> metadata -> Prop) m :
    (forall tok n md, V tok n md -> V' tok n md) -> msg_good V m -> msg_good V' m.
  Proof. intros H (H1 & H2 & H3). split; [exact H1|]. split; [eapply args_prov_mono; eauto|exact H3]. Qed.
  Lemma MInv_mono (V V' : bytes -> N -> metadata -> Prop) w :
    (forall tok n md, V tok n md -> V' tok n md) -> MInv V w -> MInv V' w.
  Proof.
    intros H [H1 H2]. split; [intros sh; eapply PInv_mono; eauto|].
    eapply Forall_impl; [|exact H2]. intros m. apply msg_good_mono. exact H.
  Qed.
  Lemma MInv_same V w w' : shards w' = shards w -> inflight w' = inflight w -> MInv V w -> MInv V w'.
  Proof. intros Hs Hi [H1 H2]. split; [intros sh; unfold wst, shard_accts; rewrite Hs; apply H1|rewrite Hi; exact H2]. Qed.
  Theorem MInv_empty V n : MInv V (empty_world n).
  Proof. split; [intros sh; unfold wst; rewrite shard_accts_empty_world; apply PInv_empty|constructor]. Qed.
  Lemma MInv_VInv V w : MInv V w -> VInv c w.
  Proof.
    intros [H1 H2]. split; [intros sh; apply (PInv_ids V); apply H1|].
    eapply Forall_impl; [|exact H2]. intros m (H & _). exact H.
  Qed.

  (* ================================================================ *)
  (* honest operations                                                  *)
  (* ================================================================ *)
  Definition honest_call (sh : N) (fn : bytes) (i : input) : Prop :=
    (i_dst i = true -> shof (i_rcpt i) = sh)
    /\ call_ids fn i
    /\ ((fn = W_NFTT \/ fn = W_MULTIT) -> i_snd i = true).
  Definition honest_op (op : wop) : Prop :=
    match op with OCall sh fn i => honest_call sh fn i | _ => True end.

  (* a transaction of an account that lives on the executing shard *)
  Lemma origin_call_honest sh fn i : origin_call c sh i -> call_ids fn i -> honest_call sh fn i.
  Proof.
    intros [Hcl [Hs Hd]] Hv. split; [|split; [exact Hv|]].
    - intros H. rewrite H in Hd. symmetry in Hd. apply N.eqb_eq in Hd. exact Hd.
    - intros _. rewrite Hs, Hcl. apply N.eqb_refl.
  Qed.
  (* any call with truthful presence flags of a function other than the two NFT transfers, e.g. by the system contract *)
  Lemma plain_call_honest sh fn i : presence_ok c sh i -> fn <> W_NFTT -> fn <> W_MULTIT -> call_ids fn i ->
    honest_call sh fn i.
  Proof.
    intros [_ Hd] H1 H2 Hv. split; [|split; [exact Hv|]].
    - intros H. rewrite H in Hd. symmetry in Hd. apply N.eqb_eq in Hd. exact Hd.
    - intros [H|H]; contradiction.
  Qed.

  (* ================================================================ *)
  (* what [collect] makes of an [outp] output                           *)
  (* ================================================================ *)
  Definition msg_prov V (m : msg) : Prop :=
    args_prov V cd (m_fn m) (m_args m) /\ (m_fn m = W_MULTIT -> m_caller m <> m_dest m /\ m_dest m <> m_sender m).

  Lemma msg_of_transfer_prov V sh i id dest t m :
    trp V (env_at c sh) i dest t -> (i_dst i = true -> shof (i_rcpt i) = sh) ->
    msg_of_transfer c sh i id dest t = Some m -> msg_prov V m.
  Proof.
    intros Ht Hd Hm. unfold msg_of_transfer in Hm.
    assert (Hloc : shof dest = sh -> False).
    { intros Hl. destruct (tr_data t) as [|b r]; [discriminate|].
      destruct (parse_call_data (b :: r)) as [[fn args]|]; [|discriminate].
      destruct (negb (is_builtin fn)); [discriminate|]. rewrite Hl, N.eqb_refl in Hm. cbn [andb] in Hm.
      destruct (beqb fn C.BuiltInFunctionESDTNFTCreateRoleTransfer); discriminate. }
    destruct Ht as [Ht|[[Hi ->]|[Ht|(F & A & Ht & HF & Hok & Hmu)]]].
    - rewrite Ht in Hm. discriminate.
    - exfalso. apply Hloc. apply Hd. exact Hi.
    - exfalso. apply Hloc. exact Ht.
    - rewrite Ht in Hm. pose proof (emit_names_parse F A HF) as Hp.
      destruct (msg_data F A) as [|b r]; [discriminate|]. rewrite Hp in Hm.
      destruct (negb (is_builtin F)); [discriminate|].
      destruct ((shof dest =? sh)%N && negb (beqb F C.BuiltInFunctionESDTNFTCreateRoleTransfer))%bool; [discriminate|].
      destruct (beqb F C.BuiltInFunctionESDTNFTCreateRoleTransfer && (shof dest =? sh)%N)%bool; [discriminate|].
      injection Hm as <-. unfold msg_prov. cbn [m_fn m_args m_caller m_dest m_sender]. split; [exact Hok|].
      intros HFm. destruct (Hmu HFm) as (Hs & Hr & Hne). rewrite Hs, Hr.
      destruct (shof (i_caller i) =? sh)%N; split; auto.
  Qed.
  Lemma collect_transfers_prov V sh i dest ts : (i_dst i = true -> shof (i_rcpt i) = sh) ->
    (forall t, In t ts -> trp V (env_at c sh) i dest t) ->
    forall id m, In m (collect_transfers c sh i id dest ts) -> msg_prov V m.
  Proof.
    intros Hd. induction ts as [|t r IH]; intros Hts id m Hm; [destruct Hm|]. cbn [collect_transfers] in Hm.
    destruct (msg_of_transfer c sh i id dest t) as [m0|] eqn:Em.
    - destruct Hm as [<-|Hm].
      + eapply msg_of_transfer_prov; [apply Hts; left; reflexivity|exact Hd|exact Em].
      + eapply IH; [intros t' Ht'; apply Hts; right; exact Ht'|exact Hm].
    - eapply IH; [intros t' Ht'; apply Hts; right; exact Ht'|exact Hm].
  Qed.
  Lemma collect_accounts_prov V sh i oas : (i_dst i = true -> shof (i_rcpt i) = sh) ->
    (forall oa t, In oa oas -> In t (oc_transfers oa) -> trp V (env_at c sh) i (oc_addr oa) t) ->
    forall id m, In m (collect_accounts c sh i id oas) -> msg_prov V m.
  Proof.
    intros Hd. induction oas as [|oa r IH]; intros Ho id m Hm; [destruct Hm|]. cbn [collect_accounts] in Hm.
    cbv zeta in Hm. apply in_app_or in Hm as [Hm|Hm].
    - eapply collect_transfers_prov; [exact Hd| |exact Hm]. intros t Ht. apply Ho; [left; reflexivity|exact Ht].
    - eapply IH; [|exact Hm]. intros oa' t Hoa Ht. apply Ho; [right; exact Hoa|exact Ht].
  Qed.
  Lemma travels_msg_prov V fn m : travels fn = true -> m_fn m = fn -> msg_prov V m.
  Proof.
    unfold travels. intros H Hm.
    assert (H1 : fn <> W_NFTT /\ fn <> W_MULTIT).
    { apply orb_prop in H as [H|H]; [apply orb_prop in H as [H|H]|]; apply beqb_true in H; subst fn;
        split; intros H'; vm_compute in H'; discriminate. }
    destruct H1 as [H1 H2]. split; rewrite Hm; [apply args_prov_plain; assumption|]. intros; contradiction.
  Qed.
  Lemma collect_prov V sh fn i id o : (i_dst i = true -> shof (i_rcpt i) = sh) -> outp V (env_at c sh) i o ->
    forall m, In m (collect c sh fn i id o) -> msg_prov V m.
  Proof.
    intros Hd Ho m Hm. unfold collect in Hm.
    destruct (collect_accounts c sh i id (o_accounts o)) as [|m0 ms] eqn:Ec.
    - destruct ((negb (shof (i_rcpt i) =? sh)%N && negb (shof (i_rcpt i) =? META)%N && (shof (i_caller i) =? sh)%N)
                && travels fn)%bool eqn:Et; [|destruct Hm].
      destruct Hm as [<-|[]]. apply andb_prop in Et as [_ Et]. eapply travels_msg_prov; [exact Et|reflexivity].
    - eapply (collect_accounts_prov V sh i (o_accounts o) Hd Ho id). rewrite Ec. exact Hm.
  Qed.

  (* ================================================================ *)
  (* one step                                                           *)
  (* ================================================================ *)
  Lemma shards_commit V w w' sh s' :
    (forall sh', PInv V (env_at c sh') (wst w sh')) -> PInv V (env_at c sh) s' ->
    shards w' = set_nth (N.to_nat sh) (accts s') (shards w) ->
    forall sh', PInv V (env_at c sh') (wst w' sh').
  Proof.
    intros Hw Hs Hsh sh'. unfold wst, shard_accts. rewrite Hsh.
    destruct (Nat.lt_ge_cases (N.to_nat sh) (length (shards w))) as [Hlt|Hge].
    - destruct (N.eq_dec sh' sh) as [->|Hne].
      + rewrite nth_set_nth_eq by exact Hlt. eapply PI_accts; [|exact Hs]. reflexivity.
      + rewrite nth_set_nth_ne by (intros H; apply Hne; apply N2Nat.inj; symmetry; exact H). apply Hw.
    - rewrite set_nth_out by exact Hge. apply Hw.
  Qed.

  Lemma kept_forall (Q : msg -> Prop) w op : Forall Q (inflight w) -> Forall Q (kept w op).
  Proof.
    intros H. destruct op; cbn [kept]; try exact H.
    all: rewrite Forall_forall in *; intros m Hm; apply H; eapply in_drop_msg; exact Hm.
  Qed.

  (* the call a step executes satisfies the hypotheses of the exec-level theorem *)
  Lemma op_exec_honest V w op sh fn i : MInv V w -> honest_op op -> op_exec c w op = Some (sh, fn, i) ->
    (i_dst i = true -> shof (i_rcpt i) = sh) /\ call_ids fn i /\ payload_prov V (env_at c sh) fn i.
  Proof.
    intros [_ Hms] Hop Hex. rewrite Forall_forall in Hms.
    destruct op as [sh0 fn0 i0|id gas|id gas|id gas]; cbn [op_exec honest_op] in *.
    - destruct (sh0 <? wc_nshards c)%N; [|discriminate]. injection Hex as <- <- <-.
      destruct Hop as (Hd & Hv & Hs). split; [exact Hd|]. split; [exact Hv|].
      intros [Hsnd _]. destruct (beqb_spec fn0 W_NFTT) as [H1|H1]; [rewrite Hs in Hsnd by auto; discriminate|].
      destruct (beqb_spec fn0 W_MULTIT) as [H2|H2]; [rewrite Hs in Hsnd by auto; discriminate|].
      apply args_prov_plain; assumption.
    - destruct (find_msg (inflight w) id) as [m|] eqn:Hfind; [|discriminate]. cbv zeta in Hex.
      destruct (shof (m_dest m) <? wc_nshards c)%N; [|discriminate]. injection Hex as <- <- <-.
      destruct (find_msg_In _ _ _ Hfind) as [Hin _]. destruct (Hms m Hin) as (H1 & H2 & H3).
      split; [intros _; reflexivity|]. split; [|intros _; exact H2].
      apply (args_ids_call_ids _ (m_args m)); [exact H1|reflexivity|]. intros HF. apply (H3 HF).
    - destruct (find_msg (inflight w) id) as [m|] eqn:Hfind; [|discriminate]. cbv zeta in Hex.
      destruct (shof (m_dest m) <? wc_nshards c)%N; [|discriminate]. injection Hex as <- <- <-.
      destruct (find_msg_In _ _ _ Hfind) as [Hin _]. destruct (Hms m Hin) as (H1 & H2 & H3).
      split; [intros _; reflexivity|]. split; [|intros _; exact H2].
      apply (args_ids_call_ids _ (m_args m)); [exact H1|reflexivity|]. intros HF. apply (H3 HF).
    - destruct (find_msg (inflight w) id) as [m|] eqn:Hfind; [|discriminate]. cbv zeta in Hex.
      destruct (nat_in id (failed w) && (shof (m_sender m) <? wc_nshards c)%N)%bool; [|discriminate]. injection Hex as <- <- <-.
      destruct (find_msg_In _ _ _ Hfind) as [Hin _]. destruct (Hms m Hin) as (H1 & H2 & H3).
      split; [intros _; reflexivity|]. split; [|intros _; exact H2].
      apply (args_ids_call_ids _ (m_args m)); [exact H1|reflexivity|]. intros HF. apply (H3 HF).
  Qed.

  Theorem provenance_step L w op : MInv (inV L) w -> honest_op op ->
    MInv (inV (vals_of L (step_evs w op))) (wstep c w op).
  Proof.
    intros HM Hop. pose proof (wstep_shape c w op) as Hsh. unfold step_evs.
    assert (Hmono : forall L', MInv (inV (L ++ L')) w) by (intros L'; eapply MInv_mono; [|exact HM]; intros; apply inV_app; assumption).
    destruct (op_exec c w op) as [[[sh fn] i]|] eqn:Hex.
    2: { destruct Hsh as [H1 H2]. eapply MInv_same; eauto. }
    destruct Hsh as [Hlt Hsh].
    destruct (exec (env_at c sh) fn i (wst w sh)) as [[o|e|] s'] eqn:Hx.
    2, 3: (destruct Hsh as [H1 H2]; eapply MInv_same; eauto).
    destruct Hsh as [Hs Hi]. unfold vals_of. rewrite map_snd_pair.
    set (L' := L ++ produced (env_at c sh) fn i (wst w sh)).
    pose proof (Hmono (produced (env_at c sh) fn i (wst w sh))) as HM'. fold L' in HM'.
    destruct (op_exec_honest _ w op sh fn i HM' Hop Hex) as (Hd & Hv & Hpay).
    destruct HM' as [Hshards Hmsgs].
    assert (Hprod : produced_ok (inV L') (env_at c sh) fn i (wst w sh)).
    { intros tok n m Hin. unfold inV, L'. apply in_or_app. right. exact Hin. }
    destruct (PInv_exec (inV L') (env_at c sh) fn i (wst w sh) o s' Hc Hf (Hshards sh) Hv Hpay Hprod Hx) as [Hs' Hout].
    destruct (ids_valid_exec_out (env_at c sh) fn i (wst w sh) o s' Hc Hf (PInv_ids _ _ _ (Hshards sh)) Hv Hx) as [_ Houtv].
    split.
    - eapply shards_commit; eauto.
    - rewrite Hi. apply Forall_app. split; [apply kept_forall; exact Hmsgs|].
      apply Forall_forall. intros m Hm.
      assert (Hm' : In m (collect c sh fn i (next_id w) o)) by (destruct op; cbn [emitted] in Hm; try exact Hm; destruct Hm).
      destruct (collect_prov (inV L') sh fn i (next_id w) o Hd Hout m Hm') as [H1 H2].
      split; [exact (collect_ids c sh fn i (next_id w) o Hd Houtv Hv m Hm')|]. split; assumption.
  Qed.

  (* ================================================================ *)
  (* histories                                                          *)
  (* ================================================================ *)
  Theorem provenance_histories : forall ops L w, MInv (inV L) w -> Forall honest_op ops ->
    MInv (inV (vals_of L (evs_of w ops))) (wrun c w ops).
  Proof.
    induction ops as [|op r IH]; intros L w HM Hops.
    - unfold evs_of, vals_of. cbn. rewrite app_nil_r. exact HM.
    - inversion Hops as [|? ? Hop Hr]; subst. rewrite wrun_cons, evs_of_cons, vals_of_app.
      apply IH; [apply provenance_step; assumption|exact Hr].
  Qed.

  (* the statement, unfolded *)
  Theorem copies_have_provenance L w ops : MInv (inV L) w -> Forall honest_op ops ->
    let w' := wrun c w ops in
    let Vals := vals_of L (evs_of w ops) in
    (* every stored entry with metadata, on every shard: a valid identifier, keyed by its own nonce, value in Vals *)
    (forall sh a x t m, tok_at (env_at c sh) (wst w' sh) a (P ++ x) = Some t -> t_meta t = Some m ->
       exists tok, valid_id tok /\ x = tok ++ u64_bytes (md_nonce m) /\ In (tok, md_nonce m, m) Vals)
    (* read through a valid identifier: the entry under (tok, n) carries nonce n and a value of Vals *)
    /\ (forall sh a tok n t m, valid_id tok ->
          tok_at (env_at c sh) (wst w' sh) a (nft_key (P ++ tok) n) = Some t -> t_meta t = Some m ->
          In (tok, n, m) Vals /\ md_nonce m = n)
    (* every in-flight NFT payload *)
    /\ (forall msg, In msg (inflight w') -> args_prov (inV Vals) cd (m_fn msg) (m_args msg)).
  Proof.
    intros HM Hops. cbv zeta. destruct (provenance_histories ops L w HM Hops) as [Hsh Hms]. split; [|split].
    - intros sh a x t m Ht Hm. destruct (PI_tok_at _ _ _ _ _ _ (Hsh sh) Ht) as (tok & Hv & Hx & Hmv).
      exists tok. unfold tok_nonce in Hx. rewrite Hm in Hx. split; [exact Hv|]. split; [exact Hx|]. apply Hmv. exact Hm.
    - intros sh a tok n t m Hv Ht Hm. destruct (PI_nft _ _ _ _ _ _ _ (Hsh sh) Hv Ht) as [Hmv Hn].
      unfold tok_nonce in Hn. rewrite Hm in Hn. subst n. split; [apply Hmv; exact Hm|reflexivity].
    - intros msg Hin. rewrite Forall_forall in Hms. destruct (Hms msg Hin) as (_ & H & _). exact H.
  Qed.

  (* ================================================================ *)
  (* histories without updates: every copy carries the creation metadata *)
  (* ================================================================ *)
  (* no successful ESDTNFTAddURI / ESDTNFTUpdateAttributes for (tok, n): the only events for (tok, n) are creations *)
  Definition no_updates (tok : bytes) (n : N) (evs : list pev) : Prop :=
    forall fn m, In (fn, (tok, n, m)) evs -> fn = F_CREATE.
  (* nonce n is issued for tok at most once *)
  Definition created_once (tok : bytes) (n : N) (evs : list pev) : Prop :=
    forall m m', In (F_CREATE, (tok, n, m)) evs -> In (F_CREATE, (tok, n, m')) evs -> m = m'.
  (* nothing of record for (tok, n) *)
  Definition fresh (tok : bytes) (n : N) (L : vals) : Prop := forall m, ~ In (tok, n, m) L.
  (* at most one value of record for (tok, n) *)
  Definition single_valued (tok : bytes) (n : N) (L : vals) : Prop :=
    forall m m', In (tok, n, m) L -> In (tok, n, m') L -> m = m'.
  Definition only_value (tok : bytes) (n : N) (m0 : metadata) : bytes -> N -> metadata -> Prop :=
    fun tok' n' m => tok' = tok -> n' = n -> m = m0.
  (* every copy of (tok, n), stored or in flight, carries m0 *)
  Definition copies_equal (tok : bytes) (n : N) (m0 : metadata) (w : world) : Prop :=
    (forall sh a t m, tok_at (env_at c sh) (wst w sh) a (nft_key (P ++ tok) n) = Some t -> t_meta t = Some m -> m = m0)
    /\ (forall msg, In msg (inflight w) -> args_prov (only_value tok n m0) cd (m_fn msg) (m_args msg)).

  Lemma vals_single tok n m0 L evs : fresh tok n L -> no_updates tok n evs -> created_once tok n evs ->
    In (F_CREATE, (tok, n, m0)) evs -> forall m, In (tok, n, m) (vals_of L evs) -> m = m0.
  Proof.
    intros Hfr Hnu Hco H0 m Hin. unfold vals_of in Hin. apply in_app_or in Hin as [Hin|Hin]; [exfalso; exact (Hfr m Hin)|].
    apply in_map_iff in Hin as ([fn v] & Hv & Hin). cbn [snd] in Hv. subst v.
    pose proof (Hnu fn m Hin) as ->. exact (Hco m m0 Hin H0).
  Qed.

  Theorem route_histories L w ops tok n m0 : MInv (inV L) w -> Forall honest_op ops -> valid_id tok ->
    fresh tok n L ->
    no_updates tok n (evs_of w ops) -> created_once tok n (evs_of w ops) -> In (F_CREATE, (tok, n, m0)) (evs_of w ops) ->
    copies_equal tok n m0 (wrun c w ops).
  Proof.
    intros HM Hops Hv Hfr Hnu Hco H0.
    destruct (copies_have_provenance L w ops HM Hops) as (_ & H2 & H3). cbv zeta in *.
    pose proof (vals_single tok n m0 L _ Hfr Hnu Hco H0) as Hs. split.
    - intros sh a t m Ht Hm. destruct (H2 sh a tok n t m Hv Ht Hm) as [Hin _]. exact (Hs m Hin).
    - intros msg Hin. eapply args_prov_mono; [|exact (H3 msg Hin)].
      intros tok' n' m Hi -> ->. exact (Hs m Hi).
  Qed.

  (* ---------------- "created once" from C07's discipline ---------------- *)
  (* the creation events for one token identifier, and the nonces they issue *)
  Definition cev (tok : bytes) (evs : list pev) : list pev :=
    filter (fun e => (beqb (fst e) F_CREATE && beqb (fst (fst (snd e))) tok)%bool) evs.
  Definition ev_nonce (e : pev) : N := snd (fst (snd e)).
  Lemma cev_app tok l l' : cev tok (l ++ l') = cev tok l ++ cev tok l'.
  Proof. apply filter_app. Qed.

  Lemma step_issued tok w op :
    map ev_nonce (cev tok (step_evs w op)) = issued tok (opt_list (step_log c w op)).
  Proof.
    unfold step_evs, step_log. destruct (op_exec c w op) as [[[sh fn] i]|]; [|reflexivity].
    destruct (exec (env_at c sh) fn i (wst w sh)) as [[o|e|] s'] eqn:Hx; try reflexivity.
    unfold issued, opt_list, issued_of. cbn [flat_map x_fn x_in x_out]. rewrite app_nil_r.
    unfold produced. destruct (beqb_spec fn F_CREATE) as [->|Hne].
    - cbn [created_token t_meta map cev filter fst snd]. rewrite beqb_refl. cbn [andb].
      destruct (beqb (argn i 0) tok); [|reflexivity]. cbn [map ev_nonce snd fst].
      change (exec (env_at c sh) F_CREATE i) with (f_nft_create (env_at c sh) i) in Hx.
      apply (f_nft_create_spec (env_at c sh) Hc) in Hx. destruct Hx. rewrite nc_retdata. cbn [hd].
      rewrite bigU64_u64_bytes. unfold create_nonce. rewrite (u64_small (u64 _)) by apply u64_lt. reflexivity.
    - cbn [andb]. destruct (beqb fn F_ADDURI); [|destruct (beqb fn F_UPDATTR)].
      + destruct (own_meta (env_at c sh) i (wst w sh)); [|reflexivity]. cbn [map cev filter fst].
        rewrite (beqb_false _ _ Hne). reflexivity.
      + destruct (own_meta (env_at c sh) i (wst w sh)); [|reflexivity]. cbn [map cev filter fst].
        rewrite (beqb_false _ _ Hne). reflexivity.
      + reflexivity.
  Qed.
  Lemma run_issued tok : forall ops w,
    map ev_nonce (cev tok (evs_of w ops)) = issued tok (snd (wrun_log c w ops)).
  Proof.
    induction ops as [|op r IH]; intros w; [reflexivity|].
    rewrite evs_of_cons, cev_app, map_app. cbn [wrun_log snd]. rewrite issued_app, <- IH, step_issued. reflexivity.
  Qed.
  Lemma NoDup_created_once tok evs : NoDup (map ev_nonce (cev tok evs)) -> forall n, created_once tok n evs.
  Proof.
    intros Hnd n m m' H1 H2.
    assert (Hin : forall x, In (F_CREATE, (tok, n, x)) evs -> In (F_CREATE, (tok, n, x)) (cev tok evs)).
    { intros x Hx. apply filter_In. split; [exact Hx|]. cbn [fst snd]. rewrite !beqb_refl. reflexivity. }
    pose proof (NoDup_map_eq ev_nonce _ _ _ Hnd (Hin m H1) (Hin m' H2) eq_refl) as He. inversion He. reflexivity.
  Qed.
  Theorem created_once_disciplined tok w0 ops :
    init_ok c tok w0 -> disciplined c tok false w0 ops -> nowrap c tok w0 ops ->
    forall n, created_once tok n (evs_of w0 ops).
  Proof.
    intros Hi Hd Hn. apply NoDup_created_once. rewrite run_issued.
    exact (proj1 (nonces_unique_histories c Hc tok w0 ops Hi Hd Hn)).
  Qed.
  Corollary route_histories_disciplined L w ops tok n m0 : MInv (inV L) w -> Forall honest_op ops -> valid_id tok ->
    fresh tok n L -> init_ok c tok w -> disciplined c tok false w ops -> nowrap c tok w ops ->
    no_updates tok n (evs_of w ops) -> In (F_CREATE, (tok, n, m0)) (evs_of w ops) ->
    copies_equal tok n m0 (wrun c w ops).
  Proof.
    intros HM Hops Hv Hfr Hi Hd Hn Hnu H0. eapply route_histories; eauto. apply created_once_disciplined; assumption.
  Qed.

  (* ================================================================ *)
  (* the user-facing corollary                                          *)
  (* ================================================================ *)
  (* no event at all for (tok, n): neither an update nor a (re-)creation *)
  Definition no_events (tok : bytes) (n : N) (evs : list pev) : Prop := forall fn m, ~ In (fn, (tok, n, m)) evs.

  Theorem transfer_chain_delivers L w ops tok n shA A tA m shB B tB m' :
    MInv (inV L) w -> single_valued tok n L -> Forall honest_op ops -> valid_id tok ->
    no_events tok n (evs_of w ops) ->
    tok_at (env_at c shA) (wst w shA) A (nft_key (P ++ tok) n) = Some tA -> t_meta tA = Some m ->
    tok_at (env_at c shB) (wst (wrun c w ops) shB) B (nft_key (P ++ tok) n) = Some tB -> t_meta tB = Some m' ->
    m' = m.
  Proof.
    intros HM Hsv Hops Hv Hne HA HmA HB HmB.
    destruct (copies_have_provenance L w ops HM Hops) as (_ & H2 & _). cbv zeta in H2.
    destruct (H2 shB B tok n tB m' Hv HB HmB) as [Hin _].
    destruct (copies_have_provenance L w [] HM (Forall_nil _)) as (_ & H0 & _). cbv zeta in H0.
    destruct (H0 shA A tok n tA m Hv HA HmA) as [Hin0 _].
    unfold evs_of in Hin0. cbn in Hin0. unfold vals_of in Hin0. cbn in Hin0. rewrite app_nil_r in Hin0.
    unfold vals_of in Hin. apply in_app_or in Hin as [Hin|Hin]; [exact (Hsv m' m Hin Hin0)|].
    apply in_map_iff in Hin as ([fn v] & Hvv & Hin). cbn [snd] in Hvv. subst v. exfalso. exact (Hne fn m' Hin).
  Qed.

  (* after a history as in [route_histories] the set of record is single-valued on (tok, n): the two theorems chain *)
  Lemma route_single_valued L evs tok n m0 : fresh tok n L -> no_updates tok n evs -> created_once tok n evs ->
    In (F_CREATE, (tok, n, m0)) evs -> single_valued tok n (vals_of L evs).
  Proof.
    intros Hfr Hnu Hco H0 m m' H1 H2. rewrite (vals_single tok n m0 L evs Hfr Hnu Hco H0 m H1).
    rewrite (vals_single tok n m0 L evs Hfr Hnu Hco H0 m' H2). reflexivity.
  Qed.

  (* ================================================================ *)
  (* a boolean checker for the hypothesis on operations                 *)
  (* ================================================================ *)
  Definition honest_opb (op : wop) : bool :=
    match op with
    | OCall sh fn i =>
      ((negb (i_dst i) || (shof (i_rcpt i) =? sh)%N)
       && forallb valid_id_b (named_tokens fn i)
       && (negb (beqb fn W_NFTT || beqb fn W_MULTIT) || i_snd i))%bool
    | _ => true
    end.
  Lemma honest_opb_ok op : honest_opb op = true -> honest_op op.
  Proof.
    destruct op as [sh fn i| | |]; cbn [honest_opb honest_op]; try (intros; exact I).
    intros H. apply andb_prop in H as [H H3]. apply andb_prop in H as [H1 H2]. split; [|split].
    - intros Hd. rewrite Hd in H1. cbn in H1. apply N.eqb_eq. exact H1.
    - unfold call_ids. apply Forall_forall. intros x Hx. apply valid_id_b_sound.
      rewrite forallb_forall in H2. apply H2. exact Hx.
    - intros Hfn. destruct (i_snd i); [reflexivity|]. rewrite Bool.orb_false_r in H3.
      destruct Hfn as [->| ->]; vm_compute in H3; discriminate.
  Qed.
  Lemma honest_opsb_ok ops : forallb honest_opb ops = true -> Forall honest_op ops.
  Proof. intros H. apply Forall_forall. intros op Hop. apply honest_opb_ok. rewrite forallb_forall in H. apply H. exact Hop. Qed.
End World.

Print Assumptions provenance_step.
Print Assumptions copies_have_provenance.
Print Assumptions route_histories.
Print Assumptions created_once_disciplined.
Print Assumptions transfer_chain_delivers.
