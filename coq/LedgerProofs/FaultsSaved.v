(* C17, third part — saved_if_modified: on the paths where a built-in obtains an account through
   LoadAccount (ESDTPause/UnPause: the system account; ESDTNFTTransfer and MultiESDTNFTTransfer on the
   sender's shard with a same-shard destination; ESDTNFTCreateRoleTransfer with a same-shard new owner)
   an Ok result implies that SaveAccount of that account was executed successfully after the
   LoadAccount, and that no account is touched between that SaveAccount and the return.
   LoadAccount/SaveAccount are pure fault points in the model ([dep]), so these are statements about
   the order of primitives inside the run. *)
From EV Require Import Base.Bytes Base.Store Base.Monad gen.Consts Codec.Types Helpers.Helpers
  Ledger.Types Ledger.Env Ledger.Funcs Ledger.Transfers LedgerProofs.Faults.

Notation MT := (@M err mstate).

(* computations that leave every account as it is *)
Definition keeps {A} (m : MT A) : Prop := forall s r s', m s = (r, s') -> accts s' = accts s.

Lemma keeps_same {A} (m : MT A) : (forall s, snd (m s) = s) -> keeps m.
Proof. intros Q s r s' H. specialize (Q s). rewrite H in Q. cbn [snd] in Q. subst. reflexivity. Qed.
Lemma keeps_ret {A} (a : A) : keeps (ret a : MT A).
Proof. apply keeps_same. reflexivity. Qed.
Lemma keeps_fail {A} e : keeps (fail e : MT A).
Proof. apply keeps_same. reflexivity. Qed.
Lemma keeps_panic {A} : keeps (panic : MT A).
Proof. apply keeps_same. reflexivity. Qed.
Lemma keeps_guard b e : keeps (guard b e : MT unit).
Proof. apply keeps_same. intros s. destruct b; reflexivity. Qed.
Lemma keeps_lift_opt {A} (o : option A) e : keeps (lift_opt o e : MT A).
Proof. apply keeps_same. intros s. destruct o; reflexivity. Qed.
Lemma keeps_opt_or_panic {A} (o : option A) : keeps (opt_or_panic o : MT A).
Proof. apply keeps_same. intros s. destruct o; reflexivity. Qed.
Lemma keeps_retrieve a k : keeps (retrieve a k).
Proof. apply keeps_same. reflexivity. Qed.
Lemma keeps_get_acct a : keeps (get_acct a).
Proof. apply keeps_same. reflexivity. Qed.
Lemma keeps_alloc n : keeps (alloc n).
Proof. intros s r s' H. unfold alloc in H. destruct (_ <? _)%N; inversion H; reflexivity. Qed.
Lemma keeps_arg l i : keeps (arg l i).
Proof. unfold arg. destruct (_ <? _)%N; [apply keeps_opt_or_panic|apply keeps_panic]. Qed.
Lemma keeps_args_from l i : keeps (args_from l i).
Proof. unfold args_from. destruct (_ <=? _)%N; [apply keeps_ret|apply keeps_panic]. Qed.
Lemma keeps_val_of t : keeps (val_of t).
Proof. apply keeps_opt_or_panic. Qed.
Lemma keeps_meta_of t : keeps (meta_of t).
Proof. apply keeps_opt_or_panic. Qed.
Lemma keeps_dep E : keeps (dep E).
Proof. intros s r s' H. unfold dep in H. destruct (plan E (calls s)); inversion H; reflexivity. Qed.
Lemma keeps_bind {A B} (m : MT A) (f : A -> MT B) : keeps m -> (forall a, keeps (f a)) -> keeps (bind m f).
Proof.
  intros Km Kf s r s' H. unfold bind in H. destruct (m s) as [[a|e|] s1] eqn:Em.
  - rewrite (Kf a _ _ _ H). exact (Km _ _ _ Em).
  - inversion H; subst. exact (Km _ _ _ Em).
  - inversion H; subst. exact (Km _ _ _ Em).
Qed.

#[export] Hint Resolve keeps_ret keeps_fail keeps_panic keeps_guard keeps_lift_opt keeps_opt_or_panic keeps_retrieve
  keeps_get_acct keeps_alloc keeps_arg keeps_args_from keeps_val_of keeps_meta_of keeps_dep : keeps.
Ltac keeps_step :=
  lazymatch goal with
  | |- keeps (bind _ _) => apply keeps_bind; [|intros ?; cbv beta]
  | |- keeps (if ?b then _ else _) => destruct b
  | |- keeps (match ?x with _ => _ end) => destruct x
  | |- _ => solve [auto with keeps]
  end.
Ltac keeps_tac := cbv beta zeta; repeat keeps_step.

Lemma keeps_marshal_tok E t : keeps (marshal_tok E t).
Proof. unfold marshal_tok. keeps_tac. Qed.
Lemma keeps_load_account E a : keeps (load_account E a).
Proof. apply keeps_dep. Qed.
Lemma keeps_save_account E a : keeps (save_account E a).
Proof. apply keeps_dep. Qed.
Lemma keeps_check_basic i : keeps (check_basic i).
Proof. unfold check_basic. keeps_tac. Qed.
#[export] Hint Resolve keeps_marshal_tok keeps_load_account keeps_save_account keeps_check_basic : keeps.
Lemma keeps_multi_out_args E l : forall o acc, keeps (multi_out_args E l o acc).
Proof. induction l as [|[tok t] r IH]; intros; cbn [multi_out_args]; keeps_tac; try apply IH. Qed.
#[export] Hint Resolve keeps_multi_out_args : keeps.

Lemma arg_ok l i s a s' : arg l i s = (Ok a, s') -> nth_error l (N.to_nat i) = Some a /\ s' = s.
Proof.
  unfold arg. destruct (_ <? _)%N; intros H; [|apply panic_ok in H; contradiction].
  apply opt_or_panic_ok in H. exact H.
Qed.

(* bookkeeping over the hypotheses produced by [minv]: every piece m s1 = (r, s2) contributes
   calls s1 <= calls s2, and accts s2 = accts s1 where the piece leaves the accounts alone *)
Ltac collect_mono E :=
  repeat match goal with
  | H : ?m ?s1 = (_, ?s2) |- _ =>
    lazymatch goal with | _ : calls s1 <= calls s2 |- _ => fail | _ => idtac end;
    assert (calls s1 <= calls s2) by (apply (clean_mono E m ltac:(clean_tac) _ _ _ H))
  end.
Ltac collect_keeps :=
  repeat match goal with
  | H : ?m ?s1 = (_, ?s2) |- _ =>
    lazymatch goal with | _ : accts s2 = accts s1 |- _ => fail | _ => idtac end;
    assert (accts s2 = accts s1) by (apply ((ltac:(keeps_tac) : keeps m) _ _ _ H))
  end.

Section Saved.
  Variable E : env.

  Theorem saved_if_modified_pause : forall p i s o s',
    f_pause E p i s = (Ok o, s') ->
    exists tok s1 s2,
      load_account E SYS s = (Ok tt, s1) /\
      save_kv E SYS (P ++ tok) (flag_bytes p) s1 = (Ok tt, s2) /\
      save_account E SYS s2 = (Ok tt, s').
  Proof.
    intros p i s o s' H. unfold f_pause, check_system_one_arg in H. minv.
    match goal with H : arg _ _ _ = (Ok _, _) |- _ => apply arg_ok in H; destruct H as [_ ->] end.
    repeat match goal with u : unit |- _ => destruct u end.
    eauto 10.
  Qed.

  Theorem saved_if_modified_nft_transfer : forall i s o s',
    f_nft_transfer_sender E i s = (Ok o, s') ->
    forall dst, nth_error (i_args i) 3 = Some dst -> (self_shard E =? shard_of E dst)%N = true ->
    exists sl sl' s1 s2,
      load_account E dst sl = (Ok tt, sl') /\ calls s <= calls sl /\
      save_account E dst s1 = (Ok tt, s2) /\ calls sl' <= calls s1 /\ accts s' = accts s2.
  Proof.
    intros i s o s' H dst Hd Hsame. unfold f_nft_transfer_sender in H. cbv beta zeta in H.
    apply bind_ok in H. destruct H as (d & s0 & Ha & H).
    apply arg_ok in Ha. destruct Ha as [Ha ->]. change (N.to_nat 3) with 3 in Ha.
    rewrite Hd in Ha. inversion Ha; subst d. clear Ha.
    rewrite Hsame in H. cbn [negb] in H. minv.
    repeat match goal with u : unit |- _ => destruct u end.
    match goal with
    | HL : load_account E dst ?sl = (Ok tt, ?sl'), HS : save_account E dst ?s1 = (Ok tt, ?s2) |- _ =>
      exists sl, sl', s1, s2
    end.
    collect_mono E. collect_keeps.
    repeat split; try assumption; try lia; congruence.
  Qed.

  Ltac split_pairs :=
    repeat (minv;
            match goal with
            | H : (match ?x with _ => _ end) _ = (Ok _, _) |- _ =>
              lazymatch type of x with prod _ _ => destruct x end
            end); minv.

  Theorem saved_if_modified_multi_transfer : forall i s o s',
    f_multi_transfer_sender E i s = (Ok o, s') ->
    forall dst, nth_error (i_args i) 0 = Some dst -> (self_shard E =? shard_of E dst)%N = true ->
    exists sl sl' s1 s2,
      load_account E dst sl = (Ok tt, sl') /\ accts sl = accts s /\
      save_account E dst s1 = (Ok tt, s2) /\ calls sl' <= calls s1 /\ accts s' = accts s2.
  Proof.
    intros i s o s' H dst Hd Hsame. unfold f_multi_transfer_sender in H. cbv beta zeta in H.
    apply bind_ok in H. destruct H as (d & s0 & Ha & H).
    apply arg_ok in Ha. destruct Ha as [Ha ->]. change (N.to_nat 0) with 0 in Ha.
    rewrite Hd in Ha. inversion Ha; subst d. clear Ha.
    rewrite Hsame in H. cbn [negb] in H. split_pairs.
    repeat match goal with u : unit |- _ => destruct u end.
    match goal with
    | HL : load_account E dst ?sl = (Ok tt, ?sl'), HS : save_account E dst ?s1 = (Ok tt, ?s2) |- _ =>
      exists sl, sl', s1, s2
    end.
    collect_mono E. collect_keeps.
    repeat split; try assumption; try lia; congruence.
  Qed.

  Theorem saved_if_modified_role_transfer : forall i s o s',
    f_create_role_transfer E i s = (Ok o, s') -> beqb (i_caller i) SC = true ->
    forall newOwner, nth_error (i_args i) 1 = Some newOwner -> (shard_of E newOwner =? self_shard E)%N = true ->
    exists sl sl' s1,
      load_account E newOwner sl = (Ok tt, sl') /\ calls s <= calls sl /\
      save_account E newOwner s1 = (Ok tt, s') /\ calls sl' <= calls s1.
  Proof.
    intros i s o s' H Hsc newOwner Hn Hsh. unfold f_create_role_transfer in H. cbv beta zeta in H.
    rewrite Hsc in H. minv.
    match goal with
    | Ha : arg (i_args i) 1 _ = (Ok ?x, _) |- _ =>
      let Hx := fresh in
      pose proof (proj1 (arg_ok _ _ _ _ _ Ha)) as Hx; change (N.to_nat 1) with 1 in Hx;
      rewrite Hn in Hx; inversion Hx; subst x; clear Hx
    end.
    match goal with H : (if _ then _ else _) _ = (Ok _, _) |- _ => rewrite Hsh in H end.
    minv.
    repeat match goal with u : unit |- _ => destruct u end.
    match goal with
    | HL : load_account E newOwner ?sl = (Ok tt, ?sl'), HS : save_account E newOwner ?s1 = (Ok tt, ?s2) |- _ =>
      exists sl, sl', s1
    end.
    collect_mono E.
    repeat split; try assumption; try lia.
  Qed.
End Saved.
