(* Supply accounting over mixed histories, part 7: non-vacuity.  A two-shard world under ideal_codec (codec_ok,
   flag_neutral) and a MIXED history of 23 operations: the system contract issues 100 TOK to alice, grants roles, alice
   mints, sends cross-shard (message, delivery), burns; the system contract freezes and wipes bob; NFT create / add
   quantity / cross-shard transfer / burn; pause, a transfer rejected because of the pause, unpause; ChangeOwnerAddress
   travelling to the other shard as a NON-transfer message and its delivery; SaveKeyValue; ESDTBurn; an overdrawn burn
   (rolled back); a same-shard multi transfer.  Hypotheses decided by vm_compute, both sides of the accounting equation
   computed by vm_compute; plus two witnesses that hypotheses of ok_op cannot be dropped (F8 pause, re-delivery). *)
From Coq.Strings Require Import String.
From Coq Require Import Lia List.
From EV Require Import Base.Bytes Base.Store Base.Monad gen.Consts Codec.Types Codec.Proto Codec.Ideal Codec.CodecOk
  Helpers.Helpers Ledger.Types Ledger.Env Ledger.Funcs Ledger.Transfers Ledger.World Corr.Exec
  LedgerProofs.Defs LedgerProofs.EnvSpec LedgerProofs.WorldDefs LedgerProofs.WorldSpec
  LedgerProofs.Spec_Transfers_Base LedgerProofs.Spec_Supply
  LedgerProofs.C01_World LedgerProofs.C01_Step LedgerProofs.C01_Check LedgerProofs.C02_Effects LedgerProofs.C02_NonNeg
  LedgerProofs.Supply_Base LedgerProofs.Supply_Calls LedgerProofs.Supply_Step LedgerProofs.Supply_Check.
Import ListNotations.

(* the 2-byte pause flag does not decode under either codec: it never reads as a balance *)
Lemma flag_neutral_ideal : flag_neutral ideal_codec.
Proof. intros f t H. destruct f; vm_compute in H; discriminate. Qed.
Lemma flag_neutral_proto : flag_neutral the_codec.
Proof. intros f t H. destruct f; vm_compute in H; discriminate. Qed.

Definition s_alice : bytes := repeat x01 32.                     (* shard 0 *)
Definition s_bob : bytes := repeat x02 32.                       (* shard 1 *)
Definition s_carol : bytes := repeat x03 32.                     (* shard 0 *)
Definition s_kate : bytes := repeat x00 8 ++ repeat x07 24.      (* a contract on shard 1, owned by alice *)
Definition s_tok : bytes := str "TOK-a1b2c3"%string.
Definition s_nft : bytes := str "NFT-d4e5f6"%string.
Definition sc0 : wcfg :=
  {| wc_cdc := ideal_codec;
     wc_shard_of := fun a => if (beqb a s_bob || beqb a s_kate)%bool then 1%N else 0%N;
     wc_payable := fun _ => PayYes;
     wc_dns := []; wc_enable := false; wc_gas := gas_of (repeat 10%N 22); wc_nshards := 2 |}.
Lemma sc0_ok : codec_ok (wc_cdc sc0). Proof. exact ideal_codec_ok. Qed.
Lemma sc0_flag : flag_neutral (wc_cdc sc0). Proof. exact flag_neutral_ideal. Qed.
Definition s_in (caller rcpt : bytes) (args : list bytes) (snd dst : bool) : input :=
  {| i_caller := caller; i_rcpt := rcpt; i_args := args; i_value := 0; i_gas := 100000; i_gasLocked := 0;
     i_callType := C.DirectCall; i_rae := false; i_snd := snd; i_dst := dst |}.
Definition s_num (n : N) : bytes := u64_bytes n.
(* no token anywhere; the contract kate exists on shard 1 *)
Definition sw0 : world :=
  {| shards := [ []; [(s_kate, {| a_store := []; a_balance := 0; a_owner := s_alice; a_username := []; a_devreward := 0 |})] ];
     inflight := []; failed := []; next_id := 0 |}.
Definition s_kTok : bytes := P ++ s_tok.
Definition s_kNft : bytes := nft_key (P ++ s_nft) 1.

Definition s_history : list wop :=
  [ (* 0 *) OCall 0 C.BuiltInFunctionESDTTransfer (s_in SC s_alice [s_tok; s_num 100] false true);           (* issue: +100 *)
    (* 1 *) OCall 0 C.BuiltInFunctionSetESDTRole (s_in SC s_alice [s_tok; C.ESDTRoleLocalMint; C.ESDTRoleLocalBurn] false true);
    (* 2 *) OCall 0 C.BuiltInFunctionESDTLocalMint (s_in s_alice s_alice [s_tok; s_num 10] true true);        (* +10 *)
    (* 3 *) OCall 0 C.BuiltInFunctionESDTTransfer (s_in s_alice s_bob [s_tok; s_num 30] true false);          (* message 0 *)
    (* 4 *) ODeliver 0 100000;
    (* 5 *) OCall 0 C.BuiltInFunctionESDTLocalBurn (s_in s_alice s_alice [s_tok; s_num 5] true true);         (* -5 *)
    (* 6 *) OCall 1 C.BuiltInFunctionESDTFreeze (s_in SC s_bob [s_tok] false true);
    (* 7 *) OCall 1 C.BuiltInFunctionESDTWipe (s_in SC s_bob [s_tok] false true);                             (* -30 *)
    (* 8 *) OCall 0 C.BuiltInFunctionSetESDTRole
              (s_in SC s_alice [s_nft; C.ESDTRoleNFTCreate; C.ESDTRoleNFTAddQuantity; C.ESDTRoleNFTBurn] false true);
    (* 9 *) OCall 0 C.BuiltInFunctionESDTNFTCreate
              (s_in s_alice s_alice [s_nft; s_num 4; str "name"%string; s_num 5; str "hash"%string; str "attr"%string;
                                     str "uri"%string] true true);                                              (* +4 of NFT#1 *)
    (* 10 *) OCall 0 C.BuiltInFunctionESDTNFTAddQuantity (s_in s_alice s_alice [s_nft; s_num 1; s_num 3] true true);   (* +3 *)
    (* 11 *) OCall 0 C.BuiltInFunctionESDTNFTTransfer (s_in s_alice s_alice [s_nft; s_num 1; s_num 2; s_bob] true true); (* message 1 *)
    (* 12 *) ODeliver 1 100000;
    (* 13 *) OCall 0 C.BuiltInFunctionESDTNFTBurn (s_in s_alice s_alice [s_nft; s_num 1; s_num 1] true true);   (* -1 *)
    (* 14 *) OCall 0 C.BuiltInFunctionESDTPause (s_in SC SYS [s_tok] false true);
    (* 15 *) OCall 0 C.BuiltInFunctionESDTTransfer (s_in s_alice s_carol [s_tok; s_num 1] true true);            (* rejected: paused *)
    (* 16 *) OCall 0 C.BuiltInFunctionESDTUnPause (s_in SC SYS [s_tok] false true);
    (* 17 *) OCall 0 C.BuiltInFunctionChangeOwnerAddress (s_in s_alice s_kate [s_carol] true false);            (* message 2: no transfer *)
    (* 18 *) ODeliver 2 100000;
    (* 19 *) OCall 0 C.BuiltInFunctionSaveKeyValue (s_in s_alice s_alice [str "key"%string; str "value"%string] true true);
    (* 20 *) OCall 0 C.BuiltInFunctionESDTBurn (s_in s_alice SC [s_tok; s_num 2] true false);                    (* -2 *)
    (* 21 *) OCall 0 C.BuiltInFunctionESDTLocalBurn (s_in s_alice s_alice [s_tok; s_num 1000] true true);        (* overdrawn: rolled back *)
    (* 22 *) OCall 0 C.BuiltInFunctionMultiESDTNFTTransfer
               (s_in s_alice s_alice [s_carol; s_num 2; s_nft; s_num 1; s_num 1; s_tok; []; s_num 3] true true) ].  (* same shard *)

Fixpoint s_deltas (w : world) (ops : list wop) (k : bytes) : list Z :=
  match ops with [] => [] | op :: r => supply_delta sc0 w op k :: s_deltas (wstep sc0 w op) r k end.
Definition s_bal (w : world) (sh : N) (a k : bytes) : Z := acct_balance sc0 k (aget empty_account (shard_accts w sh) a).

(* the hypotheses of the theorem hold of this world and history *)
Example supply_example_hypotheses : winv'_b sc0 sw0 = true /\ ok_ops_b sc0 sw0 s_history = true.
Proof. vm_compute. split; reflexivity. Qed.
Example supply_example_WInv' : WInv' sc0 sw0.
Proof. apply winv'_b_ok. apply supply_example_hypotheses. Qed.
Example supply_example_ok_ops : ok_ops sc0 sw0 s_history.
Proof. apply ok_ops_b_ok. apply supply_example_hypotheses. Qed.

(* the stated change of every step, for the fungible key and for the NFT key *)
Example supply_example_deltas :
  s_deltas sw0 s_history s_kTok = [100; 0; 10; 0; 0; -5; 0; -30; 0; 0; 0; 0; 0; 0; 0; 0; 0; 0; 0; 0; -2; 0; 0]%Z
  /\ s_deltas sw0 s_history s_kNft = [0; 0; 0; 0; 0; 0; 0; 0; 0; 4; 3; 0; 0; -1; 0; 0; 0; 0; 0; 0; 0; 0; 0]%Z.
Proof. vm_compute. split; reflexivity. Qed.

(* both sides of the accounting equation, computed *)
Example supply_example_computed :
  total sc0 s_kTok sw0 = 0%Z /\ total sc0 s_kNft sw0 = 0%Z
  /\ total sc0 s_kTok (wrun sc0 sw0 s_history) = 73%Z
  /\ (total sc0 s_kTok sw0 + supply_sum sc0 sw0 s_history s_kTok)%Z = 73%Z
  /\ total sc0 s_kNft (wrun sc0 sw0 s_history) = 6%Z
  /\ (total sc0 s_kNft sw0 + supply_sum sc0 sw0 s_history s_kNft)%Z = 6%Z.
Proof. vm_compute. repeat split; reflexivity. Qed.
(* where the tokens are at the end, and what else happened *)
Example supply_example_final :
  let w' := wrun sc0 sw0 s_history in
  inflight w' = [] /\ failed w' = []
  /\ s_bal w' 0 s_alice s_kTok = 70%Z /\ s_bal w' 0 s_carol s_kTok = 3%Z /\ s_bal w' 1 s_bob s_kTok = 0%Z
  /\ s_bal w' 0 s_alice s_kNft = 3%Z /\ s_bal w' 0 s_carol s_kNft = 1%Z /\ s_bal w' 1 s_bob s_kNft = 2%Z
  /\ a_owner (aget empty_account (shard_accts w' 1) s_kate) = s_carol
  /\ length (inflight (wrun sc0 sw0 (firstn 18 s_history))) = 1%nat.       (* the ChangeOwnerAddress message *)
Proof. vm_compute. repeat split; reflexivity. Qed.
(* the theorem applies: for every protocol key *)
Example supply_example_accounted : forall x,
  total sc0 (P ++ x) (wrun sc0 sw0 s_history) = (total sc0 (P ++ x) sw0 + supply_sum sc0 sw0 s_history (P ++ x))%Z.
Proof. intros x. apply (supply_accounting_checked sc0 sc0_ok sc0_flag); apply supply_example_hypotheses. Qed.
Example supply_example_nonneg : forall x, (0 <= total sc0 (P ++ x) (wrun sc0 sw0 s_history))%Z.
Proof.
  intros x. apply (supply_nonneg sc0 sc0_ok sc0_flag);
    [exact supply_example_WInv'|exact supply_example_ok_ops|apply pkey_P].
Qed.
(* the sub-history without supply operations (messages 3-4: cross-shard transfer and delivery) conserves the total *)
Example supply_example_conserving_part :
  let w3 := wrun sc0 sw0 (firstn 3 s_history) in
  let mid := firstn 2 (skipn 3 s_history) in
  total sc0 s_kTok (wrun sc0 w3 mid) = total sc0 s_kTok w3 /\ total sc0 s_kTok w3 = 110%Z
  /\ inflight_total sc0 s_kTok (inflight (wrun sc0 w3 (firstn 1 mid))) = 30%Z.
Proof. vm_compute. repeat split; reflexivity. Qed.

(* ---------------- the hypotheses of ok_op cannot be dropped ---------------- *)
(* F8 at world level: the system account itself holds 6 TOK; ESDTPause overwrites the holding, the stated delta is 0 *)
Definition s_tk (v : Z) : token :=
  {| t_type := C.Fungible; t_value := Some v; t_props := []; t_meta := None; t_reserved := [] |}.
Definition swF8 : world :=
  {| shards := [ [(SYS, {| a_store := [(s_kTok, enc_token (s_tk 6))]; a_balance := 0; a_owner := []; a_username := [];
                           a_devreward := 0 |})]; [] ];
     inflight := []; failed := []; next_id := 0 |}.
Definition s_opF8 : wop := OCall 0 C.BuiltInFunctionESDTPause (s_in SC SYS [s_tok] false true).
Theorem supply_step_refuted_without_pause_hypothesis :
  exists c w op k, codec_ok (wc_cdc c) /\ flag_neutral (wc_cdc c) /\ WInv' c w /\ pkey k /\ ~ ok_op c w op
    /\ total c k w = 6%Z /\ total c k (wstep c w op) = 0%Z /\ supply_delta c w op k = 0%Z.
Proof.
  exists sc0, swF8, s_opF8, s_kTok.
  split; [exact sc0_ok|]. split; [exact sc0_flag|]. split; [apply winv'_b_ok; vm_compute; reflexivity|].
  split; [apply pkey_P|]. split.
  - intros H. cbv [ok_op step_call s_opF8] in H. change (0 <? wc_nshards sc0)%N with true in H. cbv iota beta in H.
    change (is_transfer_fn C.BuiltInFunctionESDTPause) with false in H. cbv iota in H.
    destruct H as (_ & _ & H). specialize (H (or_introl eq_refl)). vm_compute in H. discriminate H.
  - vm_compute. repeat split; reflexivity.
Qed.
(* re-delivery of a TRANSFER message credits twice (C07/F9 territory): excluded from ok_op *)
Definition s_redeliver : list wop :=
  [ OCall 0 C.BuiltInFunctionESDTTransfer (s_in SC s_alice [s_tok; s_num 100] false true);
    OCall 0 C.BuiltInFunctionESDTTransfer (s_in s_alice s_bob [s_tok; s_num 30] true false);
    ORedeliver 0 100000; ODeliver 0 100000 ].
Example supply_example_redelivery_not_accounted :
  ok_ops_b sc0 sw0 s_redeliver = false
  /\ total sc0 s_kTok (wrun sc0 sw0 s_redeliver) = 130%Z
  /\ (total sc0 s_kTok sw0 + supply_sum sc0 sw0 s_redeliver s_kTok)%Z = 100%Z.
Proof. vm_compute. repeat split; reflexivity. Qed.

Print Assumptions supply_example_accounted.
Print Assumptions supply_step_refuted_without_pause_hypothesis.
