(* Supply accounting over mixed histories, part 4: ONE successful call of any of the 20 non-transfer built-in functions
   changes the shard-wide total of every protocol token key P ++ x by exactly [fn_delta] -- the stated amount of the
   seven supply functions, 0 for the thirteen others -- under the honest hypotheses [call_ok]:
     - F4b: the NFT lookup of AddQuantity / NFTBurn / AddURI / UpdateAttributes finds an entry carrying the requested
       nonce (else the entry is re-keyed to its metadata nonce: C02_Effects, *_cell theorems);
     - freshness for ESDTNFTCreate: no balance is stored under the nonce about to be given out (else it is overwritten:
       C02_Examples.create_not_fresh_overwrites);
     - F8: ESDTPause / ESDTUnPause only when the system account holds no balance under P ++ tok (else the holding is
       overwritten by the 2-byte flag: C02_Examples.other_functions_preserve_balances_refuted), together with the codec
       fact [flag_neutral]: the flag bytes do not read as a balance (true of the protobuf codec and of ideal_codec).
   Also: every message such a call puts in flight is named after the executing function (C07_Emit), hence is no transfer
   message and carries no credits. *)
From Coq Require Import Lia List.
From EV Require Import Base.Bytes Base.Store Base.Monad gen.Consts Codec.Types Helpers.Helpers
  Ledger.Types Ledger.Env Ledger.Funcs Ledger.Transfers Ledger.World
  LedgerProofs.Defs LedgerProofs.EnvSpec LedgerProofs.WorldDefs LedgerProofs.WorldSpec
  LedgerProofs.Spec_Transfers_Base LedgerProofs.Spec_Transfers_Esdt LedgerProofs.Spec_Transfers_Nft
  LedgerProofs.Spec_Transfers_Multi LedgerProofs.Spec_Transfers LedgerProofs.Spec_Supply LedgerProofs.Spec_System
  LedgerProofs.C01_World LedgerProofs.C01_Step LedgerProofs.C02_Effects LedgerProofs.C02_NonNeg
  LedgerProofs.C07_Emit LedgerProofs.Supply_Base.
Import ListNotations.

(* the 2-byte pause flag, read as a token entry, has value 0 (under the concrete codecs it does not decode at all) *)
Definition flag_neutral (cd : codec) : Prop :=
  forall f t, dec_tok cd (flag_bytes f) = Some t -> val_or_0 t = 0%Z.
Lemma flag_neutral_nonneg cd : flag_neutral cd -> flag_nonneg cd.
Proof. intros H f t Hd. rewrite (H f t Hd). lia. Qed.
Lemma flag_neutral_balance E f : flag_neutral (cdc E) -> bal_of_bytes E (flag_bytes f) = 0%Z.
Proof.
  intros H. unfold bal_of_bytes. destruct (flag_bytes f) as [|b r] eqn:Ef; [reflexivity|].
  destruct (dec_tok (cdc E) (b :: r)) as [t|] eqn:Ed; [|reflexivity].
  rewrite <- Ef in Ed. specialize (H f t Ed). unfold val_or_0 in H. exact H.
Qed.

(* the functions that look an NFT entry up by (token id, requested nonce) and store it back *)
Definition lookup_fn (f : bytes) : Prop :=
  f = C.BuiltInFunctionESDTNFTAddQuantity \/ f = C.BuiltInFunctionESDTNFTBurn
  \/ f = C.BuiltInFunctionESDTNFTAddURI \/ f = C.BuiltInFunctionESDTNFTUpdateAttributes.

Section Calls.
  Variable c : wcfg.
  Hypothesis Hc : codec_ok (wc_cdc c).
  Hypothesis Hflag : flag_neutral (wc_cdc c).
  Notation shof := (wc_shard_of c).

  (* the honest hypotheses on one non-transfer call executed on shard sh whose accounts are m0 *)
  Definition call_ok (sh : N) (m0 : amap account) (fn : bytes) (i : input) : Prop :=
    let E := env_at c sh in
    let s := mk_state m0 in
    (lookup_fn fn -> lookup_consistent E s (i_caller i) (P ++ argn i 0) (bigU64 (argn i 1)))
    /\ (fn = C.BuiltInFunctionESDTNFTCreate ->
          balance E s (i_caller i) (nft_key (P ++ argn i 0) (create_nonce i s)) = 0%Z)
    /\ (is_pause_fn fn -> balance E s SYS (P ++ argn i 0) = 0%Z).

  (* the stated change of the supply under key k by one successful call *)
  Definition fn_delta (sh : N) (m0 : amap account) (fn : bytes) (i : input) (k : bytes) : Z :=
    let E := env_at c sh in
    let s := mk_state m0 in
    if beqb fn C.BuiltInFunctionESDTLocalMint then (if beqb k (P ++ argn i 0) then bigZ (argn i 1) else 0)
    else if beqb fn C.BuiltInFunctionESDTNFTCreate then
      (if beqb k (nft_key (P ++ argn i 0) (create_nonce i s)) then bigZ (argn i 1) else 0)
    else if beqb fn C.BuiltInFunctionESDTNFTAddQuantity then
      (if beqb k (nft_key (P ++ argn i 0) (bigU64 (argn i 1))) then bigZ (argn i 2) else 0)
    else if beqb fn C.BuiltInFunctionESDTLocalBurn then (if beqb k (P ++ argn i 0) then - bigZ (argn i 1) else 0)
    else if beqb fn C.BuiltInFunctionESDTBurn then (if beqb k (P ++ argn i 0) then - bigZ (argn i 1) else 0)
    else if beqb fn C.BuiltInFunctionESDTNFTBurn then
      (if beqb k (nft_key (P ++ argn i 0) (bigU64 (argn i 1))) then - bigZ (argn i 2) else 0)
    else if beqb fn C.BuiltInFunctionESDTWipe then
      (if beqb k (P ++ argn i 0) then - balance E s (i_rcpt i) (P ++ argn i 0) else 0)
    else 0%Z.

  Lemma fn_delta_other sh m0 fn i k : In fn other_funs -> fn_delta sh m0 fn i k = 0%Z.
  Proof.
    unfold other_funs. cbn [In].
    intros [<-|[<-|[<-|[<-|[<-|[<-|[<-|[<-|[<-|[<-|[<-|[<-|[<-|[]]]]]]]]]]]]]]; reflexivity.
  Qed.
  Lemma fn_delta_transfer sh m0 fn i k : is_transfer_fn fn = true -> fn_delta sh m0 fn i k = 0%Z.
  Proof.
    intros H. unfold is_transfer_fn in H.
    destruct (beqb_spec fn C.BuiltInFunctionESDTTransfer) as [->|?]; [reflexivity|].
    destruct (beqb_spec fn C.BuiltInFunctionESDTNFTTransfer) as [->|?]; [reflexivity|].
    destruct (beqb_spec fn C.BuiltInFunctionMultiESDTNFTTransfer) as [->|?]; [reflexivity|discriminate].
  Qed.
  Lemma fn_delta_unknown sh m0 fn i k : is_builtin fn = false -> fn_delta sh m0 fn i k = 0%Z.
  Proof.
    intros H. unfold fn_delta. cbv zeta.
    repeat match goal with
           | |- (if beqb fn ?x then _ else _) = _ =>
             destruct (beqb_spec fn x) as [->|?]; [discriminate H|]
           end.
    reflexivity.
  Qed.

  Lemma shard_total_sh sh k m : shard_total c k m = asum (acct_bal (env_at c sh) k) m.
  Proof. apply (shard_total_asum (env_at c sh) c eq_refl). Qed.

  (* the eight functions of Spec_Supply, uniformly *)
  Lemma supply_fn_total sh m0 f i o s' :
    NoDup (map fst m0) -> st_nonneg_P (env_at c sh) (mk_state m0) ->
    exec (env_at c sh) (supply_name f) i (mk_state m0) = (Ok o, s') ->
    call_ok sh m0 (supply_name f) i ->
    forall x, shard_total c (P ++ x) (accts s') =
      (shard_total c (P ++ x) m0
       + (if beqb (P ++ x) (supply_key f i (mk_state m0)) then Spec_Supply.supply_delta f i else 0))%Z.
  Proof.
    intros Hnd Hnn H (Hlk & Hfresh & _) x. rewrite exec_supply in H.
    rewrite !(shard_total_sh sh).
    apply (supply_shard_total (env_at c sh) Hc f i (mk_state m0) o s' H).
    - destruct f; cbn [supply_consistent]; try exact I; apply Hlk; unfold lookup_fn; cbn [supply_name]; tauto.
    - destruct f; cbn [supply_balance_pre supply_key]; try exact I.
      + apply Hfresh. reflexivity.
      + apply nonneg_P_pkey; [apply Hnn|apply pkey_nft].
      + apply nonneg_P_pkey; [apply Hnn|apply pkey_nft].
      + apply nonneg_P_pkey; [apply Hnn|apply pkey_nft].
    - exact Hnd.
    - intros _. apply P_NP_disjoint.
  Qed.

  (* the thirteen other functions: every balance under a protocol key is unchanged *)
  Lemma other_fn_balances sh m0 fn i o s' :
    st_nonneg_P (env_at c sh) (mk_state m0) -> In fn other_funs ->
    exec (env_at c sh) fn i (mk_state m0) = (Ok o, s') -> call_ok sh m0 fn i ->
    forall a x, balance (env_at c sh) s' a (P ++ x) = balance (env_at c sh) (mk_state m0) a (P ++ x).
  Proof.
    intros Hnn Hin H (Hlk & _ & Hpause) a x.
    assert (Hrw : rewrites_entry_fn fn ->
              lookup_consistent (env_at c sh) (mk_state m0) (i_caller i) (P ++ argn i 0) (bigU64 (argn i 1))
              /\ (0 <= balance (env_at c sh) (mk_state m0) (i_caller i) (nft_key (P ++ argn i 0) (bigU64 (argn i 1))))%Z).
    { intros Hr. split; [apply Hlk; unfold lookup_fn; destruct Hr; tauto|].
      apply nonneg_P_pkey; [apply Hnn|apply pkey_nft]. }
    assert (Hdec : is_pause_fn fn \/ ~ is_pause_fn fn).
    { unfold is_pause_fn. destruct (beqb_spec fn C.BuiltInFunctionESDTPause); [tauto|].
      destruct (beqb_spec fn C.BuiltInFunctionESDTUnPause); tauto. }
    destruct Hdec as [Hp|Hnp].
    - destruct (beqb_spec a SYS) as [->|Ha].
      + destruct (beqb_spec x (argn i 0)) as [->|Hx].
        * destruct (pause_overwrites_system_holding (env_at c sh) fn i _ _ _ H Hp) as [_ Hb].
          rewrite Hb, (Hpause Hp). apply flag_neutral_balance. exact Hflag.
        * apply (other_functions_preserve_balances (env_at c sh) Hc fn i _ _ _ H Hin Hrw). intros _ [_ Hx']. contradiction.
      + apply (other_functions_preserve_balances (env_at c sh) Hc fn i _ _ _ H Hin Hrw). intros _ [Ha' _]. contradiction.
    - apply (other_functions_preserve_balances (env_at c sh) Hc fn i _ _ _ H Hin Hrw). intros Hp. contradiction.
  Qed.

  Lemma exec_ok_builtin sh fn i s o s' : is_transfer_fn fn = false ->
    exec (env_at c sh) fn i s = (Ok o, s') -> In fn builtin_names.
  Proof.
    intros Hnt H. destruct (emit_local_or_cont (env_at c sh) fn i s o s') as [_ Hb]; [rewrite Hnt; discriminate|exact H|].
    unfold is_builtin in Hb. apply bytes_in_true. exact Hb.
  Qed.

  (* ONE call of a non-transfer function: the shard total of every protocol key moves by exactly fn_delta *)
  Theorem nontransfer_call_total sh m0 fn i o s' :
    is_transfer_fn fn = false ->
    NoDup (map fst m0) -> st_nonneg_P (env_at c sh) (mk_state m0) ->
    exec (env_at c sh) fn i (mk_state m0) = (Ok o, s') -> call_ok sh m0 fn i ->
    NoDup (map fst (accts s'))
    /\ forall x, shard_total c (P ++ x) (accts s') = (shard_total c (P ++ x) m0 + fn_delta sh m0 fn i (P ++ x))%Z.
  Proof.
    intros Hnt Hnd Hnn H Hok.
    assert (Hnd' : NoDup (map fst (accts s'))) by (apply (exec_nodup_nontransfer (env_at c sh) fn i _ _ _ Hnt H Hnd)).
    split; [exact Hnd'|]. intros x.
    pose proof (exec_ok_builtin sh fn i _ _ _ Hnt H) as Hb. apply funs_partition in Hb as [Hs|[Ht|Ho]].
    - unfold supply_changing_funs in Hs. cbn [In] in Hs.
      destruct Hs as [<-|[<-|[<-|[<-|[<-|[<-|[<-|[]]]]]]]].
      + rewrite (supply_fn_total sh m0 SLocalMint i o s' Hnd Hnn H Hok x). reflexivity.
      + rewrite (supply_fn_total sh m0 SNftAddQuantity i o s' Hnd Hnn H Hok x). reflexivity.
      + rewrite (supply_fn_total sh m0 SNftCreate i o s' Hnd Hnn H Hok x). reflexivity.
      + rewrite (supply_fn_total sh m0 SLocalBurn i o s' Hnd Hnn H Hok x). reflexivity.
      + rewrite (supply_fn_total sh m0 SEsdtBurn i o s' Hnd Hnn H Hok x). reflexivity.
      + rewrite (supply_fn_total sh m0 SNftBurn i o s' Hnd Hnn H Hok x). reflexivity.
      + (* wipe *)
        destruct (supply_balance_effect_exec_wipe (env_at c sh) Hc i _ _ _ H) as (_ & _ & _ & Hbal).
        rewrite !(shard_total_sh sh).
        change (fn_delta sh m0 C.BuiltInFunctionESDTWipe i (P ++ x))
          with (if beqb (P ++ x) (P ++ argn i 0)
                then (- balance (env_at c sh) (mk_state m0) (i_rcpt i) (P ++ argn i 0))%Z else 0%Z).
        apply (shard_sum_pointwise (env_at c sh) (P ++ x) (mk_state m0) s' (i_rcpt i)); [exact Hnd|exact Hnd'|].
        intros a. rewrite Hbal. unfold at_cell.
        destruct (beqb a (i_rcpt i)), (beqb (P ++ x) (P ++ argn i 0)); cbn [andb]; lia.
    - exfalso. unfold transfer_funs in Ht. cbn [In] in Ht. destruct Ht as [<-|[<-|[<-|[]]]]; discriminate Hnt.
    - rewrite (fn_delta_other sh m0 fn i (P ++ x) Ho), Z.add_0_r. rewrite !(shard_total_sh sh).
      rewrite (shard_sum_pointwise (env_at c sh) (P ++ x) (mk_state m0) s' [] 0 Hnd Hnd'); [cbn [accts mk_state]; lia|].
      intros a. rewrite (other_fn_balances sh m0 fn i o s' Hnn Ho H Hok a x). destruct (beqb a []); lia.
  Qed.

  (* every message a non-transfer call puts in flight is named after the function: it is no transfer message *)
  Lemma nontransfer_call_emits sh fn i id s o s' :
    is_transfer_fn fn = false -> exec (env_at c sh) fn i s = (Ok o, s') ->
    Forall (fun m => is_transfer_fn (m_fn m) = false) (collect c sh fn i id o).
  Proof.
    intros Hnt H. destruct (emit_local_or_cont (env_at c sh) fn i s o s') as [Hl Hb]; [rewrite Hnt; discriminate|exact H|].
    apply Forall_forall. intros m Hin. rewrite (collect_fn c sh fn i id o Hb Hl m Hin). exact Hnt.
  Qed.

  (* such messages carry no credits *)
  Lemma credits_nontransfer m : is_transfer_fn (m_fn m) = false -> credits c m = [].
  Proof.
    intros H. unfold is_transfer_fn in H.
    apply Bool.orb_false_iff in H as [H H3]. apply Bool.orb_false_iff in H as [H1 H2].
    unfold credits. rewrite H1, H2, H3. reflexivity.
  Qed.
  Lemma qty_nontransfer k m : is_transfer_fn (m_fn m) = false -> qty c k m = 0%Z.
  Proof. intros H. unfold qty. rewrite (credits_nontransfer m H). reflexivity. Qed.
  Lemma inflight_total_nontransfer k l :
    Forall (fun m => is_transfer_fn (m_fn m) = false) l -> inflight_total c k l = 0%Z.
  Proof.
    induction 1 as [|m r Hm Hr IH]; [reflexivity|].
    change (inflight_total c k (m :: r)) with (qty c k m + inflight_total c k r)%Z.
    rewrite IH, (qty_nontransfer k m Hm). reflexivity.
  Qed.
End Calls.

Print Assumptions nontransfer_call_total.
Print Assumptions nontransfer_call_emits.
