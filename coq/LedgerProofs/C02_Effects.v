(* C02 (supply changes only by the stated amount; no overdraft), parts 1-3: everything through [exec], for an
   arbitrary environment E with [codec_ok (cdc E)].
     1. supply_balance_effect_exec_*   the exact effect of the seven supply-changing functions on EVERY balance cell
                                       (corollaries of Spec_Supply / Spec_System);
     2. other_functions_preserve_balances   one theorem for the 13 remaining non-transfer functions (function-name
                                       list [other_funs]), with the F8 exclusion for ESDTPause / ESDTUnPause;
     3. overdraft_fails                one theorem for the six debiting functions (three burns, three transfers).
   The F8 witness (other_functions_preserve_balances_refuted) and the non-vacuity examples are in C02_Examples.v;
   "never negative" is C02_NonNeg.v (per call) and C02_World.v (histories). *)
From Coq Require Import Lia.
From EV Require Import Base.Bytes Base.Store Base.Monad gen.Consts Codec.Types Helpers.Helpers
  Ledger.Types Ledger.Env Ledger.Funcs Ledger.Transfers Ledger.World
  LedgerProofs.Defs LedgerProofs.EnvSpec LedgerProofs.WorldDefs
  LedgerProofs.Spec_Transfers_Base LedgerProofs.Spec_Transfers_Esdt LedgerProofs.Spec_Transfers_Nft
  LedgerProofs.Spec_Transfers_Multi LedgerProofs.Spec_Transfers LedgerProofs.Spec_Supply LedgerProofs.Spec_System.

(* the thirteen built-in functions that are neither supply functions (mint, three burns, create, add quantity,
   wipe) nor transfers *)
Definition other_funs : list bytes :=
  [C.BuiltInFunctionESDTFreeze; C.BuiltInFunctionESDTUnFreeze;
   C.BuiltInFunctionESDTPause; C.BuiltInFunctionESDTUnPause;
   C.BuiltInFunctionSetESDTRole; C.BuiltInFunctionUnSetESDTRole; C.BuiltInFunctionESDTNFTCreateRoleTransfer;
   C.BuiltInFunctionChangeOwnerAddress; C.BuiltInFunctionClaimDeveloperRewards; C.BuiltInFunctionSetUserName;
   C.BuiltInFunctionSaveKeyValue; C.BuiltInFunctionESDTNFTAddURI; C.BuiltInFunctionESDTNFTUpdateAttributes].
(* the seven functions that change the supply *)
Definition supply_changing_funs : list bytes :=
  [C.BuiltInFunctionESDTLocalMint; C.BuiltInFunctionESDTNFTAddQuantity; C.BuiltInFunctionESDTNFTCreate;
   C.BuiltInFunctionESDTLocalBurn; C.BuiltInFunctionESDTBurn; C.BuiltInFunctionESDTNFTBurn;
   C.BuiltInFunctionESDTWipe].
Definition transfer_funs : list bytes :=
  [C.BuiltInFunctionESDTTransfer; C.BuiltInFunctionESDTNFTTransfer; C.BuiltInFunctionMultiESDTNFTTransfer].

Definition is_pause_fn (f : bytes) : Prop := f = C.BuiltInFunctionESDTPause \/ f = C.BuiltInFunctionESDTUnPause.
Definition rewrites_entry_fn (f : bytes) : Prop :=
  f = C.BuiltInFunctionESDTNFTAddURI \/ f = C.BuiltInFunctionESDTNFTUpdateAttributes.

(* the three lists partition the registration table of the factory (Ledger/World.v builtin_names, 23 names) *)
Lemma funs_partition f :
  In f builtin_names <-> In f supply_changing_funs \/ In f transfer_funs \/ In f other_funs.
Proof.
  unfold builtin_names, supply_changing_funs, transfer_funs, other_funs. cbn [In]. tauto.
Qed.

(* nothing stored under a key: the balance there is 0 *)
Lemma balance_empty_cell E s a k : cell s a k = [] -> balance E s a k = 0%Z.
Proof. intros H. unfold balance. rewrite H. reflexivity. Qed.

(* the sender-side overdraft condition, per function name: the amount asked for exceeds what the debited
   account holds under the addressed cell.
   - ESDTTransfer debits only where the caller's account is present (i_snd);
   - ESDTNFTTransfer / MultiESDTNFTTransfer run their sender side iff caller = recipient;
   - for the multi-transfer the amount is the SUM of the quantities the call asks for under one cell x (a cell may
     be listed several times), and the underlying lemma needs the F4b hypothesis for the listed triples and, when
     the destination lives on the same shard, non-negative balances of the destination (its credits are
     interleaved with the debits). *)
Definition overdrawn (E : env) (f : bytes) (i : input) (s : mstate) : Prop :=
  (f = C.BuiltInFunctionESDTLocalBurn /\ (balance E s (i_caller i) (P ++ argn i 0) < bigZ (argn i 1))%Z)
  \/ (f = C.BuiltInFunctionESDTBurn /\ (balance E s (i_caller i) (P ++ argn i 0) < bigZ (argn i 1))%Z)
  \/ (f = C.BuiltInFunctionESDTNFTBurn
      /\ (balance E s (i_caller i) (nft_key (P ++ argn i 0) (bigU64 (argn i 1))) < bigZ (argn i 2))%Z)
  \/ (f = C.BuiltInFunctionESDTTransfer /\ i_snd i = true
      /\ (balance E s (i_caller i) (P ++ argn i 0) < bigZ (argn i 1))%Z)
  \/ (f = C.BuiltInFunctionESDTNFTTransfer /\ i_caller i = i_rcpt i
      /\ (balance E s (i_caller i) (nft_key (P ++ argn i 0) (bigU64 (argn i 1))) < bigZ (argn i 2))%Z)
  \/ (f = C.BuiltInFunctionMultiESDTNFTTransfer /\ i_caller i = i_rcpt i
      /\ triples_consistent E s (i_caller i) (multi_snd_triples i)
      /\ (multi_same E i = true -> nonneg_balances E s (multi_dst i))
      /\ exists x, In x (multi_snd_triples i)
           /\ (balance E s (i_caller i) (rt_cell x) < qty_list (rt_cell x) (debit_list (multi_snd_triples i)))%Z).

Section C02.
  Variable E : env.
  Hypothesis Hc : codec_ok (cdc E).

  (* ================================================================ *)
  (* 1. exact balance effect of the supply functions                    *)
  (* ================================================================ *)
  (* uniform: all eight functions of Spec_Supply through the dispatch *)
  Theorem supply_balance_effect_exec f i s o s' :
    exec E (supply_name f) i s = (Ok o, s') -> supply_consistent E f i s -> supply_balance_pre E f i s ->
    forall a k, (f = SNftCreate -> k <> NP ++ argn i 0) ->
      balance E s' a k =
      (balance E s a k + (if at_cell a k (i_caller i) (supply_key f i s) then supply_delta f i else 0))%Z.
  Proof. rewrite exec_supply. apply (supply_balance_effect E Hc). Qed.

  (* ESDTLocalMint: +amount on the caller's fungible cell, nothing else *)
  Theorem supply_balance_effect_exec_local_mint i s o s' :
    exec E C.BuiltInFunctionESDTLocalMint i s = (Ok o, s') ->
    forall a k, balance E s' a k =
      (balance E s a k + (if at_cell a k (i_caller i) (P ++ argn i 0) then bigZ (argn i 1) else 0))%Z.
  Proof. apply (supply_balance_effect_local_mint E Hc). Qed.
  (* ESDTLocalBurn / ESDTBurn: -amount *)
  Theorem supply_balance_effect_exec_local_burn i s o s' :
    exec E C.BuiltInFunctionESDTLocalBurn i s = (Ok o, s') ->
    forall a k, balance E s' a k =
      (balance E s a k + (if at_cell a k (i_caller i) (P ++ argn i 0) then - bigZ (argn i 1) else 0))%Z.
  Proof. apply (supply_balance_effect_local_burn E Hc). Qed.
  Theorem supply_balance_effect_exec_esdt_burn i s o s' :
    exec E C.BuiltInFunctionESDTBurn i s = (Ok o, s') ->
    forall a k, balance E s' a k =
      (balance E s a k + (if at_cell a k (i_caller i) (P ++ argn i 0) then - bigZ (argn i 1) else 0))%Z.
  Proof. apply (supply_balance_effect_esdt_burn E Hc). Qed.

  (* the amounts are positive, the functions act on the caller's own account *)
  Theorem supply_amount_positive_exec f i s o s' :
    exec E (supply_name f) i s = (Ok o, s') ->
    match f with
    | SLocalMint | SLocalBurn | SEsdtBurn | SNftCreate => (0 < bigZ (argn i 1))%Z
    | _ => True
    end.
  Proof.
    rewrite exec_supply. destruct f; cbn [run_supply]; intros H; try exact I.
    - apply (f_local_mint_spec E Hc) in H. destruct H. assumption.
    - apply (f_local_burn_spec E Hc) in H. destruct H. assumption.
    - apply (f_esdt_burn_spec E Hc) in H. destruct H. assumption.
    - apply (f_nft_create_spec E Hc) in H. destruct H. assumption.
  Qed.

  (* ---- ESDTNFTCreate ---- *)
  (* unconditional: after the call the cell of the next nonce u64(counter+1) holds EXACTLY the quantity, the
     counter is that nonce, and no other balance cell changed (the counter cell NP ++ tok is not a token cell) *)
  Theorem supply_balance_effect_exec_nft_create_cell i s o s' :
    exec E C.BuiltInFunctionESDTNFTCreate i s = (Ok o, s') ->
    let fresh := nft_key (P ++ argn i 0) (create_nonce i s) in
    create_nonce i s = u64 (counter_at s (i_caller i) (argn i 0) + 1)
    /\ (0 < bigZ (argn i 1))%Z
    /\ balance E s' (i_caller i) fresh = bigZ (argn i 1)
    /\ counter_at s' (i_caller i) (argn i 0) = create_nonce i s
    /\ o_returnData o = [u64_bytes (create_nonce i s)]
    /\ forall a k, ~ (a = i_caller i /\ (k = fresh \/ k = NP ++ argn i 0)) -> balance E s' a k = balance E s a k.
  Proof.
    intros H fresh. change (f_nft_create E i s = (Ok o, s')) in H.
    apply (f_nft_create_spec E Hc) in H. destruct H.
    split; [reflexivity|]. split; [assumption|]. split; [assumption|]. split; [assumption|]. split; [assumption|].
    intros a k Hn. match goal with Hf : unchanged_except _ _ s s' |- _ => apply (ue_balance E _ _ _ _ Hf) end. exact Hn.
  Qed.
  (* "creates exactly the given quantity under a fresh nonce": under the explicit freshness hypothesis -- nothing is
     stored under the next nonce -- the supply under that cell grows by exactly the quantity and nothing else moves.
     The hypothesis is needed: create writes the cell unconditionally.  It can fail only when the caller's counter
     is behind an existing entry: the counter was regressed (F9: a hand-over message delivered again resets it; or
     ESDTNFTCreateRoleTransfer zeroes it at the old owner, who is later granted the create role again), or the entry
     was minted by ANOTHER creator of the same token (each account counts on its own) and transferred to the caller.
     C02_Examples.v: create_not_fresh_overwrites shows the overwrite on a concrete state. *)
  Theorem supply_balance_effect_exec_nft_create i s o s' :
    exec E C.BuiltInFunctionESDTNFTCreate i s = (Ok o, s') ->
    cell s (i_caller i) (nft_key (P ++ argn i 0) (create_nonce i s)) = [] ->
    forall a k, k <> NP ++ argn i 0 ->
      balance E s' a k =
      (balance E s a k + (if at_cell a k (i_caller i) (nft_key (P ++ argn i 0) (create_nonce i s))
                          then bigZ (argn i 1) else 0))%Z.
  Proof.
    intros H Hfresh. apply (supply_balance_effect_nft_create E Hc _ _ _ _ H).
    apply balance_empty_cell. exact Hfresh.
  Qed.

  (* ---- ESDTNFTAddQuantity / ESDTNFTBurn ---- *)
  (* general, cell-level (no F4b hypothesis): the entry found under (token, requested nonce) with value v is stored
     back under (token, METADATA nonce) with value v + amount resp. v - amount; no other cell changes *)
  Theorem supply_balance_effect_exec_nft_add_quantity_cell i s o s' :
    exec E C.BuiltInFunctionESDTNFTAddQuantity i s = (Ok o, s') ->
    exists t m v, tok_at E s (i_caller i) (nft_key (P ++ argn i 0) (bigU64 (argn i 1))) = Some t
      /\ t_meta t = Some m /\ t_value t = Some v
      /\ balance E s' (i_caller i) (nft_key (P ++ argn i 0) (md_nonce m)) = Z.max 0 (v + bigZ (argn i 2))
      /\ forall a k, ~ (a = i_caller i /\ k = nft_key (P ++ argn i 0) (md_nonce m)) ->
           balance E s' a k = balance E s a k.
  Proof.
    intros H. change (f_nft_add_quantity E i s = (Ok o, s')) in H.
    apply (f_nft_add_quantity_spec E Hc) in H as (t & m & v & H). destruct H.
    match goal with Hu : nft_update _ _ _ _ _ _ _ _ _ _ |- _ => destruct Hu end.
    exists t, m, v. split; [assumption|]. split; [assumption|]. split; [assumption|].
    split; [match goal with Hb : balance E s' _ _ = Z.max 0 _ |- _ => rewrite Hb end; reflexivity|].
    intros a k Hn. match goal with Hf : unchanged_except _ _ s s' |- _ => apply (ue_balance E _ _ _ _ Hf) end. exact Hn.
  Qed.
  Theorem supply_balance_effect_exec_nft_burn_cell i s o s' :
    exec E C.BuiltInFunctionESDTNFTBurn i s = (Ok o, s') ->
    exists t m v, tok_at E s (i_caller i) (nft_key (P ++ argn i 0) (bigU64 (argn i 1))) = Some t
      /\ t_meta t = Some m /\ t_value t = Some v /\ (bigZ (argn i 2) <= v)%Z
      /\ balance E s' (i_caller i) (nft_key (P ++ argn i 0) (md_nonce m)) = (v - bigZ (argn i 2))%Z
      /\ forall a k, ~ (a = i_caller i /\ k = nft_key (P ++ argn i 0) (md_nonce m)) ->
           balance E s' a k = balance E s a k.
  Proof.
    intros H. change (f_nft_burn E i s = (Ok o, s')) in H.
    apply (f_nft_burn_spec E Hc) in H as (t & m & v & H). destruct H.
    match goal with Hu : nft_update _ _ _ _ _ _ _ _ _ _ |- _ => destruct Hu end.
    exists t, m, v. split; [assumption|]. split; [assumption|]. split; [assumption|]. split; [assumption|].
    split; [match goal with Hb : balance E s' _ _ = Z.max 0 _ |- _ => rewrite Hb end; unfold val_or_0; cbn [set_value t_value]; lia|].
    intros a k Hn. match goal with Hf : unchanged_except _ _ s s' |- _ => apply (ue_balance E _ _ _ _ Hf) end. exact Hn.
  Qed.
  (* under lookup_consistent (F4b: the entry found under the requested nonce carries that nonce in its metadata):
     +amount resp. -amount on the caller's cell of (token, nonce), nothing else.  Add quantity also needs a
     non-negative holding (an entry with a negative stored value would be deleted, not increased); it follows from
     the invariant NonNeg of C02_NonNeg.v *)
  Theorem supply_balance_effect_exec_nft_add_quantity i s o s' :
    exec E C.BuiltInFunctionESDTNFTAddQuantity i s = (Ok o, s') ->
    lookup_consistent E s (i_caller i) (P ++ argn i 0) (bigU64 (argn i 1)) ->
    (0 <= balance E s (i_caller i) (nft_key (P ++ argn i 0) (bigU64 (argn i 1))))%Z ->
    forall a k, balance E s' a k =
      (balance E s a k + (if at_cell a k (i_caller i) (nft_key (P ++ argn i 0) (bigU64 (argn i 1)))
                          then bigZ (argn i 2) else 0))%Z.
  Proof. apply (supply_balance_effect_nft_add_quantity E Hc). Qed.
  Theorem supply_balance_effect_exec_nft_burn i s o s' :
    exec E C.BuiltInFunctionESDTNFTBurn i s = (Ok o, s') ->
    lookup_consistent E s (i_caller i) (P ++ argn i 0) (bigU64 (argn i 1)) ->
    forall a k, balance E s' a k =
      (balance E s a k + (if at_cell a k (i_caller i) (nft_key (P ++ argn i 0) (bigU64 (argn i 1)))
                          then - bigZ (argn i 2) else 0))%Z.
  Proof. apply (supply_balance_effect_nft_burn E Hc). Qed.

  (* ---- ESDTWipe: removes exactly the frozen account's fungible holding ---- *)
  Theorem supply_balance_effect_exec_wipe i s o s' :
    exec E C.BuiltInFunctionESDTWipe i s = (Ok o, s') ->
    i_args i = [argn i 0]
    /\ frozen_at E s (i_rcpt i) (P ++ argn i 0) = true
    /\ balance E s' (i_rcpt i) (P ++ argn i 0) = 0%Z
    /\ forall a k, balance E s' a k =
         (balance E s a k - (if at_cell a k (i_rcpt i) (P ++ argn i 0) then balance E s (i_rcpt i) (P ++ argn i 0) else 0))%Z.
  Proof.
    intros H. apply (system_balance_effect_wipe_exec E Hc) in H as (tok & Ha & Hfr & Hb & Hoth).
    assert (Ht : argn i 0 = tok) by (unfold argn; rewrite Ha; reflexivity). rewrite Ht.
    split; [exact Ha|]. split; [exact Hfr|]. split; [exact Hb|]. intros a k.
    destruct (at_cell a k (i_rcpt i) (P ++ tok)) eqn:Ec.
    - apply at_cell_true in Ec as [-> ->]. rewrite Hb. lia.
    - apply at_cell_false in Ec. rewrite (Hoth a k Ec). lia.
  Qed.

  (* ================================================================ *)
  (* 2. every other function leaves every token balance unchanged       *)
  (* ================================================================ *)
  (* one statement over [exec] for the 13 names of [other_funs], for every account a and every protocol token key
     P ++ x (fungible cells P ++ tok and NFT cells P ++ tok ++ nonce alike).
     - F8 exclusion: ESDTPause / ESDTUnPause store the 2-byte flag under P ++ tok in the SYSTEM ACCOUNT; if that
       account itself holds the token, the holding is overwritten -- the cell (SYS, P ++ tok) is excluded, and
       other_functions_preserve_balances_refuted (C02_Examples.v) shows that the exclusion cannot be dropped.
     - ESDTNFTAddURI / ESDTNFTUpdateAttributes rewrite the caller's entry: F4b hypothesis (else the entry is re-keyed
       to its metadata nonce) and a non-negative stored value (else the entry is deleted); both are invariants of
       honest histories (valid identifiers are prefix-free; NonNeg). *)
  Theorem other_functions_preserve_balances f i s o s' :
    exec E f i s = (Ok o, s') -> In f other_funs ->
    (rewrites_entry_fn f ->
       lookup_consistent E s (i_caller i) (P ++ argn i 0) (bigU64 (argn i 1))
       /\ (0 <= balance E s (i_caller i) (nft_key (P ++ argn i 0) (bigU64 (argn i 1))))%Z) ->
    forall a x, (is_pause_fn f -> ~ (a = SYS /\ x = argn i 0)) ->
      balance E s' a (P ++ x) = balance E s a (P ++ x).
  Proof.
    intros H Hin Hrw a x Hp. unfold other_funs in Hin. cbn [In] in Hin.
    destruct Hin as [<-|[<-|[<-|[<-|[<-|[<-|[<-|[<-|[<-|[<-|[<-|[<-|[<-|[]]]]]]]]]]]]]].
    1, 2, 5, 6, 7, 8, 9, 10, 11:
      (eapply (system_balance_effect E Hc); [exact H|]; unfold balance_neutral_funs; cbn [In]; tauto).
    - (* pause *)
      destruct (system_balance_effect_pause_exec E _ _ _ _ _ H (or_introl eq_refl)) as (tok & Ha & Hb).
      apply Hb. intros [Hs Hk]. apply (Hp (or_introl eq_refl)). split; [exact Hs|].
      apply P_app_inj in Hk. unfold argn. rewrite Ha. exact Hk.
    - (* unpause *)
      destruct (system_balance_effect_pause_exec E _ _ _ _ _ H (or_intror eq_refl)) as (tok & Ha & Hb).
      apply Hb. intros [Hs Hk]. apply (Hp (or_intror eq_refl)). split; [exact Hs|].
      apply P_app_inj in Hk. unfold argn. rewrite Ha. exact Hk.
    - destruct (Hrw (or_introl eq_refl)) as [Hlc H0].
      apply (supply_balance_effect_nft_add_uri E Hc _ _ _ _ H Hlc H0).
    - destruct (Hrw (or_intror eq_refl)) as [Hlc H0].
      apply (supply_balance_effect_nft_update_attributes E Hc _ _ _ _ H Hlc H0).
  Qed.

  (* what pause does to the excluded cell (F8, stated exactly): the "balance" there becomes whatever the 2-byte flag
     decodes to -- the previous holding is gone *)
  Theorem pause_overwrites_system_holding f i s o s' :
    exec E f i s = (Ok o, s') -> is_pause_fn f ->
    i_args i = [argn i 0]
    /\ balance E s' SYS (P ++ argn i 0)
       = bal_of_bytes E (flag_bytes (beqb f C.BuiltInFunctionESDTPause)).
  Proof.
    intros H [-> | ->].
    - rewrite exec_pause in H. apply system_balance_effect_pause in H as (tok & Ha & Hb & _).
      assert (Ht : argn i 0 = tok) by (unfold argn; rewrite Ha; reflexivity). rewrite Ht.
      split; [exact Ha|]. rewrite beqb_refl. exact Hb.
    - rewrite exec_unpause in H. apply system_balance_effect_pause in H as (tok & Ha & Hb & _).
      assert (Ht : argn i 0 = tok) by (unfold argn; rewrite Ha; reflexivity). rewrite Ht.
      split; [exact Ha|]. exact Hb.
  Qed.

  (* ================================================================ *)
  (* 3. overdraft                                                       *)
  (* ================================================================ *)
  Theorem overdraft_fails f i s : overdrawn E f i s -> forall o s', exec E f i s <> (Ok o, s').
  Proof.
    intros [(-> & Hlt)|[(-> & Hlt)|[(-> & Hlt)|[(-> & Hs & Hlt)|[(-> & Heq & Hlt)|(-> & Heq & Hcons & Hnn & x & Hin & Hlt)]]]]] o s'.
    - apply (supply_overdraft_fails_local_burn E Hc _ _ Hlt).
    - apply (supply_overdraft_fails_esdt_burn E Hc _ _ Hlt).
    - apply (supply_overdraft_fails_nft_burn E Hc _ _ Hlt).
    - rewrite exec_esdt_transfer. apply (transfer_overdraft_fails_esdt E Hc); assumption.
    - rewrite exec_nft_transfer. apply (transfer_overdraft_fails_nft E Hc); assumption.
    - rewrite exec_multi_transfer. eapply (transfer_overdraft_fails_multi E Hc); eassumption.
  Qed.

  (* the single-function readings *)
  Corollary overdraft_fails_local_burn i s o s' :
    (balance E s (i_caller i) (P ++ argn i 0) < bigZ (argn i 1))%Z ->
    exec E C.BuiltInFunctionESDTLocalBurn i s <> (Ok o, s').
  Proof. intros H. apply overdraft_fails. left. auto. Qed.
  Corollary overdraft_fails_esdt_burn i s o s' :
    (balance E s (i_caller i) (P ++ argn i 0) < bigZ (argn i 1))%Z ->
    exec E C.BuiltInFunctionESDTBurn i s <> (Ok o, s').
  Proof. intros H. apply overdraft_fails. right. left. auto. Qed.
  Corollary overdraft_fails_nft_burn i s o s' :
    (balance E s (i_caller i) (nft_key (P ++ argn i 0) (bigU64 (argn i 1))) < bigZ (argn i 2))%Z ->
    exec E C.BuiltInFunctionESDTNFTBurn i s <> (Ok o, s').
  Proof. intros H. apply overdraft_fails. right. right. left. auto. Qed.
  Corollary overdraft_fails_esdt_transfer i s o s' : i_snd i = true ->
    (balance E s (i_caller i) (P ++ argn i 0) < bigZ (argn i 1))%Z ->
    exec E C.BuiltInFunctionESDTTransfer i s <> (Ok o, s').
  Proof. intros Hs H. apply overdraft_fails. right. right. right. left. auto. Qed.
  Corollary overdraft_fails_nft_transfer i s o s' : i_caller i = i_rcpt i ->
    (balance E s (i_caller i) (nft_key (P ++ argn i 0) (bigU64 (argn i 1))) < bigZ (argn i 2))%Z ->
    exec E C.BuiltInFunctionESDTNFTTransfer i s <> (Ok o, s').
  Proof. intros Hs H. apply overdraft_fails. right. right. right. right. left. auto. Qed.
End C02.

Print Assumptions supply_balance_effect_exec.
Print Assumptions supply_balance_effect_exec_nft_create.
Print Assumptions supply_balance_effect_exec_wipe.
Print Assumptions other_functions_preserve_balances.
Print Assumptions overdraft_fails.
