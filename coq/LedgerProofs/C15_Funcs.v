(* C15 (well-formed token state), part 2: each of the 20 non-transfer built-in functions [keeps] the
   invariant for EVERY input (no hypothesis on presence flags or arguments), and its output transfers are
   [out_ok].  The only function with a side condition is ESDTSetRole (system-contract discipline: the roles
   given are new and pairwise different), which is proved directly on the pre-state. *)
From Coq Require Import Lia.
From EV Require Import Base.Bytes Base.Store Base.Monad gen.Consts Codec.Types Helpers.Helpers
  Ledger.Types Ledger.Env Ledger.Funcs Ledger.Transfers LedgerProofs.Defs LedgerProofs.EnvSpec
  LedgerProofs.C15_Inv.

Lemma C15_wf_created q p next a2 caller roy a4 uris a5 :
  wf_token {| t_type := C.NonFungible; t_value := q; t_props := p;
              t_meta := Some {| md_nonce := u64 next; md_name := a2; md_creator := caller; md_royalties := u32 roy;
                                md_hash := a4; md_uris := uris; md_attributes := a5 |};
              t_reserved := [] |}.
Proof.
  unfold wf_token, wf_metadata. cbn. split; [reflexivity|]. split; [apply u64_lt|].
  unfold u32, two32. apply N.mod_lt. discriminate.
Qed.

Lemma NoDup_snoc (x : bytes) l : NoDup l -> ~ In x l -> NoDup (l ++ [x]).
Proof.
  intros Hl Hx. induction Hl as [|y l Hy Hl IH]; [constructor; [intros []|constructor]|].
  cbn. constructor.
  - rewrite in_app_iff. intros [H|[H|[]]]; [contradiction|]. apply Hx. left. symmetry. exact H.
  - apply IH. intros H. apply Hx. right. exact H.
Qed.

Section Funcs.
  Variable E : env.
  Hypothesis Hc : codec_ok (cdc E).
  Hypothesis Hf : flag_undec (cdc E).
  Notation okout i := (out_ok E i).

  Lemma keeps_check_local_action i cost : keeps E (check_local_action i cost) (fun _ => True).
  Proof. unfold check_local_action. keeps_tac E Hc Hf. Qed.
  Lemma keeps_check_create_burn_add i cost : keeps E (check_create_burn_add i cost) (fun _ => True).
  Proof. unfold check_create_burn_add. keeps_tac E Hc Hf. Qed.
  Lemma keeps_check_system_one_arg i : keeps E (check_system_one_arg i) (fun _ => True).
  Proof. unfold check_system_one_arg. keeps_tac E Hc Hf. Qed.
  Hint Resolve keeps_check_local_action keeps_check_create_burn_add keeps_check_system_one_arg : keeps.

  Lemma keeps_f_local_mint i : keeps E (f_local_mint E i) (okout i).
  Proof. unfold f_local_mint. keeps_tac E Hc Hf. out_tac. Qed.
  Lemma keeps_f_local_burn i : keeps E (f_local_burn E i) (okout i).
  Proof. unfold f_local_burn. keeps_tac E Hc Hf. out_tac. Qed.
  Lemma keeps_f_esdt_burn i : keeps E (f_esdt_burn E i) (okout i).
  Proof.
    unfold f_esdt_burn. keeps_tac E Hc Hf. cbv zeta. apply out_ok_add_log.
    destruct (is_sc (i_caller i)); [|apply out_ok_mk].
    apply out_ok_aot_msg; [cbn; auto|apply msg_ok_burn].
  Qed.

  Lemma keeps_f_nft_add_quantity i : keeps E (f_nft_add_quantity E i) (okout i).
  Proof. unfold f_nft_add_quantity. keeps_tac E Hc Hf. out_tac. Qed.
  Lemma keeps_f_nft_burn i : keeps E (f_nft_burn E i) (okout i).
  Proof. unfold f_nft_burn. keeps_tac E Hc Hf. out_tac. Qed.
  Lemma keeps_f_nft_add_uri i : keeps E (f_nft_add_uri E i) (okout i).
  Proof. unfold f_nft_add_uri. keeps_tac E Hc Hf. out_tac. Qed.
  Lemma keeps_f_nft_update_attributes i : keeps E (f_nft_update_attributes E i) (okout i).
  Proof. unfold f_nft_update_attributes. keeps_tac E Hc Hf. out_tac. Qed.

  Lemma keeps_f_nft_create i : keeps E (f_nft_create E i) (okout i).
  Proof.
    unfold f_nft_create. keeps_tac E Hc Hf.
    all: try (eapply (keeps_bind E);
              [apply (keeps_save_nft E Hc); [apply C15_wf_created|apply shape_created, props_ok_nil]|keeps_intro];
              keeps_tac E Hc Hf).
    all: out_tac.
  Qed.

  Lemma keeps_f_freeze_wipe fr wp i : keeps E (f_freeze_wipe E fr wp i) (okout i).
  Proof. unfold f_freeze_wipe. keeps_tac E Hc Hf. all: out_tac. Qed.

  Lemma keeps_f_pause p i : keeps E (f_pause E p i) (okout i).
  Proof.
    unfold f_pause. keeps_tac E Hc Hf.
    eapply (keeps_bind E); [apply (keeps_save_kv E); apply goodw_flag|keeps_intro].
    keeps_tac E Hc Hf. out_tac.
  Qed.

  (* ESDTUnSetRole: every input *)
  Lemma keeps_f_roles_unset i : keeps E (f_roles E false i) (okout i).
  Proof.
    unfold f_roles. keeps_tac E Hc Hf.
    eapply (keeps_bind E); [apply (keeps_save_roles E Hc); apply delete_roles_NoDup; assumption|keeps_intro].
    keeps_tac E Hc Hf. out_tac.
  Qed.
  (* ESDTSetRole: under the discipline, stated on the pre-state *)
  Lemma Inv_f_roles_set i s o s' :
    Inv E s ->
    (forall tok, nth_error (i_args i) 0 = Some tok -> NoDup (roles_at E s (i_rcpt i) tok ++ skipn 1 (i_args i))) ->
    f_roles E true i s = (Ok o, s') -> Inv E s' /\ okout i o.
  Proof.
    intros Hs Hd H. unfold f_roles in H.
    apply bind_ok in H as (u0 & s0 & H0 & H). apply check_basic_ok in H0 as (_ & _ & ->).
    apply bind_ok in H as (u1 & s1 & H1 & H). apply guard_ok in H1 as [_ ->].
    apply bind_ok in H as (u2 & s2 & H2 & H). apply guard_ok in H2 as [_ ->].
    apply bind_ok in H as (tok & s1 & H1 & H). apply arg_ok in H1 as (Hn & _ & ->). cbv zeta in H.
    apply bind_ok in H as ([r isNew] & s1 & H1 & H). apply get_roles_roles_at in H1 as [-> Hr].
    apply bind_ok in H as (rs' & s2 & H2 & H). apply args_from_ok in H2 as (_ & -> & ->).
    apply bind_ok in H as (u3 & s3 & H3 & H). apply ret_ok in H as [-> <-].
    apply save_roles_ok in H3. assert (Hw := rd_wr _ _ _ _ _ _ _ Hr H3).
    split; [|apply out_ok_mk]. eapply (Inv_wr E); [exact Hw| |exact Hs].
    apply (goodw_roles E Hc). apply (Hd tok). exact Hn.
  Qed.

  Lemma keeps_delete_create_role a tok : keeps E (delete_create_role E a (RP ++ tok)) (fun _ => True).
  Proof.
    unfold delete_create_role. keeps_tac E Hc Hf.
    eapply (keeps_true E). apply (keeps_save_roles E Hc). apply delete_roles_NoDup. assumption.
  Qed.
  Lemma keeps_add_create_role a tok : keeps E (add_create_role E a (RP ++ tok)) (fun _ => True).
  Proof.
    unfold add_create_role. keeps_tac E Hc Hf. all: try exact I.
    eapply (keeps_true E). apply (keeps_save_roles E Hc). apply NoDup_snoc; [assumption|].
    intros Hin. apply bytes_in_true in Hin. congruence.
  Qed.
  Hint Resolve keeps_delete_create_role keeps_add_create_role : keeps.

  Lemma keeps_f_create_role_transfer i : keeps E (f_create_role_transfer E i) (okout i).
  Proof.
    unfold f_create_role_transfer. keeps_tac E Hc Hf. all: try out_tac.
    all: apply out_ok_one; right; right; right; eexists _, _; cbn [tr_data];
      (split; [reflexivity|split; [cbn; auto|apply msg_ok_role_transfer]]).
  Qed.

  Lemma keeps_f_change_owner i : keeps E (f_change_owner E i) (okout i).
  Proof. unfold f_change_owner. keeps_tac E Hc Hf. all: out_tac. Qed.
  Lemma keeps_f_claim_rewards i : keeps E (f_claim_rewards E i) (okout i).
  Proof.
    unfold f_claim_rewards. keeps_tac E Hc Hf. all: try out_tac.
    all: try (destruct (is_sc (i_caller i)); [apply out_ok_set_accounts_nil|]).
    all: apply out_ok_one; left; reflexivity.
  Qed.
  Lemma keeps_f_set_user_name i : keeps E (f_set_user_name E i) (okout i).
  Proof.
    unfold f_set_user_name. keeps_tac E Hc Hf. all: try out_tac.
    apply out_ok_one; right; right; right; eexists _, _; cbn [tr_data].
    split; [reflexivity|split; [cbn; auto|apply msg_ok_user_name]].
  Qed.

  Lemma keeps_skv_loop a gp n : forall pairs use, length pairs = (2 * n)%nat ->
    keeps E (skv_loop E a gp pairs use) (fun _ => True).
  Proof.
    induction n as [|n IH]; intros pairs use Hl.
    - destruct pairs; [|discriminate]. cbn [skv_loop]. apply (keeps_ret E). exact I.
    - destruct pairs as [|k [|v rest]]; [discriminate|simpl in Hl; lia|].
      assert (Hr : length rest = (2 * n)%nat) by (simpl in Hl; lia).
      cbn [skv_loop]. keeps_tac E Hc Hf.
      eapply (keeps_bind E); [apply (keeps_save_kv E); apply goodw_allowed; assumption|keeps_intro].
      apply IH. exact Hr.
  Qed.

  Lemma keeps_f_save_key_value i : keeps E (f_save_key_value E i) (okout i).
  Proof.
    unfold f_save_key_value. keeps_tac E Hc Hf.
    eapply (keeps_bind E); [apply (keeps_skv_loop _ _ (length (i_args i) / 2)%nat); unfold alen in *; lia|keeps_intro].
    keeps_tac E Hc Hf. out_tac.
  Qed.
End Funcs.
