(* Property C09 -- tokens are only credited to admissible destinations.
   The per-function facts are in Spec_Transfers.v (transfer_credit_implies_admissible_xxx, metachain_rejected_xxx,
   self_or_wrong_length_rejected_xxx); this file states them ONCE, uniformly over the three transfer functions and both
   execution sides, through the dispatch [exec], and lifts them to one step of the world model. *)
From EV Require Import Base.Bytes Base.Store Base.Monad gen.Consts Codec.Types Helpers.Helpers
  Ledger.Types Ledger.Env Ledger.Funcs Ledger.Transfers Ledger.World
  LedgerProofs.Defs LedgerProofs.EnvSpec LedgerProofs.WorldDefs LedgerProofs.WorldSpec
  LedgerProofs.Spec_Transfers_Base LedgerProofs.Spec_Transfers_Esdt LedgerProofs.Spec_Transfers_Nft
  LedgerProofs.Spec_Transfers_Multi LedgerProofs.Spec_Transfers.

Notation F_ESDT := C.BuiltInFunctionESDTTransfer.
Notation F_NFT := C.BuiltInFunctionESDTNFTTransfer.
Notation F_MULTI := C.BuiltInFunctionMultiESDTNFTTransfer.

(* ---- vocabulary that does not depend on the environment ---- *)
(* the sender side of ESDTNFTTransfer / MultiESDTNFTTransfer is the execution with caller = recipient (the
   transaction is addressed to the sender itself and names the destination in an argument) *)
Definition c09_sender_side (i : input) : bool := beqb (i_caller i) (i_rcpt i).
(* the destination of the transfer: ESDTTransfer: the recipient; NFT sender side: argument 3; multi sender side:
   argument 0; destination side: the recipient *)
Definition c09_dest (f : bytes) (i : input) : bytes :=
  if beqb f F_ESDT then i_rcpt i
  else if c09_sender_side i then (if beqb f F_NFT then argn i 3 else argn i 0)
  else i_rcpt i.
(* the number of arguments above which the call "carries a contract call": the threshold the model passes to
   mustVerifyPayable.  multi_min off n = u64 (u64 (n * 3) + off), the uint64 arithmetic of the Go code;
   [c09_min_exact] below: = 3n + off on every accepted call with fewer than 2^64 arguments *)
Definition c09_min (f : bytes) (i : input) : N :=
  if beqb f F_ESDT then 2%N
  else if beqb f F_NFT then 4%N
  else if c09_sender_side i then multi_min 2 (multi_n_snd i) else multi_min 1 (multi_n_dst i).
Definition c09_min_plain (f : bytes) (i : input) : N :=
  if beqb f F_ESDT then 2%N
  else if beqb f F_NFT then 4%N
  else if c09_sender_side i then (3 * multi_n_snd i + 2)%N else (3 * multi_n_dst i + 1)%N.

Lemma c09_fn_ne_nft_esdt : F_NFT <> F_ESDT.
Proof. intros H. pose proof fn_nft_ne_esdt as H1. rewrite H, beqb_refl in H1. discriminate. Qed.
Lemma c09_fn_ne_multi_esdt : F_MULTI <> F_ESDT.
Proof. intros H. pose proof fn_multi_ne_esdt as H1. rewrite H, beqb_refl in H1. discriminate. Qed.
Lemma c09_fn_ne_multi_nft : F_MULTI <> F_NFT.
Proof. intros H. pose proof fn_multi_ne_nft as H1. rewrite H, beqb_refl in H1. discriminate. Qed.

Section C09.
  Variable E : env.
  Hypothesis Hc : codec_ok (cdc E).

  (* is the destination's account on the executing shard (so that this execution credits it)?  ESDTTransfer: the
     recipient account was handed to the function; sender side of the other two: same shard; destination side: yes *)
  Definition c09_local (f : bytes) (i : input) : bool :=
    if beqb f F_ESDT then i_dst i
    else if c09_sender_side i then (self_shard E =? shard_of E (c09_dest f i))%N
    else true.

  Ltac c09_unfold :=
    unfold c09_local, c09_dest, c09_min, c09_min_plain, c09_sender_side;
    rewrite ?beqb_refl, ?fn_nft_ne_esdt, ?fn_multi_ne_esdt, ?fn_multi_ne_nft.

  (* ---- 1. credit -> destination, local, admissible ---- *)
  Theorem credit_implies_admissible f i s o s' a k :
    is_transfer_fn f = true -> exec E f i s = (Ok o, s') ->
    (f = F_ESDT \/ a <> i_caller i) ->
    (balance E s a k < balance E s' a k)%Z ->
    a = c09_dest f i /\ c09_local f i = true /\ admissible E i a (c09_min f i).
  Proof.
    intros Hf Hex Ha Hlt. destruct (exec_transfer_cases E f i Hf) as [[-> Hx]|[[-> Hx]|[-> Hx]]]; rewrite Hx in Hex.
    - destruct (transfer_credit_implies_admissible_esdt E Hc _ _ _ _ _ _ Hex Hlt) as (Hd & -> & _ & Hadm).
      c09_unfold. auto.
    - destruct Ha as [Ha|Ha]; [exfalso; exact (c09_fn_ne_nft_esdt Ha)|].
      assert (Hne : balance E s' a k <> balance E s a k) by lia.
      destruct (transfer_credit_implies_admissible_nft E Hc _ _ _ _ _ _ Hex Ha Hne) as (Hadm & Hd).
      c09_unfold. destruct (beqb (i_caller i) (i_rcpt i)).
      + destruct Hd as [-> Hs]. auto.
      + subst a. auto.
    - destruct Ha as [Ha|Ha]; [exfalso; exact (c09_fn_ne_multi_esdt Ha)|].
      assert (Hne : balance E s' a k <> balance E s a k) by lia.
      pose proof (transfer_credit_implies_admissible_multi E Hc _ _ _ _ _ _ Hex Ha Hne) as Hd.
      c09_unfold. destruct (beqb (i_caller i) (i_rcpt i)).
      + destruct Hd as (-> & Hs & Hadm). auto.
      + destruct Hd as (-> & Hadm). auto.
  Qed.

  (* the threshold in plain arithmetic: on an accepted call whose argument list is shorter than 2^64 (every Go slice
     is) the uint64 computation of the minimum does not wrap *)
  Theorem c09_min_exact f i s o s' :
    is_transfer_fn f = true -> exec E f i s = (Ok o, s') -> (alen (i_args i) < two64)%N ->
    c09_min f i = c09_min_plain f i.
  Proof.
    intros Hf Hex Hlen. destruct (exec_transfer_cases E f i Hf) as [[-> Hx]|[[-> Hx]|[-> Hx]]]; rewrite Hx in Hex;
      c09_unfold; try reflexivity.
    destruct (beqb_spec (i_caller i) (i_rcpt i)) as [Heq|Hne].
    - destruct (multi_sender_post E Hc _ _ _ _ Hex Heq) as (lst & Hp). pose proof (mp_len E _ _ _ _ _ Hp) as Hl.
      unfold multi_min. rewrite (u64_small (multi_n_snd i * 3)) by lia. rewrite u64_small by lia. lia.
    - pose proof (multi_dest_post E Hc _ _ _ _ Hex Hne) as Hp. pose proof (mq_len E _ _ _ _ Hp) as Hl.
      unfold multi_min. rewrite (u64_small (multi_n_dst i * 3)) by lia. rewrite u64_small by lia. lia.
  Qed.

  (* ---- 2. verification required and the oracle does not say "payable" (says no, or fails) -> not Ok ---- *)
  Theorem unverified_rejected f i s o s' :
    is_transfer_fn f = true -> c09_local f i = true ->
    must_verify_payable i (c09_min f i) = true -> payable E (c09_dest f i) <> PayYes ->
    exec E f i s <> (Ok o, s').
  Proof.
    intros Hf Hl Hv Hp Hex. apply Hp. clear Hp.
    destruct (exec_transfer_cases E f i Hf) as [[-> Hx]|[[-> Hx]|[-> Hx]]]; rewrite Hx in Hex; revert Hl Hv; c09_unfold.
    - intros Hl Hv. exact (ep_payable E _ _ _ _ (esdt_transfer_spec E Hc _ _ _ _ Hex) Hl Hv).
    - destruct (beqb_spec (i_caller i) (i_rcpt i)) as [Heq|Hne]; intros Hl Hv.
      + destruct (nft_sender_post E Hc _ _ _ _ Hex Heq) as (t & Hp). exact (ns_dst_payable E _ _ _ _ _ Hp Hl Hv).
      + destruct (nft_dest_post E Hc _ _ _ _ Hex Hne) as (t & Hp). exact (nd_payable E _ _ _ _ _ Hp Hv).
    - destruct (beqb_spec (i_caller i) (i_rcpt i)) as [Heq|Hne]; intros Hl Hv.
      + destruct (multi_sender_post E Hc _ _ _ _ Hex Heq) as (lst & Hp). destruct Hp.
        destruct mp_steps as (s0 & s1 & Q0 & Hs & Q1).
        destruct (snd_steps_frame E _ _ _ _ _ _ _ _ _ Hs) as (_ & _ & _ & _ & Hpay & _ & _).
        apply Hpay; [|exact Hl|exact Hv].
        intros Hnil. apply (f_equal (@length _)) in Hnil. unfold multi_snd_triples in Hnil.
        rewrite multi_triples_length in Hnil. cbn [length] in Hnil. lia.
      + pose proof (multi_dest_post E Hc _ _ _ _ Hex Hne) as Hp. destruct Hp. destruct mq_steps as (s0 & Q0 & Hs).
        destruct (dst_steps_frame E _ _ _ _ _ _ Hs) as (_ & _ & _ & _ & Hpay).
        apply Hpay; [|exact Hv].
        intros Hnil. apply (f_equal (@length _)) in Hnil. unfold multi_dst_triples in Hnil.
        rewrite multi_triples_length in Hnil. cbn [length] in Hnil. lia.
  Qed.
  Corollary oracle_error_is_error f i s o s' :
    is_transfer_fn f = true -> c09_local f i = true ->
    must_verify_payable i (c09_min f i) = true -> payable E (c09_dest f i) = PayErr ->
    exec E f i s <> (Ok o, s').
  Proof. intros Hf Hl Hv Hp. apply unverified_rejected; auto. rewrite Hp. discriminate. Qed.
  Corollary non_payable_rejected f i s o s' :
    is_transfer_fn f = true -> c09_local f i = true ->
    must_verify_payable i (c09_min f i) = true -> payable E (c09_dest f i) = PayNo ->
    exec E f i s <> (Ok o, s').
  Proof. intros Hf Hl Hv Hp. apply unverified_rejected; auto. rewrite Hp. discriminate. Qed.

  (* must_verify_payable is exactly the negation of the three exemptions *)
  Lemma must_verify_payable_iff i minLen :
    must_verify_payable i minLen = true <->
    ~ ((minLen < alen (i_args i))%N \/ i_callType i = C.AsynchronousCallBack
       \/ i_callType i = C.ESDTTransferAndExecute \/ i_caller i = SC).
  Proof.
    unfold must_verify_payable.
    destruct (i_callType i =? C.AsynchronousCallBack)%N eqn:E1; cbn [orb];
      [apply N.eqb_eq in E1; split; [discriminate|intros H; exfalso; apply H; auto]|apply N.eqb_neq in E1].
    destruct (i_callType i =? C.ESDTTransferAndExecute)%N eqn:E2;
      [apply N.eqb_eq in E2; split; [discriminate|intros H; exfalso; apply H; auto]|apply N.eqb_neq in E2].
    destruct (beqb_spec (i_caller i) SC) as [Hsc|Hsc]; [split; [discriminate|intros H; exfalso; apply H; auto]|].
    destruct (minLen <? alen (i_args i))%N eqn:E3.
    - split; [discriminate|intros H; exfalso; apply H; left; lia].
    - split; [|reflexivity]. intros _ [H|[H|[H|H]]]; [lia|contradiction..].
  Qed.

  (* ---- 3. destination guards ---- *)
  (* ESDTTransfer: on both sides; the other two: on the sender side (the destination side is only reached through a
     message the sender side emitted) *)
  Theorem metachain_rejected f i s o s' :
    is_transfer_fn f = true -> (f = F_ESDT \/ c09_sender_side i = true) ->
    shard_of E (c09_dest f i) = META -> exec E f i s <> (Ok o, s').
  Proof.
    intros Hf Hside Hm Hex.
    destruct (exec_transfer_cases E f i Hf) as [[-> Hx]|[[-> Hx]|[-> Hx]]]; rewrite Hx in Hex; revert Hm; c09_unfold.
    - intros Hm. exact (metachain_rejected_esdt E Hc _ _ _ _ Hm Hex).
    - destruct Hside as [Hs|Hs]; [exfalso; exact (c09_fn_ne_nft_esdt Hs)|]. unfold c09_sender_side in Hs.
      rewrite Hs. intros Hm. apply beqb_true in Hs. exact (metachain_rejected_nft E Hc _ _ _ _ Hs Hm Hex).
    - destruct Hside as [Hs|Hs]; [exfalso; exact (c09_fn_ne_multi_esdt Hs)|]. unfold c09_sender_side in Hs.
      rewrite Hs. intros Hm. apply beqb_true in Hs. exact (metachain_rejected_multi E Hc _ _ _ _ Hs Hm Hex).
  Qed.

  Theorem self_or_wrong_length_rejected f i s o s' :
    f = F_NFT \/ f = F_MULTI -> c09_sender_side i = true ->
    c09_dest f i = i_caller i \/ zlen (c09_dest f i) <> zlen (i_caller i) ->
    exec E f i s <> (Ok o, s').
  Proof.
    intros Hf Hs Hbad Hex. unfold c09_sender_side in Hs. pose proof (proj1 (beqb_true _ _) Hs) as Heq.
    destruct Hf as [-> | ->]; revert Hbad; c09_unfold; rewrite Hs; intros Hbad.
    - rewrite exec_nft_transfer in Hex. exact (self_or_wrong_length_rejected_nft E Hc _ _ _ _ Heq Hbad Hex).
    - rewrite exec_multi_transfer in Hex. exact (self_or_wrong_length_rejected_multi E Hc _ _ _ _ Heq Hbad Hex).
  Qed.

  (* on the destination side of the NFT and multi transfer the caller is by definition not the recipient, and the
     function insists on being handed the recipient's account and not the caller's *)
  Theorem dest_side_presence f i s o s' :
    f = F_NFT \/ f = F_MULTI -> exec E f i s = (Ok o, s') ->
    if c09_sender_side i then i_snd i = true else i_snd i = false /\ i_dst i = true.
  Proof.
    intros [-> | ->] Hex.
    - rewrite exec_nft_transfer in Hex. exact (nft_transfer_needs_sender E Hc _ _ _ _ Hex).
    - rewrite exec_multi_transfer in Hex. exact (multi_transfer_needs_sender E Hc _ _ _ _ Hex).
  Qed.
End C09.

(* ================================================================ *)
(* 4. One step of the world                                           *)
(* ================================================================ *)
Section C09World.
  Variable c : wcfg.
  Hypothesis Hc : codec_ok (wc_cdc c).

  (* balance of account a under key k on shard sh of world w *)
  Definition wbalance (w : world) (sh : N) (a k : bytes) : Z :=
    balance (env_at c sh) (mk_state (shard_accts w sh)) a k.

  (* the execution a world operation performs: (shard, function, input) *)
  Definition op_exec (w : world) (op : wop) : option (N * bytes * input) :=
    match op with
    | OCall sh fn i => Some (sh, fn, i)
    | ODeliver id gas | ORedeliver id gas =>
      match find_msg (inflight w) id with
      | Some m => let sh := wc_shard_of c (m_dest m) in Some (sh, m_fn m, deliver_input c m sh gas)
      | None => None
      end
    | ORefund id gas =>
      match find_msg (inflight w) id with
      | Some m => let sh := wc_shard_of c (m_sender m) in Some (sh, m_fn m, refund_input c m sh gas)
      | None => None
      end
    end.

  Lemma wbalance_accts w w' sh a k : shard_accts w' sh = shard_accts w sh -> wbalance w' sh a k = wbalance w sh a k.
  Proof. unfold wbalance. intros ->. reflexivity. Qed.
  Lemma balance_mk_state E s a k : balance E (mk_state (accts s)) a k = balance E s a k.
  Proof. reflexivity. Qed.

  (* a committed execution on shard sh: what the balances of any shard sh' look like afterwards *)
  Lemma wbalance_commit w sh s' ms fl nid sh' a k :
    (wbalance (with_msgs (set_shard w sh (accts s')) ms fl nid) sh' a k <> wbalance w sh' a k) ->
    sh' = sh /\ wbalance (with_msgs (set_shard w sh (accts s')) ms fl nid) sh' a k = balance (env_at c sh) s' a k.
  Proof.
    intros Hne. destruct (N.eq_dec sh' sh) as [->|Hd].
    - split; [reflexivity|]. unfold wbalance. rewrite shard_accts_with_msgs.
      destruct (Nat.lt_ge_cases (N.to_nat sh) (nshards w)) as [Hin|Hout].
      + rewrite shard_accts_set_shard_eq by exact Hin. reflexivity.
      + exfalso. apply Hne. apply wbalance_accts. rewrite shard_accts_with_msgs. unfold shard_accts.
        rewrite shards_set_shard, set_nth_out by exact Hout. reflexivity.
    - exfalso. apply Hne. apply wbalance_accts. rewrite shard_accts_with_msgs. apply shard_accts_set_shard_ne. exact Hd.
  Qed.

  (* whatever the operation (origin call, delivery, re-delivery, refund): if it executes one of the three transfer
     functions and the balance of some account on some shard increases, then that shard is the executing shard, the
     account is the destination of the executed call and it is admissible for that call *)
  Theorem world_credit_implies_admissible w op sh f i sh' a k :
    op_exec w op = Some (sh, f, i) -> is_transfer_fn f = true ->
    (f = F_ESDT \/ a <> i_caller i) ->
    (wbalance w sh' a k < wbalance (wstep c w op) sh' a k)%Z ->
    sh' = sh /\ a = c09_dest f i /\ c09_local (env_at c sh) f i = true
    /\ admissible (env_at c sh) i a (c09_min f i).
  Proof.
    intros Hop Hf Ha Hlt.
    assert (Hgen : forall s' o ms fl nid,
              exec (env_at c sh) f i (mk_state (shard_accts w sh)) = (Ok o, s') ->
              wstep c w op = with_msgs (set_shard w sh (accts s')) ms fl nid ->
              sh' = sh /\ a = c09_dest f i /\ c09_local (env_at c sh) f i = true
              /\ admissible (env_at c sh) i a (c09_min f i)).
    { intros s' o ms fl nid Hex Hw. rewrite Hw in Hlt.
      destruct (wbalance_commit w sh s' ms fl nid sh' a k) as [-> Hb]; [lia|].
      rewrite Hb in Hlt. split; [reflexivity|].
      apply (credit_implies_admissible (env_at c sh) Hc f i _ o s' a k Hf Hex Ha).
      unfold wbalance in Hlt. exact Hlt. }
    destruct (wstep_cases c w op) as [Hw|id gas m Hk Hfm Hw|sh0 fn i0 o s' Hk Hsh Hex Hw
                                      |id gas m o s' consume Hk Hfm sh0 Hsh Hex Hw|id gas m o s' Hk Hfm Hfl sh0 Hsh Hex Hw].
    - rewrite Hw in Hlt. lia.
    - rewrite Hw in Hlt. unfold wbalance in Hlt. rewrite shard_accts_with_msgs in Hlt. lia.
    - subst op. cbn [op_exec] in Hop. inversion Hop; subst. eapply Hgen; eauto.
    - assert (Hop' : op_exec w op = Some (sh0, m_fn m, deliver_input c m sh0 gas)).
      { subst op. destruct consume; cbn [op_exec]; rewrite Hfm; reflexivity. }
      rewrite Hop' in Hop. inversion Hop; subst sh f i. eapply Hgen; eauto.
    - subst op. cbn [op_exec] in Hop. rewrite Hfm in Hop. inversion Hop; subst sh f i. eapply Hgen; eauto.
  Qed.
End C09World.

Print Assumptions credit_implies_admissible.
Print Assumptions world_credit_implies_admissible.
