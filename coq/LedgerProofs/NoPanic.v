(* C11 (totality), part 1: the state hypothesis [StoreOK], the Hoare-style judgement [safe E st m Q]
   (from a StoreOK state: a successful run of m re-establishes StoreOK and its result satisfies Q; and, when
   the strictness flag [st] is true, m does not panic), its rules for the monad combinators, the primitives
   and the shared helpers of Ledger/Env.v, and the tactic [safe_tac].
   One development gives two results: [st = true] (no panic, under the input hypotheses, which all have the
   form [st = true -> ...]) and [st = false] (StoreOK preserved by EVERY successful call, no input hypothesis).

   [StoreOK E s]: every DECODABLE token entry under a protocol key [P ++ x] carries a value (a nil
   *big.Int would be dereferenced by addToESDTBalance / saveESDTNFTToken / addNFTToDestination).
   Undecodable cells (e.g. the 2-byte pause flag that ESDTPause stores under [P ++ tok] in the system
   account) are outside the predicate: reading them is an [Err EDecode], not a panic.  What the pause
   flag decodes to is not determined by [codec_ok]; the assumption [flag_ok] (if the 2-byte flag decodes at
   all, the result has a value) is discharged for the concrete protobuf codec in Properties/C11.v. *)
From Coq Require Import Lia.
From EV Require Import Base.Bytes Base.Store Base.Monad gen.Consts Codec.Types Helpers.Helpers
  Ledger.Types Ledger.Env Ledger.Funcs Ledger.Transfers LedgerProofs.Defs LedgerProofs.EnvSpec.

Definition flag_ok (c : codec) : Prop :=
  forall f t, dec_tok c (flag_bytes f) = Some t -> t_value t <> None.

Definition StoreOK (E : env) (s : mstate) : Prop :=
  forall a x t, tok_at E s a (P ++ x) = Some t -> t_value t <> None.

(* the judgement *)
Definition safe (E : env) (st : bool) {A} (m : @M err mstate A) (Q : A -> Prop) : Prop :=
  forall s, StoreOK E s ->
    match m s with
    | (Ok a, s') => StoreOK E s' /\ Q a
    | (Err _, _) => True
    | (Panic, _) => st = false
    end.

Lemma two40_val : (1099511627776 = 2 ^ 40)%N. Proof. reflexivity. Qed.

Section Safe.
  Variable E : env.
  Hypothesis Hc : codec_ok (cdc E).
  Variable st : bool.
  Notation MT := (@M err mstate).
  Notation StoreOK := (StoreOK E).
  Notation safe := (@safe E st _).
  Notation strict := (st = true).

  (* ---------------- StoreOK under reads and writes ---------------- *)
  Definition goodw (k v : bytes) : Prop :=
    forall x t, k = P ++ x -> v <> [] -> dec_tok (cdc E) v = Some t -> t_value t <> None.

  Lemma StoreOK_accts s s' : accts s' = accts s -> StoreOK s -> StoreOK s'.
  Proof. intros H Hs a x t Ht. rewrite (tok_at_accts E _ _ _ _ H) in Ht. eapply Hs; eauto. Qed.
  Lemma StoreOK_rd s s' : rd E s s' -> StoreOK s -> StoreOK s'.
  Proof. intros H. apply StoreOK_accts. apply (rd_accts E _ _ H). Qed.
  Lemma StoreOK_wr a k v s s' : wr E a k v s s' -> goodw k v -> StoreOK s -> StoreOK s'.
  Proof.
    intros Hw Hg Hs a' x t Ht.
    destruct (beqb_spec a' a) as [->|Hna].
    - destruct (beqb_spec (P ++ x) k) as [Hk|Hnk].
      + subst k. rewrite (wr_tok_at_eq E _ _ _ _ _ Hw) in Ht.
        destruct v as [|b v]; [discriminate|]. eapply Hg; eauto. discriminate.
      + rewrite (wr_tok_at_other E _ _ _ _ _ _ _ Hw) in Ht by (right; exact Hnk). eapply Hs; eauto.
    - rewrite (wr_tok_at_other E _ _ _ _ _ _ _ Hw) in Ht by (left; exact Hna). eapply Hs; eauto.
  Qed.

  Lemma goodw_nil k : goodw k [].
  Proof. intros x t _ H. congruence. Qed.
  Lemma goodw_enc k t : wf_token t -> t_value t <> None -> goodw k (enc_tok (cdc E) t).
  Proof. intros Hw Hv x t' _ _ Hd. rewrite (dec_enc_tok _ Hc t Hw) in Hd. congruence. Qed.
  Lemma goodw_notP k v : (forall x, k <> P ++ x) -> goodw k v.
  Proof. intros H x t Hk. exfalso. eapply H; eauto. Qed.
  Lemma goodw_if (c : bool) k t : wf_token t -> t_value t <> None -> goodw k (if c then [] else enc_tok (cdc E) t).
  Proof. destruct c; [intros; apply goodw_nil|apply goodw_enc]. Qed.
  Lemma goodw_flag k f : flag_ok (cdc E) -> goodw k (flag_bytes f).
  Proof. intros Hf x t _ _ Hd. eapply Hf; eauto. Qed.
  Lemma goodw_RP tok v : goodw (RP ++ tok) v.
  Proof. apply goodw_notP. intros x H. symmetry in H. revert H. apply P_RP_disjoint. Qed.
  Lemma goodw_NP tok v : goodw (NP ++ tok) v.
  Proof. apply goodw_notP. intros x H. symmetry in H. revert H. apply P_NP_disjoint. Qed.
  Lemma goodw_allowed k v : key_allowed k = true -> goodw k v.
  Proof. intros H. apply goodw_notP. intros x ->. rewrite key_allowed_P in H. discriminate. Qed.

  (* ---------------- rules for the combinators ---------------- *)
  Lemma safe_of {A} (m : MT A) (Q : A -> Prop) :
    (forall s, StoreOK s -> strict -> nopanic m s) ->
    (forall s a s', StoreOK s -> m s = (Ok a, s') -> StoreOK s' /\ Q a) -> safe m Q.
  Proof.
    intros Hn Hp s Hs. specialize (Hn s Hs). unfold nopanic in Hn.
    destruct (m s) as [[a|e|] s'] eqn:Em; simpl in *; auto; [eapply Hp; eauto|].
    destruct st; [exfalso; apply Hn; reflexivity|reflexivity].
  Qed.
  Lemma safe_panic {A} (Q : A -> Prop) : (strict -> False) -> safe panic Q.
  Proof. intros H s Hs. simpl. destruct st; [exfalso; auto|reflexivity]. Qed.
  Lemma safe_ret {A} (a : A) (Q : A -> Prop) : Q a -> safe (ret a) Q.
  Proof. intros H s Hs. simpl. auto. Qed.
  Lemma safe_ret_eq {A} (a : A) : safe (ret a) (fun x => x = a).
  Proof. apply safe_ret. reflexivity. Qed.
  Lemma safe_fail {A} e (Q : A -> Prop) : safe (fail e) Q.
  Proof. intros s Hs. simpl. auto. Qed.
  Lemma safe_bind {A B} (m : MT A) (f : A -> MT B) (Q : A -> Prop) (R : B -> Prop) :
    safe m Q -> (forall a, Q a -> safe (f a) R) -> safe (bind m f) R.
  Proof.
    intros Hm Hf s Hs. specialize (Hm s Hs). unfold bind.
    destruct (m s) as [[a|e|] s1]; auto. destruct Hm as [Hs1 Hq]. apply (Hf a Hq s1 Hs1).
  Qed.
  Lemma safe_weaken {A} (m : MT A) (Q Q' : A -> Prop) : safe m Q -> (forall a, Q a -> Q' a) -> safe m Q'.
  Proof.
    intros Hm Hq s Hs. specialize (Hm s Hs). destruct (m s) as [[a|e|] s1]; auto. destruct Hm; auto.
  Qed.
  Lemma safe_true {A} (m : MT A) (Q : A -> Prop) : safe m Q -> safe m (fun _ => True).
  Proof. intros H. eapply safe_weaken; [exact H|auto]. Qed.
  (* what the judgement gives *)
  Lemma safe_nopanic {A} (m : MT A) Q s : strict -> safe m Q -> StoreOK s -> fst (m s) <> Panic.
  Proof. intros Hst H Hs. specialize (H s Hs). destruct (m s) as [[a|e|] s1]; simpl; [discriminate|discriminate|congruence]. Qed.
  Lemma safe_ok {A} (m : MT A) Q s a s' : safe m Q -> StoreOK s -> m s = (Ok a, s') -> StoreOK s' /\ Q a.
  Proof. intros H Hs Hm. specialize (H s Hs). rewrite Hm in H. exact H. Qed.

  (* read-only computations *)
  Lemma safe_rdonly {A} (m : MT A) (Q : A -> Prop) :
    panicfree m -> (forall s a s', m s = (Ok a, s') -> accts s' = accts s /\ Q a) -> safe m Q.
  Proof.
    intros Hp Hr. apply safe_of; [intros; apply Hp|].
    intros s a s' Hs Hm. destruct (Hr _ _ _ Hm) as [Ha Hq]. split; [eapply StoreOK_accts; eauto|exact Hq].
  Qed.

  (* ---------------- primitives ---------------- *)
  Lemma safe_guard b e : safe (guard b e) (fun _ => b = true).
  Proof. destruct b; [apply safe_ret; reflexivity|apply safe_fail]. Qed.
  Lemma safe_lift_opt {A} (o : option A) e : safe (lift_opt o e) (fun a => o = Some a).
  Proof. destruct o; [apply safe_ret; reflexivity|apply safe_fail]. Qed.
  Lemma safe_check_basic i :
    safe (check_basic i) (fun _ => (2 <= alen (i_args i))%N).
  Proof.
    apply safe_rdonly; [apply panicfree_check_basic|]. intros s a s' H.
    apply check_basic_ok in H as (_ & H & ->). split; [reflexivity|exact H].
  Qed.
  Lemma safe_arg A k : (strict -> (k < alen A)%N) -> safe (arg A k) (fun x => nth_error A (N.to_nat k) = Some x).
  Proof.
    intros Hk. apply safe_of; [intros; apply nopanic_arg; auto|].
    intros s a s' Hs H. apply arg_ok in H as (H & _ & ->). auto.
  Qed.
  Lemma safe_args_from A k : (strict -> (k <= alen A)%N) -> safe (args_from A k) (fun _ => True).
  Proof.
    intros Hk. apply safe_of; [intros; apply nopanic_args_from; auto|].
    intros s a s' Hs H. apply args_from_ok in H as (_ & _ & ->). auto.
  Qed.
  Lemma safe_val_of t : (strict -> t_value t <> None) -> safe (val_of t) (fun v => t_value t = Some v).
  Proof.
    intros Hv. apply safe_of; [intros; apply nopanic_val_of; auto|].
    intros s a s' Hs H. apply val_of_ok in H as (H & ->). auto.
  Qed.
  Lemma safe_meta_of t : (strict -> t_meta t <> None) -> safe (meta_of t) (fun m => t_meta t = Some m).
  Proof.
    intros Hv. apply safe_of; [intros; apply nopanic_meta_of; auto|].
    intros s a s' Hs H. apply meta_of_ok in H as (H & ->). auto.
  Qed.
  Lemma safe_alloc n : (strict -> (n <= 1099511627776)%N) -> safe (alloc n) (fun _ => True).
  Proof.
    intros Hn. apply safe_of; [intros; apply nopanic_alloc; auto|].
    intros s a s' Hs H. apply alloc_ok in H as (_ & H & _). split; [eapply StoreOK_accts; eauto|exact I].
  Qed.
  Lemma safe_dep : safe (dep E) (fun _ => True).
  Proof. apply safe_rdonly; [apply panicfree_dep|]. intros s a s' H. apply dep_rd in H. split; [apply (rd_accts E _ _ H)|exact I]. Qed.
  Lemma safe_load_account a : safe (load_account E a) (fun _ => True). Proof. apply safe_dep. Qed.
  Lemma safe_save_account a : safe (save_account E a) (fun _ => True). Proof. apply safe_dep. Qed.
  Lemma safe_marshal_tok t : safe (marshal_tok E t) (fun b => b = enc_tok (cdc E) t).
  Proof.
    apply safe_rdonly; [apply panicfree_marshal_tok|]. intros s a s' H.
    apply marshal_tok_ok in H as (-> & H). split; [apply (rd_accts E _ _ H)|reflexivity].
  Qed.
  Lemma safe_unmarshal_tok b : safe (unmarshal_tok E b) (fun t => dec_tok (cdc E) b = Some t /\ wf_token t).
  Proof.
    apply safe_rdonly; [apply panicfree_unmarshal_tok|]. intros s a s' H.
    apply unmarshal_tok_ok in H as (Hd & H). split; [apply (rd_accts E _ _ H)|].
    split; [exact Hd|]. eapply dec_tok_wf; eauto.
  Qed.
  Lemma safe_get_acct a : safe (get_acct a) (fun _ => True).
  Proof. apply safe_rdonly; [apply panicfree_get_acct|]. intros s x s' H. apply get_acct_ok in H as (_ & ->). auto. Qed.
  Lemma safe_retrieve a k : safe (retrieve a k) (fun _ => True).
  Proof. apply safe_rdonly; [apply panicfree_retrieve|]. intros s x s' H. apply retrieve_ok in H as (_ & ->). auto. Qed.
  Lemma safe_upd_acct a f : (forall x, a_store (f x) = a_store x) -> safe (upd_acct a f) (fun _ => True).
  Proof.
    intros Hf. apply safe_of; [intros; apply panicfree_upd_acct|].
    intros s u s' Hs H. split; [|exact I]. intros a' x t Ht. apply (Hs a' x t).
    unfold tok_at, cell in *. rewrite (upd_acct_acct _ _ _ _ _ a' H) in Ht.
    destruct (beqb_spec a' a) as [->|Hne]; [rewrite Hf in Ht|]; exact Ht.
  Qed.
  Lemma safe_save_kv a k v : goodw k v -> safe (save_kv E a k v) (fun _ => True).
  Proof.
    intros Hg. apply safe_of; [intros; apply panicfree_save_kv|].
    intros s u s' Hs H. apply save_kv_ok in H. split; [eapply StoreOK_wr; eauto|exact I].
  Qed.

  (* ---------------- helpers: read-only ---------------- *)
  Lemma safe_check_allowed snd a tok role : safe (check_allowed E snd a tok role) (fun _ => snd = true).
  Proof.
    apply safe_rdonly; [apply panicfree_check_allowed|]. intros s u s' H.
    apply check_allowed_ok in H as (Hs & _ & H). split; [apply (rd_accts E _ _ H)|exact Hs].
  Qed.
  Lemma safe_check_payable v a : safe (check_payable E v a) (fun _ => True).
  Proof.
    apply safe_rdonly; [apply panicfree_check_payable|]. intros s u s' H.
    apply check_payable_ok in H as (H & _). split; [apply (rd_accts E _ _ H)|exact I].
  Qed.
  Lemma safe_get_latest_nonce a tok : safe (get_latest_nonce a tok) (fun _ => True).
  Proof.
    apply safe_rdonly; [apply panicfree_get_latest_nonce|]. intros s u s' H.
    apply get_latest_nonce_ok in H as (_ & ->). auto.
  Qed.
  Lemma safe_get_roles a k : safe (get_roles E a k) (fun _ => True).
  Proof.
    apply safe_rdonly; [apply panicfree_get_roles|]. intros s [r b] s' H.
    apply get_roles_ok in H as (H & _). split; [apply (rd_accts E _ _ H)|exact I].
  Qed.
  Lemma safe_get_esdt_data a x :
    safe (get_esdt_data E a (P ++ x)) (fun t => wf_token t /\ t_value t <> None).
  Proof.
    apply safe_of; [intros; apply panicfree_get_esdt_data|]. intros s t s' Hs H.
    apply (get_esdt_data_ok E Hc) in H as (Hr & Ht & Hw). split; [eapply StoreOK_rd; eauto|]. split; [exact Hw|].
    apply tod_cases in Ht as [(_ & -> & _)|(_ & Ht)]; [discriminate|]. eapply Hs; eauto.
  Qed.
  Lemma safe_get_nft_on_sender a x n :
    safe (get_nft_on_sender E a (P ++ x) n)
         (fun t => wf_token t /\ t_value t <> None /\ ((0 < n)%N -> t_meta t <> None) /\ (n = 0%N -> t_meta t = None)).
  Proof.
    apply safe_of; [intros; apply panicfree_get_nft_on_sender|]. intros s t s' Hs H.
    apply (get_nft_on_sender_ok E Hc) in H as (Hr & Hw & Ht & Hm & Hm0).
    split; [eapply StoreOK_rd; eauto|]. split; [exact Hw|]. split; [|split; [|exact Hm0]].
    - rewrite nft_key_app in Ht. eapply Hs; eauto.
    - intros Hn. destruct (Hm Hn) as (m & ->). discriminate.
  Qed.

  (* ---------------- helpers: writers ---------------- *)
  Lemma safe_save_roles a tok r : safe (save_roles E a (RP ++ tok) r) (fun _ => True).
  Proof.
    apply safe_of; [intros; apply panicfree_save_roles|]. intros s u s' Hs H.
    apply save_roles_ok in H. split; [eapply StoreOK_wr; eauto; apply goodw_RP|exact I].
  Qed.
  Lemma safe_save_latest_nonce a tok n : safe (save_latest_nonce E a tok n) (fun _ => True).
  Proof.
    apply safe_of; [intros; apply panicfree_save_latest_nonce|]. intros s u s' Hs H.
    apply save_latest_nonce_ok in H as (H & _). split; [eapply StoreOK_wr; eauto; apply goodw_NP|exact I].
  Qed.
  Lemma safe_save_esdt_data a t x :
    wf_token t -> (strict -> t_value t <> None) -> safe (save_esdt_data E a t (P ++ x)) (fun _ => True).
  Proof.
    intros Hw Hv. apply safe_of; [intros; apply nopanic_save_esdt_data; auto|]. intros s u s' Hs H.
    apply save_esdt_data_ok in H as (v & Hv' & H). split; [|exact I].
    eapply StoreOK_wr; eauto. apply goodw_if; [auto|congruence].
  Qed.
  Lemma safe_add_to_esdt_balance a x d rae : safe (add_to_esdt_balance E a (P ++ x) d rae) (fun _ => True).
  Proof.
    apply safe_of.
    - intros s Hs _. apply (nopanic_add_to_esdt_balance E Hc). intros t Ht. eapply Hs; eauto.
    - intros s u s' Hs H. apply (add_to_esdt_balance_inv E Hc) in H as (t & v & _ & Hw & _ & _ & _ & _ & H).
      split; [|exact I]. eapply StoreOK_wr; eauto. apply goodw_if; [apply wf_set_value; exact Hw|discriminate].
  Qed.
  Lemma safe_save_nft a x t rae :
    wf_token t -> (strict -> t_value t <> None) -> safe (save_nft E a (P ++ x) t rae) (fun _ => True).
  Proof.
    intros Hw Hv. apply safe_of; [intros; apply nopanic_save_nft; auto|]. intros s u s' Hs H.
    apply save_nft_ok in H as (v & Hv' & -> & H & _). split; [|exact I].
    eapply StoreOK_wr; eauto. apply goodw_if; [auto|congruence].
  Qed.
  (* no premise on the incoming token's metadata: since the F11 repair a metadata-less incoming token meeting a
     stored entry with metadata is rejected (EWrongNFTOnDestination), not dereferenced *)
  Lemma safe_add_nft_to_destination dst x t verify rae :
    wf_token t -> (strict -> t_value t <> None) ->
    safe (add_nft_to_destination E dst (P ++ x) t verify rae) (fun t' => exists v, t' = set_value t (Some v)).
  Proof.
    intros Hw Hv. apply safe_of.
    - intros s Hs Hst. apply (nopanic_add_nft_to_destination' E Hc); [auto|].
      intros c Hcur. rewrite nft_key_app in Hcur. eapply Hs; eauto.
    - intros s t' s' Hs H.
      apply (add_nft_to_destination_ok E Hc) in H as (cur & v & cv & _ & _ & _ & _ & -> & _ & _ & _ & H).
      split; [|eauto]. eapply StoreOK_wr; eauto. apply goodw_if; [apply wf_set_value; exact Hw|discriminate].
  Qed.

  (* well-formedness of the tokens the functions build *)
  Lemma wf_set_meta_uris t m u : wf_token t -> t_meta t = Some m -> wf_token (set_meta t (Some (set_uris m u))).
  Proof. unfold wf_token. intros [H1 H2] Hm. rewrite Hm in H2. split; [exact H1|exact H2]. Qed.
  Lemma wf_set_meta_attributes t m a : wf_token t -> t_meta t = Some m -> wf_token (set_meta t (Some (set_attributes m a))).
  Proof. unfold wf_token. intros [H1 H2] Hm. rewrite Hm in H2. split; [exact H1|exact H2]. Qed.
End Safe.

(* ---------------- the tactic ---------------- *)
(* side conditions: index bounds from the guards collected in the context; conditions guarded by the
   strictness flag are introduced, and the input hypotheses [st = true -> ...] specialised *)
Ltac safe_side0 :=
  cbv beta in *;
  repeat match goal with
         | H : ?st = true -> _, Hst : ?st = true |- _ => specialize (H Hst)
         | H : _ /\ _ |- _ => destruct H
         end;
  cbn [t_value t_meta t_type set_value set_props set_meta] in *;
  unfold nft_min, apt, C.MinLenArgumentsESDTNFTTransfer, C.MinLenArgumentsESDTTransfer, C.bif_argumentsPerTransfer in *;
  first [ assumption | discriminate | lia | tauto | congruence
        | match goal with H : _ -> ?g |- ?g => apply H; first [assumption|lia] end ].
Ltac safe_side :=
  lazymatch goal with
  | |- false = true -> _ => discriminate
  | |- _ = true -> _ => let Hst := fresh "Hst" in intros Hst; safe_side0
  | _ => safe_side0
  end.

Ltac wf_solve :=
  first
    [ assumption
    | apply wf_set_value; wf_solve
    | apply wf_set_props; wf_solve
    | match goal with
      | |- wf_token (set_meta _ (Some (set_uris _ _))) => eapply wf_set_meta_uris; [wf_solve|eassumption]
      | |- wf_token (set_meta _ (Some (set_attributes _ _))) => eapply wf_set_meta_attributes; [wf_solve|eassumption]
      end ].

Create HintDb safe discriminated.

Ltac safe_leaf E Hc :=
  first
    [ apply (safe_guard E)
    | apply (safe_ret_eq E)
    | apply (safe_fail E)
    | apply (safe_lift_opt E)
    | apply (safe_check_basic E)
    | apply (safe_arg E); safe_side
    | apply (safe_args_from E); safe_side
    | apply (safe_dep E)
    | apply (safe_load_account E)
    | apply (safe_save_account E)
    | apply (safe_marshal_tok E)
    | apply (safe_unmarshal_tok E Hc)
    | apply (safe_get_acct E)
    | apply (safe_retrieve E)
    | apply (safe_check_allowed E)
    | apply (safe_check_payable E)
    | apply (safe_get_latest_nonce E)
    | apply (safe_get_roles E)
    | apply (safe_get_esdt_data E Hc)
    | apply (safe_get_nft_on_sender E Hc)
    | apply (safe_save_roles E)
    | apply (safe_save_latest_nonce E)
    | apply (safe_add_to_esdt_balance E Hc)
    | apply (safe_val_of E); safe_side
    | apply (safe_meta_of E); safe_side
    | apply (safe_save_nft E Hc); [wf_solve|safe_side]
    | apply (safe_save_esdt_data E Hc); [wf_solve|safe_side]
    | apply (safe_add_nft_to_destination E Hc); [wf_solve|safe_side]
    | apply (safe_save_kv E); first [apply goodw_nil | assumption]
    | apply (safe_upd_acct E); reflexivity
    | solve [eauto with safe] ].

Ltac safe_intro :=
  let a := fresh "a" in let H := fresh "Hq" in
  intros a H; cbv beta in H;
  repeat match goal with H : _ /\ _ |- _ => destruct H end.

(* one step on a goal [safe E st m Q]; [safe_step0] leaves [bind (if ..) _] to the user, [safe_ifT] treats it
   with the trivial intermediate postcondition *)
Ltac safe_step0 E Hc :=
  cbv beta iota zeta;
  lazymatch goal with
  | |- safe _ _ (bind (if _ then _ else _) _) _ => fail
  | |- safe _ _ (bind _ _) _ =>
      eapply (safe_bind E); [safe_leaf E Hc|safe_intro]
  | |- safe _ _ (ret _) _ => apply (safe_ret E); cbv beta; try exact I
  | |- safe _ _ (fail _) _ => apply (safe_fail E)
  | |- safe _ _ panic _ => apply (safe_panic E); let Hst := fresh "Hst" in intros Hst; exfalso; safe_side0
  | |- safe _ _ (if ?b then _ else _) _ => destruct b eqn:?
  | |- safe _ _ (match ?x with _ => _ end) _ => destruct x
  | |- safe _ _ _ (fun _ => True) => eapply (safe_true E); safe_leaf E Hc
  | |- safe _ _ _ _ => eapply (safe_weaken E); [safe_leaf E Hc|intros ? ?; cbv beta in *]
  end.
Ltac safe_ifT E :=
  cbv beta iota zeta;
  lazymatch goal with
  | |- safe _ _ (bind (if ?b then _ else _) _) _ =>
      eapply (safe_bind E) with (Q := fun _ => True); [destruct b eqn:?|intros ? _]
  end.
Ltac safe_step E Hc := first [safe_step0 E Hc | safe_ifT E].
Ltac safe_tac0 E Hc := repeat (safe_step0 E Hc).
Ltac safe_tac E Hc := repeat (safe_step E Hc).

(* the final [ret output]: the return code *)
Ltac rc_ok :=
  repeat match goal with |- context [if ?b then _ else _] => destruct b end; reflexivity.
