(* C01, part 2: one world step conserves the total of every storage-level key and preserves the world
   invariant; by induction, every history of transfer operations does (conservation_histories).
   Per function and side: dest_side_{esdt,nft,multi} (delivery and refund), origin_side_{esdt,nft,multi}. *)
From Coq.Strings Require Import String.
From EV Require Import Base.Bytes Base.Store Base.Monad gen.Consts Codec.Types Helpers.Helpers
  Parsers.Tokenize Parsers.CallArgs
  Ledger.Types Ledger.Env Ledger.Funcs Ledger.Transfers Ledger.World
  LedgerProofs.Defs LedgerProofs.EnvSpec LedgerProofs.WorldDefs LedgerProofs.WorldSpec
  LedgerProofs.Spec_Transfers_Base LedgerProofs.Spec_Transfers_Esdt LedgerProofs.Spec_Transfers_Nft
  LedgerProofs.Spec_Transfers_Multi LedgerProofs.Spec_Transfers LedgerProofs.C01_World.

Lemma qty_list_nonneg k l : Forall (fun kv => (0 <= snd kv)%Z) l -> (0 <= qty_list k l)%Z.
Proof.
  induction 1 as [|x r Hx Hr IH]; [cbn; lia|].
  change (qty_list k (x :: r)) with ((if beqb (fst x) k then snd x else 0) + qty_list k r)%Z.
  destruct (beqb (fst x) k); lia.
Qed.
Lemma cell_dec (trs : list rawtriple) k :
  (exists x, In x trs /\ rt_cell x = k) \/ (forall y, In y trs -> rt_cell y <> k).
Proof.
  induction trs as [|x r IH]; [right; intros y []|].
  destruct (beqb_spec (rt_cell x) k) as [He|Hne]; [left; exists x; split; [left; reflexivity|exact He]|].
  destruct IH as [(y & Hy & Hk)|IH]; [left; exists y; split; [right; exact Hy|exact Hk]|].
  right. intros y [<-|Hy]; [exact Hne|apply IH; exact Hy].
Qed.
Lemma travels_esdt : travels C.BuiltInFunctionESDTTransfer = true. Proof. vm_compute. reflexivity. Qed.
Lemma travels_nft : travels C.BuiltInFunctionESDTNFTTransfer = false. Proof. vm_compute. reflexivity. Qed.
Lemma travels_multi : travels C.BuiltInFunctionMultiESDTNFTTransfer = false. Proof. vm_compute. reflexivity. Qed.
Lemma is_transfer_esdt : is_transfer_fn C.BuiltInFunctionESDTTransfer = true. Proof. vm_compute. reflexivity. Qed.
Lemma is_transfer_nft : is_transfer_fn C.BuiltInFunctionESDTNFTTransfer = true. Proof. vm_compute. reflexivity. Qed.
Lemma is_transfer_multi : is_transfer_fn C.BuiltInFunctionMultiESDTNFTTransfer = true. Proof. vm_compute. reflexivity. Qed.
Lemma fn_esdt_ne_multi : C.BuiltInFunctionESDTTransfer <> C.BuiltInFunctionMultiESDTNFTTransfer. Proof. discriminate. Qed.
Lemma fn_nft_ne_multi : C.BuiltInFunctionESDTNFTTransfer <> C.BuiltInFunctionMultiESDTNFTTransfer. Proof. discriminate. Qed.

Lemma debit_list_nonneg trs : Forall (fun kv => (0 <= snd kv)%Z) (debit_list trs).
Proof.
  induction trs as [|x r IH]; [constructor|]. cbn [debit_list map]. constructor; [|exact IH].
  cbn [snd]. apply bigZ_nonneg.
Qed.

Section Step.
  Variable c : wcfg.
  Hypothesis Hc : codec_ok (wc_cdc c).
  Notation shof := (wc_shard_of c).

  Definition st_nonneg (sh : N) (s : mstate) : Prop := forall a k, (0 <= balance (env_at c sh) s a k)%Z.
  Lemma st_nonneg_accts sh s : st_nonneg sh s <-> accts_nonneg c (accts s).
  Proof.
    unfold st_nonneg, accts_nonneg.
    split; intros H a k; specialize (H a k).
    - rewrite (acct_balance_acct_bal (env_at c sh) c eq_refl). exact H.
    - rewrite (acct_balance_acct_bal (env_at c sh) c eq_refl) in H. exact H.
  Qed.
  Lemma shard_total_E sh k m : shard_total c k m = asum (acct_bal (env_at c sh) k) m.
  Proof. apply (shard_total_asum (env_at c sh) c eq_refl). Qed.
  Lemma inflight_total_one k m : inflight_total c k [m] = qty c k m.
  Proof. cbn [inflight_total fold_right]. lia. Qed.

  (* what a destination-side execution (delivery or refund of message m) does to its shard *)
  Definition dest_ok (m0 : amap account) (m : msg) (i : input) (o : output) (s' : mstate) : Prop :=
    NoDup (map fst (accts s')) /\ accts_nonneg c (accts s')
    /\ (forall k, shard_total c k (accts s') = (shard_total c k m0 + qty c k m)%Z)
    /\ (forall oa, In oa (o_accounts o) -> oc_addr oa = i_rcpt i).
  (* what an origin-side execution does to its shard and to the set of in-flight messages *)
  Definition origin_ok (sh : N) (m0 : amap account) (fn : bytes) (i : input) (id : nat) (o : output) (s' : mstate) : Prop :=
    NoDup (map fst (accts s')) /\ accts_nonneg c (accts s')
    /\ Forall (msg_ok c) (collect c sh fn i id o)
    /\ (forall k, (shard_total c k (accts s') + inflight_total c k (collect c sh fn i id o))%Z = shard_total c k m0).

  (* ================================================================ *)
  (* ESDTTransfer                                                       *)
  (* ================================================================ *)
  Lemma dest_side_esdt sh m0 m i o s' :
    NoDup (map fst m0) -> accts_nonneg c m0 ->
    m_fn m = C.BuiltInFunctionESDTTransfer -> i_args i = m_args m -> i_snd i = false -> i_dst i = true ->
    f_esdt_transfer (env_at c sh) i (mk_state m0) = (Ok o, s') -> dest_ok m0 m i o s'.
  Proof.
    intros Hnd Hnn Hfn Hargs Hsnd Hdst H.
    pose proof (esdt_transfer_spec (env_at c sh) Hc _ _ _ _ H) as Hp.
    pose proof (emitted_message_carries_debit_esdt c m i Hfn (eq_sym Hargs) (ep_nargs _ _ _ _ _ Hp)) as Hcr.
    pose proof (ep_pos _ _ _ _ _ Hp) as Hpos.
    split; [|split; [|split]].
    - apply (transfer_shard_total_esdt (env_at c sh) Hc _ _ _ _ [] H Hnd).
    - apply (st_nonneg_accts sh). intros a k. rewrite (ep_balance _ _ _ _ _ Hp). unfold esdt_delta. rewrite Hsnd. cbn [andb].
      pose proof (proj2 (st_nonneg_accts sh (mk_state m0)) Hnn a k) as H0.
      destruct (i_dst i && beqb a (i_rcpt i) && beqb k (esdt_key i))%bool; lia.
    - intros k. destruct (transfer_shard_total_esdt (env_at c sh) Hc _ _ _ _ k H Hnd) as [_ Hs].
      rewrite !(shard_total_E sh). cbn [accts mk_state] in Hs. rewrite Hs. unfold esdt_net, qty.
      rewrite Hcr, qty_list_single, Hsnd, Hdst. cbn [andb]. lia.
    - intros oa Hin. rewrite (esdt_out_accounts (env_at c sh) Hc _ _ _ _ H), Hdst in Hin.
      destruct (esdt_call_after i); [|contradiction]. destruct Hin as [<-|[]]. reflexivity.
  Qed.

  Lemma origin_side_esdt sh m0 i id o s' :
    NoDup (map fst m0) -> accts_nonneg c m0 -> origin_call c sh i ->
    f_esdt_transfer (env_at c sh) i (mk_state m0) = (Ok o, s') ->
    origin_ok sh m0 C.BuiltInFunctionESDTTransfer i id o s'.
  Proof.
    intros Hnd Hnn (Hcal & Hsnd & Hdst) H. rewrite Hcal, N.eqb_refl in Hsnd.
    pose proof (esdt_transfer_spec (env_at c sh) Hc _ _ _ _ H) as Hp.
    pose proof (ep_pos _ _ _ _ _ Hp) as Hpos.
    pose proof (ep_snd_funds _ _ _ _ _ Hp Hsnd) as Hfunds.
    pose proof (esdt_out_accounts (env_at c sh) Hc _ _ _ _ H) as Hout.
    assert (Hnn' : accts_nonneg c (accts s')).
    { apply (st_nonneg_accts sh). intros a k. rewrite (ep_balance _ _ _ _ _ Hp). unfold esdt_delta. rewrite Hsnd. cbn [andb].
      pose proof (proj2 (st_nonneg_accts sh (mk_state m0)) Hnn a k) as H0.
      destruct (beqb_spec a (i_caller i)) as [->|Ha]; cbn [andb].
      - destruct (beqb_spec k (esdt_key i)) as [->|Hk]; cbn [andb].
        + destruct (i_dst i && beqb (i_caller i) (i_rcpt i) && true)%bool; lia.
        + rewrite andb_false_r. lia.
      - destruct (i_dst i && beqb a (i_rcpt i) && beqb k (esdt_key i))%bool; lia. }
    assert (Hsum : forall k, shard_total c k (accts s') = (shard_total c k m0 + esdt_net i k)%Z).
    { intros k. destruct (transfer_shard_total_esdt (env_at c sh) Hc _ _ _ _ k H Hnd) as [_ Hs].
      rewrite !(shard_total_E sh). exact Hs. }
    split; [apply (transfer_shard_total_esdt (env_at c sh) Hc _ _ _ _ [] H Hnd)|]. split; [exact Hnn'|].
    destruct (i_dst i) eqn:Ed.
    - (* same shard: net 0, nothing emitted *)
      symmetry in Hdst. apply N.eqb_eq in Hdst.
      assert (Hcol : collect c sh C.BuiltInFunctionESDTTransfer i id o = []).
      { apply collect_all_local; [|left; exact Hdst]. intros oa Hin. rewrite Hout in Hin.
        destruct (esdt_call_after i); [|contradiction]. destruct Hin as [<-|[]]. exact Hdst. }
      rewrite Hcol. split; [constructor|]. intros k. rewrite Hsum. unfold esdt_net. rewrite Hsnd, Ed. cbn [andb inflight_total fold_right].
      destruct (beqb k (esdt_key i)); lia.
    - (* cross shard: the call itself (user caller) or its re-encoding (contract caller) travels *)
      symmetry in Hdst. apply N.eqb_neq in Hdst.
      assert (Hmsg : exists m, collect c sh C.BuiltInFunctionESDTTransfer i id o = [m]
                 /\ m_fn m = C.BuiltInFunctionESDTTransfer /\ m_args m = i_args i
                 /\ m_caller m = i_caller i /\ m_dest m = i_rcpt i /\ m_sender m = i_caller i).
      { destruct (is_sc (i_caller i)) eqn:Esc.
        - eexists. split; [eapply collect_one_cross; [exact Hout|reflexivity|apply emittable_esdt|exact Hdst|exact Hcal]|].
          cbn. repeat split; reflexivity.
        - eexists. split.
          + rewrite (collect_none c _ _ _ _ _ Hout).
            apply N.eqb_neq in Hdst. rewrite Hdst. rewrite Hcal, N.eqb_refl, travels_esdt.
            pose proof (ep_not_meta _ _ _ _ _ Hp) as Hm. apply N.eqb_neq in Hm. cbn [shard_of env_at] in Hm. rewrite Hm.
            cbn [negb andb]. reflexivity.
          + cbn. repeat split; reflexivity. }
      destruct Hmsg as (m & Hcol & Hfn & Hargs & Hmc & Hmd & Hms). rewrite Hcol.
      pose proof (emitted_message_carries_debit_esdt c m i Hfn Hargs (ep_nargs _ _ _ _ _ Hp)) as Hcr.
      split.
      + constructor; [|constructor]. constructor.
        * rewrite Hfn. apply is_transfer_esdt.
        * rewrite Hmc, Hmd, Hcal. congruence.
        * rewrite Hms, Hmd, Hcal. congruence.
        * rewrite Hcr. constructor; [cbn [snd]; lia|constructor].
        * rewrite Hfn. intros Hx. exfalso. exact (fn_esdt_ne_multi Hx).
      + intros k. rewrite Hsum, inflight_total_one. unfold esdt_net, qty. rewrite Hcr, qty_list_single, Hsnd, Ed. cbn [andb].
        destruct (beqb k (esdt_key i)); lia.
  Qed.

  (* ================================================================ *)
  (* ESDTNFTTransfer                                                    *)
  (* ================================================================ *)
  Lemma dest_side_nft sh m0 m i o s' :
    NoDup (map fst m0) -> accts_nonneg c m0 -> Forall (fun kv => (0 <= snd kv)%Z) (credits c m) ->
    m_fn m = C.BuiltInFunctionESDTNFTTransfer -> i_args i = m_args m -> i_caller i <> i_rcpt i ->
    f_nft_transfer (env_at c sh) i (mk_state m0) = (Ok o, s') -> dest_ok m0 m i o s'.
  Proof.
    intros Hnd Hnn Hcn Hfn Hargs Hne H.
    destruct (nft_dest_post (env_at c sh) Hc _ _ _ _ H Hne) as (t & Hp).
    destruct (nft_transfer_spec (env_at c sh) Hc _ _ _ _ H) as (_ & Hlen & _).
    pose proof (nd_dec _ _ _ _ _ _ Hp) as Hdec. pose proof (nd_value _ _ _ _ _ _ Hp) as Hv.
    assert (Hcr : credits c m = [(nft_full i t, val_or_0 t)]).
    { unfold credits. rewrite Hfn, fn_nft_ne_esdt, beqb_refl, <- Hargs.
      unfold argn in Hdec. unfold nft_full, nft_tkey, argn. unfold alen in Hlen.
      destruct (i_args i) as [|a0 [|a1 [|a2 [|a3 r]]]]; cbn [length] in Hlen; try lia.
      cbn [nth] in *. unfold nft_credit. cbn [cdc env_at] in Hdec. rewrite Hdec, Hv. reflexivity. }
    rewrite Hcr in Hcn. inversion Hcn as [|kv l Hv0 _]; subst. cbn [snd] in Hv0.
    pose proof (proj2 (st_nonneg_accts sh (mk_state m0)) Hnn) as Hnn0.
    assert (Hge : (0 <= val_or_0 t + balance (env_at c sh) (mk_state m0) (i_rcpt i) (nft_full i t))%Z).
    { specialize (Hnn0 (i_rcpt i) (nft_full i t)). lia. }
    split; [|split; [|split]].
    - destruct (transfer_shard_total_nft_dest (env_at c sh) Hc _ _ _ _ [] H Hne Hnd) as (t' & Hd' & _ & _ & Hs).
      assert (t' = t) by congruence. subst t'. apply (Hs Hge).
    - apply (st_nonneg_accts sh). intros a k.
      destruct (transfer_balance_effect_nft_dest (env_at c sh) Hc _ _ _ _ H Hne) as (t' & Hd' & _ & Hb).
      assert (t' = t) by congruence. subst t'. rewrite (Hb Hge). specialize (Hnn0 a k).
      destruct (beqb a (i_rcpt i) && beqb k (nft_full i t))%bool; lia.
    - intros k. destruct (transfer_shard_total_nft_dest (env_at c sh) Hc _ _ _ _ k H Hne Hnd) as (t' & Hd' & _ & _ & Hs).
      assert (t' = t) by congruence. subst t'. destruct (Hs Hge) as [_ Hsum].
      rewrite !(shard_total_E sh). cbn [accts mk_state] in Hsum. rewrite Hsum. unfold qty. rewrite Hcr, qty_list_single. reflexivity.
    - intros oa Hin. rewrite (nd_out _ _ _ _ _ _ Hp) in Hin. unfold nft_dest_out in Hin. cbv zeta in Hin.
      destruct (nft_call_after i (i_rcpt i)); cbn in Hin; [|contradiction]. destruct Hin as [<-|[]]. reflexivity.
  Qed.

  Lemma origin_side_nft sh m0 i id o s' :
    NoDup (map fst m0) -> accts_nonneg c m0 -> origin_call c sh i ->
    lookup_consistent (env_at c sh) (mk_state m0) (i_caller i) (nft_tkey i) (nft_nonce i) ->
    f_nft_transfer (env_at c sh) i (mk_state m0) = (Ok o, s') ->
    origin_ok sh m0 C.BuiltInFunctionESDTNFTTransfer i id o s'.
  Proof.
    intros Hnd Hnn (Hcal & Hsnd & Hdst) Hlc H. rewrite Hcal, N.eqb_refl in Hsnd.
    assert (Heq : i_caller i = i_rcpt i).
    { pose proof (nft_transfer_needs_sender (env_at c sh) Hc _ _ _ _ H) as Hx.
      destruct (beqb_spec (i_caller i) (i_rcpt i)) as [He|_]; [exact He|]. destruct Hx; congruence. }
    pose proof (proj2 (st_nonneg_accts sh (mk_state m0)) Hnn) as Hnn0.
    assert (Hnnd : nft_same (env_at c sh) i = true -> (0 <= balance (env_at c sh) (mk_state m0) (nft_dst i) (nft_cell i))%Z)
      by (intros _; apply Hnn0).
    pose proof (transfer_balance_effect_nft_sender (env_at c sh) Hc _ _ _ _ H Heq Hlc Hnnd) as Hb.
    destruct (nft_sender_post (env_at c sh) Hc _ _ _ _ H Heq) as (t0 & Hp).
    pose proof (ns_dst_ne _ _ _ _ _ _ Hp) as Hdne.
    assert (Hfunds : (nft_qty i <= balance (env_at c sh) (mk_state m0) (i_caller i) (nft_cell i))%Z).
    { destruct (Z.lt_ge_cases (balance (env_at c sh) (mk_state m0) (i_caller i) (nft_cell i)) (nft_qty i)) as [Hlt|Hge]; [|lia].
      exfalso. exact (transfer_overdraft_fails_nft (env_at c sh) Hc _ _ _ _ Heq Hlt H). }
    pose proof (bigZ_nonneg (argn i 2)) as Hq. fold (nft_qty i) in Hq.
    assert (Hsum : forall k, shard_total c k (accts s') =
              (shard_total c k m0 + (if beqb k (nft_cell i) then (if nft_same (env_at c sh) i then 0 else - nft_qty i) else 0))%Z).
    { intros k. destruct (transfer_shard_total_nft_sender (env_at c sh) Hc _ _ _ _ k H Heq Hlc Hnnd Hnd) as [_ Hs].
      rewrite !(shard_total_E sh). exact Hs. }
    split; [apply (transfer_shard_total_nft_sender (env_at c sh) Hc _ _ _ _ [] H Heq Hlc Hnnd Hnd)|].
    split.
    { apply (st_nonneg_accts sh). intros a k. rewrite Hb. unfold nft_snd_delta. specialize (Hnn0 a k).
      destruct (beqb_spec a (i_caller i)) as [->|Ha]; cbn [andb].
      - rewrite (beqb_false (i_caller i) (nft_dst i)) by congruence. rewrite andb_false_r. cbn [andb].
        destruct (beqb_spec k (nft_cell i)) as [->|Hk]; lia.
      - destruct (nft_same (env_at c sh) i && beqb a (nft_dst i) && beqb k (nft_cell i))%bool; lia. }
    destruct (nft_same (env_at c sh) i) eqn:Esame.
    - (* destination on the same shard *)
      assert (Hloc : shof (nft_dst i) = sh).
      { pose proof Esame as Es. unfold nft_same in Es. cbn [self_shard shard_of env_at] in Es. apply N.eqb_eq in Es. symmetry. exact Es. }
      assert (Hcol : collect c sh C.BuiltInFunctionESDTNFTTransfer i id o = []).
      { apply collect_all_local; [|right; exact travels_nft]. intros oa Hin.
        rewrite (ns_out _ _ _ _ _ _ Hp) in Hin. unfold nft_sender_out in Hin. cbv zeta in Hin. rewrite Esame in Hin. cbn [negb] in Hin.
        destruct (nft_call_after i (nft_dst i)); cbn in Hin; [|contradiction]. destruct Hin as [<-|[]]. exact Hloc. }
      rewrite Hcol. split; [constructor|]. intros k. rewrite Hsum. cbn [inflight_total fold_right].
      destruct (beqb k (nft_cell i)); lia.
    - (* destination on another shard: one message carrying the debited entry with Value = quantity *)
      assert (Hrem : shof (nft_dst i) <> sh).
      { pose proof Esame as Es. unfold nft_same in Es. cbn [self_shard shard_of env_at] in Es. apply N.eqb_neq in Es. unfold nft_dst. congruence. }
      destruct (nft_out_accounts_cross (env_at c sh) Hc _ _ _ _ H Heq Esame) as (t & Ht & Hwf & _ & Hout). cbv zeta in Hout.
      pose proof (collect_one_cross c sh C.BuiltInFunctionESDTNFTTransfer i id o _ _ _ _ Hout eq_refl emittable_nft Hrem Hcal) as Hcol.
      cbn [tr_sender tr_callType tr_gasLimit tr_gasLocked] in Hcol. rewrite Hcol.
      match goal with |- Forall _ [?m] /\ _ => set (msg0 := m) end.
      assert (Hcr : credits c msg0 = [(nft_cell i, nft_qty i)]).
      { rewrite (emitted_message_carries_debit_nft (env_at c sh) Hc c eq_refl msg0 (argn i 0) (argn i 1) (argn i 2) t (nft_qty i)
                   (skipn 4 (i_args i)) Hwf eq_refl eq_refl).
        unfold nft_cell, nft_tkey. rewrite (Hlc t Ht). reflexivity. }
      split.
      + constructor; [|constructor]. constructor.
        * apply is_transfer_nft.
        * cbn [m_caller m_dest msg0]. congruence.
        * cbn [m_sender m_dest msg0]. congruence.
        * rewrite Hcr. constructor; [cbn [snd]; lia|constructor].
        * cbn [m_fn msg0]. intros Hx. exfalso. exact (fn_nft_ne_multi Hx).
      + intros k. rewrite Hsum, inflight_total_one. unfold qty. rewrite Hcr, qty_list_single.
        destruct (beqb k (nft_cell i)); lia.
  Qed.

  (* ================================================================ *)
  (* MultiESDTNFTTransfer                                               *)
  (* ================================================================ *)
  Lemma dest_side_multi sh m0 m i o s' :
    NoDup (map fst m0) -> accts_nonneg c m0 -> Forall (fun kv => (0 <= snd kv)%Z) (credits c m) ->
    m_fn m = C.BuiltInFunctionMultiESDTNFTTransfer -> (be_to_N (nth 0 (m_args m) []) < two64)%N ->
    i_args i = m_args m -> i_caller i <> i_rcpt i ->
    f_multi_transfer (env_at c sh) i (mk_state m0) = (Ok o, s') -> dest_ok m0 m i o s'.
  Proof.
    intros Hnd Hnn Hcn Hfn Hcount Hargs Hne H.
    assert (Hcr : credits c m = dst_credits (env_at c sh) (multi_dst_triples i)).
    { apply (delivered_message_credits_multi (env_at c sh) Hc c eq_refl m i _ _ _ H Hne Hfn (eq_sym Hargs)).
      unfold argn. rewrite Hargs. exact Hcount. }
    rewrite Hcr in Hcn.
    pose proof (proj2 (st_nonneg_accts sh (mk_state m0)) Hnn) as Hnn0.
    assert (Hnnr : nonneg_balances (env_at c sh) (mk_state m0) (i_rcpt i)) by (intros k; apply Hnn0).
    destruct (transfer_balance_effect_multi_dest (env_at c sh) Hc _ _ _ _ H Hne Hnnr Hcn) as [Hb Hnn'].
    split; [|split; [|split]].
    - apply (transfer_shard_total_multi_dest (env_at c sh) Hc _ _ _ _ [] H Hne Hnnr Hcn Hnd).
    - apply (st_nonneg_accts sh). intros a k. destruct (beqb_spec a (i_rcpt i)) as [->|Ha]; [apply Hnn'|].
      rewrite Hb, (beqb_false _ _ Ha). specialize (Hnn0 a k). lia.
    - intros k. destruct (transfer_shard_total_multi_dest (env_at c sh) Hc _ _ _ _ k H Hne Hnnr Hcn Hnd) as [_ Hsum].
      rewrite !(shard_total_E sh). cbn [accts mk_state] in Hsum. rewrite Hsum. unfold qty. rewrite Hcr. reflexivity.
    - intros oa Hin. pose proof (multi_dest_post (env_at c sh) Hc _ _ _ _ H Hne) as Hp.
      rewrite (mq_out _ _ _ _ _ Hp) in Hin. unfold multi_dest_out in Hin. cbv zeta in Hin.
      destruct ((multi_min 1 (multi_n_dst i) <? alen (i_args i))%N && is_sc (i_rcpt i))%bool; cbn in Hin; [|contradiction].
      destruct Hin as [<-|[]]. reflexivity.
  Qed.

  Lemma origin_side_multi sh m0 i id o s' :
    NoDup (map fst m0) -> accts_nonneg c m0 -> origin_call c sh i ->
    triples_consistent (env_at c sh) (mk_state m0) (i_caller i) (multi_snd_triples i) ->
    f_multi_transfer (env_at c sh) i (mk_state m0) = (Ok o, s') ->
    origin_ok sh m0 C.BuiltInFunctionMultiESDTNFTTransfer i id o s'.
  Proof.
    intros Hnd Hnn (Hcal & Hsnd & Hdst) Hcons H. rewrite Hcal, N.eqb_refl in Hsnd.
    assert (Heq : i_caller i = i_rcpt i).
    { pose proof (multi_transfer_needs_sender (env_at c sh) Hc _ _ _ _ H) as Hx.
      destruct (beqb_spec (i_caller i) (i_rcpt i)) as [He|_]; [exact He|]. destruct Hx; congruence. }
    pose proof (proj2 (st_nonneg_accts sh (mk_state m0)) Hnn) as Hnn0.
    assert (Hnnd : multi_same (env_at c sh) i = true -> nonneg_balances (env_at c sh) (mk_state m0) (multi_dst i))
      by (intros _ k; apply Hnn0).
    destruct (multi_sender_effects (env_at c sh) Hc _ _ _ _ H Heq Hcons Hnnd) as (lst & Hp & Hb & Hf & Hnd' & Hue & Hpos).
    pose proof (mp_dst_ne _ _ _ _ _ _ Hp) as Hdne.
    assert (Hsum : forall k, shard_total c k (accts s') =
              (shard_total c k m0 + (if multi_same (env_at c sh) i then 0 else - qty_list k (debit_list (multi_snd_triples i))))%Z).
    { intros k. destruct (transfer_shard_total_multi_sender (env_at c sh) Hc _ _ _ _ k H Heq Hcons Hnnd Hnd) as [_ Hs].
      rewrite !(shard_total_E sh). exact Hs. }
    split; [apply (transfer_shard_total_multi_sender (env_at c sh) Hc _ _ _ _ [] H Heq Hcons Hnnd Hnd)|].
    split.
    { apply (st_nonneg_accts sh). intros a k. destruct (beqb_spec a (i_caller i)) as [->|Ha].
      - destruct (cell_dec (multi_snd_triples i) k) as [(x & Hx & <-)|Hno]; [apply Hpos; exact Hx|].
        rewrite Hb, snd_delta_notin by exact Hno. specialize (Hnn0 (i_caller i) k). lia.
      - destruct (multi_same (env_at c sh) i) eqn:Es.
        + destruct (beqb_spec a (multi_dst i)) as [->|Hd]; [apply (Hnd' eq_refl)|].
          rewrite Hb, snd_delta_other; [|exact Ha|intros _; exact Hd]. specialize (Hnn0 a k). lia.
        + rewrite Hb, snd_delta_other; [|exact Ha|intros Hx; try rewrite Es in Hx; discriminate]. specialize (Hnn0 a k). lia. }
    destruct (multi_same (env_at c sh) i) eqn:Esame.
    - assert (Hloc : shof (multi_dst i) = sh).
      { pose proof Esame as Es. unfold multi_same in Es. cbn [self_shard shard_of env_at] in Es. apply N.eqb_eq in Es. symmetry. exact Es. }
      assert (Hcol : collect c sh C.BuiltInFunctionMultiESDTNFTTransfer i id o = []).
      { apply collect_all_local; [|right; exact travels_multi]. intros oa Hin.
        rewrite (mp_out _ _ _ _ _ _ Hp) in Hin. unfold multi_sender_out in Hin. cbv zeta in Hin. rewrite Esame in Hin. cbn [negb] in Hin.
        destruct ((multi_min 2 (multi_n_snd i) <? alen (i_args i))%N && is_sc (multi_dst i))%bool; cbn in Hin; [|contradiction].
        destruct Hin as [<-|[]]. exact Hloc. }
      rewrite Hcol. split; [constructor|]. intros k. rewrite Hsum. cbn [inflight_total fold_right]. lia.
    - assert (Hrem : shof (multi_dst i) <> sh).
      { pose proof Esame as Es. unfold multi_same in Es. cbn [self_shard shard_of env_at] in Es. apply N.eqb_neq in Es.
        unfold multi_dst. congruence. }
      pose proof (multi_out_accounts_cross (env_at c sh) _ _ _ _ _ Hp Esame) as Hout. cbv zeta in Hout.
      pose proof (collect_one_cross c sh C.BuiltInFunctionMultiESDTNFTTransfer i id o _ _ _ _ Hout eq_refl emittable_multi Hrem Hcal) as Hcol.
      cbn [tr_sender tr_callType tr_gasLimit tr_gasLocked] in Hcol. rewrite Hcol.
      match goal with |- Forall _ [?m] /\ _ => set (msg0 := m) end.
      destruct (travel_ok_credits _ _ Hf) as [Hmap Hgood].
      assert (Hcr : credits c msg0 = debit_list (multi_snd_triples i)).
      { rewrite <- Hmap.
        apply (emitted_message_credits_multi (env_at c sh) Hc c eq_refl msg0 (multi_n_snd i) lst
                 (skipn (N.to_nat (multi_min 2 (multi_n_snd i))) (i_args i))); [apply bigU64_lt| |exact Hgood|reflexivity|reflexivity].
        rewrite <- (forall2_length _ _ _ Hf). unfold multi_snd_triples. apply multi_triples_length. }
      split.
      + constructor; [|constructor]. constructor.
        * apply is_transfer_multi.
        * cbn [m_caller m_dest msg0]. congruence.
        * cbn [m_sender m_dest msg0]. congruence.
        * rewrite Hcr. apply debit_list_nonneg.
        * intros _. cbn [m_args msg0 app nth]. unfold u64_bytes. rewrite be_to_N_to_be. apply bigU64_lt.
      + intros k. rewrite Hsum, inflight_total_one. unfold qty. rewrite Hcr. lia.
  Qed.

  (* ================================================================ *)
  (* through the dispatch                                               *)
  (* ================================================================ *)
  Lemma dest_side sh m0 m i o s' :
    NoDup (map fst m0) -> accts_nonneg c m0 -> msg_ok c m ->
    i_args i = m_args m -> i_snd i = false -> i_dst i = true -> i_caller i <> i_rcpt i ->
    exec (env_at c sh) (m_fn m) i (mk_state m0) = (Ok o, s') -> dest_ok m0 m i o s'.
  Proof.
    intros Hnd Hnn [Hfn _ _ Hcn Hcount] Hargs Hsnd Hdst Hne H.
    destruct (exec_transfer_cases (env_at c sh) (m_fn m) i Hfn) as [[Hf He]|[[Hf He]|[Hf He]]]; rewrite He in H.
    - eapply dest_side_esdt; eauto.
    - eapply dest_side_nft; eauto.
    - eapply dest_side_multi; eauto.
  Qed.

  Lemma origin_side sh m0 fn i id o s' :
    NoDup (map fst m0) -> accts_nonneg c m0 -> is_transfer_fn fn = true -> origin_call c sh i ->
    call_consistent_at c m0 sh fn i ->
    exec (env_at c sh) fn i (mk_state m0) = (Ok o, s') -> origin_ok sh m0 fn i id o s'.
  Proof.
    intros Hnd Hnn Hfn Hor [Hc1 Hc2] H.
    destruct (exec_transfer_cases (env_at c sh) fn i Hfn) as [[Hf He]|[[Hf He]|[Hf He]]]; rewrite He in H; subst fn.
    - eapply origin_side_esdt; eauto.
    - eapply origin_side_nft; eauto.
    - eapply origin_side_multi; eauto.
  Qed.

  (* ================================================================ *)
  (* one world step                                                     *)
  (* ================================================================ *)
  Lemma in_range w sh : WInv c w -> (sh <? wc_nshards c)%N = true -> (N.to_nat sh < nshards w)%nat.
  Proof. intros [H _ _ _] Hsh. apply N.ltb_lt in Hsh. lia. Qed.

  Theorem conservation_step w op : WInv c w -> transfer_op c op -> op_consistent c w op ->
    WInv c (wstep c w op) /\ forall k, total c k (wstep c w op) = total c k w.
  Proof.
    intros Hinv Hop Hcons.
    destruct (wstep_cases c w op) as [Heq|id gas m Hopd Hfind Heq|sh fn i o s' Hopd Hsh Hex Heq
                                      |id gas m o s' consume Hopd Hfind sh Hsh Hex Heq|id gas m o s' Hopd Hfind Hfl sh Hsh Hex Heq];
      rewrite Heq; clear Heq.
    - split; [exact Hinv|reflexivity].
    - split; [apply WInv_msgs; exact Hinv|reflexivity].
    - (* origin-side execution *)
      subst op. destruct Hop as [Hfn Hor]. cbn [op_consistent] in Hcons.
      destruct (origin_side sh (shard_accts w sh) fn i (next_id w) o s' (wi_nodup c w Hinv sh) (wi_nonneg c w Hinv sh) Hfn Hor Hcons Hex)
        as (Hnd' & Hnn' & Hms & Hsum).
      split.
      + apply WInv_commit; try assumption. apply Forall_app. split; [apply (wi_msgs c w Hinv)|exact Hms].
      + intros k. rewrite total_commit by (apply in_range; assumption). rewrite inflight_total_app.
        specialize (Hsum k). unfold total. lia.
    - (* delivery *)
      destruct consume; [|subst op; contradiction].
      destruct (find_msg_In _ _ _ Hfind) as [Hin _].
      pose proof (wi_msgs c w Hinv) as Hall. rewrite Forall_forall in Hall. pose proof (Hall m Hin) as Hm.
      assert (Hsnd : i_snd (deliver_input c m sh gas) = false).
      { cbn [deliver_input i_snd]. apply N.eqb_neq. exact (mo_caller c m Hm). }
      assert (Hne : i_caller (deliver_input c m sh gas) <> i_rcpt (deliver_input c m sh gas)).
      { cbn [deliver_input i_caller i_rcpt]. intros He. apply (mo_caller c m Hm). rewrite He. reflexivity. }
      destruct (dest_side sh (shard_accts w sh) m (deliver_input c m sh gas) o s' (wi_nodup c w Hinv sh) (wi_nonneg c w Hinv sh) Hm
                  eq_refl Hsnd eq_refl Hne Hex) as (Hnd' & Hnn' & Hsum & Hout).
      assert (Hcol : collect c sh (m_fn m) (deliver_input c m sh gas) (next_id w) o = []).
      { apply collect_all_local; [|left; reflexivity]. intros oa Hoa. rewrite (Hout oa Hoa). reflexivity. }
      rewrite Hcol, app_nil_r. split.
      + apply WInv_commit; try assumption. apply forall_drop_msg. apply (wi_msgs c w Hinv).
      + intros k. rewrite total_commit by (apply in_range; assumption).
        rewrite (inflight_total_drop c k _ _ _ Hfind), (Hsum k). unfold total. lia.
    - (* refund *)
      destruct (find_msg_In _ _ _ Hfind) as [Hin _].
      pose proof (wi_msgs c w Hinv) as Hall. rewrite Forall_forall in Hall. pose proof (Hall m Hin) as Hm.
      assert (Hsnd : i_snd (refund_input c m sh gas) = false).
      { cbn [refund_input i_snd]. apply N.eqb_neq. intros He. apply (mo_sender c m Hm). symmetry. exact He. }
      assert (Hne : i_caller (refund_input c m sh gas) <> i_rcpt (refund_input c m sh gas)).
      { cbn [refund_input i_caller i_rcpt]. intros He. apply (mo_sender c m Hm). rewrite He. reflexivity. }
      destruct (dest_side sh (shard_accts w sh) m (refund_input c m sh gas) o s' (wi_nodup c w Hinv sh) (wi_nonneg c w Hinv sh) Hm
                  eq_refl Hsnd eq_refl Hne Hex) as (Hnd' & Hnn' & Hsum & _).
      split.
      + apply WInv_commit; try assumption. apply forall_drop_msg. apply (wi_msgs c w Hinv).
      + intros k. rewrite total_commit by (apply in_range; assumption).
        rewrite (inflight_total_drop c k _ _ _ Hfind), (Hsum k). unfold total. lia.
  Qed.

  (* ================================================================ *)
  (* every history                                                      *)
  (* ================================================================ *)
  Theorem conservation_histories_inv ops : forall w,
    WInv c w -> Forall (transfer_op c) ops -> consistent_along c w ops ->
    WInv c (wrun c w ops) /\ forall k, total c k (wrun c w ops) = total c k w.
  Proof.
    induction ops as [|op ops IH]; intros w Hinv Hops Hcons; [split; [exact Hinv|reflexivity]|].
    inversion Hops as [|x l Hop Hrest]; subst. destruct Hcons as [Hc1 Hc2].
    destruct (conservation_step w op Hinv Hop Hc1) as [Hinv' Hk].
    rewrite wrun_cons. destruct (IH _ Hinv' Hrest Hc2) as [Hinv'' Hk'].
    split; [exact Hinv''|]. intros k. rewrite Hk', Hk. reflexivity.
  Qed.
End Step.

Theorem conservation_histories : forall c (Hc : codec_ok (wc_cdc c)) w ops k,
  WInv c w -> Forall (transfer_op c) ops -> consistent_along c w ops ->
  total c k (wrun c w ops) = total c k w.
Proof. intros c Hc w ops k Hinv Hops Hcons. apply (conservation_histories_inv c Hc ops w Hinv Hops Hcons). Qed.
Theorem WInv_histories : forall c (Hc : codec_ok (wc_cdc c)) w ops,
  WInv c w -> Forall (transfer_op c) ops -> consistent_along c w ops -> WInv c (wrun c w ops).
Proof. intros c Hc w ops Hinv Hops Hcons. apply (conservation_histories_inv c Hc ops w Hinv Hops Hcons). Qed.

Print Assumptions conservation_histories.
