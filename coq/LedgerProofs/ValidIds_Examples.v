(* Honest identifiers, part 8: boolean checkers (sound) for [ids_valid], [VInv], [op_ids], and non-vacuity on
   the ideal codec: a two-shard world holding "TKA-a1b2c3" (fungible) and "NFA-112233" (NFT nonce 1), an
   11-operation history over all three transfer functions (cross-shard with delivery, same shard, a rejected
   delivery and its refund) -- every hypothesis of [conservation_histories_valid_ids] decided by vm_compute, NO
   consistency hypothesis; exec-level instances of the C02 / C05 statements; and the F4b state (an entry with
   metadata nonce 0x44 under  "ABC-12345" ++ 0x36 0x44) shown NOT to be [ids_valid]-compatible with the call that
   aliases it: the identifier "ABC-12345" of the aliasing call is not valid. *)
From Coq.Strings Require Import String.
From Coq Require Import Lia.
From EV Require Import Base.Bytes Base.Store Base.Monad gen.Consts Codec.Types Codec.Proto Codec.Ideal Codec.CodecOk
  Helpers.Helpers Ledger.Types Ledger.Env Ledger.Funcs Ledger.Transfers Ledger.World Corr.Exec
  LedgerProofs.Defs LedgerProofs.EnvSpec LedgerProofs.WorldDefs LedgerProofs.WorldSpec
  LedgerProofs.Spec_Transfers_Base LedgerProofs.Spec_Transfers_Esdt LedgerProofs.Spec_Transfers_Nft
  LedgerProofs.Spec_Transfers_Multi LedgerProofs.Spec_Transfers LedgerProofs.Spec_Supply
  LedgerProofs.C05_Footprint LedgerProofs.C15_Inv
  LedgerProofs.C01_World LedgerProofs.C01_Step LedgerProofs.C01_Exact LedgerProofs.C01_Check LedgerProofs.C01_Consistent
  LedgerProofs.C01_Examples
  LedgerProofs.ValidIds_Id LedgerProofs.ValidIds_Inv LedgerProofs.ValidIds_Exec LedgerProofs.ValidIds_World
  LedgerProofs.ValidIds_Frame.

(* the pause flag does not decode as a token: both concrete codecs *)
Lemma vi_flag_undec_ideal : flag_undec ideal_codec.
Proof. intros f. destruct f; vm_compute; reflexivity. Qed.
Lemma vi_flag_undec_proto : flag_undec the_codec.
Proof. intros f. destruct f; vm_compute; reflexivity. Qed.

(* ---------------- checkers ---------------- *)
Definition idcell_b (E : env) (k v : bytes) : bool :=
  if prefix_of P k then
    match dec_tok (cdc E) v with
    | None => true
    | Some t =>
      let x := skipn (length P) k in
      let nb := u64_bytes (tok_nonce t) in
      (length nb <=? length x)%nat && beqb (skipn (length x - length nb) x) nb
      && valid_id_b (firstn (length x - length nb) x)
    end
  else true.
Definition ids_acct_check (E : env) (ac : account) : bool :=
  forallb (fun k => let v := sget (a_store ac) k in beqb v [] || idcell_b E k v) (skeys (a_store ac)).
Definition ids_check (E : env) (s : mstate) : bool := forallb (fun p => ids_acct_check E (snd p)) (accts s).

Lemma skipn_app_length {A} (p x : list A) : skipn (length p) (p ++ x) = x.
Proof. induction p as [|h p IH]; [reflexivity|exact IH]. Qed.
Lemma idcell_b_sound E k v : idcell_b E k v = true -> idcell E k v.
Proof.
  unfold idcell_b. intros H x t -> Hd. rewrite prefix_of_app, Hd in H. cbv zeta in H. rewrite skipn_app_length in H.
  apply andb_prop in H as [H H3]. apply andb_prop in H as [_ H2]. apply beqb_true in H2.
  exists (firstn (length x - length (u64_bytes (tok_nonce t))) x). split; [apply valid_id_b_sound; exact H3|].
  rewrite <- H2 at 2. symmetry. apply firstn_skipn.
Qed.
Lemma vi_aget_in (l : amap account) a : aget empty_account l a = empty_account \/ In (a, aget empty_account l a) l.
Proof.
  induction l as [|[a' x] r IH]; [left; reflexivity|]. cbn [aget]. destruct (beqb_spec a a') as [->|Hne].
  - right. left. reflexivity.
  - destruct IH as [IH|IH]; [left; exact IH|right; right; exact IH].
Qed.
Theorem ids_check_sound E s : ids_check E s = true -> ids_valid E s.
Proof.
  intros H a k Hne. unfold ids_check in H. rewrite forallb_forall in H.
  unfold cell, acct in *. destruct (vi_aget_in (accts s) a) as [He|Hin].
  - rewrite He in Hne. cbn [empty_account a_store] in Hne. rewrite sget_nil in Hne. congruence.
  - specialize (H _ Hin). cbn [snd] in H. unfold ids_acct_check in H. rewrite forallb_forall in H.
    set (ac := aget empty_account (accts s) a) in *.
    assert (Hk : In k (skeys (a_store ac))).
    { destruct (in_dec (list_eq_dec Byte.byte_eq_dec) k (skeys (a_store ac))) as [Hi|Hn]; [exact Hi|].
      apply sget_notin in Hn. congruence. }
    specialize (H _ Hk). cbv zeta in H. apply orb_prop in H as [H|H].
    + apply beqb_true in H. congruence.
    + apply idcell_b_sound. exact H.
Qed.

Section Check.
  Variable c : wcfg.
  (* every shard passes the state check and nothing is in flight (enough for initial worlds) *)
  Definition vinv_b (w : world) : bool :=
    forallb (fun m => ids_check (env_at c 0) (mk_state m)) (shards w)
    && match inflight w with [] => true | _ => false end.
  Lemma vinv_b_ok w : vinv_b w = true -> VInv c w.
  Proof.
    unfold vinv_b. intros H. apply andb_prop in H as [H1 H2]. split.
    - intros sh. apply (ids_valid_env (env_at c 0)); [reflexivity|]. unfold shard_accts.
      destruct (Nat.lt_ge_cases (N.to_nat sh) (length (shards w))) as [Hlt|Hge].
      + rewrite forallb_forall in H1. apply ids_check_sound. apply H1. apply nth_In. exact Hlt.
      + rewrite nth_overflow by exact Hge. apply ids_valid_empty.
    - destruct (inflight w); [constructor|discriminate].
  Qed.
  Definition origin_ids_b (fn : bytes) (i : input) : bool :=
    if beqb fn C.BuiltInFunctionMultiESDTNFTTransfer then forallb (fun x => valid_id_b (rt_tok x)) (multi_snd_triples i)
    else valid_id_b (argn i 0).
  Lemma origin_ids_b_ok fn i : origin_ids_b fn i = true -> origin_ids fn i.
  Proof.
    unfold origin_ids_b, origin_ids. destruct (beqb_spec fn C.BuiltInFunctionMultiESDTNFTTransfer) as [->|Hne]; intros H.
    - split; [intros Hx; congruence|]. intros _. apply Forall_forall. intros x Hx. rewrite forallb_forall in H.
      apply valid_id_b_sound. apply H. exact Hx.
    - split; [intros _; apply valid_id_b_sound; exact H|intros Hx; congruence].
  Qed.
  Definition op_ids_b (op : wop) : bool := match op with OCall _ fn i => origin_ids_b fn i | _ => true end.
  Lemma op_ids_b_ok op : op_ids_b op = true -> op_ids op.
  Proof. destruct op; cbn [op_ids_b op_ids]; intros H; try exact I. apply origin_ids_b_ok. exact H. Qed.

  (* conservation with every hypothesis decided by computation; no consistency hypothesis at all *)
  Theorem conservation_checked_valid_ids (Hc : codec_ok (wc_cdc c)) (Hf : flag_undec (wc_cdc c)) w ops :
    winv_b c w = true -> vinv_b w = true -> forallb (transfer_op_b c) ops = true -> forallb op_ids_b ops = true ->
    forall k, total c k (wrun c w ops) = total c k w.
  Proof.
    intros H1 H2 H3 H4 k. apply (conservation_histories_valid_ids c Hc Hf).
    - apply winv_b_ok. exact H1.
    - apply vinv_b_ok. exact H2.
    - apply Forall_forall. intros op Hin. apply transfer_op_b_ok. rewrite forallb_forall in H3. auto.
    - apply Forall_forall. intros op Hin. apply op_ids_b_ok. rewrite forallb_forall in H4. auto.
  Qed.
End Check.

(* ---------------- the world and the history ---------------- *)
Definition tka : bytes := str "TKA-a1b2c3"%string.
Definition nfa : bytes := str "NFA-112233"%string.
Definition kTka : bytes := P ++ tka.
Definition kNfa : bytes := nft_key (P ++ nfa) 1.

Example tka_nfa_valid : valid_id tka /\ valid_id nfa /\ protocol_id_b tka = true /\ protocol_id_b nfa = true.
Proof. split; [exact valid_TKA|]. split; [exact valid_NFA|]. vm_compute. auto. Qed.

(* shard 0: alice 5 TKA + 3 of NFA#1, carol 2 TKA; shard 1: bob already holds 7 TKA + 1 of NFA#1, dave nothing *)
Definition wV : world :=
  {| shards := [ [(alice, mka [(kTka, enc_token (tk 5)); (kNfa, enc_token (nf 1 3))]); (carol, mka [(kTka, enc_token (tk 2))])];
                 [(bob, mka [(kTka, enc_token (tk 7)); (kNfa, enc_token (nf 1 1))]); (dave, mka [])] ];
     inflight := []; failed := []; next_id := 0 |}.

Definition historyV : list wop :=
  [ OCall 0 C.BuiltInFunctionESDTTransfer (mkin alice bob [tka; u64_bytes 2] true false);                 (* message 0 *)
    ODeliver 0 100000;
    OCall 0 C.BuiltInFunctionESDTNFTTransfer (mkin alice alice [nfa; u64_bytes 1; u64_bytes 2; bob] true true);   (* message 1 *)
    ODeliver 1 100000;
    OCall 0 C.BuiltInFunctionMultiESDTNFTTransfer
      (mkin alice alice [bob; u64_bytes 2; nfa; u64_bytes 1; u64_bytes 1; tka; []; u64_bytes 3] true true);     (* message 2 *)
    ODeliver 2 100000;
    OCall 0 C.BuiltInFunctionESDTTransfer (mkin carol alice [tka; u64_bytes 1] true true);                (* same shard *)
    OCall 0 C.BuiltInFunctionESDTTransfer (mkin alice dave [tka; u64_bytes 1] true false);                (* message 3 *)
    ODeliver 3 100000;                                                                                     (* rejected: dave is not payable *)
    ORefund 3 100000;                                                                                      (* alice gets it back *)
    ODeliver 7 100000 ].                                                                                   (* unknown id: skipped *)

(* every hypothesis of the theorem, decided *)
Example exV_hypotheses :
  winv_b c0 wV = true /\ vinv_b c0 wV = true
  /\ forallb (transfer_op_b c0) historyV = true /\ forallb op_ids_b historyV = true.
Proof. vm_compute. repeat split. Qed.
Example exV_invariants : C01_World.WInv c0 wV /\ VInv c0 wV.
Proof. split; [apply winv_b_ok|apply vinv_b_ok]; apply exV_hypotheses. Qed.
(* the theorem applies: every total is conserved -- and the F4b hypothesis was never checked *)
Example exV_conserved : forall k, total c0 k (wrun c0 wV historyV) = total c0 k wV.
Proof. apply (conservation_checked_valid_ids c0 c0_ok vi_flag_undec_ideal); apply exV_hypotheses. Qed.
(* the history really executes: ten operations succeed, totals 14 / 4 before and after, nothing left in flight,
   and the final world satisfies the state check again (as [invariants_histories_valid_ids] says it must) *)
Example exV_run :
  let w' := wrun c0 wV historyV in
  total c0 kTka wV = 14%Z /\ total c0 kNfa wV = 4%Z /\ total c0 kTka w' = 14%Z /\ total c0 kNfa w' = 4%Z
  /\ inflight w' = [] /\ failed w' = []
  /\ bal0 w' 0 alice kTka = 1%Z /\ bal0 w' 1 bob kTka = 12%Z /\ bal0 w' 0 alice kNfa = 0%Z /\ bal0 w' 1 bob kNfa = 4%Z
  /\ vinv_b c0 w' = true
  /\ (let w1 := wrun c0 wV (firstn 1 historyV) in length (inflight w1) = 1%nat /\ inflight_total c0 kTka (inflight w1) = 2%Z).
Proof. vm_compute. repeat split; reflexivity. Qed.
Example exV_invariants_after : C01_World.WInv c0 (wrun c0 wV historyV) /\ VInv c0 (wrun c0 wV historyV).
Proof.
  destruct exV_hypotheses as (H1 & H2 & H3 & H4).
  apply (invariants_histories_valid_ids c0 c0_ok vi_flag_undec_ideal); [apply winv_b_ok; exact H1|apply vinv_b_ok; exact H2| |].
  - apply Forall_forall. intros op Hin. apply transfer_op_b_ok. rewrite forallb_forall in H3. auto.
  - apply Forall_forall. intros op Hin. apply op_ids_b_ok. rewrite forallb_forall in H4. auto.
Qed.

(* ---------------- exec level: C02 / C05 statements without the F4b hypothesis ---------------- *)
Definition EV0 : env := env_at c0 0.
Definition sV : mstate :=
  mk_state [(alice, mka [(kNfa, enc_token (nf 1 3)); (kTka, enc_token (tk 5));
                         (RP ++ nfa, enc_roles [C.ESDTRoleNFTAddQuantity; C.ESDTRoleNFTBurn])])].
Definition addq_in : input := mkin alice alice [nfa; u64_bytes 1; u64_bytes 4] true true.
Definition burn_in : input := mkin alice alice [nfa; u64_bytes 1; u64_bytes 2] true true.

Example exV_state : ids_valid EV0 sV.
Proof. apply ids_check_sound. vm_compute. reflexivity. Qed.
Example exV_add_quantity :
  exists o s', exec EV0 C.BuiltInFunctionESDTNFTAddQuantity addq_in sV = (Ok o, s')
    /\ (forall a k, balance EV0 s' a k =
          (balance EV0 sV a k + (if at_cell a k alice kNfa then 4 else 0))%Z)
    /\ balance EV0 s' alice kNfa = 7%Z /\ ids_valid EV0 s'
    /\ unchanged_except (fun a k => In (a, k) (fp_exact EV0 C.BuiltInFunctionESDTNFTAddQuantity addq_in sV))
                        (fp_accts (footprint EV0 C.BuiltInFunctionESDTNFTAddQuantity addq_in sV)) sV s'
    /\ fp_exact EV0 C.BuiltInFunctionESDTNFTAddQuantity addq_in sV = [(alice, kNfa)].
Proof.
  destruct (exec EV0 C.BuiltInFunctionESDTNFTAddQuantity addq_in sV) as [[o| |] s'] eqn:Ex;
    try (exfalso; vm_compute in Ex; discriminate).
  exists o, s'. split; [reflexivity|].
  assert (Hv : valid_id (argn addq_in 0)) by exact valid_NFA.
  assert (Hci : call_ids C.BuiltInFunctionESDTNFTAddQuantity addq_in) by (constructor; [exact Hv|constructor]).
  assert (Hnn : (0 <= balance EV0 sV (i_caller addq_in) (nft_key (P ++ argn addq_in 0) (bigU64 (argn addq_in 1))))%Z)
    by (vm_compute; discriminate).
  pose proof (supply_balance_effect_valid_ids_nft_add_quantity EV0 c0_ok addq_in sV o s' Ex exV_state Hv Hnn) as Hb.
  split; [|split; [|split; [|split]]].
  - intros a k. rewrite Hb. reflexivity.
  - rewrite Hb. vm_compute. reflexivity.
  - exact (ids_valid_exec EV0 _ _ _ _ _ c0_ok vi_flag_undec_ideal exV_state Hci Ex).
  - exact (exec_frame_exact_valid_ids EV0 c0_ok _ _ _ _ _ Ex exV_state Hci).
  - vm_compute. reflexivity.
Qed.
Example exV_add_quantity_short :
  exists o s', exec EV0 C.BuiltInFunctionESDTNFTAddQuantity addq_in sV = (Ok o, s')
    /\ (forall a k, balance EV0 s' a k = (balance EV0 sV a k + (if at_cell a k alice kNfa then 4 else 0))%Z)
    /\ balance EV0 s' alice kNfa = 7%Z.
Proof. destruct exV_add_quantity as (o & s' & H1 & H2 & H3 & _). exists o, s'. auto. Qed.
Example exV_nft_burn :
  exists o s', exec EV0 C.BuiltInFunctionESDTNFTBurn burn_in sV = (Ok o, s')
    /\ (forall a k, balance EV0 s' a k = (balance EV0 sV a k + (if at_cell a k alice kNfa then - 2 else 0))%Z)
    /\ balance EV0 s' alice kNfa = 1%Z.
Proof.
  destruct (exec EV0 C.BuiltInFunctionESDTNFTBurn burn_in sV) as [[o| |] s'] eqn:Ex;
    try (exfalso; vm_compute in Ex; discriminate).
  exists o, s'. split; [reflexivity|].
  assert (Hv : valid_id (argn burn_in 0)) by exact valid_NFA.
  split.
  - intros a k. rewrite (supply_balance_effect_valid_ids_nft_burn EV0 c0_ok burn_in sV o s' Ex exV_state Hv). reflexivity.
  - rewrite (supply_balance_effect_valid_ids_nft_burn EV0 c0_ok burn_in sV o s' Ex exV_state Hv alice kNfa).
    vm_compute. reflexivity.
Qed.

(* ---------------- the F4b witness is outside the hypotheses ---------------- *)
(* C01's witness: world wF (erin holds "ABC-123456" nonce 0x44), operation opF_same names "ABC-12345":
   the world IS [VInv] (its only entry sits under a valid identifier and its own nonce), the call is NOT [op_ids] *)
Example f4b_world_valid : VInv c0 wF /\ C01_World.WInv c0 wF.
Proof. split; [apply vinv_b_ok; vm_compute; reflexivity|apply winv_b_ok; vm_compute; reflexivity]. Qed.
Example f4b_call_not_valid : ~ op_ids opF_same /\ ~ op_ids opF_cross /\ op_ids_b opF_same = false.
Proof.
  assert (H : ~ valid_id idShort) by (apply f4b_ids_not_valid).
  split; [|split; [|vm_compute; reflexivity]]; intros [H1 _]; apply H; apply H1; discriminate.
Qed.
(* and no state can hold entries under BOTH identifiers' keys that alias each other: the aliased key has a unique
   valid reading *)
Example f4b_key_unique_reading : forall tok n, valid_id tok ->
  nft_key (P ++ tok) n = nft_key (P ++ idLong) 68 -> tok = idLong /\ n = 68%N.
Proof.
  intros tok n Hv H. apply valid_id_key_injective; [exact Hv| |exact H].
  apply valid_id_b_sound. vm_compute. reflexivity.
Qed.

Print Assumptions conservation_checked_valid_ids.
Print Assumptions exV_conserved.
Print Assumptions exV_add_quantity.
