(* C11 (totality), world level, part 3: non-vacuity.  A two-shard world with the ideal codec, started EMPTY
   ([PInv_empty]: nothing hand-made), and a history of transaction-reachable operations: the system contract gives
   alice the create role, alice creates an NFT, sends part of it across shards, the message is delivered; a hostile
   multi-transfer (count = the wrap residue 0x5555555555555556) and a hostile NFT transfer (garbage arguments) are
   rejected; a transfer to a non-payable contract is rejected on delivery and refunded; an unknown id is skipped.
   Statuses by [vm_compute]; none is a panic, as [world_no_panic] says.
   [untruthful_presence_refuted]: the presence condition of [tx_op] cannot be dropped: a direct call that hands the
   function a recipient account that does not live on the executing shard turns a user-chosen attached call named
   ESDTNFTTransfer into a cross-shard message with a payload without value; its delivery panics in the model. *)
From Coq.Strings Require Import String.
From Coq Require Import Lia List.
From EV Require Import Base.Bytes Base.Store Base.Monad gen.Consts Codec.Types Codec.Proto Codec.Ideal Codec.CodecOk
  Helpers.Helpers Ledger.Types Ledger.Env Ledger.Funcs Ledger.Transfers Ledger.World Corr.Exec
  LedgerProofs.Defs LedgerProofs.EnvSpec LedgerProofs.WorldDefs LedgerProofs.WorldSpec
  LedgerProofs.NoPanic LedgerProofs.NoPanicFuncs LedgerProofs.NoPanicTransfers LedgerProofs.NoPanicEmit
  LedgerProofs.NoPanicWitness LedgerProofs.NoPanicWorldEmit LedgerProofs.NoPanicWorld.
Import ListNotations.

Definition pw_alice : bytes := repeat x01 32.     (* shard 0 *)
Definition pw_bob : bytes := repeat x02 32.       (* shard 1 *)
Definition pw_dave : bytes := repeat x00 24 ++ repeat x04 8.      (* shard 1, a contract address, not payable *)
Definition pw_erin : bytes := repeat x00 24 ++ repeat x05 8.      (* shard 1, a payable contract address *)
Definition pw_tok : bytes := str "NFT-d4e5f6"%string.

Definition pw_cfg : wcfg :=
  {| wc_cdc := ideal_codec;
     wc_shard_of := fun a => if (beqb a pw_bob || beqb a pw_dave || beqb a pw_erin)%bool then 1%N else if beqb a SC then META else 0%N;
     wc_payable := fun a => if beqb a pw_dave then PayNo else PayYes;
     wc_dns := []; wc_enable := false; wc_gas := gas_of (repeat 10%N 22); wc_nshards := 2 |}.
Lemma pw_codec_ok : codec_ok (wc_cdc pw_cfg). Proof. exact ideal_codec_ok. Qed.
Lemma pw_flag_ok : flag_ok (wc_cdc pw_cfg). Proof. exact flag_ok_ideal. Qed.

Definition pw_in (caller rcpt : bytes) (args : list bytes) (snd dst : bool) : input :=
  {| i_caller := caller; i_rcpt := rcpt; i_args := args; i_value := 0; i_gas := 100000000; i_gasLocked := 0;
     i_callType := C.DirectCall; i_rae := false; i_snd := snd; i_dst := dst |}.

Definition pw_history : list wop :=
  [ (* 0: the system contract gives alice the roles (caller account absent, recipient present) *)
    OCall 0 C.BuiltInFunctionSetESDTRole
      (pw_in SC pw_alice [pw_tok; C.ESDTRoleNFTCreate; C.ESDTRoleNFTAddQuantity] false true);
    (* 1: alice creates 5 of nonce 1 *)
    OCall 0 C.BuiltInFunctionESDTNFTCreate
      (pw_in pw_alice pw_alice [pw_tok; u64_bytes 5; str "n"%string; u64_bytes 5; str "h"%string; []; str "u"%string] true true);
    (* 2: cross-shard NFT transfer of 2 to bob: message 0 *)
    OCall 0 FNft (pw_in pw_alice pw_alice [pw_tok; u64_bytes 1; u64_bytes 2; pw_bob] true true);
    (* 3: delivered on shard 1 *)
    ODeliver 0 100000000;
    (* 4: hostile: multi-transfer whose count is the wrap residue of 3n+2 *)
    OCall 0 FMulti (pw_in pw_alice pw_alice [pw_bob; N_to_be nWrap; pw_tok; u64_bytes 1; u64_bytes 1] true true);
    (* 5: hostile: garbage arguments *)
    OCall 0 FNft (pw_in pw_alice pw_alice [[]; [xff; xff; xff; xff; xff; xff; xff; xff; xff]; []; pw_bob; []; []] true true);
    (* 6: cross-shard multi-transfer of 1 to the non-payable contract dave: message 1 *)
    OCall 0 FMulti (pw_in pw_alice pw_alice [pw_dave; u64_bytes 1; pw_tok; u64_bytes 1; u64_bytes 1] true true);
    (* 7: rejected on delivery *)
    ODeliver 1 100000000;
    (* 8: refunded to alice *)
    ORefund 1 100000000;
    (* 9: unknown id: nothing is executed *)
    ODeliver 9 100000000;
    (* 10: a re-delivery of a consumed message: nothing is executed *)
    ORedeliver 0 100000000 ].

(* every operation is transaction-reachable *)
Lemma pw_history_reachable : Forall (tx_op pw_cfg) pw_history.
Proof.
  unfold pw_history.
  repeat match goal with |- Forall _ (_ :: _) => apply Forall_cons | |- Forall _ [] => apply Forall_nil end.
  all: cbn [tx_op]; try exact I.
  all: split; [|vm_compute; reflexivity].
  - right. unfold sys_call. cbn [pw_in i_caller i_snd i_dst i_rcpt].
    repeat split; try (intros H; vm_compute in H; discriminate).
  - left. split; [|split]; vm_compute; reflexivity.
  - left. split; [|split]; vm_compute; reflexivity.
  - left. split; [|split]; vm_compute; reflexivity.
  - left. split; [|split]; vm_compute; reflexivity.
  - left. split; [|split]; vm_compute; reflexivity.
Qed.

(* the statuses along the history *)
Example pw_statuses :
  statuses pw_cfg (empty_world 2) pw_history
  = [Some SOk; Some SOk; Some SOk; Some SOk; Some SErr; Some SErr; Some SOk; Some SErr; Some SOk; None; None].
Proof. vm_compute. reflexivity. Qed.
(* ... as the theorem says *)
Example pw_no_panic : Forall (fun st => st <> Some SPanic) (statuses pw_cfg (empty_world 2) pw_history).
Proof. apply (world_no_panic pw_cfg pw_codec_ok pw_flag_ok); [apply PInv_empty|exact pw_history_reachable]. Qed.
Example pw_invariant : forall n, PInv pw_cfg (wrun pw_cfg (empty_world 2) (firstn n pw_history)).
Proof. intros n. apply (PInv_every_prefix pw_cfg pw_codec_ok pw_flag_ok); [apply PInv_empty|exact pw_history_reachable]. Qed.
(* messages really travel: after operation 2 one NFT message is in flight; the rejected delivery marks message 1; at the end
   nothing is in flight *)
Example pw_messages :
  map m_fn (inflight (wrun pw_cfg (empty_world 2) (firstn 3 pw_history))) = [FNft]
  /\ failed (wrun pw_cfg (empty_world 2) (firstn 8 pw_history)) = [1%nat]
  /\ inflight (wrun pw_cfg (empty_world 2) pw_history) = [] /\ failed (wrun pw_cfg (empty_world 2) pw_history) = [].
Proof. vm_compute. repeat split; reflexivity. Qed.

(* ---------------- the presence condition of [tx_op] is necessary ---------------- *)
(* carol (shard 0) holds 5 of a fungible token; she calls ESDTTransfer to the contract erin -- who lives on shard 1 --
   on shard 0 with the recipient flagged PRESENT (not what the shard table implies), and attaches the call
   "ESDTNFTTransfer@tok@01@01@<payload>" whose payload 0x08 0x01 decodes to a token WITHOUT a value.  [collect] turns the
   attached call into a cross-shard message; its delivery dereferences the nil value. *)
Definition pw_carol : bytes := repeat x03 32.
Definition pw_ftok : bytes := str "TOK-a1b2c3"%string.
Definition pw_w1 : world :=
  {| shards := [ [(pw_carol, {| a_store := sput [] (P ++ pw_ftok) (enc_tok ideal_codec
                                   {| t_type := C.Fungible; t_value := Some 5%Z; t_props := []; t_meta := None; t_reserved := [] |});
                                a_balance := 0; a_owner := []; a_username := []; a_devreward := 0 |})]; [] ];
     inflight := []; failed := []; next_id := 0 |}.
Definition pw_bad_payload : bytes := [x08; x01].
Definition pw_bad_op : wop :=
  OCall 0 C.BuiltInFunctionESDTTransfer
    (pw_in pw_carol pw_erin [pw_ftok; u64_bytes 1; FNft; pw_tok; u64_bytes 1; u64_bytes 1; pw_bad_payload] true true).
Example untruthful_presence_refuted :
  (* the payload decodes to a token without a value *)
  (exists t, dec_tok ideal_codec pw_bad_payload = Some t /\ t_value t = None)
  (* the call is origin-side with fewer than 2^40 arguments, but the recipient's presence flag is not the shard table's *)
  /\ origin_input (pw_in pw_carol pw_erin [] true true) /\ wc_shard_of pw_cfg pw_carol = 0%N
  /\ wc_shard_of pw_cfg pw_erin = 1%N /\ ~ tx_op pw_cfg pw_bad_op
  (* it succeeds and puts a message named ESDTNFTTransfer in flight that is not msg_pok *)
  /\ statuses pw_cfg pw_w1 [pw_bad_op; ODeliver 0 100000000] = [Some SOk; Some SPanic]
  /\ map m_fn (inflight (wstep pw_cfg pw_w1 pw_bad_op)) = [FNft].
Proof.
  split; [eexists; split; [vm_compute; reflexivity|reflexivity]|].
  split; [reflexivity|]. split; [vm_compute; reflexivity|]. split; [vm_compute; reflexivity|].
  split.
  - intros [[[_ [_ Hd]]|(Hs & _)] _]; vm_compute in Hd || vm_compute in Hs; discriminate.
  - split; vm_compute; reflexivity.
Qed.

Print Assumptions pw_no_panic.
Print Assumptions untruthful_presence_refuted.
