(* C02, part 4: "no stored balance is ever negative" as an invariant of EVERY successful call of EVERY built-in
   function, for every input (no hypothesis on presence flags, arguments, payloads, F4b).

   The development follows LedgerProofs/NoPanic.v (judgement + rules for the monad combinators, the primitives and
   the shared helpers + one tactic that walks a function body), generalised from the fixed predicate StoreOK to an
   arbitrary per-entry predicate [good : token -> Prop]:
       TokInv E good s  :=  every DECODABLE token entry under a protocol key P ++ x satisfies good
       pres E good m Q  :=  from a TokInv state, a successful run of m re-establishes TokInv and its result satisfies Q
   [good] has to be closed under what the ledger writes ([good_closed]: four conditions, one per way a token cell is
   written: save_nft / add_nft_to_destination store only values > 0; add_to_esdt_balance stores a fungible entry
   with the guarded value 0 <= v'; freeze/unfreeze store the entry read with other property bytes; ESDTPause stores
   the 2-byte flag).  Two instances:
       NonNeg          good t := 0 <= val_or_0 t
       StoredPositive  good t := 0 < value, or value = 0 and the entry is fungible with non-zero property bytes
                       (a zero-value entry is kept only to carry the frozen flag; everything else with value <= 0 is
                       deleted, not stored)
   The last condition of [good_closed] is a fact about the codec (what the 2-byte pause flag decodes to, if it
   decodes): [flag_nonneg] / [flag_positive]; true of the protobuf codec and of ideal_codec, where the flag does not
   decode at all (C02_Examples.v). *)
From Coq Require Import Lia.
From EV Require Import Base.Bytes Base.Store Base.Monad gen.Consts Codec.Types Helpers.Helpers
  Ledger.Types Ledger.Env Ledger.Funcs Ledger.Transfers LedgerProofs.Defs LedgerProofs.EnvSpec.

Definition TokInv (E : env) (good : token -> Prop) (s : mstate) : Prop :=
  forall a x t, tok_at E s a (P ++ x) = Some t -> good t.
(* what reading a cell returns: a stored entry, or the default entry (value 0, fungible) for an absent cell *)
Definition readable (good : token -> Prop) (t : token) : Prop := good t \/ t = default_tok.

Record good_closed (E : env) (good : token -> Prop) : Prop := {
  gc_pos : forall t v, t_value t = Some v -> (0 < v)%Z -> good t;
  gc_fungible : forall t v', readable good t -> t_type t = C.Fungible -> (0 <= v')%Z ->
                  ((v' =? 0)%Z && all_zero (t_props t))%bool = false -> good (set_value t (Some v'));
  gc_props : forall t v p, readable good t -> t_value t = Some v ->
                  ((v =? 0)%Z && all_zero p)%bool = false -> good (set_props t p);
  gc_flag : forall f t, dec_tok (cdc E) (flag_bytes f) = Some t -> good t }.

Definition pres (E : env) (good : token -> Prop) {A} (m : @M err mstate A) (Q : A -> Prop) : Prop :=
  forall s a s', TokInv E good s -> m s = (Ok a, s') -> TokInv E good s' /\ Q a.

(* TokInv sees only the codec and the account map *)
Lemma TokInv_accts E good s s' : accts s' = accts s -> TokInv E good s -> TokInv E good s'.
Proof. intros H Hs a x t Ht. rewrite (tok_at_accts E _ _ _ _ H) in Ht. eapply Hs; eauto. Qed.
Lemma tok_at_cdc E E' s a k : cdc E' = cdc E -> tok_at E' s a k = tok_at E s a k.
Proof. intros H. unfold tok_at. rewrite H. reflexivity. Qed.
Lemma TokInv_cdc E E' good s : cdc E' = cdc E -> TokInv E good s -> TokInv E' good s.
Proof. intros H Hs a x t Ht. rewrite (tok_at_cdc E E' _ _ _ H) in Ht. eapply Hs; eauto. Qed.

Section Pres.
  Variable E : env.
  Hypothesis Hc : codec_ok (cdc E).
  Variable good : token -> Prop.
  Hypothesis Hg : good_closed E good.
  Notation MT := (@M err mstate).
  Notation Inv := (TokInv E good).
  Notation pres := (@pres E good _).

  (* ---------------- TokInv under reads and writes ---------------- *)
  Definition goodw (k v : bytes) : Prop :=
    forall x t, k = P ++ x -> v <> [] -> dec_tok (cdc E) v = Some t -> good t.

  Lemma Inv_rd s s' : rd E s s' -> Inv s -> Inv s'.
  Proof. intros H. apply TokInv_accts. apply (rd_accts E _ _ H). Qed.
  Lemma Inv_wr a k v s s' : wr E a k v s s' -> goodw k v -> Inv s -> Inv s'.
  Proof.
    intros Hw Hgw Hs a' x t Ht.
    destruct (beqb_spec a' a) as [->|Hna].
    - destruct (beqb_spec (P ++ x) k) as [Hk|Hnk].
      + subst k. rewrite (wr_tok_at_eq E _ _ _ _ _ Hw) in Ht.
        destruct v as [|b v]; [discriminate|]. eapply Hgw; eauto. discriminate.
      + rewrite (wr_tok_at_other E _ _ _ _ _ _ _ Hw) in Ht by (right; exact Hnk). eapply Hs; eauto.
    - rewrite (wr_tok_at_other E _ _ _ _ _ _ _ Hw) in Ht by (left; exact Hna). eapply Hs; eauto.
  Qed.
  Lemma Inv_readable s a x t : Inv s -> tok_or_default E s a (P ++ x) = Some t -> readable good t.
  Proof.
    intros Hs Ht. apply tod_cases in Ht as [(_ & -> & _)|(_ & Ht)]; [right; reflexivity|left; eapply Hs; eauto].
  Qed.

  Lemma goodw_nil k : goodw k [].
  Proof. intros x t _ H. congruence. Qed.
  Lemma goodw_enc k t : wf_token t -> good t -> goodw k (enc_tok (cdc E) t).
  Proof. intros Hw Hv x t' _ _ Hd. rewrite (dec_enc_tok _ Hc t Hw) in Hd. congruence. Qed.
  Lemma goodw_notP k v : (forall x, k <> P ++ x) -> goodw k v.
  Proof. intros H x t Hk. exfalso. eapply H; eauto. Qed.
  Lemma goodw_if (c : bool) k t : wf_token t -> (c = false -> good t) -> goodw k (if c then [] else enc_tok (cdc E) t).
  Proof. destruct c; [intros; apply goodw_nil|intros Hw H; apply goodw_enc; auto]. Qed.
  Lemma goodw_flag k f : goodw k (flag_bytes f).
  Proof. intros x t _ _ Hd. eapply (gc_flag _ _ Hg); eauto. Qed.
  Lemma goodw_RP tok v : goodw (RP ++ tok) v.
  Proof. apply goodw_notP. intros x H. symmetry in H. revert H. apply P_RP_disjoint. Qed.
  Lemma goodw_NP tok v : goodw (NP ++ tok) v.
  Proof. apply goodw_notP. intros x H. symmetry in H. revert H. apply P_NP_disjoint. Qed.
  Lemma goodw_allowed k v : key_allowed k = true -> goodw k v.
  Proof. intros H. apply goodw_notP. intros x ->. rewrite key_allowed_P in H. discriminate. Qed.

  (* ---------------- rules for the combinators ---------------- *)
  Lemma pres_ret {A} (a : A) (Q : A -> Prop) : Q a -> pres (ret a) Q.
  Proof. intros H s b s' Hs Hm. apply ret_ok in Hm as [-> ->]. auto. Qed.
  Lemma pres_ret_eq {A} (a : A) : pres (ret a) (fun x => x = a).
  Proof. apply pres_ret. reflexivity. Qed.
  Lemma pres_fail {A} e (Q : A -> Prop) : pres (fail e) Q.
  Proof. intros s b s' _ Hm. apply fail_ok in Hm. contradiction. Qed.
  Lemma pres_panic {A} (Q : A -> Prop) : pres panic Q.
  Proof. intros s b s' _ Hm. apply panic_ok in Hm. contradiction. Qed.
  Lemma pres_bind {A B} (m : MT A) (f : A -> MT B) (Q : A -> Prop) (R : B -> Prop) :
    pres m Q -> (forall a, Q a -> pres (f a) R) -> pres (bind m f) R.
  Proof.
    intros Hm Hf s b s' Hs Hb. apply bind_ok in Hb as (a & s1 & H1 & H2).
    destruct (Hm _ _ _ Hs H1) as [Hs1 Hq]. apply (Hf a Hq _ _ _ Hs1 H2).
  Qed.
  Lemma pres_weaken {A} (m : MT A) (Q Q' : A -> Prop) : pres m Q -> (forall a, Q a -> Q' a) -> pres m Q'.
  Proof. intros Hm Hq s a s' Hs H. destruct (Hm _ _ _ Hs H). auto. Qed.
  Lemma pres_true {A} (m : MT A) (Q : A -> Prop) : pres m Q -> pres m (fun _ => True).
  Proof. intros H. eapply pres_weaken; [exact H|auto]. Qed.
  Lemma pres_rdonly {A} (m : MT A) (Q : A -> Prop) :
    (forall s a s', m s = (Ok a, s') -> accts s' = accts s /\ Q a) -> pres m Q.
  Proof. intros Hr s a s' Hs Hm. destruct (Hr _ _ _ Hm) as [Ha Hq]. split; [eapply TokInv_accts; eauto|exact Hq]. Qed.

  (* ---------------- primitives ---------------- *)
  Lemma pres_guard b e : pres (guard b e) (fun _ => b = true).
  Proof. destruct b; [apply pres_ret; reflexivity|apply pres_fail]. Qed.
  Lemma pres_lift_opt {A} (o : option A) e : pres (lift_opt o e) (fun a => o = Some a).
  Proof. destruct o; [apply pres_ret; reflexivity|apply pres_fail]. Qed.
  Lemma pres_check_basic i : pres (check_basic i) (fun _ => True).
  Proof. apply pres_rdonly. intros s a s' H. apply check_basic_ok in H as (_ & _ & ->). auto. Qed.
  Lemma pres_arg A k : pres (arg A k) (fun x => nth_error A (N.to_nat k) = Some x).
  Proof. apply pres_rdonly. intros s a s' H. apply arg_ok in H as (H & _ & ->). auto. Qed.
  Lemma pres_args_from A k : pres (args_from A k) (fun _ => True).
  Proof. apply pres_rdonly. intros s a s' H. apply args_from_ok in H as (_ & _ & ->). auto. Qed.
  Lemma pres_val_of t : pres (val_of t) (fun v => t_value t = Some v).
  Proof. apply pres_rdonly. intros s a s' H. apply val_of_ok in H as (H & ->). auto. Qed.
  Lemma pres_meta_of t : pres (meta_of t) (fun m => t_meta t = Some m).
  Proof. apply pres_rdonly. intros s a s' H. apply meta_of_ok in H as (H & ->). auto. Qed.
  Lemma pres_alloc n : pres (alloc n) (fun _ => True).
  Proof. apply pres_rdonly. intros s a s' H. apply alloc_ok in H as (_ & H & _). auto. Qed.
  Lemma pres_dep : pres (dep E) (fun _ => True).
  Proof. apply pres_rdonly. intros s a s' H. apply dep_rd in H. split; [apply (rd_accts E _ _ H)|exact I]. Qed.
  Lemma pres_load_account a : pres (load_account E a) (fun _ => True). Proof. apply pres_dep. Qed.
  Lemma pres_save_account a : pres (save_account E a) (fun _ => True). Proof. apply pres_dep. Qed.
  Lemma pres_marshal_tok t : pres (marshal_tok E t) (fun b => b = enc_tok (cdc E) t).
  Proof.
    apply pres_rdonly. intros s a s' H. apply marshal_tok_ok in H as (-> & H). split; [apply (rd_accts E _ _ H)|reflexivity].
  Qed.
  Lemma pres_unmarshal_tok b : pres (unmarshal_tok E b) (fun t => wf_token t).
  Proof.
    apply pres_rdonly. intros s a s' H. apply unmarshal_tok_ok in H as (Hd & H). split; [apply (rd_accts E _ _ H)|].
    eapply dec_tok_wf; eauto.
  Qed.
  Lemma pres_get_acct a : pres (get_acct a) (fun _ => True).
  Proof. apply pres_rdonly. intros s x s' H. apply get_acct_ok in H as (_ & ->). auto. Qed.
  Lemma pres_retrieve a k : pres (retrieve a k) (fun _ => True).
  Proof. apply pres_rdonly. intros s x s' H. apply retrieve_ok in H as (_ & ->). auto. Qed.
  Lemma pres_upd_acct a f : (forall x, a_store (f x) = a_store x) -> pres (upd_acct a f) (fun _ => True).
  Proof.
    intros Hf s u s' Hs H. split; [|exact I]. intros a' x t Ht. apply (Hs a' x t).
    unfold tok_at, cell in *. rewrite (upd_acct_acct _ _ _ _ _ a' H) in Ht.
    destruct (beqb_spec a' a) as [->|Hne]; [rewrite Hf in Ht|]; exact Ht.
  Qed.
  Lemma pres_save_kv a k v : goodw k v -> pres (save_kv E a k v) (fun _ => True).
  Proof. intros Hgw s u s' Hs H. apply save_kv_ok in H. split; [eapply Inv_wr; eauto|exact I]. Qed.

  (* ---------------- helpers: read-only ---------------- *)
  Lemma pres_check_allowed snd a tok role : pres (check_allowed E snd a tok role) (fun _ => True).
  Proof.
    apply pres_rdonly. intros s u s' H. apply check_allowed_ok in H as (_ & _ & H). split; [apply (rd_accts E _ _ H)|exact I].
  Qed.
  Lemma pres_check_payable v a : pres (check_payable E v a) (fun _ => True).
  Proof.
    apply pres_rdonly. intros s u s' H. apply check_payable_ok in H as (H & _). split; [apply (rd_accts E _ _ H)|exact I].
  Qed.
  Lemma pres_get_latest_nonce a tok : pres (get_latest_nonce a tok) (fun _ => True).
  Proof. apply pres_rdonly. intros s u s' H. apply get_latest_nonce_ok in H as (_ & ->). auto. Qed.
  Lemma pres_get_roles a k : pres (get_roles E a k) (fun _ => True).
  Proof.
    apply pres_rdonly. intros s [r b] s' H. apply get_roles_ok in H as (H & _). split; [apply (rd_accts E _ _ H)|exact I].
  Qed.
  Lemma pres_get_esdt_data a x : pres (get_esdt_data E a (P ++ x)) (fun t => wf_token t /\ readable good t).
  Proof.
    intros s t s' Hs H. apply (get_esdt_data_ok E Hc) in H as (Hr & Ht & Hw).
    split; [eapply Inv_rd; eauto|]. split; [exact Hw|]. eapply Inv_readable; eauto.
  Qed.
  Lemma pres_get_nft_on_sender a x n : pres (get_nft_on_sender E a (P ++ x) n) (fun t => wf_token t /\ good t).
  Proof.
    intros s t s' Hs H. apply (get_nft_on_sender_ok E Hc) in H as (Hr & Hw & Ht & _).
    split; [eapply Inv_rd; eauto|]. split; [exact Hw|]. rewrite nft_key_app in Ht. eapply Hs; eauto.
  Qed.

  (* ---------------- helpers: writers ---------------- *)
  Lemma pres_save_roles a tok r : pres (save_roles E a (RP ++ tok) r) (fun _ => True).
  Proof. intros s u s' Hs H. apply save_roles_ok in H. split; [eapply Inv_wr; eauto; apply goodw_RP|exact I]. Qed.
  Lemma pres_save_latest_nonce a tok n : pres (save_latest_nonce E a tok n) (fun _ => True).
  Proof.
    intros s u s' Hs H. apply save_latest_nonce_ok in H as (H & _). split; [eapply Inv_wr; eauto; apply goodw_NP|exact I].
  Qed.
  (* freeze / unfreeze: the entry read, with other property bytes *)
  Lemma pres_save_esdt_data_props a t p x :
    wf_token t -> readable good t -> pres (save_esdt_data E a (set_props t p) (P ++ x)) (fun _ => True).
  Proof.
    intros Hw Hr s u s' Hs H. apply save_esdt_data_ok in H as (v & Hv & H). split; [|exact I].
    eapply Inv_wr; eauto. apply goodw_if; [apply wf_set_props; exact Hw|].
    cbn [t_props set_props t_value] in *. intros Hne. eapply (gc_props _ _ Hg); eauto.
  Qed.
  (* the guard 0 <= v + delta *)
  Lemma pres_add_to_esdt_balance a x d rae : pres (add_to_esdt_balance E a (P ++ x) d rae) (fun _ => True).
  Proof.
    intros s u s' Hs H. apply (add_to_esdt_balance_inv E Hc) in H as (t & v & Ht & Hw & Hty & Hv & Hnn & _ & H).
    split; [|exact I]. eapply Inv_wr; eauto. apply goodw_if; [apply wf_set_value; exact Hw|].
    intros Hne. apply (gc_fungible _ _ Hg); auto. eapply Inv_readable; eauto.
  Qed.
  (* save_nft deletes when the value is <= 0 -- no premise on the value of t *)
  Lemma pres_save_nft a x t rae : wf_token t -> pres (save_nft E a (P ++ x) t rae) (fun _ => True).
  Proof.
    intros Hw s u s' Hs H. apply save_nft_ok in H as (v & Hv & -> & H & _). split; [|exact I].
    eapply Inv_wr; eauto. apply goodw_if; [exact Hw|]. intros Hne. apply (gc_pos _ _ Hg t v Hv). lia.
  Qed.
  (* the incoming value may be anything (a forged payload with a negative value): the sum is stored only if > 0 *)
  Lemma pres_add_nft_to_destination dst x t verify rae :
    wf_token t -> pres (add_nft_to_destination E dst (P ++ x) t verify rae) (fun _ => True).
  Proof.
    intros Hw s t' s' Hs H.
    apply (add_nft_to_destination_ok E Hc) in H as (cur & v & cv & _ & _ & _ & _ & -> & _ & _ & _ & H).
    split; [|exact I]. eapply Inv_wr; eauto. apply goodw_if; [apply wf_set_value; exact Hw|].
    intros Hne. apply (gc_pos _ _ Hg _ (v + cv)%Z); [reflexivity|lia].
  Qed.

  (* well-formedness of the tokens the functions build *)
  Lemma wf_set_meta_uris t m u : wf_token t -> t_meta t = Some m -> wf_token (set_meta t (Some (set_uris m u))).
  Proof. unfold wf_token. intros [H1 H2] Hm. rewrite Hm in H2. split; [exact H1|exact H2]. Qed.
  Lemma wf_set_meta_attributes t m a : wf_token t -> t_meta t = Some m -> wf_token (set_meta t (Some (set_attributes m a))).
  Proof. unfold wf_token. intros [H1 H2] Hm. rewrite Hm in H2. split; [exact H1|exact H2]. Qed.
  Lemma wf_created q next a2 caller roy a4 uris a5 :
    wf_token {| t_type := C.NonFungible; t_value := Some q; t_props := [];
                t_meta := Some {| md_nonce := u64 next; md_name := a2; md_creator := caller; md_royalties := u32 roy;
                                  md_hash := a4; md_uris := uris; md_attributes := a5 |};
                t_reserved := [] |}.
  Proof.
    unfold wf_token, wf_metadata. cbn. split; [reflexivity|]. split; [apply u64_lt|].
    unfold u32, two32. apply N.mod_lt. discriminate.
  Qed.
End Pres.

(* ---------------- the tactic ---------------- *)
Ltac pwf_solve :=
  first
    [ assumption
    | apply wf_set_value; pwf_solve
    | apply wf_set_props; pwf_solve
    | apply wf_created
    | match goal with
      | |- wf_token (set_meta _ (Some (set_uris _ _))) => eapply wf_set_meta_uris; [pwf_solve|eassumption]
      | |- wf_token (set_meta _ (Some (set_attributes _ _))) => eapply wf_set_meta_attributes; [pwf_solve|eassumption]
      end ].

Create HintDb pres discriminated.

Ltac pres_leaf E Hc Hg :=
  first
    [ apply (pres_guard E)
    | apply (pres_ret_eq E)
    | apply (pres_fail E)
    | apply (pres_lift_opt E)
    | apply (pres_check_basic E)
    | apply (pres_arg E)
    | apply (pres_args_from E)
    | apply (pres_dep E)
    | apply (pres_load_account E)
    | apply (pres_save_account E)
    | apply (pres_marshal_tok E)
    | apply (pres_unmarshal_tok E Hc)
    | apply (pres_get_acct E)
    | apply (pres_retrieve E)
    | apply (pres_check_allowed E)
    | apply (pres_check_payable E)
    | apply (pres_get_latest_nonce E)
    | apply (pres_get_roles E)
    | apply (pres_get_esdt_data E Hc)
    | apply (pres_get_nft_on_sender E Hc)
    | apply (pres_save_roles E)
    | apply (pres_save_latest_nonce E)
    | apply (pres_add_to_esdt_balance E Hc _ Hg)
    | apply (pres_val_of E)
    | apply (pres_meta_of E)
    | apply (pres_alloc E)
    | apply (pres_save_nft E Hc _ Hg); pwf_solve
    | apply (pres_save_esdt_data_props E Hc _ Hg); [pwf_solve|assumption]
    | apply (pres_add_nft_to_destination E Hc _ Hg); pwf_solve
    | apply (pres_save_kv E); first [apply goodw_nil | assumption]
    | apply (pres_upd_acct E); reflexivity
    | solve [eauto with pres] ].

Ltac pres_intro :=
  let a := fresh "a" in let H := fresh "Hq" in
  intros a H; cbv beta in H;
  repeat match goal with H : _ /\ _ |- _ => destruct H end.

Ltac pres_step0 E Hc Hg :=
  cbv beta iota zeta;
  lazymatch goal with
  | |- pres _ _ (bind (if _ then _ else _) _) _ => fail
  | |- pres _ _ (bind _ _) _ =>
      eapply (pres_bind E); [pres_leaf E Hc Hg|pres_intro]
  | |- pres _ _ (ret _) _ => apply (pres_ret E); cbv beta; try exact I
  | |- pres _ _ (fail _) _ => apply (pres_fail E)
  | |- pres _ _ panic _ => apply (pres_panic E)
  | |- pres _ _ (if ?b then _ else _) _ => destruct b eqn:?
  | |- pres _ _ (match ?x with _ => _ end) _ => destruct x
  | |- pres _ _ _ (fun _ => True) => eapply (pres_true E); pres_leaf E Hc Hg
  | |- pres _ _ _ _ => eapply (pres_weaken E); [pres_leaf E Hc Hg|intros ? ?; cbv beta in *]
  end.
Ltac pres_ifT E :=
  cbv beta iota zeta;
  lazymatch goal with
  | |- pres _ _ (bind (if ?b then _ else _) _) _ =>
      eapply (pres_bind E) with (Q := fun _ => True); [destruct b eqn:?|intros ? _]
  end.
Ltac pres_step E Hc Hg := first [pres_step0 E Hc Hg | pres_ifT E].
Ltac pres_tac E Hc Hg := repeat (pres_step E Hc Hg).

(* ---------------- the 23 functions ---------------- *)
Section Funcs.
  Variable E : env.
  Hypothesis Hc : codec_ok (cdc E).
  Variable good : token -> Prop.
  Hypothesis Hg : good_closed E good.
  Notation T := (fun _ => True).
  Notation PR := (@pres E good _).

  Lemma pres_check_local_action i cost : PR (check_local_action i cost) T.
  Proof. unfold check_local_action. pres_tac E Hc Hg. Qed.
  Lemma pres_check_create_burn_add i cost : PR (check_create_burn_add i cost) T.
  Proof. unfold check_create_burn_add. pres_tac E Hc Hg. Qed.
  Lemma pres_check_system_one_arg i : PR (check_system_one_arg i) T.
  Proof. unfold check_system_one_arg. pres_tac E Hc Hg. Qed.
  Hint Resolve pres_check_local_action pres_check_create_burn_add pres_check_system_one_arg : pres.

  Lemma pres_f_local_mint i : PR (f_local_mint E i) T.
  Proof. unfold f_local_mint. pres_tac E Hc Hg. Qed.
  Lemma pres_f_local_burn i : PR (f_local_burn E i) T.
  Proof. unfold f_local_burn. pres_tac E Hc Hg. Qed.
  Lemma pres_f_esdt_burn i : PR (f_esdt_burn E i) T.
  Proof. unfold f_esdt_burn. pres_tac E Hc Hg. Qed.
  Lemma pres_f_nft_add_quantity i : PR (f_nft_add_quantity E i) T.
  Proof. unfold f_nft_add_quantity. pres_tac E Hc Hg. Qed.
  Lemma pres_f_nft_burn i : PR (f_nft_burn E i) T.
  Proof. unfold f_nft_burn. pres_tac E Hc Hg. Qed.
  Lemma pres_f_nft_add_uri i : PR (f_nft_add_uri E i) T.
  Proof. unfold f_nft_add_uri. pres_tac E Hc Hg. Qed.
  Lemma pres_f_nft_update_attributes i : PR (f_nft_update_attributes E i) T.
  Proof. unfold f_nft_update_attributes. pres_tac E Hc Hg. Qed.
  Lemma pres_f_nft_create i : PR (f_nft_create E i) T.
  Proof. unfold f_nft_create. pres_tac E Hc Hg. Qed.
  Lemma pres_f_freeze_wipe fr wp i : PR (f_freeze_wipe E fr wp i) T.
  Proof. unfold f_freeze_wipe. pres_tac E Hc Hg. Qed.
  Lemma pres_f_pause p i : PR (f_pause E p i) T.
  Proof.
    unfold f_pause. pres_tac E Hc Hg.
    eapply (pres_bind E); [apply (pres_save_kv E); apply (goodw_flag E _ Hg)|pres_intro].
    pres_tac E Hc Hg.
  Qed.
  Lemma pres_f_roles set i : PR (f_roles E set i) T.
  Proof. unfold f_roles. pres_tac E Hc Hg. Qed.
  Lemma pres_delete_create_role a tok : PR (delete_create_role E a (RP ++ tok)) T.
  Proof. unfold delete_create_role. pres_tac E Hc Hg. Qed.
  Lemma pres_add_create_role a tok : PR (add_create_role E a (RP ++ tok)) T.
  Proof. unfold add_create_role. pres_tac E Hc Hg. Qed.
  Hint Resolve pres_delete_create_role pres_add_create_role : pres.
  Lemma pres_f_create_role_transfer i : PR (f_create_role_transfer E i) T.
  Proof. unfold f_create_role_transfer. pres_tac E Hc Hg. Qed.
  Lemma pres_f_change_owner i : PR (f_change_owner E i) T.
  Proof. unfold f_change_owner. pres_tac E Hc Hg. Qed.
  Lemma pres_f_claim_rewards i : PR (f_claim_rewards E i) T.
  Proof. unfold f_claim_rewards. pres_tac E Hc Hg. Qed.
  Lemma pres_f_set_user_name i : PR (f_set_user_name E i) T.
  Proof. unfold f_set_user_name. pres_tac E Hc Hg. Qed.

  Lemma pres_skv_loop a gp : forall n pairs use, (length pairs <= n)%nat -> PR (skv_loop E a gp pairs use) T.
  Proof.
    induction n as [|n IH]; intros pairs use Hl.
    - destruct pairs; [|simpl in Hl; lia]. cbn [skv_loop]. apply (pres_ret E). exact I.
    - destruct pairs as [|k [|v rest]]; cbn [skv_loop].
      + apply (pres_ret E). exact I.
      + apply (pres_panic E).
      + assert (Hr : (length rest <= n)%nat) by (simpl in Hl; lia).
        pres_tac E Hc Hg.
        all: try solve [apply IH; exact Hr].
        all: eapply (pres_bind E); [apply (pres_save_kv E); apply (goodw_allowed E); assumption|pres_intro];
          apply IH; exact Hr.
  Qed.
  Lemma pres_f_save_key_value i : PR (f_save_key_value E i) T.
  Proof.
    unfold f_save_key_value. pres_tac E Hc Hg.
    eapply (pres_bind E); [apply (pres_skv_loop _ _ (length (i_args i))); lia|pres_intro].
    pres_tac E Hc Hg.
  Qed.

  (* ---- transfers ---- *)
  Lemma pres_f_esdt_transfer i : PR (f_esdt_transfer E i) T.
  Proof. unfold f_esdt_transfer. pres_tac E Hc Hg. Qed.

  Lemma pres_f_nft_transfer_sender i : PR (f_nft_transfer_sender E i) T.
  Proof. unfold f_nft_transfer_sender. pres_tac E Hc Hg. Qed.
  Lemma pres_f_nft_transfer i : PR (f_nft_transfer E i) T.
  Proof.
    unfold f_nft_transfer. do 2 (pres_step0 E Hc Hg).
    destruct (beqb (i_caller i) (i_rcpt i)); [apply pres_f_nft_transfer_sender|].
    pres_tac E Hc Hg.
  Qed.

  Lemma pres_transfer_one_sender snd caller dstLocal dst tok nonce q verify rae :
    PR (transfer_one_sender E snd caller dstLocal dst tok nonce q verify rae) T.
  Proof. unfold transfer_one_sender. pres_tac E Hc Hg. Qed.
  Lemma pres_multi_sender_loop i dstLocal dst verify :
    forall fuel idx acc logs, PR (multi_sender_loop E fuel i dstLocal dst verify idx acc logs) T.
  Proof.
    induction fuel as [|f IH]; intros idx acc logs; cbn [multi_sender_loop].
    - apply (pres_ret E). exact I.
    - pres_tac E Hc Hg.
      eapply (pres_bind E); [apply pres_transfer_one_sender|]. pres_intro. cbv zeta. apply IH.
  Qed.
  Lemma pres_multi_out_args : forall l o acc, PR (multi_out_args E l o acc) T.
  Proof.
    induction l as [|[tok t] r IH]; intros o acc; cbn [multi_out_args].
    - apply (pres_ret E). exact I.
    - destruct (t_meta t) as [m|]; pres_tac E Hc Hg; apply IH.
  Qed.
  Lemma pres_f_multi_transfer_sender i : PR (f_multi_transfer_sender E i) T.
  Proof.
    unfold f_multi_transfer_sender. pres_tac E Hc Hg.
    eapply (pres_bind E); [apply pres_multi_sender_loop|]. intros [lst logs] _.
    pres_tac E Hc Hg.
    eapply (pres_bind E); [apply pres_multi_out_args|]. intros [args' o] _.
    pres_tac E Hc Hg.
  Qed.
  Lemma pres_multi_dest_loop i minArgs : forall fuel idx logs, PR (multi_dest_loop E fuel i minArgs idx logs) T.
  Proof.
    induction fuel as [|f IH]; intros idx logs; cbn [multi_dest_loop].
    - apply (pres_ret E). exact I.
    - pres_tac E Hc Hg. all: apply IH.
  Qed.
  Lemma pres_f_multi_transfer i : PR (f_multi_transfer E i) T.
  Proof.
    unfold f_multi_transfer. do 2 (pres_step0 E Hc Hg).
    destruct (beqb (i_caller i) (i_rcpt i)); [apply pres_f_multi_transfer_sender|].
    pres_tac E Hc Hg.
    eapply (pres_bind E); [apply pres_multi_dest_loop|]. intros logs _.
    pres_tac E Hc Hg.
  Qed.

  (* ---- the dispatch ---- *)
  Theorem pres_exec f i : PR (exec E f i) T.
  Proof.
    unfold exec.
    repeat match goal with |- pres _ _ (if beqb f ?c then _ else _) _ => destruct (beqb f c) end.
    all: first
      [ apply pres_f_claim_rewards | apply pres_f_change_owner | apply pres_f_set_user_name
      | apply pres_f_save_key_value | apply pres_f_pause | apply pres_f_esdt_transfer
      | apply pres_f_esdt_burn | apply pres_f_freeze_wipe | apply pres_f_roles
      | apply pres_f_local_burn | apply pres_f_local_mint | apply pres_f_nft_add_quantity
      | apply pres_f_nft_burn | apply pres_f_nft_create | apply pres_f_create_role_transfer
      | apply pres_f_nft_update_attributes | apply pres_f_nft_add_uri | apply pres_f_nft_transfer
      | apply pres_f_multi_transfer | apply (pres_fail E) ].
  Qed.
End Funcs.

(* a TokInv invariant is preserved by every successful call of every built-in function, for every input *)
Theorem TokInv_exec E good f i s o s' :
  codec_ok (cdc E) -> good_closed E good -> TokInv E good s -> exec E f i s = (Ok o, s') -> TokInv E good s'.
Proof. intros Hc Hg Hs Hx. apply (pres_exec E Hc good Hg f i s o s' Hs Hx). Qed.

(* ================================================================ *)
(* Instance 1: no stored balance is negative                          *)
(* ================================================================ *)
Definition nonneg_tok (t : token) : Prop := (0 <= val_or_0 t)%Z.
Definition NonNeg (E : env) (s : mstate) : Prop :=
  forall a x t, tok_at E s a (P ++ x) = Some t -> (0 <= val_or_0 t)%Z.
(* codec fact: if the 2-byte pause flag decodes as a token at all, its value is not negative *)
Definition flag_nonneg (c : codec) : Prop := forall f t, dec_tok c (flag_bytes f) = Some t -> (0 <= val_or_0 t)%Z.

Lemma NonNeg_TokInv E s : NonNeg E s <-> TokInv E nonneg_tok s.
Proof. split; intros H; exact H. Qed.
Lemma nonneg_closed E : flag_nonneg (cdc E) -> good_closed E nonneg_tok.
Proof.
  intros Hf. constructor; unfold nonneg_tok.
  - intros t v Hv Hp. unfold val_or_0. rewrite Hv. lia.
  - intros t v' _ _ Hv _. exact Hv.
  - intros t v p [Hr| ->] _ _; [exact Hr|cbn; lia].
  - exact Hf.
Qed.

Theorem NonNeg_exec E f i s o s' :
  codec_ok (cdc E) -> flag_nonneg (cdc E) -> NonNeg E s -> exec E f i s = (Ok o, s') -> NonNeg E s'.
Proof. intros Hc Hf Hs Hx. exact (TokInv_exec E nonneg_tok f i s o s' Hc (nonneg_closed E Hf) Hs Hx). Qed.

(* in terms of the observable [balance]: every protocol token cell (fungible P ++ tok, NFT P ++ tok ++ nonce) *)
Lemma NonNeg_balance E s a x : NonNeg E s -> (0 <= balance E s a (P ++ x))%Z.
Proof.
  intros H. destruct (tok_at E s a (P ++ x)) as [t|] eqn:Et.
  - rewrite (balance_tok_at E _ _ _ _ Et). eapply H; eauto.
  - rewrite (balance_tok_at_none E _ _ _ Et). lia.
Qed.
Lemma NonNeg_balance_nft E s a tok n : NonNeg E s -> (0 <= balance E s a (nft_key (P ++ tok) n))%Z.
Proof. rewrite nft_key_app. apply NonNeg_balance. Qed.
Lemma balance_NonNeg E s : (forall a x, (0 <= balance E s a (P ++ x))%Z) -> NonNeg E s.
Proof. intros H a x t Ht. rewrite <- (balance_tok_at E _ _ _ _ Ht). apply H. Qed.

Theorem balances_nonneg E f i s o s' :
  codec_ok (cdc E) -> flag_nonneg (cdc E) ->
  (forall a x, (0 <= balance E s a (P ++ x))%Z) -> exec E f i s = (Ok o, s') ->
  forall a x, (0 <= balance E s' a (P ++ x))%Z.
Proof.
  intros Hc Hf Hs Hx a x. apply NonNeg_balance. eapply NonNeg_exec; eauto. apply balance_NonNeg. exact Hs.
Qed.

(* ================================================================ *)
(* Instance 2: a stored value is positive, unless the entry is a       *)
(* fungible one kept for its property (frozen) flag                    *)
(* ================================================================ *)
Definition positive_tok (t : token) : Prop :=
  (0 < val_or_0 t)%Z \/ (t_value t = Some 0%Z /\ t_type t = C.Fungible /\ all_zero (t_props t) = false).
Definition StoredPositive (E : env) (s : mstate) : Prop :=
  forall a x t, tok_at E s a (P ++ x) = Some t -> positive_tok t.
Definition flag_positive (c : codec) : Prop := forall f t, dec_tok c (flag_bytes f) = Some t -> positive_tok t.

Lemma positive_closed E : flag_positive (cdc E) -> good_closed E positive_tok.
Proof.
  intros Hf. constructor; unfold positive_tok.
  - intros t v Hv Hp. left. unfold val_or_0. rewrite Hv. exact Hp.
  - intros t v' _ Hty Hv Hne. cbn [t_value t_type t_props set_value]. unfold val_or_0. cbn [t_value set_value].
    destruct (Z.eqb_spec v' 0) as [->|Hnz]; [right|left; lia]. cbn [andb] in Hne. auto.
  - intros t v p Hr Hv Hne. cbn [t_value t_type t_props set_props]. unfold val_or_0 in *. cbn [t_value set_props].
    assert (Hcase : (0 < v)%Z \/ (v = 0%Z /\ t_type t = C.Fungible)).
    { destruct Hr as [[Hp|(H0 & Hty & _)]| ->].
      - rewrite Hv in Hp. left. exact Hp.
      - right. split; [congruence|exact Hty].
      - right. cbn in Hv. split; [congruence|reflexivity]. }
    destruct Hcase as [Hp|[-> Hty]]; [left; rewrite Hv; exact Hp|right].
    cbn [Z.eqb andb] in Hne. auto.
  - exact Hf.
Qed.

Theorem StoredPositive_exec E f i s o s' :
  codec_ok (cdc E) -> flag_positive (cdc E) -> StoredPositive E s -> exec E f i s = (Ok o, s') -> StoredPositive E s'.
Proof. intros Hc Hf Hs Hx. exact (TokInv_exec E positive_tok f i s o s' Hc (positive_closed E Hf) Hs Hx). Qed.

Lemma StoredPositive_NonNeg E s : StoredPositive E s -> NonNeg E s.
Proof.
  intros H a x t Ht. destruct (H a x t Ht) as [Hp|(H0 & _)]; [lia|]. unfold val_or_0. rewrite H0. lia.
Qed.
(* read as: a cell that is present and decodes never shows balance 0 unless it is a fungible entry with
   property bytes set (the frozen marker) *)
Lemma StoredPositive_zero E s a x t :
  StoredPositive E s -> tok_at E s a (P ++ x) = Some t -> balance E s a (P ++ x) = 0%Z ->
  t_type t = C.Fungible /\ all_zero (t_props t) = false.
Proof.
  intros H Ht Hb. rewrite (balance_tok_at E _ _ _ _ Ht) in Hb.
  destruct (H a x t Ht) as [Hp|(_ & Hty & Hz)]; [lia|auto].
Qed.

(* the empty state satisfies both *)
Lemma TokInv_no_cells E good s : (forall a k, cell s a k = []) -> TokInv E good s.
Proof. intros H a x t Ht. unfold tok_at in Ht. rewrite H in Ht. discriminate. Qed.

Print Assumptions TokInv_exec.
Print Assumptions NonNeg_exec.
Print Assumptions balances_nonneg.
Print Assumptions StoredPositive_exec.
