(* C02, part 4 (histories): the per-call invariants of C02_NonNeg.v lifted to the world model (Ledger/World.v):
   several shards, in-flight messages, delivery, re-delivery, refunds, rollback on error.
     WTokInv c good w  :=  every shard of w satisfies TokInv good
   is preserved by every world step (wstep_cases: a step either changes no shard, or commits the post-state of ONE
   successful exec on ONE shard) and hence by wrun for ALL operation lists -- no well-formedness of the operations is
   needed (unknown shards / message ids / function names, forged payloads, re-deliveries are all covered). *)
From Coq Require Import Lia.
From EV Require Import Base.Bytes Base.Store Base.Monad gen.Consts Codec.Types Helpers.Helpers
  Ledger.Types Ledger.Env Ledger.Funcs Ledger.Transfers Ledger.World
  LedgerProofs.Defs LedgerProofs.EnvSpec LedgerProofs.WorldSpec LedgerProofs.C02_NonNeg.

Definition WTokInv (c : wcfg) (good : token -> Prop) (w : world) : Prop :=
  forall sh, TokInv (env_at c sh) good (mk_state (shard_accts w sh)).
Definition WNonNeg (c : wcfg) (w : world) : Prop :=
  forall sh, NonNeg (env_at c sh) (mk_state (shard_accts w sh)).
Definition WStoredPositive (c : wcfg) (w : world) : Prop :=
  forall sh, StoredPositive (env_at c sh) (mk_state (shard_accts w sh)).

Section World.
  Variable c : wcfg.
  Hypothesis Hc : codec_ok (wc_cdc c).
  Variable good : token -> Prop.
  (* closure of [good] for one (hence every) shard environment: only the codec matters *)
  Hypothesis Hg : forall sh, good_closed (env_at c sh) good.

  (* committing the post-state of a successful exec on shard sh *)
  Lemma WTokInv_commit w sh fn i o s' ms fl nid :
    WTokInv c good w ->
    exec (env_at c sh) fn i (mk_state (shard_accts w sh)) = (Ok o, s') ->
    WTokInv c good (with_msgs (set_shard w sh (accts s')) ms fl nid).
  Proof.
    intros Hw Hx sh0. rewrite shard_accts_with_msgs.
    destruct (N.eq_dec sh0 sh) as [->|Hne].
    - destruct (Nat.lt_ge_cases (N.to_nat sh) (nshards w)) as [Hlt|Hge].
      + rewrite (shard_accts_set_shard_eq _ _ _ Hlt).
        apply (TokInv_accts _ _ s'); [reflexivity|].
        eapply (TokInv_exec (env_at c sh) good); [exact Hc|apply Hg|apply Hw|exact Hx].
      + (* a shard index beyond the shard list: set_shard changes nothing *)
        unfold shard_accts. rewrite shards_set_shard, set_nth_out by exact Hge. apply Hw.
    - rewrite (shard_accts_set_shard_ne _ _ _ _ Hne). apply Hw.
  Qed.

  Theorem WTokInv_wstep w op : WTokInv c good w -> WTokInv c good (wstep c w op).
  Proof.
    intros Hw. destruct (wstep_cases c w op) as [-> | id gas m _ _ -> | sh fn i o s' _ _ Hx -> | id gas m o s' consume _ _ sh _ Hx -> | id gas m o s' _ _ _ sh _ Hx ->].
    - exact Hw.
    - intros sh. rewrite shard_accts_with_msgs. apply Hw.
    - eapply WTokInv_commit; eauto.
    - eapply WTokInv_commit; eauto.
    - eapply WTokInv_commit; eauto.
  Qed.

  Theorem WTokInv_wrun ops : forall w, WTokInv c good w -> WTokInv c good (wrun c w ops).
  Proof.
    intros w Hw. apply (wrun_invariant c (WTokInv c good) (fun _ => True)); [|exact Hw|].
    - intros w0 op H0 _. apply WTokInv_wstep. exact H0.
    - apply Forall_forall. intros; exact I.
  Qed.
End World.

(* ---- no stored balance is ever negative, over arbitrary operation sequences ---- *)
Theorem balances_nonneg_wstep c w op :
  codec_ok (wc_cdc c) -> flag_nonneg (wc_cdc c) -> WNonNeg c w -> WNonNeg c (wstep c w op).
Proof.
  intros Hc Hf Hw. apply (WTokInv_wstep c Hc nonneg_tok); [|exact Hw]. intros sh. apply nonneg_closed. exact Hf.
Qed.
Theorem balances_nonneg_histories c ops w :
  codec_ok (wc_cdc c) -> flag_nonneg (wc_cdc c) -> WNonNeg c w -> WNonNeg c (wrun c w ops).
Proof.
  intros Hc Hf Hw. apply (WTokInv_wrun c Hc nonneg_tok); [|exact Hw]. intros sh. apply nonneg_closed. exact Hf.
Qed.
(* the same in terms of the observable: every protocol token cell of every account on every shard *)
Corollary balances_nonneg_histories_balance c ops w :
  codec_ok (wc_cdc c) -> flag_nonneg (wc_cdc c) -> WNonNeg c w ->
  forall sh a x, (0 <= balance (env_at c sh) (mk_state (shard_accts (wrun c w ops) sh)) a (P ++ x))%Z.
Proof. intros Hc Hf Hw sh a x. apply NonNeg_balance. apply balances_nonneg_histories; assumption. Qed.

Theorem stored_positive_histories c ops w :
  codec_ok (wc_cdc c) -> flag_positive (wc_cdc c) -> WStoredPositive c w -> WStoredPositive c (wrun c w ops).
Proof.
  intros Hc Hf Hw. apply (WTokInv_wrun c Hc positive_tok); [|exact Hw]. intros sh. apply positive_closed. exact Hf.
Qed.

(* a world whose shards hold no accounts (the genesis of every harness history) satisfies both invariants; so do,
   by the theorems above, all worlds reachable from it *)
Definition empty_world (n : nat) : world :=
  {| shards := repeat [] n; inflight := []; failed := []; next_id := 0 |}.
Lemma shard_accts_empty_world n sh : shard_accts (empty_world n) sh = [].
Proof.
  unfold shard_accts, empty_world. cbn [shards]. generalize (N.to_nat sh). clear sh.
  induction n as [|n IH]; intros [|k]; simpl; auto.
Qed.
Lemma WTokInv_empty_world c good n : WTokInv c good (empty_world n).
Proof.
  intros sh. apply TokInv_no_cells. intros a k. rewrite shard_accts_empty_world.
  unfold cell, acct, mk_state. cbn [accts aget]. apply sget_nil.
Qed.
Corollary balances_nonneg_reachable c n ops :
  codec_ok (wc_cdc c) -> flag_nonneg (wc_cdc c) ->
  forall sh a x, (0 <= balance (env_at c sh) (mk_state (shard_accts (wrun c (empty_world n) ops) sh)) a (P ++ x))%Z.
Proof. intros Hc Hf. apply balances_nonneg_histories_balance; auto. apply (WTokInv_empty_world c nonneg_tok). Qed.

Print Assumptions balances_nonneg_wstep.
Print Assumptions balances_nonneg_histories.
Print Assumptions stored_positive_histories.
Print Assumptions balances_nonneg_reachable.
