(* C15 (well-formed token state), part 1: the representation invariant [Inv E s] of one shard state, the
   Hoare-style judgement [keeps E m Q] ("from an Inv state, a successful run of m re-establishes Inv and its
   result satisfies Q"; errors and panics are outside the statement: the node rolls them back), its rules for
   the monad combinators, the primitives and the shared helpers of Ledger/Env.v, and the tactic [keeps_tac].
   The architecture is the one of LedgerProofs/NoPanic.v ([safe] / [StoreOK]) with a stronger state predicate.

   [Inv E s] is a predicate on every non-empty storage cell (account a, key k, value v) separately
   ([cell_ok E a k v]); it mentions no other part of the state, so it is preserved by a write as soon as the
   written (a, k, v) is [goodw].  The clauses:
     (I1) a key with the protected prefix is P ++ x, RP ++ x or NP ++ x;
     (I2) a cell under P ++ x decodes as a token entry -- or is the 2-byte pause flag in the system account
          (the fourth entry kind, DESIGN.md C15 / finding F8);
     (I3) the entry's value is > 0, or it is 0 and the entry is fungible, without metadata and frozen;
     (I4) type Fungible <-> no metadata; an entry with metadata m sits under nft_key (P ++ tok) (md_nonce m);
     (I5) properties are absent, 00 00 or 01 00;
     (I6) a cell under RP ++ x decodes as a non-empty role list without duplicates;
     (I7) a cell under NP ++ x is the canonical big-endian encoding of a counter < 2^64 (non-empty, so > 0).
   The second component of a final result, [out_ok E i o], describes the output transfers (what the world
   model turns into cross-shard messages): NFT payloads that leave the shard are well-shaped. *)
From Coq Require Import Lia.
From EV Require Import Base.Bytes Base.Store Base.Monad gen.Consts Codec.Types Helpers.Helpers
  Ledger.Types Ledger.Env Ledger.Funcs Ledger.Transfers LedgerProofs.Defs LedgerProofs.EnvSpec.

(* the 2-byte pause flag is not a token entry: it does not decode (true of the protobuf codec) *)
Definition flag_undec (c : codec) : Prop := forall f, dec_tok c (flag_bytes f) = None.

(* ---------------- entries ---------------- *)
Definition props_ok (p : bytes) : Prop := p = [] \/ p = flag_bytes false \/ p = flag_bytes true.
(* what does not depend on the value or the key *)
Definition shape_ok (t : token) : Prop :=
  (t_type t = C.Fungible <-> t_meta t = None) /\ props_ok (t_props t).
Definition value_ok (t : token) : Prop :=
  exists v, t_value t = Some v
    /\ ((0 < v)%Z \/ (v = 0%Z /\ t_type t = C.Fungible /\ t_meta t = None /\ frozen_props (t_props t) = true)).
Definition keyed (k : bytes) (t : token) : Prop :=
  forall m, t_meta t = Some m -> exists tok, k = nft_key (P ++ tok) (md_nonce m).
Definition entry_ok (k : bytes) (t : token) : Prop := value_ok t /\ shape_ok t /\ keyed k t.
(* what a function may assume about an entry it has read (the default token stands for an absent cell) *)
Definition valnn (t : token) : Prop :=
  forall v, t_value t = Some v -> (0 <= v)%Z /\ (v = 0%Z -> t_meta t = None).

(* ---------------- cells and states ---------------- *)
Definition cell_ok (E : env) (a k v : bytes) : Prop :=
  (prefix_of C.ElrondProtectedKeyPrefix k = true ->
     (exists x, k = P ++ x) \/ (exists x, k = RP ++ x) \/ (exists x, k = NP ++ x))
  /\ (forall x, k = P ++ x ->
        (a = SYS /\ exists f, v = flag_bytes f) \/ (exists t, dec_tok (cdc E) v = Some t /\ entry_ok k t))
  /\ (forall x, k = RP ++ x -> exists r, dec_rol (cdc E) v = Some r /\ r <> [] /\ NoDup r)
  /\ (forall x, k = NP ++ x -> exists n, v = u64_bytes n /\ (n < two64)%N).

Definition Inv (E : env) (s : mstate) : Prop := forall a k, cell s a k <> [] -> cell_ok E a k (cell s a k).

(* ---------------- messages and outputs ---------------- *)
(* an NFT payload: IF it decodes, the token is well-shaped (value and key are fixed by the receiving side) *)
Definition payload_shaped (cd : codec) (b : bytes) : Prop := forall t, dec_tok cd b = Some t -> shape_ok t.
Fixpoint triples_shaped (cd : codec) (n : nat) (l : list bytes) : Prop :=
  match n with
  | O => True
  | S n' => match l with
            | _ :: nb :: b :: r => ((0 < bigU64 nb)%N -> payload_shaped cd b) /\ triples_shaped cd n' r
            | _ => True
            end
  end.
Definition nft_args_shaped (cd : codec) (A : list bytes) : Prop :=
  forall b, nth_error A 3 = Some b -> payload_shaped cd b.
Definition multi_args_shaped (cd : codec) (A : list bytes) : Prop :=
  forall a0, nth_error A 0 = Some a0 -> triples_shaped cd (N.to_nat (bigU64 a0)) (skipn 1 A).
(* a cross-shard message (function name, arguments) *)
Definition msg_ok (cd : codec) (F : bytes) (A : list bytes) : Prop :=
  F <> C.BuiltInFunctionSetESDTRole
  /\ (F = C.BuiltInFunctionESDTNFTTransfer -> nft_args_shaped cd A)
  /\ (F = C.BuiltInFunctionMultiESDTNFTTransfer -> multi_args_shaped cd A).

(* the function names under which the built-ins emit protocol messages themselves *)
Definition emit_names : list bytes :=
  [C.BuiltInFunctionESDTBurn; C.BuiltInFunctionESDTNFTCreateRoleTransfer; C.BuiltInFunctionSetUserName;
   C.BuiltInFunctionESDTTransfer; C.BuiltInFunctionESDTNFTTransfer; C.BuiltInFunctionMultiESDTNFTTransfer].
(* one output transfer to [dest]: no data; or addressed to the recipient account present on this shard / to an
   address of this shard (a local contract call: never a cross-shard message); or a protocol message *)
Definition tr_ok (E : env) (i : input) (dest : bytes) (t : transfer) : Prop :=
  tr_data t = []
  \/ (i_dst i = true /\ dest = i_rcpt i)
  \/ shard_of E dest = self_shard E
  \/ (exists F A, tr_data t = msg_data F A /\ In F emit_names /\ msg_ok (cdc E) F A).
Definition out_ok (E : env) (i : input) (o : output) : Prop :=
  forall oa t, In oa (o_accounts o) -> In t (oc_transfers oa) -> tr_ok E i (oc_addr oa) t.

(* ---------------- discipline of one call ---------------- *)
(* the destination-side path of ESDTNFTTransfer / MultiESDTNFTTransfer is taken iff the caller's account is not
   on the executing shard and caller <> recipient *)
Definition dest_side (i : input) : Prop := i_snd i = false /\ i_caller i <> i_rcpt i.
Definition roles_disciplined (E : env) (s : mstate) (f : bytes) (i : input) : Prop :=
  f = C.BuiltInFunctionSetESDTRole ->
  forall tok, nth_error (i_args i) 0 = Some tok -> NoDup (roles_at E s (i_rcpt i) tok ++ skipn 1 (i_args i)).
Definition payload_disciplined (E : env) (f : bytes) (i : input) : Prop :=
  dest_side i ->
  (f = C.BuiltInFunctionESDTNFTTransfer -> nft_args_shaped (cdc E) (i_args i))
  /\ (f = C.BuiltInFunctionMultiESDTNFTTransfer -> multi_args_shaped (cdc E) (i_args i)).
Definition disciplined (E : env) (s : mstate) (f : bytes) (i : input) : Prop :=
  roles_disciplined E s f i /\ payload_disciplined E f i.

(* the judgement *)
Definition keeps (E : env) {A} (m : @M err mstate A) (Q : A -> Prop) : Prop :=
  forall s, Inv E s ->
    match m s with
    | (Ok a, s') => Inv E s' /\ Q a
    | _ => True
    end.

(* ---------------- pure facts ---------------- *)
Lemma props_ok_nil : props_ok []. Proof. left. reflexivity. Qed.
Lemma props_ok_flag f : props_ok (flag_bytes f). Proof. destruct f; [right; right|right; left]; reflexivity. Qed.
Lemma props_ok_not_zero p : props_ok p -> all_zero p = false -> frozen_props p = true.
Proof.
  intros [ -> | [ -> | -> ] ] H.
  - rewrite all_zero_nil in H. discriminate.
  - rewrite all_zero_flag_bytes in H. discriminate.
  - apply frozen_props_flag_bytes.
Qed.

Lemma shape_default : shape_ok default_tok.
Proof. split; [split; reflexivity|apply props_ok_nil]. Qed.
Lemma valnn_default : valnn default_tok.
Proof. intros v [= <-]. split; [lia|reflexivity]. Qed.
Lemma keyed_nometa k t : t_meta t = None -> keyed k t.
Proof. intros H m Hm. congruence. Qed.
Lemma keyed_default k : keyed k default_tok.
Proof. apply keyed_nometa. reflexivity. Qed.
Lemma shape_set_value t v : shape_ok t -> shape_ok (set_value t v). Proof. exact (fun H => H). Qed.
Lemma shape_set_props t f : shape_ok t -> shape_ok (set_props t (flag_bytes f)).
Proof. intros [H _]. split; [exact H|apply props_ok_flag]. Qed.
Lemma shape_set_meta t m m' : shape_ok t -> t_meta t = Some m -> shape_ok (set_meta t (Some m')).
Proof.
  intros [[H1 H2] Hp] Hm. split; [|exact Hp]. cbn [t_type t_meta set_meta]. split; intros H.
  - apply H1 in H. congruence.
  - discriminate.
Qed.
Lemma keyed_set_value k t v : keyed k t -> keyed k (set_value t v). Proof. exact (fun H => H). Qed.
Lemma keyed_set_props k t p : keyed k t -> keyed k (set_props t p). Proof. exact (fun H => H). Qed.
Lemma valnn_set_props t p : valnn t -> valnn (set_props t p). Proof. exact (fun H => H). Qed.
Lemma entry_valnn k t : entry_ok k t -> valnn t.
Proof.
  intros ((v & Hv & Hc) & _ & _) v' Hv'. rewrite Hv in Hv'. injection Hv' as <-.
  destruct Hc as [Hp|(-> & _ & Hm & _)]; [split; lia|split; [lia|intros _; exact Hm]].
Qed.
Lemma shape_created q p next a2 caller roy a4 uris a5 r :
  shape_ok {| t_type := C.NonFungible; t_value := q; t_props := p;
              t_meta := Some {| md_nonce := next; md_name := a2; md_creator := caller; md_royalties := roy;
                                md_hash := a4; md_uris := uris; md_attributes := a5 |};
              t_reserved := r |} <-> props_ok p.
Proof.
  unfold shape_ok. cbn [t_type t_meta t_props]. split; [intros [_ H]; exact H|]. intros H. split; [|exact H].
  split; intros H'; discriminate.
Qed.

(* distinctness of the emitted names from the three names [msg_ok] looks at *)
Lemma msg_ok_plain cd F A :
  F <> C.BuiltInFunctionSetESDTRole -> F <> C.BuiltInFunctionESDTNFTTransfer ->
  F <> C.BuiltInFunctionMultiESDTNFTTransfer -> msg_ok cd F A.
Proof. intros H1 H2 H3. split; [exact H1|]. split; intros; contradiction. Qed.
Ltac const_ne := let H := fresh in intros H; vm_compute in H; discriminate.
Lemma msg_ok_burn cd A : msg_ok cd C.BuiltInFunctionESDTBurn A. Proof. apply msg_ok_plain; const_ne. Qed.
Lemma msg_ok_role_transfer cd A : msg_ok cd C.BuiltInFunctionESDTNFTCreateRoleTransfer A.
Proof. apply msg_ok_plain; const_ne. Qed.
Lemma msg_ok_user_name cd A : msg_ok cd C.BuiltInFunctionSetUserName A. Proof. apply msg_ok_plain; const_ne. Qed.
Lemma msg_ok_esdt_transfer cd A : msg_ok cd C.BuiltInFunctionESDTTransfer A. Proof. apply msg_ok_plain; const_ne. Qed.
Lemma msg_ok_change_owner cd A : msg_ok cd C.BuiltInFunctionChangeOwnerAddress A. Proof. apply msg_ok_plain; const_ne. Qed.
Lemma msg_ok_claim cd A : msg_ok cd C.BuiltInFunctionClaimDeveloperRewards A. Proof. apply msg_ok_plain; const_ne. Qed.
Lemma msg_ok_nft cd A : nft_args_shaped cd A -> msg_ok cd C.BuiltInFunctionESDTNFTTransfer A.
Proof. intros H. split; [const_ne|]. split; [intros _; exact H|const_ne]. Qed.
Lemma msg_ok_multi cd A : multi_args_shaped cd A -> msg_ok cd C.BuiltInFunctionMultiESDTNFTTransfer A.
Proof. intros H. split; [const_ne|]. split; [const_ne|intros _; exact H]. Qed.

(* ---------------- outputs ---------------- *)
Section Out.
  Variable E : env.
  Variable i : input.
  Notation out_ok := (out_ok E i).
  Lemma out_ok_nil o : o_accounts o = [] -> out_ok o.
  Proof. intros H oa t Hoa. rewrite H in Hoa. destruct Hoa. Qed.
  Lemma out_ok_mk rc g : out_ok (mk_out rc g). Proof. apply out_ok_nil. reflexivity. Qed.
  Lemma out_ok_set_gasrem o g : out_ok o -> out_ok (set_gasrem o g). Proof. exact (fun H => H). Qed.
  Lemma out_ok_set_logs o l : out_ok o -> out_ok (set_logs o l). Proof. exact (fun H => H). Qed.
  Lemma out_ok_set_returnData o l : out_ok o -> out_ok (set_returnData o l). Proof. exact (fun H => H). Qed.
  Lemma out_ok_add_log o l : out_ok o -> out_ok (add_log o l). Proof. exact (fun H => H). Qed.
  Lemma out_ok_set_accounts_nil o : out_ok (set_accounts o []). Proof. apply out_ok_nil. reflexivity. Qed.
  Lemma out_ok_if (b : bool) o1 o2 : out_ok o1 -> out_ok o2 -> out_ok (if b then o1 else o2).
  Proof. destruct b; auto. Qed.
  Lemma out_ok_one o dest d t : tr_ok E i dest t ->
    out_ok (set_accounts o [{| oc_addr := dest; oc_delta := d; oc_transfers := [t] |}]).
  Proof.
    intros H oa t' [<-|[]] Ht. cbn [oc_transfers oc_addr] in *. destruct Ht as [<-|[]]. exact H.
  Qed.
  Lemma out_ok_aot_local sender fn args gl ct o :
    i_dst i = true -> out_ok (add_output_transfer sender fn args (i_rcpt i) gl ct o).
  Proof. intros H. unfold add_output_transfer. apply out_ok_set_gasrem, out_ok_one. right. left. auto. Qed.
  Lemma out_ok_aot_same sender fn args dst gl ct o :
    shard_of E dst = self_shard E -> out_ok (add_output_transfer sender fn args dst gl ct o).
  Proof. intros H. unfold add_output_transfer. apply out_ok_set_gasrem, out_ok_one. right. right. left. exact H. Qed.
  Lemma out_ok_aot_msg sender F A dst gl ct o :
    In F emit_names -> msg_ok (cdc E) F A -> out_ok (add_output_transfer sender F A dst gl ct o).
  Proof.
    intros H1 H2. unfold add_output_transfer. apply out_ok_set_gasrem, out_ok_one. right. right. right.
    exists F, A. cbn [tr_data]. auto.
  Qed.
  Lemma out_ok_ant_msg sender dst F A gl g ct o :
    In F emit_names -> msg_ok (cdc E) F A -> out_ok (add_nft_transfer sender dst F A gl g ct o).
  Proof.
    intros H1 H2. unfold add_nft_transfer. apply out_ok_one. right. right. right.
    exists F, A. cbn [tr_data]. auto.
  Qed.
End Out.

Section Keeps.
  Variable E : env.
  Hypothesis Hc : codec_ok (cdc E).
  Hypothesis Hflag : flag_undec (cdc E).
  Notation MT := (@M err mstate).
  Notation Inv := (Inv E).
  Notation keeps := (@keeps E _).

  (* ---------------- Inv under reads and writes ---------------- *)
  Definition goodw (a k v : bytes) : Prop := v <> [] -> cell_ok E a k v.

  Lemma Inv_accts s s' : accts s' = accts s -> Inv s -> Inv s'.
  Proof. intros H Hs a k. rewrite (cell_accts _ _ _ _ H). apply Hs. Qed.
  Lemma Inv_rd s s' : rd E s s' -> Inv s -> Inv s'.
  Proof. intros H. apply Inv_accts. apply (rd_accts E _ _ H). Qed.
  Lemma Inv_wr a k v s s' : wr E a k v s s' -> goodw a k v -> Inv s -> Inv s'.
  Proof.
    intros Hw Hg Hs a' k' Hne.
    destruct (beqb_spec a' a) as [->|Hna].
    - destruct (beqb_spec k' k) as [->|Hnk].
      + rewrite (wr_cell_eq E _ _ _ _ _ Hw) in *. apply Hg. exact Hne.
      + rewrite (wr_cell_other E _ _ _ _ _ _ _ Hw) in * by (right; exact Hnk). apply Hs. exact Hne.
    - rewrite (wr_cell_other E _ _ _ _ _ _ _ Hw) in * by (left; exact Hna). apply Hs. exact Hne.
  Qed.

  (* what Inv says about what is read *)
  Lemma Inv_tok_at s a x t : Inv s -> tok_at E s a (P ++ x) = Some t -> entry_ok (P ++ x) t.
  Proof.
    intros Hs Ht. apply (tok_at_cell E) in Ht as [Hne Hd].
    destruct (Hs _ _ Hne) as (_ & Hp & _). destruct (Hp x eq_refl) as [(_ & f & Hf)|(t' & Hd' & Ht')].
    - rewrite Hf, Hflag in Hd. discriminate.
    - rewrite Hd in Hd'. injection Hd' as <-. exact Ht'.
  Qed.
  Lemma Inv_tod s a x t : Inv s -> tok_or_default E s a (P ++ x) = Some t ->
    shape_ok t /\ keyed (P ++ x) t /\ valnn t.
  Proof.
    intros Hs Ht. apply (tod_cases E) in Ht as [(_ & -> & _)|(_ & Ht)].
    - split; [apply shape_default|]. split; [apply keyed_default|apply valnn_default].
    - pose proof (Inv_tok_at _ _ _ _ Hs Ht) as He. split; [apply He|]. split; [apply He|eapply entry_valnn; eauto].
  Qed.

  (* ---------------- good writes ---------------- *)
  Lemma goodw_nil a k : goodw a k [].
  Proof. intros H. congruence. Qed.
  Lemma goodw_entry a x t : wf_token t -> entry_ok (P ++ x) t -> goodw a (P ++ x) (enc_tok (cdc E) t).
  Proof.
    intros Hw He _. split; [intros _; left; eauto|]. split; [|split].
    - intros x' _. right. exists t. split; [apply (dec_enc_tok _ Hc); exact Hw|exact He].
    - intros x' H. exfalso. exact (P_RP_disjoint _ _ H).
    - intros x' H. exfalso. exact (P_NP_disjoint _ _ H).
  Qed.
  Lemma goodw_flag x f : goodw SYS (P ++ x) (flag_bytes f).
  Proof.
    intros _. split; [intros _; left; eauto|]. split; [|split].
    - intros x' _. left. eauto.
    - intros x' H. exfalso. exact (P_RP_disjoint _ _ H).
    - intros x' H. exfalso. exact (P_NP_disjoint _ _ H).
  Qed.
  Lemma goodw_roles a x r : NoDup r -> goodw a (RP ++ x) (enc_rol (cdc E) r).
  Proof.
    intros Hnd Hne. assert (Hr : r <> []) by (intros ->; apply Hne; apply (enc_rol_nil _ Hc)).
    split; [intros _; right; left; eauto|]. split; [|split].
    - intros x' H. exfalso. symmetry in H. exact (P_RP_disjoint _ _ H).
    - intros x' _. exists r. split; [apply (dec_enc_rol _ Hc)|auto].
    - intros x' H. exfalso. exact (RP_NP_disjoint _ _ H).
  Qed.
  Lemma goodw_counter a x n : (n < two64)%N -> goodw a (NP ++ x) (u64_bytes n).
  Proof.
    intros Hn _. split; [intros _; right; right; eauto|]. split; [|split].
    - intros x' H. exfalso. symmetry in H. exact (P_NP_disjoint _ _ H).
    - intros x' H. exfalso. symmetry in H. exact (RP_NP_disjoint _ _ H).
    - intros x' _. eauto.
  Qed.
  Lemma goodw_allowed a k v : key_allowed k = true -> goodw a k v.
  Proof.
    intros H _. split; [intros Hp; apply key_allowed_prefix in Hp; congruence|]. split; [|split]; intros x ->.
    - rewrite key_allowed_P in H. discriminate.
    - rewrite key_allowed_RP in H. discriminate.
    - rewrite key_allowed_NP in H. discriminate.
  Qed.
  (* the two deletion rules *)
  Lemma goodw_nft a x t v : wf_token t -> shape_ok t -> t_value t = Some v ->
    goodw a (nft_key (P ++ x) (tok_nonce t)) (if (v <=? 0)%Z then [] else enc_tok (cdc E) t).
  Proof.
    intros Hw Hs Hv. destruct (v <=? 0)%Z eqn:Ev; [apply goodw_nil|]. rewrite nft_key_app.
    apply goodw_entry; [exact Hw|]. rewrite <- nft_key_app. split; [|split; [exact Hs|]].
    - exists v. split; [exact Hv|left; lia].
    - intros m Hm. exists x. unfold tok_nonce. rewrite Hm. reflexivity.
  Qed.
  Lemma goodw_esdt a x t v : wf_token t -> shape_ok t -> keyed (P ++ x) t -> valnn t -> t_value t = Some v ->
    goodw a (P ++ x) (if ((v =? 0)%Z && all_zero (t_props t))%bool then [] else enc_tok (cdc E) t).
  Proof.
    intros Hw Hs Hk Hn Hv. destruct ((v =? 0)%Z && all_zero (t_props t))%bool eqn:Ed; [apply goodw_nil|].
    apply goodw_entry; [exact Hw|]. split; [|split; assumption].
    exists v. split; [exact Hv|]. destruct (Hn v Hv) as [H0 Hm].
    destruct (v =? 0)%Z eqn:Ev; [|left; lia]. right. assert (v = 0%Z) by lia. cbn [andb] in Ed.
    split; [assumption|]. destruct Hs as [Hi Hp]. specialize (Hm H).
    split; [apply Hi; exact Hm|]. split; [exact Hm|apply props_ok_not_zero; assumption].
  Qed.

  (* ---------------- rules for the combinators ---------------- *)
  Lemma keeps_of {A} (m : MT A) (Q : A -> Prop) :
    (forall s a s', Inv s -> m s = (Ok a, s') -> Inv s' /\ Q a) -> keeps m Q.
  Proof. intros Hp s Hs. destruct (m s) as [[a|e|] s'] eqn:Em; auto. eapply Hp; eauto. Qed.
  Lemma keeps_panic {A} (Q : A -> Prop) : keeps panic Q.
  Proof. intros s Hs. exact I. Qed.
  Lemma keeps_ret {A} (a : A) (Q : A -> Prop) : Q a -> keeps (ret a) Q.
  Proof. intros H s Hs. simpl. auto. Qed.
  Lemma keeps_ret_eq {A} (a : A) : keeps (ret a) (fun x => x = a).
  Proof. apply keeps_ret. reflexivity. Qed.
  Lemma keeps_fail {A} e (Q : A -> Prop) : keeps (fail e) Q.
  Proof. intros s Hs. exact I. Qed.
  Lemma keeps_bind {A B} (m : MT A) (f : A -> MT B) (Q : A -> Prop) (R : B -> Prop) :
    keeps m Q -> (forall a, Q a -> keeps (f a) R) -> keeps (bind m f) R.
  Proof.
    intros Hm Hf s Hs. specialize (Hm s Hs). unfold bind.
    destruct (m s) as [[a|e|] s1]; auto. destruct Hm as [Hs1 Hq]. apply (Hf a Hq s1 Hs1).
  Qed.
  Lemma keeps_weaken {A} (m : MT A) (Q Q' : A -> Prop) : keeps m Q -> (forall a, Q a -> Q' a) -> keeps m Q'.
  Proof.
    intros Hm Hq s Hs. specialize (Hm s Hs). destruct (m s) as [[a|e|] s1]; auto. destruct Hm; auto.
  Qed.
  Lemma keeps_true {A} (m : MT A) (Q : A -> Prop) : keeps m Q -> keeps m (fun _ => True).
  Proof. intros H. eapply keeps_weaken; [exact H|auto]. Qed.
  Lemma keeps_ok {A} (m : MT A) Q s a s' : keeps m Q -> Inv s -> m s = (Ok a, s') -> Inv s' /\ Q a.
  Proof. intros H Hs Hm. specialize (H s Hs). rewrite Hm in H. exact H. Qed.
  Lemma keeps_rdonly {A} (m : MT A) (Q : A -> Prop) :
    (forall s a s', m s = (Ok a, s') -> accts s' = accts s /\ Q a) -> keeps m Q.
  Proof.
    intros Hr. apply keeps_of. intros s a s' Hs Hm. destruct (Hr _ _ _ Hm) as [Ha Hq].
    split; [eapply Inv_accts; eauto|exact Hq].
  Qed.

  (* ---------------- primitives ---------------- *)
  Lemma keeps_guard b e : keeps (guard b e) (fun _ => b = true).
  Proof. destruct b; [apply keeps_ret; reflexivity|apply keeps_fail]. Qed.
  Lemma keeps_lift_opt {A} (o : option A) e : keeps (lift_opt o e) (fun a => o = Some a).
  Proof. destruct o; [apply keeps_ret; reflexivity|apply keeps_fail]. Qed.
  Lemma keeps_check_basic i : keeps (check_basic i) (fun _ => (2 <= alen (i_args i))%N).
  Proof.
    apply keeps_rdonly. intros s a s' H. apply check_basic_ok in H as (_ & H & ->). split; [reflexivity|exact H].
  Qed.
  Lemma keeps_arg A k : keeps (arg A k) (fun x => nth_error A (N.to_nat k) = Some x).
  Proof. apply keeps_rdonly. intros s a s' H. apply arg_ok in H as (H & _ & ->). auto. Qed.
  Lemma keeps_args_from A k : keeps (args_from A k) (fun l => l = skipn (N.to_nat k) A).
  Proof. apply keeps_rdonly. intros s a s' H. apply args_from_ok in H as (_ & -> & ->). auto. Qed.
  Lemma keeps_val_of t : keeps (val_of t) (fun v => t_value t = Some v).
  Proof. apply keeps_rdonly. intros s a s' H. apply val_of_ok in H as (H & ->). auto. Qed.
  Lemma keeps_meta_of t : keeps (meta_of t) (fun m => t_meta t = Some m).
  Proof. apply keeps_rdonly. intros s a s' H. apply meta_of_ok in H as (H & ->). auto. Qed.
  Lemma keeps_alloc n : keeps (alloc n) (fun _ => True).
  Proof. apply keeps_rdonly. intros s a s' H. apply alloc_ok in H as (_ & H & _). auto. Qed.
  Lemma keeps_dep : keeps (dep E) (fun _ => True).
  Proof. apply keeps_rdonly. intros s a s' H. apply dep_rd in H. split; [apply (rd_accts E _ _ H)|exact I]. Qed.
  Lemma keeps_load_account a : keeps (load_account E a) (fun _ => True). Proof. apply keeps_dep. Qed.
  Lemma keeps_save_account a : keeps (save_account E a) (fun _ => True). Proof. apply keeps_dep. Qed.
  Lemma keeps_marshal_tok t : keeps (marshal_tok E t) (fun b => b = enc_tok (cdc E) t).
  Proof.
    apply keeps_rdonly. intros s a s' H. apply marshal_tok_ok in H as (-> & H).
    split; [apply (rd_accts E _ _ H)|reflexivity].
  Qed.
  Lemma keeps_unmarshal_tok b : keeps (unmarshal_tok E b) (fun t => dec_tok (cdc E) b = Some t /\ wf_token t).
  Proof.
    apply keeps_rdonly. intros s a s' H. apply unmarshal_tok_ok in H as (Hd & H).
    split; [apply (rd_accts E _ _ H)|]. split; [exact Hd|]. eapply dec_tok_wf; eauto.
  Qed.
  Lemma keeps_get_acct a : keeps (get_acct a) (fun _ => True).
  Proof. apply keeps_rdonly. intros s x s' H. apply get_acct_ok in H as (_ & ->). auto. Qed.
  Lemma keeps_retrieve a k : keeps (retrieve a k) (fun _ => True).
  Proof. apply keeps_rdonly. intros s x s' H. apply retrieve_ok in H as (_ & ->). auto. Qed.
  Lemma keeps_upd_acct a f : (forall x, a_store (f x) = a_store x) -> keeps (upd_acct a f) (fun _ => True).
  Proof.
    intros Hf. apply keeps_of. intros s u s' Hs H. split; [|exact I]. intros a' k.
    assert (Hcell : cell s' a' k = cell s a' k).
    { unfold cell. rewrite (upd_acct_acct _ _ _ _ _ a' H). destruct (beqb_spec a' a) as [->|Hne]; [rewrite Hf|]; reflexivity. }
    rewrite Hcell. apply Hs.
  Qed.
  Lemma keeps_save_kv a k v : goodw a k v -> keeps (save_kv E a k v) (fun _ => True).
  Proof. intros Hg. apply keeps_of. intros s u s' Hs H. apply save_kv_ok in H. split; [eapply Inv_wr; eauto|exact I]. Qed.

  (* ---------------- helpers: read-only ---------------- *)
  Lemma keeps_check_allowed snd a tok role : keeps (check_allowed E snd a tok role) (fun _ => snd = true).
  Proof.
    apply keeps_rdonly. intros s u s' H. apply check_allowed_ok in H as (Hs & _ & H).
    split; [apply (rd_accts E _ _ H)|exact Hs].
  Qed.
  Lemma keeps_check_payable v a : keeps (check_payable E v a) (fun _ => True).
  Proof. apply keeps_rdonly. intros s u s' H. apply check_payable_ok in H as (H & _). split; [apply (rd_accts E _ _ H)|exact I]. Qed.
  Lemma keeps_get_latest_nonce a tok : keeps (get_latest_nonce a tok) (fun n => (n < two64)%N).
  Proof.
    apply keeps_rdonly. intros s u s' H. apply get_latest_nonce_ok in H as (-> & ->).
    split; [reflexivity|apply counter_at_lt].
  Qed.
  Lemma keeps_get_roles a x : keeps (get_roles E a (RP ++ x)) (fun r => NoDup (fst r)).
  Proof.
    apply keeps_of. intros s [r b] s' Hs H. apply get_roles_ok in H as (H & Hr).
    split; [eapply Inv_rd; eauto|]. cbn [fst]. destruct b.
    - destruct Hr as (_ & ->). constructor.
    - destruct Hr as (Hne & Hd). destruct (Hs _ _ Hne) as (_ & _ & Hrp & _).
      destruct (Hrp x eq_refl) as (r' & Hd' & _ & Hnd). rewrite Hd in Hd'. injection Hd' as <-. exact Hnd.
  Qed.
  Lemma keeps_get_esdt_data a x :
    keeps (get_esdt_data E a (P ++ x)) (fun t => wf_token t /\ shape_ok t /\ keyed (P ++ x) t /\ valnn t).
  Proof.
    apply keeps_of. intros s t s' Hs H. apply (get_esdt_data_ok E Hc) in H as (Hr & Ht & Hw).
    split; [eapply Inv_rd; eauto|]. split; [exact Hw|]. eapply Inv_tod; eauto.
  Qed.
  Lemma keeps_get_nft_on_sender a x n :
    keeps (get_nft_on_sender E a (P ++ x) n) (fun t => wf_token t /\ shape_ok t /\ valnn t).
  Proof.
    apply keeps_of. intros s t s' Hs H. apply (get_nft_on_sender_ok E Hc) in H as (Hr & Hw & Ht & _).
    split; [eapply Inv_rd; eauto|]. split; [exact Hw|]. rewrite nft_key_app in Ht.
    pose proof (Inv_tok_at _ _ _ _ Hs Ht) as He. split; [apply He|eapply entry_valnn; eauto].
  Qed.

  (* ---------------- helpers: writers ---------------- *)
  Lemma keeps_save_roles a x r : NoDup r -> keeps (save_roles E a (RP ++ x) r) (fun _ => True).
  Proof.
    intros Hnd. apply keeps_of. intros s u s' Hs H. apply save_roles_ok in H.
    split; [eapply Inv_wr; eauto; apply goodw_roles; exact Hnd|exact I].
  Qed.
  Lemma keeps_save_latest_nonce a tok n : (n < two64)%N -> keeps (save_latest_nonce E a tok n) (fun _ => True).
  Proof.
    intros Hn. apply keeps_of. intros s u s' Hs H. apply save_latest_nonce_ok in H as (H & _).
    split; [eapply Inv_wr; eauto; apply goodw_counter; exact Hn|exact I].
  Qed.
  Lemma keeps_save_esdt_data a t x :
    wf_token t -> shape_ok t -> keyed (P ++ x) t -> valnn t -> keeps (save_esdt_data E a t (P ++ x)) (fun _ => True).
  Proof.
    intros Hw Hs Hk Hn. apply keeps_of. intros s u s' Hi H. apply save_esdt_data_ok in H as (v & Hv & H).
    split; [|exact I]. eapply Inv_wr; eauto. apply goodw_esdt; assumption.
  Qed.
  Lemma keeps_add_to_esdt_balance a x d rae : keeps (add_to_esdt_balance E a (P ++ x) d rae) (fun _ => True).
  Proof.
    apply keeps_of. intros s u s' Hs H.
    apply (add_to_esdt_balance_inv E Hc) in H as (t & v & Ht & Hw & Hty & Hv & Hnn & _ & H).
    split; [|exact I]. eapply Inv_wr; eauto. destruct (Inv_tod _ _ _ _ Hs Ht) as (Hsh & Hk & _).
    apply (goodw_esdt a x (set_value t (Some (v + d)%Z)) (v + d)%Z);
      [apply wf_set_value; exact Hw|exact Hsh|exact Hk| |reflexivity].
    intros v' [= <-]. split; [lia|]. intros _. apply Hsh. exact Hty.
  Qed.
  Lemma keeps_save_nft a x t rae : wf_token t -> shape_ok t -> keeps (save_nft E a (P ++ x) t rae) (fun _ => True).
  Proof.
    intros Hw Hsh. apply keeps_of. intros s u s' Hs H. apply save_nft_ok in H as (v & Hv & -> & H & _).
    split; [|exact I]. eapply Inv_wr; eauto. apply goodw_nft; assumption.
  Qed.
  Lemma keeps_add_nft_to_destination dst x t verify rae : wf_token t -> shape_ok t ->
    keeps (add_nft_to_destination E dst (P ++ x) t verify rae) (fun t' => exists v, t' = set_value t (Some v)).
  Proof.
    intros Hw Hsh. apply keeps_of. intros s t' s' Hs H.
    apply (add_nft_to_destination_ok E Hc) in H as (cur & v & cv & _ & _ & _ & _ & -> & _ & _ & _ & H).
    split; [|eauto]. eapply Inv_wr; eauto.
    apply (goodw_nft dst x (set_value t (Some (v + cv)%Z)) (v + cv)%Z); [apply wf_set_value; exact Hw|exact Hsh|reflexivity].
  Qed.
End Keeps.

Lemma C15_wf_set_meta_uris t m u : wf_token t -> t_meta t = Some m -> wf_token (set_meta t (Some (set_uris m u))).
Proof. unfold wf_token. intros [H1 H2] Hm. rewrite Hm in H2. split; [exact H1|exact H2]. Qed.
Lemma C15_wf_set_meta_attributes t m a : wf_token t -> t_meta t = Some m -> wf_token (set_meta t (Some (set_attributes m a))).
Proof. unfold wf_token. intros [H1 H2] Hm. rewrite Hm in H2. split; [exact H1|exact H2]. Qed.

(* ---------------- the tactic ---------------- *)
Ltac keeps_side :=
  cbv beta in *;
  repeat match goal with H : _ /\ _ |- _ => destruct H end;
  first [ assumption | apply u64_lt | apply bigU64_lt | discriminate | lia | tauto | congruence ].

Ltac shape_solve :=
  first
    [ assumption
    | apply shape_set_value; shape_solve
    | apply shape_set_props; shape_solve
    | match goal with
      | |- shape_ok (set_meta _ (Some _)) => eapply shape_set_meta; [shape_solve|eassumption]
      end
    | apply keyed_set_value; shape_solve
    | apply keyed_set_props; shape_solve
    | apply valnn_set_props; shape_solve
    | apply wf_set_value; shape_solve
    | apply wf_set_props; shape_solve
    | match goal with
      | |- wf_token (set_meta _ (Some (set_uris _ _))) => eapply C15_wf_set_meta_uris; [shape_solve|eassumption]
      | |- wf_token (set_meta _ (Some (set_attributes _ _))) => eapply C15_wf_set_meta_attributes; [shape_solve|eassumption]
      end ].

Create HintDb keeps discriminated.

Ltac app3 L E Hc Hf := first [apply (L E Hc Hf) | apply (L E Hc) | apply (L E Hf) | apply (L E)].
Ltac keeps_leaf E Hc Hf :=
  first
    [ apply (keeps_guard E)
    | apply (keeps_ret_eq E)
    | apply (keeps_fail E)
    | apply (keeps_panic E)
    | apply (keeps_lift_opt E)
    | apply (keeps_check_basic E)
    | apply (keeps_arg E)
    | apply (keeps_args_from E)
    | apply (keeps_dep E)
    | apply (keeps_load_account E)
    | apply (keeps_save_account E)
    | apply (keeps_marshal_tok E)
    | app3 keeps_unmarshal_tok E Hc Hf
    | apply (keeps_get_acct E)
    | apply (keeps_retrieve E)
    | apply (keeps_alloc E)
    | apply (keeps_check_allowed E)
    | apply (keeps_check_payable E)
    | apply (keeps_get_latest_nonce E)
    | app3 keeps_get_roles E Hc Hf
    | app3 keeps_get_esdt_data E Hc Hf
    | app3 keeps_get_nft_on_sender E Hc Hf
    | app3 keeps_save_latest_nonce E Hc Hf; keeps_side
    | app3 keeps_add_to_esdt_balance E Hc Hf
    | apply (keeps_val_of E)
    | apply (keeps_meta_of E)
    | app3 keeps_save_nft E Hc Hf; shape_solve
    | app3 keeps_save_esdt_data E Hc Hf; shape_solve
    | app3 keeps_add_nft_to_destination E Hc Hf; shape_solve
    | apply (keeps_save_kv E); first [apply goodw_nil | assumption]
    | apply (keeps_upd_acct E); reflexivity
    | solve [eauto with keeps] ].

Ltac keeps_intro :=
  let a := fresh "a" in let H := fresh "Hq" in
  intros a H; cbv beta in H;
  repeat match goal with H : _ /\ _ |- _ => destruct H end.

Ltac keeps_step0 E Hc Hf :=
  cbv beta iota zeta;
  lazymatch goal with
  | |- keeps _ (bind (if _ then _ else _) _) _ => fail
  | |- keeps _ (bind _ _) _ =>
      eapply (keeps_bind E); [keeps_leaf E Hc Hf|keeps_intro]
  | |- keeps _ (ret _) _ => apply (keeps_ret E); cbv beta; try exact I
  | |- keeps _ (fail _) _ => apply (keeps_fail E)
  | |- keeps _ panic _ => apply (keeps_panic E)
  | |- keeps _ (if ?b then _ else _) _ => destruct b eqn:?
  | |- keeps _ (match ?x with _ => _ end) _ => destruct x
  | |- keeps _ _ (fun _ => True) => eapply (keeps_true E); keeps_leaf E Hc Hf
  | |- keeps _ _ _ => eapply (keeps_weaken E); [keeps_leaf E Hc Hf|intros ? ?; cbv beta in *]
  end.
Ltac keeps_ifT E :=
  cbv beta iota zeta;
  lazymatch goal with
  | |- keeps _ (bind (if ?b then _ else _) _) _ =>
      eapply (keeps_bind E) with (Q := fun _ => True); [destruct b eqn:?|intros ? _]
  end.
Ltac keeps_step E Hc Hf := first [keeps_step0 E Hc Hf | keeps_ifT E].
Ltac keeps_tac0 E Hc Hf := repeat (keeps_step0 E Hc Hf).
Ltac keeps_tac E Hc Hf := repeat (keeps_step E Hc Hf).

(* the final [ret output] *)
Create HintDb outdb discriminated.
Global Hint Resolve out_ok_mk out_ok_set_gasrem out_ok_set_logs out_ok_set_returnData out_ok_add_log
  out_ok_set_accounts_nil out_ok_if out_ok_aot_local : outdb.
Ltac out_tac := cbv zeta; eauto 10 with outdb.
