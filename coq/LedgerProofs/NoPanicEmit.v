(* C11 (totality), part 5: the hypothesis [payload_ok] of destination-side executions is discharged for the
   messages that exist: every cross-shard message emitted by a successful sender-side ESDTNFTTransfer /
   MultiESDTNFTTransfer carries payloads that decode to tokens with a value (and, for ESDTNFTTransfer, metadata)
   ([emitted_payload_ok_nft], [emitted_payload_ok_multi]); deliveries and refunds of such a message
   (Ledger/World.v [deliver_input], [refund_input]: same argument list) are [delivered_input]s. *)
From Coq Require Import Lia.
From EV Require Import Base.Bytes Base.Store Base.Monad gen.Consts Codec.Types Helpers.Helpers
  Parsers.Tokenize Parsers.CallArgs
  Ledger.Types Ledger.Env Ledger.Funcs Ledger.Transfers Ledger.World LedgerProofs.Defs LedgerProofs.EnvSpec
  LedgerProofs.NoPanic LedgerProofs.NoPanicFuncs LedgerProofs.NoPanicTransfers.

Section Emit.
  Variable E : env.
  Hypothesis Hc : codec_ok (cdc E).

  Lemma payload_good_enc t : wf_token t -> t_value t <> None -> t_meta t <> None -> payload_good E (enc_tok (cdc E) t).
  Proof. intros Hw Hv Hm t' Hd. rewrite (dec_enc_tok _ Hc t Hw) in Hd. inversion Hd; subst. auto. Qed.

  Lemma emitted_payload_ok_nft i s o s' dst :
    i_caller i = i_rcpt i -> f_nft_transfer E i s = (Ok o, s') ->
    nth_error (i_args i) 3 = Some dst -> self_shard E <> shard_of E dst ->
    exists args' t, o_accounts o = [{| oc_addr := dst; oc_delta := 0; oc_transfers := [t] |}]
      /\ tr_data t = msg_data C.BuiltInFunctionESDTNFTTransfer args'
      /\ nft_payload_ok E args'.
  Proof.
    intros Hcr H Hd Hsh. unfold f_nft_transfer in H. rewrite Hcr, beqb_refl in H.
    apply bind_ok in H as (u1 & s1 & H1 & H). apply bind_ok in H as (u2 & s2 & H2 & H).
    apply guard_ok in H2 as [Hlen ->]. clear H1.
    unfold f_nft_transfer_sender in H. einv.
    assert (Hne : (self_shard E =? shard_of E dst)%N = false) by (apply N.eqb_neq; exact Hsh).
    match goal with Hx : nth_error (i_args i) (N.to_nat 3) = Some ?x |- _ =>
      change (N.to_nat 3) with 3%nat in Hx; rewrite Hd in Hx; inversion Hx; subst x end.
    rewrite Hne in *. cbn [negb] in *. einv.
    assert (H3le : (3 <=? alen (i_args i))%N = true) by lia.
    rewrite H3le in *. einv.
    match goal with Hm : t_meta (set_value ?t _) = Some _ |- _ => cbn [t_meta set_value] in Hm end.
    eexists _, _. split; [reflexivity|]. split; [reflexivity|].
    intros b Hb. change (N.to_nat 3) with 3%nat in Hb.
    assert (Hl3 : length (firstn 3 (i_args i)) = 3%nat).
    { apply firstn_length_le. unfold alen in *. lia. }
    rewrite nth_error_app2 in Hb by lia. rewrite Hl3 in Hb. cbn in Hb. inversion Hb; subst b.
    apply payload_good_enc; [wf_solve|discriminate|cbn [t_meta set_value]; congruence].
  Qed.

  (* ---- multi-transfer: the argument list of the emitted message ---- *)
  Definition triple (p : bytes * token) : list bytes :=
    match t_meta (snd p) with
    | Some m => [fst p; u64_bytes (md_nonce m); enc_tok (cdc E) (snd p)]
    | None => [fst p; [x00]; Z_bytes (val_or_0 (snd p))]
    end.
  Lemma triple_length p : length (triple p) = 3%nat.
  Proof. unfold triple. destruct (t_meta (snd p)); reflexivity. Qed.
  Lemma nth_triples : forall l idx p j, nth_error l idx = Some p -> (j < 3)%nat ->
    nth_error (concat (map triple l)) (3 * idx + j) = nth_error (triple p) j.
  Proof.
    induction l as [|a l IH]; intros idx p j Hn Hj; [destruct idx; discriminate|].
    cbn [map concat]. destruct idx as [|idx]; cbn [nth_error] in Hn.
    - inversion Hn; subst a. rewrite nth_error_app1 by (rewrite triple_length; lia). f_equal.
    - rewrite nth_error_app2 by (rewrite triple_length; lia). rewrite triple_length.
      replace (3 * S idx + j - 3)%nat with (3 * idx + j)%nat by lia. apply IH; assumption.
  Qed.
  Lemma triples_length l : length (concat (map triple l)) = (3 * length l)%nat.
  Proof. induction l as [|a l IH]; [reflexivity|]. cbn [map concat length]. rewrite app_length, triple_length, IH. lia. Qed.

  Lemma multi_out_args_ok : forall l o acc s args o' s',
    multi_out_args E l o acc s = (Ok (args, o'), s') -> args = acc ++ concat (map triple l).
  Proof.
    induction l as [|[tok t] r IH]; intros o acc s args o' s' H; cbn [multi_out_args] in H.
    - einv. match goal with Hx : (_, _) = (_, _) |- _ => inversion Hx; subst end. cbn. rewrite app_nil_r. reflexivity.
    - cbn [map concat]. unfold triple at 1. cbn [fst snd]. destruct (t_meta t) as [m|] eqn:Em.
      + einv. match goal with Hx : multi_out_args _ _ _ _ _ = _ |- _ => apply IH in Hx; rewrite Hx end.
        rewrite <- app_assoc. reflexivity.
      + einv. match goal with Hx : multi_out_args _ _ _ _ _ = _ |- _ => apply IH in Hx; rewrite Hx end.
        rewrite <- app_assoc. unfold val_or_0.
        match goal with Hv : t_value t = Some _ |- _ => rewrite Hv end. reflexivity.
  Qed.

  Lemma transfer_one_sender_ok sp c dl dst tok n q v rae s t s' :
    transfer_one_sender E sp c dl dst tok n q v rae s = (Ok t, s') -> wf_token t /\ t_value t <> None.
  Proof.
    unfold transfer_one_sender. intros H. einv. destruct dl; einv; subst.
    - split; [wf_solve|discriminate].
    - split; [wf_solve|discriminate].
  Qed.

  Lemma multi_sender_loop_ok i dl dst v : forall fuel idx acc logs s lst lg s',
    multi_sender_loop E fuel i dl dst v idx acc logs s = (Ok (lst, lg), s') -> Forall tokgood acc ->
    Forall tokgood lst /\ length lst = (length acc + fuel)%nat.
  Proof.
    induction fuel as [|f IH]; intros idx acc logs s lst lg s' H Hacc; cbn [multi_sender_loop] in H.
    - einv. match goal with Hx : (_, _) = (_, _) |- _ => inversion Hx; subst end.
      split; [apply Forall_rev; exact Hacc|rewrite rev_length; lia].
    - einv.
      match goal with Ht : transfer_one_sender _ _ _ _ _ _ _ _ _ _ _ = _ |- _ => apply transfer_one_sender_ok in Ht as [Hw Hv] end.
      match goal with Hx : multi_sender_loop _ _ _ _ _ _ _ _ _ _ = _ |- _ => apply IH in Hx as [Hf Hl] end.
      + split; [exact Hf|]. rewrite Hl. cbn [length]. lia.
      + constructor; [split; assumption|exact Hacc].
  Qed.

  Lemma emitted_payload_ok_multi i s o s' dst :
    i_caller i = i_rcpt i -> f_multi_transfer E i s = (Ok o, s') ->
    nth_error (i_args i) 0 = Some dst -> self_shard E <> shard_of E dst ->
    exists args' t, o_accounts o = [{| oc_addr := dst; oc_delta := 0; oc_transfers := [t] |}]
      /\ tr_data t = msg_data C.BuiltInFunctionMultiESDTNFTTransfer args'
      /\ multi_payload_ok E args'.
  Proof.
    intros Hcr H Hd Hsh. unfold f_multi_transfer in H. rewrite Hcr, beqb_refl in H.
    apply bind_ok in H as (u1 & s1 & H1 & H). apply bind_ok in H as (u2 & s2 & H2 & H).
    apply guard_ok in H2 as [Hlen ->]. clear H1.
    unfold f_multi_transfer_sender in H. einv.
    assert (Hne : (self_shard E =? shard_of E dst)%N = false) by (apply N.eqb_neq; exact Hsh).
    match goal with Hx : nth_error (i_args i) (N.to_nat 0) = Some ?x |- _ =>
      change (N.to_nat 0) with 0%nat in Hx; rewrite Hd in Hx; inversion Hx; subst x end.
    rewrite Hne in *. cbn [negb] in *. einv.
    match goal with Hx : multi_sender_loop _ _ _ _ _ _ _ _ _ ?st = (Ok ?x, _) |- _ => destruct x as [lst logs] end.
    einv.
    match goal with Hx : multi_out_args _ _ _ _ ?st = (Ok ?x, _) |- _ => destruct x as [args1 o1] end.
    einv.
    eexists _, _. split; [reflexivity|]. split; [reflexivity|].
    match goal with Hx : multi_out_args _ _ _ _ _ = _ |- _ => apply multi_out_args_ok in Hx; subst args1 end.
    match goal with Hx : multi_sender_loop _ _ _ _ _ _ _ _ _ _ = _ |- _ =>
      apply multi_sender_loop_ok in Hx as [Hgood Hl]; [|constructor] end.
    cbn [length plus] in Hl.
    set (n := bigU64 x6) in *.
    assert (Hn64 : (n < two64)%N) by apply bigU64_lt.
    intros a0 idx nb b Ha0 Hidx Hnb Hpos Hb.
    cbn [app nth_error] in Ha0. inversion Ha0; subst a0. rewrite bigU64_u64_bytes, (u64_small _ Hn64) in Hidx.
    assert (Hi : (N.to_nat idx < length lst)%nat) by lia.
    destruct (nth_error lst (N.to_nat idx)) as [p|] eqn:Ep; [|apply nth_error_None in Ep; lia].
    replace (N.to_nat (1 + idx * 3 + 1)) with (S (3 * N.to_nat idx + 1)) in Hnb by lia.
    replace (N.to_nat (1 + idx * 3 + 2)) with (S (3 * N.to_nat idx + 2)) in Hb by lia.
    cbn [app nth_error] in Hnb, Hb.
    rewrite nth_error_app1 in Hnb by (rewrite triples_length; lia).
    rewrite nth_error_app1 in Hb by (rewrite triples_length; lia).
    rewrite (nth_triples _ _ _ _ Ep) in Hnb by lia. rewrite (nth_triples _ _ _ _ Ep) in Hb by lia.
    assert (Hp : tokgood p) by (eapply Forall_forall; [exact Hgood|eapply nth_error_In; exact Ep]).
    destruct Hp as [Hw Hv]. unfold triple in Hnb, Hb. destruct (t_meta (snd p)) as [m|] eqn:Em; cbn [nth_error] in Hnb, Hb.
    - inversion Hb; subst b. apply payload_good_valued, payload_good_enc; [exact Hw|exact Hv|congruence].
    - inversion Hnb; subst nb. vm_compute in Hpos. discriminate.
  Qed.
End Emit.

(* ---- deliveries and refunds of a message (Ledger/World.v) ---- *)
Section Delivered.
  Variable c : wcfg.
  (* the destination-side input of a message whose caller lives on another shard *)
  Lemma deliver_input_delivered m sh gas :
    (wc_shard_of c (m_caller m) =? sh)%N = false -> m_caller m <> m_dest m ->
    args_payload_ok (env_at c sh) (m_fn m) (m_args m) ->
    delivered_input (env_at c sh) (m_fn m) (deliver_input c m sh gas).
  Proof. intros Hs Hne Hp. unfold delivered_input, deliver_input, payload_ok. cbn. auto. Qed.
  (* the refund of a rejected message runs at the original sender with caller = the original destination,
     the SAME argument list and ReturnCallAfterError set *)
  Lemma refund_input_delivered m sh gas :
    (wc_shard_of c (m_dest m) =? sh)%N = false -> m_dest m <> m_sender m ->
    args_payload_ok (env_at c sh) (m_fn m) (m_args m) ->
    delivered_input (env_at c sh) (m_fn m) (refund_input c m sh gas)
    /\ i_rae (refund_input c m sh gas) = true.
  Proof. intros Hs Hne Hp. unfold delivered_input, refund_input, payload_ok. cbn. auto. Qed.
  (* the payload hypothesis depends on the codec only, not on the shard *)
  Lemma args_payload_ok_shard sh sh' f A : args_payload_ok (env_at c sh) f A -> args_payload_ok (env_at c sh') f A.
  Proof. exact (fun H => H). Qed.
End Delivered.

Print Assumptions emitted_payload_ok_nft.
Print Assumptions emitted_payload_ok_multi.
