(* C04 — "unfreezing / unpausing restores exactly the earlier behaviour": relational simulation.

   [SR strict s u]: the shard states s and u hold the same accounts, every cell whose key is not a token key
   (P ++ x) is equal, and the token cells differ at most
     - in accounts other than the system account, where both cells decode to the same token up to the Properties
       bytes, and the two Properties agree on [frozen_props] and [all_zero]
       (strict = true: and only for entries WITHOUT metadata, i.e. fungible entries);
     - in the system account, as long as the pause flag read from the cell ([paused_val]) is the same.
   freeze_unfreeze_SR / pause_unpause_SR   the state after freeze ; unfreeze (resp. pause ; unpause) is SR-related to
                                the state before (entry not frozen before, all-zero Properties, non-zero value,
                                no metadata for the strict relation; token not paused before).
   SR_observables               SR-related states have the same balances, frozen flags and pause flags.
   props_irrelevance            strict relation: EVERY built-in function, both sides, returns from SR-related states
                                the same status (Ok / the same error / panic), the same output, and SR-related
                                post-states; props_irrelevance_history: hence the same results along any history.
   props_irrelevance_partial    non-strict relation (entries with metadata may differ too): the same for every
                                function except the SENDER side of ESDTNFTTransfer / MultiESDTNFTTransfer.  For these
                                the statement is false: the forwarded payload is the marshalled entry INCLUDING its
                                Properties bytes ([] before, [0;0] after the toggle), so the output differs, and
                                its length enters the data-copy gas guard.
   Hypotheses: no_faults (the two runs start at different dependency-call counters), and the system account is
   not a party of the call (sys_not_party; for the sender side also the destination argument): a party that IS
   the system account reads its token cells as entries, and those cells hold the pause flags (F8 territory). *)
From EV Require Import Base.Bytes Base.Store Base.Monad gen.Consts Codec.Types Helpers.Helpers
  Ledger.Types Ledger.Env Ledger.Funcs Ledger.Transfers LedgerProofs.Defs LedgerProofs.EnvSpec
  LedgerProofs.Spec_Transfers_Base LedgerProofs.Spec_System LedgerProofs.C04_Core LedgerProofs.C04_Toggle.

Definition peq (p q : bytes) : Prop := frozen_props p = frozen_props q /\ all_zero p = all_zero q.

Section Sim.
  Variable E : env.
  Hypothesis Hc : codec_ok (cdc E).
  Hypothesis Hnf : no_faults E.
  (* strict = true: only entries WITHOUT metadata (fungible entries) may differ in their Properties *)
  Variable strict : bool.

  (* u is t up to its Properties, which agree on the two predicates; both well-formed *)
  Definition tokrel (t u : token) : Prop :=
    wf_token t /\ wf_token u /\ u = set_props t (t_props u)
    /\ frozen_props (t_props t) = frozen_props (t_props u) /\ all_zero (t_props t) = all_zero (t_props u)
    /\ (strict = true -> t_meta t <> None -> t = u).
  Lemma tokrel_refl t : wf_token t -> tokrel t t.
  Proof.
    intros H. split; [exact H|]. split; [exact H|]. split; [destruct t; reflexivity|]. repeat split.
  Qed.
  Lemma tokrel_set_value t u v : tokrel t u -> tokrel (set_value t v) (set_value u v).
  Proof.
    intros (W1 & W2 & Hu & Hf & Hz & Hm). split; [exact W1|]. split; [exact W2|].
    split; [rewrite Hu at 1; reflexivity|]. split; [exact Hf|]. split; [exact Hz|].
    intros Hs Hne. rewrite (Hm Hs Hne). reflexivity.
  Qed.
  Lemma tokrel_strict t u : tokrel t u -> strict = true -> t_meta t <> None -> t = u.
  Proof. intros (_ & _ & _ & _ & _ & Hm). exact Hm. Qed.

  Definition ceq (b c : bytes) : Prop :=
    b = c \/ (b <> [] /\ c <> [] /\ exists t u, dec_tok (cdc E) b = Some t /\ dec_tok (cdc E) c = Some u /\ tokrel t u).
  Definition SR (s u : mstate) : Prop :=
    (forall a, acct_fields_eq (acct s a) (acct u a))
    /\ (forall a k, a <> SYS -> ceq (cell s a k) (cell u a k))
    /\ (forall a k, prefix_of P k = false -> cell s a k = cell u a k)
    /\ (forall k, paused_val (cell s SYS k) = paused_val (cell u SYS k)).

  Lemma ceq_refl b : ceq b b. Proof. left. reflexivity. Qed.
  Lemma SR_refl s : SR s s.
  Proof. split; [intros; apply acct_fields_eq_refl|]. split; [intros; apply ceq_refl|]. split; reflexivity. Qed.
  Lemma SR_accts s s' u u' : accts s' = accts s -> accts u' = accts u -> SR s u -> SR s' u'.
  Proof.
    intros Hs Hu (F & C1 & C2 & C3).
    split; [intros a; rewrite (acct_accts _ _ a Hs), (acct_accts _ _ a Hu); apply F|].
    split; [intros a k Ha; rewrite (cell_accts _ _ a k Hs), (cell_accts _ _ a k Hu); apply C1; exact Ha|].
    split; [intros a k Hk; rewrite (cell_accts _ _ a k Hs), (cell_accts _ _ a k Hu); apply C2; assumption|].
    intros k. rewrite (cell_accts _ _ SYS k Hs), (cell_accts _ _ SYS k Hu). apply C3.
  Qed.

  (* related cells decode alike *)
  Lemma ceq_nil b c : ceq b c -> (b = [] <-> c = []).
  Proof. intros [->|(Hb & Hc' & _)]; tauto. Qed.
  Lemma ceq_enc t u : tokrel t u -> ceq (enc_tok (cdc E) t) (enc_tok (cdc E) u).
  Proof.
    intros R. pose proof R as (W1 & W2 & _). right.
    split; [apply (enc_tok_nonempty _ Hc)|]. split; [apply (enc_tok_nonempty _ Hc)|].
    exists t, u. rewrite (dec_enc_tok _ Hc _ W1), (dec_enc_tok _ Hc _ W2). auto.
  Qed.
  Definition tokd (b : bytes) : option token := match b with [] => None | c => dec_tok (cdc E) c end.
  Lemma tok_at_tokd s a k : tok_at E s a k = tokd (cell s a k).
  Proof. unfold tok_at, tokd. destruct (cell s a k); reflexivity. Qed.
  Lemma ceq_tok b c : ceq b c ->
    match tokd b, tokd c with
    | Some t, Some u => tokrel t u
    | None, None => True
    | _, _ => False
    end.
  Proof.
    intros [->|(Hb & Hc' & t & u & D1 & D2 & R)].
    - destruct c; [exact I|]. cbn [tokd]. destruct (dec_tok (cdc E) (b :: c)) eqn:Ed; [|exact I].
      apply tokrel_refl. eapply (dec_tok_wf _ Hc); eauto.
    - destruct b; [contradiction|]. destruct c; [contradiction|]. cbn [tokd]. rewrite D1, D2. exact R.
  Qed.
  Lemma ceq_bal b c : ceq b c -> bal_of_bytes E b = bal_of_bytes E c.
  Proof.
    intros [->|(Hb & Hc' & t & u & D1 & D2 & (_ & _ & Hu & _))]; [reflexivity|]. unfold bal_of_bytes.
    destruct b; [contradiction|]. destruct c; [contradiction|]. rewrite D1, D2, Hu. reflexivity.
  Qed.

  (* SR-related states agree on every observable of the property *)
  Theorem SR_observables s u : SR s u ->
    (forall a k, a <> SYS -> balance E s a k = balance E u a k)
    /\ (forall a k, a <> SYS -> frozen_at E s a k = frozen_at E u a k)
    /\ (forall k, paused_at s k = paused_at u k).
  Proof.
    intros (_ & C1 & _ & C3). split; [|split].
    - intros a k Ha. apply ceq_bal. apply C1. exact Ha.
    - intros a k Ha. unfold frozen_at. rewrite !tok_at_tokd. pose proof (ceq_tok _ _ (C1 a k Ha)) as H.
      destruct (tokd (cell s a k)) as [t|]; destruct (tokd (cell u a k)) as [t'|]; try contradiction; [|reflexivity].
      destruct H as (_ & _ & _ & Hp & _). exact Hp.
    - intros k. apply C3.
  Qed.

  (* ---------------- relating two runs ---------------- *)
  Definition rrel {A} (VR : A -> A -> Prop) (r r' : res err A * mstate) : Prop :=
    match fst r, fst r' with
    | Ok x, Ok y => VR x y /\ SR (snd r) (snd r')
    | Err e, Err e' => e = e'
    | Panic, Panic => True
    | _, _ => False
    end.
  Definition sim {A} (VR : A -> A -> Prop) (m m' : MT A) : Prop := forall s u, SR s u -> rrel VR (m s) (m' u).

  Lemma sim_bind {A B} (VR : A -> A -> Prop) (VR' : B -> B -> Prop) (m m' : MT A) (f f' : A -> MT B) :
    sim VR m m' -> (forall x y, VR x y -> sim VR' (f x) (f' y)) -> sim VR' (bind m f) (bind m' f').
  Proof.
    intros Hm Hf s u Hs. specialize (Hm s u Hs). unfold bind, rrel in *.
    destruct (m s) as [[x|e|] s1]; destruct (m' u) as [[y|e'|] u1]; cbn [fst snd] in *; try contradiction; auto.
    destruct Hm as [Hv Hs1]. apply (Hf x y Hv s1 u1 Hs1).
  Qed.
  Lemma sim_weaken {A} (VR VR' : A -> A -> Prop) m m' : (forall x y, VR x y -> VR' x y) -> sim VR m m' -> sim VR' m m'.
  Proof.
    intros Hw H s u Hs. specialize (H s u Hs). unfold rrel in *.
    destruct (fst (m s)); destruct (fst (m' u)); try contradiction; auto. destruct H; split; auto.
  Qed.

  (* computations that neither read nor write the state *)
  Definition stateless {A} (m : MT A) : Prop := exists r : res err A, forall s, m s = (r, s).
  Lemma stateless_ret {A} (a : A) : stateless (ret a : MT A). Proof. exists (Ok a). reflexivity. Qed.
  Lemma stateless_fail {A} e : stateless (fail e : MT A). Proof. exists (Err e). reflexivity. Qed.
  Lemma stateless_panic {A} : stateless (panic : MT A). Proof. exists Panic. reflexivity. Qed.
  Lemma stateless_guard b e : stateless (guard b e : MT unit).
  Proof. destruct b; [apply stateless_ret|apply stateless_fail]. Qed.
  Lemma stateless_bind {A B} (m : MT A) (f : A -> MT B) :
    stateless m -> (forall x, stateless (f x)) -> stateless (bind m f).
  Proof.
    intros [r Hm] Hf. destruct r as [x|e|].
    - destruct (Hf x) as [r' Hx]. exists r'. intros s. unfold bind. rewrite Hm. apply Hx.
    - exists (Err e). intros s. unfold bind. rewrite Hm. reflexivity.
    - exists Panic. intros s. unfold bind. rewrite Hm. reflexivity.
  Qed.
  Lemma stateless_opt_or_panic {A} (o : option A) : stateless (opt_or_panic o : MT A).
  Proof. destruct o; [apply stateless_ret|apply stateless_panic]. Qed.
  Lemma stateless_arg args n : stateless (arg args n).
  Proof. unfold arg. destruct (n <? alen args)%N; [apply stateless_opt_or_panic|apply stateless_panic]. Qed.
  Lemma stateless_args_from args n : stateless (args_from args n).
  Proof. unfold args_from. destruct (n <=? alen args)%N; [apply stateless_ret|apply stateless_panic]. Qed.
  Lemma stateless_check_basic i : stateless (check_basic i).
  Proof. unfold check_basic. apply stateless_bind; [apply stateless_guard|intros; apply stateless_guard]. Qed.
  Lemma stateless_if {A} (b : bool) (m1 m2 : MT A) : stateless m1 -> stateless m2 -> stateless (if b then m1 else m2).
  Proof. destruct b; auto. Qed.
  Lemma stateless_bind_panic {A B} (f : A -> MT B) : stateless (bind (panic : MT A) f).
  Proof. exists Panic. reflexivity. Qed.
  Lemma sim_stateless {A} (m : MT A) : stateless m -> sim eq m m.
  Proof.
    intros [r Hm] s u Hs. unfold rrel. rewrite !Hm. cbn [fst snd]. destruct r; auto.
  Qed.
  Ltac sl := repeat first
    [ apply stateless_ret | apply stateless_fail | apply stateless_panic | apply stateless_guard
    | apply stateless_arg | apply stateless_args_from | apply stateless_check_basic | apply stateless_opt_or_panic
    | (apply stateless_bind; [|intros]) | apply stateless_if ].

  (* same code, results related by eq: the usual shape *)
  Lemma sim_bind_eq {A B} (VR' : B -> B -> Prop) (m : MT A) (f : A -> MT B) :
    sim eq m m -> (forall x, sim VR' (f x) (f x)) -> sim VR' (bind m f) (bind m f).
  Proof. intros Hm Hf. eapply sim_bind; [exact Hm|]. intros x y <-. apply Hf. Qed.

  (* ---------------- primitives ---------------- *)
  Lemma sim_dep : sim eq (dep E) (dep E).
  Proof.
    intros s u Hs. unfold rrel. rewrite (dep_succeeds E s (Hnf _)), (dep_succeeds E u (Hnf _)). cbn [fst snd].
    split; [reflexivity|]. eapply SR_accts; [| |exact Hs]; reflexivity.
  Qed.
  Lemma sim_retrieve a k : a <> SYS -> sim ceq (retrieve a k) (retrieve a k).
  Proof. intros Ha s u Hs. unfold rrel, retrieve. cbn [fst snd]. split; [apply Hs; exact Ha|exact Hs]. Qed.
  Lemma sim_retrieve_eq a k : prefix_of P k = false -> sim eq (retrieve a k) (retrieve a k).
  Proof.
    intros Hk s u Hs. unfold rrel, retrieve. cbn [fst snd]. split; [|exact Hs].
    destruct Hs as (_ & _ & C2 & _). apply (C2 a k Hk).
  Qed.
  Lemma sim_is_paused key : sim eq (is_paused key) (is_paused key).
  Proof.
    intros s u Hs. unfold rrel, is_paused, bind, retrieve, ret. cbn [fst snd]. split; [|exact Hs].
    destruct Hs as (_ & _ & _ & C3). apply C3.
  Qed.
  (* one write; the three side conditions say that the written values are related the way SR demands *)
  Lemma sim_save_kv_gen a k v v' :
    (a = SYS -> paused_val v = paused_val v') ->
    (a <> SYS -> ceq v v') ->
    (prefix_of P k = false -> v = v') ->
    sim eq (save_kv E a k v) (save_kv E a k v').
  Proof.
    intros Hsys Hv Hnp s u Hs.
    destruct (save_kv_succeeds E a k v s (Hnf _)) as (s1 & H1).
    destruct (save_kv_succeeds E a k v' u (Hnf _)) as (u1 & H2).
    unfold rrel. rewrite H1, H2. cbn [fst snd]. split; [reflexivity|].
    apply save_kv_ok in H1. apply save_kv_ok in H2. destruct Hs as (F & C1 & C2 & C3).
    split; [|split; [|split]].
    - intros a'. eapply acct_fields_eq_trans; [apply (wr_fields E _ _ _ _ _ a' H1)|].
      eapply acct_fields_eq_trans; [apply F|]. apply acct_fields_eq_sym. apply (wr_fields E _ _ _ _ _ a' H2).
    - intros a' k' Ha'. rewrite (wr_cell E _ _ _ _ _ a' k' H1), (wr_cell E _ _ _ _ _ a' k' H2).
      destruct (beqb_spec a' a) as [->|Hn]; [|apply C1; exact Ha']. cbn [andb].
      destruct (beqb k' k); [apply Hv; exact Ha'|apply C1; exact Ha'].
    - intros a' k' Hk. rewrite (wr_cell E _ _ _ _ _ a' k' H1), (wr_cell E _ _ _ _ _ a' k' H2).
      destruct (beqb_spec a' a) as [->|Hn]; [|apply C2; assumption]. cbn [andb].
      destruct (beqb_spec k' k) as [->|Hn]; [apply Hnp; exact Hk|apply C2; assumption].
    - intros k'. rewrite (wr_cell E _ _ _ _ _ SYS k' H1), (wr_cell E _ _ _ _ _ SYS k' H2).
      destruct (beqb_spec SYS a) as [Heq|Hn]; [|apply C3]. cbn [andb].
      destruct (beqb k' k); [apply Hsys; symmetry; exact Heq|apply C3].
  Qed.
  (* related values into a token cell of an ordinary account *)
  Lemma sim_save_kv a x v v' : a <> SYS -> ceq v v' -> sim eq (save_kv E a (P ++ x) v) (save_kv E a (P ++ x) v').
  Proof.
    intros Ha Hv. apply sim_save_kv_gen; [intros; contradiction|intros; exact Hv|].
    rewrite prefix_of_app. discriminate.
  Qed.
  (* the same value anywhere *)
  Lemma sim_save_kv_same a k v : sim eq (save_kv E a k v) (save_kv E a k v).
  Proof. apply sim_save_kv_gen; [reflexivity|intros; apply ceq_refl|reflexivity]. Qed.
  Lemma sim_alloc n : sim eq (alloc n) (alloc n).
  Proof.
    intros s u Hs. unfold rrel, alloc. destruct (1099511627776 <? n)%N; cbn [fst snd]; [exact I|].
    split; [reflexivity|]. eapply SR_accts; [| |exact Hs]; reflexivity.
  Qed.
  (* account fields *)
  Lemma sim_get_acct a : sim acct_fields_eq (get_acct a) (get_acct a).
  Proof. intros s u Hs. unfold rrel, get_acct. cbn [fst snd]. split; [apply Hs|exact Hs]. Qed.
  Lemma sim_upd_acct a (f f' : account -> account) :
    (forall x, a_store (f x) = a_store x) -> (forall x, a_store (f' x) = a_store x) ->
    (forall x y, acct_fields_eq x y -> acct_fields_eq (f x) (f' y)) ->
    sim eq (upd_acct a f) (upd_acct a f').
  Proof.
    intros Hst Hst' Hf s u Hs. unfold rrel.
    destruct (upd_acct a f s) as [r1 s1] eqn:E1. destruct (upd_acct a f' u) as [r2 u1] eqn:E2.
    assert (r1 = Ok tt) by (unfold upd_acct in E1; inversion E1; reflexivity).
    assert (r2 = Ok tt) by (unfold upd_acct in E2; inversion E2; reflexivity). subst r1 r2. cbn [fst snd].
    split; [reflexivity|].
    assert (A1 : forall a', acct s1 a' = if beqb a' a then f (acct s a) else acct s a') by (intros; eapply upd_acct_acct; eauto).
    assert (A2 : forall a', acct u1 a' = if beqb a' a then f' (acct u a) else acct u a') by (intros; eapply upd_acct_acct; eauto).
    assert (Cs : forall a' k, cell s1 a' k = cell s a' k).
    { intros a' k. unfold cell. rewrite A1. destruct (beqb_spec a' a) as [->|]; [rewrite Hst|]; reflexivity. }
    assert (Cu : forall a' k, cell u1 a' k = cell u a' k).
    { intros a' k. unfold cell. rewrite A2. destruct (beqb_spec a' a) as [->|]; [rewrite Hst'|]; reflexivity. }
    destruct Hs as (F & C1 & C2 & C3). split; [|split; [|split]].
    - intros a'. rewrite A1, A2. destruct (beqb a' a); [apply Hf|]; apply F.
    - intros a' k Ha'. rewrite Cs, Cu. apply C1. exact Ha'.
    - intros a' k Hk. rewrite Cs, Cu. apply C2. exact Hk.
    - intros k. rewrite Cs, Cu. apply C3.
  Qed.

  (* ---------------- helpers ---------------- *)
  Lemma sim_get_esdt_data a key : a <> SYS -> sim tokrel (get_esdt_data E a key) (get_esdt_data E a key).
  Proof.
    intros Ha. unfold get_esdt_data. eapply sim_bind; [apply (sim_retrieve a key Ha)|].
    intros b c Hbc. pose proof (ceq_tok _ _ Hbc) as Ht. pose proof (ceq_nil _ _ Hbc) as Hn.
    destruct b as [|b0 b]; destruct c as [|c0 c]; try (exfalso; destruct Hn as [H1 H2]; first [discriminate (H1 eq_refl)|discriminate (H2 eq_refl)]).
    - intros s u Hs. unfold rrel, ret. cbn [fst snd]. split; [apply tokrel_refl, wf_default_tok|exact Hs].
    - cbn [tokd] in Ht. unfold unmarshal_tok. eapply sim_bind; [apply sim_dep|]. intros _ _ _.
      destruct (dec_tok (cdc E) (b0 :: b)) as [t|]; destruct (dec_tok (cdc E) (c0 :: c)) as [t'|]; try contradiction.
      + intros s u Hs. unfold rrel, lift_opt, ret. cbn [fst snd]. split; [exact Ht|exact Hs].
      + intros s u Hs. unfold rrel, lift_opt, fail. cbn [fst snd]. reflexivity.
  Qed.
  Lemma tokrel_value t u : tokrel t u -> t_value u = t_value t /\ t_type u = t_type t.
  Proof. intros (_ & _ & -> & _). split; reflexivity. Qed.
  Lemma sim_check_froze_and_pause addr key t u rae : tokrel t u ->
    sim eq (check_froze_and_pause addr key t rae) (check_froze_and_pause addr key u rae).
  Proof.
    intros (_ & _ & _ & Hp & _). unfold check_froze_and_pause.
    destruct rae; [apply sim_stateless; sl|]. destruct (beqb addr SC); [apply sim_stateless; sl|]. rewrite Hp.
    apply sim_bind_eq; [apply sim_stateless; sl|]. intros _.
    apply sim_bind_eq; [apply sim_is_paused|]. intros p. apply sim_stateless. sl.
  Qed.
  Lemma sim_save_esdt_data a t u x : a <> SYS -> tokrel t u ->
    sim eq (save_esdt_data E a t (P ++ x)) (save_esdt_data E a u (P ++ x)).
  Proof.
    intros Ha R. destruct (tokrel_value _ _ R) as [Hv _]. pose proof R as (W1 & W2 & Hu & _ & Hz & _).
    unfold save_esdt_data, val_of. rewrite Hv.
    eapply sim_bind; [apply sim_stateless; sl|]. intros v _ <-. rewrite Hz.
    destruct ((v =? 0)%Z && all_zero (t_props u))%bool.
    - apply sim_save_kv; [exact Ha|apply ceq_refl].
    - unfold marshal_tok. eapply (sim_bind (fun b c => b = enc_tok (cdc E) t /\ c = enc_tok (cdc E) u)).
      + eapply sim_bind; [apply sim_dep|]. intros _ _ _ s0 u0 Hs. unfold rrel, ret. cbn [fst snd].
        split; [|exact Hs]. split; reflexivity.
      + intros b c [-> ->]. apply sim_save_kv; [exact Ha|]. apply ceq_enc. exact R.
  Qed.
  Lemma sim_add_to_esdt_balance a x delta rae : a <> SYS ->
    sim eq (add_to_esdt_balance E a (P ++ x) delta rae) (add_to_esdt_balance E a (P ++ x) delta rae).
  Proof.
    intros Ha. unfold add_to_esdt_balance.
    eapply sim_bind; [apply sim_get_esdt_data; exact Ha|]. intros t u R.
    destruct (tokrel_value _ _ R) as [Hv Hty]. rewrite Hty.
    eapply sim_bind; [apply sim_stateless; sl|]. intros _ _ _.
    eapply sim_bind; [apply sim_check_froze_and_pause; exact R|]. intros _ _ _.
    unfold val_of. rewrite Hv. eapply sim_bind; [apply sim_stateless; sl|]. intros v _ <-.
    eapply sim_bind; [apply sim_stateless; sl|]. intros _ _ _.
    apply sim_save_esdt_data; [exact Ha|]. apply tokrel_set_value. exact R.
  Qed.
  Lemma RP_not_P tok : prefix_of P (RP ++ tok) = false.
  Proof. vm_compute. reflexivity. Qed.
  Lemma sim_check_allowed snd a tok role : a <> SYS ->
    sim eq (check_allowed E snd a tok role) (check_allowed E snd a tok role).
  Proof.
    intros Ha. unfold check_allowed. apply sim_bind_eq; [apply sim_stateless; sl|]. intros _.
    apply sim_bind_eq.
    - unfold get_roles. apply sim_bind_eq; [apply sim_retrieve_eq; apply RP_not_P|]. intros b.
      destruct b; [apply sim_stateless; sl|]. unfold unmarshal_rol.
      apply sim_bind_eq; [apply sim_bind_eq; [apply sim_dep|]; intros _; apply sim_stateless; unfold lift_opt; destruct (dec_rol _ _); sl|].
      intros r. apply sim_stateless. sl.
    - intros [r isNew]. apply sim_stateless. sl.
  Qed.
  Lemma sim_check_payable verify a : sim eq (check_payable E verify a) (check_payable E verify a).
  Proof.
    unfold check_payable. destruct verify; [|apply sim_stateless; sl].
    apply sim_bind_eq; [|intros p; apply sim_stateless; sl].
    unfold is_payable. apply sim_bind_eq; [apply sim_dep|]. intros _. apply sim_stateless.
    destruct (payable E a); sl.
  Qed.

  (* ---------------- the four fungible balance functions ---------------- *)
  Lemma stateless_check_local_action i cost : stateless (check_local_action i cost).
  Proof. unfold check_local_action. sl. Qed.
  Lemma sim_local_mint i : i_caller i <> SYS -> sim eq (f_local_mint E i) (f_local_mint E i).
  Proof.
    intros Ha. unfold f_local_mint. cbv zeta.
    apply sim_bind_eq; [apply sim_stateless, stateless_check_local_action|]. intros _.
    apply sim_bind_eq; [apply sim_stateless; sl|]. intros tok.
    apply sim_bind_eq; [apply sim_check_allowed; exact Ha|]. intros _.
    apply sim_bind_eq; [apply sim_stateless; sl|]. intros a1.
    apply sim_bind_eq; [apply sim_stateless; sl|]. intros _.
    apply sim_bind_eq; [apply sim_add_to_esdt_balance; exact Ha|]. intros _.
    apply sim_stateless. sl.
  Qed.
  Lemma sim_local_burn i : i_caller i <> SYS -> sim eq (f_local_burn E i) (f_local_burn E i).
  Proof.
    intros Ha. unfold f_local_burn. cbv zeta.
    apply sim_bind_eq; [apply sim_stateless, stateless_check_local_action|]. intros _.
    apply sim_bind_eq; [apply sim_stateless; sl|]. intros tok.
    apply sim_bind_eq; [apply sim_check_allowed; exact Ha|]. intros _.
    apply sim_bind_eq; [apply sim_stateless; sl|]. intros a1.
    apply sim_bind_eq; [apply sim_add_to_esdt_balance; exact Ha|]. intros _.
    apply sim_stateless. sl.
  Qed.
  Lemma sim_esdt_burn i : i_caller i <> SYS -> sim eq (f_esdt_burn E i) (f_esdt_burn E i).
  Proof.
    intros Ha. unfold f_esdt_burn. cbv zeta.
    apply sim_bind_eq; [apply sim_stateless; sl|]. intros _.
    apply sim_bind_eq; [apply sim_stateless; sl|]. intros _.
    apply sim_bind_eq; [apply sim_stateless; sl|]. intros tok.
    apply sim_bind_eq; [apply sim_stateless; sl|]. intros a1.
    apply sim_bind_eq; [apply sim_stateless; sl|]. intros _.
    apply sim_bind_eq; [apply sim_stateless; sl|]. intros _.
    apply sim_bind_eq; [apply sim_stateless; sl|]. intros _.
    apply sim_bind_eq; [apply sim_stateless; sl|]. intros _.
    apply sim_bind_eq; [apply sim_add_to_esdt_balance; exact Ha|]. intros _.
    apply sim_stateless. sl.
  Qed.
  Lemma sim_esdt_transfer i : (i_snd i = true -> i_caller i <> SYS) -> (i_dst i = true -> i_rcpt i <> SYS) ->
    sim eq (f_esdt_transfer E i) (f_esdt_transfer E i).
  Proof.
    intros Ha Hb. unfold f_esdt_transfer. cbv zeta.
    apply sim_bind_eq; [apply sim_stateless; sl|]. intros _.
    apply sim_bind_eq; [apply sim_stateless; sl|]. intros _.
    apply sim_bind_eq; [apply sim_stateless; sl|]. intros tok.
    apply sim_bind_eq; [apply sim_stateless; sl|]. intros a1.
    apply sim_bind_eq; [apply sim_stateless; sl|]. intros _.
    apply sim_bind_eq.
    { destruct (i_snd i); [|apply sim_stateless; sl].
      apply sim_bind_eq; [apply sim_stateless; sl|]. intros _. apply sim_add_to_esdt_balance. auto. }
    intros _. destruct (i_dst i); [|apply sim_stateless; sl].
    apply sim_bind_eq; [apply sim_check_payable|]. intros _.
    apply sim_bind_eq; [apply sim_add_to_esdt_balance; auto|]. intros _.
    apply sim_stateless. sl.
  Qed.

  (* ---------------- automation for runs of eq-related binds ---------------- *)
  Lemma NP_not_P tok : prefix_of P (NP ++ tok) = false.
  Proof. vm_compute. reflexivity. Qed.
  Lemma sim_ret_eq {A} (x : A) : sim eq (ret x : MT A) (ret x).
  Proof. apply sim_stateless. sl. Qed.
  Lemma sim_bind_ret {A B} (VR : B -> B -> Prop) (x x' : A) (f f' : A -> MT B) :
    sim VR (f x) (f' x') -> sim VR (bind (ret x) f) (bind (ret x') f').
  Proof. intros H s u Hs. exact (H s u Hs). Qed.
  Lemma sim_marshal_tok t u :
    sim (fun b c => b = enc_tok (cdc E) t /\ c = enc_tok (cdc E) u) (marshal_tok E t) (marshal_tok E u).
  Proof.
    unfold marshal_tok. eapply sim_bind; [apply sim_dep|]. intros _ _ _ s0 u0 Hs. unfold rrel, ret. cbn [fst snd].
    split; [|exact Hs]. split; reflexivity.
  Qed.
  Lemma sim_marshal_tok_same t : sim eq (marshal_tok E t) (marshal_tok E t).
  Proof. unfold marshal_tok. apply sim_bind_eq; [apply sim_dep|]. intros _. apply sim_ret_eq. Qed.
  Lemma sim_unmarshal_tok_same b : sim (fun t u => t = u /\ wf_token t) (unmarshal_tok E b) (unmarshal_tok E b).
  Proof.
    unfold unmarshal_tok. eapply sim_bind; [apply sim_dep|]. intros _ _ _ s0 u0 Hs. unfold rrel, lift_opt.
    destruct (dec_tok (cdc E) b) eqn:Ed; unfold ret, fail; cbn [fst snd]; [|reflexivity].
    split; [|exact Hs]. split; [reflexivity|]. eapply (dec_tok_wf _ Hc); eauto.
  Qed.
  Lemma sim_get_latest_nonce a tok : sim eq (get_latest_nonce a tok) (get_latest_nonce a tok).
  Proof.
    unfold get_latest_nonce. apply sim_bind_eq; [apply sim_retrieve_eq, NP_not_P|]. intros b.
    destruct b; apply sim_ret_eq.
  Qed.
  Lemma sim_save_latest_nonce a tok n : sim eq (save_latest_nonce E a tok n) (save_latest_nonce E a tok n).
  Proof. apply sim_save_kv_same. Qed.
  Lemma sim_get_roles a tok : sim eq (get_roles E a (RP ++ tok)) (get_roles E a (RP ++ tok)).
  Proof.
    unfold get_roles. apply sim_bind_eq; [apply sim_retrieve_eq, RP_not_P|]. intros b.
    destruct b; [apply sim_ret_eq|]. unfold unmarshal_rol.
    apply sim_bind_eq; [|intros r; apply sim_ret_eq].
    apply sim_bind_eq; [apply sim_dep|]. intros _. apply sim_stateless. unfold lift_opt. destruct (dec_rol _ _); sl.
  Qed.
  Lemma sim_save_roles a k r : sim eq (save_roles E a k r) (save_roles E a k r).
  Proof.
    unfold save_roles, marshal_rol. apply sim_bind_eq; [|intros b; apply sim_save_kv_same].
    apply sim_bind_eq; [apply sim_dep|]. intros _. apply sim_ret_eq.
  Qed.
  Lemma sim_load_account a : sim eq (load_account E a) (load_account E a). Proof. apply sim_dep. Qed.
  Lemma sim_save_account a : sim eq (save_account E a) (save_account E a). Proof. apply sim_dep. Qed.

  Lemma sim_if {A} (VR : A -> A -> Prop) (b : bool) (m1 m1' m2 m2' : MT A) :
    sim VR m1 m1' -> sim VR m2 m2' -> sim VR (if b then m1 else m2) (if b then m1' else m2').
  Proof. destruct b; auto. Qed.
  Ltac simleaf :=
    first [ apply sim_stateless; solve [sl]
          | apply sim_if; simleaf
          | apply sim_dep | apply sim_load_account | apply sim_save_account | apply sim_alloc
          | apply sim_check_payable | apply sim_is_paused
          | apply sim_get_latest_nonce | apply sim_save_latest_nonce | apply sim_get_roles | apply sim_save_roles
          | apply sim_save_kv_same | apply sim_marshal_tok_same
          | apply sim_check_allowed; solve [auto]
          | apply sim_add_to_esdt_balance; solve [auto] ].
  Ltac sb := apply sim_bind_eq; [simleaf|intros ?].
  Ltac sbg := eapply sim_bind; [simleaf|intros ? ? <-].

  (* ---------------- NFT helpers ---------------- *)
  Definition tokrel2 (p q : token * bool) : Prop := tokrel (fst p) (fst q) /\ snd p = snd q.
  Lemma sim_get_nft_on_destination a key nonce : a <> SYS ->
    sim tokrel2 (get_nft_on_destination E a key nonce) (get_nft_on_destination E a key nonce).
  Proof.
    intros Ha. unfold get_nft_on_destination. eapply sim_bind; [apply (sim_retrieve a _ Ha)|].
    intros b c Hbc. pose proof (ceq_tok _ _ Hbc) as Ht. pose proof (ceq_nil _ _ Hbc) as Hn.
    destruct b as [|b0 b]; destruct c as [|c0 c];
      try (exfalso; destruct Hn as [H1 H2]; first [discriminate (H1 eq_refl)|discriminate (H2 eq_refl)]).
    - intros s u Hs. unfold rrel, ret. cbn [fst snd]. split; [|exact Hs].
      split; [apply tokrel_refl, wf_default_tok|reflexivity].
    - cbn [tokd] in Ht. eapply (sim_bind tokrel).
      + unfold unmarshal_tok. eapply sim_bind; [apply sim_dep|]. intros _ _ _.
        destruct (dec_tok (cdc E) (b0 :: b)) as [t|]; destruct (dec_tok (cdc E) (c0 :: c)) as [t'|]; try contradiction.
        * intros s u Hs. unfold rrel, lift_opt, ret. cbn [fst snd]. split; [exact Ht|exact Hs].
        * intros s u Hs. unfold rrel, lift_opt, fail. cbn [fst snd]. reflexivity.
      + intros t u R s0 u0 Hs. unfold rrel, ret. cbn [fst snd]. split; [|exact Hs]. split; [exact R|reflexivity].
  Qed.
  Lemma tokrel_meta t u : tokrel t u -> t_meta u = t_meta t.
  Proof. intros (_ & _ & -> & _). reflexivity. Qed.
  (* the looked-up entries are related, and carry metadata exactly when the nonce is positive *)
  Definition sender_rel (nonce : N) (t u : token) : Prop :=
    tokrel t u /\ ((0 <? nonce)%N = true -> t_meta t <> None).
  Lemma sim_get_nft_on_sender a key nonce : a <> SYS ->
    sim (sender_rel nonce) (get_nft_on_sender E a key nonce) (get_nft_on_sender E a key nonce).
  Proof.
    intros Ha. unfold get_nft_on_sender. eapply sim_bind; [apply sim_get_nft_on_destination; exact Ha|].
    intros [t n] [u n'] [R Hn]. cbn [fst snd] in R, Hn. subst n'. rewrite (tokrel_meta _ _ R).
    eapply sim_bind; [apply sim_stateless; sl|]. intros _ _ _.
    destruct (negb ((0 <? nonce)%N && match t_meta t with None => true | Some _ => false end)) eqn:Eg;
      [|apply sim_stateless; sl].
    eapply sim_bind; [apply sim_stateless; sl|]. intros _ _ _.
    eapply sim_bind; [apply sim_stateless; sl|]. intros _ _ _.
    intros s0 u0 Hs. unfold rrel, ret. cbn [fst snd]. split; [|assumption]. split; [exact R|].
    intros Hpos Hm. rewrite Hpos, Hm in Eg. discriminate.
  Qed.
  Lemma sim_save_nft a x t u rae : a <> SYS -> tokrel t u ->
    sim (fun b c => t = u -> b = c) (save_nft E a (P ++ x) t rae) (save_nft E a (P ++ x) u rae).
  Proof.
    intros Ha R. pose proof R as (W1 & W2 & Hu & Hp). destruct (tokrel_value _ _ R) as [Hv _].
    assert (Hn : tok_nonce u = tok_nonce t) by (rewrite Hu; reflexivity).
    unfold save_nft. cbv zeta. rewrite Hn.
    eapply sim_bind; [apply sim_check_froze_and_pause; exact R|]. intros _ _ _.
    eapply sim_bind; [apply sim_check_froze_and_pause; exact R|]. intros _ _ _.
    unfold val_of. rewrite Hv. eapply sim_bind; [apply sim_stateless; sl|]. intros v _ <-.
    rewrite nft_key_app. destruct (v <=? 0)%Z.
    - eapply sim_bind; [apply sim_save_kv; [exact Ha|apply ceq_refl]|]. intros _ _ _.
      intros s0 u0 Hs. unfold rrel, ret. cbn [fst snd]. split; [reflexivity|exact Hs].
    - eapply sim_bind; [apply sim_marshal_tok|]. intros b c [-> ->].
      eapply sim_bind; [apply sim_save_kv; [exact Ha|apply ceq_enc; exact R]|]. intros _ _ _.
      intros s0 u0 Hs. unfold rrel, ret. cbn [fst snd]. split; [intros ->; reflexivity|exact Hs].
  Qed.
  Lemma sim_save_nft_same a x t rae : a <> SYS -> wf_token t ->
    sim eq (save_nft E a (P ++ x) t rae) (save_nft E a (P ++ x) t rae).
  Proof.
    intros Ha W. eapply sim_weaken; [|apply sim_save_nft; [exact Ha|apply tokrel_refl; exact W]].
    intros b c H. apply H. reflexivity.
  Qed.
  Lemma sim_add_nft_to_destination dst x t verify rae : dst <> SYS -> wf_token t ->
    sim eq (add_nft_to_destination E dst (P ++ x) t verify rae) (add_nft_to_destination E dst (P ++ x) t verify rae).
  Proof.
    intros Ha Wt. unfold add_nft_to_destination. sb.
    eapply sim_bind; [apply sim_get_nft_on_destination; exact Ha|].
    intros [cur n] [cur' n'] [R Hn]. cbn [fst snd] in R, Hn. subst n'.
    eapply sim_bind; [apply sim_check_froze_and_pause; exact R|]. intros _ _ _.
    rewrite (tokrel_meta _ _ R). unfold val_of. rewrite (proj1 (tokrel_value _ _ R)).
    apply sim_bind_eq.
    { destruct (t_meta cur); [|apply sim_ret_eq]. apply sim_stateless. unfold lift_opt. destruct (t_meta t); sl. }
    intros _. sb. sb.
    apply sim_bind_eq; [apply sim_save_nft_same; [exact Ha|apply wf_set_value; exact Wt]|]. intros _. apply sim_ret_eq.
  Qed.
  Lemma tokrel_set_meta t u m : tokrel t u -> t_meta t <> None -> wf_metadata m ->
    tokrel (set_meta t (Some m)) (set_meta u (Some m)).
  Proof.
    intros (W1 & W2 & Hu & Hf & Hz & Hm) Hne Wm. destruct W1 as [T1 _]. destruct W2 as [T2 _].
    split; [split; [exact T1|exact Wm]|]. split; [split; [exact T2|exact Wm]|].
    split; [rewrite Hu at 1; reflexivity|]. split; [exact Hf|]. split; [exact Hz|].
    intros Hs _. rewrite (Hm Hs Hne). reflexivity.
  Qed.
  Lemma wf_meta_tok t m : wf_token t -> t_meta t = Some m -> wf_metadata m.
  Proof. intros [_ H] Hm. rewrite Hm in H. exact H. Qed.

  (* ---------------- the NFT supply functions ---------------- *)
  Lemma stateless_check_create_burn_add i cost : stateless (check_create_burn_add i cost).
  Proof. unfold check_create_burn_add. sl. Qed.
  Lemma sim_nft_create i : i_caller i <> SYS -> sim eq (f_nft_create E i) (f_nft_create E i).
  Proof.
    intros Ha. unfold f_nft_create. cbv zeta.
    apply sim_bind_eq; [apply sim_stateless, stateless_check_create_burn_add|]. intros _.
    repeat sb.
    apply sim_bind_eq.
    { apply sim_save_nft_same; [exact Ha|]. split; [vm_compute; reflexivity|].
      cbn [t_meta]. split; cbn [md_nonce md_royalties]; [apply u64_lt|apply LedgerProofs.Spec_Supply.u32_lt]. }
    intros b. sb. apply sim_ret_eq.
  Qed.
  (* the four functions that rewrite an existing NFT entry: lookup, then save a modified copy *)
  Lemma sim_nft_add_quantity i : i_caller i <> SYS -> sim eq (f_nft_add_quantity E i) (f_nft_add_quantity E i).
  Proof.
    intros Ha. unfold f_nft_add_quantity. cbv zeta.
    apply sim_bind_eq; [apply sim_stateless, stateless_check_create_burn_add|]. intros _.
    repeat sb.
    eapply sim_bind; [apply sim_get_nft_on_sender; exact Ha|]. intros t u [R Rm].
    unfold val_of. rewrite (proj1 (tokrel_value _ _ R)).
    eapply sim_bind; [apply sim_stateless; sl|]. intros v _ <-.
    eapply sim_bind; [apply sim_stateless; sl|]. intros a2 _ <-.
    eapply sim_bind; [apply sim_save_nft; [exact Ha|apply tokrel_set_value; exact R]|]. intros _ _ _.
    apply sim_ret_eq.
  Qed.
  Lemma sim_nft_burn i : i_caller i <> SYS -> sim eq (f_nft_burn E i) (f_nft_burn E i).
  Proof.
    intros Ha. unfold f_nft_burn. cbv zeta.
    apply sim_bind_eq; [apply sim_stateless, stateless_check_create_burn_add|]. intros _.
    repeat sb.
    eapply sim_bind; [apply sim_get_nft_on_sender; exact Ha|]. intros t u [R Rm].
    unfold val_of. rewrite (proj1 (tokrel_value _ _ R)).
    eapply sim_bind; [apply sim_stateless; sl|]. intros v _ <-.
    eapply sim_bind; [apply sim_stateless; sl|]. intros a2 _ <-.
    eapply sim_bind; [apply sim_stateless; sl|]. intros _ _ _.
    eapply sim_bind; [apply sim_save_nft; [exact Ha|apply tokrel_set_value; exact R]|]. intros _ _ _.
    apply sim_ret_eq.
  Qed.
  Lemma sim_nft_add_uri i : i_caller i <> SYS -> sim eq (f_nft_add_uri E i) (f_nft_add_uri E i).
  Proof.
    intros Ha. unfold f_nft_add_uri. cbv zeta.
    apply sim_bind_eq; [apply sim_stateless, stateless_check_create_burn_add|]. intros _.
    repeat sb.
    eapply sim_bind; [apply sim_get_nft_on_sender; exact Ha|]. intros t u [R Rm].
    unfold meta_of. rewrite (tokrel_meta _ _ R). destruct (t_meta t) as [md|] eqn:Em; [|apply sim_stateless; sl].
    cbn [opt_or_panic]. apply sim_bind_ret.
    eapply sim_bind; [apply sim_save_nft; [exact Ha|]|].
    { apply tokrel_set_meta; [exact R|rewrite Em; discriminate|]. destruct R as (W1 & _). exact (wf_meta_tok _ _ W1 Em). }
    intros _ _ _. apply sim_ret_eq.
  Qed.
  Lemma sim_nft_update_attributes i : i_caller i <> SYS ->
    sim eq (f_nft_update_attributes E i) (f_nft_update_attributes E i).
  Proof.
    intros Ha. unfold f_nft_update_attributes. cbv zeta.
    apply sim_bind_eq; [apply sim_stateless, stateless_check_create_burn_add|]. intros _.
    repeat sb.
    eapply sim_bind; [apply sim_get_nft_on_sender; exact Ha|]. intros t u [R Rm].
    unfold meta_of. rewrite (tokrel_meta _ _ R). destruct (t_meta t) as [md|] eqn:Em; [|apply sim_stateless; sl].
    cbn [opt_or_panic]. apply sim_bind_ret.
    eapply sim_bind; [apply sim_save_nft; [exact Ha|]|].
    { apply tokrel_set_meta; [exact R|rewrite Em; discriminate|]. destruct R as (W1 & _). exact (wf_meta_tok _ _ W1 Em). }
    intros _ _ _. apply sim_ret_eq.
  Qed.

  (* ---------------- system-contract functions ---------------- *)
  Lemma stateless_check_system_one_arg i : stateless (check_system_one_arg i).
  Proof. unfold check_system_one_arg. sl. Qed.
  Lemma sim_freeze_wipe fz wp i : i_rcpt i <> SYS -> sim eq (f_freeze_wipe E fz wp i) (f_freeze_wipe E fz wp i).
  Proof.
    intros Ha. unfold f_freeze_wipe.
    apply sim_bind_eq; [apply sim_stateless, stateless_check_system_one_arg|]. intros _.
    repeat sb. cbv zeta.
    eapply sim_bind; [apply sim_get_esdt_data; exact Ha|]. intros t u R.
    pose proof R as (W1 & W2 & Hu & Hp & _). destruct wp.
    - rewrite <- Hp. eapply sim_bind; [apply sim_stateless; sl|]. intros _ _ _.
      eapply sim_bind; [apply sim_save_kv; [exact Ha|apply ceq_refl]|]. intros _ _ _. apply sim_ret_eq.
    - eapply sim_bind; [apply sim_save_esdt_data; [exact Ha|]|intros _ _ _; apply sim_ret_eq].
      assert (Hs : set_props u (flag_bytes fz) = set_props t (flag_bytes fz)) by (rewrite Hu; reflexivity).
      rewrite Hs. apply tokrel_refl. apply wf_set_props. exact W1.
  Qed.
  Lemma sim_pause p i : sim eq (f_pause E p i) (f_pause E p i).
  Proof.
    unfold f_pause. apply sim_bind_eq; [apply sim_stateless, stateless_check_system_one_arg|]. intros _.
    repeat sb. apply sim_ret_eq.
  Qed.
  Lemma sim_roles set i : sim eq (f_roles E set i) (f_roles E set i).
  Proof.
    unfold f_roles. cbv zeta. repeat sb.
    match goal with x : (roles * bool)%type |- _ => destruct x as [r isNew] end. repeat sb. apply sim_ret_eq.
  Qed.
  Lemma sim_delete_create_role a tok : sim eq (delete_create_role E a (RP ++ tok)) (delete_create_role E a (RP ++ tok)).
  Proof. unfold delete_create_role. sb. destruct x as [r isNew]. simleaf. Qed.
  Lemma sim_add_create_role a tok : sim eq (add_create_role E a (RP ++ tok)) (add_create_role E a (RP ++ tok)).
  Proof. unfold add_create_role. sb. destruct x as [r isNew]. destruct (bytes_in _ r); simleaf. Qed.
  Lemma sim_create_role_transfer i : sim eq (f_create_role_transfer E i) (f_create_role_transfer E i).
  Proof.
    unfold f_create_role_transfer. cbv zeta. repeat sb. destruct (beqb (i_caller i) SC).
    - repeat sb. apply sim_bind_eq; [apply sim_delete_create_role|]. intros _.
      apply sim_bind_eq; [|intros _; apply sim_ret_eq].
      destruct (shard_of E _ =? self_shard E)%N; [|apply sim_ret_eq].
      repeat sb. apply sim_bind_eq; [apply sim_add_create_role|]. intros _. simleaf.
    - repeat sb. apply sim_bind_eq; [apply sim_add_create_role|]. intros _. apply sim_ret_eq.
  Qed.

  (* ---------------- account-level functions ---------------- *)
  Lemma sim_change_owner i : sim eq (f_change_owner E i) (f_change_owner E i).
  Proof.
    unfold f_change_owner. cbv zeta. repeat sb. destruct (negb (i_dst i)); [apply sim_ret_eq|].
    eapply sim_bind; [apply sim_get_acct|]. intros d d' (_ & Ho & _ & _). rewrite Ho.
    eapply sim_bind; [apply sim_stateless; sl|]. intros _ _ _.
    eapply sim_bind; [apply sim_dep|]. intros _ _ _.
    eapply sim_bind; [|intros _ _ _; apply sim_ret_eq].
    apply sim_upd_acct; [reflexivity|reflexivity|]. intros xa ya (Hb & _ & Hu & Hr). repeat split; assumption.
  Qed.
  Lemma sim_claim_rewards i : sim eq (f_claim_rewards E i) (f_claim_rewards E i).
  Proof.
    unfold f_claim_rewards. cbv zeta. repeat sb. destruct (negb (i_dst i)); [apply sim_ret_eq|].
    eapply sim_bind; [apply sim_get_acct|]. intros d d' (_ & Ho & _ & Hr). rewrite Ho, Hr.
    eapply sim_bind; [apply sim_stateless; sl|]. intros _ _ _.
    eapply sim_bind; [apply sim_stateless; sl|]. intros _ _ _.
    eapply sim_bind; [apply sim_dep|]. intros _ _ _.
    eapply sim_bind.
    { apply sim_upd_acct; [reflexivity|reflexivity|]. intros xa ya (Hb & Hw & Hu & _). repeat split; assumption. }
    intros _ _ _. destruct (negb (i_snd i)); [apply sim_ret_eq|].
    eapply sim_bind; [apply sim_dep|]. intros _ _ _.
    eapply sim_bind; [|intros _ _ _; apply sim_ret_eq].
    apply sim_upd_acct; [reflexivity|reflexivity|]. intros xa ya (Hb & Hw & Hu & Hr'). repeat split; cbn; congruence.
  Qed.
  Lemma sim_set_user_name i : sim eq (f_set_user_name E i) (f_set_user_name E i).
  Proof.
    unfold f_set_user_name. cbv zeta. repeat sb. destruct (negb (i_dst i)); [apply sim_ret_eq|].
    eapply sim_bind; [apply sim_get_acct|]. intros d d' (_ & _ & Hu & _). rewrite Hu.
    eapply sim_bind; [apply sim_stateless; sl|]. intros _ _ _.
    eapply sim_bind; [|intros _ _ _; apply sim_ret_eq].
    apply sim_upd_acct; [reflexivity|reflexivity|]. intros xa ya (Hb & Hw & _ & Hr). repeat split; assumption.
  Qed.
  Lemma allowed_not_P k : key_allowed k = true -> prefix_of P k = false.
  Proof.
    intros H. apply key_allowed_not_protected in H. destruct (prefix_of P k) eqn:Ep; [|reflexivity].
    apply prefix_of_true in Ep as [r ->]. unfold P in H. rewrite <- app_assoc, prefix_of_app in H. discriminate.
  Qed.
  Lemma sim_skv_loop a g : forall pairs use, sim eq (skv_loop E a g pairs use) (skv_loop E a g pairs use).
  Proof.
    intros pairs. induction pairs as [| x |k v r IH] using pair_ind; intros use.
    - apply sim_ret_eq.
    - apply sim_stateless. sl.
    - cbn [skv_loop]. cbv zeta. destruct (key_allowed k) eqn:Ek; [|apply sim_stateless; sl].
      apply sim_bind_eq; [apply sim_stateless; sl|]. intros _.
      apply sim_bind_eq; [apply sim_retrieve_eq, allowed_not_P; exact Ek|]. intros old.
      destruct (beqb old v); [apply IH|]. repeat sb. apply IH.
  Qed.
  Lemma sim_save_key_value i : sim eq (f_save_key_value E i) (f_save_key_value E i).
  Proof.
    unfold f_save_key_value. cbv zeta. repeat sb.
    apply sim_bind_eq; [apply sim_skv_loop|]. intros use. repeat sb. apply sim_ret_eq.
  Qed.

  (* ---------------- destination side of the two NFT transfers ---------------- *)
  Lemma sim_nft_transfer_dest i : i_caller i <> i_rcpt i -> i_rcpt i <> SYS -> sim eq (f_nft_transfer E i) (f_nft_transfer E i).
  Proof.
    intros Hne Ha. unfold f_nft_transfer. cbv zeta. repeat sb. rewrite (beqb_false _ _ Hne). repeat sb.
    eapply sim_bind; [apply sim_unmarshal_tok_same|]. intros t _ [<- Wt].
    apply sim_bind_eq; [apply sim_add_nft_to_destination; assumption|]. intros _.
    apply sim_bind_eq.
    { destruct ((nft_min <? alen (i_args i))%N && is_sc (i_rcpt i))%bool; [|apply sim_ret_eq]. repeat sb. apply sim_ret_eq. }
    intros o. repeat sb. apply sim_ret_eq.
  Qed.
  Lemma sim_multi_dest_loop i minArgs : i_rcpt i <> SYS -> forall fuel idx logs,
    sim eq (multi_dest_loop E fuel i minArgs idx logs) (multi_dest_loop E fuel i minArgs idx logs).
  Proof.
    intros Ha fuel. induction fuel as [|f IH]; intros idx logs; [apply sim_ret_eq|].
    cbn [multi_dest_loop]. cbv zeta. repeat sb.
    apply sim_bind_eq; [|intros _; apply IH].
    destruct (0 <? bigU64 _)%N.
    - repeat sb. eapply sim_bind; [apply sim_unmarshal_tok_same|]. intros t _ [<- Wt].
      apply sim_bind_eq; [apply sim_add_nft_to_destination; assumption|]. intros _. apply sim_ret_eq.
    - repeat sb. simleaf.
  Qed.
  Lemma sim_multi_transfer_dest i : i_caller i <> i_rcpt i -> i_rcpt i <> SYS ->
    sim eq (f_multi_transfer E i) (f_multi_transfer E i).
  Proof.
    intros Hne Ha. unfold f_multi_transfer. cbv zeta. repeat sb. rewrite (beqb_false _ _ Hne). repeat sb.
    apply sim_bind_eq; [apply sim_multi_dest_loop; exact Ha|]. intros logs.
    destruct ((_ <? alen (i_args i))%N && is_sc (i_rcpt i))%bool; [|apply sim_ret_eq]. repeat sb. apply sim_ret_eq.
  Qed.

  (* ---------------- sender side of the two NFT transfers (strict relation only) ---------------- *)
  Lemma sim_add_nft_to_destination_rel dst x t u verify rae : dst <> SYS -> tokrel t u ->
    sim tokrel (add_nft_to_destination E dst (P ++ x) t verify rae) (add_nft_to_destination E dst (P ++ x) u verify rae).
  Proof.
    intros Ha R. unfold add_nft_to_destination.
    eapply sim_bind; [apply sim_check_payable|]. intros _ _ _.
    assert (Hn : tok_nonce u = tok_nonce t) by (destruct R as (_ & _ & Hu & _); rewrite Hu; reflexivity). rewrite Hn.
    eapply sim_bind; [apply sim_get_nft_on_destination; exact Ha|].
    intros [cur n] [cur' n'] [Rc Hn']. cbn [fst snd] in Rc, Hn'. subst n'.
    eapply sim_bind; [apply sim_check_froze_and_pause; exact Rc|]. intros _ _ _.
    rewrite (tokrel_meta _ _ Rc), (tokrel_meta _ _ R). unfold val_of.
    rewrite (proj1 (tokrel_value _ _ Rc)), (proj1 (tokrel_value _ _ R)).
    eapply sim_bind.
    { destruct (t_meta cur); [|apply sim_ret_eq]. apply sim_stateless. unfold lift_opt. destruct (t_meta t); sl. }
    intros _ _ _. eapply sim_bind; [apply sim_stateless; sl|]. intros v _ <-.
    eapply sim_bind; [apply sim_stateless; sl|]. intros cv _ <-.
    eapply sim_bind; [apply sim_save_nft; [exact Ha|apply tokrel_set_value; exact R]|]. intros _ _ _.
    intros s0 u0 Hs. unfold rrel, ret. cbn [fst snd]. split; [apply tokrel_set_value; exact R|exact Hs].
  Qed.
  Lemma sim_transfer_one_sender sndp caller dl dst tok nonce q verify rae :
    caller <> SYS -> (dl = true -> dst <> SYS) ->
    sim tokrel (transfer_one_sender E sndp caller dl dst tok nonce q verify rae)
               (transfer_one_sender E sndp caller dl dst tok nonce q verify rae).
  Proof.
    intros Ha Hd. unfold transfer_one_sender. cbv zeta. repeat sb.
    eapply sim_bind; [apply sim_get_nft_on_sender; exact Ha|]. intros t u [R _].
    unfold val_of. rewrite (proj1 (tokrel_value _ _ R)).
    eapply sim_bind; [apply sim_stateless; sl|]. intros v _ <-.
    eapply sim_bind; [apply sim_stateless; sl|]. intros _ _ _.
    eapply sim_bind; [apply sim_save_nft; [exact Ha|apply tokrel_set_value; exact R]|]. intros _ _ _.
    destruct dl.
    - apply sim_add_nft_to_destination_rel; [auto|apply tokrel_set_value; exact R].
    - intros s0 u0 Hs. unfold rrel, ret. cbn [fst snd]. split; [apply tokrel_set_value; exact R|exact Hs].
  Qed.
  Definition accrel (p q : bytes * token) : Prop := fst p = fst q /\ tokrel (snd p) (snd q).
  Lemma Forall2_rev' {A} (R : A -> A -> Prop) l l' : Forall2 R l l' -> Forall2 R (rev l) (rev l').
  Proof.
    induction 1 as [|x y l l' Hxy Hl IH]; [constructor|]. cbn [rev]. apply Forall2_app; [exact IH|]. constructor; [exact Hxy|constructor].
  Qed.
  Lemma sim_multi_sender_loop i dl dst verify : i_caller i <> SYS -> (dl = true -> dst <> SYS) ->
    forall fuel idx acc acc' logs, Forall2 accrel acc acc' ->
    sim (fun r r' => Forall2 accrel (fst r) (fst r') /\ snd r = snd r')
        (multi_sender_loop E fuel i dl dst verify idx acc logs) (multi_sender_loop E fuel i dl dst verify idx acc' logs).
  Proof.
    intros Ha Hd fuel. induction fuel as [|f IH]; intros idx acc acc' logs Hacc.
    - cbn [multi_sender_loop]. intros s0 u0 Hs. unfold rrel, ret. cbn [fst snd]. split; [|exact Hs].
      split; [apply Forall2_rev'; exact Hacc|reflexivity].
    - cbn [multi_sender_loop]. cbv zeta. repeat sbg.
      eapply sim_bind; [apply sim_transfer_one_sender; assumption|]. intros t u R.
      apply IH. constructor; [split; [reflexivity|exact R]|exact Hacc].
  Qed.
  Lemma sim_multi_out_args : strict = true -> forall l l', Forall2 accrel l l' ->
    forall o acc, sim eq (multi_out_args E l o acc) (multi_out_args E l' o acc).
  Proof.
    intros Hst l l' Hl. induction Hl as [|[tok t] [tok' u] l l' [Ht R] Hl IH]; intros o acc; [apply sim_ret_eq|].
    cbn [fst snd] in Ht, R. subst tok'. cbn [multi_out_args]. rewrite (tokrel_meta _ _ R).
    destruct (t_meta t) as [m|] eqn:Em.
    - assert (t = u) by (apply (tokrel_strict _ _ R Hst); rewrite Em; discriminate). subst u.
      repeat sbg. apply IH.
    - unfold val_of. rewrite (proj1 (tokrel_value _ _ R)). repeat sbg. apply IH.
  Qed.
  Lemma sim_multi_transfer_sender i : strict = true -> i_caller i <> SYS -> argn i 0 <> SYS ->
    sim eq (f_multi_transfer_sender E i) (f_multi_transfer_sender E i).
  Proof.
    intros Hst Ha Hd. unfold f_multi_transfer_sender. cbv zeta.
    destruct (nth_error (i_args i) 0) as [dst|] eqn:Ed.
    2:{ apply sim_stateless. unfold arg. change (N.to_nat 0) with 0%nat. rewrite Ed.
        destruct (0 <? alen (i_args i))%N; apply stateless_bind_panic. }
    assert (Hdst : arg (i_args i) 0 = (if (0 <? alen (i_args i))%N then ret dst else panic)).
    { unfold arg. change (N.to_nat 0) with 0%nat. rewrite Ed. reflexivity. }
    rewrite Hdst. destruct (0 <? alen (i_args i))%N; [|apply sim_stateless, stateless_bind_panic]. apply sim_bind_ret.
    assert (Hdn : dst <> SYS) by (intros ->; apply Hd; unfold argn; apply nth_error_nth with (d := []) in Ed; exact Ed).
    repeat sb.
    eapply sim_bind; [apply sim_multi_sender_loop; [exact Ha|intros _; exact Hdn|constructor]|].
    intros [lst logs] [lst' logs'] [Hl Hlg]. cbn [fst snd] in Hl, Hlg. subst logs'.
    repeat sbg.
    eapply sim_bind; [apply sim_multi_out_args; [exact Hst|exact Hl]|]. intros [args' o] _ <-.
    repeat sb.
    destruct (negb (self_shard E =? shard_of E dst)%N); [apply sim_ret_eq|].
    destruct ((_ <? alen (i_args i))%N && is_sc dst)%bool; [|apply sim_ret_eq]. repeat sb. apply sim_ret_eq.
  Qed.
  Lemma sim_nft_transfer_sender i : strict = true -> i_caller i <> SYS -> argn i 3 <> SYS ->
    sim eq (f_nft_transfer_sender E i) (f_nft_transfer_sender E i).
  Proof.
    intros Hst Ha Hd. unfold f_nft_transfer_sender. cbv zeta.
    destruct (nth_error (i_args i) 3) as [dst|] eqn:Ed.
    2:{ apply sim_stateless. unfold arg. change (N.to_nat 3) with 3%nat. rewrite Ed.
        destruct (3 <? alen (i_args i))%N; apply stateless_bind_panic. }
    assert (Hdst : arg (i_args i) 3 = (if (3 <? alen (i_args i))%N then ret dst else panic)).
    { unfold arg. change (N.to_nat 3) with 3%nat. rewrite Ed. reflexivity. }
    rewrite Hdst. destruct (3 <? alen (i_args i))%N; [|apply sim_stateless, stateless_bind_panic]. apply sim_bind_ret.
    assert (Hdn : dst <> SYS) by (intros ->; apply Hd; unfold argn; apply nth_error_nth with (d := []) in Ed; exact Ed).
    do 6 sb. destruct (negb (bigU64 x4 =? 0)%N) eqn:En; [|apply sim_stateless; sl].
    repeat sb.
    eapply sim_bind; [apply sim_get_nft_on_sender; exact Ha|]. intros t u [R Rm].
    assert (t = u).
    { apply (tokrel_strict _ _ R Hst). apply Rm. apply negb_true_iff in En. apply N.eqb_neq in En. apply N.ltb_lt. lia. }
    subst u. pose proof R as (Wt & _).
    repeat sb.
    apply sim_bind_eq; [apply sim_save_nft_same; [exact Ha|apply wf_set_value; exact Wt]|]. intros _.
    apply sim_bind_eq.
    { destruct (self_shard E =? shard_of E dst)%N; [|apply sim_ret_eq]. sb.
      apply sim_bind_eq; [apply sim_add_nft_to_destination; [exact Hdn|apply wf_set_value; exact Wt]|]. intros t'.
      sb. apply sim_ret_eq. }
    intros t2. repeat sb. apply sim_ret_eq.
  Qed.

  (* ---------------- through the dispatch ---------------- *)
  Definition nft_sender_side (f : bytes) (i : input) : Prop :=
    (f = C.BuiltInFunctionESDTNFTTransfer \/ f = C.BuiltInFunctionMultiESDTNFTTransfer) /\ i_caller i = i_rcpt i.
  (* the system account is not a party of the call (the pause toggles name a system-account recipient by design) *)
  Definition sys_not_party (f : bytes) (i : input) : Prop :=
    f = C.BuiltInFunctionESDTPause \/ f = C.BuiltInFunctionESDTUnPause \/ (i_caller i <> SYS /\ i_rcpt i <> SYS).

  Ltac party Hp :=
    destruct Hp as [Hp|[Hp|[? ?]]];
    [exfalso; apply beqb_true in Hp; vm_compute in Hp; discriminate Hp
    |exfalso; apply beqb_true in Hp; vm_compute in Hp; discriminate Hp|].
  Lemma sim_exec f i : ~ nft_sender_side f i -> sys_not_party f i -> sim eq (exec E f i) (exec E f i).
  Proof.
    intros Hn Hp. unfold exec.
    destruct (beqb_spec f C.BuiltInFunctionClaimDeveloperRewards) as [->|N01]; [apply sim_claim_rewards|].
    destruct (beqb_spec f C.BuiltInFunctionChangeOwnerAddress) as [->|N02]; [apply sim_change_owner|].
    destruct (beqb_spec f C.BuiltInFunctionSetUserName) as [->|N03]; [apply sim_set_user_name|].
    destruct (beqb_spec f C.BuiltInFunctionSaveKeyValue) as [->|N04]; [apply sim_save_key_value|].
    destruct (beqb_spec f C.BuiltInFunctionESDTPause) as [->|N05]; [apply sim_pause|].
    destruct (beqb_spec f C.BuiltInFunctionESDTUnPause) as [->|N06]; [apply sim_pause|].
    destruct (beqb_spec f C.BuiltInFunctionESDTTransfer) as [->|N07]; [party Hp; apply sim_esdt_transfer; auto|].
    destruct (beqb_spec f C.BuiltInFunctionESDTBurn) as [->|N08]; [party Hp; apply sim_esdt_burn; auto|].
    destruct (beqb_spec f C.BuiltInFunctionESDTFreeze) as [->|N09]; [party Hp; apply sim_freeze_wipe; auto|].
    destruct (beqb_spec f C.BuiltInFunctionESDTUnFreeze) as [->|N10]; [party Hp; apply sim_freeze_wipe; auto|].
    destruct (beqb_spec f C.BuiltInFunctionESDTWipe) as [->|N11]; [party Hp; apply sim_freeze_wipe; auto|].
    destruct (beqb_spec f C.BuiltInFunctionUnSetESDTRole) as [->|N12]; [apply sim_roles|].
    destruct (beqb_spec f C.BuiltInFunctionSetESDTRole) as [->|N13]; [apply sim_roles|].
    destruct (beqb_spec f C.BuiltInFunctionESDTLocalBurn) as [->|N14]; [party Hp; apply sim_local_burn; auto|].
    destruct (beqb_spec f C.BuiltInFunctionESDTLocalMint) as [->|N15]; [party Hp; apply sim_local_mint; auto|].
    destruct (beqb_spec f C.BuiltInFunctionESDTNFTAddQuantity) as [->|N16]; [party Hp; apply sim_nft_add_quantity; auto|].
    destruct (beqb_spec f C.BuiltInFunctionESDTNFTBurn) as [->|N17]; [party Hp; apply sim_nft_burn; auto|].
    destruct (beqb_spec f C.BuiltInFunctionESDTNFTCreate) as [->|N18]; [party Hp; apply sim_nft_create; auto|].
    destruct (beqb_spec f C.BuiltInFunctionESDTNFTTransfer) as [->|N19].
    { party Hp. apply sim_nft_transfer_dest; [|assumption]. intros Heq. apply Hn. split; auto. }
    destruct (beqb_spec f C.BuiltInFunctionESDTNFTCreateRoleTransfer) as [->|N20]; [apply sim_create_role_transfer|].
    destruct (beqb_spec f C.BuiltInFunctionESDTNFTUpdateAttributes) as [->|N21]; [party Hp; apply sim_nft_update_attributes; auto|].
    destruct (beqb_spec f C.BuiltInFunctionESDTNFTAddURI) as [->|N22]; [party Hp; apply sim_nft_add_uri; auto|].
    destruct (beqb_spec f C.BuiltInFunctionMultiESDTNFTTransfer) as [->|N23].
    { party Hp. apply sim_multi_transfer_dest; [|assumption]. intros Heq. apply Hn. split; auto. }
    apply sim_stateless. sl.
  Qed.

  Theorem props_irrelevance_partial f i s u :
    SR s u -> ~ nft_sender_side f i -> sys_not_party f i ->
    match exec E f i s, exec E f i u with
    | (Ok o, s'), (Ok o', u') => o = o' /\ SR s' u'
    | (Err e, _), (Err e', _) => e = e'
    | (Panic, _), (Panic, _) => True
    | _, _ => False
    end.
  Proof.
    intros Hs Hn Hp. pose proof (sim_exec f i Hn Hp s u Hs) as H.
    unfold rrel in H. destruct (exec E f i s) as [[o|e|] s']; destruct (exec E f i u) as [[o'|e'|] u']; exact H.
  Qed.

  (* with the strict relation (only entries without metadata differ): ALL functions, both sides *)
  Definition dst_arg (f : bytes) (i : input) : bytes :=
    if beqb f C.BuiltInFunctionESDTNFTTransfer then argn i 3 else argn i 0.
  Lemma sim_exec_strict f i : strict = true -> sys_not_party f i ->
    (nft_sender_side f i -> dst_arg f i <> SYS) -> sim eq (exec E f i) (exec E f i).
  Proof.
    intros Hst Hp Hd.
    destruct (beqb_spec (i_caller i) (i_rcpt i)) as [Heq|Hne].
    2:{ apply sim_exec; [|exact Hp]. intros [_ Hx]. contradiction. }
    destruct (beqb_spec f C.BuiltInFunctionESDTNFTTransfer) as [->|N1].
    { assert (Hs : nft_sender_side C.BuiltInFunctionESDTNFTTransfer i) by (split; auto).
      specialize (Hd Hs). unfold dst_arg in Hd. rewrite beqb_refl in Hd. party Hp.
      change (exec E C.BuiltInFunctionESDTNFTTransfer i) with (f_nft_transfer E i).
      unfold f_nft_transfer. cbv zeta. repeat sb. apply beqb_true in Heq. rewrite Heq.
      apply sim_nft_transfer_sender; assumption. }
    destruct (beqb_spec f C.BuiltInFunctionMultiESDTNFTTransfer) as [->|N2].
    { assert (Hs : nft_sender_side C.BuiltInFunctionMultiESDTNFTTransfer i) by (split; auto).
      specialize (Hd Hs). unfold dst_arg in Hd. change (beqb C.BuiltInFunctionMultiESDTNFTTransfer C.BuiltInFunctionESDTNFTTransfer) with false in Hd.
      party Hp.
      change (exec E C.BuiltInFunctionMultiESDTNFTTransfer i) with (f_multi_transfer E i).
      unfold f_multi_transfer. cbv zeta. repeat sb. apply beqb_true in Heq. rewrite Heq.
      apply sim_multi_transfer_sender; assumption. }
    apply sim_exec; [|exact Hp]. intros [[Hx|Hx] _]; contradiction.
  Qed.
  Theorem props_irrelevance f i s u :
    strict = true -> SR s u -> sys_not_party f i -> (nft_sender_side f i -> dst_arg f i <> SYS) ->
    match exec E f i s, exec E f i u with
    | (Ok o, s'), (Ok o', u') => o = o' /\ SR s' u'
    | (Err e, _), (Err e', _) => e = e'
    | (Panic, _), (Panic, _) => True
    | _, _ => False
    end.
  Proof.
    intros Hst Hs Hp Hd. pose proof (sim_exec_strict f i Hst Hp Hd s u Hs) as H.
    unfold rrel in H. destruct (exec E f i s) as [[o|e|] s']; destruct (exec E f i u) as [[o'|e'|] u']; exact H.
  Qed.

  (* along a history of later calls (a failed call is rolled back: the state stays) *)
  Definition step1 (c : bytes * input) (s : mstate) : res err output * mstate :=
    match exec E (fst c) (snd c) s with
    | (Ok o, s') => (Ok o, s')
    | (r, _) => (r, s)
    end.
  Fixpoint run_calls (l : list (bytes * input)) (s : mstate) : list (res err output) * mstate :=
    match l with
    | [] => ([], s)
    | c :: r => let (o, s1) := step1 c s in let (os, s2) := run_calls r s1 in (o :: os, s2)
    end.
  Definition call_ok (c : bytes * input) : Prop :=
    sys_not_party (fst c) (snd c) /\ (nft_sender_side (fst c) (snd c) -> dst_arg (fst c) (snd c) <> SYS).
  Theorem props_irrelevance_history l : strict = true -> Forall call_ok l -> forall s u, SR s u ->
    fst (run_calls l s) = fst (run_calls l u) /\ SR (snd (run_calls l s)) (snd (run_calls l u)).
  Proof.
    intros Hst Hl. induction Hl as [|c r [Hp Hd] Hr IH]; intros s u Hs; [split; [reflexivity|exact Hs]|].
    cbn [run_calls]. pose proof (props_irrelevance (fst c) (snd c) s u Hst Hs Hp Hd) as H. unfold step1.
    destruct (exec E (fst c) (snd c) s) as [[o|e|] s']; destruct (exec E (fst c) (snd c) u) as [[o'|e'|] u']; try contradiction.
    - destruct H as [<- Hs']. destruct (IH s' u' Hs') as [H1 H2].
      destruct (run_calls r s') as [os s2]; destruct (run_calls r u') as [os' u2]. cbn [fst snd] in *. subst os'. auto.
    - subst e'. destruct (IH s u Hs) as [H1 H2].
      destruct (run_calls r s) as [os s2]; destruct (run_calls r u) as [os' u2]. cbn [fst snd] in *. subst os'. auto.
    - destruct (IH s u Hs) as [H1 H2].
      destruct (run_calls r s) as [os s2]; destruct (run_calls r u) as [os' u2]. cbn [fst snd] in *. subst os'. auto.
  Qed.

  (* ---------------- the toggles produce SR-related states ---------------- *)
  (* the cell written by ESDTFreeze / ESDTUnFreeze *)
  Lemma freeze_cell f i s o s' :
    f_freeze_wipe E f false i s = (Ok o, s') ->
    exists tok t v, i_args i = [tok] /\ tok_or_default E s (i_rcpt i) (P ++ tok) = Some t /\ wf_token t
      /\ t_value t = Some v
      /\ cell s' (i_rcpt i) (P ++ tok) =
         (if ((v =? 0)%Z && negb f)%bool then [] else enc_tok (cdc E) (set_props t (flag_bytes f))).
  Proof.
    unfold f_freeze_wipe. intros H.
    apply bind_ok in H as (u0 & s0 & H0 & H). apply check_system_one_arg_ok in H0 as (Hv & (tok & Ha) & Hcl & ->).
    apply bind_ok in H as (u1 & s1 & H1 & H). apply guard_ok in H1 as [Hdst ->].
    rewrite Ha in H. apply bind_ok in H as (tok' & s1 & H1 & H). apply arg_ok in H1 as (Hn & _ & ->).
    simpl in Hn. inversion Hn; subst tok'. clear Hn. cbv zeta in H.
    apply bind_ok in H as (t & s1 & H1 & H). apply (get_esdt_data_ok E Hc) in H1 as (Hr & Ht & Hwf).
    apply bind_ok in H as (u2 & s2 & H2 & H). apply ret_ok in H as [-> <-].
    apply save_esdt_data_ok in H2 as (v & Hval & Hw). cbn [set_props t_value t_props] in Hval, Hw.
    rewrite all_zero_flag_bytes in Hw.
    exists tok, t, v. split; [exact Ha|]. split; [exact Ht|]. split; [exact Hwf|]. split; [exact Hval|].
    eapply wr_cell_eq; eauto.
  Qed.

  Theorem freeze_unfreeze_SR i1 i2 s o1 s1 o2 s2 :
    exec E C.BuiltInFunctionESDTFreeze i1 s = (Ok o1, s1) ->
    exec E C.BuiltInFunctionESDTUnFreeze i2 s1 = (Ok o2, s2) ->
    i_rcpt i2 = i_rcpt i1 -> i_args i2 = i_args i1 ->
    i_rcpt i1 <> SYS ->
    (* the entry, if present, was not frozen, carried no other Properties bits, and held a non-zero value
       (and, for the strict relation, it is an entry without metadata: a fungible entry) *)
    (forall t, tok_at E s (i_rcpt i1) (P ++ argn i1 0) = Some t ->
               frozen_props (t_props t) = false /\ all_zero (t_props t) = true /\ val_or_0 t <> 0%Z
               /\ (strict = true -> t_meta t = None)) ->
    SR s s2.
  Proof.
    intros H1 H2 Hr Ha Hsys Hent.
    destruct (freeze_unfreeze_identity E Hc _ _ _ _ _ _ _ H1 H2 Hr Ha) as (_ & _ & _ & _ & [U1 U2] & _).
    rewrite exec_freeze in H1. rewrite exec_unfreeze in H2.
    apply freeze_cell in H1 as (tok & t & v & A1 & T1 & W1 & V1 & C1).
    apply freeze_cell in H2 as (tok2 & t2 & v2 & A2 & T2 & W2 & V2 & C2).
    rewrite Ha, A1 in A2. inversion A2; subst tok2. rewrite Hr in *. rewrite (argn0_single _ _ A1) in *.
    rewrite Bool.andb_false_r in C1. rewrite Bool.andb_true_r in C2.
    (* the entry unfreeze found is the one freeze wrote *)
    assert (Ht2 : t2 = set_props t (flag_bytes true)).
    { unfold tok_or_default in T2. rewrite C1 in T2.
      destruct (enc_tok (cdc E) (set_props t (flag_bytes true))) eqn:Ee; [exfalso; eapply (enc_tok_nonempty _ Hc); eauto|].
      rewrite <- Ee in T2. rewrite (dec_enc_tok _ Hc _ (wf_set_props _ _ W1)) in T2. inversion T2. reflexivity. }
    subst t2. cbn [set_props t_value] in V2. rewrite V1 in V2. inversion V2; subst v2. rewrite set_props_set_props in C2.
    split; [intros a; apply acct_fields_eq_sym; apply U2; tauto|].
    assert (Hcell : forall a k, ~ (a = i_rcpt i1 /\ k = P ++ tok) -> cell s a k = cell s2 a k)
      by (intros a k Hn; symmetry; apply U1; exact Hn).
    split; [|split].
    - intros a k Ha'. destruct (beqb_spec a (i_rcpt i1)) as [->|Hn1]; [|left; apply Hcell; tauto].
      destruct (beqb_spec k (P ++ tok)) as [->|Hn2]; [|left; apply Hcell; tauto].
      destruct (tod_cases E _ _ _ _ T1) as [(Hnil & -> & _)|(Hne & Hs)].
      + left. rewrite Hnil, C2. cbn in V1. inversion V1; subst v. reflexivity.
      + destruct (Hent t Hs) as (Hf & Hz & Hv & Hmt). unfold val_or_0 in Hv. rewrite V1 in Hv.
        rewrite C2. destruct (v =? 0)%Z eqn:Ez; [apply Z.eqb_eq in Ez; contradiction|].
        right. split; [exact Hne|]. split; [apply (enc_tok_nonempty _ Hc)|].
        exists t, (set_props t (flag_bytes false)).
        split; [apply tok_at_cell in Hs; tauto|]. split; [apply (dec_enc_tok _ Hc); apply wf_set_props; exact W1|].
        split; [exact W1|]. split; [apply wf_set_props; exact W1|]. split; [reflexivity|].
        cbn [set_props t_props]. split; [rewrite frozen_props_flag_bytes; exact Hf|].
        split; [rewrite all_zero_flag_bytes; exact Hz|]. intros Hst Hnm. exfalso. apply Hnm. apply Hmt. exact Hst.
    - intros a k Hk. apply Hcell. intros [_ ->]. rewrite prefix_of_app in Hk. discriminate.
    - intros k. f_equal. apply Hcell. intros [Hx _]. apply Hsys. symmetry. exact Hx.
  Qed.

  Theorem pause_unpause_SR i1 i2 s o1 s1 o2 s2 :
    exec E C.BuiltInFunctionESDTPause i1 s = (Ok o1, s1) ->
    exec E C.BuiltInFunctionESDTUnPause i2 s1 = (Ok o2, s2) ->
    i_args i2 = i_args i1 ->
    paused_at s (P ++ argn i1 0) = false ->
    SR s s2.
  Proof.
    intros H1 H2 Ha Hp.
    destruct (pause_unpause_identity E _ _ _ _ _ _ _ H1 H2 Ha) as (_ & P2 & _ & [U1 U2] & _).
    split; [intros a; apply acct_fields_eq_sym; apply U2; tauto|].
    split; [|split].
    - intros a k Ha'. left. symmetry. apply U1. intros [Hx _]. contradiction.
    - intros a k Hk. symmetry. apply U1. intros [_ Hx]. subst k. rewrite prefix_of_app in Hk. discriminate.
    - intros k. destruct (beqb_spec k (P ++ argn i1 0)) as [->|Hn].
      + unfold paused_at in Hp, P2. rewrite Hp, P2. reflexivity.
      + f_equal. symmetry. apply U1. intros [_ Hx]. contradiction.
  Qed.
End Sim.

Print Assumptions SR_observables.
Print Assumptions props_irrelevance_partial.
Print Assumptions props_irrelevance.
Print Assumptions props_irrelevance_history.
Print Assumptions freeze_unfreeze_SR.
Print Assumptions pause_unpause_SR.
