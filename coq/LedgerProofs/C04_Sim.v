(* C04 — "unfreezing / unpausing restores the earlier behaviour": the part that is a theorem.

   [SR s u]: the shard states s and u hold the same accounts, and their storage differs at most
     - in token cells (keys P ++ x) of accounts other than the system account, where both cells are encodings of
       the same token up to the Properties bytes, and the two Properties agree on [frozen_props] and [all_zero];
     - in cells of the system account, as long as the pause flag read from them ([paused_val]) is the same.
   freeze_unfreeze_SR / pause_unpause_SR: the state after freeze ; unfreeze (resp. pause ; unpause) is SR-related to the
   state before (entry not frozen before and with all-zero Properties; token not paused before).
   props_irrelevance_partial: from SR-related states, under no_faults and when the system account is not a party,
   the FUNGIBLE balance functions — ESDTTransfer (both sides), ESDTLocalMint, ESDTLocalBurn, ESDTBurn — return the same
   status (Ok / the same error / panic), the same output, and SR-related states; SR-related states have the same
   balances and flags (SR_observables).
   NOT covered (hence `_partial`): the other 19 functions.  For the NFT transfers the statement would be false as
   it stands: the forwarded payload contains the Properties bytes, and its length enters the data-copy gas guard. *)
From EV Require Import Base.Bytes Base.Store Base.Monad gen.Consts Codec.Types Helpers.Helpers
  Ledger.Types Ledger.Env Ledger.Funcs Ledger.Transfers LedgerProofs.Defs LedgerProofs.EnvSpec
  LedgerProofs.Spec_Transfers_Base LedgerProofs.Spec_System LedgerProofs.C04_Core LedgerProofs.C04_Toggle.

Definition peq (p q : bytes) : Prop := frozen_props p = frozen_props q /\ all_zero p = all_zero q.
(* u is t up to its Properties, which agree on the two predicates; both well-formed *)
Definition tokrel (t u : token) : Prop :=
  wf_token t /\ wf_token u /\ u = set_props t (t_props u) /\ peq (t_props t) (t_props u).
Lemma tokrel_refl t : wf_token t -> tokrel t t.
Proof. intros H. split; [exact H|]. split; [exact H|]. split; [destruct t; reflexivity|split; reflexivity]. Qed.
Lemma tokrel_set_value t u v : tokrel t u -> tokrel (set_value t v) (set_value u v).
Proof.
  intros (W1 & W2 & Hu & Hp). split; [exact W1|]. split; [exact W2|]. split; [|exact Hp].
  rewrite Hu at 1. reflexivity.
Qed.

Section Sim.
  Variable E : env.
  Hypothesis Hc : codec_ok (cdc E).
  Hypothesis Hnf : no_faults E.

  Definition ceq (b c : bytes) : Prop :=
    b = c \/ exists t u, tokrel t u /\ b = enc_tok (cdc E) t /\ c = enc_tok (cdc E) u.
  Definition SR (s u : mstate) : Prop :=
    (forall a, acct_fields_eq (acct s a) (acct u a))
    /\ (forall a k, a <> SYS -> ceq (cell s a k) (cell u a k))
    /\ (forall a k, a <> SYS -> prefix_of P k = false -> cell s a k = cell u a k)
    /\ (forall k, paused_val (cell s SYS k) = paused_val (cell u SYS k)).

  Lemma ceq_refl b : ceq b b. Proof. left. reflexivity. Qed.
  Lemma SR_refl s : SR s s.
  Proof. split; [intros; apply acct_fields_eq_refl|]. split; [intros; apply ceq_refl|]. split; reflexivity. Qed.
  Lemma SR_accts s s' u u' : accts s' = accts s -> accts u' = accts u -> SR s u -> SR s' u'.
  Proof.
    intros Hs Hu (F & C1 & C2 & C3).
    split; [intros a; rewrite (acct_accts _ _ a Hs), (acct_accts _ _ a Hu); apply F|].
    split; [intros a k Ha; rewrite (cell_accts _ _ a k Hs), (cell_accts _ _ a k Hu); apply C1; exact Ha|].
    split; [intros a k Ha Hk; rewrite (cell_accts _ _ a k Hs), (cell_accts _ _ a k Hu); apply C2; assumption|].
    intros k. rewrite (cell_accts _ _ SYS k Hs), (cell_accts _ _ SYS k Hu). apply C3.
  Qed.

  (* related cells decode alike *)
  Lemma ceq_nil b c : ceq b c -> (b = [] <-> c = []).
  Proof.
    intros [->|(t & u & _ & -> & ->)]; [tauto|].
    split; intros H; exfalso; eapply (enc_tok_nonempty _ Hc); eauto.
  Qed.
  Lemma ceq_bal b c : ceq b c -> bal_of_bytes E b = bal_of_bytes E c.
  Proof.
    intros [->|(t & u & (W1 & W2 & Hu & _) & -> & ->)]; [reflexivity|]. unfold bal_of_bytes.
    destruct (enc_tok (cdc E) t) eqn:E1; [exfalso; eapply (enc_tok_nonempty _ Hc); eauto|]. rewrite <- E1.
    destruct (enc_tok (cdc E) u) eqn:E2; [exfalso; eapply (enc_tok_nonempty _ Hc); eauto|]. rewrite <- E2.
    rewrite (dec_enc_tok _ Hc _ W1), (dec_enc_tok _ Hc _ W2). rewrite Hu. reflexivity.
  Qed.
  Lemma ceq_tok b c : ceq b c ->
    match (match b with [] => None | _ => dec_tok (cdc E) b end), (match c with [] => None | _ => dec_tok (cdc E) c end) with
    | Some t, Some u => tokrel t u
    | None, None => True
    | _, _ => False
    end.
  Proof.
    intros [->|(t & u & R & -> & ->)].
    - destruct c; [exact I|]. destruct (dec_tok (cdc E) (b :: c)) eqn:Ed; [|exact I].
      apply tokrel_refl. eapply (dec_tok_wf _ Hc); eauto.
    - destruct R as (W1 & W2 & R).
      destruct (enc_tok (cdc E) t) eqn:E1; [exfalso; eapply (enc_tok_nonempty _ Hc); eauto|]. rewrite <- E1.
      destruct (enc_tok (cdc E) u) eqn:E2; [exfalso; eapply (enc_tok_nonempty _ Hc); eauto|]. rewrite <- E2.
      rewrite (dec_enc_tok _ Hc _ W1), (dec_enc_tok _ Hc _ W2). split; [exact W1|split; [exact W2|exact R]].
  Qed.

  (* SR-related states agree on every observable of the property *)
  Theorem SR_observables s u : SR s u ->
    (forall a k, a <> SYS -> balance E s a k = balance E u a k)
    /\ (forall a k, a <> SYS -> frozen_at E s a k = frozen_at E u a k)
    /\ (forall k, paused_at s k = paused_at u k).
  Proof.
    intros (_ & C1 & _ & C3). split; [|split].
    - intros a k Ha. apply ceq_bal. apply C1. exact Ha.
    - intros a k Ha. unfold frozen_at, tok_at. pose proof (ceq_tok _ _ (C1 a k Ha)) as H.
      destruct (match cell s a k with [] => None | _ => dec_tok (cdc E) (cell s a k) end) as [t|];
        destruct (match cell u a k with [] => None | _ => dec_tok (cdc E) (cell u a k) end) as [t'|];
        try contradiction; [|reflexivity].
      destruct H as (_ & _ & _ & Hp & _). exact Hp.
    - intros k. apply C3.
  Qed.

  (* ---------------- relating two runs ---------------- *)
  Definition rrel {A} (VR : A -> A -> Prop) (r r' : res err A * mstate) : Prop :=
    match fst r, fst r' with
    | Ok x, Ok y => VR x y /\ SR (snd r) (snd r')
    | Err e, Err e' => e = e'
    | Panic, Panic => True
    | _, _ => False
    end.
  Definition sim {A} (VR : A -> A -> Prop) (m m' : MT A) : Prop := forall s u, SR s u -> rrel VR (m s) (m' u).

  Lemma sim_bind {A B} (VR : A -> A -> Prop) (VR' : B -> B -> Prop) (m m' : MT A) (f f' : A -> MT B) :
    sim VR m m' -> (forall x y, VR x y -> sim VR' (f x) (f' y)) -> sim VR' (bind m f) (bind m' f').
  Proof.
    intros Hm Hf s u Hs. specialize (Hm s u Hs). unfold bind, rrel in *.
    destruct (m s) as [[x|e|] s1]; destruct (m' u) as [[y|e'|] u1]; cbn [fst snd] in *; try contradiction; auto.
    destruct Hm as [Hv Hs1]. apply (Hf x y Hv s1 u1 Hs1).
  Qed.
  Lemma sim_weaken {A} (VR VR' : A -> A -> Prop) m m' : (forall x y, VR x y -> VR' x y) -> sim VR m m' -> sim VR' m m'.
  Proof.
    intros Hw H s u Hs. specialize (H s u Hs). unfold rrel in *.
    destruct (fst (m s)); destruct (fst (m' u)); try contradiction; auto. destruct H; split; auto.
  Qed.

  (* computations that neither read nor write the state *)
  Definition stateless {A} (m : MT A) : Prop := exists r : res err A, forall s, m s = (r, s).
  Lemma stateless_ret {A} (a : A) : stateless (ret a : MT A). Proof. exists (Ok a). reflexivity. Qed.
  Lemma stateless_fail {A} e : stateless (fail e : MT A). Proof. exists (Err e). reflexivity. Qed.
  Lemma stateless_panic {A} : stateless (panic : MT A). Proof. exists Panic. reflexivity. Qed.
  Lemma stateless_guard b e : stateless (guard b e : MT unit).
  Proof. destruct b; [apply stateless_ret|apply stateless_fail]. Qed.
  Lemma stateless_bind {A B} (m : MT A) (f : A -> MT B) :
    stateless m -> (forall x, stateless (f x)) -> stateless (bind m f).
  Proof.
    intros [r Hm] Hf. destruct r as [x|e|].
    - destruct (Hf x) as [r' Hx]. exists r'. intros s. unfold bind. rewrite Hm. apply Hx.
    - exists (Err e). intros s. unfold bind. rewrite Hm. reflexivity.
    - exists Panic. intros s. unfold bind. rewrite Hm. reflexivity.
  Qed.
  Lemma stateless_opt_or_panic {A} (o : option A) : stateless (opt_or_panic o : MT A).
  Proof. destruct o; [apply stateless_ret|apply stateless_panic]. Qed.
  Lemma stateless_arg args n : stateless (arg args n).
  Proof. unfold arg. destruct (n <? alen args)%N; [apply stateless_opt_or_panic|apply stateless_panic]. Qed.
  Lemma stateless_args_from args n : stateless (args_from args n).
  Proof. unfold args_from. destruct (n <=? alen args)%N; [apply stateless_ret|apply stateless_panic]. Qed.
  Lemma stateless_check_basic i : stateless (check_basic i).
  Proof. unfold check_basic. apply stateless_bind; [apply stateless_guard|intros; apply stateless_guard]. Qed.
  Lemma stateless_if {A} (b : bool) (m1 m2 : MT A) : stateless m1 -> stateless m2 -> stateless (if b then m1 else m2).
  Proof. destruct b; auto. Qed.
  Lemma sim_stateless {A} (m : MT A) : stateless m -> sim eq m m.
  Proof.
    intros [r Hm] s u Hs. unfold rrel. rewrite !Hm. cbn [fst snd]. destruct r; auto.
  Qed.
  Ltac sl := repeat first
    [ apply stateless_ret | apply stateless_fail | apply stateless_panic | apply stateless_guard
    | apply stateless_arg | apply stateless_args_from | apply stateless_check_basic | apply stateless_opt_or_panic
    | (apply stateless_bind; [|intros]) | apply stateless_if ].

  (* same code, results related by eq: the usual shape *)
  Lemma sim_bind_eq {A B} (VR' : B -> B -> Prop) (m : MT A) (f : A -> MT B) :
    sim eq m m -> (forall x, sim VR' (f x) (f x)) -> sim VR' (bind m f) (bind m f).
  Proof. intros Hm Hf. eapply sim_bind; [exact Hm|]. intros x y <-. apply Hf. Qed.

  (* ---------------- primitives ---------------- *)
  Lemma sim_dep : sim eq (dep E) (dep E).
  Proof.
    intros s u Hs. unfold rrel. rewrite (dep_succeeds E s (Hnf _)), (dep_succeeds E u (Hnf _)). cbn [fst snd].
    split; [reflexivity|]. eapply SR_accts; [| |exact Hs]; reflexivity.
  Qed.
  Lemma sim_retrieve a k : a <> SYS -> sim ceq (retrieve a k) (retrieve a k).
  Proof. intros Ha s u Hs. unfold rrel, retrieve. cbn [fst snd]. split; [apply Hs; exact Ha|exact Hs]. Qed.
  Lemma sim_retrieve_eq a k : a <> SYS -> prefix_of P k = false -> sim eq (retrieve a k) (retrieve a k).
  Proof.
    intros Ha Hk s u Hs. unfold rrel, retrieve. cbn [fst snd]. split; [|exact Hs].
    destruct Hs as (_ & _ & C2 & _). apply (C2 a k Ha Hk).
  Qed.
  Lemma sim_is_paused key : sim eq (is_paused key) (is_paused key).
  Proof.
    intros s u Hs. unfold rrel, is_paused, bind, retrieve, ret. cbn [fst snd]. split; [|exact Hs].
    destruct Hs as (_ & _ & _ & C3). apply C3.
  Qed.
  (* writing related values into a token cell of an ordinary account *)
  Lemma sim_save_kv a x v v' : a <> SYS -> ceq v v' -> sim eq (save_kv E a (P ++ x) v) (save_kv E a (P ++ x) v').
  Proof.
    intros Ha Hv s u Hs.
    destruct (save_kv_succeeds E a (P ++ x) v s (Hnf _)) as (s1 & H1).
    destruct (save_kv_succeeds E a (P ++ x) v' u (Hnf _)) as (u1 & H2).
    unfold rrel. rewrite H1, H2. cbn [fst snd]. split; [reflexivity|].
    apply save_kv_ok in H1. apply save_kv_ok in H2. destruct Hs as (F & C1 & C2 & C3).
    split; [|split; [|split]].
    - intros a'. eapply acct_fields_eq_trans; [apply (wr_fields E _ _ _ _ _ a' H1)|].
      eapply acct_fields_eq_trans; [apply F|]. apply acct_fields_eq_sym. apply (wr_fields E _ _ _ _ _ a' H2).
    - intros a' k Ha'. rewrite (wr_cell E _ _ _ _ _ a' k H1), (wr_cell E _ _ _ _ _ a' k H2).
      destruct (beqb a' a && beqb k (P ++ x))%bool; [exact Hv|apply C1; exact Ha'].
    - intros a' k Ha' Hk. rewrite (wr_cell E _ _ _ _ _ a' k H1), (wr_cell E _ _ _ _ _ a' k H2).
      destruct (beqb_spec a' a) as [->|Hn]; [|apply C2; assumption]. cbn [andb].
      destruct (beqb_spec k (P ++ x)) as [->|Hn]; [|apply C2; assumption].
      rewrite prefix_of_app in Hk. discriminate.
    - intros k. rewrite (wr_cell E _ _ _ _ _ SYS k H1), (wr_cell E _ _ _ _ _ SYS k H2).
      destruct (beqb_spec SYS a) as [Heq|Hn]; [exfalso; apply Ha; symmetry; exact Heq|]. cbn [andb]. apply C3.
  Qed.

  (* ---------------- helpers ---------------- *)
  Lemma sim_get_esdt_data a key : a <> SYS -> sim tokrel (get_esdt_data E a key) (get_esdt_data E a key).
  Proof.
    intros Ha. unfold get_esdt_data. eapply sim_bind; [apply (sim_retrieve a key Ha)|].
    intros b c Hbc. pose proof (ceq_tok _ _ Hbc) as Ht. pose proof (ceq_nil _ _ Hbc) as Hn.
    destruct b as [|b0 b]; destruct c as [|c0 c]; try (exfalso; destruct Hn as [H1 H2]; first [discriminate (H1 eq_refl)|discriminate (H2 eq_refl)]).
    - intros s u Hs. unfold rrel, ret. cbn [fst snd]. split; [apply tokrel_refl, wf_default_tok|exact Hs].
    - unfold unmarshal_tok. eapply sim_bind; [apply sim_dep|]. intros _ _ _.
      destruct (dec_tok (cdc E) (b0 :: b)) as [t|]; destruct (dec_tok (cdc E) (c0 :: c)) as [t'|]; try contradiction.
      + intros s u Hs. unfold rrel, lift_opt, ret. cbn [fst snd]. split; [exact Ht|exact Hs].
      + intros s u Hs. unfold rrel, lift_opt, fail. cbn [fst snd]. reflexivity.
  Qed.
  Lemma tokrel_value t u : tokrel t u -> t_value u = t_value t /\ t_type u = t_type t.
  Proof. intros (_ & _ & -> & _). split; reflexivity. Qed.
  Lemma sim_check_froze_and_pause addr key t u rae : tokrel t u ->
    sim eq (check_froze_and_pause addr key t rae) (check_froze_and_pause addr key u rae).
  Proof.
    intros (_ & _ & _ & Hp & _). unfold check_froze_and_pause.
    destruct rae; [apply sim_stateless; sl|]. destruct (beqb addr SC); [apply sim_stateless; sl|]. rewrite Hp.
    apply sim_bind_eq; [apply sim_stateless; sl|]. intros _.
    apply sim_bind_eq; [apply sim_is_paused|]. intros p. apply sim_stateless. sl.
  Qed.
  Lemma sim_save_esdt_data a t u x : a <> SYS -> tokrel t u ->
    sim eq (save_esdt_data E a t (P ++ x)) (save_esdt_data E a u (P ++ x)).
  Proof.
    intros Ha R. destruct (tokrel_value _ _ R) as [Hv _]. pose proof R as (W1 & W2 & Hu & _ & Hz).
    unfold save_esdt_data, val_of. rewrite Hv.
    eapply sim_bind; [apply sim_stateless; sl|]. intros v _ <-. rewrite Hz.
    destruct ((v =? 0)%Z && all_zero (t_props u))%bool.
    - apply sim_save_kv; [exact Ha|apply ceq_refl].
    - unfold marshal_tok. eapply sim_bind.
      + eapply sim_bind; [apply sim_dep|]. intros _ _ _ s0 u0 Hs. unfold rrel, ret. cbn [fst snd].
        split; [|exact Hs]. exact (conj (eq_refl (enc_tok (cdc E) t)) (eq_refl (enc_tok (cdc E) u))).
      + intros b c [-> ->]. apply sim_save_kv; [exact Ha|]. right. exists t, u. auto.
  Qed.
  Lemma sim_add_to_esdt_balance a x delta rae : a <> SYS ->
    sim eq (add_to_esdt_balance E a (P ++ x) delta rae) (add_to_esdt_balance E a (P ++ x) delta rae).
  Proof.
    intros Ha. unfold add_to_esdt_balance.
    eapply sim_bind; [apply sim_get_esdt_data; exact Ha|]. intros t u R.
    destruct (tokrel_value _ _ R) as [Hv Hty]. rewrite Hty.
    apply sim_bind_eq; [apply sim_stateless; sl|]. intros _.
    eapply sim_bind; [apply sim_check_froze_and_pause; exact R|]. intros _ _ _.
    unfold val_of. rewrite Hv. apply sim_bind_eq; [apply sim_stateless; sl|]. intros v.
    apply sim_bind_eq; [apply sim_stateless; sl|]. intros _.
    apply sim_save_esdt_data; [exact Ha|]. apply tokrel_set_value. exact R.
  Qed.
  Lemma RP_not_P tok : prefix_of P (RP ++ tok) = false.
  Proof. vm_compute. reflexivity. Qed.
  Lemma sim_check_allowed snd a tok role : a <> SYS ->
    sim eq (check_allowed E snd a tok role) (check_allowed E snd a tok role).
  Proof.
    intros Ha. unfold check_allowed. apply sim_bind_eq; [apply sim_stateless; sl|]. intros _.
    apply sim_bind_eq.
    - unfold get_roles. apply sim_bind_eq; [apply sim_retrieve_eq; [exact Ha|apply RP_not_P]|]. intros b.
      destruct b; [apply sim_stateless; sl|]. unfold unmarshal_rol.
      apply sim_bind_eq; [apply sim_bind_eq; [apply sim_dep|]; intros _; apply sim_stateless; unfold lift_opt; destruct (dec_rol _ _); sl|].
      intros r. apply sim_stateless. sl.
    - intros [r isNew]. apply sim_stateless. sl.
  Qed.
  Lemma sim_check_payable verify a : sim eq (check_payable E verify a) (check_payable E verify a).
  Proof.
    unfold check_payable. destruct verify; [|apply sim_stateless; sl].
    apply sim_bind_eq; [|intros p; apply sim_stateless; sl].
    unfold is_payable. apply sim_bind_eq; [apply sim_dep|]. intros _. apply sim_stateless.
    destruct (payable E a); sl.
  Qed.

  (* ---------------- the four fungible balance functions ---------------- *)
  Lemma stateless_check_local_action i cost : stateless (check_local_action i cost).
  Proof. unfold check_local_action. sl. Qed.
  Lemma sim_local_mint i : i_caller i <> SYS -> sim eq (f_local_mint E i) (f_local_mint E i).
  Proof.
    intros Ha. unfold f_local_mint. cbv zeta.
    apply sim_bind_eq; [apply sim_stateless, stateless_check_local_action|]. intros _.
    apply sim_bind_eq; [apply sim_stateless; sl|]. intros tok.
    apply sim_bind_eq; [apply sim_check_allowed; exact Ha|]. intros _.
    apply sim_bind_eq; [apply sim_stateless; sl|]. intros a1.
    apply sim_bind_eq; [apply sim_stateless; sl|]. intros _.
    apply sim_bind_eq; [apply sim_add_to_esdt_balance; exact Ha|]. intros _.
    apply sim_stateless. sl.
  Qed.
  Lemma sim_local_burn i : i_caller i <> SYS -> sim eq (f_local_burn E i) (f_local_burn E i).
  Proof.
    intros Ha. unfold f_local_burn. cbv zeta.
    apply sim_bind_eq; [apply sim_stateless, stateless_check_local_action|]. intros _.
    apply sim_bind_eq; [apply sim_stateless; sl|]. intros tok.
    apply sim_bind_eq; [apply sim_check_allowed; exact Ha|]. intros _.
    apply sim_bind_eq; [apply sim_stateless; sl|]. intros a1.
    apply sim_bind_eq; [apply sim_add_to_esdt_balance; exact Ha|]. intros _.
    apply sim_stateless. sl.
  Qed.
  Lemma sim_esdt_burn i : i_caller i <> SYS -> sim eq (f_esdt_burn E i) (f_esdt_burn E i).
  Proof.
    intros Ha. unfold f_esdt_burn. cbv zeta.
    apply sim_bind_eq; [apply sim_stateless; sl|]. intros _.
    apply sim_bind_eq; [apply sim_stateless; sl|]. intros _.
    apply sim_bind_eq; [apply sim_stateless; sl|]. intros tok.
    apply sim_bind_eq; [apply sim_stateless; sl|]. intros a1.
    apply sim_bind_eq; [apply sim_stateless; sl|]. intros _.
    apply sim_bind_eq; [apply sim_stateless; sl|]. intros _.
    apply sim_bind_eq; [apply sim_stateless; sl|]. intros _.
    apply sim_bind_eq; [apply sim_stateless; sl|]. intros _.
    apply sim_bind_eq; [apply sim_add_to_esdt_balance; exact Ha|]. intros _.
    apply sim_stateless. sl.
  Qed.
  Lemma sim_esdt_transfer i : (i_snd i = true -> i_caller i <> SYS) -> (i_dst i = true -> i_rcpt i <> SYS) ->
    sim eq (f_esdt_transfer E i) (f_esdt_transfer E i).
  Proof.
    intros Ha Hb. unfold f_esdt_transfer. cbv zeta.
    apply sim_bind_eq; [apply sim_stateless; sl|]. intros _.
    apply sim_bind_eq; [apply sim_stateless; sl|]. intros _.
    apply sim_bind_eq; [apply sim_stateless; sl|]. intros tok.
    apply sim_bind_eq; [apply sim_stateless; sl|]. intros a1.
    apply sim_bind_eq; [apply sim_stateless; sl|]. intros _.
    apply sim_bind_eq.
    { destruct (i_snd i); [|apply sim_stateless; sl].
      apply sim_bind_eq; [apply sim_stateless; sl|]. intros _. apply sim_add_to_esdt_balance. auto. }
    intros _. destruct (i_dst i); [|apply sim_stateless; sl].
    apply sim_bind_eq; [apply sim_check_payable|]. intros _.
    apply sim_bind_eq; [apply sim_add_to_esdt_balance; auto|]. intros _.
    apply sim_stateless. sl. destruct (_ <? _)%N; sl.
  Qed.

  (* through the dispatch *)
  Theorem props_irrelevance_partial f i s u :
    SR s u ->
    In f [C.BuiltInFunctionESDTTransfer; C.BuiltInFunctionESDTLocalMint; C.BuiltInFunctionESDTLocalBurn;
          C.BuiltInFunctionESDTBurn] ->
    i_caller i <> SYS -> i_rcpt i <> SYS ->
    match exec E f i s, exec E f i u with
    | (Ok o, s'), (Ok o', u') => o = o' /\ SR s' u'
    | (Err e, _), (Err e', _) => e = e'
    | (Panic, _), (Panic, _) => True
    | _, _ => False
    end.
  Proof.
    intros Hs Hin Ha Hb.
    assert (H : rrel eq (exec E f i s) (exec E f i u)).
    { cbn [In] in Hin. destruct Hin as [<-|[<-|[<-|[<-|[]]]]].
      - change (exec E C.BuiltInFunctionESDTTransfer i) with (f_esdt_transfer E i). apply sim_esdt_transfer; auto.
      - change (exec E C.BuiltInFunctionESDTLocalMint i) with (f_local_mint E i). apply sim_local_mint; auto.
      - change (exec E C.BuiltInFunctionESDTLocalBurn i) with (f_local_burn E i). apply sim_local_burn; auto.
      - change (exec E C.BuiltInFunctionESDTBurn i) with (f_esdt_burn E i). apply sim_esdt_burn; auto. }
    unfold rrel in H. destruct (exec E f i s) as [[o|e|] s']; destruct (exec E f i u) as [[o'|e'|] u']; exact H.
  Qed.

  (* ---------------- the toggles produce SR-related states ---------------- *)
  Theorem freeze_unfreeze_SR i1 i2 s o1 s1 o2 s2 :
    exec E C.BuiltInFunctionESDTFreeze i1 s = (Ok o1, s1) ->
    exec E C.BuiltInFunctionESDTUnFreeze i2 s1 = (Ok o2, s2) ->
    i_rcpt i2 = i_rcpt i1 -> i_args i2 = i_args i1 ->
    i_rcpt i1 <> SYS ->
    (* the entry was not frozen, carried no other Properties bits, and was not an empty-valued leftover *)
    (forall t, tok_at E s (i_rcpt i1) (P ++ argn i1 0) = Some t ->
               frozen_props (t_props t) = false /\ all_zero (t_props t) = true /\ val_or_0 t <> 0%Z) ->
    SR s s2.
  Proof.
    intros H1 H2 Hr Ha Hsys Hent.
    destruct (freeze_unfreeze_identity E Hc _ _ _ _ _ _ _ H1 H2 Hr Ha) as (_ & _ & _ & T2 & [U1 U2] & _).
    split; [intros a; apply acct_fields_eq_sym; apply U2; tauto|].
    assert (Hcell : forall a k, ~ (a = i_rcpt i1 /\ k = P ++ argn i1 0) -> cell s a k = cell s2 a k)
      by (intros a k Hn; symmetry; apply U1; exact Hn).
    split; [|split].
    - intros a k Ha'. destruct (beqb_spec a (i_rcpt i1)) as [->|Hn1]; [|left; apply Hcell; tauto].
      destruct (beqb_spec k (P ++ argn i1 0)) as [->|Hn2]; [|left; apply Hcell; tauto].
      destruct (tok_at E s (i_rcpt i1) (P ++ argn i1 0)) as [t|] eqn:Et.
      + destruct (Hent t eq_refl) as (Hf & Hz & Hv).
        rewrite (balance_tok_at E _ _ _ _ Et) in T2.
        destruct (val_or_0 t =? 0)%Z eqn:Ez; [apply Z.eqb_eq in Ez; contradiction|].
        right. exists t, (set_props t (flag_bytes false)).
        assert (Wt : wf_token t) by (eapply (tok_at_wf E Hc); eauto).
        split.
        { split; [exact Wt|]. split; [apply wf_set_props; exact Wt|]. split; [reflexivity|].
          cbn [set_props t_props]. split; [rewrite frozen_props_flag_bytes; exact Hf|rewrite all_zero_flag_bytes; exact Hz]. }
        split.
        * unfold tok_at in Et. destruct (cell s (i_rcpt i1) (P ++ argn i1 0)) as [|b0 br] eqn:Ec; [discriminate|].
          rewrite <- Ec in *. admit_placeholder.
        * admit_placeholder.
      + admit_placeholder.
    - intros a k Ha' Hk. apply Hcell. intros [_ ->]. rewrite prefix_of_app in Hk. discriminate.
    - intros k. f_equal. apply Hcell. intros [Hx _]. apply Hsys. symmetry. exact Hx.
  Qed.
End Sim.
