(* C01, part 6: the liveness half, for ESDTTransfer.
     esdt_dest_succeeds               the destination side of ESDTTransfer SUCCEEDS whenever: value 0, two arguments,
                                      quantity > 0, recipient payable (when payability is checked), the recipient's
                                      entry absent or a fungible entry with a value, not frozen / not paused
                                      (unless return-after-error), non-negative balance
     refund_succeeds_esdt             the return-after-error refund of an ESDTTransfer message succeeds whenever the
                                      debited account's entry is absent or a fungible entry with a value
     deliver_accepted_esdt            world level: such a delivery removes the message and credits the destination
     rejected_then_refund_esdt        world level: a rejected delivery marks the message failed; the refund then
                                      removes it and gives the sender the quantity back
   Nothing of this kind is proved for ESDTNFTTransfer / MultiESDTNFTTransfer (Spec_Transfers has no _succeeds lemmas);
   for those only the safety half holds: IF the delivery / refund succeeds it credits exactly [credits m]. *)
From Coq.Strings Require Import String.
From EV Require Import Base.Bytes Base.Store Base.Monad gen.Consts Codec.Types Helpers.Helpers
  Ledger.Types Ledger.Env Ledger.Funcs Ledger.Transfers Ledger.World
  LedgerProofs.Defs LedgerProofs.EnvSpec LedgerProofs.WorldDefs LedgerProofs.WorldSpec
  LedgerProofs.Spec_Transfers_Base LedgerProofs.Spec_Transfers_Esdt LedgerProofs.Spec_Transfers_Nft
  LedgerProofs.Spec_Transfers_Multi LedgerProofs.Spec_Transfers
  LedgerProofs.C01_World LedgerProofs.C01_Step LedgerProofs.C01_Exact.

Section Live.
  Variable E : env.
  Hypothesis Hc : codec_ok (cdc E).
  Hypothesis Hnf : no_faults E.

  Definition fungible_or_absent (s : mstate) (a k : bytes) : Prop :=
    cell s a k = [] \/ exists t, tok_at E s a k = Some t /\ t_type t = C.Fungible /\ t_value t <> None.

  Theorem esdt_dest_succeeds i s :
    i_value i = 0%Z -> (2 <= alen (i_args i))%N -> shard_of E (i_rcpt i) <> META -> (0 < esdt_val i)%Z ->
    i_snd i = false -> i_dst i = true ->
    (must_verify_payable i 2 = true -> payable E (i_rcpt i) = PayYes) ->
    fungible_or_absent s (i_rcpt i) (esdt_key i) ->
    (i_rae i = false -> i_rcpt i <> SC -> frozen_at E s (i_rcpt i) (esdt_key i) = false /\ paused_at s (esdt_key i) = false) ->
    (0 <= balance E s (i_rcpt i) (esdt_key i))%Z ->
    exists o s', f_esdt_transfer E i s = (Ok o, s').
  Proof.
    intros Hv Hlen Hmeta Hpos Hsnd Hdst Hpay Hent Hfl Hbal.
    unfold f_esdt_transfer. cbv zeta. change C.MinLenArgumentsESDTTransfer with 2%N.
    assert (Hcb : check_basic i s = (Ok tt, s)).
    { unfold check_basic. rewrite (bind_eq _ _ _ _ _ (guard_true _ _ _ (proj2 (Z.eqb_eq _ _) Hv))).
      apply guard_true. change C.MinLenArgumentsESDTTransfer with 2%N. apply N.leb_le. exact Hlen. }
    rewrite (bind_eq _ _ _ _ _ Hcb).
    rewrite (bind_eq _ _ _ _ _ (guard_true _ _ _ (eq_trans (f_equal negb (proj2 (N.eqb_neq _ _) Hmeta)) eq_refl))).
    destruct (arg_succeeds (i_args i) 0 s) as (tok & Htok & Ha0); [lia|]. rewrite (bind_eq _ _ _ _ _ Ha0).
    destruct (arg_succeeds (i_args i) 1 s) as (a1 & Ha1n & Ha1); [lia|]. rewrite (bind_eq _ _ _ _ _ Ha1).
    change (N.to_nat 0) with 0%nat in Htok. change (N.to_nat 1) with 1%nat in Ha1n.
    apply nth_error_argn in Htok. apply nth_error_argn in Ha1n. subst tok a1. fold (esdt_val i). fold (esdt_key i).
    rewrite (bind_eq _ _ _ _ _ (guard_true _ _ _ (proj2 (Z.ltb_lt _ _) Hpos))).
    rewrite Hsnd. rewrite (bind_eq _ _ _ _ _ (eq_refl : ret tt s = (Ok tt, s))). rewrite Hdst.
    destruct (check_payable_succeeds E (must_verify_payable i 2) (i_rcpt i) s (Hnf _) Hpay) as (s1 & H1).
    rewrite (bind_eq _ _ _ _ _ H1). apply check_payable_ok in H1 as [Hrd _].
    destruct (add_to_esdt_balance_succeeds' E Hc (i_rcpt i) (esdt_key i) (esdt_val i) (i_rae i) s1 Hnf) as (s2 & H2).
    { unfold fungible_or_absent in Hent. rewrite (rd_cell E _ _ _ _ Hrd), (rd_tok_at E _ _ _ _ Hrd). exact Hent. }
    { rewrite (rd_frozen_at E _ _ _ _ Hrd), (rd_paused_at E _ _ _ Hrd). exact Hfl. }
    { rewrite (rd_balance E _ _ _ _ Hrd). lia. }
    rewrite (bind_eq _ _ _ _ _ H2).
    destruct (is_sc (i_rcpt i) && (2 <? alen (i_args i))%N)%bool eqn:Eafter; [|eexists; eexists; reflexivity].
    apply andb_prop in Eafter as [_ Hlt]. apply N.ltb_lt in Hlt.
    destruct (arg_succeeds (i_args i) 2 s2) as (fn & _ & Hfn); [exact Hlt|]. rewrite (bind_eq _ _ _ _ _ Hfn).
    destruct (2 + 1 <? alen (i_args i))%N.
    - rewrite (bind_eq _ _ _ _ _ (args_from_succeeds (i_args i) (2 + 1) s2 ltac:(lia))). eexists; eexists; reflexivity.
    - rewrite (bind_eq _ _ _ _ _ (eq_refl : ret [] s2 = (Ok [] , s2))). eexists; eexists; reflexivity.
  Qed.
End Live.

Section LiveWorld.
  Variable c : wcfg.
  Hypothesis Hc : codec_ok (wc_cdc c).
  Notation shof := (wc_shard_of c).

  (* an ESDTTransfer message as the origin side emits it: two arguments at least, positive quantity,
     destination not on the metachain (emitted_esdt_wf below: every emitted one is such) *)
  Definition esdt_msg (m : msg) : Prop :=
    m_fn m = C.BuiltInFunctionESDTTransfer /\ (2 <= alen (m_args m))%N /\ (0 < bigZ (nth 1 (m_args m) []))%Z
    /\ shof (m_dest m) <> META.
  Definition msg_key (m : msg) : bytes := P ++ nth 0 (m_args m) [].
  Definition msg_val (m : msg) : Z := bigZ (nth 1 (m_args m) []).

  Lemma emitted_esdt_wf sh m0 i id o s' m :
    origin_call c sh i -> exec (env_at c sh) C.BuiltInFunctionESDTTransfer i (mk_state m0) = (Ok o, s') ->
    In m (collect c sh C.BuiltInFunctionESDTTransfer i id o) -> esdt_msg m.
  Proof.
    intros Hor H Hin.
    assert (Hcc : call_consistent_at c m0 sh C.BuiltInFunctionESDTTransfer i) by (split; intros e; discriminate e).
    pose proof (emitted_message_carries_debit c Hc sh m0 _ i id o s' is_transfer_esdt Hor Hcc H) as He.
    rewrite exec_esdt_transfer in H. pose proof (esdt_transfer_spec (env_at c sh) Hc _ _ _ _ H) as Hp.
    unfold transfer_dest in He. rewrite beqb_refl in He.
    destruct (shof (i_rcpt i) =? sh)%N; [rewrite He in Hin; contradiction|].
    destruct He as (m' & Hcol & Hcr & _ & Hfn & Hd & _). rewrite Hcol in Hin. destruct Hin as [<-|[]].
    unfold transfer_debits in Hcr. rewrite beqb_refl in Hcr.
    unfold credits in Hcr. rewrite Hfn, beqb_refl in Hcr.
    split; [exact Hfn|]. destruct (m_args m') as [|a0 [|a1 r]]; try discriminate. inversion Hcr as [[Hk Hv]].
    split; [unfold alen; cbn [length]; lia|]. split.
    - cbn [nth]. rewrite Hv. apply (ep_pos _ _ _ _ _ Hp).
    - rewrite Hd. apply (ep_not_meta _ _ _ _ _ Hp).
  Qed.

  (* the refund (return-after-error, callback call type: no payability / frozen / paused check) succeeds *)
  Theorem refund_succeeds_esdt m0 m gas :
    let sh := shof (m_sender m) in
    esdt_msg m -> msg_ok c m -> shof (m_sender m) <> META -> accts_nonneg c m0 ->
    fungible_or_absent (env_at c sh) (mk_state m0) (m_sender m) (msg_key m) ->
    exists o s', exec (env_at c sh) (m_fn m) (refund_input c m sh gas) (mk_state m0) = (Ok o, s').
  Proof.
    intros sh (Hfn & Hlen & Hpos & _) Hm Hmeta Hnn Hent. rewrite Hfn, exec_esdt_transfer.
    apply (esdt_dest_succeeds (env_at c sh) Hc (env_at_no_faults c sh)); try assumption; try reflexivity.
    - cbn [refund_input i_snd]. apply N.eqb_neq. intros He. apply (mo_sender c m Hm). symmetry. exact He.
    - intros Hx. vm_compute in Hx. discriminate.
    - intros Hx. discriminate.
    - apply (proj2 (st_nonneg_accts c sh (mk_state m0)) Hnn).
  Qed.

  (* delivery succeeds under the conditions of the property text *)
  Theorem deliver_succeeds_esdt m0 m gas :
    let sh := shof (m_dest m) in
    let i := deliver_input c m sh gas in
    esdt_msg m -> msg_ok c m -> accts_nonneg c m0 ->
    (must_verify_payable i 2 = true -> wc_payable c (m_dest m) = PayYes) ->
    fungible_or_absent (env_at c sh) (mk_state m0) (m_dest m) (msg_key m) ->
    (m_dest m <> SC -> frozen_at (env_at c sh) (mk_state m0) (m_dest m) (msg_key m) = false
                       /\ paused_at (mk_state m0) (msg_key m) = false) ->
    exists o s', exec (env_at c sh) (m_fn m) i (mk_state m0) = (Ok o, s').
  Proof.
    intros sh i (Hfn & Hlen & Hpos & Hmeta) Hm Hnn Hpay Hent Hfl. rewrite Hfn, exec_esdt_transfer.
    apply (esdt_dest_succeeds (env_at c sh) Hc (env_at_no_faults c sh)); try assumption; try reflexivity.
    - cbn [deliver_input i_snd]. apply N.eqb_neq. exact (mo_caller c m Hm).
    - intros _. exact Hfl.
    - apply (proj2 (st_nonneg_accts c sh (mk_state m0)) Hnn).
  Qed.

  (* ---- world level ---- *)
  Definition wbal (w : world) (a k : bytes) : Z :=
    acct_balance c k (aget empty_account (shard_accts w (shof a)) a).

  Lemma wbal_commit w sh m' ms fl nid a k s' : (N.to_nat sh < nshards w)%nat -> shof a = sh -> m' = accts s' ->
    wbal (with_msgs (set_shard w sh m') ms fl nid) a k = balance (env_at c sh) s' a k.
  Proof.
    intros Hin Ha ->. unfold wbal. rewrite shard_accts_with_msgs, Ha, shard_accts_set_shard_eq by exact Hin.
    rewrite (acct_balance_acct_bal (env_at c sh) c eq_refl). reflexivity.
  Qed.
  Lemma wbal_state w a k : wbal w a k = balance (env_at c (shof a)) (mk_state (shard_accts w (shof a))) a k.
  Proof. unfold wbal. rewrite (acct_balance_acct_bal (env_at c (shof a)) c eq_refl). reflexivity. Qed.

  Lemma wstep_deliver_ok w id gas m o s' : find_msg (inflight w) id = Some m ->
    (shof (m_dest m) <? wc_nshards c)%N = true ->
    exec (env_at c (shof (m_dest m))) (m_fn m) (deliver_input c m (shof (m_dest m)) gas)
         (mk_state (shard_accts w (shof (m_dest m)))) = (Ok o, s') ->
    wstep c w (ODeliver id gas) =
      with_msgs (set_shard w (shof (m_dest m)) (accts s'))
        (drop_msg (inflight w) id ++ collect c (shof (m_dest m)) (m_fn m) (deliver_input c m (shof (m_dest m)) gas) (next_id w) o)
        (failed w)
        (next_id w + length (collect c (shof (m_dest m)) (m_fn m) (deliver_input c m (shof (m_dest m)) gas) (next_id w) o)).
  Proof.
    intros Hfind Hsh Hex. cbn [wstep]. rewrite Hfind, Hsh. cbn [negb]. unfold run_on.
    change {| accts := shard_accts w (shof (m_dest m)); calls := 0; allocs := 0 |} with (mk_state (shard_accts w (shof (m_dest m)))).
    rewrite Hex. reflexivity.
  Qed.

  Theorem deliver_accepted_esdt w id gas m :
    let sh := shof (m_dest m) in
    let s := mk_state (shard_accts w sh) in
    WInv c w -> find_msg (inflight w) id = Some m -> esdt_msg m -> (sh <? wc_nshards c)%N = true ->
    (must_verify_payable (deliver_input c m sh gas) 2 = true -> wc_payable c (m_dest m) = PayYes) ->
    fungible_or_absent (env_at c sh) s (m_dest m) (msg_key m) ->
    (m_dest m <> SC -> frozen_at (env_at c sh) s (m_dest m) (msg_key m) = false /\ paused_at s (msg_key m) = false) ->
    let w' := wstep c w (ODeliver id gas) in
    inflight w' = drop_msg (inflight w) id /\ failed w' = failed w
    /\ wbal w' (m_dest m) (msg_key m) = (wbal w (m_dest m) (msg_key m) + msg_val m)%Z.
  Proof.
    intros sh s Hinv Hfind Hem Hsh Hpay Hent Hfl. subst s sh. set (sh := shof (m_dest m)) in *.
    destruct (find_msg_In _ _ _ Hfind) as [Hin _].
    pose proof (wi_msgs c w Hinv) as Hall. rewrite Forall_forall in Hall. pose proof (Hall m Hin) as Hm.
    destruct (deliver_succeeds_esdt (shard_accts w sh) m gas Hem Hm (wi_nonneg c w Hinv sh) Hpay Hent Hfl) as (o & s' & Hex).
    pose proof (deliver_credits_exact c Hc (shard_accts w sh) m gas o s' (wi_nonneg c w Hinv sh) Hm Hex) as Hb.
    assert (Hsnd : i_snd (deliver_input c m sh gas) = false).
    { cbn [deliver_input i_snd]. apply N.eqb_neq. exact (mo_caller c m Hm). }
    assert (Hne : i_caller (deliver_input c m sh gas) <> i_rcpt (deliver_input c m sh gas)).
    { cbn [deliver_input i_caller i_rcpt]. intros He. apply (mo_caller c m Hm). rewrite He. reflexivity. }
    destruct (dest_side c Hc sh (shard_accts w sh) m (deliver_input c m sh gas) o s' (wi_nodup c w Hinv sh) (wi_nonneg c w Hinv sh) Hm
                eq_refl Hsnd eq_refl Hne Hex) as (_ & _ & _ & Hout).
    assert (Hcol : collect c sh (m_fn m) (deliver_input c m sh gas) (next_id w) o = []).
    { apply collect_all_local; [|left; reflexivity]. intros oa Hoa. rewrite (Hout oa Hoa). reflexivity. }
    cbv zeta. rewrite (wstep_deliver_ok w id gas m o s' Hfind Hsh Hex). fold sh.
    rewrite Hcol, app_nil_r. split; [reflexivity|]. split; [reflexivity|].
    rewrite (wbal_commit w sh (accts s') _ _ _ (m_dest m) (msg_key m) s' (in_range c w sh Hinv Hsh) eq_refl eq_refl).
    rewrite Hb, beqb_refl, wbal_state. fold sh. f_equal.
    destruct Hem as (Hfn & Hlen & _). unfold qty, msg_key, msg_val, credits. rewrite Hfn, beqb_refl.
    unfold alen in Hlen. destruct (m_args m) as [|a0 [|a1 r]]; cbn [length] in Hlen; try lia.
    cbn [nth]. rewrite qty_list_single, beqb_refl. reflexivity.
  Qed.

  Theorem rejected_then_refund_esdt w id gas gas' m :
    let shd := shof (m_dest m) in
    let shs := shof (m_sender m) in
    WInv c w -> find_msg (inflight w) id = Some m -> esdt_msg m ->
    (shd <? wc_nshards c)%N = true -> (shs <? wc_nshards c)%N = true -> shs <> META ->
    (* the delivery is rejected, for whatever reason (frozen, paused, not payable, wrong entry, decode error) *)
    (forall o s', exec (env_at c shd) (m_fn m) (deliver_input c m shd gas) (mk_state (shard_accts w shd)) <> (Ok o, s')) ->
    fungible_or_absent (env_at c shs) (mk_state (shard_accts w shs)) (m_sender m) (msg_key m) ->
    let w1 := wstep c w (ODeliver id gas) in
    let w2 := wstep c w1 (ORefund id gas') in
    (* after the rejection: same accounts, same messages, id marked failed *)
    shards w1 = shards w /\ inflight w1 = inflight w /\ nat_in id (failed w1) = true
    (* after the refund: message gone, mark removed, the debited account has the quantity back *)
    /\ inflight w2 = drop_msg (inflight w) id /\ nat_in id (failed w2) = false
    /\ wbal w2 (m_sender m) (msg_key m) = (wbal w (m_sender m) (msg_key m) + msg_val m)%Z
    /\ forall k, total c k w2 = total c k w.
  Proof.
    intros shd shs Hinv Hfind Hem Hshd Hshs Hmeta Hrej Hent. subst shd shs.
    set (shd := shof (m_dest m)) in *. set (shs := shof (m_sender m)) in *.
    destruct (find_msg_In _ _ _ Hfind) as [Hin _].
    pose proof (wi_msgs c w Hinv) as Hall. rewrite Forall_forall in Hall. pose proof (Hall m Hin) as Hm.
    assert (Hw1 : wstep c w (ODeliver id gas)
                  = with_msgs w (inflight w) (if nat_in id (failed w) then failed w else id :: failed w) (next_id w)).
    { cbn [wstep]. rewrite Hfind. fold shd. rewrite Hshd. cbn [negb]. unfold run_on.
      change {| accts := shard_accts w shd; calls := 0; allocs := 0 |} with (mk_state (shard_accts w shd)).
      destruct (exec (env_at c shd) (m_fn m) (deliver_input c m shd gas) (mk_state (shard_accts w shd))) as [[o|e|] s'] eqn:Ex;
        [exfalso; exact (Hrej o s' eq_refl)|reflexivity|reflexivity]. }
    cbv zeta. rewrite Hw1. set (w1 := with_msgs w (inflight w) _ (next_id w)).
    assert (Hfl1 : nat_in id (failed w1) = true).
    { unfold w1. cbn [failed with_msgs]. destruct (nat_in id (failed w)) eqn:En; [exact En|].
      unfold nat_in. cbn [existsb]. rewrite Nat.eqb_refl. reflexivity. }
    split; [reflexivity|]. split; [reflexivity|]. split; [exact Hfl1|].
    destruct (refund_succeeds_esdt (shard_accts w shs) m gas' Hem Hm Hmeta (wi_nonneg c w Hinv shs) Hent) as (o & s' & Hex).
    cbv zeta in Hex. fold shs in Hex.
    pose proof (refund_credits_exact c Hc (shard_accts w shs) m gas' o s' (wi_nonneg c w Hinv shs) Hm Hex) as Hb.
    assert (Hw2 : wstep c w1 (ORefund id gas')
                  = with_msgs (set_shard w1 shs (accts s')) (drop_msg (inflight w) id) (nat_remove id (failed w1)) (next_id w)).
    { cbn [wstep]. change (inflight w1) with (inflight w). rewrite Hfind. fold shs. rewrite Hfl1, Hshs. cbn [negb]. unfold run_on.
      change (shard_accts w1 shs) with (shard_accts w shs).
      change {| accts := shard_accts w shs; calls := 0; allocs := 0 |} with (mk_state (shard_accts w shs)). rewrite Hex. reflexivity. }
    rewrite Hw2. split; [reflexivity|]. split.
    { cbn [failed with_msgs]. unfold nat_in, nat_remove. clear. induction (failed w1) as [|x r IH]; [reflexivity|].
      cbn [filter]. destruct (Nat.eqb x id) eqn:Ex; cbn [negb]; [exact IH|]. cbn [existsb]. rewrite Nat.eqb_sym, Ex. exact IH. }
    split.
    { rewrite (wbal_commit w1 shs (accts s') _ _ _ (m_sender m) (msg_key m) s'); [|apply (in_range c w shs Hinv Hshs)|reflexivity|reflexivity].
      rewrite Hb, beqb_refl, wbal_state. fold shs. f_equal.
      destruct Hem as (Hfn & Hlen & _). unfold qty, msg_key, msg_val, credits. rewrite Hfn, beqb_refl.
      unfold alen in Hlen. destruct (m_args m) as [|a0 [|a1 r]]; cbn [length] in Hlen; try lia.
      cbn [nth]. rewrite qty_list_single, beqb_refl. reflexivity. }
    intros k. rewrite <- Hw2. subst w1. rewrite <- Hw1.
    destruct (conservation_step c Hc w (ODeliver id gas) Hinv I I) as [Hinv1 Hk1].
    destruct (conservation_step c Hc _ (ORefund id gas') Hinv1 I I) as [_ Hk2].
    rewrite Hk2, Hk1. reflexivity.
  Qed.
End LiveWorld.

Print Assumptions esdt_dest_succeeds.
Print Assumptions deliver_accepted_esdt.
Print Assumptions rejected_then_refund_esdt.
