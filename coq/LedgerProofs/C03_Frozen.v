(* C03 (authority), part 2a: the frozen flag of FUNGIBLE entries under every function that is not reserved to the
   system contract.

   [fungible_frozen E s a k]: the entry stored in account a under the full storage key k decodes, carries NO
   metadata (the property's "fungible entry") and bit 0 of byte 0 of its 2-byte Properties is set.
   [ff_kept s s']: no such flag moved at any protocol key P ++ x of any account other than the system contract's
   own address.

   Results (E arbitrary, codec_ok):
   - the four functions that go through [add_to_esdt_balance] only (ESDTTransfer, ESDTBurn, LocalMint, LocalBurn)
     keep the flag of EVERY entry, whatever caller / ReturnCallAfterError;
   - the four NFT entry-rewriting functions keep it under [lookup_consistent] (F4b);
   - ESDTNFTCreate keeps it when the cell under the next nonce does not hold a frozen fungible entry;
   - the two NFT transfers keep it when ReturnCallAfterError is not set and the sender-side lookups are
     [lookup_consistent]. *)
From EV Require Import Base.Bytes Base.Store Base.Monad gen.Consts Codec.Types Helpers.Helpers
  Ledger.Types Ledger.Env Ledger.Funcs Ledger.Transfers
  LedgerProofs.Defs LedgerProofs.EnvSpec LedgerProofs.Spec_Transfers_Base LedgerProofs.Spec_Supply
  LedgerProofs.Spec_Transfers_Esdt LedgerProofs.Spec_Transfers_Nft LedgerProofs.Spec_Transfers_Multi
  LedgerProofs.Spec_Transfers.

Definition tok_ff (t : token) : bool :=
  match t_meta t with None => frozen_props (t_props t) | Some _ => false end.
Definition fungible_frozen (E : env) (s : mstate) (a k : bytes) : bool :=
  match tok_at E s a k with Some t => tok_ff t | None => false end.

Lemma c03_all_zero_not_frozen p : all_zero p = true -> frozen_props p = false.
Proof.
  unfold frozen_props, frozen_from, flag_from, blen, all_zero.
  destruct p as [|b0 [|b1 [|b2 r]]]; intros H; try reflexivity.
  - cbn [forallb] in H. apply andb_prop in H as [H0 _]. apply N.eqb_eq in H0.
    cbn [length]. change (N.of_nat 2 =? C.bif_lengthOfESDTMetadata)%N with true. cbn [negb index nth_error N.to_nat].
    unfold mask. rewrite H0. reflexivity.
  - replace (N.of_nat (length (b0 :: b1 :: b2 :: r)) =? C.bif_lengthOfESDTMetadata)%N with false; [reflexivity|].
    symmetry. apply N.eqb_neq. change C.bif_lengthOfESDTMetadata with 2%N. cbn [length]. lia.
Qed.
Lemma tok_ff_set_value t v : tok_ff (set_value t v) = tok_ff t. Proof. reflexivity. Qed.
Lemma tok_ff_meta t m : t_meta t = Some m -> tok_ff t = false.
Proof. unfold tok_ff. intros ->. reflexivity. Qed.
Lemma tok_ff_unfrozen t : frozen_props (t_props t) = false -> tok_ff t = false.
Proof. unfold tok_ff. intros ->. destruct (t_meta t); reflexivity. Qed.

Section Frozen.
  Variable E : env.
  Hypothesis Hc : codec_ok (cdc E).
  Notation ff := (fungible_frozen E).

  Lemma ff_le_frozen_at s a k : frozen_at E s a k = false -> ff s a k = false.
  Proof.
    unfold frozen_at, fungible_frozen. destruct (tok_at E s a k) as [t|]; [|reflexivity].
    apply tok_ff_unfrozen.
  Qed.
  Lemma ff_tok_at s s' a k : tok_at E s' a k = tok_at E s a k -> ff s' a k = ff s a k.
  Proof. unfold fungible_frozen. intros ->. reflexivity. Qed.

  (* "kept": every protocol key of every account except the system contract's own address *)
  Definition ff_kept (s s' : mstate) : Prop := forall a x, a <> SC -> ff s' a (P ++ x) = ff s a (P ++ x).
  (* "kept everywhere": every key of every account *)
  Definition ff_same (s s' : mstate) : Prop := forall a k, ff s' a k = ff s a k.

  Lemma ff_same_kept s s' : ff_same s s' -> ff_kept s s'.
  Proof. intros H a x _. apply H. Qed.
  Lemma ff_same_refl s : ff_same s s. Proof. intros a k. reflexivity. Qed.
  Lemma ff_same_trans s1 s2 s3 : ff_same s1 s2 -> ff_same s2 s3 -> ff_same s1 s3.
  Proof. intros H1 H2 a k. rewrite H2. apply H1. Qed.
  Lemma ff_kept_refl s : ff_kept s s. Proof. intros a k _. reflexivity. Qed.
  Lemma ff_kept_trans s1 s2 s3 : ff_kept s1 s2 -> ff_kept s2 s3 -> ff_kept s1 s3.
  Proof. intros H1 H2 a k Ha. rewrite (H2 a k Ha). apply H1. exact Ha. Qed.
  Lemma ff_same_accts s s' : accts s' = accts s -> ff_same s s'.
  Proof. intros H a k. apply ff_tok_at. apply tok_at_accts. exact H. Qed.
  Lemma ff_same_rd s s' : rd E s s' -> ff_same s s'.
  Proof. intros H. apply ff_same_accts. eapply rd_accts; eauto. Qed.
  Lemma ff_same_silent s s' : silent E s s' -> ff_same s s'.
  Proof. intros [H _]. apply ff_same_accts. exact H. Qed.

  (* frames: it is enough to look at the cells of the footprint *)
  Lemma ff_same_frame (F : bytes -> bytes -> Prop) (G : bytes -> Prop) s s' :
    unchanged_except F G s s' -> (forall a k, F a k -> ff s' a k = ff s a k) -> ff_same s s'.
  Proof.
    intros Hu HF a k. destruct (Bool.bool_dec (ff s' a k) (ff s a k)) as [e|n]; [exact e|].
    exfalso. apply n. apply ff_tok_at. apply (ue_tok_at E _ _ _ _ Hu). intros HFa. apply n. apply HF. exact HFa.
  Qed.
  Lemma ff_kept_frame (F : bytes -> bytes -> Prop) (G : bytes -> Prop) s s' :
    unchanged_except F G s s' -> (forall a x, F a (P ++ x) -> a <> SC -> ff s' a (P ++ x) = ff s a (P ++ x)) -> ff_kept s s'.
  Proof.
    intros Hu HF a x Ha. destruct (Bool.bool_dec (ff s' a (P ++ x)) (ff s a (P ++ x))) as [e|n]; [exact e|].
    exfalso. apply n. apply ff_tok_at. apply (ue_tok_at E _ _ _ _ Hu). intros HFa. apply n. apply HF; assumption.
  Qed.

  (* ---------------------------------------------------------------- *)
  (* an entry rewritten with the same Properties / metadata            *)
  (* ---------------------------------------------------------------- *)
  Lemma ff_rewrite_same_props (G : bytes -> Prop) s s' a key t (c : bool) v :
    tok_or_default E s a key = Some t ->
    tok_at E s' a key = (if (c && all_zero (t_props t))%bool then None else Some (set_value t v)) ->
    unchanged_except (fun a' k' => a' = a /\ k' = key) G s s' ->
    ff_same s s'.
  Proof.
    intros Htod Hpost Hu. apply (ff_same_frame _ _ _ _ Hu). intros a' k' [-> ->].
    unfold fungible_frozen at 1. rewrite Hpost.
    assert (Hpre : ff s a key = tok_ff t).
    { unfold fungible_frozen. destruct (tod_cases E _ _ _ _ Htod) as [(_ & -> & ->)|(_ & ->)]; reflexivity. }
    rewrite Hpre. destruct (c && all_zero (t_props t))%bool eqn:Ec.
    - apply andb_prop in Ec as [_ Ez]. symmetry. apply tok_ff_unfrozen. apply c03_all_zero_not_frozen. exact Ez.
    - apply tok_ff_set_value.
  Qed.

  Lemma atb_ff_same a key delta rae s u s' :
    add_to_esdt_balance E a key delta rae s = (Ok u, s') -> ff_same s s'.
  Proof.
    intros H. apply (add_to_esdt_balance_ok E Hc) in H as (_ & _ & (t & Htod & _ & _ & _ & Hpost) & _ & Hu & _).
    eapply ff_rewrite_same_props; eauto.
  Qed.
  Lemma fungible_effect_ff_same a key delta rae s s' : fungible_effect E a key delta rae s s' -> ff_same s s'.
  Proof.
    intros H. destruct H. destruct fe_entry as (t & Htod & _ & _ & _ & Hpost).
    eapply ff_rewrite_same_props; eauto.
  Qed.

  (* ESDTTransfer: unconditional (any caller, either side, ReturnCallAfterError or not) *)
  Theorem esdt_transfer_ff_same i s o s' : f_esdt_transfer E i s = (Ok o, s') -> ff_same s s'.
  Proof.
    intros H. apply (esdt_transfer_inv E) in H as (_ & _ & _ & _ & s1 & s2 & Hs & Hd & _).
    assert (H1 : ff_same s s1).
    { destruct (i_snd i); [destruct Hs as [_ Hs]; eapply atb_ff_same; eauto|subst s1; apply ff_same_refl]. }
    assert (H2 : ff_same s1 s').
    { destruct (i_dst i).
      - destruct Hd as (Hrd & _ & Hd). eapply ff_same_trans; [apply ff_same_rd; exact Hrd|eapply atb_ff_same; eauto].
      - destruct Hd as [_ ->]. apply ff_same_refl. }
    eapply ff_same_trans; eauto.
  Qed.

  (* ---------------------------------------------------------------- *)
  (* one cell credited by add_nft_to_destination                       *)
  (* ---------------------------------------------------------------- *)
  Lemma credit_ff_kept (G : bytes -> Prop) rcpt K t s s' (c : bool) v :
    (rcpt <> SC -> frozen_at E s rcpt K = false /\ frozen_props (t_props t) = false) ->
    tok_at E s' rcpt K = (if c then None else Some (set_value t v)) ->
    unchanged_except (fun a k => a = rcpt /\ k = K) G s s' ->
    ff_kept s s'.
  Proof.
    intros Hfl Hpost Hu. apply (ff_kept_frame _ _ _ _ Hu). intros a x [-> HK] Ha. rewrite HK.
    destruct (Hfl Ha) as [F1 F2]. rewrite (ff_le_frozen_at _ _ _ F1).
    unfold fungible_frozen. rewrite Hpost. destruct c; [reflexivity|].
    rewrite tok_ff_set_value. apply tok_ff_unfrozen. exact F2.
  Qed.

  (* ---------------------------------------------------------------- *)
  (* a debit (consistent lookup) and an optional same-shard credit     *)
  (* ---------------------------------------------------------------- *)
  Lemma debit_credit_ff_kept (G : bytes -> Prop) caller dst key nonce q t s s1 s' (dstLocal c1 c2 : bool) v1 v2 :
    dst <> caller ->
    debit_post E caller key nonce q false t s s1 ->
    tok_nonce t = nonce ->
    tok_at E s' caller (nft_key key (tok_nonce t)) = (if c1 then None else Some (set_value t v1)) ->
    (dstLocal = true -> dst <> SC ->
       frozen_at E s dst (nft_key key (tok_nonce t)) = false /\ frozen_props (t_props t) = false) ->
    (dstLocal = true -> tok_at E s' dst (nft_key key (tok_nonce t)) = (if c2 then None else Some (set_value t v2))) ->
    unchanged_except (fun a k => k = nft_key key (tok_nonce t) /\ (a = caller \/ (dstLocal = true /\ a = dst))) G s s' ->
    ff_kept s s'.
  Proof.
    intros Hne D Hcons Hsnd Hdfl Hdst Hu. destruct D.
    apply (ff_kept_frame _ _ _ _ Hu). intros a x [HK Ha] Hsc. rewrite HK.
    destruct (beqb_spec a caller) as [->|Hac].
    - (* the sender's cell: its entry t passed the frozen check *)
      destruct (db_flags eq_refl Hsc) as (Fp & _).
      assert (Hpre : ff s caller (nft_key key (tok_nonce t)) = false).
      { unfold fungible_frozen. rewrite Hcons, db_entry. apply tok_ff_unfrozen. exact Fp. }
      rewrite Hpre. unfold fungible_frozen. rewrite Hsnd. destruct c1; [reflexivity|].
      rewrite tok_ff_set_value. apply tok_ff_unfrozen. exact Fp.
    - destruct Ha as [Ha|[Hl ->]]; [contradiction|].
      destruct (Hdfl Hl Hsc) as [F1 F2]. rewrite (ff_le_frozen_at _ _ _ F1).
      unfold fungible_frozen. rewrite (Hdst Hl). destruct c2; [reflexivity|].
      rewrite tok_ff_set_value. apply tok_ff_unfrozen. exact F2.
  Qed.

  (* ---------------------------------------------------------------- *)
  (* ESDTNFTTransfer                                                   *)
  (* ---------------------------------------------------------------- *)
  Theorem nft_transfer_ff_kept i s o s' :
    f_nft_transfer E i s = (Ok o, s') -> i_rae i = false ->
    (i_caller i = i_rcpt i -> lookup_consistent E s (i_caller i) (P ++ argn i 0) (bigU64 (argn i 1))) ->
    ff_kept s s'.
  Proof.
    intros H Hrae Hlc. destruct (beqb_spec (i_caller i) (i_rcpt i)) as [Heq|Hne].
    - destruct (nft_sender_post E Hc _ _ _ _ H Heq) as (t & Hp). destruct Hp.
      destruct ns_debit as (s1 & D & _). rewrite Hrae in D.
      assert (Hcons : tok_nonce t = nft_nonce i).
      { apply (Hlc Heq). destruct D. exact db_entry. }
      eapply (debit_credit_ff_kept _ (i_caller i) (nft_dst i) (nft_tkey i) (nft_nonce i) _ t s s1 s' (nft_same E i));
        [exact ns_dst_ne|exact D|exact Hcons|exact ns_snd_tok_at| | |exact ns_frame].
      + intros Hs Hsc. destruct (ns_dst_flags Hs Hrae Hsc) as (F1 & F2 & _). auto.
      + intros Hs. etransitivity; [exact (ns_dst_tok_at Hs)|]. unfold nft_travel. reflexivity.
    - destruct (nft_dest_post E Hc _ _ _ _ H Hne) as (t & Hp). destruct Hp.
      eapply (credit_ff_kept _ (i_rcpt i) (nft_full i t) t); [|exact nd_tok_at|exact nd_frame].
      intros Hsc. destruct (nd_flags Hrae Hsc) as (F1 & F2 & _). auto.
  Qed.

  (* ---------------------------------------------------------------- *)
  (* MultiESDTNFTTransfer                                              *)
  (* ---------------------------------------------------------------- *)
  Lemma snd_steps_ff_kept caller dst dstLocal verify trs s s' lst :
    dst <> caller ->
    snd_steps E caller dst dstLocal verify false trs s s' lst ->
    triples_consistent E s caller trs -> ff_kept s s'.
  Proof.
    intros Hne Hs. induction Hs as [s|x rest s s1 s' t t2 l Hp Hs IH]; intros Hcons; [apply ff_kept_refl|].
    inversion Hcons as [|x0 r0 Hx Hrest]; subst.
    assert (Hn : tok_nonce t = rt_nonce x).
    { destruct Hp. destruct os_debit as (s0 & D & _). destruct D. apply Hx. exact db_entry. }
    eapply ff_kept_trans; [|apply IH].
    - pose proof Hp as Hp'. destruct Hp'. destruct os_debit as (s0 & D & _).
      eapply (debit_credit_ff_kept _ caller dst (P ++ rt_tok x) (rt_nonce x) _ t s s0 s1 dstLocal);
        [exact Hne|exact D|exact Hn|exact os_snd_tok_at| | |exact os_frame].
      + intros Hl Hsc. destruct (os_dst_flags Hl eq_refl Hsc) as (F1 & F2 & _). auto.
      + intros Hl. etransitivity; [exact (os_dst_tok_at Hl)|]. rewrite os_travel. reflexivity.
    - eapply Forall_impl; [|exact Hrest]. intros y Hy.
      eapply one_snd_post_consistent; eauto.
  Qed.

  Lemma dst_steps_ff_kept rcpt verify trs s s' :
    dst_steps E rcpt verify false trs s s' -> ff_kept s s'.
  Proof.
    intros Hs. induction Hs as [s|x rest s s1 s' Hp Hs IH]; [apply ff_kept_refl|].
    eapply ff_kept_trans; [|exact IH]. destruct Hp.
    destruct (0 <? rt_nonce x)%N eqn:En.
    - destruct od_nft as (t & _ & _ & _ & _ & _ & Hfl & Hpost & _ & Hu); [lia|].
      eapply (credit_ff_kept _ rcpt _ t); [|exact Hpost|exact Hu].
      intros Hsc. destruct (Hfl eq_refl Hsc) as (F1 & F2 & _). auto.
    - destruct od_fungible as (_ & (t & Htod & _ & _ & _ & Hpost) & _ & Hu); [lia|].
      apply ff_same_kept. eapply ff_rewrite_same_props; eauto.
  Qed.

  Theorem multi_transfer_ff_kept i s o s' :
    f_multi_transfer E i s = (Ok o, s') -> i_rae i = false ->
    (i_caller i = i_rcpt i -> triples_consistent E s (i_caller i) (multi_snd_triples i)) ->
    ff_kept s s'.
  Proof.
    intros H Hrae Hlc. destruct (beqb_spec (i_caller i) (i_rcpt i)) as [Heq|Hne].
    - destruct (multi_sender_post E Hc _ _ _ _ H Heq) as (lst & Hp). destruct Hp.
      destruct mp_steps as (s0 & s1 & S0 & Hsteps & S1). rewrite Hrae in Hsteps.
      eapply ff_kept_trans; [apply ff_same_kept, ff_same_silent; exact S0|].
      eapply ff_kept_trans; [|apply ff_same_kept, ff_same_silent; exact S1].
      eapply snd_steps_ff_kept; [exact mp_dst_ne|exact Hsteps|].
      eapply silent_consistent; [exact S0|]. apply Hlc. exact Heq.
    - pose proof (multi_dest_post E Hc _ _ _ _ H Hne) as Hp. destruct Hp.
      destruct mq_steps as (s0 & S0 & Hsteps). rewrite Hrae in Hsteps.
      eapply ff_kept_trans; [apply ff_same_kept, ff_same_silent; exact S0|].
      eapply dst_steps_ff_kept; eauto.
  Qed.

  (* ---------------------------------------------------------------- *)
  (* the eight supply functions                                        *)
  (* ---------------------------------------------------------------- *)
  (* an NFT entry rewritten under a consistent lookup: it carries metadata before and after *)
  Lemma nft_update_ff_same a key nonce t m t' rae s s' :
    nft_update E a key nonce t m t' rae s s' -> lookup_consistent E s a key nonce ->
    (exists m', t_meta t' = Some m') -> ff_same s s'.
  Proof.
    intros U Hlc (m' & Hm'). pose proof (nft_update_consistent _ _ _ _ _ _ _ _ _ _ U Hlc) as Hn. destruct U.
    apply (ff_same_frame _ _ _ _ nu_frame). intros a' k' [-> ->]. rewrite Hn.
    unfold fungible_frozen. rewrite Hn in nu_stored. rewrite nu_stored, nu_found.
    rewrite (tok_ff_meta _ _ nu_meta). destruct (val_or_0 t' <=? 0)%Z; [reflexivity|]. apply (tok_ff_meta _ _ Hm').
  Qed.

  (* what the frozen-flag statement needs from the pre-state, per supply function *)
  Definition supply_ff_pre (f : supply_fn) (i : input) (s : mstate) : Prop :=
    match f with
    | SNftCreate => ff s (i_caller i) (nft_key (P ++ argn i 0) (create_nonce i s)) = false
    | _ => supply_consistent E f i s
    end.

  Theorem supply_ff_same f i s o s' :
    run_supply E f i s = (Ok o, s') -> supply_ff_pre f i s -> forall a x, ff s' a (P ++ x) = ff s a (P ++ x).
  Proof.
    destruct f; cbn [run_supply supply_ff_pre supply_consistent]; intros H Hpre a x.
    - apply (f_local_mint_spec E Hc) in H. destruct H. apply (fungible_effect_ff_same _ _ _ _ _ _ lm_effect).
    - apply (f_local_burn_spec E Hc) in H. destruct H. apply (fungible_effect_ff_same _ _ _ _ _ _ lb_effect).
    - apply (f_esdt_burn_spec E Hc) in H. destruct H. apply (fungible_effect_ff_same _ _ _ _ _ _ eb_effect).
    - apply (f_nft_create_spec E Hc) in H. destruct H.
      destruct (Bool.bool_dec (ff s' a (P ++ x)) (ff s a (P ++ x))) as [e|n]; [exact e|].
      exfalso. apply n.
      destruct (beqb_spec a (i_caller i)) as [->|Ha];
        [destruct (beqb_spec (P ++ x) (nft_key (P ++ argn i 0) (create_nonce i s))) as [->|Hk]|].
      + rewrite Hpre. unfold fungible_frozen. rewrite nc_entry. reflexivity.
      + apply ff_tok_at. apply (ue_tok_at E _ _ _ _ nc_frame). intros (_ & [Hx|Hx]); [contradiction|].
        revert Hx. apply P_NP_disjoint.
      + apply ff_tok_at. apply (ue_tok_at E _ _ _ _ nc_frame). intros (Hx & _). contradiction.
    - apply (f_nft_add_quantity_spec E Hc) in H as (t & m & v & H). destruct H.
      pose proof aq_update as U. destruct U.
      apply (nft_update_ff_same _ _ _ _ _ _ _ _ _ aq_update Hpre). exists m. exact nu_meta.
    - apply (f_nft_burn_spec E Hc) in H as (t & m & v & H). destruct H.
      pose proof nb_update as U. destruct U.
      apply (nft_update_ff_same _ _ _ _ _ _ _ _ _ nb_update Hpre). exists m. exact nu_meta.
    - apply (f_nft_add_uri_spec E Hc) in H as (t & m & v & H). destruct H.
      apply (nft_update_ff_same _ _ _ _ _ _ _ _ _ au_update Hpre). eexists. reflexivity.
    - apply (f_nft_update_attributes_spec E Hc) in H as (t & m & v & H). destruct H.
      apply (nft_update_ff_same _ _ _ _ _ _ _ _ _ ua_update Hpre). eexists. reflexivity.
  Qed.

  (* the four functions that only go through add_to_esdt_balance keep EVERY flag, unconditionally *)
  Theorem fungible_functions_keep_frozen f i s o s' :
    exec E f i s = (Ok o, s') ->
    In f [C.BuiltInFunctionESDTTransfer; C.BuiltInFunctionESDTBurn; C.BuiltInFunctionESDTLocalMint;
          C.BuiltInFunctionESDTLocalBurn] ->
    forall a k, fungible_frozen E s' a k = fungible_frozen E s a k.
  Proof.
    intros H Hin. cbn [In] in Hin. destruct Hin as [<-|[<-|[<-|[<-|[]]]]].
    - rewrite exec_esdt_transfer in H. apply (esdt_transfer_ff_same _ _ _ _ H).
    - change C.BuiltInFunctionESDTBurn with (supply_name SEsdtBurn) in H. rewrite exec_supply in H. cbn [run_supply] in H.
      apply (f_esdt_burn_spec E Hc) in H. destruct H. apply (fungible_effect_ff_same _ _ _ _ _ _ eb_effect).
    - change C.BuiltInFunctionESDTLocalMint with (supply_name SLocalMint) in H. rewrite exec_supply in H. cbn [run_supply] in H.
      apply (f_local_mint_spec E Hc) in H. destruct H. apply (fungible_effect_ff_same _ _ _ _ _ _ lm_effect).
    - change C.BuiltInFunctionESDTLocalBurn with (supply_name SLocalBurn) in H. rewrite exec_supply in H. cbn [run_supply] in H.
      apply (f_local_burn_spec E Hc) in H. destruct H. apply (fungible_effect_ff_same _ _ _ _ _ _ lb_effect).
  Qed.
End Frozen.

Print Assumptions esdt_transfer_ff_same.
Print Assumptions nft_transfer_ff_kept.
Print Assumptions multi_transfer_ff_kept.
Print Assumptions supply_ff_same.
Print Assumptions fungible_functions_keep_frozen.
