(* Function spec of MultiESDTNFTTransfer (Ledger/Transfers.v: f_multi_transfer), sender side
   (f_multi_transfer_sender: multi_sender_loop, multi_out_args) and destination side (multi_dest_loop).

   Structure
     one step        [transfer_one_sender_spec] (record one_snd_post), [dest_step_spec] (record one_dst_post)
     loops           [multi_sender_loop_spec] / [multi_dest_loop_spec]: the loop is a chain of one-step posts
                     (inductive relations snd_steps / dst_steps over the raw argument triples)
     sums            [snd_steps_balance] / [dst_steps_balance]: balance after = balance before + delta, with
                     delta defined by recursion over the triples (repeated tokens accumulate)
     message         [multi_out_args_spec], [out_args_credits]: the credits of the emitted message are the debits
     functions       [multi_transfer_sender_spec], [multi_transfer_dest_spec], [multi_transfer_spec]. *)
From EV Require Import Base.Bytes Base.Store Base.Monad gen.Consts Codec.Types Helpers.Helpers
  Ledger.Types Ledger.Env Ledger.Funcs Ledger.Transfers LedgerProofs.Defs LedgerProofs.EnvSpec
  LedgerProofs.Spec_Transfers_Base LedgerProofs.Spec_Transfers_Nft.

(* raw argument triple: token id, nonce bytes, third argument (quantity bytes / payload) *)
Definition rawtriple := (bytes * bytes * bytes)%type.
Definition rt_tok (x : rawtriple) : bytes := fst (fst x).
Definition rt_nonce (x : rawtriple) : N := bigU64 (snd (fst x)).
Definition rt_qty (x : rawtriple) : Z := bigZ (snd x).
Definition rt_third (x : rawtriple) : bytes := snd x.
(* the cell a triple addresses when lookups are consistent *)
Definition rt_cell (x : rawtriple) : bytes := nft_key (P ++ rt_tok x) (rt_nonce x).

(* the [fuel] triples starting at argument index off + 3*idx *)
Fixpoint multi_triples (fuel : nat) (i : input) (off idx : N) : list rawtriple :=
  match fuel with
  | O => []
  | S f => (argn i (N.to_nat (off + idx * 3)), argn i (N.to_nat (off + idx * 3 + 1)), argn i (N.to_nat (off + idx * 3 + 2)))
           :: multi_triples f i off (idx + 1)
  end.
Lemma multi_triples_length fuel i off idx : length (multi_triples fuel i off idx) = fuel.
Proof. revert idx. induction fuel as [|f IH]; intros idx; simpl; [reflexivity|]. rewrite IH. reflexivity. Qed.

Section Multi.
  Variable E : env.
  Hypothesis Hc : codec_ok (cdc E).

  (* state changes that no observable sees: dependency calls and allocations *)
  Definition silent (s s' : mstate) : Prop := accts s' = accts s /\ nofault E s s'.
  Lemma silent_refl s : silent s s. Proof. split; [reflexivity|apply nofault_refl]. Qed.
  Lemma silent_trans a b c : silent a b -> silent b c -> silent a c.
  Proof. intros [H1 H2] [H3 H4]. split; [congruence|eapply nofault_trans; eauto]. Qed.
  Lemma rd_silent s s' : rd E s s' -> silent s s'.
  Proof. intros (H1 & _ & H2). split; assumption. Qed.
  Lemma alloc_silent n s u s' : alloc n s = (Ok u, s') -> silent s s'.
  Proof. intros H. pose proof (alloc_nofault E _ _ _ _ H). apply alloc_ok in H as (_ & H1 & _). split; assumption. Qed.
  Lemma silent_balance s s' a k : silent s s' -> balance E s' a k = balance E s a k.
  Proof. intros [H _]. apply balance_accts. exact H. Qed.
  Lemma silent_tok_at s s' a k : silent s s' -> tok_at E s' a k = tok_at E s a k.
  Proof. intros [H _]. apply tok_at_accts. exact H. Qed.
  Lemma silent_unchanged F G s s' : silent s s' -> unchanged_except F G s s'.
  Proof. intros [H _]. apply unchanged_except_accts. exact H. Qed.
  Lemma silent_touches L s s' : silent s s' -> touches L s s'.
  Proof. intros [H _]. apply touches_accts. exact H. Qed.
  Lemma silent_nofault s s' : silent s s' -> nofault E s s'.
  Proof. intros [_ H]. exact H. Qed.

  (* ================================================================ *)
  (* sender side: one token                                             *)
  (* ================================================================ *)
  (* t = the sender's entry found under nft_key (P ++ tok) nonce; t2 = the entry that travels *)
  Record one_snd_post (caller dst : bytes) (dstLocal verify rae : bool) (tok : bytes) (nonce : N) (q : Z)
         (t : token) (s : mstate) (t2 : token) (s' : mstate) : Prop := {
    os_pos : (0 < q)%Z;
    os_debit : exists s1, debit_post E caller (P ++ tok) nonce q rae t s s1 /\ (dstLocal = false -> s' = s1);
    os_travel : t2 = set_value t (Some (if dstLocal then (q + balance E s dst (nft_key (P ++ tok) (tok_nonce t)))%Z else q));
    os_snd_tok_at : tok_at E s' caller (nft_key (P ++ tok) (tok_nonce t)) =
       (if (val_or_0 t - q <=? 0)%Z then None else Some (set_value t (Some (val_or_0 t - q)%Z)));
    os_snd_balance : balance E s' caller (nft_key (P ++ tok) (tok_nonce t)) = (val_or_0 t - q)%Z;
    os_dst_payable : dstLocal = true -> verify = true -> payable E dst = PayYes;
    os_dst_value : dstLocal = true -> forall cur, tok_at E s dst (nft_key (P ++ tok) (tok_nonce t)) = Some cur -> t_value cur <> None;
    os_dst_hash : dstLocal = true -> forall cur cm, tok_at E s dst (nft_key (P ++ tok) (tok_nonce t)) = Some cur -> t_meta cur = Some cm ->
                    exists m, t_meta t = Some m /\ md_hash cm = md_hash m;
    os_dst_flags : dstLocal = true -> rae = false -> dst <> SC ->
       frozen_at E s dst (nft_key (P ++ tok) (tok_nonce t)) = false /\ frozen_props (t_props t) = false
       /\ paused_at s (P ++ tok) = false /\ paused_at s (nft_key (P ++ tok) (tok_nonce t)) = false;
    os_dst_tok_at : dstLocal = true ->
       tok_at E s' dst (nft_key (P ++ tok) (tok_nonce t)) =
       (if (q + balance E s dst (nft_key (P ++ tok) (tok_nonce t)) <=? 0)%Z then None else Some t2);
    os_dst_balance : dstLocal = true ->
       balance E s' dst (nft_key (P ++ tok) (tok_nonce t)) = Z.max 0 (q + balance E s dst (nft_key (P ++ tok) (tok_nonce t)));
    os_frame : unchanged_except (fun a k => k = nft_key (P ++ tok) (tok_nonce t) /\ (a = caller \/ (dstLocal = true /\ a = dst)))
                 (fun _ => False) s s';
    os_touches : forall L, NoDup L -> In caller L -> (dstLocal = true -> In dst L) -> touches L s s';
    os_nofault : nofault E s s';
    os_allocs : allocs s' = allocs s }.

  Lemma transfer_one_sender_spec sndPresent caller dstLocal dst tok nonce q verify rae s t2 s' :
    dst <> caller ->
    transfer_one_sender E sndPresent caller dstLocal dst tok nonce q verify rae s = (Ok t2, s') ->
    sndPresent = true /\ exists t, one_snd_post caller dst dstLocal verify rae tok nonce q t s t2 s'.
  Proof.
    intros Hne. unfold transfer_one_sender. cbv zeta. intros H.
    apply bind_ok in H as (u0 & s0 & H0 & H). apply guard_ok in H0 as [Hq ->].
    apply bind_ok in H as (u1 & s0 & H0 & H).
    assert (Hsnd : sndPresent = true /\ s0 = s).
    { destruct sndPresent; [apply ret_ok in H0 as [_ ->]; auto|apply panic_ok in H0; contradiction]. }
    destruct Hsnd as [-> ->]. clear H0. split; [reflexivity|].
    apply bind_ok in H as (t & s1 & Hg & H).
    apply bind_ok in H as (v & s1' & Hv & H).
    apply bind_ok in H as (u6 & s1'' & Hqq & H).
    apply bind_ok in H as (b0 & s2 & Hsave & H).
    assert (Hdeb : debit_nft E caller (P ++ tok) nonce q rae s = (Ok t, s2)).
    { unfold debit_nft.
      rewrite (bind_eq _ _ _ _ _ Hg). rewrite (bind_eq _ _ _ _ _ Hv). rewrite (bind_eq _ _ _ _ _ Hqq).
      rewrite (bind_eq _ _ _ _ _ Hsave). reflexivity. }
    clear Hg Hv Hqq Hsave. apply (debit_nft_ok E Hc) in Hdeb. pose proof Hdeb as D. destruct D.
    assert (Hbal_dst : balance E s2 dst (nft_key (P ++ tok) (tok_nonce t)) = balance E s dst (nft_key (P ++ tok) (tok_nonce t))).
    { apply (ue_balance E _ _ _ _ db_frame). intros [? _]. contradiction. }
    assert (Hq' : (0 < q)%Z) by lia.
    exists t. destruct dstLocal.
    - apply (antd_obs E Hc) in H; [|apply wf_set_value; exact db_wf]. cbv zeta in H.
      rewrite val_or_0_set_value, tok_nonce_set_value in H. cbn [set_value t_props] in H. rewrite Hbal_dst in H.
      destruct H as (_ & -> & Apay & Aval & Ahash & Afl & _ & Atok & Abal & Aue & Atch & Anf & Aal).
      assert (Hta : forall cur, tok_at E s dst (nft_key (P ++ tok) (tok_nonce t)) = Some cur ->
                                tok_at E s2 dst (nft_key (P ++ tok) (tok_nonce t)) = Some cur).
      { intros cur Hcur. rewrite (ue_tok_at E _ _ _ _ db_frame); [exact Hcur|]. intros [? _]. contradiction. }
      constructor; try assumption.
      + exists s2. split; [exact Hdeb|discriminate].
      + reflexivity.
      + rewrite (ue_tok_at E _ _ _ _ Aue) by (intros [? _]; congruence). exact db_tok_at.
      + rewrite (ue_balance E _ _ _ _ Aue) by (intros [? _]; congruence). exact db_balance.
      + intros _. exact Apay.
      + intros _ cur Hcur. apply (Aval cur). apply Hta. exact Hcur.
      + intros _ cur cm Hcur Hcm. destruct (Ahash cur cm (Hta _ Hcur) Hcm) as (m' & Hm' & Hh).
        rewrite t_meta_set_value in Hm'. eauto.
      + intros _ h1 h2. destruct (Afl h1 h2) as (F1 & F2 & P1 & P2).
        rewrite (ue_frozen_at E _ _ _ _ db_frame) in F1 by (intros [? _]; contradiction).
        split; [exact F1|]. split; [exact F2|].
        destruct (beqb_spec caller SYS) as [Hsys|Hnsys].
        * destruct (db_flags h1) as (_ & _ & Q1 & Q2); [rewrite Hsys; intros Hx; apply SC_ne_SYS; auto|]. auto.
        * rewrite (ue_paused_at _ _ _ _ db_frame) in P1 by (intros [? _]; apply Hnsys; auto).
          rewrite (ue_paused_at _ _ _ _ db_frame) in P2 by (intros [? _]; apply Hnsys; auto). auto.
      + intros _. exact Atok.
      + intros _. exact Abal.
      + eapply unchanged_except_trans.
        { eapply unchanged_except_weaken; [| |exact db_frame]; [|auto]. intros a k [-> ->]. split; auto. }
        eapply unchanged_except_weaken; [| |exact Aue]; [|auto]. intros a k [-> ->]. split; auto.
      + intros L HL Hi1 Hi2. eapply touches_trans; [apply db_touches; auto|apply Atch; auto].
      + eapply nofault_trans; [exact db_nofault|exact Anf].
      + rewrite Aal. exact db_allocs.
    - apply ret_ok in H as [-> ->].
      constructor; try assumption; try discriminate.
      + exists s2. split; [exact Hdeb|reflexivity].
      + reflexivity.
      + eapply unchanged_except_weaken; [| |exact db_frame]; [|auto]. intros a k [-> ->]. split; auto.
      + intros L HL Hi1 _. apply db_touches; auto.
  Qed.

  (* ================================================================ *)
  (* sender side: the loop as a chain of one-step posts                 *)
  (* ================================================================ *)
  Section SndLoop.
    Variables (caller dst : bytes) (dstLocal verify rae : bool).
    Inductive snd_steps : list rawtriple -> mstate -> mstate -> list (bytes * token) -> Prop :=
    | ss_nil s : snd_steps [] s s []
    | ss_cons x rest s s1 s' t t2 l :
        one_snd_post caller dst dstLocal verify rae (rt_tok x) (rt_nonce x) (rt_qty x) t s t2 s1 ->
        snd_steps rest s1 s' l ->
        snd_steps (x :: rest) s s' ((rt_tok x, t2) :: l).
  End SndLoop.

  Definition multi_log (i : input) (extra : bytes) (x : rawtriple) : logentry :=
    log_nft C.BuiltInFunctionMultiESDTNFTTransfer (i_caller i) (rt_tok x) (rt_nonce x) [extra].

  Lemma multi_sender_loop_spec fuel : forall i dstLocal dst verify idx acc logs s lst lgs s',
    dst <> i_caller i ->
    multi_sender_loop E fuel i dstLocal dst verify idx acc logs s = (Ok (lst, lgs), s') ->
    (fuel <> O -> i_snd i = true /\ (2 + (idx + N.of_nat fuel) * 3 <= alen (i_args i))%N)
    /\ exists l, lst = rev acc ++ l
         /\ lgs = rev logs ++ map (multi_log i dst) (multi_triples fuel i 2 idx)
         /\ snd_steps (i_caller i) dst dstLocal verify (i_rae i) (multi_triples fuel i 2 idx) s s' l.
  Proof.
    induction fuel as [|f IH]; intros i dstLocal dst verify idx acc logs s lst lgs s' Hne H.
    - cbn [multi_sender_loop] in H. apply ret_ok in H as [H ->]. inversion H; subst.
      split; [intros Hx; contradiction|]. exists []. rewrite !app_nil_r. repeat split. constructor.
    - cbn [multi_sender_loop] in H. cbv zeta in H. change apt with 3%N in H.
      apply bind_ok in H as (tok & s0 & H0 & H). apply arg_ok in H0 as (Htok & _ & ->). apply nth_error_argn in Htok.
      apply bind_ok in H as (a1 & s0 & H0 & H). apply arg_ok in H0 as (Ha1 & _ & ->). apply nth_error_argn in Ha1.
      apply bind_ok in H as (a2 & s0 & H0 & H). apply arg_ok in H0 as (Ha2 & Hlt & ->). apply nth_error_argn in Ha2.
      apply bind_ok in H as (t2 & s1 & Hone & H).
      apply transfer_one_sender_spec in Hone as (Hsnd & t & Hpost); [|exact Hne].
      apply IH in H as (Hfuel & l & -> & -> & Hsteps); [|exact Hne].
      split.
      { intros _. split; [exact Hsnd|]. destruct f as [|f'].
        - lia.
        - destruct Hfuel as [_ Hf]; [discriminate|]. lia. }
      exists ((tok, t2) :: l). cbn [rev multi_triples map]. rewrite <- !app_assoc. cbn [app].
      subst tok a1 a2. split; [reflexivity|]. split; [reflexivity|].
      eapply (ss_cons _ _ _ _ _ (argn i (N.to_nat (2 + idx * 3)), argn i (N.to_nat (2 + idx * 3 + 1)), argn i (N.to_nat (2 + idx * 3 + 2))));
        [exact Hpost|exact Hsteps].
  Qed.

  (* ---- sums over the triples ---- *)
  Fixpoint snd_delta (caller dst : bytes) (dstLocal : bool) (trs : list rawtriple) (a k : bytes) : Z :=
    match trs with
    | [] => 0%Z
    | x :: r =>
      ((if (beqb a caller && beqb k (rt_cell x))%bool then - rt_qty x else 0)
       + (if (dstLocal && beqb a dst && beqb k (rt_cell x))%bool then rt_qty x else 0)
       + snd_delta caller dst dstLocal r a k)%Z
    end.
  Definition triples_consistent (s : mstate) (caller : bytes) (trs : list rawtriple) : Prop :=
    Forall (fun x => lookup_consistent E s caller (P ++ rt_tok x) (rt_nonce x)) trs.
  Definition nonneg_balances (s : mstate) (a : bytes) : Prop := forall k, (0 <= balance E s a k)%Z.

  (* consistency of later lookups survives a step *)
  Lemma one_snd_post_consistent caller dst dstLocal verify rae tok nonce q t s t2 s1 key' nonce' :
    dst <> caller ->
    one_snd_post caller dst dstLocal verify rae tok nonce q t s t2 s1 ->
    tok_nonce t = nonce ->
    lookup_consistent E s caller key' nonce' -> lookup_consistent E s1 caller key' nonce'.
  Proof.
    intros Hne Hp Hcons Hlc t' Ht'. destruct Hp. destruct os_debit0 as (s0 & D & _). destruct D.
    destruct (beqb_spec (nft_key key' nonce') (nft_key (P ++ tok) (tok_nonce t))) as [Heq|Hk].
    - rewrite Heq in Ht'. rewrite os_snd_tok_at0 in Ht'.
      destruct (val_or_0 t - q <=? 0)%Z; [discriminate|]. inversion Ht'; subst t'. rewrite tok_nonce_set_value.
      apply Hlc. rewrite Heq, Hcons. exact db_entry.
    - apply Hlc. rewrite <- Ht'. symmetry. apply (ue_tok_at E _ _ _ _ os_frame0). intros [? _]. contradiction.
  Qed.

  Lemma snd_delta_notin caller dst dstLocal trs a k :
    (forall y, In y trs -> rt_cell y <> k) -> snd_delta caller dst dstLocal trs a k = 0%Z.
  Proof.
    induction trs as [|x r IH]; intros H; [reflexivity|]. cbn [snd_delta].
    rewrite (beqb_false k (rt_cell x)) by (intros ->; apply (H x); [left; reflexivity|reflexivity]).
    rewrite !andb_false_r. rewrite IH; [lia|]. intros y Hy. apply H. right. exact Hy.
  Qed.
  Lemma snd_delta_other caller dst dstLocal trs a k : a <> caller -> (dstLocal = true -> a <> dst) ->
    snd_delta caller dst dstLocal trs a k = 0%Z.
  Proof.
    intros H1 H2. induction trs as [|x r IH]; [reflexivity|]. cbn [snd_delta]. rewrite IH.
    rewrite (beqb_false a caller H1). cbn [andb]. destruct dstLocal; cbn [andb]; [|lia].
    rewrite (beqb_false a dst (H2 eq_refl)). cbn [andb]. lia.
  Qed.

  (* facts about one element of the list of travelling entries *)
  Definition travel_ok (dstLocal : bool) (x : rawtriple) (y : bytes * token) : Prop :=
    fst y = rt_tok x /\ tok_nonce (snd y) = rt_nonce x /\ wf_token (snd y)
    /\ t_value (snd y) = Some (val_or_0 (snd y))
    /\ ((0 < rt_nonce x)%N -> t_meta (snd y) <> None) /\ (rt_nonce x = 0%N -> t_meta (snd y) = None)
    /\ (0 < rt_qty x)%Z /\ (dstLocal = false -> val_or_0 (snd y) = rt_qty x).

  Lemma snd_steps_spec caller dst dstLocal verify rae trs s s' lst :
    dst <> caller ->
    snd_steps caller dst dstLocal verify rae trs s s' lst ->
    triples_consistent s caller trs ->
    (dstLocal = true -> nonneg_balances s dst) ->
    (forall a k, balance E s' a k = (balance E s a k + snd_delta caller dst dstLocal trs a k)%Z)
    /\ Forall2 (travel_ok dstLocal) trs lst
    /\ (dstLocal = true -> nonneg_balances s' dst)
    /\ unchanged_except (fun a k => (a = caller \/ (dstLocal = true /\ a = dst)) /\ exists x, In x trs /\ k = rt_cell x)
         (fun _ => False) s s'
    /\ (forall x, In x trs -> (0 <= balance E s' caller (rt_cell x))%Z).
  Proof.
    intros Hne Hs. induction Hs as [s|x rest s s1 s' t t2 l Hp Hs IH]; intros Hcons Hnn.
    - split; [intros; cbn [snd_delta]; lia|]. split; [constructor|]. split; [assumption|].
      split; [apply unchanged_except_refl|]. intros x [].
    - inversion Hcons as [|x0 r0 Hx Hrest]; subst.
      assert (Hpp := Hp). destruct Hpp. destruct os_debit0 as (s0 & D & Hs0). destruct D.
      assert (Htn : tok_nonce t = rt_nonce x) by (apply Hx; exact db_entry).
      assert (Hfull : nft_key (P ++ rt_tok x) (tok_nonce t) = rt_cell x) by (unfold rt_cell; rewrite Htn; reflexivity).
      rewrite Hfull in *.
      assert (Hcons1 : triples_consistent s1 caller rest).
      { unfold triples_consistent in *. rewrite Forall_forall in *. intros y Hy.
        eapply one_snd_post_consistent; eauto. }
      assert (Hnn1 : dstLocal = true -> nonneg_balances s1 dst).
      { intros Hd k. destruct (beqb_spec k (rt_cell x)) as [->|Hk].
        - rewrite (os_dst_balance0 Hd). lia.
        - rewrite (ue_balance E _ _ _ _ os_frame0); [apply Hnn; exact Hd|]. intros [? _]. contradiction. }
      (* balance of every cell after this step *)
      assert (Hstep : forall a k, balance E s1 a k =
                (balance E s a k + ((if (beqb a caller && beqb k (rt_cell x))%bool then - rt_qty x else 0)
                                    + (if (dstLocal && beqb a dst && beqb k (rt_cell x))%bool then rt_qty x else 0)))%Z).
      { intros a k. destruct (beqb_spec k (rt_cell x)) as [->|Hk].
        - rewrite !andb_true_r. destruct (beqb_spec a caller) as [->|Ha].
          + rewrite (beqb_false caller dst) by congruence. rewrite andb_false_r.
            rewrite os_snd_balance0. unfold rt_cell. rewrite (balance_tok_at E _ _ _ _ db_entry). lia.
          + destruct dstLocal eqn:Ed; cbn [andb].
            * destruct (beqb_spec a dst) as [->|Hd].
              { rewrite (os_dst_balance0 eq_refl). pose proof (Hnn eq_refl (rt_cell x)). lia. }
              { rewrite (ue_balance E _ _ _ _ os_frame0); [lia|]. intros [_ [?|[_ ?]]]; contradiction. }
            * rewrite (ue_balance E _ _ _ _ os_frame0); [lia|]. intros [_ [?|[? _]]]; [contradiction|discriminate].
        - rewrite !andb_false_r. rewrite (ue_balance E _ _ _ _ os_frame0); [lia|]. intros [? _]. contradiction. }
      destruct (IH Hcons1 Hnn1) as (Hb & Hf2 & Hnn' & Hue' & Hpos').
      split; [intros a k; rewrite Hb, Hstep; cbn [snd_delta]; lia|].
      split.
      { constructor; [|exact Hf2]. unfold travel_ok. cbn [fst snd]. split; [reflexivity|].
        rewrite os_travel0, tok_nonce_set_value, t_meta_set_value.
        split; [exact Htn|]. split; [apply wf_set_value; exact db_wf|]. split; [reflexivity|].
        split; [intros Hn; destruct (db_meta_pos Hn) as (m & ->); discriminate|].
        split; [exact db_meta_0|]. split; [exact os_pos0|]. intros ->. apply val_or_0_set_value. }
      split; [exact Hnn'|].
      split.
      { eapply unchanged_except_trans.
        - eapply unchanged_except_weaken; [| |exact os_frame0]; [|auto]. intros a k [-> Ha]. split; [exact Ha|].
          exists x. split; [left; reflexivity|reflexivity].
        - eapply unchanged_except_weaken; [| |exact Hue']; [|auto]. intros a k [Ha (y & Hy & ->)]. split; [exact Ha|].
          exists y. split; [right; exact Hy|reflexivity]. }
      intros y [<-|Hy]; [|apply Hpos'; exact Hy].
      destruct (existsb (fun y => beqb (rt_cell y) (rt_cell x)) rest) eqn:Eex.
      + apply existsb_exists in Eex as (y & Hy & Hyk). apply beqb_true in Hyk. rewrite <- Hyk. apply Hpos'. exact Hy.
      + rewrite Hb. rewrite snd_delta_notin.
        * rewrite os_snd_balance0. lia.
        * intros y Hy Heq. assert (existsb (fun y => beqb (rt_cell y) (rt_cell x)) rest = true); [|congruence].
          apply existsb_exists. exists y. split; [exact Hy|]. apply beqb_true. exact Heq.
  Qed.

  (* ================================================================ *)
  (* sender side: the argument list of the emitted message              *)
  (* ================================================================ *)
  Fixpoint out_args_pure (l : list (bytes * token)) : list bytes :=
    match l with
    | [] => []
    | (tok, t) :: r =>
      (match t_meta t with
       | Some m => [tok; u64_bytes (md_nonce m); enc_tok (cdc E) t]
       | None => [tok; [x00]; Z_bytes (val_or_0 t)]
       end) ++ out_args_pure r
    end.
  Fixpoint out_gas_pure (l : list (bytes * token)) (g : N) : N :=
    match l with
    | [] => g
    | (tok, t) :: r =>
      match t_meta t with
      | Some _ => out_gas_pure r (sub64 g (mul64 (zlen (enc_tok (cdc E) t)) (g_DataCopyPerByte (gas E))))
      | None => out_gas_pure r g
      end
    end.
  Lemma out_args_pure_length l : length (out_args_pure l) = (3 * length l)%nat.
  Proof. induction l as [|[tok t] r IH]; [reflexivity|]. cbn [out_args_pure]. rewrite app_length, IH. destruct (t_meta t); simpl; lia. Qed.

  Lemma multi_out_args_spec l : forall o acc s args o' s',
    multi_out_args E l o acc s = (Ok (args, o'), s') ->
    args = acc ++ out_args_pure l
    /\ o' = set_gasrem o (out_gas_pure l (o_gasRemaining o))
    /\ silent s s' /\ allocs s' = allocs s
    /\ Forall (fun x => t_meta (snd x) = None -> t_value (snd x) <> None) l.
  Proof.
    induction l as [|[tok t] r IH]; intros o acc s args o' s' H.
    - cbn [multi_out_args] in H. apply ret_ok in H as [H ->]. inversion H; subst.
      rewrite app_nil_r. split; [reflexivity|]. split; [match goal with |- ?x = set_gasrem ?x _ => destruct x; reflexivity end|].
      split; [apply silent_refl|]. split; [reflexivity|constructor].
    - cbn [multi_out_args out_args_pure out_gas_pure] in *. destruct (t_meta t) as [m|] eqn:Em.
      + apply bind_ok in H as (b & s1 & H0 & H). apply marshal_tok_ok in H0 as [-> Hrd]. cbv zeta in H.
        apply bind_ok in H as (u & s2 & H0 & H). apply guard_ok in H0 as [_ ->].
        apply IH in H as (-> & -> & Hq & Hal & Hf).
        split; [rewrite <- app_assoc; reflexivity|]. split; [reflexivity|].
        split; [eapply silent_trans; [apply rd_silent; eauto|exact Hq]|].
        split; [rewrite Hal; apply (rd_allocs E _ _ Hrd)|].
        constructor; [cbn [snd]; congruence|exact Hf].
      + apply bind_ok in H as (v & s1 & H0 & H). apply val_of_ok in H0 as [Hv ->].
        apply IH in H as (-> & -> & Hq & Hal & Hf).
        assert (Hvo : val_or_0 t = v) by (unfold val_or_0; rewrite Hv; reflexivity). rewrite Hvo.
        split; [rewrite <- app_assoc; reflexivity|]. split; [reflexivity|].
        split; [exact Hq|]. split; [exact Hal|]. constructor; [cbn [snd]; congruence|exact Hf].
  Qed.

  (* ================================================================ *)
  (* sender side: the function                                          *)
  (* ================================================================ *)
  Definition multi_min (off n : N) : N := u64 (u64 (n * 3) + off).
  Definition multi_dst (i : input) : bytes := argn i 0.
  Definition multi_n_snd (i : input) : N := bigU64 (argn i 1).
  Definition multi_same (i : input) : bool := (self_shard E =? shard_of E (argn i 0))%N.
  Definition multi_snd_triples (i : input) : list rawtriple := multi_triples (N.to_nat (multi_n_snd i)) i 2 0.

  Definition multi_sender_out (i : input) (lst : list (bytes * token)) : output :=
    let n := multi_n_snd i in
    let total := mul64 n (g_ESDTNFTMultiTransfer (gas E)) in
    let dst := multi_dst i in
    let o0 := set_logs (mk_out rcOk (sub64 (i_gas i) total)) (map (multi_log i dst) (multi_snd_triples i)) in
    let o := set_gasrem o0 (out_gas_pure lst (sub64 (i_gas i) total)) in
    let minArgs := multi_min 2 n in
    let args' := (u64_bytes n :: out_args_pure lst) ++ skipn (N.to_nat minArgs) (i_args i) in
    let after := ((minArgs <? alen (i_args i))%N && is_sc dst)%bool in
    if negb (multi_same i) then
      add_nft_transfer (i_caller i) dst C.BuiltInFunctionMultiESDTNFTTransfer args' (i_gasLocked i)
        (if after then o_gasRemaining o else 0%N) (i_callType i) (if after then set_gasrem o 0 else o)
    else if after then
      add_output_transfer (i_caller i) (argn i (N.to_nat minArgs)) (skipn (N.to_nat (minArgs + 1)) (i_args i)) dst
        (i_gasLocked i) (i_callType i) o
    else o.

  Record multi_snd_post (i : input) (lst : list (bytes * token)) (s : mstate) (o : output) (s' : mstate) : Prop := {
    mp_dst_len : zlen (multi_dst i) = zlen (i_caller i);
    mp_dst_ne : multi_dst i <> i_caller i;
    mp_not_meta : shard_of E (multi_dst i) <> META;
    mp_n_pos : multi_n_snd i <> 0%N;
    mp_n_le : (multi_n_snd i <= alen (i_args i) / 3)%N;
    mp_min : (multi_min 2 (multi_n_snd i) <= alen (i_args i))%N;
    mp_len : (2 + multi_n_snd i * 3 <= alen (i_args i))%N;       (* every triple was actually read *)
    mp_gas : (mul64 (multi_n_snd i) (g_ESDTNFTMultiTransfer (gas E)) <= i_gas i)%N;
    mp_snd : i_snd i = true;
    mp_steps : exists s0 s1, silent s s0
       /\ snd_steps (i_caller i) (multi_dst i) (multi_same i) (must_verify_payable i (multi_min 2 (multi_n_snd i))) (i_rae i)
            (multi_snd_triples i) s0 s1 lst
       /\ silent s1 s';
    mp_out : o = multi_sender_out i lst }.

  Lemma multi_transfer_sender_spec i s o s' :
    f_multi_transfer_sender E i s = (Ok o, s') -> exists lst, multi_snd_post i lst s o s'.
  Proof.
    unfold f_multi_transfer_sender. cbv zeta. intros H. change apt with 3%N in H.
    apply bind_ok in H as (dst & s0 & H0 & H). apply arg_ok in H0 as (Hdst & _ & ->).
    change (N.to_nat 0) with 0%nat in Hdst. apply nth_error_argn in Hdst. subst dst.
    apply bind_ok in H as (u0 & s0 & H0 & H). apply guard_ok in H0 as [G1 ->].
    apply bind_ok in H as (u1 & s0 & H0 & H). apply guard_ok in H0 as [G2 ->].
    apply bind_ok in H as (u2 & s0 & H0 & H). apply guard_ok in H0 as [G3 ->].
    apply bind_ok in H as (a1 & s0 & H0 & H). apply arg_ok in H0 as (Ha1 & _ & ->).
    change (N.to_nat 1) with 1%nat in Ha1. apply nth_error_argn in Ha1. subst a1.
    fold (multi_n_snd i) in H. fold (multi_same i) in H. fold (multi_dst i) in *. fold (multi_min 2 (multi_n_snd i)) in H.
    apply bind_ok in H as (u3 & s0 & H0 & H). apply guard_ok in H0 as [G4 ->].
    apply bind_ok in H as (u4 & s0 & H0 & H). apply guard_ok in H0 as [G5 ->].
    apply bind_ok in H as (u5 & s0 & H0 & H). apply guard_ok in H0 as [G6 ->].
    apply bind_ok in H as (u6 & s0 & H0 & H). apply guard_ok in H0 as [G7 ->].
    apply bind_ok in H as (u7 & s1 & Hload & H).
    assert (Q1 : silent s s1).
    { destruct (multi_same i); [apply rd_silent; eapply load_account_ok; eauto|apply ret_ok in Hload as [_ ->]; apply silent_refl]. }
    clear Hload.
    apply bind_ok in H as (u8 & s2 & H0 & H). apply alloc_silent in H0.
    apply bind_ok in H as (u9 & s3 & H1 & H). apply alloc_silent in H1.
    apply bind_ok in H as (u10 & s4 & H2 & H). apply alloc_silent in H2.
    assert (Q4 : silent s s4) by (eauto using silent_trans). clear H0 H1 H2 Q1.
    apply bind_ok in H as ([lst lgs] & s5 & Hloop & H).
    assert (Hne : multi_dst i <> i_caller i).
    { intros Heq. rewrite Heq, beqb_refl in G2. discriminate. }
    apply multi_sender_loop_spec in Hloop as (Hfuel & l & -> & -> & Hsteps); [|exact Hne].
    cbn [rev app] in *.
    assert (Hnpos : multi_n_snd i <> 0%N).
    { intros Heq. rewrite Heq in G4. discriminate. }
    destruct Hfuel as [Hsnd Hlen]; [lia|]. rewrite N2Nat.id in Hlen.
    apply bind_ok in H as (u11 & s6 & Hsave & H).
    assert (Q6 : silent s5 s6).
    { destruct (multi_same i); [apply rd_silent; eapply save_account_ok; eauto|apply ret_ok in Hsave as [_ ->]; apply silent_refl]. }
    clear Hsave.
    apply bind_ok in H as (u12 & s7 & H0 & H). apply alloc_silent in H0.
    apply bind_ok in H as ([args' o1] & s8 & Hout & H).
    apply multi_out_args_spec in Hout as (-> & -> & Q8 & _ & _).
    assert (Q58 : silent s5 s8) by (eauto using silent_trans). clear Q6 H0 Q8.
    cbn [o_gasRemaining set_logs mk_out] in H.
    apply bind_ok in H as (rest & s9 & H0 & H).
    assert (Hrest : rest = skipn (N.to_nat (multi_min 2 (multi_n_snd i))) (i_args i) /\ s9 = s8).
    { destruct (multi_min 2 (multi_n_snd i) <? alen (i_args i))%N eqn:E4.
      - apply args_from_ok in H0 as (_ & -> & ->). auto.
      - apply ret_ok in H0 as [-> ->]. split; [|reflexivity]. symmetry. apply skipn_all2. unfold alen in *. lia. }
    destruct Hrest as [-> ->]. clear H0.
    exists l.
    assert (Hfin : s' = s8 /\ o = multi_sender_out i l).
    { unfold multi_sender_out. cbv zeta. fold (multi_snd_triples i) in H.
      destruct (negb (multi_same i)).
      - apply ret_ok in H as [-> ->]. split; reflexivity.
      - destruct ((multi_min 2 (multi_n_snd i) <? alen (i_args i))%N && is_sc (multi_dst i))%bool.
        + apply bind_ok in H as (fn & s10 & H1 & H). apply arg_ok in H1 as (Hfn & Hlt & ->).
          apply nth_error_argn in Hfn. subst fn.
          apply bind_ok in H as (callArgs & s10 & H1 & H).
          assert (Hca : callArgs = skipn (N.to_nat (multi_min 2 (multi_n_snd i) + 1)) (i_args i) /\ s10 = s8).
          { destruct (multi_min 2 (multi_n_snd i) + 1 <? alen (i_args i))%N eqn:E5.
            - apply args_from_ok in H1 as (_ & -> & ->). split; reflexivity.
            - apply ret_ok in H1 as [-> ->]. split; [|reflexivity]. symmetry. apply skipn_all2. unfold alen in *. lia. }
          destruct Hca as [-> ->]. apply ret_ok in H as [-> ->]. split; reflexivity.
        + apply ret_ok in H as [-> ->]. split; reflexivity. }
    destruct Hfin as [-> ->].
    constructor; try assumption.
    - apply N.eqb_eq. exact G1.
    - intros Heq. rewrite Heq, N.eqb_refl in G3. discriminate.
    - lia.
    - lia.
    - lia.
    - exists s4, s5. split; [exact Q4|]. split; [exact Hsteps|exact Q58].
    - reflexivity.
  Qed.

  (* ================================================================ *)
  (* destination side: one token                                        *)
  (* ================================================================ *)
  (* what one triple of a delivered message credits (same shape as WorldDefs.multi_credits) *)
  Definition rt_credit (x : rawtriple) : list (bytes * Z) :=
    if (0 <? rt_nonce x)%N then
      match dec_tok (cdc E) (rt_third x) with
      | Some t => match t_value t with
                  | Some v => [(nft_key (P ++ rt_tok x) (tok_nonce t), v)]
                  | None => []
                  end
      | None => []
      end
    else [(P ++ rt_tok x, bigZ (rt_third x))].
  Definition kv_sum (k : bytes) (l : list (bytes * Z)) : Z :=
    fold_right (fun kv acc => ((if beqb (fst kv) k then snd kv else 0) + acc)%Z) 0%Z l.
  Lemma kv_sum_app k l1 l2 : kv_sum k (l1 ++ l2) = (kv_sum k l1 + kv_sum k l2)%Z.
  Proof. induction l1 as [|x r IH]; simpl; [reflexivity|]. rewrite IH. lia. Qed.

  Record one_dst_post (rcpt : bytes) (verify rae : bool) (x : rawtriple) (s s' : mstate) : Prop := {
    od_payable : verify = true -> payable E rcpt = PayYes;
    od_nft : (0 < rt_nonce x)%N -> exists t,
       dec_tok (cdc E) (rt_third x) = Some t /\ wf_token t /\ t_value t = Some (val_or_0 t)
       /\ (forall cur, tok_at E s rcpt (nft_key (P ++ rt_tok x) (tok_nonce t)) = Some cur -> t_value cur <> None)
       /\ (forall cur cm, tok_at E s rcpt (nft_key (P ++ rt_tok x) (tok_nonce t)) = Some cur -> t_meta cur = Some cm ->
             exists m, t_meta t = Some m /\ md_hash cm = md_hash m)
       /\ (rae = false -> rcpt <> SC ->
             frozen_at E s rcpt (nft_key (P ++ rt_tok x) (tok_nonce t)) = false /\ frozen_props (t_props t) = false
             /\ paused_at s (P ++ rt_tok x) = false /\ paused_at s (nft_key (P ++ rt_tok x) (tok_nonce t)) = false)
       /\ tok_at E s' rcpt (nft_key (P ++ rt_tok x) (tok_nonce t)) =
            (if (val_or_0 t + balance E s rcpt (nft_key (P ++ rt_tok x) (tok_nonce t)) <=? 0)%Z then None
             else Some (set_value t (Some (val_or_0 t + balance E s rcpt (nft_key (P ++ rt_tok x) (tok_nonce t)))%Z)))
       /\ balance E s' rcpt (nft_key (P ++ rt_tok x) (tok_nonce t)) =
            Z.max 0 (val_or_0 t + balance E s rcpt (nft_key (P ++ rt_tok x) (tok_nonce t)))
       /\ unchanged_except (fun a k => a = rcpt /\ k = nft_key (P ++ rt_tok x) (tok_nonce t)) (fun _ => False) s s';
    od_fungible : rt_nonce x = 0%N ->
       balance E s' rcpt (P ++ rt_tok x) = (balance E s rcpt (P ++ rt_tok x) + bigZ (rt_third x))%Z
       /\ (exists t, tok_or_default E s rcpt (P ++ rt_tok x) = Some t /\ wf_token t /\ t_type t = C.Fungible /\ t_value t <> None
              /\ tok_at E s' rcpt (P ++ rt_tok x) =
                  (if ((balance E s rcpt (P ++ rt_tok x) + bigZ (rt_third x) =? 0)%Z && all_zero (t_props t))%bool then None
                   else Some (set_value t (Some (balance E s rcpt (P ++ rt_tok x) + bigZ (rt_third x))%Z))))
       /\ (rae = false -> rcpt <> SC -> frozen_at E s rcpt (P ++ rt_tok x) = false /\ paused_at s (P ++ rt_tok x) = false)
       /\ unchanged_except (fun a k => a = rcpt /\ k = P ++ rt_tok x) (fun _ => False) s s';
    od_touches : forall L, NoDup L -> In rcpt L -> touches L s s';
    od_nofault : nofault E s s';
    od_allocs : allocs s' = allocs s }.

  Lemma dest_step_spec i minArgs tok a1 third (A : list bytes) start s u s' :
    nth_error A (N.to_nat (start + 2)) = Some third ->
    (if (0 <? bigU64 a1)%N then
       payload <- arg A (start + 2) ;;
       t <- unmarshal_tok E payload ;;
       _ <- add_nft_to_destination E (i_rcpt i) (P ++ tok) t (must_verify_payable i minArgs) (i_rae i) ;; ret tt
     else
       check_payable E (must_verify_payable i minArgs) (i_rcpt i) ;;;
       a2 <- arg A (start + 2) ;;
       add_to_esdt_balance E (i_rcpt i) (P ++ tok) (bigZ a2) (i_rae i)) s = (Ok u, s') ->
    one_dst_post (i_rcpt i) (must_verify_payable i minArgs) (i_rae i) (tok, a1, third) s s'.
  Proof.
    intros Hth H. destruct (0 <? bigU64 a1)%N eqn:En.
    - apply bind_ok in H as (payload & s0 & H0 & H). apply arg_ok in H0 as (Hp & _ & ->).
      rewrite Hth in Hp. inversion Hp; subst payload.
      apply bind_ok in H as (t & s1 & H0 & H). apply unmarshal_tok_ok in H0 as [Hdec Hrd].
      assert (Hwf : wf_token t) by (eapply (dec_tok_wf _ Hc); eauto).
      apply bind_ok in H as (t' & s2 & Hadd & H). apply ret_ok in H as [_ ->].
      apply (antd_obs E Hc) in Hadd; [|exact Hwf]. cbv zeta in Hadd.
      rewrite (rd_balance E _ _ _ _ Hrd) in Hadd.
      destruct Hadd as (Av & _ & Apay & Aval & Ahash & Afl & _ & Atok & Abal & Aue & Atch & Anf & Aal).
      constructor.
      + exact Apay.
      + intros _. exists t. unfold rt_third, rt_tok. cbn [fst snd].
        split; [exact Hdec|]. split; [exact Hwf|].
        split; [unfold val_or_0; destruct (t_value t); [reflexivity|congruence]|].
        split; [intros cur Hcur; apply (Aval cur); rewrite (rd_tok_at E _ _ _ _ Hrd); exact Hcur|].
        split; [intros cur cm Hcur; apply (Ahash cur cm); rewrite (rd_tok_at E _ _ _ _ Hrd); exact Hcur|].
        split.
        { intros h1 h2. destruct (Afl h1 h2) as (F1 & F2 & P1 & P2).
          rewrite (rd_frozen_at E _ _ _ _ Hrd) in F1. rewrite (rd_paused_at E _ _ _ Hrd) in P1.
          rewrite (rd_paused_at E _ _ _ Hrd) in P2. auto. }
        split; [exact Atok|]. split; [exact Abal|].
        eapply unchanged_except_trans; [apply (rd_unchanged E _ _ _ _ Hrd)|exact Aue].
      + unfold rt_nonce. cbn [fst snd]. intros Hz. rewrite Hz in En. discriminate.
      + intros L HL Hin. eapply touches_trans; [eapply touches_rd; eauto|apply Atch; auto].
      + eapply nofault_trans; [eapply rd_nofault; eauto|exact Anf].
      + rewrite Aal. apply (rd_allocs E _ _ Hrd).
    - apply bind_ok in H as (u0 & s0 & H0 & H). apply check_payable_ok in H0 as [Hrd Hpay].
      apply bind_ok in H as (a2 & s1 & H0 & H). apply arg_ok in H0 as (Hp & _ & ->).
      rewrite Hth in Hp. inversion Hp; subst a2. destruct u.
      pose proof H as Hinv. apply (add_to_esdt_balance_inv E Hc) in Hinv as (t0 & v0 & _ & _ & _ & _ & _ & _ & Hw).
      apply (add_to_esdt_balance_ok E Hc) in H as (Hge & Hb & Hent & Hfl & Hue & Hnf).
      rewrite (rd_balance E _ _ _ _ Hrd) in *.
      constructor.
      + exact Hpay.
      + unfold rt_nonce. cbn [fst snd]. intros Hz. apply N.ltb_ge in En. lia.
      + intros _. unfold rt_third, rt_tok. cbn [fst snd].
        split; [exact Hb|]. split.
        { destruct Hent as (t & Ht1 & Ht2 & Ht3 & Ht4 & Ht5). exists t. rewrite (rd_tod E _ _ _ _ Hrd) in Ht1. auto. }
        split.
        { intros h1 h2. destruct (Hfl h1 h2) as [F Pz]. rewrite (rd_frozen_at E _ _ _ _ Hrd) in F.
          rewrite (rd_paused_at E _ _ _ Hrd) in Pz. auto. }
        eapply unchanged_except_trans; [apply (rd_unchanged E _ _ _ _ Hrd)|exact Hue].
      + intros L HL Hin. eapply touches_trans; [eapply touches_rd; eauto|eapply touches_wr; eauto].
      + eapply nofault_trans; [eapply rd_nofault; eauto|exact Hnf].
      + rewrite (wr_allocs E _ _ _ _ _ Hw). apply (rd_allocs E _ _ Hrd).
  Qed.

  (* ================================================================ *)
  (* destination side: the loop                                         *)
  (* ================================================================ *)
  Section DstLoop.
    Variables (rcpt : bytes) (verify rae : bool).
    Inductive dst_steps : list rawtriple -> mstate -> mstate -> Prop :=
    | ds_nil s : dst_steps [] s s
    | ds_cons x rest s s1 s' :
        one_dst_post rcpt verify rae x s s1 -> dst_steps rest s1 s' -> dst_steps (x :: rest) s s'.
  End DstLoop.

  Lemma multi_dest_loop_spec fuel : forall i minArgs idx logs s lgs s',
    multi_dest_loop E fuel i minArgs idx logs s = (Ok lgs, s') ->
    (fuel <> O -> (1 + (idx + N.of_nat fuel) * 3 <= alen (i_args i))%N)
    /\ lgs = rev logs ++ map (multi_log i (i_rcpt i)) (multi_triples fuel i 1 idx)
    /\ dst_steps (i_rcpt i) (must_verify_payable i minArgs) (i_rae i) (multi_triples fuel i 1 idx) s s'.
  Proof.
    induction fuel as [|f IH]; intros i minArgs idx logs s lgs s' H.
    - cbn [multi_dest_loop] in H. apply ret_ok in H as [-> ->].
      split; [intros Hx; contradiction|]. cbn [multi_triples map]. rewrite app_nil_r. split; [reflexivity|constructor].
    - cbn [multi_dest_loop] in H. cbv zeta in H. change apt with 3%N in H.
      apply bind_ok in H as (tok & s0 & H0 & H). apply arg_ok in H0 as (Htok & _ & ->). apply nth_error_argn in Htok.
      apply bind_ok in H as (a1 & s0 & H0 & H). apply arg_ok in H0 as (Ha1 & _ & ->). apply nth_error_argn in Ha1.
      apply bind_ok in H as (u & s1 & Hstep & H).
      assert (Hth : exists third, nth_error (i_args i) (N.to_nat (1 + idx * 3 + 2)) = Some third).
      { destruct (0 <? bigU64 a1)%N.
        - apply bind_ok in Hstep as (p & s2 & H0 & _). apply arg_ok in H0 as (Hp & _ & _). eauto.
        - apply bind_ok in Hstep as (u0 & s2 & _ & Hstep). apply bind_ok in Hstep as (p & s3 & H0 & _).
          apply arg_ok in H0 as (Hp & _ & _). eauto. }
      destruct Hth as (third & Hth).
      assert (Hlt : (1 + idx * 3 + 2 < alen (i_args i))%N).
      { assert (nth_error (i_args i) (N.to_nat (1 + idx * 3 + 2)) <> None) by congruence.
        apply nth_error_Some in H0. unfold alen. lia. }
      eapply dest_step_spec in Hstep; [|exact Hth]. apply nth_error_argn in Hth.
      apply IH in H as (Hfuel & -> & Hsteps).
      split.
      { intros _. destruct f as [|f']; [lia|]. specialize (Hfuel ltac:(discriminate)). lia. }
      cbn [rev multi_triples map]. rewrite <- !app_assoc. cbn [app]. subst tok a1 third.
      split; [reflexivity|].
      eapply ds_cons; [exact Hstep|exact Hsteps].
  Qed.

  (* ---- sums over the triples ---- *)
  Definition dst_credits (trs : list rawtriple) : list (bytes * Z) := concat (map rt_credit trs).
  Definition credits_nonneg (trs : list rawtriple) : Prop := Forall (fun kv => (0 <= snd kv)%Z) (dst_credits trs).

  Lemma dst_steps_spec rcpt verify rae trs s s' :
    dst_steps rcpt verify rae trs s s' ->
    nonneg_balances s rcpt -> credits_nonneg trs ->
    (forall a k, balance E s' a k = (balance E s a k + (if beqb a rcpt then kv_sum k (dst_credits trs) else 0))%Z)
    /\ nonneg_balances s' rcpt.
  Proof.
    intros Hs. induction Hs as [s|x rest s s1 s' Hp Hs IH]; intros Hnn Hcn.
    - split; [intros a k; unfold dst_credits; cbn [map concat kv_sum fold_right]; destruct (beqb a rcpt); lia|exact Hnn].
    - unfold credits_nonneg, dst_credits in Hcn. cbn [map concat] in Hcn. apply Forall_app in Hcn as [Hcx Hcr].
      assert (Hstep : (forall a k, balance E s1 a k = (balance E s a k + (if beqb a rcpt then kv_sum k (rt_credit x) else 0))%Z)
                      /\ nonneg_balances s1 rcpt).
      { destruct Hp. unfold rt_credit in *. destruct (0 <? rt_nonce x)%N eqn:En.
        - destruct od_nft0 as (t & Hdec & Hwf & Hv & _ & _ & _ & _ & Hb & Hue); [lia|].
          rewrite Hdec, Hv in *. inversion Hcx as [|kv l Hkv _]; subst. cbn [snd] in Hkv.
          pose proof (Hnn (nft_key (P ++ rt_tok x) (tok_nonce t))) as Hn0.
          split.
          + intros a k. cbn [kv_sum fold_right fst snd]. destruct (beqb_spec a rcpt) as [->|Ha].
            * destruct (beqb_spec (nft_key (P ++ rt_tok x) (tok_nonce t)) k) as [<-|Hk]; [rewrite Hb; lia|].
              rewrite (ue_balance E _ _ _ _ Hue); [lia|]. intros [_ ?]. congruence.
            * rewrite (ue_balance E _ _ _ _ Hue); [lia|]. intros [? _]. contradiction.
          + intros k. destruct (beqb_spec (nft_key (P ++ rt_tok x) (tok_nonce t)) k) as [<-|Hk]; [rewrite Hb; lia|].
            rewrite (ue_balance E _ _ _ _ Hue); [apply Hnn|]. intros [_ ?]. congruence.
        - destruct od_fungible0 as (Hb & _ & _ & Hue); [apply N.ltb_ge in En; lia|].
          split.
          + intros a k. cbn [kv_sum fold_right fst snd]. destruct (beqb_spec a rcpt) as [->|Ha].
            * destruct (beqb_spec (P ++ rt_tok x) k) as [<-|Hk]; [rewrite Hb; lia|].
              rewrite (ue_balance E _ _ _ _ Hue); [lia|]. intros [_ ?]. congruence.
            * rewrite (ue_balance E _ _ _ _ Hue); [lia|]. intros [? _]. contradiction.
          + intros k. destruct (beqb_spec (P ++ rt_tok x) k) as [<-|Hk].
            * rewrite Hb. pose proof (Hnn (P ++ rt_tok x)). pose proof (bigZ_nonneg (rt_third x)). lia.
            * rewrite (ue_balance E _ _ _ _ Hue); [apply Hnn|]. intros [_ ?]. congruence. }
      destruct Hstep as [Hb1 Hnn1]. destruct (IH Hnn1 Hcr) as [Hb Hnn'].
      split; [|exact Hnn'].
      intros a k. rewrite Hb, Hb1. unfold dst_credits. cbn [map concat]. rewrite kv_sum_app.
      destruct (beqb a rcpt); lia.
  Qed.

  (* ================================================================ *)
  (* destination side: the function                                     *)
  (* ================================================================ *)
  Definition multi_n_dst (i : input) : N := bigU64 (argn i 0).
  Definition multi_dst_triples (i : input) : list rawtriple := multi_triples (N.to_nat (multi_n_dst i)) i 1 0.
  Definition multi_dest_out (i : input) : output :=
    let n := multi_n_dst i in
    let minArgs := multi_min 1 n in
    let o := set_logs (mk_out rcOk (i_gas i)) (map (multi_log i (i_rcpt i)) (multi_dst_triples i)) in
    if ((minArgs <? alen (i_args i))%N && is_sc (i_rcpt i))%bool then
      add_output_transfer (i_caller i) (argn i (N.to_nat minArgs)) (skipn (N.to_nat (minArgs + 1)) (i_args i)) (i_rcpt i)
        (i_gasLocked i) (i_callType i) o
    else o.

  Record multi_dst_post (i : input) (s : mstate) (o : output) (s' : mstate) : Prop := {
    mq_snd : i_snd i = false;
    mq_dst : i_dst i = true;
    mq_n_pos : multi_n_dst i <> 0%N;
    mq_n_le : (multi_n_dst i <= alen (i_args i) / 3)%N;
    mq_min : (multi_min 1 (multi_n_dst i) <= alen (i_args i))%N;
    mq_len : (1 + multi_n_dst i * 3 <= alen (i_args i))%N;
    mq_steps : exists s0, silent s s0
       /\ dst_steps (i_rcpt i) (must_verify_payable i (multi_min 1 (multi_n_dst i))) (i_rae i) (multi_dst_triples i) s0 s';
    mq_out : o = multi_dest_out i }.

  Theorem multi_transfer_spec i s o s' : f_multi_transfer E i s = (Ok o, s') ->
    i_value i = 0%Z /\ (4 <= alen (i_args i))%N
    /\ (if beqb (i_caller i) (i_rcpt i) then exists lst, multi_snd_post i lst s o s'
        else multi_dst_post i s o s').
  Proof.
    unfold f_multi_transfer. cbv zeta. intros H. change apt with 3%N in H.
    apply bind_ok in H as (u0 & s0 & H0 & H). apply check_basic_ok in H0 as (Hv & _ & ->).
    apply bind_ok in H as (u1 & s0 & H0 & H). apply guard_ok in H0 as [Hn ->].
    split; [exact Hv|]. split; [lia|].
    destruct (beqb (i_caller i) (i_rcpt i)).
    { apply multi_transfer_sender_spec. exact H. }
    apply bind_ok in H as (u2 & s0 & H0 & H). apply guard_ok in H0 as [G1 ->].
    apply bind_ok in H as (u3 & s0 & H0 & H). apply guard_ok in H0 as [G2 ->].
    apply bind_ok in H as (a0 & s0 & H0 & H). apply arg_ok in H0 as (Ha0 & _ & ->).
    change (N.to_nat 0) with 0%nat in Ha0. apply nth_error_argn in Ha0. subst a0.
    fold (multi_n_dst i) in H. fold (multi_min 1 (multi_n_dst i)) in H.
    apply bind_ok in H as (u4 & s0 & H0 & H). apply guard_ok in H0 as [G3 ->].
    apply bind_ok in H as (u5 & s0 & H0 & H). apply guard_ok in H0 as [G4 ->].
    apply bind_ok in H as (u6 & s0 & H0 & H). apply guard_ok in H0 as [G5 ->].
    apply bind_ok in H as (u7 & s1 & H0 & H). apply alloc_silent in H0.
    apply bind_ok in H as (logs & s2 & Hloop & H).
    apply multi_dest_loop_spec in Hloop as (Hfuel & -> & Hsteps). cbn [rev app] in H.
    assert (Hnpos : multi_n_dst i <> 0%N).
    { intros Heq. rewrite Heq in G3. discriminate. }
    specialize (Hfuel ltac:(lia)). rewrite N2Nat.id in Hfuel.
    fold (multi_dst_triples i) in H, Hsteps.
    assert (Hfin : s' = s2 /\ o = multi_dest_out i).
    { unfold multi_dest_out. cbv zeta.
      destruct ((multi_min 1 (multi_n_dst i) <? alen (i_args i))%N && is_sc (i_rcpt i))%bool.
      - apply bind_ok in H as (fn & s10 & H1 & H). apply arg_ok in H1 as (Hfn & Hlt & ->).
        apply nth_error_argn in Hfn. subst fn.
        apply bind_ok in H as (callArgs & s10 & H1 & H).
        assert (Hca : callArgs = skipn (N.to_nat (multi_min 1 (multi_n_dst i) + 1)) (i_args i) /\ s10 = s2).
        { destruct (multi_min 1 (multi_n_dst i) + 1 <? alen (i_args i))%N eqn:E5.
          - apply args_from_ok in H1 as (_ & -> & ->). split; reflexivity.
          - apply ret_ok in H1 as [-> ->]. split; [|reflexivity]. symmetry. apply skipn_all2. unfold alen in *. lia. }
        destruct Hca as [-> ->]. apply ret_ok in H as [-> ->]. split; reflexivity.
      - apply ret_ok in H as [-> ->]. split; reflexivity. }
    destruct Hfin as [-> ->].
    constructor; try assumption.
    - destruct (i_snd i); [discriminate|reflexivity].
    - lia.
    - lia.
    - exists s1. split; assumption.
    - reflexivity.
  Qed.

  (* ================================================================ *)
  (* hypothesis-free facts about the chains: footprint, accounting, payability *)
  (* ================================================================ *)
  Lemma snd_steps_frame caller dst dstLocal verify rae trs s s' lst :
    snd_steps caller dst dstLocal verify rae trs s s' lst ->
    unchanged_except (fun a k => (a = caller \/ (dstLocal = true /\ a = dst))
                                 /\ exists x n, In x trs /\ k = nft_key (P ++ rt_tok x) n) (fun _ => False) s s'
    /\ (forall L, NoDup L -> In caller L -> (dstLocal = true -> In dst L) -> touches L s s')
    /\ nofault E s s' /\ allocs s' = allocs s
    /\ (trs <> [] -> dstLocal = true -> verify = true -> payable E dst = PayYes)
    /\ Forall (fun x => (0 < rt_qty x)%Z) trs
    /\ length lst = length trs.
  Proof.
    intros Hs. induction Hs as [s|x rest s s1 s' t t2 l Hp Hs IH].
    - split; [apply unchanged_except_refl|]. split; [intros; apply touches_refl|]. split; [apply nofault_refl|].
      split; [reflexivity|]. split; [intros Hx; contradiction|]. split; [constructor|reflexivity].
    - destruct IH as (U & T & Nf & Al & _ & Fq & Hl). destruct Hp.
      split.
      { eapply unchanged_except_trans.
        - eapply unchanged_except_weaken; [| |exact os_frame0]; [|auto]. intros a k [-> Ha]. split; [exact Ha|].
          exists x, (tok_nonce t). split; [left; reflexivity|reflexivity].
        - eapply unchanged_except_weaken; [| |exact U]; [|auto]. intros a k [Ha (y & n & Hy & ->)]. split; [exact Ha|].
          exists y, n. split; [right; exact Hy|reflexivity]. }
      split; [intros L HL H1 H2; eapply touches_trans; [apply os_touches0; auto|apply T; auto]|].
      split; [eapply nofault_trans; eauto|]. split; [congruence|].
      split; [intros _; exact os_dst_payable0|]. split; [constructor; assumption|]. cbn [length]. congruence.
  Qed.

  Lemma dst_steps_frame rcpt verify rae trs s s' :
    dst_steps rcpt verify rae trs s s' ->
    unchanged_except (fun a k => a = rcpt /\ exists x n, In x trs /\ k = nft_key (P ++ rt_tok x) n) (fun _ => False) s s'
    /\ (forall L, NoDup L -> In rcpt L -> touches L s s')
    /\ nofault E s s' /\ allocs s' = allocs s
    /\ (trs <> [] -> verify = true -> payable E rcpt = PayYes).
  Proof.
    intros Hs. induction Hs as [s|x rest s s1 s' Hp Hs IH].
    - split; [apply unchanged_except_refl|]. split; [intros; apply touches_refl|]. split; [apply nofault_refl|].
      split; [reflexivity|]. intros Hx; contradiction.
    - destruct IH as (U & T & Nf & Al & _). destruct Hp.
      split.
      { eapply unchanged_except_trans.
        - destruct (0 <? rt_nonce x)%N eqn:En.
          + destruct od_nft0 as (t & _ & _ & _ & _ & _ & _ & _ & _ & Hue); [lia|].
            eapply unchanged_except_weaken; [| |exact Hue]; [|auto]. intros a k [-> ->]. split; [reflexivity|].
            exists x, (tok_nonce t). split; [left; reflexivity|reflexivity].
          + destruct od_fungible0 as (_ & _ & _ & Hue); [apply N.ltb_ge in En; lia|].
            eapply unchanged_except_weaken; [| |exact Hue]; [|auto]. intros a k [-> ->]. split; [reflexivity|].
            exists x, 0%N. split; [left; reflexivity|]. symmetry. apply nft_key_0.
        - eapply unchanged_except_weaken; [| |exact U]; [|auto]. intros a k [Ha (y & n & Hy & ->)]. split; [exact Ha|].
          exists y, n. split; [right; exact Hy|reflexivity]. }
      split; [intros L HL H1; eapply touches_trans; [apply od_touches0; auto|apply T; auto]|].
      split; [eapply nofault_trans; eauto|]. split; [congruence|]. intros _. exact od_payable0.
  Qed.

  (* ================================================================ *)
  (* the chains in terms of the PRE-state: entries found, freeze and pause flags (C04, C08) *)
  (* ================================================================ *)
  (* the entries of holder a in s are those of s0 up to their Value (entries may have disappeared) *)
  Definition same_upto_value (a : bytes) (s0 s : mstate) : Prop :=
    forall k t', tok_at E s a k = Some t' -> exists t0, tok_at E s0 a k = Some t0 /\ t' = set_value t0 (t_value t').
  Lemma same_upto_value_refl a s : same_upto_value a s s.
  Proof. intros k t' H. exists t'. split; [exact H|destruct t'; reflexivity]. Qed.

  (* every travelling entry is the sender's PRE-state entry of that cell up to Value *)
  Lemma snd_steps_entries caller dst dstLocal verify rae trs s s' lst :
    dst <> caller ->
    snd_steps caller dst dstLocal verify rae trs s s' lst ->
    triples_consistent s caller trs ->
    forall s0, same_upto_value caller s0 s ->
    Forall2 (fun x y => exists t0, tok_at E s0 caller (rt_cell x) = Some t0
                          /\ snd y = set_value t0 (t_value (snd y))
                          /\ (rae = false -> caller <> SC -> frozen_props (t_props t0) = false)) trs lst
    /\ same_upto_value caller s0 s'.
  Proof.
    intros Hne Hs. induction Hs as [s|x rest s s1 s' t t2 l Hp Hs IH]; intros Hcons s0 Hinv.
    - split; [constructor|exact Hinv].
    - inversion Hcons as [|x0 r0 Hx Hrest]; subst.
      assert (Hpp := Hp). destruct Hpp. destruct os_debit0 as (s2 & D & Hs2). destruct D.
      assert (Htn : tok_nonce t = rt_nonce x) by (apply Hx; exact db_entry).
      assert (Hfull : nft_key (P ++ rt_tok x) (tok_nonce t) = rt_cell x) by (unfold rt_cell; rewrite Htn; reflexivity).
      rewrite Hfull in *.
      destruct (Hinv _ _ db_entry) as (t0 & Ht0 & Htt0). fold (rt_cell x) in Ht0.
      assert (Hcons1 : triples_consistent s1 caller rest).
      { unfold triples_consistent in *. rewrite Forall_forall in *. intros y Hy.
        eapply one_snd_post_consistent; eauto. }
      assert (Hinv1 : same_upto_value caller s0 s1).
      { intros k t' Ht'. destruct (beqb_spec k (rt_cell x)) as [->|Hk].
        - rewrite os_snd_tok_at0 in Ht'. destruct (val_or_0 t - rt_qty x <=? 0)%Z; [discriminate|].
          inversion Ht'; subst t'. exists t0. split; [exact Ht0|]. rewrite Htt0. reflexivity.
        - apply Hinv. rewrite <- Ht'. symmetry. apply (ue_tok_at E _ _ _ _ os_frame0). intros [? _]. contradiction. }
      destruct (IH Hcons1 s0 Hinv1) as [Hf Hinv'].
      split; [|exact Hinv'].
      constructor; [|exact Hf]. exists t0. cbn [snd]. split; [exact Ht0|]. split.
      + rewrite os_travel0, Htt0. reflexivity.
      + intros h1 h2. destruct (db_flags h1 h2) as (F & _). rewrite Htt0 in F. exact F.
  Qed.

  (* pause flags are read in the pre-state as long as the system account is not a party *)
  Lemma snd_steps_paused caller dst dstLocal verify trs s s' lst :
    snd_steps caller dst dstLocal verify false trs s s' lst ->
    caller <> SYS -> (dstLocal = true -> dst <> SYS) ->
    Forall (fun x => (caller <> SC -> paused_at s (P ++ rt_tok x) = false)
                     /\ (dstLocal = true -> dst <> SC -> paused_at s (P ++ rt_tok x) = false)) trs.
  Proof.
    intros Hs Hc1 Hc2. induction Hs as [s|x rest s s1 s' t t2 l Hp Hs IH]; [constructor|].
    destruct Hp. destruct os_debit0 as (s2 & D & _). destruct D.
    constructor.
    - split.
      + intros Hsc. destruct (db_flags eq_refl Hsc) as (_ & _ & P1 & _). exact P1.
      + intros Hd Hsc. destruct (os_dst_flags0 Hd eq_refl Hsc) as (_ & _ & P1 & _). exact P1.
    - eapply Forall_impl; [|exact IH]. intros y [H1 H2].
      assert (Hpa : forall k, paused_at s1 k = paused_at s k).
      { intros k. apply (ue_paused_at _ _ _ _ os_frame0). intros [_ [Hx|[Hd Hx]]]; [apply Hc1; auto|apply (Hc2 Hd); auto]. }
      split; [intros h; rewrite <- Hpa; auto|intros h1 h2; rewrite <- Hpa; auto].
  Qed.

  (* same shard: the destination's cells were not frozen in the pre-state *)
  Lemma snd_steps_dst_frozen caller dst verify trs s s' lst :
    dst <> caller -> dst <> SC ->
    snd_steps caller dst true verify false trs s s' lst ->
    triples_consistent s caller trs ->
    forall s0, (forall k, frozen_at E s0 dst k = true -> frozen_at E s dst k = true) ->
    Forall (fun x => frozen_at E s0 dst (rt_cell x) = false) trs.
  Proof.
    intros Hne Hsc Hs. induction Hs as [s|x rest s s1 s' t t2 l Hp Hs IH]; intros Hcons s0 Hinv; [constructor|].
    inversion Hcons as [|x0 r0 Hx Hrest]; subst.
    assert (Hpp := Hp). destruct Hpp. destruct os_debit0 as (s2 & D & _). destruct D.
    assert (Htn : tok_nonce t = rt_nonce x) by (apply Hx; exact db_entry).
    assert (Hfull : nft_key (P ++ rt_tok x) (tok_nonce t) = rt_cell x) by (unfold rt_cell; rewrite Htn; reflexivity).
    rewrite Hfull in *.
    destruct (os_dst_flags0 eq_refl eq_refl Hsc) as (F1 & _).
    assert (Hcons1 : triples_consistent s1 caller rest).
    { unfold triples_consistent in *. rewrite Forall_forall in *. intros y Hy.
      eapply one_snd_post_consistent; eauto. }
    constructor.
    - destruct (frozen_at E s0 dst (rt_cell x)) eqn:Ef; [|reflexivity]. rewrite (Hinv _ Ef) in F1. discriminate.
    - apply IH; [exact Hcons1|]. intros k Hk. specialize (Hinv k Hk).
      rewrite (ue_frozen_at E _ _ _ _ os_frame0); [exact Hinv|].
      intros [-> _]. rewrite F1 in Hinv. discriminate.
  Qed.

  (* destination side: flags of the credited cells in the pre-state *)
  Lemma dst_steps_flags rcpt verify trs s s' :
    rcpt <> SC -> rcpt <> SYS ->
    dst_steps rcpt verify false trs s s' ->
    forall s0, (forall k, frozen_at E s0 rcpt k = true -> frozen_at E s rcpt k = true) ->
    Forall (fun x => paused_at s (P ++ rt_tok x) = false
                     /\ forall kv, In kv (rt_credit x) -> frozen_at E s0 rcpt (fst kv) = false) trs.
  Proof.
    intros Hsc Hsys Hs. induction Hs as [s|x rest s s1 s' Hp Hs IH]; intros s0 Hinv; [constructor|].
    destruct Hp.
    (* the cell written by this step, its flags, and the frame *)
    assert (Hstep : exists cell, paused_at s (P ++ rt_tok x) = false /\ frozen_at E s rcpt cell = false
              /\ (forall kv, In kv (rt_credit x) -> fst kv = cell)
              /\ unchanged_except (fun a k => a = rcpt /\ k = cell) (fun _ => False) s s1).
    { unfold rt_credit. destruct (0 <? rt_nonce x)%N eqn:En.
      - destruct od_nft0 as (t & Hdec & _ & Hv & _ & _ & Hfl & _ & _ & Hue); [lia|].
        destruct (Hfl eq_refl Hsc) as (F1 & _ & P1 & _).
        exists (nft_key (P ++ rt_tok x) (tok_nonce t)). split; [exact P1|]. split; [exact F1|]. split; [|exact Hue].
        rewrite Hdec, Hv. intros kv [<-|[]]. reflexivity.
      - destruct od_fungible0 as (_ & _ & Hfl & Hue); [apply N.ltb_ge in En; lia|].
        destruct (Hfl eq_refl Hsc) as (F1 & P1).
        exists (P ++ rt_tok x). split; [exact P1|]. split; [exact F1|]. split; [|exact Hue].
        intros kv [<-|[]]. reflexivity. }
    destruct Hstep as (cell & P1 & F1 & Hkv & Hue).
    constructor.
    - split; [exact P1|]. intros kv Hin. rewrite (Hkv kv Hin).
      destruct (frozen_at E s0 rcpt cell) eqn:Ef; [|reflexivity]. rewrite (Hinv _ Ef) in F1. discriminate.
    - assert (IH' : Forall (fun x => paused_at s1 (P ++ rt_tok x) = false
                     /\ forall kv, In kv (rt_credit x) -> frozen_at E s0 rcpt (fst kv) = false) rest).
      { apply IH. intros k Hk. specialize (Hinv k Hk).
        rewrite (ue_frozen_at E _ _ _ _ Hue); [exact Hinv|]. intros [_ ->]. rewrite F1 in Hinv. discriminate. }
      eapply Forall_impl; [|exact IH']. intros y [H1 H2]. split; [|exact H2].
      rewrite <- H1. symmetry. apply (ue_paused_at _ _ _ _ Hue). intros [Hx _]. apply Hsys. auto.
  Qed.
End Multi.
