(* C10, part 3: the ESDT-transfer parser (Parsers/EsdtTransferParser.v, marshaller := dec_tok (cdc E)) agrees with
   the ledger.  For every ACCEPTED call of ESDTTransfer / ESDTNFTTransfer / MultiESDTNFTTransfer the parser's
   report on the call's own (sender address, receiver address, function, arguments) is Ok r and
     - pt_rcv r            = the account the ledger credits (on this shard or through the emitted message),
     - report_moves r      = the list of (storage key, quantity) the ledger moves: [ledger_moved] says that the
                             balance of EVERY cell (a, k) changes by exactly - / + the reported quantities,
     - pt_call_function r, pt_call_args r = the attached call at the index the ledger forwards from
                             ([attached_index], C10_Emit.v).
   Hypotheses (all explained where they are introduced): F4b [lookup_consistent] for sender-side NFT lookups,
   F12 [be_to_N count < 2^64], [go_slice_len] (a Go slice), non-negative stored balances of a same-shard
   destination ([save_nft] clamps), faithful payloads on the destination side (as the sender side emits them). *)
From Coq.Strings Require Import String.
From Coq Require Import Lia.
From EV Require Import Base.Bytes Base.Store Base.Monad gen.Consts Codec.Types Helpers.Helpers
  Parsers.Tokenize Parsers.TokenizeProofs Parsers.EsdtTransferParser Parsers.EsdtTransferParserProofs
  Ledger.Types Ledger.Env Ledger.Funcs Ledger.Transfers Ledger.World
  LedgerProofs.Defs LedgerProofs.EnvSpec LedgerProofs.WorldDefs
  LedgerProofs.Spec_Transfers_Base LedgerProofs.Spec_Transfers_Esdt LedgerProofs.Spec_Transfers_Nft
  LedgerProofs.Spec_Transfers_Multi LedgerProofs.Spec_Transfers LedgerProofs.C10_Emit.

(* ---- what a report says was moved ---- *)
Definition et_cell (t : esdt_transfer) : bytes := nft_key (P ++ et_token t) (et_nonce t).
Definition et_move (t : esdt_transfer) : bytes * Z := (et_cell t, et_value t).
Definition report_moves (r : parsed_transfers) : list (bytes * Z) := map et_move (pt_transfers r).

(* ---- what the ledger moved between s and s': every cell of every account ---- *)
Definition side_delta (x : option bytes) (a k : bytes) (mv : list (bytes * Z)) : Z :=
  match x with Some y => if beqb a y then qty_list k mv else 0%Z | None => 0%Z end.
Definition ledger_moved (E : env) (s s' : mstate) (from to : option bytes) (mv : list (bytes * Z)) : Prop :=
  forall a k, balance E s' a k = (balance E s a k - side_delta from a k mv + side_delta to a k mv)%Z.

(* ---- Go slice primitives on the argument list ---- *)
Lemma gidx_argn i k : (k < alen (i_args i))%N -> gidx (i_args i) k = Ok (argn i (N.to_nat k)).
Proof.
  intros H. unfold gidx. change (glen (i_args i)) with (alen (i_args i)).
  replace (k <? alen (i_args i))%N with true by lia.
  rewrite argn_nth_error by lia. reflexivity.
Qed.
Lemma gslice_argn i k : (k <= alen (i_args i))%N -> gslice_from (i_args i) k = Ok (skipn (N.to_nat k) (i_args i)).
Proof. intros H. unfold gslice_from. change (glen (i_args i)) with (alen (i_args i)). replace (k <=? alen (i_args i))%N with true by lia. reflexivity. Qed.
Lemma c10_skipn_skipn {A} m : forall n (l : list A), skipn n (skipn m l) = skipn (m + n) l.
Proof.
  induction m as [|m IH]; intros n l; [reflexivity|]. destruct l as [|x r]; cbn [skipn plus].
  - destruct n; reflexivity.
  - apply IH.
Qed.
Lemma skipn_past {A} (l : list A) n : (length l <= n)%nat -> skipn n l = [].
Proof. apply skipn_all2. Qed.

(* the attached call as the parser reads it, at index k *)
Definition call_fn_at (i : input) (k : N) : bytes := if (k <? alen (i_args i))%N then argn i (N.to_nat k) else [].
Lemma parser_call_fn i k :
  (if (k <? glen (i_args i))%N then gidx (i_args i) k else Ok []) = Ok (call_fn_at i k).
Proof.
  unfold call_fn_at. change (glen (i_args i)) with (alen (i_args i)).
  destruct (k <? alen (i_args i))%N eqn:Ek; [apply gidx_argn; lia|reflexivity].
Qed.
Lemma parser_call_args i k :
  (if (k + 1 <? glen (i_args i))%N then gslice_from (i_args i) (k + 1) else Ok []) = Ok (skipn (N.to_nat (k + 1)) (i_args i)).
Proof.
  change (glen (i_args i)) with (alen (i_args i)).
  destruct (k + 1 <? alen (i_args i))%N eqn:Ek; [apply gslice_argn; lia|].
  rewrite skipn_past; [reflexivity|]. unfold alen in Ek. lia.
Qed.
Lemma attached_reported i k fn args : attached_at i k fn args ->
  call_fn_at i k = fn /\ skipn (N.to_nat (k + 1)) (i_args i) = args.
Proof.
  intros [H1 H2]. split; [|symmetry; exact H2]. unfold call_fn_at.
  assert (Hk : (k < alen (i_args i))%N).
  { unfold alen. assert (N.to_nat k < length (i_args i))%nat; [|lia]. apply nth_error_Some. congruence. }
  replace (k <? alen (i_args i))%N with true by lia. apply nth_error_argn. exact H1.
Qed.

Lemma qty_list_one k c v : qty_list k [(c, v)] = if beqb c k then v else 0%Z.
Proof. unfold qty_list. cbn [fold_right fst snd]. destruct (beqb c k); lia. Qed.

Section Parser.
  Variable E : env.
  Hypothesis Hc : codec_ok (cdc E).
  Notation dec := (dec_tok (cdc E)).

  (* ================================================================ *)
  (* ESDTTransfer: every presence case (origin side, destination side, same shard)                      *)
  (* ================================================================ *)
  Definition esdt_report (i : input) : parsed_transfers :=
    {| pt_transfers := [ {| et_value := esdt_val i; et_token := argn i 0; et_type := u32 C.Fungible; et_nonce := 0 |} ];
       pt_rcv := i_rcpt i; pt_call_args := skipn 3 (i_args i); pt_call_function := call_fn_at i 2 |}.

  Lemma parse_esdt_accepts snd i : (2 <= alen (i_args i))%N ->
    parse_esdt_transfers dec snd (i_rcpt i) C.BuiltInFunctionESDTTransfer (i_args i) = Ok (esdt_report i).
  Proof.
    intros Hn. unfold parse_esdt_transfers. rewrite beqb_refl. unfold parse_single_esdt_transfer. pconsts.
    change (glen (i_args i) <? 2)%N with (alen (i_args i) <? 2)%N. replace (alen (i_args i) <? 2)%N with false by lia.
    rewrite (parser_call_fn i 2). cbn [rbind]. rewrite (parser_call_args i 2). cbn [rbind].
    rewrite (gidx_argn i 1), (gidx_argn i 0) by lia. cbn [rbind]. reflexivity.
  Qed.

  Theorem parser_agrees_esdt i s o s' :
    f_esdt_transfer E i s = (Ok o, s') ->
    exists r,
      parse_esdt_transfers dec (i_caller i) (i_rcpt i) C.BuiltInFunctionESDTTransfer (i_args i) = Ok r
      /\ r = esdt_report i
      /\ report_moves r = [(esdt_key i, esdt_val i)]
      /\ ledger_moved E s s' (if i_snd i then Some (i_caller i) else None)
                             (if i_dst i then Some (pt_rcv r) else None) (report_moves r)
      /\ (forall k fn args, attached_index C.BuiltInFunctionESDTTransfer i = Some k -> attached_at i k fn args ->
            pt_call_function r = fn /\ pt_call_args r = args).
  Proof.
    intros H. pose proof (esdt_transfer_spec E Hc _ _ _ _ H) as Hp. destruct Hp.
    exists (esdt_report i). split; [apply parse_esdt_accepts; exact ep_nargs|]. split; [reflexivity|].
    assert (Hm : report_moves (esdt_report i) = [(esdt_key i, esdt_val i)]).
    { unfold report_moves, esdt_report, et_move, et_cell. cbn [map pt_transfers et_token et_nonce et_value].
      rewrite nft_key_0. reflexivity. }
    split; [exact Hm|]. split.
    - rewrite Hm. intros a k. rewrite ep_balance. unfold esdt_delta, side_delta. cbn [pt_rcv esdt_report].
      rewrite qty_list_one. rewrite (beqb_sym (esdt_key i) k).
      destruct (i_snd i), (i_dst i); cbn [andb]; repeat match goal with |- context [beqb a ?x] => destruct (beqb a x) end;
        cbn [andb]; destruct (beqb k (esdt_key i)); lia.
    - intros k fn args Hk Ha. unfold attached_index in Hk. rewrite beqb_refl in Hk. inversion Hk; subst k.
      apply attached_reported in Ha. exact Ha.
  Qed.

  (* ================================================================ *)
  (* ESDTNFTTransfer, sender side                                                                        *)
  (* ================================================================ *)
  Definition nft_report (i : input) (rcv : bytes) : parsed_transfers :=
    {| pt_transfers := [ {| et_value := nft_qty i; et_token := argn i 0; et_type := u32 C.NonFungible; et_nonce := nft_nonce i |} ];
       pt_rcv := rcv; pt_call_args := skipn 5 (i_args i); pt_call_function := call_fn_at i 4 |}.

  Lemma parse_nft_accepts i : (4 <= alen (i_args i))%N ->
    parse_esdt_transfers dec (i_caller i) (i_rcpt i) C.BuiltInFunctionESDTNFTTransfer (i_args i)
    = Ok (nft_report i (if beqb (i_caller i) (i_rcpt i) then nft_dst i else i_rcpt i)).
  Proof.
    intros Hn. unfold parse_esdt_transfers. rewrite fn_nft_ne_esdt, beqb_refl.
    unfold parse_single_esdt_nft_transfer. pconsts.
    change (glen (i_args i) <? 4)%N with (alen (i_args i) <? 4)%N. replace (alen (i_args i) <? 4)%N with false by lia.
    assert (Hr : (if beqb (i_caller i) (i_rcpt i) then gidx (i_args i) 3 else Ok (i_rcpt i))
                 = Ok (if beqb (i_caller i) (i_rcpt i) then nft_dst i else i_rcpt i)).
    { destruct (beqb (i_caller i) (i_rcpt i)); [apply (gidx_argn i 3); lia|reflexivity]. }
    rewrite Hr. cbn [rbind]. rewrite (parser_call_fn i 4). cbn [rbind]. rewrite (parser_call_args i 4). cbn [rbind].
    rewrite (gidx_argn i 2), (gidx_argn i 0), (gidx_argn i 1) by lia. cbn [rbind]. reflexivity.
  Qed.

  Lemma nft_report_moves i rcv : report_moves (nft_report i rcv) = [(nft_cell i, nft_qty i)].
  Proof. reflexivity. Qed.

  Lemma nft_attached i rcv k fn args :
    attached_index C.BuiltInFunctionESDTNFTTransfer i = Some k -> attached_at i k fn args ->
    pt_call_function (nft_report i rcv) = fn /\ pt_call_args (nft_report i rcv) = args.
  Proof.
    intros Hk Ha. unfold attached_index in Hk. rewrite fn_nft_ne_esdt, beqb_refl in Hk. inversion Hk; subst k.
    apply attached_reported in Ha. exact Ha.
  Qed.

  (* F4b: [lookup_consistent] - the entry found under (token id, requested nonce) carries that nonce;
     a same-shard destination holds a non-negative stored balance under the cell ([save_nft] clamps at 0). *)
  Theorem parser_agrees_sender_nft i s o s' :
    f_nft_transfer E i s = (Ok o, s') -> i_caller i = i_rcpt i ->
    lookup_consistent E s (i_caller i) (nft_tkey i) (nft_nonce i) ->
    (nft_same E i = true -> (0 <= balance E s (nft_dst i) (nft_cell i))%Z) ->
    exists r,
      parse_esdt_transfers dec (i_caller i) (i_rcpt i) C.BuiltInFunctionESDTNFTTransfer (i_args i) = Ok r
      /\ r = nft_report i (nft_dst i)
      /\ report_moves r = [(nft_cell i, nft_qty i)]
      /\ ledger_moved E s s' (Some (i_caller i)) (if nft_same E i then Some (pt_rcv r) else None) (report_moves r)
      /\ (forall k fn args, attached_index C.BuiltInFunctionESDTNFTTransfer i = Some k -> attached_at i k fn args ->
            pt_call_function r = fn /\ pt_call_args r = args).
  Proof.
    intros H Heq Hlc Hnn.
    pose proof (nft_transfer_spec E Hc _ _ _ _ H) as (_ & Hlen & _).
    pose proof (transfer_balance_effect_nft_sender E Hc _ _ _ _ H Heq Hlc Hnn) as Hb.
    exists (nft_report i (nft_dst i)). split.
    { rewrite parse_nft_accepts by exact Hlen. rewrite Heq, beqb_refl. reflexivity. }
    split; [reflexivity|]. split; [apply nft_report_moves|]. split.
    - rewrite nft_report_moves. intros a k. rewrite Hb. unfold nft_snd_delta, side_delta. cbn [pt_rcv nft_report].
      rewrite qty_list_one, (beqb_sym (nft_cell i) k).
      destruct (nft_same E i); cbn [andb]; repeat match goal with |- context [beqb a ?x] => destruct (beqb a x) end;
        cbn [andb]; destruct (beqb k (nft_cell i)); lia.
    - intros k fn args. apply nft_attached.
  Qed.

  (* without F4b's hypothesis: the report is the REQUESTED triple; the entry the ledger finds under the reported
     cell is debited by exactly the reported value (in the cell that entry's own metadata nonce names) *)
  Theorem parser_agrees_sender_nft_requested i s o s' :
    f_nft_transfer E i s = (Ok o, s') -> i_caller i = i_rcpt i ->
    exists r t tr,
      parse_esdt_transfers dec (i_caller i) (i_rcpt i) C.BuiltInFunctionESDTNFTTransfer (i_args i) = Ok r
      /\ pt_rcv r = nft_dst i /\ pt_transfers r = [tr]
      /\ tok_at E s (i_caller i) (et_cell tr) = Some t
      /\ (et_value tr <= val_or_0 t)%Z
      /\ balance E s' (i_caller i) (nft_full i t) = (val_or_0 t - et_value tr)%Z.
  Proof.
    intros H Heq. pose proof (nft_transfer_spec E Hc _ _ _ _ H) as (_ & Hlen & _).
    destruct (nft_sender_post E Hc _ _ _ _ H Heq) as (t & Hp). destruct Hp.
    destruct ns_debit as (s1 & Hd & _). destruct Hd.
    eexists _, t, _. split.
    { rewrite parse_nft_accepts by exact Hlen. rewrite Heq, beqb_refl. reflexivity. }
    cbn [pt_rcv pt_transfers nft_report]. split; [reflexivity|]. split; [reflexivity|].
    unfold et_cell. cbn [et_token et_nonce et_value]. split; [exact db_entry|]. split; [exact db_funds|exact ns_snd_balance].
  Qed.

  (* ================================================================ *)
  (* ESDTNFTTransfer, destination side                                                                   *)
  (* ================================================================ *)
  (* The parser reports argument 1 (nonce) and argument 2 (quantity) of the message; the ledger credits the
     payload's Value under the payload's metadata nonce.  They agree when the payload is FAITHFUL to the three
     leading arguments - which is how the sender side builds the message ([emitted_nft_payload_faithful]). *)
  Definition nft_payload_faithful (i : input) : Prop :=
    forall t, dec (argn i 3) = Some t -> tok_nonce t = nft_nonce i /\ val_or_0 t = nft_qty i.

  Theorem parser_agrees_dest_nft i s o s' :
    f_nft_transfer E i s = (Ok o, s') -> i_caller i <> i_rcpt i ->
    nft_payload_faithful i ->
    (0 <= balance E s (i_rcpt i) (nft_cell i))%Z ->
    exists r,
      parse_esdt_transfers dec (i_caller i) (i_rcpt i) C.BuiltInFunctionESDTNFTTransfer (i_args i) = Ok r
      /\ r = nft_report i (i_rcpt i)
      /\ report_moves r = [(nft_cell i, nft_qty i)]
      /\ ledger_moved E s s' None (Some (pt_rcv r)) (report_moves r)
      /\ (forall k fn args, attached_index C.BuiltInFunctionESDTNFTTransfer i = Some k -> attached_at i k fn args ->
            pt_call_function r = fn /\ pt_call_args r = args).
  Proof.
    intros H Hne Hf Hnn.
    pose proof (nft_transfer_spec E Hc _ _ _ _ H) as (_ & Hlen & _).
    destruct (transfer_balance_effect_nft_dest E Hc _ _ _ _ H Hne) as (t & Hdec & _ & Hb).
    destruct (Hf t Hdec) as [Hn Hv].
    assert (Hfull : nft_full i t = nft_cell i) by (unfold nft_full, nft_cell; rewrite Hn; reflexivity).
    rewrite Hfull, Hv in Hb. pose proof (bigZ_nonneg (argn i 2)) as Hq. fold (nft_qty i) in Hq.
    specialize (Hb ltac:(lia)).
    exists (nft_report i (i_rcpt i)). split.
    { rewrite parse_nft_accepts by exact Hlen. rewrite (beqb_false _ _ Hne). reflexivity. }
    split; [reflexivity|]. split; [apply nft_report_moves|]. split.
    - rewrite nft_report_moves. intros a k. rewrite Hb. unfold side_delta. cbn [pt_rcv nft_report].
      rewrite qty_list_one, (beqb_sym (nft_cell i) k).
      destruct (beqb a (i_rcpt i)); cbn [andb]; destruct (beqb k (nft_cell i)); lia.
    - intros k fn args. apply nft_attached.
  Qed.

  (* the message a cross-shard sender side emits is faithful (under F4b's hypothesis), reports the same triple at the
     destination as at the origin, and names the same cell and quantity *)
  Theorem emitted_nft_payload_faithful i s o s' :
    f_nft_transfer E i s = (Ok o, s') -> i_caller i = i_rcpt i -> nft_same E i = false ->
    lookup_consistent E s (i_caller i) (nft_tkey i) (nft_nonce i) ->
    exists args' t,
      o_accounts o = [{| oc_addr := nft_dst i; oc_delta := 0; oc_transfers := [t] |}]
      /\ tr_data t = msg_data C.BuiltInFunctionESDTNFTTransfer args'
      /\ forall i', i_args i' = args' ->
           nft_payload_faithful i' /\ nft_cell i' = nft_cell i /\ nft_qty i' = nft_qty i
           /\ pt_transfers (nft_report i' (i_rcpt i')) = pt_transfers (nft_report i (nft_dst i))
           /\ pt_call_function (nft_report i' (i_rcpt i')) = pt_call_function (nft_report i (nft_dst i))
           /\ pt_call_args (nft_report i' (i_rcpt i')) = pt_call_args (nft_report i (nft_dst i)).
  Proof.
    intros H Heq Hs Hlc.
    pose proof (nft_transfer_spec E Hc _ _ _ _ H) as (_ & Hlen & _).
    destruct (nft_out_accounts_cross E Hc _ _ _ _ H Heq Hs) as (t & Hent & Hwf & _ & Ho). cbv zeta in Ho.
    eexists _, _. split; [exact Ho|]. split; [reflexivity|].
    intros i' Hi'.
    assert (A0 : argn i' 0 = argn i 0) by (unfold argn at 1; rewrite Hi'; reflexivity).
    assert (A1 : argn i' 1 = argn i 1) by (unfold argn at 1; rewrite Hi'; reflexivity).
    assert (A2 : argn i' 2 = argn i 2) by (unfold argn at 1; rewrite Hi'; reflexivity).
    assert (A3 : argn i' 3 = enc_tok (cdc E) (set_value t (Some (nft_qty i)))) by (unfold argn at 1; rewrite Hi'; reflexivity).
    assert (Hsk : forall n, skipn (4 + n) (i_args i') = skipn (4 + n) (i_args i)).
    { intros n. rewrite Hi'. cbn [app skipn plus].
      destruct (i_args i) as [|a0 [|a1 [|a2 [|a3 r]]]]; try reflexivity; destruct n; reflexivity. }
    assert (Hal : alen (i_args i') = alen (i_args i)).
    { rewrite Hi'. unfold alen. cbn [app length]. rewrite skipn_length. unfold alen in Hlen. lia. }
    assert (A4 : argn i' 4 = argn i 4).
    { unfold argn at 1. rewrite Hi'. cbn [app nth]. unfold argn.
      destruct (i_args i) as [|a0 [|a1 [|a2 [|a3 r]]]]; reflexivity. }
    split.
    { intros t' Hd. rewrite A3 in Hd. rewrite (dec_enc_tok _ Hc) in Hd by (apply wf_set_value; exact Hwf).
      inversion Hd; subst t'. rewrite tok_nonce_set_value. unfold nft_nonce, nft_qty. rewrite A1, A2. split.
      - apply Hlc. exact Hent.
      - reflexivity. }
    unfold nft_cell, nft_tkey, nft_nonce, nft_qty, nft_report, call_fn_at. cbn [pt_transfers pt_call_function pt_call_args].
    change (N.to_nat 4) with 4%nat. unfold nft_qty, nft_nonce. rewrite A0, A1, A2, A4, Hal. change 5%nat with (4 + 1)%nat. rewrite (Hsk 1%nat). repeat split; reflexivity.
  Qed.

  (* ================================================================ *)
  (* MultiESDTNFTTransfer: the parser's loop as a map over the raw triples                              *)
  (* ================================================================ *)
  Definition et_of_triple (at_sender : bool) (x : rawtriple) : pres esdt_transfer :=
    if (0 <? rt_nonce x)%N then
      if negb at_sender then
        match dec (rt_third x) with
        | None => Err ErrUnmarshal
        | Some t =>
          match t_value t with
          | None => Err ErrNotEnoughArguments
          | Some v => Ok {| et_value := v; et_token := rt_tok x; et_type := u32 C.NonFungible; et_nonce := rt_nonce x |}
          end
        end
      else Ok {| et_value := rt_qty x; et_token := rt_tok x; et_type := u32 C.NonFungible; et_nonce := rt_nonce x |}
    else Ok {| et_value := rt_qty x; et_token := rt_tok x; et_type := u32 C.Fungible; et_nonce := rt_nonce x |}.
  Fixpoint parse_triples (at_sender : bool) (trs : list rawtriple) : pres (list esdt_transfer) :=
    match trs with
    | [] => Ok []
    | x :: r => t <-! et_of_triple at_sender x ;; l <-! parse_triples at_sender r ;; Ok (t :: l)
    end.

  Lemma create_new_spec i tsi at_sender : go_slice_len (i_args i) -> (tsi + 2 < alen (i_args i))%N ->
    create_new_esdt_transfer dec tsi (i_args i) at_sender
    = et_of_triple at_sender (argn i (N.to_nat tsi), argn i (N.to_nat (tsi + 1)), argn i (N.to_nat (tsi + 2))).
  Proof.
    unfold go_slice_len. change (glen (i_args i)) with (alen (i_args i)). intros HL Ht.
    unfold create_new_esdt_transfer.
    assert (E2 : u64 (tsi + 2) = (tsi + 2)%N) by (unfold u64; apply N.mod_small; lia).
    assert (E1 : u64 (tsi + 1) = (tsi + 1)%N) by (unfold u64; apply N.mod_small; lia).
    rewrite E1, E2. rewrite (gidx_argn i (tsi + 2)), (gidx_argn i tsi), (gidx_argn i (tsi + 1)) by lia. cbn [rbind].
    unfold et_of_triple, rt_nonce, rt_third, rt_tok, rt_qty. cbn [fst snd].
    change (set_bytes_u64 (argn i (N.to_nat (tsi + 1)))) with (bigU64 (argn i (N.to_nat (tsi + 1)))).
    change (set_bytes (argn i (N.to_nat (tsi + 2)))) with (bigZ (argn i (N.to_nat (tsi + 2)))).
    destruct (0 <? bigU64 (argn i (N.to_nat (tsi + 1))))%N; [|reflexivity].
    destruct (negb at_sender); reflexivity.
  Qed.

  Lemma multi_loop_spec i start at_sender num : go_slice_len (i_args i) -> (3 * num + start <= alen (i_args i))%N ->
    forall fuel idx acc, (idx <= num)%N -> (N.to_nat (num - idx) < fuel)%nat ->
    multi_loop dec fuel num start (i_args i) at_sender idx acc
    = (l <-! parse_triples at_sender (multi_triples (N.to_nat (num - idx)) i start idx) ;; Ok (acc ++ l)).
  Proof.
    intros HL Hn. pose proof HL as HL'. unfold go_slice_len in HL'. change (glen (i_args i)) with (alen (i_args i)) in HL'.
    induction fuel as [|f IH]; intros idx acc Hi Hf; [exfalso; lia|].
    cbn [multi_loop]. pconsts. destruct (idx <? num)%N eqn:Ei.
    - assert (Eu : u64 (start + u64 (idx * 3)) = (start + idx * 3)%N).
      { unfold u64. rewrite (N.mod_small (idx * 3)) by lia. apply N.mod_small. lia. }
      assert (Eu' : u64 (idx + 1) = (idx + 1)%N) by (unfold u64; apply N.mod_small; lia).
      rewrite Eu, Eu'. rewrite create_new_spec by (try exact HL; lia).
      replace (N.to_nat (num - idx)) with (S (N.to_nat (num - (idx + 1)))) by lia.
      cbn [multi_triples parse_triples].
      destruct (et_of_triple at_sender _) as [t| |]; cbn [rbind]; [|reflexivity|reflexivity].
      rewrite IH by lia.
      destruct (parse_triples at_sender _) as [l| |]; cbn [rbind]; [|reflexivity|reflexivity].
      rewrite <- app_assoc. reflexivity.
    - replace (N.to_nat (num - idx)) with 0%nat by lia. cbn [multi_triples parse_triples rbind]. rewrite app_nil_r. reflexivity.
  Qed.

  (* the whole multi parser on an accepted count: [num] < 2^64 is the decoded count, off = 2 (sender) / 1 (destination) *)
  Lemma parse_multi_accepts i at_sender (off num : N) rcv' (side_ok :
      (a0 <-! gidx (i_args i) 0 ;;
       (if beqb (i_caller i) (i_rcpt i) then
          r <-! gidx (i_args i) 0 ;; a1 <-! gidx (i_args i) 1 ;; Ok (r, be_to_N a1, 2%N, true)
        else Ok (i_rcpt i, be_to_N a0, 1%N, false))) = Ok (rcv', num, off, at_sender)) :
    go_slice_len (i_args i) -> (4 <= alen (i_args i))%N -> (num < two64)%N -> (off <= 2)%N ->
    (off + num * 3 <= alen (i_args i))%N ->
    parse_esdt_transfers dec (i_caller i) (i_rcpt i) C.BuiltInFunctionMultiESDTNFTTransfer (i_args i)
    = (l <-! parse_triples at_sender (multi_triples (N.to_nat num) i off 0) ;;
       Ok {| pt_transfers := l; pt_rcv := rcv'; pt_call_args := skipn (N.to_nat (multi_min off num + 1)) (i_args i);
             pt_call_function := call_fn_at i (multi_min off num) |}).
  Proof.
    intros HL H4 Hn Hoff Hlen. pose proof HL as HL'. unfold go_slice_len in HL'. change (glen (i_args i)) with (alen (i_args i)) in HL'.
    unfold parse_esdt_transfers. rewrite fn_multi_ne_esdt, fn_multi_ne_nft, beqb_refl.
    unfold parse_multi_esdt_nft_transfer. pconsts.
    change (glen (i_args i)) with (alen (i_args i)). replace (alen (i_args i) <? 4)%N with false by lia.
    rewrite (gidx_argn i 0) in * by lia. cbn [rbind] in *.
    rewrite side_ok. cbn [rbind].
    assert (En : u64 num = num) by (unfold u64; apply N.mod_small; unfold two64 in Hn; lia).
    rewrite En. replace (num <? two64)%N with true by lia. cbn [negb orb].
    assert (Hq : (num <= alen (i_args i) / 3)%N).
    { apply N.div_le_lower_bound; lia. }
    replace (alen (i_args i) / 3 <? num)%N with false by lia.
    assert (Em : u64 (u64 (3 * num) + off) = (off + num * 3)%N).
    { unfold u64. rewrite (N.mod_small (3 * num)) by lia. rewrite N.mod_small by lia. lia. }
    assert (Emm : multi_min off num = (off + num * 3)%N).
    { unfold multi_min, u64. rewrite (N.mod_small (num * 3)) by lia. rewrite N.mod_small by lia. lia. }
    rewrite Em, Emm. replace (alen (i_args i) <? off + num * 3)%N with false by lia.
    assert (Em1 : u64 (off + num * 3 + 1) = (off + num * 3 + 1)%N) by (unfold u64; apply N.mod_small; lia).
    rewrite Em1.
    change (alen (i_args i)) with (glen (i_args i)).
    rewrite (parser_call_fn i (off + num * 3)). cbn [rbind]. rewrite (parser_call_args i (off + num * 3)). cbn [rbind].
    unfold go_make_transfers. change (glen (i_args i)) with (alen (i_args i)).
    replace (num <=? alen (i_args i))%N with true by lia. cbn [rbind].
    rewrite multi_loop_spec; [|exact HL|lia|lia|unfold alen in *; lia].
    rewrite N.sub_0_r.
    destruct (parse_triples at_sender _) as [l| |]; cbn [rbind]; reflexivity.
  Qed.

  (* ---- sender side: the parser never fails on the triples and reports the requested ones ---- *)
  Definition et_snd (x : rawtriple) : esdt_transfer :=
    {| et_value := rt_qty x; et_token := rt_tok x;
       et_type := if (0 <? rt_nonce x)%N then u32 C.NonFungible else u32 C.Fungible; et_nonce := rt_nonce x |}.
  Lemma parse_triples_sender trs : parse_triples true trs = Ok (map et_snd trs).
  Proof.
    induction trs as [|x r IH]; [reflexivity|]. cbn [parse_triples map]. rewrite IH.
    unfold et_of_triple, et_snd. cbn [negb]. destruct (0 <? rt_nonce x)%N; reflexivity.
  Qed.
  Lemma moves_sender trs : map et_move (map et_snd trs) = debit_list trs.
  Proof. unfold debit_list. rewrite map_map. reflexivity. Qed.

  Definition multi_report_snd (i : input) : parsed_transfers :=
    {| pt_transfers := map et_snd (multi_snd_triples i); pt_rcv := multi_dst i;
       pt_call_args := skipn (N.to_nat (multi_min 2 (multi_n_snd i) + 1)) (i_args i);
       pt_call_function := call_fn_at i (multi_min 2 (multi_n_snd i)) |}.

  (* F12: the parser requires the count to BE a uint64, the ledger reads its low 64 bits *)
  Lemma parse_multi_sender i : go_slice_len (i_args i) -> i_caller i = i_rcpt i ->
    (4 <= alen (i_args i))%N -> (be_to_N (argn i 1) < two64)%N -> (2 + multi_n_snd i * 3 <= alen (i_args i))%N ->
    parse_esdt_transfers dec (i_caller i) (i_rcpt i) C.BuiltInFunctionMultiESDTNFTTransfer (i_args i)
    = Ok (multi_report_snd i).
  Proof.
    intros HL Heq H4 H12 Hlen.
    assert (Hn : multi_n_snd i = be_to_N (argn i 1)).
    { unfold multi_n_snd, bigU64, u64. apply N.mod_small. unfold two64 in H12. exact H12. }
    rewrite (parse_multi_accepts i true 2 (multi_n_snd i) (multi_dst i)); try assumption; try lia.
    - fold (multi_snd_triples i). rewrite parse_triples_sender. cbn [rbind]. reflexivity.
    - rewrite Heq, beqb_refl. rewrite (gidx_argn i 0), (gidx_argn i 1) by lia. cbn [rbind]. rewrite Hn. reflexivity.
  Qed.

  Lemma side_delta_snd_delta caller dst same trs a k : dst <> caller ->
    snd_delta caller dst same trs a k
    = (- side_delta (Some caller) a k (debit_list trs) + side_delta (if same then Some dst else None) a k (debit_list trs))%Z.
  Proof.
    intros Hne. unfold side_delta.
    destruct (beqb_spec a caller) as [->|Ha].
    - rewrite snd_delta_caller by exact Hne. destruct same; [|lia].
      rewrite (beqb_false caller dst) by congruence. lia.
    - destruct same.
      + destruct (beqb_spec a dst) as [->|Hd].
        * rewrite snd_delta_dst by exact Hne. lia.
        * rewrite snd_delta_other; [lia|exact Ha|intros _; exact Hd].
      + rewrite snd_delta_other; [lia|exact Ha|discriminate].
  Qed.

  Theorem parser_agrees_sender_multi i s o s' :
    f_multi_transfer E i s = (Ok o, s') -> i_caller i = i_rcpt i ->
    go_slice_len (i_args i) ->
    (be_to_N (argn i 1) < two64)%N ->                                              (* F12 *)
    triples_consistent E s (i_caller i) (multi_snd_triples i) ->                   (* F4b *)
    (multi_same E i = true -> nonneg_balances E s (multi_dst i)) ->
    exists r,
      parse_esdt_transfers dec (i_caller i) (i_rcpt i) C.BuiltInFunctionMultiESDTNFTTransfer (i_args i) = Ok r
      /\ r = multi_report_snd i
      /\ report_moves r = debit_list (multi_snd_triples i)
      /\ ledger_moved E s s' (Some (i_caller i)) (if multi_same E i then Some (pt_rcv r) else None) (report_moves r)
      /\ (forall k fn args, attached_index C.BuiltInFunctionMultiESDTNFTTransfer i = Some k -> attached_at i k fn args ->
            pt_call_function r = fn /\ pt_call_args r = args).
  Proof.
    intros H Heq HL H12 Hcons Hnn.
    pose proof (multi_transfer_spec E Hc _ _ _ _ H) as (_ & H4 & _).
    destruct (multi_sender_post E Hc _ _ _ _ H Heq) as (lst & Hp).
    pose proof (transfer_balance_effect_multi_sender E Hc _ _ _ _ H Heq Hcons Hnn) as Hb.
    exists (multi_report_snd i). split.
    { apply parse_multi_sender; try assumption. exact (mp_len E _ _ _ _ _ Hp). }
    split; [reflexivity|].
    assert (Hm : report_moves (multi_report_snd i) = debit_list (multi_snd_triples i)) by apply moves_sender.
    split; [exact Hm|]. split.
    - rewrite Hm. intros a k. rewrite Hb. rewrite side_delta_snd_delta by exact (mp_dst_ne E _ _ _ _ _ Hp).
      cbn [pt_rcv multi_report_snd]. lia.
    - intros k fn args Hk Ha. unfold attached_index in Hk. rewrite fn_multi_ne_esdt, fn_multi_ne_nft, beqb_refl in Hk.
      rewrite Heq, beqb_refl in Hk. inversion Hk; subst k. apply attached_reported in Ha. exact Ha.
  Qed.

  (* ================================================================ *)
  (* MultiESDTNFTTransfer, destination side                                                              *)
  (* ================================================================ *)
  (* For an NFT triple the parser reports the ARGUMENT nonce and the payload's Value; the ledger credits the
     payload's Value under the payload's METADATA nonce.  Faithful = the two nonces coincide (always true of the
     messages a sender side emits, which writes the metadata nonce into the argument: [emitted_multi_faithful]). *)
  Definition multi_faithful (trs : list rawtriple) : Prop :=
    Forall (fun x => (0 < rt_nonce x)%N -> forall t, dec (rt_third x) = Some t -> tok_nonce t = rt_nonce x) trs.

  Definition et_dst (x : rawtriple) : esdt_transfer :=
    if (0 <? rt_nonce x)%N then
      {| et_value := match dec (rt_third x) with Some t => val_or_0 t | None => 0%Z end;
         et_token := rt_tok x; et_type := u32 C.NonFungible; et_nonce := rt_nonce x |}
    else {| et_value := rt_qty x; et_token := rt_tok x; et_type := u32 C.Fungible; et_nonce := rt_nonce x |}.

  Lemma dst_steps_parse rcpt verify rae trs s s' : dst_steps E rcpt verify rae trs s s' ->
    parse_triples false trs = Ok (map et_dst trs)
    /\ (multi_faithful trs -> map et_move (map et_dst trs) = dst_credits E trs).
  Proof.
    induction 1 as [s|x rest s s1 s' Hp Hs IH]; [split; reflexivity|].
    destruct IH as [IH1 IH2]. destruct Hp.
    assert (Hx : et_of_triple false x = Ok (et_dst x)
                 /\ (((0 < rt_nonce x)%N -> forall t, dec (rt_third x) = Some t -> tok_nonce t = rt_nonce x) ->
                     [et_move (et_dst x)] = rt_credit E x)).
    { unfold et_of_triple, et_dst, rt_credit. cbn [negb]. destruct (0 <? rt_nonce x)%N eqn:En.
      - destruct od_nft as (t & Hdec & _ & Hv & _); [lia|]. rewrite Hdec, Hv. split; [reflexivity|].
        intros Hf. unfold et_move, et_cell. cbn [et_token et_nonce et_value]. rewrite (Hf ltac:(lia) t eq_refl). reflexivity.
      - split; [reflexivity|]. intros _. unfold et_move, et_cell. cbn [et_token et_nonce et_value].
        assert (Hz : rt_nonce x = 0%N) by lia. rewrite Hz, nft_key_0. reflexivity. }
    destruct Hx as [Hx1 Hx2]. split.
    - cbn [parse_triples map]. rewrite Hx1. cbn [rbind]. rewrite IH1. reflexivity.
    - intros Hf. inversion Hf as [|y l Hy Hl]; subst. unfold dst_credits. cbn [map concat].
      fold (dst_credits E rest). rewrite <- (IH2 Hl), <- (Hx2 Hy). reflexivity.
  Qed.

  Definition multi_report_dst (i : input) : parsed_transfers :=
    {| pt_transfers := map et_dst (multi_dst_triples i); pt_rcv := i_rcpt i;
       pt_call_args := skipn (N.to_nat (multi_min 1 (multi_n_dst i) + 1)) (i_args i);
       pt_call_function := call_fn_at i (multi_min 1 (multi_n_dst i)) |}.

  Theorem parser_agrees_dest_multi i s o s' :
    f_multi_transfer E i s = (Ok o, s') -> i_caller i <> i_rcpt i ->
    go_slice_len (i_args i) ->
    (be_to_N (argn i 0) < two64)%N ->                                   (* F12; emitted counts are u64_bytes n *)
    multi_faithful (multi_dst_triples i) ->
    nonneg_balances E s (i_rcpt i) -> credits_nonneg E (multi_dst_triples i) ->
    exists r,
      parse_esdt_transfers dec (i_caller i) (i_rcpt i) C.BuiltInFunctionMultiESDTNFTTransfer (i_args i) = Ok r
      /\ r = multi_report_dst i
      /\ report_moves r = dst_credits E (multi_dst_triples i)
      /\ ledger_moved E s s' None (Some (pt_rcv r)) (report_moves r)
      /\ (forall k fn args, attached_index C.BuiltInFunctionMultiESDTNFTTransfer i = Some k -> attached_at i k fn args ->
            pt_call_function r = fn /\ pt_call_args r = args).
  Proof.
    intros H Hne HL H12 Hf Hnn Hcn.
    pose proof (multi_transfer_spec E Hc _ _ _ _ H) as (_ & H4 & _).
    pose proof (multi_dest_post E Hc _ _ _ _ H Hne) as Hp.
    destruct (transfer_balance_effect_multi_dest E Hc _ _ _ _ H Hne Hnn Hcn) as [Hb _].
    destruct Hp. destruct mq_steps as (s0 & _ & Hsteps).
    destruct (dst_steps_parse _ _ _ _ _ _ Hsteps) as [Hparse Hmoves]. specialize (Hmoves Hf).
    assert (Hn : multi_n_dst i = be_to_N (argn i 0)).
    { unfold multi_n_dst, bigU64, u64. apply N.mod_small. unfold two64 in H12. exact H12. }
    exists (multi_report_dst i). split.
    { rewrite (parse_multi_accepts i false 1 (multi_n_dst i) (i_rcpt i)); try assumption; try lia.
      - fold (multi_dst_triples i). rewrite Hparse. cbn [rbind]. reflexivity.
      - rewrite (beqb_false _ _ Hne). rewrite (gidx_argn i 0) by lia. cbn [rbind]. rewrite Hn. reflexivity. }
    split; [reflexivity|]. split; [exact Hmoves|]. split.
    - unfold report_moves. cbn [pt_transfers pt_rcv multi_report_dst]. rewrite Hmoves. intros a k. rewrite Hb.
      unfold side_delta. rewrite kv_sum_qty_list. destruct (beqb a (i_rcpt i)); lia.
    - intros k fn args Hk Ha. unfold attached_index in Hk. rewrite fn_multi_ne_esdt, fn_multi_ne_nft, beqb_refl in Hk.
      rewrite (beqb_false _ _ Hne) in Hk. inversion Hk; subst k. apply attached_reported in Ha. exact Ha.
  Qed.

  (* ---- the message a cross-shard sender side emits is faithful, whatever the lookups found ---- *)
  Definition raw_of (p : bytes * token) : rawtriple :=
    match t_meta (snd p) with
    | Some m => (fst p, u64_bytes (md_nonce m), enc_tok (cdc E) (snd p))
    | None => (fst p, [x00], Z_bytes (val_or_0 (snd p)))
    end.
  Lemma out_args_pure_cons p r :
    out_args_pure E (p :: r) = [fst (fst (raw_of p)); snd (fst (raw_of p)); snd (raw_of p)] ++ out_args_pure E r.
  Proof. destruct p as [tok t]. cbn [out_args_pure]. unfold raw_of. cbn [fst snd]. destruct (t_meta t); reflexivity. Qed.

  Lemma multi_triples_out_args i' : forall lst pre rest idx,
    i_args i' = pre ++ out_args_pure E lst ++ rest -> length pre = (1 + 3 * idx)%nat ->
    multi_triples (length lst) i' 1 (N.of_nat idx) = map raw_of lst.
  Proof.
    induction lst as [|p r IH]; intros pre rest idx Hargs Hpre; [reflexivity|].
    cbn [length multi_triples map]. rewrite out_args_pure_cons in Hargs.
    assert (K0 : N.to_nat (1 + N.of_nat idx * 3) = (length pre + 0)%nat) by lia.
    assert (K1 : N.to_nat (1 + N.of_nat idx * 3 + 1) = (length pre + 1)%nat) by lia.
    assert (K2 : N.to_nat (1 + N.of_nat idx * 3 + 2) = (length pre + 2)%nat) by lia.
    unfold argn. rewrite K0, K1, K2, Hargs. rewrite !app_nth2_plus. cbn [app nth].
    f_equal; [destruct (raw_of p) as [[a b] c]; reflexivity|].
    replace (N.of_nat idx + 1)%N with (N.of_nat (S idx)) by lia.
    apply (IH (pre ++ [fst (fst (raw_of p)); snd (fst (raw_of p)); snd (raw_of p)]) rest).
    - rewrite Hargs, <- !app_assoc. reflexivity.
    - rewrite app_length, Hpre. cbn [length]. lia.
  Qed.

  Lemma raw_of_faithful lst : Forall (fun p => wf_token (snd p)) lst -> multi_faithful (map raw_of lst).
  Proof.
    induction 1 as [|p r Hw _ IH]; [constructor|]. cbn [map]. constructor; [|exact IH].
    unfold raw_of, rt_nonce, rt_third. destruct (t_meta (snd p)) as [m|] eqn:Em; cbn [fst snd].
    - intros _ t Hd. rewrite (dec_enc_tok _ Hc _ Hw) in Hd. inversion Hd; subst t.
      rewrite bigU64_u64_bytes. pose proof (tok_nonce_lt _ Hw) as Hlt. unfold tok_nonce in *. rewrite Em in *.
      symmetry. apply u64_small. exact Hlt.
    - intros Hpos. vm_compute in Hpos. discriminate.
  Qed.

  Lemma snd_steps_wf caller dst dl verify rae trs s s' lst : snd_steps E caller dst dl verify rae trs s s' lst ->
    length lst = length trs /\ Forall (fun p => wf_token (snd p)) lst.
  Proof.
    induction 1 as [s|x rest s s1 s' t t2 l Hp Hs IH]; [split; [reflexivity|constructor]|].
    destruct IH as [IH1 IH2]. split; [cbn [length]; rewrite IH1; reflexivity|].
    constructor; [|exact IH2]. cbn [snd]. destruct Hp. destruct os_debit as (s2 & D & _). destruct D.
    rewrite os_travel. apply wf_set_value. exact db_wf.
  Qed.

  Lemma emitted_multi_faithful_args i lst s o s' : multi_snd_post E i lst s o s' ->
    forall i', i_args i' = (u64_bytes (multi_n_snd i) :: out_args_pure E lst)
                            ++ skipn (N.to_nat (multi_min 2 (multi_n_snd i))) (i_args i) ->
      (be_to_N (argn i' 0) < two64)%N /\ multi_n_dst i' = multi_n_snd i
      /\ multi_faithful (multi_dst_triples i') /\ length lst = N.to_nat (multi_n_snd i).
  Proof.
    intros Hp i' Hi'. destruct Hp. destruct mp_steps as (s0 & s1 & _ & Hsteps & _).
    destruct (snd_steps_wf _ _ _ _ _ _ _ _ _ Hsteps) as [Hlen Hwf].
    unfold multi_snd_triples in Hlen. rewrite multi_triples_length in Hlen.
    pose proof (bigU64_lt (argn i 1)) as Hn. fold (multi_n_snd i) in Hn.
    assert (A0 : argn i' 0 = u64_bytes (multi_n_snd i)) by (unfold argn; rewrite Hi'; reflexivity).
    assert (B0 : be_to_N (argn i' 0) = multi_n_snd i) by (rewrite A0; unfold u64_bytes; apply be_to_N_to_be).
    assert (N0 : multi_n_dst i' = multi_n_snd i).
    { unfold multi_n_dst. rewrite A0, bigU64_u64_bytes. apply u64_small. exact Hn. }
    split; [rewrite B0; exact Hn|]. split; [exact N0|]. split; [|exact Hlen].
    unfold multi_dst_triples. rewrite N0, <- Hlen. change 0%N with (N.of_nat 0).
    rewrite (multi_triples_out_args i' lst [u64_bytes (multi_n_snd i)] (skipn (N.to_nat (multi_min 2 (multi_n_snd i))) (i_args i)) 0).
    - apply raw_of_faithful. exact Hwf.
    - rewrite Hi'. cbn [app]. reflexivity.
    - reflexivity.
  Qed.

  Theorem emitted_multi_faithful i s o s' :
    f_multi_transfer E i s = (Ok o, s') -> i_caller i = i_rcpt i -> multi_same E i = false ->
    exists args' t,
      o_accounts o = [{| oc_addr := multi_dst i; oc_delta := 0; oc_transfers := [t] |}]
      /\ tr_data t = msg_data C.BuiltInFunctionMultiESDTNFTTransfer args'
      /\ forall i', i_args i' = args' ->
           (be_to_N (argn i' 0) < two64)%N /\ multi_n_dst i' = multi_n_snd i
           /\ multi_faithful (multi_dst_triples i').
  Proof.
    intros H Heq Hs. destruct (multi_sender_post E Hc _ _ _ _ H Heq) as (lst & Hp).
    pose proof (multi_out_accounts_cross E _ _ _ _ _ Hp Hs) as Ho. cbv zeta in Ho.
    eexists _, _. split; [exact Ho|]. split; [reflexivity|].
    intros i' Hi'. destruct (emitted_multi_faithful_args _ _ _ _ _ Hp i' Hi') as (H1 & H2 & H3 & _). auto.
  Qed.

  (* the forwarded call is the reported call: every emitted data string of an accepted transfer call is either the
     function's own continuation or msg_data of the parser's (call function, call arguments) *)
  Theorem forwarded_call_is_reported f i s o s' r :
    exec E f i s = (Ok o, s') ->
    (forall k fn args, attached_index f i = Some k -> attached_at i k fn args ->
       pt_call_function r = fn /\ pt_call_args r = args) ->
    forall oa t, In oa (o_accounts o) -> In t (oc_transfers oa) -> tr_data t <> [] ->
    (continuation_name f = true /\ exists args, tr_data t = msg_data f args)
    \/ tr_data t = msg_data (pt_call_function r) (pt_call_args r).
  Proof.
    intros H Hr oa t Hoa Ht Hne.
    destruct (emitted_data_parses_back E Hc _ _ _ _ _ H oa t Hoa Ht Hne) as (fn & args & Hd & _ & [(-> & Hcn & _)|(k & Hk & Ha)]).
    - left. split; [exact Hcn|]. exists args. exact Hd.
    - right. destruct (Hr k fn args Hk Ha) as [-> ->]. exact Hd.
  Qed.
End Parser.

(* ---- the report on the DELIVERED message of a cross-shard multi-transfer = the origin's debits ---- *)
Section Delivered.
  Variables E E' : env.
  Hypothesis Hc : codec_ok (cdc E).
  Hypothesis Hcdc : cdc E' = cdc E.

  Lemma multi_faithful_cdc trs : multi_faithful E trs -> multi_faithful E' trs.
  Proof. unfold multi_faithful. rewrite Hcdc. exact (fun H => H). Qed.

  Theorem delivered_multi_report_is_origin_debits i s o s' :
    f_multi_transfer E i s = (Ok o, s') -> i_caller i = i_rcpt i -> multi_same E i = false ->
    triples_consistent E s (i_caller i) (multi_snd_triples i) ->
    exists args' t,
      o_accounts o = [{| oc_addr := multi_dst i; oc_delta := 0; oc_transfers := [t] |}]
      /\ tr_data t = msg_data C.BuiltInFunctionMultiESDTNFTTransfer args'
      /\ forall i' s2 o2 s2', i_args i' = args' -> i_caller i' <> i_rcpt i' -> go_slice_len (i_args i') ->
           f_multi_transfer E' i' s2 = (Ok o2, s2') -> nonneg_balances E' s2 (i_rcpt i') ->
           exists r',
             parse_esdt_transfers (dec_tok (cdc E')) (i_caller i') (i_rcpt i') C.BuiltInFunctionMultiESDTNFTTransfer (i_args i') = Ok r'
             /\ pt_rcv r' = i_rcpt i'
             /\ report_moves r' = debit_list (multi_snd_triples i)
             /\ ledger_moved E' s2 s2' None (Some (i_rcpt i')) (report_moves r').
  Proof.
    intros H Heq Hs Hcons.
    destruct (multi_sender_effects E Hc _ _ _ _ H Heq Hcons) as (lst & Hp & _ & Hf & _).
    { intros Hx. rewrite Hs in Hx. discriminate. }
    rewrite Hs in Hf. destruct (travel_ok_credits _ _ Hf) as [Hmap Hgood].
    pose proof (multi_out_accounts_cross E _ _ _ _ _ Hp Hs) as Ho. cbv zeta in Ho.
    eexists _, _. split; [exact Ho|]. split; [reflexivity|].
    intros i' s2 o2 s2' Hi' Hne HL H2 Hnn.
    destruct (emitted_multi_faithful_args E Hc _ _ _ _ _ Hp i' Hi') as (H12 & Hn0 & Hfaith & Hlen).
    assert (Hc' : codec_ok (cdc E')) by (rewrite Hcdc; exact Hc).
    set (c := {| wc_cdc := cdc E; wc_shard_of := shard_of E; wc_payable := payable E; wc_dns := dns E;
                 wc_enable := enable_change E; wc_gas := gas E; wc_nshards := 1%N |}).
    set (m := {| m_id := 0; m_fn := C.BuiltInFunctionMultiESDTNFTTransfer; m_caller := i_caller i'; m_dest := i_rcpt i';
                 m_args := i_args i'; m_callType := 0%N; m_gasLimit := 0%N; m_locked := 0%N; m_origin := 0%N;
                 m_sender := i_caller i' |}).
    assert (C1 : credits c m = map travel_credit lst).
    { eapply (emitted_message_credits_multi E Hc c eq_refl m (multi_n_snd i) lst); [apply bigU64_lt|exact Hlen|exact Hgood|reflexivity|exact Hi']. }
    assert (C2 : credits c m = dst_credits E' (multi_dst_triples i')).
    { apply (delivered_message_credits_multi E' Hc' c (eq_sym Hcdc) m i' s2 o2 s2' H2 Hne eq_refl eq_refl H12). }
    assert (Hcr : dst_credits E' (multi_dst_triples i') = debit_list (multi_snd_triples i)) by congruence.
    assert (Hcn : credits_nonneg E' (multi_dst_triples i')).
    { unfold credits_nonneg. rewrite Hcr. unfold debit_list. apply Forall_forall. intros kv Hin.
      apply in_map_iff in Hin as (x & <- & _). cbn [snd]. apply bigZ_nonneg. }
    destruct (parser_agrees_dest_multi E' Hc' _ _ _ _ H2 Hne HL H12 (multi_faithful_cdc _ Hfaith) Hnn Hcn)
      as (r' & Hparse & Hr & Hm & Hl & _).
    exists r'. split; [exact Hparse|]. assert (Hrc : pt_rcv r' = i_rcpt i') by (rewrite Hr; reflexivity).
    split; [exact Hrc|]. split; [rewrite Hm; exact Hcr|]. rewrite Hrc in Hl. exact Hl.
  Qed.
End Delivered.

Print Assumptions parser_agrees_esdt.
Print Assumptions parser_agrees_sender_nft.
Print Assumptions parser_agrees_dest_nft.
Print Assumptions emitted_nft_payload_faithful.
Print Assumptions parser_agrees_sender_multi.
Print Assumptions parser_agrees_dest_multi.
Print Assumptions emitted_multi_faithful.
Print Assumptions forwarded_call_is_reported.
Print Assumptions delivered_multi_report_is_origin_debits.
