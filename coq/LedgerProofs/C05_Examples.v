(* C05: non-vacuity examples and the F4b witness, on [ideal_codec] (which satisfies [codec_ok]).
     ex_key_*                         the key test on "ELROND", "ELRONDx", "ELRON", "elrond", "ELROnD", ""
     ex_savekv_later_protected        a protected key in a LATER pair: the call is rejected
     ex_savekv_duplicate_later_wins   two pairs with the same key: the later value is stored
     ex_savekv_empty_deletes          an empty value deletes the cell
     inst_savekv_*                    the theorems instantiated on these runs
     footprint_exact_nonce_refuted    F4b: the sharp (exact-nonce) frame is FALSE without [fp_consistent]:
                                      the write lands under the METADATA nonce, not the requested one
     inst_frame_honest                the same call on the real token satisfies the sharp frame
     ex_wstep_*                       one step of a two-shard world *)
From Coq.Strings Require Import String.
From EV Require Import Base.Bytes Base.Store Base.Monad gen.Consts Codec.Types Codec.Proto Codec.Ideal Codec.CodecOk
  Helpers.Helpers Ledger.Types Ledger.Env Ledger.Funcs Ledger.Transfers Ledger.World Corr.Exec
  LedgerProofs.Defs LedgerProofs.EnvSpec LedgerProofs.WorldSpec
  LedgerProofs.Spec_Transfers_Base LedgerProofs.Spec_Transfers_Esdt LedgerProofs.Spec_Transfers_Nft
  LedgerProofs.Spec_Transfers_Multi LedgerProofs.Spec_Transfers LedgerProofs.Spec_Supply LedgerProofs.Spec_System
  LedgerProofs.C05_SaveKV LedgerProofs.C05_Footprint LedgerProofs.C05_World.

Definition c5_alice : bytes := repeat x01 32.
Definition c5_bob : bytes := repeat x02 32.      (* lives on shard 1 *)
Definition c5_carol : bytes := repeat x03 32.

Definition c5_cfg : xcfg :=
  {| xc_shards := [(c5_bob, 1%N)]; xc_shard_default := 0%N; xc_pay := []; xc_pay_default := 0%N;
     xc_dns := []; xc_enable := false; xc_gas := repeat 10%N 22 |}.
Definition c5_E0 : env := env_of c5_cfg 0%N None.
(* the environment of the examples: ideal codec, no faults *)
Definition c5_E : env :=
  {| plan := plan c5_E0; cdc := ideal_codec; shard_of := shard_of c5_E0; self_shard := self_shard c5_E0;
     payable := payable c5_E0; dns := dns c5_E0; enable_change := enable_change c5_E0; gas := gas c5_E0 |}.
Lemma c5_E_ok : codec_ok (cdc c5_E). Proof. exact ideal_codec_ok. Qed.

Definition c5_acct (st : list (bytes * bytes)) : acctl :=
  {| al_store := st; al_balance := 100; al_owner := []; al_username := []; al_reward := 0 |}.
Definition c5_in (caller rcpt : bytes) (args : list bytes) (snd dst : bool) : input :=
  {| i_caller := caller; i_rcpt := rcpt; i_args := args; i_value := 0; i_gas := 100000; i_gasLocked := 0;
     i_callType := C.DirectCall; i_rae := false; i_snd := snd; i_dst := dst |}.

(* ------------------------------------------------------------------ *)
(* the key test                                                         *)
(* ------------------------------------------------------------------ *)
Example ex_key_ELROND : key_allowed (str "ELROND"%string) = false. Proof. reflexivity. Qed.
Example ex_key_ELRONDx : key_allowed (str "ELRONDx"%string) = false. Proof. reflexivity. Qed.
Example ex_key_ELRONDesdt : key_allowed (P ++ str "TOK-a1b2c3"%string) = false. Proof. reflexivity. Qed.
Example ex_key_ELRON : key_allowed (str "ELRON"%string) = true. Proof. reflexivity. Qed.
Example ex_key_elrond : key_allowed (str "elrond"%string) = true. Proof. reflexivity. Qed.
Example ex_key_ELROnD : key_allowed (str "ELROnD"%string) = true. Proof. reflexivity. Qed.
Example ex_key_xELROND : key_allowed (str "xELROND"%string) = true. Proof. reflexivity. Qed.
Example ex_key_empty : key_allowed [] = true. Proof. reflexivity. Qed.

(* ------------------------------------------------------------------ *)
(* SaveKeyValue                                                         *)
(* ------------------------------------------------------------------ *)
Definition c5_k1 : bytes := str "color"%string.
Definition c5_k2 : bytes := str "size"%string.
Definition c5_tok : bytes := str "TOK-a1b2c3"%string.
(* alice has one ordinary cell, one token cell and one role cell *)
Definition c5_s0 : mstate :=
  state_of [(c5_alice, c5_acct [(c5_k2, str "old"%string);
                                (P ++ c5_tok, str "protected-1"%string);
                                (RP ++ c5_tok, str "protected-2"%string)]);
            (c5_carol, c5_acct [(c5_k1, str "carol's"%string)])].
Definition c5_skv := C.BuiltInFunctionSaveKeyValue.

(* a protected key in the SECOND pair: rejected (the first pair is fine) *)
Definition c5_in_later := c5_in c5_alice c5_alice [c5_k1; str "red"%string; P ++ c5_tok; str "x"%string] true true.
Example ex_savekv_later_protected : fst (exec c5_E c5_skv c5_in_later c5_s0) = Err EOperationNotPermitted.
Proof. vm_compute. reflexivity. Qed.
(* the key "ELROND" itself, and in the THIRD pair *)
Definition c5_in_later3 :=
  c5_in c5_alice c5_alice [c5_k1; str "red"%string; c5_k2; str "L"%string; str "ELROND"%string; str "x"%string] true true.
Example ex_savekv_later_protected3 : fst (exec c5_E c5_skv c5_in_later3 c5_s0) = Err EOperationNotPermitted.
Proof. vm_compute. reflexivity. Qed.
(* ... while the near misses are accepted *)
Definition c5_in_near :=
  c5_in c5_alice c5_alice [str "ELRON"%string; str "a"%string; str "elrond"%string; str "b"%string; str "ELROnD"%string; str "c"%string] true true.
Example ex_savekv_near_misses_accepted :
  match exec c5_E c5_skv c5_in_near c5_s0 with
  | (Ok _, s') => beqb (cell s' c5_alice (str "ELRON"%string)) (str "a"%string)
                  && beqb (cell s' c5_alice (str "elrond"%string)) (str "b"%string)
                  && beqb (cell s' c5_alice (str "ELROnD"%string)) (str "c"%string)
  | _ => false
  end = true.
Proof. vm_compute. reflexivity. Qed.
(* the theorem sees it too: the hypothesis of [savekv_protected_key_rejected] holds for the later pair *)
Example inst_savekv_later_protected : forall o s', exec c5_E c5_skv c5_in_later c5_s0 <> (Ok o, s').
Proof.
  apply savekv_protected_key_rejected. exists (P ++ c5_tok), (str "x"%string). split; [|reflexivity].
  cbn. right. left. reflexivity.
Qed.

(* duplicate key: the later pair wins *)
Definition c5_in_dup := c5_in c5_alice c5_alice [c5_k1; str "red"%string; c5_k1; str "blue"%string] true true.
Example ex_savekv_duplicate_later_wins :
  match exec c5_E c5_skv c5_in_dup c5_s0 with
  | (Ok _, s') => beqb (cell s' c5_alice c5_k1) (str "blue"%string)
                  && beqb (cell s' c5_alice c5_k2) (str "old"%string)                    (* unlisted key kept *)
                  && beqb (cell s' c5_alice (P ++ c5_tok)) (str "protected-1"%string)    (* protected cells kept *)
                  && beqb (cell s' c5_carol c5_k1) (str "carol's"%string)                (* other accounts kept *)
  | _ => false
  end = true.
Proof. vm_compute. reflexivity. Qed.
Example ex_last_val_dup : last_val (pairs_of (i_args c5_in_dup)) c5_k1 = Some (str "blue"%string).
Proof. reflexivity. Qed.
(* an empty value deletes; a later non-empty value for the same key re-creates *)
Definition c5_in_del := c5_in c5_alice c5_alice [c5_k2; []; c5_k1; str "red"%string; c5_k1; []] true true.
Example ex_savekv_empty_deletes :
  match exec c5_E c5_skv c5_in_del c5_s0 with
  | (Ok _, s') => beqb (cell s' c5_alice c5_k2) [] && beqb (cell s' c5_alice c5_k1) []
  | _ => false
  end = true.
Proof. vm_compute. reflexivity. Qed.
(* guards are real *)
Example ex_savekv_other_account : fst (exec c5_E c5_skv (c5_in c5_alice c5_carol [c5_k1; str "red"%string] true true) c5_s0)
                                  = Err EOperationNotPermitted.
Proof. vm_compute. reflexivity. Qed.
Example ex_savekv_contract_caller :
  fst (exec c5_E c5_skv (c5_in (repeat x00 8 ++ repeat x07 24) (repeat x00 8 ++ repeat x07 24) [c5_k1; str "red"%string] true true) c5_s0)
  = Err EOperationNotPermitted.
Proof. vm_compute. reflexivity. Qed.
Example ex_savekv_odd : fst (exec c5_E c5_skv (c5_in c5_alice c5_alice [c5_k1; str "red"%string; c5_k2] true true) c5_s0)
                        = Err EInvalidArguments.
Proof. vm_compute. reflexivity. Qed.

(* the theorems instantiated on the duplicate-key run *)
Example inst_savekv_dup : exists o s', exec c5_E c5_skv c5_in_dup c5_s0 = (Ok o, s')
  /\ cell s' c5_alice c5_k1 = str "blue"%string
  /\ (forall a k, prefix_of C.ElrondProtectedKeyPrefix k = true -> cell s' a k = cell c5_s0 a k)
  /\ (forall a k, a <> c5_alice -> cell s' a k = cell c5_s0 a k).
Proof.
  destruct (exec c5_E c5_skv c5_in_dup c5_s0) as [[o|e|] s'] eqn:Ex.
  2,3: exfalso; pose proof ex_savekv_duplicate_later_wins as Hx; rewrite Ex in Hx; discriminate.
  exists o, s'. split; [reflexivity|].
  pose proof (savekv_writes_exactly_exec _ _ _ _ _ Ex) as (_ & Hl & _ & Ho & _).
  split; [rewrite Hl; reflexivity|]. split; [apply (savekv_never_protected_exec _ _ _ _ _ Ex)|exact Ho].
Qed.

(* ------------------------------------------------------------------ *)
(* F4b: the sharp footprint needs consistent lookups                    *)
(* ------------------------------------------------------------------ *)
Definition c5_V : bytes := str "ABC-123456"%string.      (* the real token *)
Definition c5_W : bytes := str "ABC-12345"%string.       (* the aliasing identifier: V = W ++ "6", and "6" = 0x36 *)
Definition c5_md : metadata :=
  {| md_nonce := 68 (* 0x44 *); md_name := str "n"%string; md_creator := c5_alice; md_royalties := 5; md_hash := str "h"%string;
     md_uris := [str "u"%string]; md_attributes := [] |}.
Definition c5_nft (v : Z) : token :=
  {| t_type := C.NonFungible; t_value := Some v; t_props := []; t_meta := Some c5_md; t_reserved := [] |}.
(* alice holds 7 of V nonce 0x44 *)
Definition c5_sN : mstate := state_of [(c5_alice, c5_acct [(nft_key (P ++ c5_V) 68, enc_token (c5_nft 7))])].
(* the two (identifier, nonce) pairs address the SAME storage key *)
Example ex_alias_same_key : nft_key (P ++ c5_V) 68 = nft_key (P ++ c5_W) 13892 (* 0x3644 *).
Proof. reflexivity. Qed.
Definition c5_nftT := C.BuiltInFunctionESDTNFTTransfer.
(* alice sends 3 of "W nonce 0x3644" to carol (same shard) *)
Definition c5_in_alias := c5_in c5_alice c5_alice [c5_W; u64_bytes 13892; u64_bytes 3; c5_carol] true true.
Definition c5_run_alias := exec c5_E c5_nftT c5_in_alias c5_sN.
(* where the writes land: W ++ [0x44], in sender and destination *)
Definition c5_junk : bytes := nft_key (P ++ c5_W) 68.

Lemma pair_not_in (l : list (bytes * bytes)) a k :
  existsb (fun x => beqb (fst x) a && beqb (snd x) k)%bool l = false -> ~ In (a, k) l.
Proof.
  intros H Hin. assert (existsb (fun x => beqb (fst x) a && beqb (snd x) k)%bool l = true); [|congruence].
  apply existsb_exists. exists (a, k). split; [exact Hin|]. cbn [fst snd]. rewrite !beqb_refl. reflexivity.
Qed.

Theorem footprint_exact_nonce_refuted :
  exists (E : env) i s o s' a k t m,
    codec_ok (cdc E)
    /\ exec E C.BuiltInFunctionESDTNFTTransfer i s = (Ok o, s')
    (* the entry found under (identifier, requested nonce) carries another nonce in its metadata *)
    /\ tok_at E s (i_caller i) (nft_key (P ++ argn i 0) (bigU64 (argn i 1))) = Some t /\ t_meta t = Some m
    /\ md_nonce m <> bigU64 (argn i 1)
    /\ ~ fp_consistent E C.BuiltInFunctionESDTNFTTransfer i s
    (* a cell outside the sharp footprint changes: the key carries the METADATA nonce *)
    /\ k = nft_key (P ++ argn i 0) (md_nonce m)
    /\ ~ In (a, k) (fp_exact E C.BuiltInFunctionESDTNFTTransfer i s)
    /\ cell s' a k <> cell s a k
    (* (it is inside the general footprint, as [exec_frame] demands) *)
    /\ fp_cells (footprint E C.BuiltInFunctionESDTNFTTransfer i s) a k.
Proof.
  destruct c5_run_alias as [[o|e|] s'] eqn:Er.
  2,3: exfalso; assert (Hx : match fst c5_run_alias with Ok _ => true | _ => false end = true) by (vm_compute; reflexivity);
       rewrite Er in Hx; discriminate.
  assert (Hs' : s' = snd c5_run_alias) by (rewrite Er; reflexivity).
  assert (Ht : tok_at c5_E c5_sN c5_alice (nft_key (P ++ c5_W) 13892) = Some (c5_nft 7)) by (vm_compute; reflexivity).
  exists c5_E, c5_in_alias, c5_sN, o, s', c5_alice, c5_junk, (c5_nft 7), c5_md.
  split; [exact c5_E_ok|]. split; [exact Er|]. split; [exact Ht|]. split; [reflexivity|].
  split; [vm_compute; discriminate|]. split.
  { intros Hcons. assert (Hn : tok_nonce (c5_nft 7) = 13892%N); [|vm_compute in Hn; discriminate].
    apply (Hcons eq_refl). exact Ht. }
  split; [reflexivity|]. split; [apply pair_not_in; vm_compute; reflexivity|]. split.
  { rewrite Hs'. intros Heq. assert (Hb : beqb (cell (snd c5_run_alias) c5_alice c5_junk) (cell c5_sN c5_alice c5_junk) = false)
      by (vm_compute; reflexivity). rewrite Heq, beqb_refl in Hb. discriminate. }
  rewrite (footprint_name c5_E BNftTransfer). unfold fp_cells. cbn [fst fp_cells_b].
  split; [left; reflexivity|]. exists 68%N. reflexivity.
Qed.
(* what the known finding says in numbers: the real entry stays at 7; 4 and 3 appear under W ++ [0x44] *)
Example ex_alias_numbers :
  let s' := snd c5_run_alias in
  (balance c5_E s' c5_alice (nft_key (P ++ c5_V) 68) = 7 /\ balance c5_E s' c5_alice c5_junk = 4
   /\ balance c5_E s' c5_carol c5_junk = 3)%Z.
Proof. vm_compute. repeat split. Qed.

(* control: the honest call on the real token satisfies the hypothesis and hence the sharp frame *)
Definition c5_in_honest := c5_in c5_alice c5_alice [c5_V; u64_bytes 68; u64_bytes 3; c5_carol] true true.
Example inst_frame_honest : exists o s', exec c5_E c5_nftT c5_in_honest c5_sN = (Ok o, s')
  /\ fp_exact c5_E c5_nftT c5_in_honest c5_sN = [(c5_alice, nft_key (P ++ c5_V) 68); (c5_carol, nft_key (P ++ c5_V) 68)]
  /\ unchanged_except (fun a k => In (a, k) (fp_exact c5_E c5_nftT c5_in_honest c5_sN)) (fun _ => False) c5_sN s'
  /\ cell s' c5_carol (nft_key (P ++ c5_V) 68) <> [].
Proof.
  destruct (exec c5_E c5_nftT c5_in_honest c5_sN) as [[o|e|] s'] eqn:Er.
  2,3: exfalso; assert (Hx : match fst (exec c5_E c5_nftT c5_in_honest c5_sN) with Ok _ => true | _ => false end = true)
         by (vm_compute; reflexivity); rewrite Er in Hx; discriminate.
  exists o, s'. split; [reflexivity|]. split; [vm_compute; reflexivity|]. split.
  - pose proof (exec_frame_exact c5_E c5_E_ok _ _ _ _ _ Er) as Hf. unfold c5_nftT in *.
    rewrite (footprint_name c5_E BNftTransfer) in Hf. apply Hf.
    unfold fp_consistent. change (classify C.BuiltInFunctionESDTNFTTransfer) with (Some BNftTransfer). cbn [fp_consistent_b].
    intros _ t Ht. assert (Hk : tok_at c5_E c5_sN c5_alice (nft_key (P ++ c5_V) 68) = Some (c5_nft 7)) by (vm_compute; reflexivity).
    assert (Ht' : tok_at c5_E c5_sN c5_alice (nft_key (P ++ c5_V) 68) = Some t) by exact Ht.
    rewrite Hk in Ht'. inversion Ht'; subst t. reflexivity.
  - assert (Hs' : s' = snd (exec c5_E c5_nftT c5_in_honest c5_sN)) by (rewrite Er; reflexivity). rewrite Hs'.
    intros Heq. assert (Hb : beqb (cell (snd (exec c5_E c5_nftT c5_in_honest c5_sN)) c5_carol (nft_key (P ++ c5_V) 68)) [] = false)
      by (vm_compute; reflexivity). rewrite Heq in Hb. discriminate.
Qed.

(* ------------------------------------------------------------------ *)
(* account-level functions: field by field                              *)
(* ------------------------------------------------------------------ *)
Definition c5_sc : bytes := repeat x00 8 ++ repeat x09 24.      (* a contract address, owned by alice, reward 7 *)
Definition c5_sA : mstate :=
  state_of [(c5_alice, c5_acct [(c5_k1, str "red"%string)]);
            (c5_sc, {| al_store := []; al_balance := 50; al_owner := c5_alice; al_username := str "dapp"%string; al_reward := 7 |})].
Definition c5_claim := C.BuiltInFunctionClaimDeveloperRewards.
Definition c5_in_claim := c5_in c5_alice c5_sc [] true true.
Example ex_claim_fields :
  match exec c5_E c5_claim c5_in_claim c5_sA with
  | (Ok _, s') => (a_devreward (acct s' c5_sc) =? 0)%Z && (a_balance (acct s' c5_alice) =? 107)%Z
                  && (a_balance (acct s' c5_sc) =? 50)%Z && beqb (a_owner (acct s' c5_sc)) c5_alice
  | _ => false
  end = true.
Proof. vm_compute. reflexivity. Qed.
Example inst_claim_fields : exists o s', exec c5_E c5_claim c5_in_claim c5_sA = (Ok o, s')
  /\ a_devreward (acct s' c5_sc) = 0%Z /\ a_balance (acct s' c5_alice) = 107%Z
  /\ (forall a, a_owner (acct s' a) = a_owner (acct c5_sA a) /\ a_username (acct s' a) = a_username (acct c5_sA a))
  /\ (forall a, a <> c5_alice -> a_balance (acct s' a) = a_balance (acct c5_sA a))
  /\ (forall a k, cell s' a k = cell c5_sA a k).
Proof.
  destruct (exec c5_E c5_claim c5_in_claim c5_sA) as [[o|e|] s'] eqn:Er.
  2,3: exfalso; pose proof ex_claim_fields as Hx; rewrite Er in Hx; discriminate.
  pose proof ex_claim_fields as Hx. rewrite Er in Hx.
  apply andb_prop in Hx as [Hx _]. apply andb_prop in Hx as [Hx _]. apply andb_prop in Hx as [H1 H2].
  apply Z.eqb_eq in H1. apply Z.eqb_eq in H2.
  exists o, s'. split; [reflexivity|]. split; [exact H1|]. split; [exact H2|].
  pose proof (exec_frame_fields c5_E c5_E_ok _ _ _ _ _ Er) as Hf.
  assert (Hff : forall a fld, fp_fields c5_claim c5_in_claim a fld ->
                  (a = c5_sc /\ fld = FDevReward) \/ (a = c5_alice /\ fld = FBalance)).
  { intros a fld H. change (fp_fields c5_claim c5_in_claim a fld) with (fp_fields_b BClaim c5_in_claim a fld) in H.
    cbn [fp_fields_b] in H. destruct H as [_ [[-> ->]|(-> & _ & ->)]]; auto. }
  split; [|split].
  - intros a. split.
    + apply (Hf a FOwner). intros H. apply Hff in H as [[_ H]|[_ H]]; discriminate.
    + apply (Hf a FUserName). intros H. apply Hff in H as [[_ H]|[_ H]]; discriminate.
  - intros a Hne. apply (Hf a FBalance). intros H. apply Hff in H as [[_ H]|[H _]]; [discriminate|contradiction].
  - apply (account_level_no_storage c5_E _ _ _ _ _ Er). right. left. reflexivity.
Qed.

(* ------------------------------------------------------------------ *)
(* one step of a two-shard world                                        *)
(* ------------------------------------------------------------------ *)
Definition c5_W2 : wcfg :=
  {| wc_cdc := ideal_codec; wc_shard_of := shard_of c5_E; wc_payable := payable c5_E; wc_dns := []; wc_enable := false;
     wc_gas := gas c5_E; wc_nshards := 2 |}.
Definition c5_s1 : mstate := state_of [(c5_bob, c5_acct [(c5_k1, str "bob's"%string)])].
Definition c5_w0 : world := {| shards := [accts c5_s0; accts c5_s1]; inflight := []; failed := []; next_id := 0 |}.
Definition c5_op_ok := OCall 0 c5_skv c5_in_dup.
Definition c5_op_rej := OCall 0 c5_skv c5_in_later.

Example ex_wstep_ok :
  let w' := wstep c5_W2 c5_w0 c5_op_ok in
  op_call c5_W2 c5_w0 c5_op_ok = Some (0%N, c5_skv, c5_in_dup)
  /\ wcell w' 0 c5_alice c5_k1 = str "blue"%string            (* the executing shard changed, inside the footprint *)
  /\ shard_accts w' 1 = shard_accts c5_w0 1.                   (* the other shard did not *)
Proof. vm_compute. repeat split. Qed.
Example ex_wstep_rejected : shards (wstep c5_W2 c5_w0 c5_op_rej) = shards c5_w0.
Proof. vm_compute. reflexivity. Qed.
Example inst_wstep_frame :
  forall a k, ~ (a = c5_alice /\ k = c5_k1) ->
  wcell (wstep c5_W2 c5_w0 c5_op_ok) 0 a k = wcell c5_w0 0 a k.
Proof.
  intros a k Hn. apply (wstep_frame_cell c5_W2 ideal_codec_ok).
  intros fn i o s' Hop _. assert (Hx : op_call c5_W2 c5_w0 c5_op_ok = Some (0%N, c5_skv, c5_in_dup)) by reflexivity.
  rewrite Hx in Hop. inversion Hop; subst fn i. unfold c5_skv. rewrite (footprint_name _ BSaveKV). unfold fp_cells. cbn [fst fp_cells_b].
  intros (Ha & _ & v & Hin). apply Hn. split; [exact Ha|]. cbn in Hin. destruct Hin as [Hin|[Hin|[]]]; inversion Hin; reflexivity.
Qed.
