(* C11 (totality), part 6: instances and witnesses, evaluated with a concrete codec that satisfies [codec_ok]
   ([ideal_codec]: the protobuf encoder with the decoder that equals the exact model on every byte string of
   Go length): [flag_ok] holds; concrete StoreOK states; adversarial inputs give Err, not Panic; the witness
   of the repaired finding F11 (regression: the input now gives an error; the legacy helper panics); the
   arithmetic of the repaired defect F3. *)
From Coq.Strings Require Import String.
From Coq Require Import Lia.
From EV Require Import Base.Bytes Base.Store Base.Monad gen.Consts Codec.Types Codec.Proto Codec.Ideal Codec.CodecOk
  Helpers.Helpers Ledger.Types Ledger.Env Ledger.Funcs Ledger.Transfers Corr.Exec
  LedgerProofs.Defs LedgerProofs.EnvSpec LedgerProofs.NoPanic LedgerProofs.NoPanicFuncs LedgerProofs.NoPanicTransfers.

(* the 2-byte pause flag is not a protobuf ESDigitalToken: it does not decode at all *)
Lemma flag_ok_ideal : flag_ok ideal_codec.
Proof. intros f t H. destruct f; vm_compute in H; discriminate. Qed.
Lemma flag_ok_proto : flag_ok the_codec.
Proof. intros f t H. destruct f; vm_compute in H; discriminate. Qed.

(* a one-shard environment with the ideal codec *)
Definition wE : env :=
  {| plan := fun _ => false; cdc := ideal_codec; shard_of := fun _ => 0%N; self_shard := 0%N;
     payable := fun _ => PayYes; dns := []; enable_change := false; gas := gas_of [] |}.
Lemma wE_codec_ok : codec_ok (cdc wE). Proof. exact ideal_codec_ok. Qed.
Lemma wE_flag_ok : flag_ok (cdc wE). Proof. exact flag_ok_ideal. Qed.

Definition addrA : bytes := List.repeat x02 32.
Definition addrB : bytes := List.repeat x01 32.
Definition tokABCD : bytes := str "ABCD"%string.
Definition fungible10 : token :=
  {| t_type := C.Fungible; t_value := Some 10%Z; t_props := []; t_meta := None; t_reserved := [] |}.
(* the NFT "ABC" nonce 0x44 = 'D': its storage key is P ++ "ABC" ++ [0x44] = P ++ "ABCD" *)
Definition nftABC_44 : token :=
  {| t_type := C.NonFungible; t_value := Some 1%Z; t_props := [];
     t_meta := Some {| md_nonce := 68; md_name := []; md_creator := addrB; md_royalties := 0;
                       md_hash := str "h"%string; md_uris := []; md_attributes := [] |};
     t_reserved := [] |}.
Definition acct_with (k v : bytes) : account :=
  {| a_store := sput [] k v; a_balance := 0; a_owner := []; a_username := []; a_devreward := 0 |}.
(* sender A holds fungible "ABCD"; B (same shard) holds the NFT whose key aliases it *)
Definition sF11 : mstate :=
  {| accts := [(addrA, acct_with (P ++ tokABCD) (enc_tok ideal_codec fungible10));
               (addrB, acct_with (P ++ tokABCD) (enc_tok ideal_codec nftABC_44))];
     calls := 0; allocs := 0 |}.
Definition sEmpty : mstate := {| accts := []; calls := 0; allocs := 0 |}.

Lemma sget_single k0 v0 k : sget (sput [] k0 v0) k = if beqb k k0 then v0 else [].
Proof. rewrite sget_put, sget_nil. reflexivity. Qed.

Lemma StoreOK_cells E s :
  (forall a k t, cell s a k <> [] -> dec_tok (cdc E) (cell s a k) = Some t -> t_value t <> None) -> StoreOK E s.
Proof.
  intros H a x t Ht. unfold tok_at in Ht. destruct (cell s a (P ++ x)) as [|b r] eqn:Ec; [discriminate|].
  apply (H a (P ++ x) t); rewrite Ec; [discriminate|exact Ht].
Qed.

Lemma StoreOK_empty E : StoreOK E sEmpty.
Proof. apply StoreOK_cells. intros a k t Hn. exfalso. apply Hn. unfold cell, acct, sEmpty. cbn. apply sget_nil. Qed.

Lemma StoreOK_sF11 : StoreOK wE sF11.
Proof.
  apply StoreOK_cells. intros a k t. unfold cell, acct, sF11. cbn [accts aget].
  destruct (beqb a addrA); [|destruct (beqb a addrB)]; cbn [a_store acct_with empty_account]; rewrite ?sget_single, ?sget_nil.
  - destruct (beqb k (P ++ tokABCD)); [|congruence]. intros _ Hd. vm_compute in Hd. inversion Hd; subst t. discriminate.
  - destruct (beqb k (P ++ tokABCD)); [|congruence]. intros _ Hd. vm_compute in Hd. inversion Hd; subst t. discriminate.
  - congruence.
Qed.

Definition mk_input (caller rcpt : bytes) (args : list bytes) (gas : N) (snd dst : bool) : input :=
  {| i_caller := caller; i_rcpt := rcpt; i_args := args; i_value := 0; i_gas := gas; i_gasLocked := 0;
     i_callType := C.DirectCall; i_rae := false; i_snd := snd; i_dst := dst |}.

(* ---- FINDING F11 (repaired by /repo 7b409c0): regression documentation ---- *)
(* same-shard MultiESDTNFTTransfer(B, 1, "ABCD", nonce 0, 3) by A: the destination entry under the same key
   carries metadata, the incoming token does not.  Before the repair addNFTToDestination dereferenced the nil
   TokenMetaData of the incoming token; now the call is rejected. *)
Definition iF11 : input := mk_input addrA addrA [addrB; [x01]; tokABCD; []; [x03]] 1000 true true.
Example F11_input_is_an_error :
  codec_ok (cdc wE) /\ flag_ok (cdc wE) /\ StoreOK wE sF11 /\ origin_input iF11
  /\ (alen (i_args iF11) < 2 ^ 40)%N
  /\ fst (exec wE C.BuiltInFunctionMultiESDTNFTTransfer iF11 sF11) = Err EWrongNFTOnDestination.
Proof.
  split; [exact wE_codec_ok|]. split; [exact wE_flag_ok|]. split; [exact StoreOK_sF11|].
  split; [reflexivity|]. split; [reflexivity|]. vm_compute. reflexivity.
Qed.
(* the pre-repair helper (multiESDTNFTTransfer.go / esdtNFTTransfer.go addNFTToDestination before 7b409c0):
   [meta_of t] = dereference of the incoming token's TokenMetaData *)
Definition legacy_add_nft_to_destination (E : env) (dst key : bytes) (t : token) (verify rae : bool) : @M err mstate token :=
  check_payable E verify dst ;;;
  '(cur, _) <- get_nft_on_destination E dst key (tok_nonce t) ;;
  check_froze_and_pause dst key cur rae ;;;
  (match t_meta cur with
   | Some cm => m <- meta_of t ;; guard (beqb (md_hash cm) (md_hash m)) EWrongNFTOnDestination
   | None => ret tt
   end) ;;;
  v <- val_of t ;; cv <- val_of cur ;;
  let t' := set_value t (Some (v + cv)%Z) in
  save_nft E dst key t' rae ;;;
  ret t'.
(* the step of the F11 call that reaches it: crediting 3 fungible "ABCD" to B *)
Example legacy_f11_refuted :
  fst (legacy_add_nft_to_destination wE addrB (P ++ tokABCD) (set_value fungible10 (Some 3%Z)) false false sF11) = Panic
  /\ fst (add_nft_to_destination wE addrB (P ++ tokABCD) (set_value fungible10 (Some 3%Z)) false false sF11)
     = Err EWrongNFTOnDestination.
Proof. split; vm_compute; reflexivity. Qed.
(* the two helpers differ in nothing else: same result whenever the incoming token has metadata *)
Lemma legacy_add_nft_same E dst key t verify rae s :
  t_meta t <> None -> legacy_add_nft_to_destination E dst key t verify rae s = add_nft_to_destination E dst key t verify rae s.
Proof.
  intros Hm. unfold legacy_add_nft_to_destination, add_nft_to_destination, meta_of.
  destruct (t_meta t) as [m|]; [reflexivity|congruence].
Qed.

(* ---- non-vacuity: adversarial inputs on StoreOK states give an error, not a panic ---- *)
(* the wrap residue of the repaired defect F3: 3n+2 = 4 (mod 2^64) *)
Definition nWrap : N := 6148914691236517206%N.     (* 0x5555555555555556 *)
Definition iWrap : input := mk_input addrA addrA [addrB; N_to_be nWrap; tokABCD; []; [x03]] 18446744073709551615 true true.
Example wrap_count_is_an_error :
  fst (exec wE C.BuiltInFunctionMultiESDTNFTTransfer iWrap sF11) = Err EInvalidArguments.
Proof. vm_compute. reflexivity. Qed.
Example wrap_count_dest_is_an_error :
  fst (exec wE C.BuiltInFunctionMultiESDTNFTTransfer
         (mk_input addrB addrA [N_to_be nWrap; tokABCD; []; [x03]] 18446744073709551615 false true) sF11)
  = Err EInvalidArguments.
Proof. vm_compute. reflexivity. Qed.
(* F4a (repaired): ESDTNFTTransfer("AB", nonce "CD") by the holder of fungible "ABCD" *)
Example alias_fungible_is_an_error :
  fst (exec wE C.BuiltInFunctionESDTNFTTransfer
         (mk_input addrA addrA [str "AB"%string; str "CD"%string; [x01]; addrB] 1000 true true) sF11)
  = Err ENFTDoesNotHaveMetadata.
Proof. vm_compute. reflexivity. Qed.
(* a successful call from the same state, for contrast *)
Example plain_transfer_is_ok :
  exists o s', exec wE C.BuiltInFunctionESDTTransfer (mk_input addrA (List.repeat x03 32) [tokABCD; [x03]] 1000 true true) sF11 = (Ok o, s').
Proof. eexists _, _. vm_compute. reflexivity. Qed.

(* ---- F3 (repaired): the arithmetic of the legacy count guard ---- *)
(* with 5 arguments the pre-fix guard [alen A <? u64 (u64 (n*3) + 2)] does not reject the residue (the bound
   wraps to 4), the count is far beyond what make() accepts, and the repaired guard [alen A / 3 <? n] rejects it *)
Example legacy_count_guard_refuted :
  (5 <? u64 (u64 (nWrap * 3) + 2))%N = false /\ u64 (u64 (nWrap * 3) + 2) = 4%N
  /\ (1099511627776 <? nWrap)%N = true /\ (5 / 3 <? nWrap)%N = true.
Proof. vm_compute. repeat split. Qed.
Example legacy_count_guard_dest_refuted :
  (4 <? u64 (u64 (nWrap * 3) + 1))%N = false /\ u64 (u64 (nWrap * 3) + 1) = 3%N /\ (4 / 3 <? nWrap)%N = true.
Proof. vm_compute. repeat split. Qed.

Print Assumptions F11_input_is_an_error.
Print Assumptions legacy_f11_refuted.
