(* Function specifications ("characterising lemmas") of the eight supply / NFT-maintenance built-ins of
   Ledger/Funcs.v:
     f_local_mint, f_local_burn, f_esdt_burn, f_nft_create, f_nft_add_quantity, f_nft_burn,
     f_nft_add_uri, f_nft_update_attributes.
   For each function [f] one record [<f>_post E i s o s'] (a Prop: guards + effects, named fields) and one lemma
     <f>_spec : f E i s = (Ok o, s') -> <f>_post E i s o s'.
   Arguments are named positionally: [argn i n] = n-th argument ([] if absent; the guards say how many exist).
   At the end: the derived corollaries the property files cite (supply_balance_effect_*, supply_overdraft_fails_*,
   supply_requires_role_*, supply_frozen_paused_*, supply_footprint_*, metadata corollaries) and the liveness
   direction (<f>_succeeds) for mint, local burn, ESDT burn and NFT create.
   Everything is for an arbitrary [E : env] with [codec_ok (cdc E)]; [no_faults E] only for liveness. *)
From EV Require Import Base.Bytes Base.Store Base.Monad gen.Consts Codec.Types Helpers.Helpers
  Ledger.Types Ledger.Env Ledger.Funcs Ledger.Transfers LedgerProofs.Defs LedgerProofs.EnvSpec.

(* ================================================================== *)
(* 0. Preliminaries                                                    *)
(* ================================================================== *)
(* the n-th argument of the call ([] when absent) *)
Definition argn (i : input) (n : nat) : bytes := nth n (i_args i) [].

Lemma nth_error_argn i n x : nth_error (i_args i) n = Some x -> argn i n = x.
Proof. intros H. unfold argn. apply nth_error_nth. exact H. Qed.
Lemma argn_nth_error i n : (N.of_nat n < alen (i_args i))%N -> nth_error (i_args i) n = Some (argn i n).
Proof.
  intros H. unfold alen in H. destruct (nth_error (i_args i) n) as [x|] eqn:En.
  - rewrite (nth_error_argn _ _ _ En). reflexivity.
  - apply nth_error_None in En. lia.
Qed.
Lemma arg_argn i n s x s' : arg (i_args i) n s = (Ok x, s') ->
  x = argn i (N.to_nat n) /\ (n < alen (i_args i))%N /\ s' = s.
Proof. intros H. apply arg_ok in H as (H & Hl & ->). rewrite (nth_error_argn _ _ _ H). auto. Qed.
Lemma arg_argn_succeeds i n s : (n < alen (i_args i))%N -> arg (i_args i) n s = (Ok (argn i (N.to_nat n)), s).
Proof.
  intros H. destruct (arg_succeeds (i_args i) n s H) as (x & Hx & ->). rewrite (nth_error_argn _ _ _ Hx). reflexivity.
Qed.

Ltac argnorm :=
  change (N.to_nat 0) with 0%nat in *; change (N.to_nat 1) with 1%nat in *; change (N.to_nat 2) with 2%nat in *;
  change (N.to_nat 3) with 3%nat in *; change (N.to_nat 4) with 4%nat in *; change (N.to_nat 5) with 5%nat in *;
  change (N.to_nat 6) with 6%nat in *.

Tactic Notation "bnd" hyp(H) "as" ident(x) ident(s1) ident(H1) :=
  apply bind_ok in H; destruct H as (x & s1 & H1 & H).

Lemma negb_ltb_le (a b : N) : negb (a <? b)%N = true -> (b <= a)%N.
Proof. destruct (a <? b)%N eqn:E0; [discriminate|]. lia. Qed.
Lemma le_negb_ltb (a b : N) : (b <= a)%N -> negb (a <? b)%N = true.
Proof. intros H. destruct (a <? b)%N eqn:E0; [lia|reflexivity]. Qed.

Lemma u32_lt n : (u32 n < two32)%N.
Proof. unfold u32, two32. lia. Qed.

Lemma check_basic_succeeds i s : i_value i = 0%Z -> (2 <= alen (i_args i))%N -> check_basic i s = (Ok tt, s).
Proof.
  intros Hv Hl. unfold check_basic.
  assert (G1 : (i_value i =? 0)%Z = true) by lia.
  assert (G2 : (C.MinLenArgumentsESDTTransfer <=? alen (i_args i))%N = true)
    by (unfold C.MinLenArgumentsESDTTransfer; lia).
  rewrite (bind_eq _ _ _ _ _ (guard_true _ _ _ G1)). apply guard_true. exact G2.
Qed.

Section Spec.
  Variable E : env.
  Hypothesis Hc : codec_ok (cdc E).
  Notation G := (gas E).

  (* ---------------- the two argument-independent guard blocks ---------------- *)
  Lemma check_local_action_ok i cost s u s' :
    check_local_action i cost s = (Ok u, s') ->
    s' = s /\ i_value i = 0%Z /\ (2 <= alen (i_args i))%N /\ i_caller i = i_rcpt i /\ i_snd i = true
    /\ (0 < bigZ (argn i 1))%Z /\ (cost <= i_gas i)%N.
  Proof.
    unfold check_local_action. intros H.
    bnd H as u1 s1 H1. apply check_basic_ok in H1 as (Hv & Hl & ->).
    bnd H as u2 s1 H1. apply guard_ok in H1 as [Hcr ->].
    bnd H as u3 s1 H1. apply guard_ok in H1 as [Hsnd ->].
    bnd H as a1 s1 H1. apply arg_argn in H1 as (-> & _ & ->). argnorm.
    bnd H as u4 s1 H1. apply guard_ok in H1 as [Hpos ->].
    apply guard_ok in H as [Hg ->].
    split; [reflexivity|]. split; [exact Hv|]. split; [exact Hl|]. split; [apply beqb_true; exact Hcr|].
    split; [exact Hsnd|]. split; [lia|apply negb_ltb_le; exact Hg].
  Qed.
  Lemma check_local_action_succeeds i cost s :
    i_value i = 0%Z -> (2 <= alen (i_args i))%N -> i_caller i = i_rcpt i -> i_snd i = true ->
    (0 < bigZ (argn i 1))%Z -> (cost <= i_gas i)%N ->
    check_local_action i cost s = (Ok tt, s).
  Proof.
    intros Hv Hl Hcr Hsnd Hpos Hg. unfold check_local_action.
    assert (G3 : beqb (i_caller i) (i_rcpt i) = true) by (rewrite Hcr; apply beqb_refl).
    assert (G4 : (0 <? bigZ (argn i 1))%Z = true) by lia.
    rewrite (bind_eq _ _ _ _ _ (check_basic_succeeds i s Hv Hl)).
    rewrite (bind_eq _ _ _ _ _ (guard_true _ _ _ G3)).
    rewrite (bind_eq _ _ _ _ _ (guard_true _ _ _ Hsnd)).
    assert (H1 : (1 < alen (i_args i))%N) by lia.
    rewrite (bind_eq _ _ _ _ _ (arg_argn_succeeds i 1 s H1)). argnorm.
    rewrite (bind_eq _ _ _ _ _ (guard_true _ _ _ G4)).
    apply guard_true. apply le_negb_ltb. exact Hg.
  Qed.

  Lemma check_create_burn_add_ok i cost s u s' :
    check_create_burn_add i cost s = (Ok u, s') ->
    s' = s /\ i_value i = 0%Z /\ (2 <= alen (i_args i))%N /\ i_caller i = i_rcpt i /\ i_snd i = true
    /\ (cost <= i_gas i)%N.
  Proof.
    unfold check_create_burn_add. intros H.
    bnd H as u1 s1 H1. apply check_basic_ok in H1 as (Hv & Hl & ->).
    bnd H as u2 s1 H1. apply guard_ok in H1 as [Hcr ->].
    bnd H as u3 s1 H1. apply guard_ok in H1 as [Hsnd ->].
    apply guard_ok in H as [Hg ->].
    split; [reflexivity|]. split; [exact Hv|]. split; [exact Hl|]. split; [apply beqb_true; exact Hcr|].
    split; [exact Hsnd|apply negb_ltb_le; exact Hg].
  Qed.
  Lemma check_create_burn_add_succeeds i cost s :
    i_value i = 0%Z -> (2 <= alen (i_args i))%N -> i_caller i = i_rcpt i -> i_snd i = true ->
    (cost <= i_gas i)%N ->
    check_create_burn_add i cost s = (Ok tt, s).
  Proof.
    intros Hv Hl Hcr Hsnd Hg. unfold check_create_burn_add.
    assert (G3 : beqb (i_caller i) (i_rcpt i) = true) by (rewrite Hcr; apply beqb_refl).
    rewrite (bind_eq _ _ _ _ _ (check_basic_succeeds i s Hv Hl)).
    rewrite (bind_eq _ _ _ _ _ (guard_true _ _ _ G3)).
    rewrite (bind_eq _ _ _ _ _ (guard_true _ _ _ Hsnd)).
    apply guard_true. apply le_negb_ltb. exact Hg.
  Qed.

  (* ---------------- the effect of add_to_esdt_balance, after read-only steps ---------------- *)
  (* [fungible_effect a key delta rae s s']: exactly the cell (a, key) was rewritten, holding a fungible entry whose
     value moved by delta *)
  Record fungible_effect (a key : bytes) (delta : Z) (rae : bool) (s s' : mstate) : Prop := {
    fe_nonneg : (0 <= balance E s a key + delta)%Z;
    fe_balance : balance E s' a key = (balance E s a key + delta)%Z;
    (* the entry read (absent = default_tok) and the entry stored (deleted iff value 0 and no property bits) *)
    fe_entry : exists t, tok_or_default E s a key = Some t /\ wf_token t /\ t_type t = C.Fungible /\ t_value t <> None
                 /\ tok_at E s' a key =
                    (if ((balance E s a key + delta =? 0)%Z && all_zero (t_props t))%bool then None
                     else Some (set_value t (Some (balance E s a key + delta)%Z)));
    fe_frozen_paused : rae = false -> a <> SC -> frozen_at E s a key = false /\ paused_at s key = false;
    fe_frame : unchanged_except (fun a' k' => a' = a /\ k' = key) (fun _ => False) s s';
    fe_nofault : nofault E s s' }.

  Lemma rd_add_to_esdt_balance a key delta rae s s1 u s' :
    rd E s s1 -> add_to_esdt_balance E a key delta rae s1 = (Ok u, s') -> fungible_effect a key delta rae s s'.
  Proof.
    intros Hr H. apply (add_to_esdt_balance_ok E Hc) in H as (H1 & H2 & (t & Ht & Hwf & Hty & Hv & Hta) & H4 & H5 & H6).
    rewrite (rd_balance _ _ _ a key Hr) in *. rewrite (rd_tod _ _ _ a key Hr) in Ht.
    rewrite (rd_frozen_at _ _ _ a key Hr), (rd_paused_at _ _ _ key Hr) in H4.
    constructor; auto.
    - exists t. auto.
    - eapply unchanged_except_trans; [apply (rd_unchanged _ _ _ _ _ Hr)|exact H5].
    - eapply nofault_trans; [apply (rd_nofault _ _ _ Hr)|exact H6].
  Qed.

  (* ================================================================== *)
  (* 1. ESDTLocalMint                                                    *)
  (* ================================================================== *)
  Record local_mint_post (i : input) (s : mstate) (o : output) (s' : mstate) : Prop := {
    (* guards *)
    lm_value : i_value i = 0%Z;
    lm_nargs : (2 <= alen (i_args i))%N;
    lm_self : i_caller i = i_rcpt i;
    lm_snd : i_snd i = true;
    lm_amount_pos : (0 < bigZ (argn i 1))%Z;
    lm_amount_len : (zlen (argn i 1) <= C.MaxLenForESDTIssueMint)%N;
    lm_gas : (g_ESDTLocalMint G <= i_gas i)%N;
    lm_role : has_role E s (i_caller i) (argn i 0) C.ESDTRoleLocalMint = true;
    (* effects: one cell, (caller, P ++ tok), value + amount *)
    lm_effect : fungible_effect (i_caller i) (P ++ argn i 0) (bigZ (argn i 1)) (i_rae i) s s';
    lm_out : o = add_log (mk_out C.Ok (sub64 (i_gas i) (g_ESDTLocalMint G)))
                         (log_esdt C.BuiltInFunctionESDTLocalMint (argn i 0) (bigZ (argn i 1)) (i_caller i) []) }.

  Lemma f_local_mint_spec i s o s' : f_local_mint E i s = (Ok o, s') -> local_mint_post i s o s'.
  Proof.
    unfold f_local_mint. intros H. cbv zeta in H.
    bnd H as u1 s1 H1. apply check_local_action_ok in H1 as (-> & Hv & Hl & Hcr & Hsnd & Hpos & Hg).
    bnd H as tok s1 H1. apply arg_argn in H1 as (-> & _ & ->).
    bnd H as u2 s1 H1. apply check_allowed_ok in H1 as (_ & Hrole & Hrd).
    bnd H as a1 s2 H2. apply arg_argn in H2 as (-> & _ & ->). argnorm.
    bnd H as u3 s2 H2. apply guard_ok in H2 as [Hlen ->].
    bnd H as u4 s2 H2. apply ret_ok in H as [-> ->].
    constructor; auto.
    - apply negb_ltb_le. exact Hlen.
    - eapply rd_add_to_esdt_balance; eauto.
  Qed.

  (* ================================================================== *)
  (* 2. ESDTLocalBurn                                                    *)
  (* ================================================================== *)
  Record local_burn_post (i : input) (s : mstate) (o : output) (s' : mstate) : Prop := {
    lb_value : i_value i = 0%Z;
    lb_nargs : (2 <= alen (i_args i))%N;
    lb_self : i_caller i = i_rcpt i;
    lb_snd : i_snd i = true;
    lb_amount_pos : (0 < bigZ (argn i 1))%Z;
    lb_gas : (g_ESDTLocalBurn G <= i_gas i)%N;
    lb_role : has_role E s (i_caller i) (argn i 0) C.ESDTRoleLocalBurn = true;
    (* effects: one cell, (caller, P ++ tok), value - amount (fe_nonneg: amount <= holding) *)
    lb_effect : fungible_effect (i_caller i) (P ++ argn i 0) (- bigZ (argn i 1)) (i_rae i) s s';
    lb_out : o = add_log (mk_out C.Ok (sub64 (i_gas i) (g_ESDTLocalBurn G)))
                         (log_esdt C.BuiltInFunctionESDTLocalBurn (argn i 0) (bigZ (argn i 1)) (i_caller i) []) }.

  Lemma f_local_burn_spec i s o s' : f_local_burn E i s = (Ok o, s') -> local_burn_post i s o s'.
  Proof.
    unfold f_local_burn. intros H. cbv zeta in H.
    bnd H as u1 s1 H1. apply check_local_action_ok in H1 as (-> & Hv & Hl & Hcr & Hsnd & Hpos & Hg).
    bnd H as tok s1 H1. apply arg_argn in H1 as (-> & _ & ->).
    bnd H as u2 s1 H1. apply check_allowed_ok in H1 as (_ & Hrole & Hrd).
    bnd H as a1 s2 H2. apply arg_argn in H2 as (-> & _ & ->). argnorm.
    bnd H as u4 s2 H2. apply ret_ok in H as [-> ->].
    constructor; auto.
    eapply rd_add_to_esdt_balance; eauto.
  Qed.

  (* ================================================================== *)
  (* 3. ESDTBurn (hand the tokens back to the system contract)           *)
  (* ================================================================== *)
  Definition esdt_burn_out (i : input) : output :=
    let o := mk_out C.Ok (compute_gas_remaining (i_snd i) (i_gas i) (g_ESDTBurn G)) in
    let o := if is_sc (i_caller i)
             then add_output_transfer (i_caller i) C.BuiltInFunctionESDTBurn (i_args i) (i_rcpt i) (i_gasLocked i) (i_callType i) o
             else o in
    add_log o (log_esdt C.BuiltInFunctionESDTBurn (argn i 0) (bigZ (argn i 1)) (i_caller i) []).

  Record esdt_burn_post (i : input) (s : mstate) (o : output) (s' : mstate) : Prop := {
    eb_value : i_value i = 0%Z;
    eb_nargs : alen (i_args i) = 2%N;
    eb_rcpt : i_rcpt i = SC;                       (* no role: the recipient must be the system contract *)
    eb_snd : i_snd i = true;
    eb_amount_pos : (0 < bigZ (argn i 1))%Z;
    eb_gas : (g_ESDTBurn G <= i_gas i)%N;
    eb_effect : fungible_effect (i_caller i) (P ++ argn i 0) (- bigZ (argn i 1)) (i_rae i) s s';
    eb_out : o = esdt_burn_out i }.

  Lemma f_esdt_burn_spec i s o s' : f_esdt_burn E i s = (Ok o, s') -> esdt_burn_post i s o s'.
  Proof.
    unfold f_esdt_burn. intros H. cbv zeta in H.
    bnd H as u1 s1 H1. apply check_basic_ok in H1 as (Hv & _ & ->).
    bnd H as u2 s1 H1. apply guard_ok in H1 as [Hl ->].
    bnd H as tok s1 H1. apply arg_argn in H1 as (-> & _ & ->).
    bnd H as a1 s1 H1. apply arg_argn in H1 as (-> & _ & ->). argnorm.
    bnd H as u3 s1 H1. apply guard_ok in H1 as [Hpos ->].
    bnd H as u4 s1 H1. apply guard_ok in H1 as [Hsc ->].
    bnd H as u5 s1 H1. apply guard_ok in H1 as [Hsnd ->].
    bnd H as u6 s1 H1. apply guard_ok in H1 as [Hg ->].
    bnd H as u7 s1 H1. apply ret_ok in H as [-> ->].
    constructor; auto.
    - lia.
    - apply beqb_true. exact Hsc.
    - lia.
    - apply negb_ltb_le. exact Hg.
    - eapply rd_add_to_esdt_balance; [apply rd_refl|eauto].
  Qed.
End Spec.
