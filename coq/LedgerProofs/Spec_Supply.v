(* Function specifications ("characterising lemmas") of the eight supply / NFT-maintenance built-ins of
   Ledger/Funcs.v:
     f_local_mint, f_local_burn, f_esdt_burn, f_nft_create, f_nft_add_quantity, f_nft_burn,
     f_nft_add_uri, f_nft_update_attributes.
   For each function [f] one record [<f>_post E i s o s'] (a Prop: guards + effects, named fields) and one lemma
     <f>_spec : f E i s = (Ok o, s') -> <f>_post E i s o s'.
   Arguments are named positionally: [argn i n] = n-th argument ([] if absent; the guards say how many exist).
   At the end: the derived corollaries the property files cite (supply_balance_effect_*, supply_overdraft_fails_*,
   supply_requires_role_*, supply_frozen_paused_*, supply_footprint_*, metadata corollaries) and the liveness
   direction (<f>_succeeds) for mint, local burn, ESDT burn and NFT create.
   Everything is for an arbitrary [E : env] with [codec_ok (cdc E)]; [no_faults E] only for liveness. *)
From EV Require Import Base.Bytes Base.Store Base.Monad gen.Consts Codec.Types Helpers.Helpers
  Ledger.Types Ledger.Env Ledger.Funcs Ledger.Transfers LedgerProofs.Defs LedgerProofs.EnvSpec
  LedgerProofs.Spec_Transfers_Base.

(* ================================================================== *)
(* 0. Preliminaries                                                    *)
(* ================================================================== *)
(* [argn i n] = the n-th argument of the call ([] when absent), [lookup_consistent], [touches]: shared with the
   transfer specs (Spec_Transfers_Base.v) *)
Lemma arg_argn i n s x s' : arg (i_args i) n s = (Ok x, s') ->
  x = argn i (N.to_nat n) /\ (n < alen (i_args i))%N /\ s' = s.
Proof. intros H. apply arg_ok in H as (H & Hl & ->). rewrite (nth_error_argn _ _ _ H). auto. Qed.
Lemma arg_argn_succeeds i n s : (n < alen (i_args i))%N -> arg (i_args i) n s = (Ok (argn i (N.to_nat n)), s).
Proof.
  intros H. destruct (arg_succeeds (i_args i) n s H) as (x & Hx & ->). rewrite (nth_error_argn _ _ _ Hx). reflexivity.
Qed.

Ltac argnorm :=
  change (N.to_nat 0) with 0%nat in *; change (N.to_nat 1) with 1%nat in *; change (N.to_nat 2) with 2%nat in *;
  change (N.to_nat 3) with 3%nat in *; change (N.to_nat 4) with 4%nat in *; change (N.to_nat 5) with 5%nat in *;
  change (N.to_nat 6) with 6%nat in *.

Tactic Notation "bnd" hyp(H) "as" ident(x) ident(s1) ident(H1) :=
  apply bind_ok in H; destruct H as (x & s1 & H1 & H).

Lemma negb_ltb_le (a b : N) : negb (a <? b)%N = true -> (b <= a)%N.
Proof. destruct (a <? b)%N eqn:E0; [discriminate|]. lia. Qed.
Lemma le_negb_ltb (a b : N) : (b <= a)%N -> negb (a <? b)%N = true.
Proof. intros H. destruct (a <? b)%N eqn:E0; [lia|reflexivity]. Qed.

Lemma u32_lt n : (u32 n < two32)%N.
Proof. unfold u32, two32. lia. Qed.

Lemma check_basic_succeeds i s : i_value i = 0%Z -> (2 <= alen (i_args i))%N -> check_basic i s = (Ok tt, s).
Proof.
  intros Hv Hl. unfold check_basic.
  assert (G1 : (i_value i =? 0)%Z = true) by lia.
  assert (G2 : (C.MinLenArgumentsESDTTransfer <=? alen (i_args i))%N = true)
    by (unfold C.MinLenArgumentsESDTTransfer; lia).
  rewrite (bind_eq _ _ _ _ _ (guard_true _ _ _ G1)). apply guard_true. exact G2.
Qed.

Section Spec.
  Variable E : env.
  Hypothesis Hc : codec_ok (cdc E).
  Notation G := (gas E).

  (* ---------------- the two argument-independent guard blocks ---------------- *)
  Lemma check_local_action_ok i cost s u s' :
    check_local_action i cost s = (Ok u, s') ->
    s' = s /\ i_value i = 0%Z /\ (2 <= alen (i_args i))%N /\ i_caller i = i_rcpt i /\ i_snd i = true
    /\ (0 < bigZ (argn i 1))%Z /\ (cost <= i_gas i)%N.
  Proof.
    unfold check_local_action. intros H.
    bnd H as u1 s1 H1. apply check_basic_ok in H1 as (Hv & Hl & ->).
    bnd H as u2 s1 H1. apply guard_ok in H1 as [Hcr ->].
    bnd H as u3 s1 H1. apply guard_ok in H1 as [Hsnd ->].
    bnd H as a1 s1 H1. apply arg_argn in H1 as (-> & _ & ->). argnorm.
    bnd H as u4 s1 H1. apply guard_ok in H1 as [Hpos ->].
    apply guard_ok in H as [Hg ->].
    split; [reflexivity|]. split; [exact Hv|]. split; [exact Hl|]. split; [apply beqb_true; exact Hcr|].
    split; [exact Hsnd|]. split; [lia|apply negb_ltb_le; exact Hg].
  Qed.
  Lemma check_local_action_succeeds i cost s :
    i_value i = 0%Z -> (2 <= alen (i_args i))%N -> i_caller i = i_rcpt i -> i_snd i = true ->
    (0 < bigZ (argn i 1))%Z -> (cost <= i_gas i)%N ->
    check_local_action i cost s = (Ok tt, s).
  Proof.
    intros Hv Hl Hcr Hsnd Hpos Hg. unfold check_local_action.
    assert (G3 : beqb (i_caller i) (i_rcpt i) = true) by (rewrite Hcr; apply beqb_refl).
    assert (G4 : (0 <? bigZ (argn i 1))%Z = true) by lia.
    rewrite (bind_eq _ _ _ _ _ (check_basic_succeeds i s Hv Hl)).
    rewrite (bind_eq _ _ _ _ _ (guard_true _ _ _ G3)).
    rewrite (bind_eq _ _ _ _ _ (guard_true _ _ _ Hsnd)).
    assert (H1 : (1 < alen (i_args i))%N) by lia.
    rewrite (bind_eq _ _ _ _ _ (arg_argn_succeeds i 1 s H1)). argnorm.
    rewrite (bind_eq _ _ _ _ _ (guard_true _ _ _ G4)).
    apply guard_true. apply le_negb_ltb. exact Hg.
  Qed.

  Lemma check_create_burn_add_ok i cost s u s' :
    check_create_burn_add i cost s = (Ok u, s') ->
    s' = s /\ i_value i = 0%Z /\ (2 <= alen (i_args i))%N /\ i_caller i = i_rcpt i /\ i_snd i = true
    /\ (cost <= i_gas i)%N.
  Proof.
    unfold check_create_burn_add. intros H.
    bnd H as u1 s1 H1. apply check_basic_ok in H1 as (Hv & Hl & ->).
    bnd H as u2 s1 H1. apply guard_ok in H1 as [Hcr ->].
    bnd H as u3 s1 H1. apply guard_ok in H1 as [Hsnd ->].
    apply guard_ok in H as [Hg ->].
    split; [reflexivity|]. split; [exact Hv|]. split; [exact Hl|]. split; [apply beqb_true; exact Hcr|].
    split; [exact Hsnd|apply negb_ltb_le; exact Hg].
  Qed.
  Lemma check_create_burn_add_succeeds i cost s :
    i_value i = 0%Z -> (2 <= alen (i_args i))%N -> i_caller i = i_rcpt i -> i_snd i = true ->
    (cost <= i_gas i)%N ->
    check_create_burn_add i cost s = (Ok tt, s).
  Proof.
    intros Hv Hl Hcr Hsnd Hg. unfold check_create_burn_add.
    assert (G3 : beqb (i_caller i) (i_rcpt i) = true) by (rewrite Hcr; apply beqb_refl).
    rewrite (bind_eq _ _ _ _ _ (check_basic_succeeds i s Hv Hl)).
    rewrite (bind_eq _ _ _ _ _ (guard_true _ _ _ G3)).
    rewrite (bind_eq _ _ _ _ _ (guard_true _ _ _ Hsnd)).
    apply guard_true. apply le_negb_ltb. exact Hg.
  Qed.

  (* ---------------- the effect of add_to_esdt_balance, after read-only steps ---------------- *)
  (* [fungible_effect a key delta rae s s']: exactly the cell (a, key) was rewritten, holding a fungible entry whose
     value moved by delta *)
  Record fungible_effect (a key : bytes) (delta : Z) (rae : bool) (s s' : mstate) : Prop := {
    fe_nonneg : (0 <= balance E s a key + delta)%Z;
    fe_balance : balance E s' a key = (balance E s a key + delta)%Z;
    (* the entry read (absent = default_tok) and the entry stored (deleted iff value 0 and no property bits) *)
    fe_entry : exists t, tok_or_default E s a key = Some t /\ wf_token t /\ t_type t = C.Fungible /\ t_value t <> None
                 /\ tok_at E s' a key =
                    (if ((balance E s a key + delta =? 0)%Z && all_zero (t_props t))%bool then None
                     else Some (set_value t (Some (balance E s a key + delta)%Z)));
    fe_frozen_paused : rae = false -> a <> SC -> frozen_at E s a key = false /\ paused_at s key = false;
    fe_frame : unchanged_except (fun a' k' => a' = a /\ k' = key) (fun _ => False) s s';
    fe_touches : touches [a] s s';               (* only account a was written (form for sums over accounts) *)
    fe_nofault : nofault E s s' }.

  Lemma rd_add_to_esdt_balance a key delta rae s s1 u s' :
    rd E s s1 -> add_to_esdt_balance E a key delta rae s1 = (Ok u, s') -> fungible_effect a key delta rae s s'.
  Proof.
    intros Hr H.
    assert (Hto : touches [a] s s').
    { pose proof (add_to_esdt_balance_inv E Hc _ _ _ _ _ _ _ H) as (t & v & _ & _ & _ & _ & _ & _ & Hw).
      eapply touches_trans; [apply (touches_rd E _ _ _ Hr)|].
      eapply (touches_wr E); [repeat constructor; simpl; tauto|left; reflexivity|exact Hw]. }
    apply (add_to_esdt_balance_ok E Hc) in H as (H1 & H2 & (t & Ht & Hwf & Hty & Hv & Hta) & H4 & H5 & H6).
    rewrite (rd_balance _ _ _ a key Hr) in *. rewrite (rd_tod _ _ _ a key Hr) in Ht.
    rewrite (rd_frozen_at _ _ _ a key Hr), (rd_paused_at _ _ _ key Hr) in H4.
    constructor; auto.
    - exists t. auto.
    - eapply unchanged_except_trans; [apply (rd_unchanged _ _ _ _ _ Hr)|exact H5].
    - eapply nofault_trans; [apply (rd_nofault _ _ _ Hr)|exact H6].
  Qed.

  (* ================================================================== *)
  (* 1. ESDTLocalMint                                                    *)
  (* ================================================================== *)
  Record local_mint_post (i : input) (s : mstate) (o : output) (s' : mstate) : Prop := {
    (* guards *)
    lm_value : i_value i = 0%Z;
    lm_nargs : (2 <= alen (i_args i))%N;
    lm_self : i_caller i = i_rcpt i;
    lm_snd : i_snd i = true;
    lm_amount_pos : (0 < bigZ (argn i 1))%Z;
    lm_amount_len : (zlen (argn i 1) <= C.MaxLenForESDTIssueMint)%N;
    lm_gas : (g_ESDTLocalMint G <= i_gas i)%N;
    lm_role : has_role E s (i_caller i) (argn i 0) C.ESDTRoleLocalMint = true;
    (* effects: one cell, (caller, P ++ tok), value + amount *)
    lm_effect : fungible_effect (i_caller i) (P ++ argn i 0) (bigZ (argn i 1)) (i_rae i) s s';
    lm_out : o = add_log (mk_out C.Ok (sub64 (i_gas i) (g_ESDTLocalMint G)))
                         (log_esdt C.BuiltInFunctionESDTLocalMint (argn i 0) (bigZ (argn i 1)) (i_caller i) []) }.

  Lemma f_local_mint_spec i s o s' : f_local_mint E i s = (Ok o, s') -> local_mint_post i s o s'.
  Proof.
    unfold f_local_mint. intros H. cbv zeta in H.
    bnd H as u1 s1 H1. apply check_local_action_ok in H1 as (-> & Hv & Hl & Hcr & Hsnd & Hpos & Hg).
    bnd H as tok s1 H1. apply arg_argn in H1 as (-> & _ & ->).
    bnd H as u2 s1 H1. apply check_allowed_ok in H1 as (_ & Hrole & Hrd).
    bnd H as a1 s2 H2. apply arg_argn in H2 as (-> & _ & ->). argnorm.
    bnd H as u3 s2 H2. apply guard_ok in H2 as [Hlen ->].
    bnd H as u4 s2 H2. apply ret_ok in H as [-> ->].
    constructor; auto.
    - apply negb_ltb_le. exact Hlen.
    - eapply rd_add_to_esdt_balance; eauto.
  Qed.

  (* ================================================================== *)
  (* 2. ESDTLocalBurn                                                    *)
  (* ================================================================== *)
  Record local_burn_post (i : input) (s : mstate) (o : output) (s' : mstate) : Prop := {
    lb_value : i_value i = 0%Z;
    lb_nargs : (2 <= alen (i_args i))%N;
    lb_self : i_caller i = i_rcpt i;
    lb_snd : i_snd i = true;
    lb_amount_pos : (0 < bigZ (argn i 1))%Z;
    lb_gas : (g_ESDTLocalBurn G <= i_gas i)%N;
    lb_role : has_role E s (i_caller i) (argn i 0) C.ESDTRoleLocalBurn = true;
    (* effects: one cell, (caller, P ++ tok), value - amount (fe_nonneg: amount <= holding) *)
    lb_effect : fungible_effect (i_caller i) (P ++ argn i 0) (- bigZ (argn i 1)) (i_rae i) s s';
    lb_out : o = add_log (mk_out C.Ok (sub64 (i_gas i) (g_ESDTLocalBurn G)))
                         (log_esdt C.BuiltInFunctionESDTLocalBurn (argn i 0) (bigZ (argn i 1)) (i_caller i) []) }.

  Lemma f_local_burn_spec i s o s' : f_local_burn E i s = (Ok o, s') -> local_burn_post i s o s'.
  Proof.
    unfold f_local_burn. intros H. cbv zeta in H.
    bnd H as u1 s1 H1. apply check_local_action_ok in H1 as (-> & Hv & Hl & Hcr & Hsnd & Hpos & Hg).
    bnd H as tok s1 H1. apply arg_argn in H1 as (-> & _ & ->).
    bnd H as u2 s1 H1. apply check_allowed_ok in H1 as (_ & Hrole & Hrd).
    bnd H as a1 s2 H2. apply arg_argn in H2 as (-> & _ & ->). argnorm.
    bnd H as u4 s2 H2. apply ret_ok in H as [-> ->].
    constructor; auto.
    eapply rd_add_to_esdt_balance; eauto.
  Qed.

  (* ================================================================== *)
  (* 3. ESDTBurn (hand the tokens back to the system contract)           *)
  (* ================================================================== *)
  Definition esdt_burn_out (i : input) : output :=
    let o := mk_out C.Ok (compute_gas_remaining (i_snd i) (i_gas i) (g_ESDTBurn G)) in
    let o := if is_sc (i_caller i)
             then add_output_transfer (i_caller i) C.BuiltInFunctionESDTBurn (i_args i) (i_rcpt i) (i_gasLocked i) (i_callType i) o
             else o in
    add_log o (log_esdt C.BuiltInFunctionESDTBurn (argn i 0) (bigZ (argn i 1)) (i_caller i) []).

  Record esdt_burn_post (i : input) (s : mstate) (o : output) (s' : mstate) : Prop := {
    eb_value : i_value i = 0%Z;
    eb_nargs : alen (i_args i) = 2%N;
    eb_rcpt : i_rcpt i = SC;                       (* no role: the recipient must be the system contract *)
    eb_snd : i_snd i = true;
    eb_amount_pos : (0 < bigZ (argn i 1))%Z;
    eb_gas : (g_ESDTBurn G <= i_gas i)%N;
    eb_effect : fungible_effect (i_caller i) (P ++ argn i 0) (- bigZ (argn i 1)) (i_rae i) s s';
    eb_out : o = esdt_burn_out i }.

  Lemma f_esdt_burn_spec i s o s' : f_esdt_burn E i s = (Ok o, s') -> esdt_burn_post i s o s'.
  Proof.
    unfold f_esdt_burn. intros H. cbv zeta in H.
    bnd H as u1 s1 H1. apply check_basic_ok in H1 as (Hv & _ & ->).
    bnd H as u2 s1 H1. apply guard_ok in H1 as [Hl ->].
    bnd H as tok s1 H1. apply arg_argn in H1 as (-> & _ & ->).
    bnd H as a1 s1 H1. apply arg_argn in H1 as (-> & _ & ->). argnorm.
    bnd H as u3 s1 H1. apply guard_ok in H1 as [Hpos ->].
    bnd H as u4 s1 H1. apply guard_ok in H1 as [Hsc ->].
    bnd H as u5 s1 H1. apply guard_ok in H1 as [Hsnd ->].
    bnd H as u6 s1 H1. apply guard_ok in H1 as [Hg ->].
    bnd H as u7 s1 H1. apply ret_ok in H as [-> ->].
    constructor; auto.
    - lia.
    - apply beqb_true. exact Hsc.
    - lia.
    - apply negb_ltb_le. exact Hg.
    - eapply rd_add_to_esdt_balance; [apply rd_refl|eauto].
  Qed.

  (* ================================================================== *)
  (* 4. ESDTNFTCreate                                                    *)
  (* ================================================================== *)
  (* gas used, the nonce given to the new token, the stored entry *)
  Definition create_use (i : input) : N :=
    u64 (u64 (total_len (i_args i) * g_StorePerByte G) + g_ESDTNFTCreate G).
  Definition create_nonce (i : input) (s : mstate) : N := u64 (counter_at s (i_caller i) (argn i 0) + 1).
  Definition created_token (i : input) (s : mstate) : token :=
    {| t_type := C.NonFungible; t_value := Some (bigZ (argn i 1)); t_props := [];
       t_meta := Some {| md_nonce := create_nonce i s; md_name := argn i 2; md_creator := i_caller i;
                         md_royalties := u32 (bigU64 (argn i 3)); md_hash := argn i 4;
                         md_uris := skipn 6 (i_args i); md_attributes := argn i 5 |};
       t_reserved := [] |}.
  Lemma wf_created_token i s : wf_token (created_token i s).
  Proof.
    split; [vm_compute; reflexivity|]. split; [apply u64_lt|apply u32_lt].
  Qed.

  Lemma wr_two_frame a k1 v1 k2 v2 s s1 s' : wr E a k1 v1 s s1 -> wr E a k2 v2 s1 s' ->
    unchanged_except (fun a' k' => a' = a /\ (k' = k1 \/ k' = k2)) (fun _ => False) s s'.
  Proof.
    intros H1 H2. eapply unchanged_except_trans.
    - eapply unchanged_except_weaken; [| |apply (wr_unchanged _ _ _ _ _ _ H1)]; [|auto]. intros a' k' [? ?]. auto.
    - eapply unchanged_except_weaken; [| |apply (wr_unchanged _ _ _ _ _ _ H2)]; [|auto]. intros a' k' [? ?]. auto.
  Qed.

  Record nft_create_post (i : input) (s : mstate) (o : output) (s' : mstate) : Prop := {
    (* guards *)
    nc_value : i_value i = 0%Z;
    nc_nargs : (7 <= alen (i_args i))%N;
    nc_self : i_caller i = i_rcpt i;
    nc_snd : i_snd i = true;
    nc_gas_base : (g_ESDTNFTCreate G <= i_gas i)%N;
    nc_gas : (create_use i <= i_gas i)%N;
    nc_role : has_role E s (i_caller i) (argn i 0) C.ESDTRoleNFTCreate = true;
    nc_royalties : (u32 (bigU64 (argn i 3)) <= C.MaxRoyalty)%N;
    nc_quantity_pos : (0 < bigZ (argn i 1))%Z;
    nc_role_quantity : (1 < bigZ (argn i 1))%Z ->
                       has_role E s (i_caller i) (argn i 0) C.ESDTRoleNFTAddQuantity = true;
    (* the new entry has no property bits, so only the pause flags matter *)
    nc_paused : i_rae i = false -> i_caller i <> SC ->
                paused_at s (P ++ argn i 0) = false
                /\ paused_at s (nft_key (P ++ argn i 0) (create_nonce i s)) = false;
    (* effects: two cells of the caller: the entry under the next nonce, and the counter *)
    nc_wf : wf_token (created_token i s);
    nc_entry : tok_at E s' (i_caller i) (nft_key (P ++ argn i 0) (create_nonce i s)) = Some (created_token i s);
    nc_balance : balance E s' (i_caller i) (nft_key (P ++ argn i 0) (create_nonce i s)) = bigZ (argn i 1);
    nc_counter : counter_at s' (i_caller i) (argn i 0) = create_nonce i s;
    nc_frame : unchanged_except
                 (fun a k => a = i_caller i /\ (k = nft_key (P ++ argn i 0) (create_nonce i s) \/ k = NP ++ argn i 0))
                 (fun _ => False) s s';
    nc_touches : touches [i_caller i] s s';
    nc_nofault : nofault E s s';
    nc_out : o = add_log (set_returnData (mk_out C.Ok (sub64 (i_gas i) (create_use i))) [u64_bytes (create_nonce i s)])
                         (log_nft C.BuiltInFunctionESDTNFTCreate (i_caller i) (argn i 0) (create_nonce i s)
                                  [enc_tok (cdc E) (created_token i s)]);
    nc_retdata : o_returnData o = [u64_bytes (create_nonce i s)] }.

  Lemma f_nft_create_spec i s o s' : f_nft_create E i s = (Ok o, s') -> nft_create_post i s o s'.
  Proof.
    unfold f_nft_create. intros H. cbv zeta in H.
    bnd H as u1 s1 H1. apply check_create_burn_add_ok in H1 as (-> & Hv & _ & Hcr & Hsnd & Hg0).
    bnd H as u2 s1 H1. apply guard_ok in H1 as [Hl ->]. apply negb_ltb_le in Hl.
    bnd H as tok s1 H1. apply arg_argn in H1 as (-> & _ & ->).
    bnd H as u3 s1 H1. apply check_allowed_ok in H1 as (_ & Hrole & Hrd1).
    bnd H as n s2 H2. apply get_latest_nonce_ok in H2 as [-> ->].
    rewrite (rd_counter_at _ _ _ (i_caller i) _ Hrd1) in H.
    bnd H as u4 s2 H2. apply guard_ok in H2 as [Hg ->]. apply negb_ltb_le in Hg.
    bnd H as a3 s2 H2. apply arg_argn in H2 as (-> & _ & ->).
    bnd H as u5 s2 H2. apply guard_ok in H2 as [Hroy ->]. apply negb_ltb_le in Hroy.
    bnd H as a1 s2 H2. apply arg_argn in H2 as (-> & _ & ->).
    bnd H as u6 s2 H2. apply guard_ok in H2 as [Hq ->].
    bnd H as u7 s2 H2.
    assert (Hrd2 : rd E s s2 /\ ((1 < bigZ (argn i (N.to_nat 1)))%Z ->
                                 has_role E s (i_caller i) (argn i (N.to_nat 0)) C.ESDTRoleNFTAddQuantity = true)).
    { destruct (1 <? bigZ (argn i (N.to_nat 1)))%Z eqn:E1.
      - apply check_allowed_ok in H2 as (_ & Hrole2 & Hrd2).
        rewrite (rd_has_role _ _ _ _ _ _ Hrd1) in Hrole2. split; [eapply rd_trans; eauto|auto].
      - apply ret_ok in H2 as [_ ->]. split; [exact Hrd1|]. intros. lia. }
    destruct Hrd2 as [Hrd2 Hrole2]. clear H2 Hrd1.
    bnd H as a2 s3 H3. apply arg_argn in H3 as (-> & _ & ->).
    bnd H as a4 s3 H3. apply arg_argn in H3 as (-> & _ & ->).
    bnd H as a5 s3 H3. apply arg_argn in H3 as (-> & _ & ->).
    bnd H as uris s3 H3. apply args_from_ok in H3 as (_ & -> & ->).
    argnorm.
    bnd H as b s3 H3.
    bnd H as u8 s4 H4. apply ret_ok in H as [-> <-].
    fold (create_nonce i s) in *. fold (create_use i) in *. fold (created_token i s) in *.
    pose proof (wf_created_token i s) as Hwf.
    apply save_nft_ok in H3 as (v & Hval & -> & Hw1 & Hfp).
    change (tok_nonce (created_token i s)) with (create_nonce i s) in *.
    change (t_value (created_token i s)) with (Some (bigZ (argn i 1))) in Hval. inversion Hval; subst v. clear Hval.
    assert (Hq' : (0 < bigZ (argn i 1))%Z) by lia.
    destruct (bigZ (argn i 1) <=? 0)%Z eqn:Eq; [lia|].
    apply save_latest_nonce_ok in H4 as [Hw2 Hcnt].
    pose proof (rd_wr _ _ _ _ _ _ _ Hrd2 Hw1) as Hw1'.
    assert (Hne : nft_key (P ++ argn i 0) (create_nonce i s) <> NP ++ argn i 0) by apply nft_key_NP_disjoint.
    assert (Hent : tok_at E s' (i_caller i) (nft_key (P ++ argn i 0) (create_nonce i s)) = Some (created_token i s)).
    { rewrite (wr_tok_at_other _ _ _ _ _ _ _ _ Hw2) by (right; exact Hne).
      eapply wr_tok_at_enc; eauto. }
    constructor; auto.
    - intros h1 h2. destruct (Hfp h1 h2) as (_ & P1 & P2).
      rewrite <- (rd_paused_at _ _ _ _ Hrd2), <- (rd_paused_at _ _ _ (nft_key _ _) Hrd2). auto.
    - rewrite (balance_tok_at _ _ _ _ _ Hent). reflexivity.
    - rewrite Hcnt. apply u64_small. apply u64_lt.
    - eapply wr_two_frame; eauto.
    - assert (HL : NoDup [i_caller i]) by (repeat constructor; simpl; tauto).
      eapply touches_trans; eapply (touches_wr E); eauto; left; reflexivity.
    - eapply nofault_trans; [apply (wr_nofault _ _ _ _ _ _ Hw1')|apply (wr_nofault _ _ _ _ _ _ Hw2)].
  Qed.

  (* ================================================================== *)
  (* 5. The four functions that rewrite an existing NFT entry            *)
  (* ================================================================== *)
  Lemma wf_meta_of t m : wf_token t -> t_meta t = Some m -> wf_metadata m.
  Proof. unfold wf_token. intros [_ H] Hm. rewrite Hm in H. exact H. Qed.
  Lemma wf_set_meta t m' : wf_token t -> wf_metadata m' -> wf_token (set_meta t (Some m')).
  Proof. unfold wf_token. intros [H _] Hm. split; [exact H|exact Hm]. Qed.

  (* [nft_update a key nonce t m t' rae s s']: the entry t (metadata m) was found under nft_key key nonce and the
     entry t' was stored -- under the nonce recorded IN THE METADATA, [md_nonce m] (finding F4b: it need not be
     the requested nonce); the entry is deleted when the value of t' is not positive *)
  Record nft_update (a key : bytes) (nonce : N) (t : token) (m : metadata) (t' : token) (rae : bool)
         (s s' : mstate) : Prop := {
    nu_nonce : nonce <> 0%N;
    nu_found : tok_at E s a (nft_key key nonce) = Some t;
    nu_wf : wf_token t;
    nu_meta : t_meta t = Some m;
    nu_wf' : wf_token t';
    nu_value' : t_value t' <> None;
    nu_frozen_paused : rae = false -> a <> SC ->
        frozen_at E s a (nft_key key nonce) = false /\ paused_at s key = false
        /\ paused_at s (nft_key key (md_nonce m)) = false;
    nu_stored : tok_at E s' a (nft_key key (md_nonce m)) = (if (val_or_0 t' <=? 0)%Z then None else Some t');
    nu_balance : balance E s' a (nft_key key (md_nonce m)) = Z.max 0 (val_or_0 t');
    nu_frame : unchanged_except (fun a' k' => a' = a /\ k' = nft_key key (md_nonce m)) (fun _ => False) s s';
    nu_touches : touches [a] s s';
    nu_nofault : nofault E s s' }.

  Lemma nft_found a key nonce s s1 t s2 :
    rd E s s1 -> get_nft_on_sender E a key nonce s1 = (Ok t, s2) -> nonce <> 0%N ->
    rd E s s2 /\ wf_token t /\ tok_at E s a (nft_key key nonce) = Some t /\ exists m, t_meta t = Some m.
  Proof.
    intros Hr H Hn. apply (get_nft_on_sender_ok E Hc) in H as (Hr2 & Hwf & Ht & Hm & _).
    split; [eapply rd_trans; eauto|]. split; [exact Hwf|].
    split; [rewrite <- (rd_tok_at _ _ _ a _ Hr); exact Ht|]. apply Hm. lia.
  Qed.

  Lemma save_nft_update a key nonce t m t' rae s s2 b s' :
    nonce <> 0%N -> rd E s s2 -> tok_at E s a (nft_key key nonce) = Some t -> wf_token t -> t_meta t = Some m ->
    wf_token t' -> tok_nonce t' = md_nonce m -> t_props t' = t_props t ->
    save_nft E a key t' rae s2 = (Ok b, s') ->
    nft_update a key nonce t m t' rae s s'
    /\ b = (if (val_or_0 t' <=? 0)%Z then [] else enc_tok (cdc E) t').
  Proof.
    intros Hn Hr Ht Hwf Hm Hwf' Hno Hpr H.
    pose proof (save_nft_tok_at E Hc _ _ _ _ _ _ _ Hwf' H) as Hst.
    pose proof (save_nft_balance E Hc _ _ _ _ _ _ _ Hwf' H) as Hb.
    apply save_nft_ok in H as (v' & Hv' & -> & Hw & Hfp).
    rewrite Hno in *. rewrite Hpr in Hfp.
    pose proof (rd_wr _ _ _ _ _ _ _ Hr Hw) as Hw'.
    split.
    - constructor; auto.
      + congruence.
      + intros h1 h2. destruct (Hfp h1 h2) as (F1 & P1 & P2). unfold frozen_at. rewrite Ht.
        rewrite <- (rd_paused_at _ _ _ key Hr), <- (rd_paused_at _ _ _ (nft_key _ _) Hr). auto.
      + apply (wr_unchanged _ _ _ _ _ _ Hw').
      + eapply (touches_wr E); [repeat constructor; simpl; tauto|left; reflexivity|exact Hw'].
      + apply (wr_nofault _ _ _ _ _ _ Hw').
    - unfold val_or_0. rewrite Hv'. reflexivity.
  Qed.

  (* ---------------- ESDTNFTAddQuantity ---------------- *)
  Record nft_add_quantity_post (i : input) (s : mstate) (o : output) (s' : mstate)
         (t : token) (m : metadata) (v : Z) : Prop := {
    aq_value : i_value i = 0%Z;
    aq_nargs : (3 <= alen (i_args i))%N;
    aq_self : i_caller i = i_rcpt i;
    aq_snd : i_snd i = true;
    aq_gas : (g_ESDTNFTAddQuantity G <= i_gas i)%N;
    aq_role : has_role E s (i_caller i) (argn i 0) C.ESDTRoleNFTAddQuantity = true;
    aq_entry_value : t_value t = Some v;
    aq_update : nft_update (i_caller i) (P ++ argn i 0) (bigU64 (argn i 1)) t m
                           (set_value t (Some (v + bigZ (argn i 2))%Z)) (i_rae i) s s';
    aq_out : o = add_log (mk_out C.Ok (sub64 (i_gas i) (g_ESDTNFTAddQuantity G)))
                         (log_nft C.BuiltInFunctionESDTNFTAddQuantity (i_caller i) (argn i 0) (bigU64 (argn i 1)) []) }.

  Lemma f_nft_add_quantity_spec i s o s' : f_nft_add_quantity E i s = (Ok o, s') ->
    exists t m v, nft_add_quantity_post i s o s' t m v.
  Proof.
    unfold f_nft_add_quantity. intros H. cbv zeta in H.
    bnd H as u1 s1 H1. apply check_create_burn_add_ok in H1 as (-> & Hv & _ & Hcr & Hsnd & Hg0).
    bnd H as u2 s1 H1. apply guard_ok in H1 as [Hl ->]. apply negb_ltb_le in Hl.
    bnd H as tok s1 H1. apply arg_argn in H1 as (-> & _ & ->).
    bnd H as u3 s1 H1. apply check_allowed_ok in H1 as (_ & Hrole & Hrd1).
    bnd H as a1 s2 H2. apply arg_argn in H2 as (-> & _ & ->).
    bnd H as u4 s2 H2. apply guard_ok in H2 as [Hn ->].
    assert (Hn' : bigU64 (argn i (N.to_nat 1)) <> 0%N) by (intros Hz; rewrite Hz in Hn; discriminate).
    bnd H as t s2 H2. apply (nft_found _ _ _ _ _ _ _ Hrd1) in H2 as (Hrd2 & Hwf & Ht & (m & Hm)); [|exact Hn'].
    bnd H as v s3 H3. apply val_of_ok in H3 as [Hval ->].
    bnd H as a2 s3 H3. apply arg_argn in H3 as (-> & _ & ->). argnorm.
    bnd H as b s3 H3. apply ret_ok in H as [-> <-].
    eapply save_nft_update in H3 as [Hu _]; eauto.
    2: { unfold tok_nonce. simpl. rewrite Hm. reflexivity. }
    exists t, m, v. constructor; auto.
  Qed.

  (* ---------------- ESDTNFTBurn ---------------- *)
  Record nft_burn_post (i : input) (s : mstate) (o : output) (s' : mstate)
         (t : token) (m : metadata) (v : Z) : Prop := {
    nb_value : i_value i = 0%Z;
    nb_nargs : (3 <= alen (i_args i))%N;
    nb_self : i_caller i = i_rcpt i;
    nb_snd : i_snd i = true;
    nb_gas : (g_ESDTNFTBurn G <= i_gas i)%N;
    nb_role : has_role E s (i_caller i) (argn i 0) C.ESDTRoleNFTBurn = true;
    nb_entry_value : t_value t = Some v;
    nb_enough : (bigZ (argn i 2) <= v)%Z;          (* quantity burnt <= quantity held *)
    nb_update : nft_update (i_caller i) (P ++ argn i 0) (bigU64 (argn i 1)) t m
                           (set_value t (Some (v - bigZ (argn i 2))%Z)) (i_rae i) s s';
    nb_out : o = add_log (mk_out C.Ok (sub64 (i_gas i) (g_ESDTNFTBurn G)))
                         (log_nft C.BuiltInFunctionESDTNFTBurn (i_caller i) (argn i 0) (bigU64 (argn i 1)) []) }.

  Lemma f_nft_burn_spec i s o s' : f_nft_burn E i s = (Ok o, s') ->
    exists t m v, nft_burn_post i s o s' t m v.
  Proof.
    unfold f_nft_burn. intros H. cbv zeta in H.
    bnd H as u1 s1 H1. apply check_create_burn_add_ok in H1 as (-> & Hv & _ & Hcr & Hsnd & Hg0).
    bnd H as u2 s1 H1. apply guard_ok in H1 as [Hl ->]. apply negb_ltb_le in Hl.
    bnd H as tok s1 H1. apply arg_argn in H1 as (-> & _ & ->).
    bnd H as u3 s1 H1. apply check_allowed_ok in H1 as (_ & Hrole & Hrd1).
    bnd H as a1 s2 H2. apply arg_argn in H2 as (-> & _ & ->).
    bnd H as u4 s2 H2. apply guard_ok in H2 as [Hn ->].
    assert (Hn' : bigU64 (argn i (N.to_nat 1)) <> 0%N) by (intros Hz; rewrite Hz in Hn; discriminate).
    bnd H as t s2 H2. apply (nft_found _ _ _ _ _ _ _ Hrd1) in H2 as (Hrd2 & Hwf & Ht & (m & Hm)); [|exact Hn'].
    bnd H as v s3 H3. apply val_of_ok in H3 as [Hval ->].
    bnd H as a2 s3 H3. apply arg_argn in H3 as (-> & _ & ->). argnorm.
    bnd H as u5 s3 H3. apply guard_ok in H3 as [Hq ->].
    bnd H as b s3 H3. apply ret_ok in H as [-> <-].
    eapply save_nft_update in H3 as [Hu _]; eauto.
    2: { unfold tok_nonce. simpl. rewrite Hm. reflexivity. }
    exists t, m, v. constructor; auto. lia.
  Qed.

  (* ---------------- ESDTNFTAddURI ---------------- *)
  Definition add_uri_store (i : input) : N := u64 (total_len (skipn 2 (i_args i)) * g_StorePerByte G).
  Record nft_add_uri_post (i : input) (s : mstate) (o : output) (s' : mstate)
         (t : token) (m : metadata) (v : Z) : Prop := {
    au_value : i_value i = 0%Z;
    au_nargs : (3 <= alen (i_args i))%N;
    au_self : i_caller i = i_rcpt i;
    au_snd : i_snd i = true;
    au_gas_base : (g_ESDTNFTAddURI G <= i_gas i)%N;
    au_gas : (u64 (g_ESDTNFTAddURI G + add_uri_store i) <= i_gas i)%N;
    au_role : has_role E s (i_caller i) (argn i 0) C.ESDTRoleNFTAddURI = true;
    au_entry_value : t_value t = Some v;
    (* stored: the old entry with the new URIs (arguments 2..) appended; everything else as found *)
    au_update : nft_update (i_caller i) (P ++ argn i 0) (bigU64 (argn i 1)) t m
                           (set_meta t (Some (set_uris m (md_uris m ++ skipn 2 (i_args i))))) (i_rae i) s s';
    au_out : o = add_log (mk_out C.Ok (sub64 (sub64 (i_gas i) (g_ESDTNFTAddURI G)) (add_uri_store i)))
                         (log_nft C.BuiltInFunctionESDTNFTAddURI (i_caller i) (argn i 0) (bigU64 (argn i 1)) []) }.

  Lemma f_nft_add_uri_spec i s o s' : f_nft_add_uri E i s = (Ok o, s') ->
    exists t m v, nft_add_uri_post i s o s' t m v.
  Proof.
    unfold f_nft_add_uri. intros H. cbv zeta in H.
    bnd H as u1 s1 H1. apply check_create_burn_add_ok in H1 as (-> & Hv & _ & Hcr & Hsnd & Hg0).
    bnd H as u2 s1 H1. apply guard_ok in H1 as [Hl ->]. apply negb_ltb_le in Hl.
    bnd H as tok s1 H1. apply arg_argn in H1 as (-> & _ & ->).
    bnd H as u3 s1 H1. apply check_allowed_ok in H1 as (_ & Hrole & Hrd1).
    bnd H as uris s2 H2. apply args_from_ok in H2 as (_ & -> & ->).
    bnd H as u4 s2 H2. apply guard_ok in H2 as [Hg ->]. apply negb_ltb_le in Hg.
    bnd H as a1 s2 H2. apply arg_argn in H2 as (-> & _ & ->).
    bnd H as u5 s2 H2. apply guard_ok in H2 as [Hn ->].
    assert (Hn' : bigU64 (argn i (N.to_nat 1)) <> 0%N) by (intros Hz; rewrite Hz in Hn; discriminate).
    bnd H as t s2 H2. apply (nft_found _ _ _ _ _ _ _ Hrd1) in H2 as (Hrd2 & Hwf & Ht & (m & Hm)); [|exact Hn'].
    bnd H as m' s3 H3. apply meta_of_ok in H3 as [Hm' ->].
    assert (m' = m) by congruence. subst m'. clear Hm'. argnorm.
    bnd H as b s3 H3. apply ret_ok in H as [-> <-].
    eapply save_nft_update in H3 as [Hu _]; eauto.
    2: { apply wf_set_meta; [exact Hwf|]. exact (wf_meta_of _ _ Hwf Hm). }
    destruct (t_value t) as [v|] eqn:Hval.
    2: { exfalso. apply (nu_value' _ _ _ _ _ _ _ _ _ Hu). exact Hval. }
    exists t, m, v. constructor; auto.
  Qed.

  (* ---------------- ESDTNFTUpdateAttributes ---------------- *)
  Definition update_attributes_store (i : input) : N := u64 (zlen (argn i 2) * g_StorePerByte G).
  Record nft_update_attributes_post (i : input) (s : mstate) (o : output) (s' : mstate)
         (t : token) (m : metadata) (v : Z) : Prop := {
    ua_value : i_value i = 0%Z;
    ua_nargs : alen (i_args i) = 3%N;
    ua_self : i_caller i = i_rcpt i;
    ua_snd : i_snd i = true;
    ua_gas_base : (g_ESDTNFTUpdateAttributes G <= i_gas i)%N;
    ua_gas : (u64 (g_ESDTNFTUpdateAttributes G + update_attributes_store i) <= i_gas i)%N;
    ua_role : has_role E s (i_caller i) (argn i 0) C.ESDTRoleNFTUpdateAttributes = true;
    ua_entry_value : t_value t = Some v;
    (* stored: the old entry with the attributes replaced by argument 2; everything else as found *)
    ua_update : nft_update (i_caller i) (P ++ argn i 0) (bigU64 (argn i 1)) t m
                           (set_meta t (Some (set_attributes m (argn i 2)))) (i_rae i) s s';
    ua_out : o = add_log (mk_out C.Ok (sub64 (sub64 (i_gas i) (g_ESDTNFTUpdateAttributes G)) (update_attributes_store i)))
                         (log_nft C.BuiltInFunctionESDTNFTUpdateAttributes (i_caller i) (argn i 0) (bigU64 (argn i 1)) []) }.

  Lemma f_nft_update_attributes_spec i s o s' : f_nft_update_attributes E i s = (Ok o, s') ->
    exists t m v, nft_update_attributes_post i s o s' t m v.
  Proof.
    unfold f_nft_update_attributes. intros H. cbv zeta in H.
    bnd H as u1 s1 H1. apply check_create_burn_add_ok in H1 as (-> & Hv & _ & Hcr & Hsnd & Hg0).
    bnd H as u2 s1 H1. apply guard_ok in H1 as [Hl ->]. apply N.eqb_eq in Hl.
    bnd H as tok s1 H1. apply arg_argn in H1 as (-> & _ & ->).
    bnd H as u3 s1 H1. apply check_allowed_ok in H1 as (_ & Hrole & Hrd1).
    bnd H as a2 s2 H2. apply arg_argn in H2 as (-> & _ & ->).
    bnd H as u4 s2 H2. apply guard_ok in H2 as [Hg ->]. apply negb_ltb_le in Hg.
    bnd H as a1 s2 H2. apply arg_argn in H2 as (-> & _ & ->).
    bnd H as u5 s2 H2. apply guard_ok in H2 as [Hn ->].
    assert (Hn' : bigU64 (argn i (N.to_nat 1)) <> 0%N) by (intros Hz; rewrite Hz in Hn; discriminate).
    bnd H as t s2 H2. apply (nft_found _ _ _ _ _ _ _ Hrd1) in H2 as (Hrd2 & Hwf & Ht & (m & Hm)); [|exact Hn'].
    bnd H as m' s3 H3. apply meta_of_ok in H3 as [Hm' ->].
    assert (m' = m) by congruence. subst m'. clear Hm'. argnorm.
    bnd H as b s3 H3. apply ret_ok in H as [-> <-].
    eapply save_nft_update in H3 as [Hu _]; eauto.
    2: { apply wf_set_meta; [exact Hwf|]. exact (wf_meta_of _ _ Hwf Hm). }
    destruct (t_value t) as [v|] eqn:Hval.
    2: { exfalso. apply (nu_value' _ _ _ _ _ _ _ _ _ Hu). exact Hval. }
    exists t, m, v. constructor; auto.
  Qed.
End Spec.

(* ================================================================== *)
(* 6. Derived corollaries, uniform over the eight functions            *)
(* ================================================================== *)
Inductive supply_fn :=
| SLocalMint | SLocalBurn | SEsdtBurn | SNftCreate | SNftAddQuantity | SNftBurn | SNftAddUri | SNftUpdateAttributes.

Definition run_supply (E : env) (f : supply_fn) : input -> MT output :=
  match f with
  | SLocalMint => f_local_mint E | SLocalBurn => f_local_burn E | SEsdtBurn => f_esdt_burn E
  | SNftCreate => f_nft_create E | SNftAddQuantity => f_nft_add_quantity E | SNftBurn => f_nft_burn E
  | SNftAddUri => f_nft_add_uri E | SNftUpdateAttributes => f_nft_update_attributes E
  end.
Definition supply_name (f : supply_fn) : bytes :=
  match f with
  | SLocalMint => C.BuiltInFunctionESDTLocalMint | SLocalBurn => C.BuiltInFunctionESDTLocalBurn
  | SEsdtBurn => C.BuiltInFunctionESDTBurn | SNftCreate => C.BuiltInFunctionESDTNFTCreate
  | SNftAddQuantity => C.BuiltInFunctionESDTNFTAddQuantity | SNftBurn => C.BuiltInFunctionESDTNFTBurn
  | SNftAddUri => C.BuiltInFunctionESDTNFTAddURI | SNftUpdateAttributes => C.BuiltInFunctionESDTNFTUpdateAttributes
  end.
(* the dispatch reaches exactly these functions under these names *)
Lemma exec_supply E f i : exec E (supply_name f) i = run_supply E f i.
Proof. destruct f; reflexivity. Qed.

(* the role the caller must hold (None: ESDTBurn, which instead requires recipient = system contract) *)
Definition supply_role (f : supply_fn) : option bytes :=
  match f with
  | SLocalMint => Some C.ESDTRoleLocalMint | SLocalBurn => Some C.ESDTRoleLocalBurn | SEsdtBurn => None
  | SNftCreate => Some C.ESDTRoleNFTCreate | SNftAddQuantity => Some C.ESDTRoleNFTAddQuantity
  | SNftBurn => Some C.ESDTRoleNFTBurn | SNftAddUri => Some C.ESDTRoleNFTAddURI
  | SNftUpdateAttributes => Some C.ESDTRoleNFTUpdateAttributes
  end.
(* the token cell of the caller that the call is about (full storage key) *)
Definition supply_key (f : supply_fn) (i : input) (s : mstate) : bytes :=
  match f with
  | SLocalMint | SLocalBurn | SEsdtBurn => P ++ argn i 0
  | SNftCreate => nft_key (P ++ argn i 0) (create_nonce i s)
  | _ => nft_key (P ++ argn i 0) (bigU64 (argn i 1))
  end.
(* all cells the call may write (all in the caller's account) *)
Definition supply_cells (f : supply_fn) (i : input) (s : mstate) : list bytes :=
  match f with
  | SNftCreate => [supply_key f i s; NP ++ argn i 0]
  | _ => [supply_key f i s]
  end.
(* the amount by which the caller's holding under [supply_key] moves *)
Definition supply_delta (f : supply_fn) (i : input) : Z :=
  match f with
  | SLocalMint => bigZ (argn i 1) | SLocalBurn => - bigZ (argn i 1) | SEsdtBurn => - bigZ (argn i 1)
  | SNftCreate => bigZ (argn i 1) | SNftAddQuantity => bigZ (argn i 2) | SNftBurn => - bigZ (argn i 2)
  | SNftAddUri => 0 | SNftUpdateAttributes => 0
  end%Z.
(* F4b hypothesis, for the four functions that look an NFT entry up by (token id, nonce) *)
Definition supply_consistent (E : env) (f : supply_fn) (i : input) (s : mstate) : Prop :=
  match f with
  | SNftAddQuantity | SNftBurn | SNftAddUri | SNftUpdateAttributes =>
      lookup_consistent E s (i_caller i) (P ++ argn i 0) (bigU64 (argn i 1))
  | _ => True
  end.
(* state hypotheses of the balance equation (invariants of reachable states):
   create: nothing is stored yet under the nonce about to be given out;
   add quantity / add URI / update attributes: the stored value is not negative
   (a non-positive stored value makes save_nft delete the entry) *)
Definition supply_balance_pre (E : env) (f : supply_fn) (i : input) (s : mstate) : Prop :=
  match f with
  | SNftCreate => balance E s (i_caller i) (supply_key f i s) = 0%Z
  | SNftAddQuantity | SNftAddUri | SNftUpdateAttributes => (0 <= balance E s (i_caller i) (supply_key f i s))%Z
  | _ => True
  end.

Definition at_cell (a k a0 k0 : bytes) : bool := (beqb a a0 && beqb k k0)%bool.
Lemma at_cell_true a k a0 k0 : at_cell a k a0 k0 = true <-> a = a0 /\ k = k0.
Proof.
  unfold at_cell. destruct (beqb_spec a a0), (beqb_spec k k0); simpl; split; intros H; try discriminate; try tauto.
  all: destruct H; congruence.
Qed.
Lemma at_cell_false a k a0 k0 : at_cell a k a0 k0 = false <-> ~ (a = a0 /\ k = k0).
Proof. rewrite <- at_cell_true. destruct (at_cell a k a0 k0); split; intros; congruence. Qed.

Section Corollaries.
  Variable E : env.
  Hypothesis Hc : codec_ok (cdc E).
  Notation G := (gas E).

  (* ---------------- balance effect ---------------- *)
  Lemma frame1_balance a0 k0 d s s' :
    balance E s' a0 k0 = (balance E s a0 k0 + d)%Z ->
    unchanged_except (fun a k => a = a0 /\ k = k0) (fun _ => False) s s' ->
    forall a k, balance E s' a k = (balance E s a k + (if at_cell a k a0 k0 then d else 0))%Z.
  Proof.
    intros Hb Hf a k. destruct (at_cell a k a0 k0) eqn:Ec.
    - apply at_cell_true in Ec as [-> ->]. exact Hb.
    - apply at_cell_false in Ec. rewrite (ue_balance E _ _ _ _ Hf a k Ec). lia.
  Qed.
  Lemma fungible_effect_balance a0 k0 d rae s s' : fungible_effect E a0 k0 d rae s s' ->
    forall a k, balance E s' a k = (balance E s a k + (if at_cell a k a0 k0 then d else 0))%Z.
  Proof. intros [_ Hb _ _ Hf _ _]. apply frame1_balance; assumption. Qed.

  Lemma supply_balance_effect_local_mint i s o s' : f_local_mint E i s = (Ok o, s') ->
    forall a k, balance E s' a k =
      (balance E s a k + (if at_cell a k (i_caller i) (P ++ argn i 0) then bigZ (argn i 1) else 0))%Z.
  Proof. intros H. apply (f_local_mint_spec E Hc) in H. destruct H. eapply fungible_effect_balance; eauto. Qed.
  Lemma supply_balance_effect_local_burn i s o s' : f_local_burn E i s = (Ok o, s') ->
    forall a k, balance E s' a k =
      (balance E s a k + (if at_cell a k (i_caller i) (P ++ argn i 0) then - bigZ (argn i 1) else 0))%Z.
  Proof. intros H. apply (f_local_burn_spec E Hc) in H. destruct H. eapply fungible_effect_balance; eauto. Qed.
  Lemma supply_balance_effect_esdt_burn i s o s' : f_esdt_burn E i s = (Ok o, s') ->
    forall a k, balance E s' a k =
      (balance E s a k + (if at_cell a k (i_caller i) (P ++ argn i 0) then - bigZ (argn i 1) else 0))%Z.
  Proof. intros H. apply (f_esdt_burn_spec E Hc) in H. destruct H. eapply fungible_effect_balance; eauto. Qed.

  (* create: the entry cell is overwritten with quantity q, the counter cell is not a token cell *)
  Lemma supply_balance_effect_nft_create i s o s' : f_nft_create E i s = (Ok o, s') ->
    balance E s (i_caller i) (nft_key (P ++ argn i 0) (create_nonce i s)) = 0%Z ->
    forall a k, k <> NP ++ argn i 0 ->
      balance E s' a k =
      (balance E s a k + (if at_cell a k (i_caller i) (nft_key (P ++ argn i 0) (create_nonce i s))
                          then bigZ (argn i 1) else 0))%Z.
  Proof.
    intros H H0 a k Hk. apply (f_nft_create_spec E Hc) in H. destruct H.
    destruct (at_cell a k _ _) eqn:Ec.
    - apply at_cell_true in Ec as [-> ->]. rewrite H0. lia.
    - apply at_cell_false in Ec. rewrite (ue_balance E _ _ _ _ nc_frame0 a k); [lia|].
      intros (-> & [->| ->]); [apply Ec; auto|apply Hk; reflexivity].
  Qed.

  (* the four rewriting functions: general form (cell keyed by the METADATA nonce), then the consistent form *)
  Lemma nft_update_consistent a key nonce t m t' rae s s' :
    nft_update E a key nonce t m t' rae s s' -> lookup_consistent E s a key nonce -> md_nonce m = nonce.
  Proof.
    intros Hu Hlc. destruct Hu. specialize (Hlc _ nu_found0). unfold tok_nonce in Hlc. rewrite nu_meta0 in Hlc. exact Hlc.
  Qed.
  Lemma nft_update_balance a key nonce t m t' rae s s' :
    nft_update E a key nonce t m t' rae s s' -> lookup_consistent E s a key nonce ->
    forall a' k', balance E s' a' k' =
      (balance E s a' k' + (if at_cell a' k' a (nft_key key nonce) then Z.max 0 (val_or_0 t') - val_or_0 t else 0))%Z.
  Proof.
    intros Hu Hlc. pose proof (nft_update_consistent _ _ _ _ _ _ _ _ _ Hu Hlc) as Hn. destruct Hu. rewrite Hn in *.
    apply frame1_balance; [|assumption]. rewrite nu_balance0, (balance_tok_at E _ _ _ _ nu_found0). lia.
  Qed.

  Lemma supply_balance_effect_nft_add_quantity i s o s' : f_nft_add_quantity E i s = (Ok o, s') ->
    lookup_consistent E s (i_caller i) (P ++ argn i 0) (bigU64 (argn i 1)) ->
    (0 <= balance E s (i_caller i) (nft_key (P ++ argn i 0) (bigU64 (argn i 1))))%Z ->
    forall a k, balance E s' a k =
      (balance E s a k + (if at_cell a k (i_caller i) (nft_key (P ++ argn i 0) (bigU64 (argn i 1)))
                          then bigZ (argn i 2) else 0))%Z.
  Proof.
    intros H Hlc H0 a k. apply (f_nft_add_quantity_spec E Hc) in H as (t & m & v & H). destruct H.
    rewrite (nft_update_balance _ _ _ _ _ _ _ _ _ aq_update0 Hlc a k).
    destruct (at_cell a k _ _); [|reflexivity].
    rewrite (balance_tok_at E _ _ _ _ (nu_found _ _ _ _ _ _ _ _ _ _ aq_update0)) in H0.
    unfold val_or_0 in *. rewrite aq_entry_value0 in *. simpl. pose proof (bigZ_nonneg (argn i 2)). lia.
  Qed.
  Lemma supply_balance_effect_nft_burn i s o s' : f_nft_burn E i s = (Ok o, s') ->
    lookup_consistent E s (i_caller i) (P ++ argn i 0) (bigU64 (argn i 1)) ->
    forall a k, balance E s' a k =
      (balance E s a k + (if at_cell a k (i_caller i) (nft_key (P ++ argn i 0) (bigU64 (argn i 1)))
                          then - bigZ (argn i 2) else 0))%Z.
  Proof.
    intros H Hlc a k. apply (f_nft_burn_spec E Hc) in H as (t & m & v & H). destruct H.
    rewrite (nft_update_balance _ _ _ _ _ _ _ _ _ nb_update0 Hlc a k).
    destruct (at_cell a k _ _); [|reflexivity].
    unfold val_or_0. rewrite nb_entry_value0. simpl. lia.
  Qed.
  Lemma supply_balance_effect_nft_add_uri i s o s' : f_nft_add_uri E i s = (Ok o, s') ->
    lookup_consistent E s (i_caller i) (P ++ argn i 0) (bigU64 (argn i 1)) ->
    (0 <= balance E s (i_caller i) (nft_key (P ++ argn i 0) (bigU64 (argn i 1))))%Z ->
    forall a k, balance E s' a k = balance E s a k.
  Proof.
    intros H Hlc H0 a k. apply (f_nft_add_uri_spec E Hc) in H as (t & m & v & H). destruct H.
    rewrite (nft_update_balance _ _ _ _ _ _ _ _ _ au_update0 Hlc a k).
    destruct (at_cell a k _ _); [|lia].
    rewrite (balance_tok_at E _ _ _ _ (nu_found _ _ _ _ _ _ _ _ _ _ au_update0)) in H0.
    unfold val_or_0 in *. simpl. rewrite au_entry_value0 in *. lia.
  Qed.
  Lemma supply_balance_effect_nft_update_attributes i s o s' : f_nft_update_attributes E i s = (Ok o, s') ->
    lookup_consistent E s (i_caller i) (P ++ argn i 0) (bigU64 (argn i 1)) ->
    (0 <= balance E s (i_caller i) (nft_key (P ++ argn i 0) (bigU64 (argn i 1))))%Z ->
    forall a k, balance E s' a k = balance E s a k.
  Proof.
    intros H Hlc H0 a k. apply (f_nft_update_attributes_spec E Hc) in H as (t & m & v & H). destruct H.
    rewrite (nft_update_balance _ _ _ _ _ _ _ _ _ ua_update0 Hlc a k).
    destruct (at_cell a k _ _); [|lia].
    rewrite (balance_tok_at E _ _ _ _ (nu_found _ _ _ _ _ _ _ _ _ _ ua_update0)) in H0.
    unfold val_or_0 in *. simpl. rewrite ua_entry_value0 in *. lia.
  Qed.

  (* uniform statement *)
  Theorem supply_balance_effect f i s o s' :
    run_supply E f i s = (Ok o, s') -> supply_consistent E f i s -> supply_balance_pre E f i s ->
    forall a k, (f = SNftCreate -> k <> NP ++ argn i 0) ->
      balance E s' a k =
      (balance E s a k + (if at_cell a k (i_caller i) (supply_key f i s) then supply_delta f i else 0))%Z.
  Proof.
    destruct f; cbn [run_supply supply_key supply_cells supply_delta supply_role supply_consistent supply_balance_pre]; intros H Hlc Hpre a k Hk.
    - eapply supply_balance_effect_local_mint; eauto.
    - eapply supply_balance_effect_local_burn; eauto.
    - eapply supply_balance_effect_esdt_burn; eauto.
    - eapply supply_balance_effect_nft_create; eauto.
    - eapply supply_balance_effect_nft_add_quantity; eauto.
    - eapply supply_balance_effect_nft_burn; eauto.
    - rewrite (supply_balance_effect_nft_add_uri _ _ _ _ H Hlc Hpre). destruct (at_cell _ _ _ _); lia.
    - rewrite (supply_balance_effect_nft_update_attributes _ _ _ _ H Hlc Hpre). destruct (at_cell _ _ _ _); lia.
  Qed.

  (* ---------------- overdraft ---------------- *)
  Lemma supply_overdraft_fails_local_burn i s :
    (balance E s (i_caller i) (P ++ argn i 0) < bigZ (argn i 1))%Z ->
    forall o s', f_local_burn E i s <> (Ok o, s').
  Proof.
    intros Hlt o s' H. apply (f_local_burn_spec E Hc) in H. destruct H. destruct lb_effect0. lia.
  Qed.
  Lemma supply_overdraft_fails_esdt_burn i s :
    (balance E s (i_caller i) (P ++ argn i 0) < bigZ (argn i 1))%Z ->
    forall o s', f_esdt_burn E i s <> (Ok o, s').
  Proof.
    intros Hlt o s' H. apply (f_esdt_burn_spec E Hc) in H. destruct H. destruct eb_effect0. lia.
  Qed.
  (* no consistency hypothesis: the holding is the one found under the requested (token id, nonce) *)
  Lemma supply_overdraft_fails_nft_burn i s :
    (balance E s (i_caller i) (nft_key (P ++ argn i 0) (bigU64 (argn i 1))) < bigZ (argn i 2))%Z ->
    forall o s', f_nft_burn E i s <> (Ok o, s').
  Proof.
    intros Hlt o s' H. apply (f_nft_burn_spec E Hc) in H as (t & m & v & H). destruct H. destruct nb_update0.
    rewrite (balance_tok_at E _ _ _ _ nu_found0) in Hlt. unfold val_or_0 in Hlt. rewrite nb_entry_value0 in Hlt. lia.
  Qed.
  Theorem supply_overdraft_fails f i s :
    (f = SLocalBurn \/ f = SEsdtBurn \/ f = SNftBurn) ->
    (balance E s (i_caller i) (supply_key f i s) < - supply_delta f i)%Z ->
    forall o s', run_supply E f i s <> (Ok o, s').
  Proof.
    intros [->|[->| ->]]; cbn [run_supply supply_key supply_cells supply_delta supply_role supply_consistent supply_balance_pre]; rewrite Z.opp_involutive; intros Hlt.
    - apply supply_overdraft_fails_local_burn. exact Hlt.
    - apply supply_overdraft_fails_esdt_burn. exact Hlt.
    - apply supply_overdraft_fails_nft_burn. exact Hlt.
  Qed.

  (* ---------------- guards common to all eight ---------------- *)
  (* every successful call: no EGLD value, caller's account on this shard, at least two arguments, return code Ok;
     all but ESDTBurn: caller = recipient *)
  Theorem supply_common_guards f i s o s' : run_supply E f i s = (Ok o, s') ->
    i_value i = 0%Z /\ i_snd i = true /\ (2 <= alen (i_args i))%N /\ o_rc o = C.Ok
    /\ (f <> SEsdtBurn -> i_caller i = i_rcpt i).
  Proof.
    destruct f; cbn [run_supply supply_key supply_cells supply_delta supply_role supply_consistent supply_balance_pre]; intros H.
    - apply (f_local_mint_spec E Hc) in H. destruct H. subst o. repeat split; auto.
    - apply (f_local_burn_spec E Hc) in H. destruct H. subst o. repeat split; auto.
    - apply (f_esdt_burn_spec E Hc) in H. destruct H. subst o. repeat split; auto; [lia| |congruence].
      unfold esdt_burn_out. destruct (is_sc (i_caller i)); reflexivity.
    - apply (f_nft_create_spec E Hc) in H. destruct H. subst o. repeat split; auto. lia.
    - apply (f_nft_add_quantity_spec E Hc) in H as (t & m & v & H). destruct H. subst o. repeat split; auto. lia.
    - apply (f_nft_burn_spec E Hc) in H as (t & m & v & H). destruct H. subst o. repeat split; auto. lia.
    - apply (f_nft_add_uri_spec E Hc) in H as (t & m & v & H). destruct H. subst o. repeat split; auto. lia.
    - apply (f_nft_update_attributes_spec E Hc) in H as (t & m & v & H). destruct H. subst o. repeat split; auto. lia.
  Qed.

  (* ---------------- roles ---------------- *)
  Theorem supply_requires_role f i s o s' : run_supply E f i s = (Ok o, s') ->
    match supply_role f with
    | Some r => has_role E s (i_caller i) (argn i 0) r = true
    | None => i_rcpt i = SC
    end.
  Proof.
    destruct f; cbn [run_supply supply_key supply_cells supply_delta supply_role supply_consistent supply_balance_pre]; intros H.
    - apply (f_local_mint_spec E Hc) in H. destruct H. assumption.
    - apply (f_local_burn_spec E Hc) in H. destruct H. assumption.
    - apply (f_esdt_burn_spec E Hc) in H. destruct H. assumption.
    - apply (f_nft_create_spec E Hc) in H. destruct H. assumption.
    - apply (f_nft_add_quantity_spec E Hc) in H as (t & m & v & H). destruct H. assumption.
    - apply (f_nft_burn_spec E Hc) in H as (t & m & v & H). destruct H. assumption.
    - apply (f_nft_add_uri_spec E Hc) in H as (t & m & v & H). destruct H. assumption.
    - apply (f_nft_update_attributes_spec E Hc) in H as (t & m & v & H). destruct H. assumption.
  Qed.
  (* creating more than one piece additionally needs the add-quantity role *)
  Lemma supply_requires_role_create_many i s o s' : f_nft_create E i s = (Ok o, s') ->
    (1 < bigZ (argn i 1))%Z -> has_role E s (i_caller i) (argn i 0) C.ESDTRoleNFTAddQuantity = true.
  Proof. intros H. apply (f_nft_create_spec E Hc) in H. destruct H. assumption. Qed.

  (* ---------------- frozen / paused ---------------- *)
  (* create stores a fresh entry without property bits: only the pause flags are looked at *)
  Theorem supply_frozen_paused f i s o s' : run_supply E f i s = (Ok o, s') -> supply_consistent E f i s ->
    i_rae i = false -> i_caller i <> SC ->
    (f <> SNftCreate -> frozen_at E s (i_caller i) (supply_key f i s) = false)
    /\ paused_at s (P ++ argn i 0) = false
    /\ paused_at s (supply_key f i s) = false.
  Proof.
    destruct f; cbn [run_supply supply_key supply_cells supply_delta supply_role supply_consistent supply_balance_pre]; intros H Hlc Hrae Hsc.
    - apply (f_local_mint_spec E Hc) in H. destruct H. destruct lm_effect0.
      destruct (fe_frozen_paused0 Hrae Hsc). auto.
    - apply (f_local_burn_spec E Hc) in H. destruct H. destruct lb_effect0.
      destruct (fe_frozen_paused0 Hrae Hsc). auto.
    - apply (f_esdt_burn_spec E Hc) in H. destruct H. destruct eb_effect0.
      destruct (fe_frozen_paused0 Hrae Hsc). auto.
    - apply (f_nft_create_spec E Hc) in H. destruct H. destruct (nc_paused0 Hrae Hsc). split; [congruence|auto].
    - apply (f_nft_add_quantity_spec E Hc) in H as (t & m & v & H). destruct H.
      pose proof (nft_update_consistent _ _ _ _ _ _ _ _ _ aq_update0 Hlc) as Hn. destruct aq_update0.
      destruct (nu_frozen_paused0 Hrae Hsc) as (? & ? & ?). rewrite Hn in *. auto.
    - apply (f_nft_burn_spec E Hc) in H as (t & m & v & H). destruct H.
      pose proof (nft_update_consistent _ _ _ _ _ _ _ _ _ nb_update0 Hlc) as Hn. destruct nb_update0.
      destruct (nu_frozen_paused0 Hrae Hsc) as (? & ? & ?). rewrite Hn in *. auto.
    - apply (f_nft_add_uri_spec E Hc) in H as (t & m & v & H). destruct H.
      pose proof (nft_update_consistent _ _ _ _ _ _ _ _ _ au_update0 Hlc) as Hn. destruct au_update0.
      destruct (nu_frozen_paused0 Hrae Hsc) as (? & ? & ?). rewrite Hn in *. auto.
    - apply (f_nft_update_attributes_spec E Hc) in H as (t & m & v & H). destruct H.
      pose proof (nft_update_consistent _ _ _ _ _ _ _ _ _ ua_update0 Hlc) as Hn. destruct ua_update0.
      destruct (nu_frozen_paused0 Hrae Hsc) as (? & ? & ?). rewrite Hn in *. auto.
  Qed.

  (* ---------------- footprint ---------------- *)
  Lemma frame1_cells a0 k0 s s' :
    unchanged_except (fun a k => a = a0 /\ k = k0) (fun _ => False) s s' ->
    unchanged_except (fun a k => a = a0 /\ In k [k0]) (fun _ => False) s s'.
  Proof. apply unchanged_except_weaken; [|auto]. intros a k [-> ->]. split; [reflexivity|left; reflexivity]. Qed.

  (* only storage cells of the caller listed in [supply_cells] change; no account field (EGLD balance, owner,
     user name, developer reward) of any account changes; no dependency call failed *)
  Theorem supply_footprint f i s o s' : run_supply E f i s = (Ok o, s') -> supply_consistent E f i s ->
    unchanged_except (fun a k => a = i_caller i /\ In k (supply_cells f i s)) (fun _ => False) s s'
    /\ nofault E s s'.
  Proof.
    destruct f; cbn [run_supply supply_key supply_cells supply_delta supply_role supply_consistent supply_balance_pre]; intros H Hlc.
    - apply (f_local_mint_spec E Hc) in H. destruct H. destruct lm_effect0. split; [apply frame1_cells|]; assumption.
    - apply (f_local_burn_spec E Hc) in H. destruct H. destruct lb_effect0. split; [apply frame1_cells|]; assumption.
    - apply (f_esdt_burn_spec E Hc) in H. destruct H. destruct eb_effect0. split; [apply frame1_cells|]; assumption.
    - apply (f_nft_create_spec E Hc) in H. destruct H. split; [|assumption].
      eapply unchanged_except_weaken; [| |exact nc_frame0]; [|auto].
      intros a k (-> & [->| ->]); simpl; auto.
    - apply (f_nft_add_quantity_spec E Hc) in H as (t & m & v & H). destruct H.
      pose proof (nft_update_consistent _ _ _ _ _ _ _ _ _ aq_update0 Hlc) as Hn. destruct aq_update0.
      rewrite Hn in *. split; [apply frame1_cells|]; assumption.
    - apply (f_nft_burn_spec E Hc) in H as (t & m & v & H). destruct H.
      pose proof (nft_update_consistent _ _ _ _ _ _ _ _ _ nb_update0 Hlc) as Hn. destruct nb_update0.
      rewrite Hn in *. split; [apply frame1_cells|]; assumption.
    - apply (f_nft_add_uri_spec E Hc) in H as (t & m & v & H). destruct H.
      pose proof (nft_update_consistent _ _ _ _ _ _ _ _ _ au_update0 Hlc) as Hn. destruct au_update0.
      rewrite Hn in *. split; [apply frame1_cells|]; assumption.
    - apply (f_nft_update_attributes_spec E Hc) in H as (t & m & v & H). destruct H.
      pose proof (nft_update_consistent _ _ _ _ _ _ _ _ _ ua_update0 Hlc) as Hn. destruct ua_update0.
      rewrite Hn in *. split; [apply frame1_cells|]; assumption.
  Qed.
  (* without the F4b hypothesis: some single cell of the caller under the token's key prefix (plus the counter for
     create); in particular roles, pause flags, other accounts and other tokens' cells are untouched *)
  Theorem supply_footprint_general f i s o s' : run_supply E f i s = (Ok o, s') ->
    exists n, unchanged_except (fun a k => a = i_caller i /\ (k = nft_key (P ++ argn i 0) n
                                                             \/ (f = SNftCreate /\ k = NP ++ argn i 0)))
                               (fun _ => False) s s'.
  Proof.
    destruct f; cbn [run_supply supply_key supply_cells supply_delta supply_role supply_consistent supply_balance_pre]; intros H.
    - apply (f_local_mint_spec E Hc) in H. destruct H. destruct lm_effect0. exists 0%N. rewrite nft_key_0.
      eapply unchanged_except_weaken; [| |exact fe_frame0]; [|auto]. intros a k [-> ->]. auto.
    - apply (f_local_burn_spec E Hc) in H. destruct H. destruct lb_effect0. exists 0%N. rewrite nft_key_0.
      eapply unchanged_except_weaken; [| |exact fe_frame0]; [|auto]. intros a k [-> ->]. auto.
    - apply (f_esdt_burn_spec E Hc) in H. destruct H. destruct eb_effect0. exists 0%N. rewrite nft_key_0.
      eapply unchanged_except_weaken; [| |exact fe_frame0]; [|auto]. intros a k [-> ->]. auto.
    - apply (f_nft_create_spec E Hc) in H. destruct H. exists (create_nonce i s).
      eapply unchanged_except_weaken; [| |exact nc_frame0]; [|auto]. intros a k (-> & [->| ->]); auto.
    - apply (f_nft_add_quantity_spec E Hc) in H as (t & m & v & H). destruct H. destruct aq_update0.
      exists (md_nonce m). eapply unchanged_except_weaken; [| |exact nu_frame0]; [|auto]. intros a k [-> ->]. auto.
    - apply (f_nft_burn_spec E Hc) in H as (t & m & v & H). destruct H. destruct nb_update0.
      exists (md_nonce m). eapply unchanged_except_weaken; [| |exact nu_frame0]; [|auto]. intros a k [-> ->]. auto.
    - apply (f_nft_add_uri_spec E Hc) in H as (t & m & v & H). destruct H. destruct au_update0.
      exists (md_nonce m). eapply unchanged_except_weaken; [| |exact nu_frame0]; [|auto]. intros a k [-> ->]. auto.
    - apply (f_nft_update_attributes_spec E Hc) in H as (t & m & v & H). destruct H. destruct ua_update0.
      exists (md_nonce m). eapply unchanged_except_weaken; [| |exact nu_frame0]; [|auto]. intros a k [-> ->]. auto.
  Qed.

  (* ---------------- only the caller's account is written ---------------- *)
  Theorem supply_touches f i s o s' : run_supply E f i s = (Ok o, s') -> touches [i_caller i] s s'.
  Proof.
    destruct f; cbn [run_supply supply_key supply_cells supply_delta supply_role supply_consistent supply_balance_pre]; intros H.
    - apply (f_local_mint_spec E Hc) in H. destruct H. destruct lm_effect0. assumption.
    - apply (f_local_burn_spec E Hc) in H. destruct H. destruct lb_effect0. assumption.
    - apply (f_esdt_burn_spec E Hc) in H. destruct H. destruct eb_effect0. assumption.
    - apply (f_nft_create_spec E Hc) in H. destruct H. assumption.
    - apply (f_nft_add_quantity_spec E Hc) in H as (t & m & v & H). destruct H. destruct aq_update0. assumption.
    - apply (f_nft_burn_spec E Hc) in H as (t & m & v & H). destruct H. destruct nb_update0. assumption.
    - apply (f_nft_add_uri_spec E Hc) in H as (t & m & v & H). destruct H. destruct au_update0. assumption.
    - apply (f_nft_update_attributes_spec E Hc) in H as (t & m & v & H). destruct H. destruct ua_update0. assumption.
  Qed.

  (* the shard-wide total held under any token key moves by exactly the delta (conservation proofs) *)
  Theorem supply_shard_total f i s o s' :
    run_supply E f i s = (Ok o, s') -> supply_consistent E f i s -> supply_balance_pre E f i s ->
    NoDup (map fst (accts s)) ->
    forall k, (f = SNftCreate -> k <> NP ++ argn i 0) ->
      asum (acct_bal E k) (accts s') =
      (asum (acct_bal E k) (accts s) + (if beqb k (supply_key f i s) then supply_delta f i else 0))%Z.
  Proof.
    intros H Hlc Hpre Hnd k Hk.
    rewrite (touches_sum [i_caller i] s s' (acct_bal E k)
               (fun a => if at_cell a k (i_caller i) (supply_key f i s) then supply_delta f i else 0%Z)
               (supply_touches _ _ _ _ _ H) Hnd (acct_bal_empty E k)).
    - cbn [zsum]. unfold at_cell. rewrite beqb_refl. cbn [andb]. lia.
    - intros a _. rewrite <- !balance_acct_bal. eapply supply_balance_effect; eauto.
  Qed.

  (* ---------------- observables that none of the eight changes (no F4b hypothesis needed) ---------------- *)
  Theorem supply_roles_unchanged f i s o s' : run_supply E f i s = (Ok o, s') ->
    forall a tok, roles_at E s' a tok = roles_at E s a tok.
  Proof.
    intros H a tok. destruct (supply_footprint_general _ _ _ _ _ H) as (n & Hf).
    apply (ue_roles_at E _ _ _ _ Hf). intros (_ & [Hk|[_ Hk]]).
    - symmetry in Hk. revert Hk. apply nft_key_RP_disjoint.
    - revert Hk. apply RP_NP_disjoint.
  Qed.
  Theorem supply_has_role_unchanged f i s o s' : run_supply E f i s = (Ok o, s') ->
    forall a tok r, has_role E s' a tok r = has_role E s a tok r.
  Proof. intros H a tok r. unfold has_role. rewrite (supply_roles_unchanged _ _ _ _ _ H). reflexivity. Qed.
  (* the create counter moves only in ESDTNFTCreate, and there only (caller, token) *)
  Theorem supply_counter_unchanged f i s o s' : run_supply E f i s = (Ok o, s') ->
    forall a tok, ~ (f = SNftCreate /\ a = i_caller i /\ tok = argn i 0) -> counter_at s' a tok = counter_at s a tok.
  Proof.
    intros H a tok Hn. destruct (supply_footprint_general _ _ _ _ _ H) as (n & Hf).
    apply (ue_counter_at _ _ _ _ Hf). intros (Ha & [Hk|[Hc' Hk]]).
    - symmetry in Hk. revert Hk. apply nft_key_NP_disjoint.
    - apply NP_app_inj in Hk. apply Hn. auto.
  Qed.
  (* pause flags live in the system account: untouched unless the system account itself is the caller (cf. F8) *)
  Theorem supply_paused_unchanged f i s o s' : run_supply E f i s = (Ok o, s') -> i_caller i <> SYS ->
    forall k, paused_at s' k = paused_at s k.
  Proof.
    intros H Hsys k. destruct (supply_footprint_general _ _ _ _ _ H) as (n & Hf).
    apply (ue_paused_at _ _ _ _ Hf). intros (Ha & _). apply Hsys. symmetry. exact Ha.
  Qed.
  Theorem supply_fields_unchanged f i s o s' : run_supply E f i s = (Ok o, s') ->
    forall a, acct_fields_eq (acct s' a) (acct s a).
  Proof.
    intros H a. destruct (supply_footprint_general _ _ _ _ _ H) as (n & Hf).
    apply (ue_fields _ _ _ _ Hf). tauto.
  Qed.
  (* token entries outside the footprint *)
  Theorem supply_other_entries_unchanged f i s o s' : run_supply E f i s = (Ok o, s') -> supply_consistent E f i s ->
    forall a k, ~ (a = i_caller i /\ In k (supply_cells f i s)) ->
      cell s' a k = cell s a k /\ tok_at E s' a k = tok_at E s a k /\ balance E s' a k = balance E s a k
      /\ frozen_at E s' a k = frozen_at E s a k.
  Proof.
    intros H Hlc a k Hn. destruct (supply_footprint _ _ _ _ _ H Hlc) as [Hf _].
    split; [apply (ue_cell _ _ _ _ Hf _ _ Hn)|]. split; [apply (ue_tok_at E _ _ _ _ Hf _ _ Hn)|].
    split; [apply (ue_balance E _ _ _ _ Hf _ _ Hn)|apply (ue_frozen_at E _ _ _ _ Hf _ _ Hn)].
  Qed.

  (* ---------------- metadata (C08) ---------------- *)
  (* metadata of the entry stored under a full key (None: no entry or an entry without metadata) *)
  Definition meta_at (s : mstate) (a k : bytes) : option metadata :=
    match tok_at E s a k with Some t => t_meta t | None => None end.

  (* ESDTNFTCreate records exactly the metadata given in the arguments, under the next nonce, which it returns *)
  Theorem create_records_metadata i s o s' : f_nft_create E i s = (Ok o, s') ->
    let n := u64 (counter_at s (i_caller i) (argn i 0) + 1) in
    tok_at E s' (i_caller i) (nft_key (P ++ argn i 0) n) =
      Some {| t_type := C.NonFungible; t_value := Some (bigZ (argn i 1)); t_props := [];
              t_meta := Some {| md_nonce := n; md_name := argn i 2; md_creator := i_caller i;
                                md_royalties := u32 (bigU64 (argn i 3)); md_hash := argn i 4;
                                md_uris := skipn 6 (i_args i); md_attributes := argn i 5 |};
              t_reserved := [] |}
    /\ (u32 (bigU64 (argn i 3)) <= C.MaxRoyalty)%N
    /\ (0 < bigZ (argn i 1))%Z
    /\ counter_at s' (i_caller i) (argn i 0) = n
    /\ o_returnData o = [u64_bytes n]
    /\ (forall a k, ~ (a = i_caller i /\ k = nft_key (P ++ argn i 0) n) -> k <> NP ++ argn i 0 ->
          tok_at E s' a k = tok_at E s a k).
  Proof.
    intros H n. apply (f_nft_create_spec E Hc) in H. destruct H.
    split; [exact nc_entry0|]. split; [assumption|]. split; [assumption|]. split; [assumption|].
    split; [assumption|]. intros a k Hn Hk. apply (ue_tok_at E _ _ _ _ nc_frame0).
    intros (-> & [->| ->]); [apply Hn; auto|apply Hk; reflexivity].
  Qed.

  (* what [set_uris] / [set_attributes] leave alone *)
  Lemma set_uris_fields t m u :
    let t' := set_meta t (Some (set_uris m u)) in
    t_type t' = t_type t /\ t_value t' = t_value t /\ t_props t' = t_props t /\ t_reserved t' = t_reserved t
    /\ exists m', t_meta t' = Some m' /\ md_uris m' = u
         /\ md_nonce m' = md_nonce m /\ md_name m' = md_name m /\ md_creator m' = md_creator m
         /\ md_royalties m' = md_royalties m /\ md_hash m' = md_hash m /\ md_attributes m' = md_attributes m.
  Proof. cbv zeta. repeat split. eexists. repeat split. Qed.
  Lemma set_attributes_fields t m x :
    let t' := set_meta t (Some (set_attributes m x)) in
    t_type t' = t_type t /\ t_value t' = t_value t /\ t_props t' = t_props t /\ t_reserved t' = t_reserved t
    /\ exists m', t_meta t' = Some m' /\ md_attributes m' = x
         /\ md_nonce m' = md_nonce m /\ md_name m' = md_name m /\ md_creator m' = md_creator m
         /\ md_royalties m' = md_royalties m /\ md_hash m' = md_hash m /\ md_uris m' = md_uris m.
  Proof. cbv zeta. repeat split. eexists. repeat split. Qed.

  (* ESDTNFTAddURI: the entry found under (token id, nonce) is stored back with the URIs (arguments 2..) appended,
     everything else as it was (the entry disappears if its stored value was not positive); no other entry changes *)
  Theorem add_uri_effect i s o s' : f_nft_add_uri E i s = (Ok o, s') ->
    lookup_consistent E s (i_caller i) (P ++ argn i 0) (bigU64 (argn i 1)) ->
    let key := nft_key (P ++ argn i 0) (bigU64 (argn i 1)) in
    exists t m v,
      tok_at E s (i_caller i) key = Some t /\ t_meta t = Some m /\ t_value t = Some v
      /\ tok_at E s' (i_caller i) key =
         (if (v <=? 0)%Z then None else Some (set_meta t (Some (set_uris m (md_uris m ++ skipn 2 (i_args i))))))
      /\ (forall a k, ~ (a = i_caller i /\ k = key) -> tok_at E s' a k = tok_at E s a k).
  Proof.
    intros H Hlc key. subst key. apply (f_nft_add_uri_spec E Hc) in H as (t & m & v & H). destruct H.
    pose proof (nft_update_consistent _ _ _ _ _ _ _ _ _ au_update0 Hlc) as Hn. destruct au_update0.
    rewrite Hn in *. exists t, m, v. split; [assumption|]. split; [assumption|]. split; [assumption|]. split.
    - rewrite nu_stored0. unfold val_or_0. simpl. rewrite au_entry_value0. reflexivity.
    - intros a k Hk. apply (ue_tok_at E _ _ _ _ nu_frame0 _ _ Hk).
  Qed.
  (* ESDTNFTUpdateAttributes: same with the attributes replaced by argument 2 *)
  Theorem update_attributes_effect i s o s' : f_nft_update_attributes E i s = (Ok o, s') ->
    lookup_consistent E s (i_caller i) (P ++ argn i 0) (bigU64 (argn i 1)) ->
    let key := nft_key (P ++ argn i 0) (bigU64 (argn i 1)) in
    exists t m v,
      tok_at E s (i_caller i) key = Some t /\ t_meta t = Some m /\ t_value t = Some v
      /\ tok_at E s' (i_caller i) key =
         (if (v <=? 0)%Z then None else Some (set_meta t (Some (set_attributes m (argn i 2)))))
      /\ (forall a k, ~ (a = i_caller i /\ k = key) -> tok_at E s' a k = tok_at E s a k).
  Proof.
    intros H Hlc key. subst key. apply (f_nft_update_attributes_spec E Hc) in H as (t & m & v & H). destruct H.
    pose proof (nft_update_consistent _ _ _ _ _ _ _ _ _ ua_update0 Hlc) as Hn. destruct ua_update0.
    rewrite Hn in *. exists t, m, v. split; [assumption|]. split; [assumption|]. split; [assumption|]. split.
    - rewrite nu_stored0. unfold val_or_0. simpl. rewrite ua_entry_value0. reflexivity.
    - intros a k Hk. apply (ue_tok_at E _ _ _ _ nu_frame0 _ _ Hk).
  Qed.

  (* the other five: every entry present after the call carries the metadata that was there before
     (entries may be created without metadata by mint, and deleted by the burns) *)
  Lemma fungible_effect_meta a0 k0 d rae s s' : fungible_effect E a0 k0 d rae s s' ->
    forall a k t', tok_at E s' a k = Some t' -> t_meta t' = meta_at s a k.
  Proof.
    intros [_ _ (t & Ht & _ & _ & _ & Hst) _ Hf _ _] a k t' Ht'. unfold meta_at.
    destruct (at_cell a k a0 k0) eqn:Ec.
    - apply at_cell_true in Ec as [-> ->]. rewrite Hst in Ht'.
      destruct ((balance E s a0 k0 + d =? 0)%Z && all_zero (t_props t))%bool; [discriminate|].
      inversion Ht'; subst t'. simpl.
      destruct (tod_cases E _ _ _ _ Ht) as [(_ & -> & ->)|(_ & ->)]; reflexivity.
    - apply at_cell_false in Ec. rewrite <- (ue_tok_at E _ _ _ _ Hf _ _ Ec), Ht'. reflexivity.
  Qed.
  Lemma nft_update_meta a0 key nonce t m t' rae s s' : nft_update E a0 key nonce t m t' rae s s' ->
    lookup_consistent E s a0 key nonce -> t_meta t' = t_meta t ->
    forall a k x, tok_at E s' a k = Some x -> t_meta x = meta_at s a k.
  Proof.
    intros Hu Hlc Hm a k x Hx. pose proof (nft_update_consistent _ _ _ _ _ _ _ _ _ Hu Hlc) as Hn. destruct Hu.
    rewrite Hn in *. unfold meta_at. destruct (at_cell a k a0 (nft_key key nonce)) eqn:Ec.
    - apply at_cell_true in Ec as [-> ->]. rewrite nu_stored0 in Hx. destruct (val_or_0 t' <=? 0)%Z; [discriminate|].
      inversion Hx; subst x. rewrite nu_found0. exact Hm.
    - apply at_cell_false in Ec. rewrite <- (ue_tok_at E _ _ _ _ nu_frame0 _ _ Ec), Hx. reflexivity.
  Qed.
  Theorem supply_metadata_preserved f i s o s' :
    (f = SLocalMint \/ f = SLocalBurn \/ f = SEsdtBurn \/ f = SNftAddQuantity \/ f = SNftBurn) ->
    run_supply E f i s = (Ok o, s') -> supply_consistent E f i s ->
    forall a k t', tok_at E s' a k = Some t' -> t_meta t' = meta_at s a k.
  Proof.
    intros [->|[->|[->|[->| ->]]]]; cbn [run_supply supply_key supply_cells supply_delta supply_role supply_consistent supply_balance_pre]; intros H Hlc.
    - apply (f_local_mint_spec E Hc) in H. destruct H. eapply fungible_effect_meta; eauto.
    - apply (f_local_burn_spec E Hc) in H. destruct H. eapply fungible_effect_meta; eauto.
    - apply (f_esdt_burn_spec E Hc) in H. destruct H. eapply fungible_effect_meta; eauto.
    - apply (f_nft_add_quantity_spec E Hc) in H as (t & m & v & H). destruct H.
      eapply nft_update_meta; eauto.
    - apply (f_nft_burn_spec E Hc) in H as (t & m & v & H). destruct H.
      eapply nft_update_meta; eauto.
  Qed.
End Corollaries.

(* ================================================================== *)
(* 7. Liveness: the guards of the specs are sufficient                 *)
(* ================================================================== *)
Section Liveness.
  Variable E : env.
  Hypothesis Hc : codec_ok (cdc E).
  Hypothesis Hnf : no_faults E.
  Notation G := (gas E).

  (* the entry under the fungible key can be used by add_to_esdt_balance: absent, or a fungible entry with a value *)
  Definition fungible_cell (s : mstate) (a key : bytes) : Prop :=
    cell s a key = [] \/ exists t, tok_at E s a key = Some t /\ t_type t = C.Fungible /\ t_value t <> None.

  Lemma add_to_esdt_balance_succeeds_rd a key delta rae s s1 :
    rd E s s1 -> fungible_cell s a key ->
    (rae = false -> a <> SC -> frozen_at E s a key = false /\ paused_at s key = false) ->
    (0 <= balance E s a key + delta)%Z ->
    exists s', add_to_esdt_balance E a key delta rae s1 = (Ok tt, s').
  Proof.
    intros Hr Hcell Hfp Hb. apply (add_to_esdt_balance_succeeds' E Hc); [exact Hnf| | |].
    - unfold fungible_cell in Hcell. rewrite (rd_cell _ _ _ a key Hr), (rd_tok_at _ _ _ a key Hr). exact Hcell.
    - rewrite (rd_frozen_at _ _ _ a key Hr), (rd_paused_at _ _ _ key Hr). exact Hfp.
    - rewrite (rd_balance _ _ _ a key Hr). exact Hb.
  Qed.

  Theorem f_local_mint_succeeds i s :
    i_value i = 0%Z -> (2 <= alen (i_args i))%N -> i_caller i = i_rcpt i -> i_snd i = true ->
    (0 < bigZ (argn i 1))%Z -> (zlen (argn i 1) <= C.MaxLenForESDTIssueMint)%N ->
    (g_ESDTLocalMint G <= i_gas i)%N ->
    has_role E s (i_caller i) (argn i 0) C.ESDTRoleLocalMint = true ->
    fungible_cell s (i_caller i) (P ++ argn i 0) ->
    (i_rae i = false -> i_caller i <> SC ->
       frozen_at E s (i_caller i) (P ++ argn i 0) = false /\ paused_at s (P ++ argn i 0) = false) ->
    (0 <= balance E s (i_caller i) (P ++ argn i 0) + bigZ (argn i 1))%Z ->
    exists o s', f_local_mint E i s = (Ok o, s').
  Proof.
    intros Hv Hl Hcr Hsnd Hpos Hlen Hg Hrole Hcell Hfp Hb. unfold f_local_mint. cbv zeta.
    rewrite (bind_eq _ _ _ _ _ (check_local_action_succeeds i _ s Hv Hl Hcr Hsnd Hpos Hg)).
    assert (L0 : (0 < alen (i_args i))%N) by lia. assert (L1 : (1 < alen (i_args i))%N) by lia.
    rewrite (bind_eq _ _ _ _ _ (arg_argn_succeeds i 0 s L0)). argnorm.
    destruct (check_allowed_succeeds E _ _ _ _ s Hnf Hsnd Hrole) as (s1 & H1).
    rewrite (bind_eq _ _ _ _ _ H1). apply check_allowed_ok in H1 as (_ & _ & Hrd).
    rewrite (bind_eq _ _ _ _ _ (arg_argn_succeeds i 1 s1 L1)). argnorm.
    rewrite (bind_eq _ _ _ _ _ (guard_true _ _ _ (le_negb_ltb _ _ Hlen))).
    destruct (add_to_esdt_balance_succeeds_rd _ _ _ (i_rae i) _ _ Hrd Hcell Hfp Hb) as (s2 & H2).
    rewrite (bind_eq _ _ _ _ _ H2). eexists. eexists. reflexivity.
  Qed.

  Theorem f_local_burn_succeeds i s :
    i_value i = 0%Z -> (2 <= alen (i_args i))%N -> i_caller i = i_rcpt i -> i_snd i = true ->
    (0 < bigZ (argn i 1))%Z -> (g_ESDTLocalBurn G <= i_gas i)%N ->
    has_role E s (i_caller i) (argn i 0) C.ESDTRoleLocalBurn = true ->
    fungible_cell s (i_caller i) (P ++ argn i 0) ->
    (i_rae i = false -> i_caller i <> SC ->
       frozen_at E s (i_caller i) (P ++ argn i 0) = false /\ paused_at s (P ++ argn i 0) = false) ->
    (bigZ (argn i 1) <= balance E s (i_caller i) (P ++ argn i 0))%Z ->
    exists o s', f_local_burn E i s = (Ok o, s').
  Proof.
    intros Hv Hl Hcr Hsnd Hpos Hg Hrole Hcell Hfp Hb. unfold f_local_burn. cbv zeta.
    rewrite (bind_eq _ _ _ _ _ (check_local_action_succeeds i _ s Hv Hl Hcr Hsnd Hpos Hg)).
    assert (L0 : (0 < alen (i_args i))%N) by lia. assert (L1 : (1 < alen (i_args i))%N) by lia.
    rewrite (bind_eq _ _ _ _ _ (arg_argn_succeeds i 0 s L0)). argnorm.
    destruct (check_allowed_succeeds E _ _ _ _ s Hnf Hsnd Hrole) as (s1 & H1).
    rewrite (bind_eq _ _ _ _ _ H1). apply check_allowed_ok in H1 as (_ & _ & Hrd).
    rewrite (bind_eq _ _ _ _ _ (arg_argn_succeeds i 1 s1 L1)). argnorm.
    assert (Hb' : (0 <= balance E s (i_caller i) (P ++ argn i 0) + - bigZ (argn i 1))%Z) by lia.
    destruct (add_to_esdt_balance_succeeds_rd _ _ _ (i_rae i) _ _ Hrd Hcell Hfp Hb') as (s2 & H2).
    rewrite (bind_eq _ _ _ _ _ H2). eexists. eexists. reflexivity.
  Qed.

  Theorem f_esdt_burn_succeeds i s :
    i_value i = 0%Z -> alen (i_args i) = 2%N -> i_rcpt i = SC -> i_snd i = true ->
    (0 < bigZ (argn i 1))%Z -> (g_ESDTBurn G <= i_gas i)%N ->
    fungible_cell s (i_caller i) (P ++ argn i 0) ->
    (i_rae i = false -> i_caller i <> SC ->
       frozen_at E s (i_caller i) (P ++ argn i 0) = false /\ paused_at s (P ++ argn i 0) = false) ->
    (bigZ (argn i 1) <= balance E s (i_caller i) (P ++ argn i 0))%Z ->
    exists o s', f_esdt_burn E i s = (Ok o, s').
  Proof.
    intros Hv Hl Hsc Hsnd Hpos Hg Hcell Hfp Hb. unfold f_esdt_burn. cbv zeta.
    assert (L2 : (2 <= alen (i_args i))%N) by lia.
    rewrite (bind_eq _ _ _ _ _ (check_basic_succeeds i s Hv L2)).
    assert (G1 : (alen (i_args i) =? 2)%N = true) by lia.
    rewrite (bind_eq _ _ _ _ _ (guard_true _ _ _ G1)).
    assert (L0 : (0 < alen (i_args i))%N) by lia. assert (L1 : (1 < alen (i_args i))%N) by lia.
    rewrite (bind_eq _ _ _ _ _ (arg_argn_succeeds i 0 s L0)).
    rewrite (bind_eq _ _ _ _ _ (arg_argn_succeeds i 1 s L1)). argnorm.
    assert (G2 : (0 <? bigZ (argn i 1))%Z = true) by lia.
    rewrite (bind_eq _ _ _ _ _ (guard_true _ _ _ G2)).
    assert (G3 : beqb (i_rcpt i) SC = true) by (rewrite Hsc; apply beqb_refl).
    rewrite (bind_eq _ _ _ _ _ (guard_true _ _ _ G3)).
    rewrite (bind_eq _ _ _ _ _ (guard_true _ _ _ Hsnd)).
    rewrite (bind_eq _ _ _ _ _ (guard_true _ _ _ (le_negb_ltb _ _ Hg))).
    assert (Hb' : (0 <= balance E s (i_caller i) (P ++ argn i 0) + - bigZ (argn i 1))%Z) by lia.
    destruct (add_to_esdt_balance_succeeds_rd _ _ _ (i_rae i) _ _ (rd_refl E s) Hcell Hfp Hb') as (s2 & H2).
    rewrite (bind_eq _ _ _ _ _ H2). eexists. eexists. reflexivity.
  Qed.

  Theorem f_nft_create_succeeds i s :
    i_value i = 0%Z -> (7 <= alen (i_args i))%N -> i_caller i = i_rcpt i -> i_snd i = true ->
    (g_ESDTNFTCreate G <= i_gas i)%N -> (create_use E i <= i_gas i)%N ->
    has_role E s (i_caller i) (argn i 0) C.ESDTRoleNFTCreate = true ->
    (u32 (bigU64 (argn i 3)) <= C.MaxRoyalty)%N ->
    (0 < bigZ (argn i 1))%Z ->
    ((1 < bigZ (argn i 1))%Z -> has_role E s (i_caller i) (argn i 0) C.ESDTRoleNFTAddQuantity = true) ->
    (i_rae i = false -> i_caller i <> SC ->
       paused_at s (P ++ argn i 0) = false /\ paused_at s (nft_key (P ++ argn i 0) (create_nonce i s)) = false) ->
    exists o s', f_nft_create E i s = (Ok o, s').
  Proof.
    intros Hv Hl Hcr Hsnd Hg0 Hg Hrole Hroy Hq Hrole2 Hfp. unfold f_nft_create. cbv zeta.
    assert (L2 : (2 <= alen (i_args i))%N) by lia.
    rewrite (bind_eq _ _ _ _ _ (check_create_burn_add_succeeds i _ s Hv L2 Hcr Hsnd Hg0)).
    rewrite (bind_eq _ _ _ _ _ (guard_true _ _ _ (le_negb_ltb _ _ Hl))).
    assert (L0 : (0 < alen (i_args i))%N) by lia. assert (L1 : (1 < alen (i_args i))%N) by lia.
    assert (L2' : (2 < alen (i_args i))%N) by lia. assert (L3 : (3 < alen (i_args i))%N) by lia.
    assert (L4 : (4 < alen (i_args i))%N) by lia. assert (L5 : (5 < alen (i_args i))%N) by lia.
    assert (L6 : (6 <= alen (i_args i))%N) by lia.
    rewrite (bind_eq _ _ _ _ _ (arg_argn_succeeds i 0 s L0)). argnorm.
    destruct (check_allowed_succeeds E _ _ _ _ s Hnf Hsnd Hrole) as (s1 & H1).
    rewrite (bind_eq _ _ _ _ _ H1). apply check_allowed_ok in H1 as (_ & _ & Hrd1).
    rewrite (bind_eq _ _ _ _ _ (get_latest_nonce_eq _ _ s1)).
    rewrite (rd_counter_at _ _ _ (i_caller i) (argn i 0) Hrd1).
    fold (create_use E i). rewrite (bind_eq _ _ _ _ _ (guard_true _ _ _ (le_negb_ltb _ _ Hg))).
    rewrite (bind_eq _ _ _ _ _ (arg_argn_succeeds i 3 s1 L3)). argnorm.
    rewrite (bind_eq _ _ _ _ _ (guard_true _ _ _ (le_negb_ltb _ _ Hroy))).
    rewrite (bind_eq _ _ _ _ _ (arg_argn_succeeds i 1 s1 L1)). argnorm.
    assert (G1 : (0 <? bigZ (argn i 1))%Z = true) by lia.
    rewrite (bind_eq _ _ _ _ _ (guard_true _ _ _ G1)).
    assert (exists s2, (if (1 <? bigZ (argn i 1))%Z
                        then check_allowed E (i_snd i) (i_caller i) (argn i 0) C.ESDTRoleNFTAddQuantity
                        else ret tt) s1 = (Ok tt, s2) /\ rd E s s2) as (s2 & H2 & Hrd2).
    { destruct (1 <? bigZ (argn i 1))%Z eqn:E1.
      - assert (Hr2 : has_role E s1 (i_caller i) (argn i 0) C.ESDTRoleNFTAddQuantity = true)
          by (rewrite (rd_has_role _ _ _ _ _ _ Hrd1); apply Hrole2; lia).
        destruct (check_allowed_succeeds E _ _ _ _ s1 Hnf Hsnd Hr2) as (s2 & H2). exists s2. split; [exact H2|].
        apply check_allowed_ok in H2 as (_ & _ & Hrd2). eapply rd_trans; eauto.
      - exists s1. split; [reflexivity|exact Hrd1]. }
    rewrite (bind_eq _ _ _ _ _ H2).
    rewrite (bind_eq _ _ _ _ _ (arg_argn_succeeds i 2 s2 L2')).
    rewrite (bind_eq _ _ _ _ _ (arg_argn_succeeds i 4 s2 L4)).
    rewrite (bind_eq _ _ _ _ _ (arg_argn_succeeds i 5 s2 L5)).
    rewrite (bind_eq _ _ _ _ _ (args_from_succeeds (i_args i) 6 s2 L6)). argnorm.
    fold (create_nonce i s). fold (created_token i s).
    destruct (save_nft_succeeds E (i_caller i) (P ++ argn i 0) (created_token i s) (i_rae i) s2 (bigZ (argn i 1)) Hnf eq_refl)
      as (b & s3 & H3).
    { intros h1 h2. destruct (Hfp h1 h2) as [P1 P2]. split; [reflexivity|].
      change (tok_nonce (created_token i s)) with (create_nonce i s).
      rewrite (rd_paused_at _ _ _ _ Hrd2), (rd_paused_at _ _ _ (nft_key _ _) Hrd2). auto. }
    rewrite (bind_eq _ _ _ _ _ H3).
    destruct (save_latest_nonce_succeeds E (i_caller i) (argn i 0) (create_nonce i s) s3 (Hnf _)) as (s4 & H4).
    rewrite (bind_eq _ _ _ _ _ H4). eexists. eexists. reflexivity.
  Qed.
  (* the four functions that rewrite an entry: found entry t with metadata m and value v *)
  Definition nft_entry_usable (i : input) (s : mstate) (t : token) (m : metadata) (v : Z) : Prop :=
    bigU64 (argn i 1) <> 0%N
    /\ tok_at E s (i_caller i) (nft_key (P ++ argn i 0) (bigU64 (argn i 1))) = Some t
    /\ t_meta t = Some m /\ t_value t = Some v
    /\ (i_rae i = false -> i_caller i <> SC ->
          frozen_props (t_props t) = false /\ paused_at s (P ++ argn i 0) = false
          /\ paused_at s (nft_key (P ++ argn i 0) (md_nonce m)) = false).

  Lemma nft_lookup_succeeds i s s1 t m v : rd E s s1 -> nft_entry_usable i s t m v ->
    exists s2, get_nft_on_sender E (i_caller i) (P ++ argn i 0) (bigU64 (argn i 1)) s1 = (Ok t, s2) /\ rd E s s2
      /\ (bigU64 (argn i 1) =? 0)%N = false.
  Proof.
    intros Hr (Hn & Ht & Hm & Hv & Hfp).
    destruct (get_nft_on_sender_succeeds E (i_caller i) (P ++ argn i 0) (bigU64 (argn i 1)) s1 t (Hnf _)) as (s2 & H2).
    - rewrite (rd_tok_at _ _ _ _ _ Hr). exact Ht.
    - intros _. rewrite Hm. discriminate.
    - intros H0. contradiction.
    - exists s2. split; [exact H2|]. apply (get_nft_on_sender_ok E Hc) in H2 as (Hr2 & _).
      split; [eapply rd_trans; eauto|]. apply N.eqb_neq. exact Hn.
  Qed.
  Lemma nft_store_succeeds i s s2 t m v t' v' : rd E s s2 -> nft_entry_usable i s t m v ->
    tok_nonce t' = md_nonce m -> t_props t' = t_props t -> t_value t' = Some v' ->
    exists b s', save_nft E (i_caller i) (P ++ argn i 0) t' (i_rae i) s2 = (Ok b, s').
  Proof.
    intros Hr (Hn & Ht & Hm & Hv & Hfp) Hno Hpr Hv'.
    apply (save_nft_succeeds E _ _ _ _ _ v' Hnf Hv'). intros h1 h2. destruct (Hfp h1 h2) as (F & P1 & P2).
    rewrite Hno, Hpr, (rd_paused_at _ _ _ _ Hr), (rd_paused_at _ _ _ (nft_key _ _) Hr). auto.
  Qed.

  Theorem f_nft_add_quantity_succeeds i s t m v :
    i_value i = 0%Z -> (3 <= alen (i_args i))%N -> i_caller i = i_rcpt i -> i_snd i = true ->
    (g_ESDTNFTAddQuantity G <= i_gas i)%N ->
    has_role E s (i_caller i) (argn i 0) C.ESDTRoleNFTAddQuantity = true ->
    nft_entry_usable i s t m v ->
    exists o s', f_nft_add_quantity E i s = (Ok o, s').
  Proof.
    intros Hv Hl Hcr Hsnd Hg Hrole Hent. unfold f_nft_add_quantity. cbv zeta.
    assert (L2 : (2 <= alen (i_args i))%N) by lia.
    rewrite (bind_eq _ _ _ _ _ (check_create_burn_add_succeeds i _ s Hv L2 Hcr Hsnd Hg)).
    rewrite (bind_eq _ _ _ _ _ (guard_true _ _ _ (le_negb_ltb _ _ Hl))).
    assert (L0 : (0 < alen (i_args i))%N) by lia. assert (L1 : (1 < alen (i_args i))%N) by lia.
    assert (L2' : (2 < alen (i_args i))%N) by lia.
    rewrite (bind_eq _ _ _ _ _ (arg_argn_succeeds i 0 s L0)). argnorm.
    destruct (check_allowed_succeeds E _ _ _ _ s Hnf Hsnd Hrole) as (s1 & H1).
    rewrite (bind_eq _ _ _ _ _ H1). apply check_allowed_ok in H1 as (_ & _ & Hrd1).
    rewrite (bind_eq _ _ _ _ _ (arg_argn_succeeds i 1 s1 L1)). argnorm.
    destruct (nft_lookup_succeeds i s s1 t m v Hrd1 Hent) as (s2 & H2 & Hrd2 & Hn0).
    rewrite (bind_eq _ _ _ _ _ (guard_true _ _ _ (f_equal negb Hn0))).
    rewrite (bind_eq _ _ _ _ _ H2).
    destruct Hent as (Hn & Ht & Hm & Hval & Hfp).
    rewrite (bind_eq _ _ _ _ _ (val_of_succeeds _ _ s2 Hval)).
    rewrite (bind_eq _ _ _ _ _ (arg_argn_succeeds i 2 s2 L2')). argnorm.
    destruct (nft_store_succeeds i s s2 t m v (set_value t (Some (v + bigZ (argn i 2))%Z)) (v + bigZ (argn i 2))%Z Hrd2
                (conj Hn (conj Ht (conj Hm (conj Hval Hfp))))) as (b & s3 & H3); try reflexivity.
    { unfold tok_nonce. simpl. rewrite Hm. reflexivity. }
    rewrite (bind_eq _ _ _ _ _ H3). eexists. eexists. reflexivity.
  Qed.

  Theorem f_nft_burn_succeeds i s t m v :
    i_value i = 0%Z -> (3 <= alen (i_args i))%N -> i_caller i = i_rcpt i -> i_snd i = true ->
    (g_ESDTNFTBurn G <= i_gas i)%N ->
    has_role E s (i_caller i) (argn i 0) C.ESDTRoleNFTBurn = true ->
    nft_entry_usable i s t m v -> (bigZ (argn i 2) <= v)%Z ->
    exists o s', f_nft_burn E i s = (Ok o, s').
  Proof.
    intros Hv Hl Hcr Hsnd Hg Hrole Hent Hq. unfold f_nft_burn. cbv zeta.
    assert (L2 : (2 <= alen (i_args i))%N) by lia.
    rewrite (bind_eq _ _ _ _ _ (check_create_burn_add_succeeds i _ s Hv L2 Hcr Hsnd Hg)).
    rewrite (bind_eq _ _ _ _ _ (guard_true _ _ _ (le_negb_ltb _ _ Hl))).
    assert (L0 : (0 < alen (i_args i))%N) by lia. assert (L1 : (1 < alen (i_args i))%N) by lia.
    assert (L2' : (2 < alen (i_args i))%N) by lia.
    rewrite (bind_eq _ _ _ _ _ (arg_argn_succeeds i 0 s L0)). argnorm.
    destruct (check_allowed_succeeds E _ _ _ _ s Hnf Hsnd Hrole) as (s1 & H1).
    rewrite (bind_eq _ _ _ _ _ H1). apply check_allowed_ok in H1 as (_ & _ & Hrd1).
    rewrite (bind_eq _ _ _ _ _ (arg_argn_succeeds i 1 s1 L1)). argnorm.
    destruct (nft_lookup_succeeds i s s1 t m v Hrd1 Hent) as (s2 & H2 & Hrd2 & Hn0).
    rewrite (bind_eq _ _ _ _ _ (guard_true _ _ _ (f_equal negb Hn0))).
    rewrite (bind_eq _ _ _ _ _ H2).
    destruct Hent as (Hn & Ht & Hm & Hval & Hfp).
    rewrite (bind_eq _ _ _ _ _ (val_of_succeeds _ _ s2 Hval)).
    rewrite (bind_eq _ _ _ _ _ (arg_argn_succeeds i 2 s2 L2')). argnorm.
    assert (G1 : negb (v <? bigZ (argn i 2))%Z = true) by (destruct (v <? bigZ (argn i 2))%Z eqn:E1; [lia|reflexivity]).
    rewrite (bind_eq _ _ _ _ _ (guard_true _ _ _ G1)).
    destruct (nft_store_succeeds i s s2 t m v (set_value t (Some (v - bigZ (argn i 2))%Z)) (v - bigZ (argn i 2))%Z Hrd2
                (conj Hn (conj Ht (conj Hm (conj Hval Hfp))))) as (b & s3 & H3); try reflexivity.
    { unfold tok_nonce. simpl. rewrite Hm. reflexivity. }
    rewrite (bind_eq _ _ _ _ _ H3). eexists. eexists. reflexivity.
  Qed.

  Theorem f_nft_add_uri_succeeds i s t m v :
    i_value i = 0%Z -> (3 <= alen (i_args i))%N -> i_caller i = i_rcpt i -> i_snd i = true ->
    (g_ESDTNFTAddURI G <= i_gas i)%N -> (u64 (g_ESDTNFTAddURI G + add_uri_store E i) <= i_gas i)%N ->
    has_role E s (i_caller i) (argn i 0) C.ESDTRoleNFTAddURI = true ->
    nft_entry_usable i s t m v ->
    exists o s', f_nft_add_uri E i s = (Ok o, s').
  Proof.
    intros Hv Hl Hcr Hsnd Hg0 Hg Hrole Hent. unfold f_nft_add_uri. cbv zeta.
    assert (L2 : (2 <= alen (i_args i))%N) by lia.
    rewrite (bind_eq _ _ _ _ _ (check_create_burn_add_succeeds i _ s Hv L2 Hcr Hsnd Hg0)).
    rewrite (bind_eq _ _ _ _ _ (guard_true _ _ _ (le_negb_ltb _ _ Hl))).
    assert (L0 : (0 < alen (i_args i))%N) by lia. assert (L1 : (1 < alen (i_args i))%N) by lia.
    rewrite (bind_eq _ _ _ _ _ (arg_argn_succeeds i 0 s L0)). argnorm.
    destruct (check_allowed_succeeds E _ _ _ _ s Hnf Hsnd Hrole) as (s1 & H1).
    rewrite (bind_eq _ _ _ _ _ H1). apply check_allowed_ok in H1 as (_ & _ & Hrd1).
    rewrite (bind_eq _ _ _ _ _ (args_from_succeeds (i_args i) 2 s1 L2)). argnorm.
    fold (add_uri_store E i). rewrite (bind_eq _ _ _ _ _ (guard_true _ _ _ (le_negb_ltb _ _ Hg))).
    rewrite (bind_eq _ _ _ _ _ (arg_argn_succeeds i 1 s1 L1)). argnorm.
    destruct (nft_lookup_succeeds i s s1 t m v Hrd1 Hent) as (s2 & H2 & Hrd2 & Hn0).
    rewrite (bind_eq _ _ _ _ _ (guard_true _ _ _ (f_equal negb Hn0))).
    rewrite (bind_eq _ _ _ _ _ H2).
    destruct Hent as (Hn & Ht & Hm & Hval & Hfp).
    rewrite (bind_eq _ _ _ _ _ (meta_of_succeeds _ _ s2 Hm)).
    destruct (nft_store_succeeds i s s2 t m v (set_meta t (Some (set_uris m (md_uris m ++ skipn 2 (i_args i))))) v Hrd2
                (conj Hn (conj Ht (conj Hm (conj Hval Hfp))))) as (b & s3 & H3); try reflexivity.
    { exact Hval. }
    rewrite (bind_eq _ _ _ _ _ H3). eexists. eexists. reflexivity.
  Qed.

  Theorem f_nft_update_attributes_succeeds i s t m v :
    i_value i = 0%Z -> alen (i_args i) = 3%N -> i_caller i = i_rcpt i -> i_snd i = true ->
    (g_ESDTNFTUpdateAttributes G <= i_gas i)%N ->
    (u64 (g_ESDTNFTUpdateAttributes G + update_attributes_store E i) <= i_gas i)%N ->
    has_role E s (i_caller i) (argn i 0) C.ESDTRoleNFTUpdateAttributes = true ->
    nft_entry_usable i s t m v ->
    exists o s', f_nft_update_attributes E i s = (Ok o, s').
  Proof.
    intros Hv Hl Hcr Hsnd Hg0 Hg Hrole Hent. unfold f_nft_update_attributes. cbv zeta.
    assert (L2 : (2 <= alen (i_args i))%N) by lia.
    rewrite (bind_eq _ _ _ _ _ (check_create_burn_add_succeeds i _ s Hv L2 Hcr Hsnd Hg0)).
    assert (G0 : (alen (i_args i) =? 3)%N = true) by lia.
    rewrite (bind_eq _ _ _ _ _ (guard_true _ _ _ G0)).
    assert (L0 : (0 < alen (i_args i))%N) by lia. assert (L1 : (1 < alen (i_args i))%N) by lia.
    assert (L2' : (2 < alen (i_args i))%N) by lia.
    rewrite (bind_eq _ _ _ _ _ (arg_argn_succeeds i 0 s L0)). argnorm.
    destruct (check_allowed_succeeds E _ _ _ _ s Hnf Hsnd Hrole) as (s1 & H1).
    rewrite (bind_eq _ _ _ _ _ H1). apply check_allowed_ok in H1 as (_ & _ & Hrd1).
    rewrite (bind_eq _ _ _ _ _ (arg_argn_succeeds i 2 s1 L2')). argnorm.
    fold (update_attributes_store E i). rewrite (bind_eq _ _ _ _ _ (guard_true _ _ _ (le_negb_ltb _ _ Hg))).
    rewrite (bind_eq _ _ _ _ _ (arg_argn_succeeds i 1 s1 L1)). argnorm.
    destruct (nft_lookup_succeeds i s s1 t m v Hrd1 Hent) as (s2 & H2 & Hrd2 & Hn0).
    rewrite (bind_eq _ _ _ _ _ (guard_true _ _ _ (f_equal negb Hn0))).
    rewrite (bind_eq _ _ _ _ _ H2).
    destruct Hent as (Hn & Ht & Hm & Hval & Hfp).
    rewrite (bind_eq _ _ _ _ _ (meta_of_succeeds _ _ s2 Hm)).
    destruct (nft_store_succeeds i s s2 t m v (set_meta t (Some (set_attributes m (argn i 2)))) v Hrd2
                (conj Hn (conj Ht (conj Hm (conj Hval Hfp))))) as (b & s3 & H3); try reflexivity.
    { exact Hval. }
    rewrite (bind_eq _ _ _ _ _ H3). eexists. eexists. reflexivity.
  Qed.
End Liveness.

(* supply_common_guards depends on all eight <f>_spec lemmas *)
Print Assumptions supply_common_guards.
Print Assumptions supply_balance_effect.
Print Assumptions supply_shard_total.
Print Assumptions supply_overdraft_fails.
Print Assumptions supply_requires_role.
Print Assumptions supply_frozen_paused.
Print Assumptions supply_footprint.
Print Assumptions supply_counter_unchanged.
Print Assumptions supply_other_entries_unchanged.
Print Assumptions create_records_metadata.
Print Assumptions add_uri_effect.
Print Assumptions update_attributes_effect.
Print Assumptions supply_metadata_preserved.
Print Assumptions f_local_mint_succeeds.
Print Assumptions f_esdt_burn_succeeds.
Print Assumptions f_nft_create_succeeds.
Print Assumptions f_nft_burn_succeeds.
Print Assumptions f_nft_update_attributes_succeeds.
