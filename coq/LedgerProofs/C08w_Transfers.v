(* C08, world-level formulation, part 3: the three transfer functions keep the provenance invariant on both
   execution sides, with [V] fixed (a transfer produces no metadata value):
     - the sender side moves the sender's own entry (read under a valid identifier, so its metadata is of record);
       same shard: that entry, up to Value, is what the destination stores; cross shard: its encoding is the
       payload of the emitted message ([outp]: the payload of every emitted NFT message is of record);
     - the destination side stores the decoded payload, which is of record by the hypothesis [payload_prov]
       (at the world level: by the invariant on in-flight messages).
   [PInv_exec]: the theorem about the dispatch, all 23 functions. *)
From Coq Require Import Lia.
From EV Require Import Base.Bytes Base.Store Base.Monad gen.Consts Codec.Types Helpers.Helpers
  Ledger.Types Ledger.Env Ledger.Funcs Ledger.Transfers LedgerProofs.Defs LedgerProofs.EnvSpec
  LedgerProofs.Spec_Transfers_Base LedgerProofs.Spec_Transfers_Multi LedgerProofs.Spec_Supply
  LedgerProofs.C01_Consistent LedgerProofs.C05_Footprint LedgerProofs.C15_Inv LedgerProofs.C15_Funcs
  LedgerProofs.C15_Transfers LedgerProofs.ValidIds_Id LedgerProofs.ValidIds_Inv LedgerProofs.ValidIds_Funcs
  LedgerProofs.ValidIds_Transfers LedgerProofs.ValidIds_Exec LedgerProofs.C08_Base
  LedgerProofs.C08w_Inv LedgerProofs.C08w_Funcs.

Section Transfers.
  Variable V : bytes -> N -> metadata -> Prop.
  Variable E : env.
  Hypothesis Hc : codec_ok (cdc E).
  Hypothesis Hf : flag_undec (cdc E).
  Notation okout i := (outp V E i).
  Notation cd := (cdc E).

  (* ---------------- ESDTTransfer ---------------- *)
  Lemma kp_f_esdt_transfer i : tok0v i -> kp V E (f_esdt_transfer E i) (okout i).
  Proof.
    intros Hv. unfold f_esdt_transfer. kp_tac V E Hc Hf. all: cbv zeta; apply outp_add_log.
    all: try solve [apply outp_aot_local; assumption].
    all: try solve [apply outp_if; [apply outp_set_gasrem|]; apply outp_mk].
    all: destruct (is_sc (i_caller i)); [|apply outp_mk].
    all: apply outp_aot_plain; [cbn; auto 10|w_const_ne|w_const_ne].
  Qed.

  Lemma mv_enc tok t : wf_token t -> mv V tok t -> forall t', dec_tok cd (enc_tok cd t) = Some t' -> mv V tok t'.
  Proof. intros Hw Hm t' Hd. rewrite (dec_enc_tok _ Hc t Hw) in Hd. injection Hd as <-. exact Hm. Qed.

  (* ---------------- ESDTNFTTransfer ---------------- *)
  Lemma kp_f_nft_transfer_sender i : (4 <= alen (i_args i))%N -> tok0v i -> kp V E (f_nft_transfer_sender E i) (okout i).
  Proof.
    intros Hlen Hv. unfold f_nft_transfer_sender. kp_tac0 V E Hc Hf.
    kp_ifT V E; [kp_tac0 V E Hc Hf..|]. kp_tac0 V E Hc Hf.
    match goal with H : nth_error (i_args i) (N.to_nat 0) = Some ?tk |- _ => rename H into Htok; set (tok := tk) in * end.
    eapply (kp_bind V E) with (Q := fun t2 : token => wf_token t2 /\ mv V tok t2).
    { kp_tac0 V E Hc Hf.
      - match goal with H : exists v, _ = set_value _ (Some v) |- _ => destruct H as (v & ->) end.
        split; [wf_solve|mv_solve].
      - split; [wf_solve|mv_solve]. }
    intros t2 [Hw2 Hm2]. kp_tac0 V E Hc Hf.
    eapply (kp_bind V E) with (Q := fun l => l = firstn 3 (i_args i)).
    { match goal with |- kp _ _ (if ?b then _ else _) _ => destruct b end; [apply (kp_ret_eq V E)|apply (kp_panic V E)]. }
    intros first3 ->.
    kp_ifT V E; [kp_tac0 V E Hc Hf..|].
    eapply (kp_bind V E) with (Q := okout i).
    { kp_tac V E Hc Hf.
      - (* cross-shard: the message *)
        apply outp_ant_nft. intros tok' b t Ht0 Hb Hd.
        assert (Hl3 : length (firstn 3 (i_args i)) = 3%nat) by (rewrite firstn_length; unfold alen in Hlen; lia).
        rewrite nth_error_app1 in Ht0 by lia. rewrite nth_error_firstn_lt in Ht0 by lia.
        change (N.to_nat 0) with 0%nat in Htok. rewrite Htok in Ht0. injection Ht0 as <-.
        rewrite nth_error_app2 in Hb by lia. rewrite Hl3 in Hb. cbn in Hb. injection Hb as <-.
        subst. eapply mv_enc; eauto.
      - apply outp_aot_same.
        match goal with H : negb (_ =? _)%N = false |- _ => apply Bool.negb_false_iff, N.eqb_eq in H; symmetry; exact H end.
      - outp_tac. }
    intros o Ho. kp_tac0 V E Hc Hf. apply outp_add_log. exact Ho.
  Qed.

  Lemma kp_f_nft_transfer i :
    tok0v i -> (dest_side i -> nft_args_prov V cd (i_args i)) -> kp V E (f_nft_transfer E i) (okout i).
  Proof.
    intros Hv Hin. unfold f_nft_transfer. do 2 (kp_step0 V E Hc Hf).
    destruct (beqb (i_caller i) (i_rcpt i)) eqn:Ecr.
    - apply kp_f_nft_transfer_sender; [lia|exact Hv].
    - kp_tac0 V E Hc Hf.
      match goal with Hd : dec_tok cd _ = Some ?t, Ht : nth_error (i_args i) (N.to_nat 0) = Some ?tk |- _ =>
        assert (Hm : mv V tk t) end.
      { eapply Hin; [|eassumption|eassumption|eassumption].
        split; [destruct (i_snd i); [discriminate|reflexivity]|]. intros He. rewrite He, beqb_refl in Ecr. discriminate. }
      kp_tac0 V E Hc Hf.
      eapply (kp_bind V E) with (Q := okout i).
      { kp_tac V E Hc Hf. all: outp_tac. }
      intros o Ho. kp_tac0 V E Hc Hf. apply outp_add_log. exact Ho.
  Qed.

  (* ---------------- MultiESDTNFTTransfer ---------------- *)
  Definition tokp (p : bytes * token) : Prop := valid_id (fst p) /\ wf_token (snd p) /\ mv V (fst p) (snd p).

  Lemma kp_transfer_one_sender snd caller dstLocal dst tok nonce q verify rae : valid_id tok ->
    kp V E (transfer_one_sender E snd caller dstLocal dst tok nonce q verify rae) (fun t => wf_token t /\ mv V tok t).
  Proof.
    intros Hv. unfold transfer_one_sender. kp_tac0 V E Hc Hf.
    kp_ifT V E; [kp_tac0 V E Hc Hf..|]. kp_tac0 V E Hc Hf.
    - match goal with H : exists v, _ = set_value _ (Some v) |- _ => destruct H as (v & ->) end.
      split; [wf_solve|mv_solve].
    - split; [wf_solve|mv_solve].
  Qed.

  Lemma kp_multi_sender_loop i dstLocal dst verify :
    forall fuel idx acc logs,
      (forall j tok, (idx <= j < idx + N.of_nat fuel)%N ->
         nth_error (i_args i) (N.to_nat (2 + j * 3)) = Some tok -> valid_id tok) ->
      Forall tokp acc ->
      kp V E (multi_sender_loop E fuel i dstLocal dst verify idx acc logs)
           (fun r => Forall tokp (fst r) /\ length (fst r) = (fuel + length acc)%nat).
  Proof.
    induction fuel as [|f IH]; intros idx acc logs Hv Hacc.
    - cbn [multi_sender_loop]. apply (kp_ret V E). cbn [fst]. split; [apply Forall_rev; exact Hacc|].
      rewrite rev_length. reflexivity.
    - cbn [multi_sender_loop]. unfold apt, C.bif_argumentsPerTransfer. kp_tac0 V E Hc Hf.
      match goal with H : nth_error (i_args i) (N.to_nat (2 + idx * 3)) = Some ?tok |- _ =>
        assert (Hvt : valid_id tok) by (apply (Hv idx tok); [lia|exact H]) end.
      eapply (kp_bind V E); [apply kp_transfer_one_sender; exact Hvt|].
      kp_intro. cbv zeta. eapply (kp_weaken V E).
      + apply IH; [intros j tok Hj; apply Hv; lia|]. constructor; [split; [exact Hvt|split; assumption]|exact Hacc].
      + cbv beta. intros r [H1 H2]. split; [exact H1|]. rewrite H2. cbn [length]. lia.
  Qed.

  Lemma kp_multi_out_args i : forall l o acc, Forall tokp l -> okout i o ->
    kp V E (multi_out_args E l o acc)
         (fun r => okout i (snd r)
                   /\ exists L, fst r = acc ++ L /\ forall rest, triples_prov V cd (length l) (L ++ rest)).
  Proof.
    induction l as [|[tok t] r IH]; intros o acc Hl Ho.
    - cbn [multi_out_args]. apply (kp_ret V E). cbn [fst snd length]. split; [exact Ho|].
      exists []. split; [rewrite app_nil_r; reflexivity|intros; exact I].
    - inversion Hl as [|? ? (Hv & Hw & Hm) Hr]; subst. cbn [fst snd] in *. cbn [multi_out_args].
      destruct (t_meta t) as [m|] eqn:Em.
      + eapply (kp_bind V E); [apply (kp_marshal_tok V E)|]. intros b ->.
        eapply (kp_bind V E); [apply (kp_guard V E)|]. intros _ _.
        eapply (kp_weaken V E); [apply IH; [exact Hr|apply outp_set_gasrem; exact Ho]|].
        cbv beta. intros x (H1 & L & HL & HT). split; [exact H1|].
        exists ([tok; u64_bytes (md_nonce m); enc_tok cd t] ++ L). split; [rewrite HL, <- app_assoc; reflexivity|].
        intros rest. cbn [length app triples_prov]. split; [|apply HT].
        intros _ t' Hd. eapply mv_enc; eauto.
      + eapply (kp_bind V E); [apply (kp_val_of V E)|]. intros v _.
        eapply (kp_weaken V E); [apply IH; [exact Hr|exact Ho]|].
        cbv beta. intros x (H1 & L & HL & HT). split; [exact H1|].
        exists ([tok; [x00]; Z_bytes v] ++ L). split; [rewrite HL, <- app_assoc; reflexivity|].
        intros rest. cbn [length app triples_prov]. split; [|apply HT].
        rewrite bigU64_zero_byte. lia.
  Qed.

  Lemma kp_f_multi_transfer_sender i : i_rcpt i = i_caller i ->
    Forall valid_id (map rt_tok (multi_snd_triples i)) -> kp V E (f_multi_transfer_sender E i) (okout i).
  Proof.
    intros Hself Hv. unfold f_multi_transfer_sender. kp_tac0 V E Hc Hf.
    kp_ifT V E; [kp_tac0 V E Hc Hf..|].
    match goal with H : nth_error (i_args i) (N.to_nat 1) = Some ?a1 |- _ =>
      assert (Hn1 : multi_n_snd i = bigU64 a1) by (exact (f_equal bigU64 (argn_nth_error _ _ _ H)));
      set (n := bigU64 a1) in * end.
    do 3 (eapply (kp_bind V E); [apply (kp_alloc V E)|intros _ _]).
    eapply (kp_bind V E).
    { apply kp_multi_sender_loop; [|constructor]. intros j tok Hj Hnth.
      unfold multi_snd_triples in Hv. rewrite Hn1 in Hv.
      apply (multi_tokens_valid _ _ _ _ Hv j tok); [lia|exact Hnth]. }
    intros [lst logs] [Hl Hlen]. cbn [fst length] in Hl, Hlen. rewrite Nat.add_0_r in Hlen.
    kp_ifT V E; [kp_tac0 V E Hc Hf..|].
    eapply (kp_bind V E); [apply (kp_alloc V E)|intros _ _].
    eapply (kp_bind V E); [apply (kp_multi_out_args i); [exact Hl|outp_tac]|].
    intros [args' o] (Ho & L & HL & HT). cbn [fst snd] in *. subst args'.
    kp_ifT V E; [kp_tac0 V E Hc Hf..|]. cbv zeta.
    match goal with |- kp _ _ (if ?b then _ else _) _ => destruct b eqn:Esame end.
    - (* cross-shard: the message *)
      apply (kp_ret V E).
      apply outp_ant_multi; [|exact Hself|].
      + intros a00 Ha0. cbn in Ha0. injection Ha0 as <-. rewrite bigU64_u64_bytes, u64_small by apply bigU64_lt.
        cbn [app skipn]. rewrite <- Hlen. apply HT.
      + match goal with H : negb (beqb ?d (i_caller i)) = true |- ?d <> _ =>
          intros He; rewrite He, beqb_refl in H; discriminate end.
    - apply Bool.negb_false_iff, N.eqb_eq in Esame.
      kp_tac V E Hc Hf; [apply outp_aot_same; symmetry; exact Esame|exact Ho].
  Qed.

  Lemma kp_multi_dest_loop i minArgs :
    forall fuel idx logs,
      (forall j tok, (idx <= j < idx + N.of_nat fuel)%N ->
         nth_error (i_args i) (N.to_nat (1 + j * 3)) = Some tok -> valid_id tok) ->
      triples_prov V cd fuel (skipn (N.to_nat (1 + idx * 3)) (i_args i)) ->
      kp V E (multi_dest_loop E fuel i minArgs idx logs) (fun _ => True).
  Proof.
    induction fuel as [|f IH]; intros idx logs Hv Hb.
    - cbn [multi_dest_loop]. apply (kp_ret V E). exact I.
    - cbn [multi_dest_loop]. unfold apt, C.bif_argumentsPerTransfer. kp_tac0 V E Hc Hf.
      match goal with H : nth_error (i_args i) (N.to_nat (1 + idx * 3)) = Some ?tok |- _ =>
        assert (Hvt : valid_id tok) by (apply (Hv idx tok); [lia|exact H]) end.
      eapply (kp_bind V E) with
        (Q := fun _ => exists z, nth_error (i_args i) (N.to_nat (1 + idx * 3 + 2)) = Some z).
      + match goal with |- kp _ _ (if ?b then _ else _) _ => destruct b eqn:Epos end.
        * kp_tac0 V E Hc Hf.
          match goal with Hd : dec_tok cd ?b = Some ?t, Ht : nth_error (i_args i) (N.to_nat (1 + idx * 3)) = Some ?tk |- _ =>
            assert (Hm : mv V tk t) end.
          { erewrite skipn_three in Hb; [| |replace (N.to_nat (1 + idx * 3) + 1)%nat with (N.to_nat (1 + idx * 3 + 1)) by lia|
                                           replace (N.to_nat (1 + idx * 3) + 2)%nat with (N.to_nat (1 + idx * 3 + 2)) by lia];
              [|eassumption..].
            cbn [triples_prov] in Hb. destruct Hb as [Hb _]. eapply Hb; [lia|eassumption]. }
          kp_tac0 V E Hc Hf. eauto.
        * kp_tac0 V E Hc Hf. eauto.
      + intros _ [z Hz]. cbv zeta. apply IH; [intros j tok Hj; apply Hv; lia|].
        erewrite skipn_three in Hb; [| |replace (N.to_nat (1 + idx * 3) + 1)%nat with (N.to_nat (1 + idx * 3 + 1)) by lia|
                                         replace (N.to_nat (1 + idx * 3) + 2)%nat with (N.to_nat (1 + idx * 3 + 2)) by lia];
          [|eassumption..].
        cbn [triples_prov] in Hb. destruct Hb as [_ Hb].
        replace (N.to_nat (1 + (idx + 1) * 3)) with (N.to_nat (1 + idx * 3) + 3)%nat by lia. exact Hb.
  Qed.

  Lemma kp_f_multi_transfer i :
    Forall valid_id (map rt_tok (multi_named i)) -> (dest_side i -> multi_args_prov V cd (i_args i)) ->
    kp V E (f_multi_transfer E i) (okout i).
  Proof.
    intros Hv Hin. unfold multi_named in Hv. unfold f_multi_transfer. do 2 (kp_step0 V E Hc Hf).
    destruct (beqb (i_caller i) (i_rcpt i)) eqn:Ecr.
    - apply kp_f_multi_transfer_sender; [symmetry; apply beqb_true; exact Ecr|exact Hv].
    - kp_tac0 V E Hc Hf.
      match goal with H : nth_error (i_args i) (N.to_nat 0) = Some ?a0 |- _ =>
        assert (Hn0 : multi_n_dst i = bigU64 a0) by (exact (f_equal bigU64 (argn_nth_error _ _ _ H))) end.
      assert (Hds : dest_side i).
      { split; [destruct (i_snd i); [discriminate|reflexivity]|]. intros He. rewrite He, beqb_refl in Ecr. discriminate. }
      eapply (kp_bind V E).
      { apply kp_multi_dest_loop.
        - intros j tok Hj Hnth. unfold multi_dst_triples in Hv. rewrite Hn0 in Hv.
          apply (multi_tokens_valid _ _ _ _ Hv j tok); [lia|exact Hnth].
        - change (N.to_nat (1 + 0 * 3)) with 1%nat. apply (Hin Hds). assumption. }
      intros logs _. kp_tac V E Hc Hf. all: outp_tac.
  Qed.

  (* ---------------- the dispatch: the 20 functions that produce no metadata value ---------------- *)
  Definition producer (b : bfn) : bool :=
    match b with BNftCreate | BAddUri | BUpdateAttributes => true | _ => false end.

  Theorem kp_run_bfn b i : producer b = false -> Forall valid_id (named_tokens_b b i) ->
    payload_prov V E (bfn_name b) i -> kp V E (run_bfn E b i) (okout i).
  Proof.
    intros Hnp Hv Hin.
    destruct b; try discriminate Hnp; cbn [run_bfn];
      try (match type of Hv with Forall _ (named_tokens_b ?b _) => pose proof (call_ids_tok0v b i eq_refl Hv) as Hv0 end).
    - apply kp_f_claim_rewards; assumption.
    - apply kp_f_change_owner; assumption.
    - apply kp_f_set_user_name; assumption.
    - apply kp_f_save_key_value; assumption.
    - apply kp_f_pause; assumption.
    - apply kp_f_pause; assumption.
    - apply kp_f_esdt_transfer; assumption.
    - apply kp_f_esdt_burn; assumption.
    - apply kp_f_freeze_wipe; assumption.
    - apply kp_f_freeze_wipe; assumption.
    - apply kp_f_freeze_wipe; assumption.
    - apply kp_f_roles; assumption.
    - apply kp_f_roles; assumption.
    - apply kp_f_local_burn; assumption.
    - apply kp_f_local_mint; assumption.
    - apply kp_f_nft_add_quantity; assumption.
    - apply kp_f_nft_burn; assumption.
    - apply kp_f_nft_transfer; [assumption|]. intros Hd. apply (Hin Hd). reflexivity.
    - apply kp_f_create_role_transfer; assumption.
    - apply kp_f_multi_transfer; [assumption|]. intros Hd. apply (Hin Hd). reflexivity.
  Qed.
End Transfers.

(* ---------------- the theorem about [exec] ---------------- *)
(* every successful call of any of the 23 functions that names valid identifiers only, whose destination-side NFT
   payloads are of record and whose produced metadata values (creation / the two updates) are of record,
   re-establishes the provenance invariant, and the NFT payloads it emits are of record *)
Theorem PInv_exec V E f i s o s' :
  codec_ok (cdc E) -> flag_undec (cdc E) -> PInv V E s -> call_ids f i -> payload_prov V E f i ->
  produced_ok V E f i s -> exec E f i s = (Ok o, s') -> PInv V E s' /\ outp V E i o.
Proof.
  intros Hc Hf Hs Hv Hin Hprod Hx.
  destruct (classify f) as [b|] eqn:Ecl.
  2: { rewrite exec_classify, Ecl in Hx. discriminate. }
  pose proof (classify_some _ _ Ecl) as ->.
  destruct (producer b) eqn:Hp.
  - destruct b; try discriminate Hp.
    + apply (PInv_create V E Hc Hf i s o s'); assumption.
    + apply (PInv_update_attributes V E Hc Hf i s o s'); assumption.
    + apply (PInv_add_uri V E Hc Hf i s o s'); assumption.
  - rewrite exec_name in Hx. unfold call_ids, named_tokens in Hv. rewrite classify_name in Hv.
    exact (kp_ok V E _ _ _ _ _ (kp_run_bfn V E Hc Hf b i Hp Hv Hin) Hs Hx).
Qed.

Print Assumptions PInv_exec.
