(* Capstone, part 3: histories.  From any world satisfying the joint invariant (the empty world does), along every
   list of honest operations:
     capstone_invariant     the joint invariant holds after every prefix;
     capstone_no_panic      no executed call panics; each returns Ok with return code Ok, or an error;
     capstone_supply        total k after = total k before + the sum of the stated supply changes, for every protocol
                            key k -- no F4b hypothesis; capstone_conservation when no supply operation succeeds;
     capstone_wellformed    every shard state satisfies C15's Inv, and no balance under a protocol key is negative.
   Second level, the single-creator discipline of C07 ([creator_ok], with the ghost list G of tokens whose create role
   the system contract has set): capstone_nonces_unique. *)
From Coq.Strings Require Import String.
From Coq Require Import Lia List Sorted.
From EV Require Import Base.Bytes Base.Store Base.Monad gen.Consts Codec.Types Helpers.Helpers
  Ledger.Types Ledger.Env Ledger.Funcs Ledger.Transfers Ledger.World
  LedgerProofs.Defs LedgerProofs.EnvSpec LedgerProofs.WorldDefs LedgerProofs.WorldSpec
  LedgerProofs.Spec_Transfers_Base LedgerProofs.Spec_Supply LedgerProofs.Spec_System
  LedgerProofs.C01_World LedgerProofs.C01_Step LedgerProofs.C01_Consistent
  LedgerProofs.C02_Effects LedgerProofs.C02_NonNeg LedgerProofs.C02_World
  LedgerProofs.C05_Footprint LedgerProofs.C07_Exec LedgerProofs.C07_Emit LedgerProofs.C07_World
  LedgerProofs.C15_Inv LedgerProofs.C15_Transfers LedgerProofs.C15_World
  LedgerProofs.NoPanic LedgerProofs.NoPanicWorldEmit LedgerProofs.NoPanicWorld
  LedgerProofs.Supply_Base LedgerProofs.Supply_Calls LedgerProofs.Supply_Step
  LedgerProofs.ValidIds_Id LedgerProofs.ValidIds_Inv LedgerProofs.ValidIds_Exec LedgerProofs.ValidIds_World
  LedgerProofs.Capstone_Defs LedgerProofs.Capstone_Step.
Import ListNotations.

Section Histories.
  Variable c : wcfg.
  Hypothesis Hc : codec_ok (wc_cdc c).
  Hypothesis Hf : flag_undec (wc_cdc c).
  Notation shof := (wc_shard_of c).

  (* ================================================================ *)
  (* level 1                                                            *)
  (* ================================================================ *)
  Theorem honest_histories ops : forall w, JInv c w -> honest_ops c w ops ->
    JInv c (wrun c w ops)
    /\ forall k, pkey k -> total c k (wrun c w ops) = (total c k w + supply_sum c w ops k)%Z.
  Proof.
    induction ops as [|op r IH]; intros w HJ Hops.
    - split; [exact HJ|]. intros k _. cbn [wrun fold_left supply_sum]. lia.
    - destruct Hops as [Hop Hr]. destruct (honest_step c Hc Hf w op HJ Hop) as [HJ' Hk].
      rewrite wrun_cons. destruct (IH _ HJ' Hr) as [HJ'' Hk']. split; [exact HJ''|].
      intros k Hp. rewrite (Hk' k Hp), (Hk k Hp). cbn [supply_sum]. lia.
  Qed.

  (* 1. the joint invariant after every prefix *)
  Theorem capstone_invariant w ops n : JInv c w -> honest_ops c w ops -> JInv c (wrun c w (firstn n ops)).
  Proof. intros HJ Hops. apply honest_histories; [exact HJ|apply honest_ops_firstn; exact Hops]. Qed.

  (* 2. no executed call panics *)
  Theorem capstone_no_panic w ops : JInv c w -> honest_ops c w ops ->
    Forall (fun st => st <> Some SPanic) (statuses c w ops) /\ Forall step_total (results c w ops).
  Proof.
    intros HJ Hops. pose proof (honest_ops_tx_ops c ops w Hops) as Htx. split.
    - apply (world_no_panic c Hc (flag_undec_ok _ Hf)); [apply (j_nopanic c w HJ)|exact Htx].
    - apply (world_total c Hc (flag_undec_ok _ Hf)); [apply (j_nopanic c w HJ)|exact Htx].
  Qed.

  (* 3. supply accounting, without any F4b hypothesis *)
  Theorem capstone_supply w ops k : JInv c w -> honest_ops c w ops -> pkey k ->
    total c k (wrun c w ops) = (total c k w + supply_sum c w ops k)%Z.
  Proof. intros HJ Hops Hk. apply (proj2 (honest_histories ops w HJ Hops) k Hk). Qed.
  Theorem capstone_conservation w ops k : JInv c w -> honest_ops c w ops -> no_supply_ops c w ops -> pkey k ->
    total c k (wrun c w ops) = total c k w.
  Proof.
    intros HJ Hops Hno Hk. rewrite (capstone_supply w ops k HJ Hops Hk), (supply_sum_no_supply_ops c ops w k Hno). lia.
  Qed.
  Theorem capstone_supply_nonneg w ops k : JInv c w -> honest_ops c w ops -> pkey k -> (0 <= total c k (wrun c w ops))%Z.
  Proof.
    intros HJ Hops Hk. apply total_nonneg; [|exact Hk]. apply (j_supply c). apply honest_histories; assumption.
  Qed.

  (* 4. every shard state is well-formed (all clauses of C15's Inv) and no balance is negative, after every prefix *)
  Theorem capstone_wellformed w ops n sh : JInv c w -> honest_ops c w ops ->
    let s := sstate (wrun c w (firstn n ops)) sh in
    Inv (env_at c sh) s /\ forall a x, (0 <= balance (env_at c sh) s a (P ++ x))%Z.
  Proof.
    intros HJ Hops. cbv zeta. pose proof (capstone_invariant w ops n HJ Hops) as HJn. split.
    - apply (proj1 (j_c15 c _ HJn) sh).
    - intros a x. apply NonNeg_balance. apply (j_nonneg c _ HJn sh).
  Qed.

  (* ================================================================ *)
  (* level 2: the single-creator discipline (C07)                       *)
  (* ================================================================ *)
  (* the system contract sets the create role *)
  Definition grants_create (fn : bytes) (i : input) : bool :=
    (beqb fn FSetRole && beqb (i_caller i) SC && bytes_in CR (tl (i_args i)))%bool.
  (* ghost state: the tokens whose create role the system contract has set (or tried to set) *)
  Definition granted_after (G : list bytes) (op : wop) : list bytes :=
    match op with
    | OCall _ fn i => if grants_create fn i then argn i 0 :: G else G
    | _ => G
    end.
  (* C07's discipline and no-wrap hypothesis, as a condition on one operation:
     the system contract sets the create role of a token at most once, never unsets it, hands it over only from the
     account that holds it; ESDTNFTCreate only while the counter is below 2^64 - 1 *)
  Definition creator_ok (G : list bytes) (w : world) (op : wop) : Prop :=
    match op with
    | OCall sh fn i =>
      (i_caller i = SC ->
         (fn = FSetRole -> In CR (tl (i_args i)) -> ~ In (argn i 0) G)
         /\ (fn = FUnSetRole -> ~ In CR (tl (i_args i)))
         /\ (fn = CRT -> has_role (env_at c sh) (sstate w sh) (i_rcpt i) (argn i 0) CR = true))
      /\ (fn = FCreate -> (counter_at (sstate w sh) (i_caller i) (argn i 0) + 1 < two64)%N)
    | _ => True
    end.
  Fixpoint honest_ops7 (G : list bytes) (w : world) (ops : list wop) : Prop :=
    match ops with
    | [] => True
    | op :: r => honest_op c w op /\ creator_ok G w op /\ honest_ops7 (granted_after G op) (wstep c w op) r
    end.
  Lemma honest_ops7_honest ops : forall G w, honest_ops7 G w ops -> honest_ops c w ops.
  Proof.
    induction ops as [|op r IH]; intros G w H; [exact I|]. destruct H as (H1 & _ & H3).
    split; [exact H1|apply (IH _ _ H3)].
  Qed.

  (* C07's discipline is monotone in the flag: a history disciplined for "already granted" is disciplined for "not yet" *)
  Lemma step_ok_mono tok g g' w op : (g' = true -> g = true) -> step_ok c tok g w op -> step_ok c tok g' w op.
  Proof.
    intros Hg [Hd H]. split; [exact Hd|]. destruct (op_exec c w op) as [[[sh fn] i]|]; [|exact I].
    destruct H as (H1 & H2 & H3). split; [|split; assumption].
    intros Hgr. destruct (H1 Hgr) as [Hx Hy]. split; [|exact Hy]. destruct g'; [|reflexivity]. rewrite Hg in Hx; auto.
  Qed.
  Lemma disciplined_mono tok ops : forall g g' w, (g' = true -> g = true) ->
    C07_World.disciplined c tok g w ops -> C07_World.disciplined c tok g' w ops.
  Proof.
    induction ops as [|op r IH]; intros g g' w Hg H; [exact I|]. destruct H as [H1 H2]. split.
    - apply (step_ok_mono tok g g' w op Hg H1).
    - apply (IH (g || grant_attempt c tok w op)%bool); [|exact H2].
      intros H. apply Bool.orb_true_iff in H as [H|H]; [rewrite (Hg H); reflexivity|rewrite H; apply Bool.orb_true_r].
  Qed.

  Lemma nodup_app_r {A} (l l' : list A) : NoDup (l ++ l') -> NoDup l'.
  Proof. induction l as [|x r IH]; cbn [app]; intros H; [exact H|]. inversion H; subst. apply IH. assumption. Qed.
  Lemma nodup_cnt_le1 x (l : list bytes) : NoDup l -> (cnt x l <= 1)%nat.
  Proof.
    induction 1 as [|y r Hn Hnd IH]; [cbn; lia|]. rewrite cnt_cons. destruct (beqb_spec x y) as [->|Hne]; [|lia].
    assert (Hz : cnt y r = 0%nat).
    { apply cnt_zero_notin. destruct (bytes_in y r) eqn:E; [|reflexivity]. apply bytes_in_true in E. contradiction. }
    lia.
  Qed.

  (* the operation an OCall executes *)
  Lemma op_exec_call w sh0 fn0 i0 sh fn i : op_exec c w (OCall sh0 fn0 i0) = Some (sh, fn, i) -> sh0 = sh /\ fn0 = fn /\ i0 = i.
  Proof. cbn [op_exec]. destruct (sh0 <? wc_nshards c)%N; [|discriminate]. intros [= -> -> ->]. auto. Qed.
  (* the message behind a delivery / refund, with what the joint invariant says about its name *)
  Lemma op_exec_msg_names w op sh fn i : JInv c w -> op_exec c w op = Some (sh, fn, i) ->
    match op with
    | OCall _ _ _ => True
    | _ => fn <> FSetRole /\ fn <> FUnSetRole /\ fn <> FCreate
    end.
  Proof.
    intros HJ Hop. pose proof (op_exec_msg c w op sh fn i Hop) as Hm.
    destruct op as [?|id gas|id gas|id gas]; [exact I| | |];
      (destruct Hm as (m & Hfind & -> & _); destruct (find_msg_In _ _ _ Hfind) as [Hin _];
       pose proof (j_names c w HJ) as HN; unfold names_ok in HN; rewrite Forall_forall in HN;
       destruct (msg_fn_ok_facts _ (HN m Hin)) as (_ & H2 & _ & H4);
       split; [apply (proj2 (j_c15 c w HJ) m Hin)|split; assumption]).
  Qed.

  (* one honest operation obeying [creator_ok] is a disciplined step of C07, for EVERY token *)
  Lemma honest_step_ok tok G w op : JInv c w -> honest_op c w op -> creator_ok G w op ->
    step_ok c tok (bytes_in tok G) w op /\ step_nowrap c tok w op
    /\ ((bytes_in tok G || grant_attempt c tok w op)%bool = true -> bytes_in tok (granted_after G op) = true).
  Proof.
    intros HJ Hop Hcr. split; [|split].
    - (* step_ok *)
      split.
      { destruct op as [sh fn i|? ?|? ?|? ?]; cbn [dst_ok]; try exact I.
        destruct Hop as [_ Hop]. apply (honest_dst_truthful c w sh fn i Hop). }
      destruct (op_exec c w op) as [[[sh fn] i]|] eqn:Hex; [|exact I].
      pose proof (op_exec_msg_names w op sh fn i HJ Hex) as Hnm.
      destruct op as [sh0 fn0 i0|id gas|id gas|id gas].
      + destruct (op_exec_call _ _ _ _ _ _ _ Hex) as (-> & -> & ->). destruct Hop as [_ [Hu|Hs]].
        * (* a user: not the system contract; caller account present *)
          destruct Hu as ((Hcal & Hsnd & _) & Hnsc & _). split; [|split].
          -- intros (_ & Hx & _). contradiction.
          -- intros (_ & Hx & _). contradiction.
          -- intros (_ & Hx). rewrite Hsnd, Hcal, N.eqb_refl in Hx. discriminate Hx.
        * destruct Hs as (_ & Hcal & _ & _ & _ & _ & _ & Hroles). destruct Hcr as [Hcr _].
          destruct (Hcr Hcal) as (H1 & H2 & H3). split; [|split].
          -- intros (-> & _ & Ht & Hin). split.
             ++ destruct (bytes_in tok G) eqn:E; [|reflexivity]. apply bytes_in_true in E. rewrite <- Ht in E.
                exfalso. apply (H1 eq_refl Hin E).
             ++ (* C15's role discipline: the roles given are pairwise distinct *)
                destruct (i_args i) as [|a0 rest] eqn:Ea; [destruct Hin|]. cbn [tl] in *.
                pose proof (Hroles eq_refl a0) as Hnd. rewrite Ea in Hnd. specialize (Hnd eq_refl).
                cbn [skipn] in Hnd. apply nodup_app_r in Hnd.
                pose proof (nodup_cnt_le1 CR rest Hnd). assert (0 < cnt CR rest)%nat by (apply cnt_pos_in, bytes_in_true; exact Hin).
                lia.
          -- intros (-> & _ & _ & Hin). apply (H2 eq_refl Hin).
          -- intros ((-> & Ht) & _). split; [exact Hcal|]. apply holder_has_role. rewrite <- Ht. apply (H3 eq_refl).
      + destruct Hnm as (H1 & H2 & _). split; [|split].
        * intros (Hx & _). contradiction.
        * intros (Hx & _). contradiction.
        * intros _. exact I.
      + destruct Hop.
      + destruct Hnm as (H1 & H2 & _). split; [|split].
        * intros (Hx & _). contradiction.
        * intros (Hx & _). contradiction.
        * intros _. exact I.
    - (* no wrap *)
      unfold step_nowrap. destruct (op_exec c w op) as [[[sh fn] i]|] eqn:Hex; [|exact I].
      pose proof (op_exec_msg_names w op sh fn i HJ Hex) as Hnm.
      destruct op as [sh0 fn0 i0|id gas|id gas|id gas]; try (destruct Hnm as (_ & _ & Hx); intros; contradiction).
      destruct (op_exec_call _ _ _ _ _ _ _ Hex) as (-> & -> & ->). intros He Ht. rewrite <- Ht. apply (proj2 Hcr He).
    - (* the ghost list covers C07's flag *)
      intros H. apply Bool.orb_true_iff in H as [H|H].
      + destruct op as [sh fn i|? ?|? ?|? ?]; cbn [granted_after]; try exact H.
        destruct (grants_create fn i); [|exact H]. unfold bytes_in in *. cbn [existsb]. rewrite H. apply Bool.orb_true_r.
      + unfold grant_attempt in H. destruct (op_exec c w op) as [[[sh fn] i]|] eqn:Hex; [|discriminate H].
        pose proof (op_exec_msg_names w op sh fn i HJ Hex) as Hnm.
        apply andb_prop in H as [H H4]. apply andb_prop in H as [H H3]. apply andb_prop in H as [H1 H2].
        apply beqb_true in H1.
        destruct op as [sh0 fn0 i0|id gas|id gas|id gas]; try (destruct Hnm as (Hx & _); contradiction).
        destruct (op_exec_call _ _ _ _ _ _ _ Hex) as (-> & -> & ->). cbn [granted_after]. unfold grants_create.
        rewrite H1, beqb_refl, H2, H4. cbn [andb]. unfold bytes_in. cbn [existsb]. rewrite beqb_sym, H3. reflexivity.
  Qed.

  Theorem honest7_disciplined tok ops : forall G w, JInv c w -> honest_ops7 G w ops ->
    C07_World.disciplined c tok (bytes_in tok G) w ops /\ nowrap c tok w ops.
  Proof.
    induction ops as [|op r IH]; intros G w HJ H; [split; exact I|]. destruct H as (Hop & Hcr & Hr).
    destruct (honest_step_ok tok G w op HJ Hop Hcr) as (H1 & H2 & H3).
    destruct (honest_step c Hc Hf w op HJ Hop) as [HJ' _]. destruct (IH _ _ HJ' Hr) as [H4 H5].
    split; [split; [exact H1|]|split; [exact H2|exact H5]].
    apply (disciplined_mono tok r (bytes_in tok (granted_after G op))); [exact H3|exact H4].
  Qed.

  (* 5. the nonces issued for one token are pairwise distinct and strictly increasing (C07), for every token *)
  Theorem capstone_nonces_unique tok w ops : JInv c w -> init_ok c tok w -> honest_ops7 [] w ops ->
    let L := issued tok (snd (wrun_log c w ops)) in NoDup L /\ StronglySorted N.lt L.
  Proof.
    intros HJ Hi H. destruct (honest7_disciplined tok ops [] w HJ H) as [Hd Hn].
    apply (nonces_unique_histories c Hc tok w ops Hi Hd Hn).
  Qed.
  (* C07's invariant, from any world satisfying it: at most one holder of the create role, whose counter (or the
     counter carried by the hand-over message in flight) bounds every nonce issued *)
  Theorem capstone_creator_invariant tok G w L ops : JInv c w -> CInv c tok (bytes_in tok G) w L -> honest_ops7 G w ops ->
    exists g', CInv c tok g' (wrun c w ops) (L ++ issued tok (snd (wrun_log c w ops))).
  Proof.
    intros HJ HC H. destruct (honest7_disciplined tok ops G w HJ H) as [Hd Hn].
    apply (CInv_run c Hc tok ops _ w L HC Hd Hn).
  Qed.
End Histories.

Print Assumptions honest_histories.
Print Assumptions capstone_no_panic.
Print Assumptions capstone_nonces_unique.
Print Assumptions capstone_creator_invariant.
