(* C01, part 7: a sufficient condition for the F4b hypothesis [lookup_consistent]: if the token identifier named
   by the call has the protocol's shape  ticker '-' 6 bytes  (ticker without '-') and every token entry stored
   in the sender's account sits under  P ++ id ++ nonce-bytes  of such an identifier and of ITS OWN metadata
   nonce, then the lookup is consistent.  (The aliasing of F4b needs an identifier that is a proper prefix of
   another one's key: "ABC-12345" vs "ABC-123456" — not both of the protocol's shape.) *)
From Coq.Strings Require Import String.
From EV Require Import Base.Bytes Base.Store Base.Monad gen.Consts Codec.Types Helpers.Helpers
  Ledger.Types Ledger.Env Ledger.Funcs Ledger.Transfers Ledger.World
  LedgerProofs.Defs LedgerProofs.EnvSpec LedgerProofs.WorldDefs LedgerProofs.WorldSpec
  LedgerProofs.Spec_Transfers_Base LedgerProofs.Spec_Transfers_Esdt LedgerProofs.Spec_Transfers_Nft
  LedgerProofs.Spec_Transfers_Multi LedgerProofs.Spec_Transfers LedgerProofs.C01_World.

Definition valid_id (tok : bytes) : Prop :=
  exists ticker rnd, tok = ticker ++ x2d :: rnd /\ ~ In x2d ticker /\ length rnd = 6%nat.

Lemma split_at_first (x : Byte.byte) : forall k1 k2 a b, ~ In x k1 -> ~ In x k2 ->
  k1 ++ x :: a = k2 ++ x :: b -> k1 = k2 /\ a = b.
Proof.
  induction k1 as [|y k1 IH]; intros [|z k2] a b H1 H2 H; cbn [app] in H.
  - inversion H. auto.
  - inversion H; subst. exfalso. apply H2. left. reflexivity.
  - inversion H; subst. exfalso. apply H1. left. reflexivity.
  - inversion H; subst. destruct (IH k2 a b) as [-> ->]; auto.
    + intros Hin. apply H1. right. exact Hin.
    + intros Hin. apply H2. right. exact Hin.
Qed.
Lemma app_same_length {A} : forall (d1 d2 r1 r2 : list A), length d1 = length d2 -> d1 ++ r1 = d2 ++ r2 -> d1 = d2 /\ r1 = r2.
Proof.
  induction d1 as [|x d1 IH]; intros [|y d2] r1 r2 Hl H; cbn [length app] in *; try discriminate; [auto|].
  inversion H; subst. destruct (IH d2 r1 r2) as [-> ->]; auto.
Qed.
Lemma valid_id_unique t1 t2 r1 r2 : valid_id t1 -> valid_id t2 -> t1 ++ r1 = t2 ++ r2 -> t1 = t2 /\ r1 = r2.
Proof.
  intros (k1 & d1 & -> & Hk1 & Hd1) (k2 & d2 & -> & Hk2 & Hd2) H.
  rewrite <- !app_assoc in H. cbn [app] in H.
  destruct (split_at_first x2d k1 k2 _ _ Hk1 Hk2 H) as [-> H'].
  destruct (app_same_length d1 d2 r1 r2 (eq_trans Hd1 (eq_sym Hd2)) H') as [-> ->]. auto.
Qed.

Section Consistent.
  Variable E : env.

  (* every token entry of account a is stored under the key of a well-shaped identifier and of its own nonce *)
  Definition keyed_by_own_nonce (s : mstate) (a : bytes) : Prop :=
    forall k t, tok_at E s a k = Some t -> exists tok, valid_id tok /\ k = nft_key (P ++ tok) (tok_nonce t).

  Theorem valid_ids_lookup_consistent s a tok n :
    valid_id tok -> keyed_by_own_nonce s a -> lookup_consistent E s a (P ++ tok) n.
  Proof.
    intros Hv Hk t Ht. destruct (Hk _ _ Ht) as (tokS & HvS & Heq).
    unfold nft_key in Heq. rewrite <- !app_assoc in Heq. apply app_inv_head in Heq.
    destruct (valid_id_unique _ _ _ _ Hv HvS Heq) as [_ Hn]. apply u64_bytes_inj in Hn. symmetry. exact Hn.
  Qed.
End Consistent.

(* the hypothesis of conservation_histories for one origin call, from the shape of the identifiers it names *)
Theorem valid_ids_call_consistent c m0 sh fn i :
  keyed_by_own_nonce (env_at c sh) (mk_state m0) (i_caller i) ->
  (fn = C.BuiltInFunctionESDTNFTTransfer -> valid_id (argn i 0)) ->
  (fn = C.BuiltInFunctionMultiESDTNFTTransfer -> Forall (fun x => valid_id (rt_tok x)) (multi_snd_triples i)) ->
  call_consistent_at c m0 sh fn i.
Proof.
  intros Hk H1 H2. split.
  - intros Hf. apply valid_ids_lookup_consistent; [apply H1; exact Hf|exact Hk].
  - intros Hf. unfold triples_consistent. eapply Forall_impl; [|apply H2; exact Hf].
    intros x Hx. apply valid_ids_lookup_consistent; [exact Hx|exact Hk].
Qed.

(* the F4b identifiers: the long one has the shape, the short one has not (5 bytes after the dash) *)
Example valid_id_long : valid_id (str "ABC-123456"%string).
Proof. exists (str "ABC"%string), (str "123456"%string). split; [reflexivity|]. split; [|reflexivity]. intros H. vm_compute in H. repeat (destruct H as [H|H]; [discriminate H|]). exact H. Qed.
Example valid_id_short_not : ~ valid_id (str "ABC-12345"%string).
Proof.
  intros (k & d & H & Hk & Hd).
  assert (Hs : str "ABC-12345"%string = str "ABC"%string ++ x2d :: str "12345"%string) by reflexivity.
  rewrite Hs in H.
  assert (Hn : ~ In x2d (str "ABC"%string)) by (intros Hx; vm_compute in Hx; repeat (destruct Hx as [Hx|Hx]; [discriminate Hx|]); exact Hx).
  destruct (split_at_first x2d _ _ _ _ Hn Hk H) as [_ H']. rewrite <- H' in Hd. vm_compute in Hd. discriminate.
Qed.

Print Assumptions valid_ids_lookup_consistent.
Print Assumptions valid_ids_call_consistent.
