(* C11 (totality), world level, part 1: what EVERY successful execution of a built-in function can put in flight.
   [exec_pout]: each output transfer of a successful [exec E f i] either carries no data, or is addressed to an
   account of the executing shard (an attached call, run by the VM there: never a cross-shard message), or carries
   [msg_data f A] for the executing function's own name f with arguments A that satisfy the hypothesis the
   destination side needs ([margs_ok]: [args_payload_ok] of NoPanicTransfers.v, and fewer than 2^40 arguments when
   f is MultiESDTNFTTransfer).  Only the recipient-presence flag of the input has to be truthful
   ([dst_truthful], C07_Emit.v) and the input has fewer than 2^40 arguments.
   [collect_pok]: hence every message that Ledger/World.v [collect] makes of the output is [margs_ok].
   The 21 functions other than the two NFT transfers go through C07_Emit.v [emit_local_or_cont] (their messages
   are named after themselves, so [margs_ok] is vacuous); the two NFT transfers are inverted here: the
   cross-shard sender side by [emitted_payload_ok_nft] (NoPanicEmit.v) / [emitted_multi_ok] (below, with the
   length), the same-shard sender side and the destination side emit local transfers only. *)
From Coq.Strings Require Import String.
From Coq Require Import Lia List.
From EV Require Import Base.Bytes Base.Store Base.Monad gen.Consts Codec.Types Helpers.Helpers
  Parsers.Tokenize Parsers.CallArgs Parsers.Builder Parsers.ParsersProofs
  Ledger.Types Ledger.Env Ledger.Funcs Ledger.Transfers Ledger.World
  LedgerProofs.Defs LedgerProofs.EnvSpec LedgerProofs.WorldDefs LedgerProofs.WorldSpec SliceModel.OutputShape
  LedgerProofs.Spec_Transfers LedgerProofs.C07_Emit
  LedgerProofs.NoPanic LedgerProofs.NoPanicFuncs LedgerProofs.NoPanicTransfers LedgerProofs.NoPanicEmit.
Import ListNotations.

Notation FNft := C.BuiltInFunctionESDTNFTTransfer.
Notation FMulti := C.BuiltInFunctionMultiESDTNFTTransfer.

(* what the consuming side (delivery or refund) needs of a message (function name, arguments) *)
Definition margs_ok (E : env) (f : bytes) (A : list bytes) : Prop :=
  args_payload_ok E f A /\ (f = FMulti -> (alen A < 2 ^ 40)%N).
Lemma margs_ok_plain E f A : f <> FNft -> f <> FMulti -> margs_ok E f A.
Proof. intros H1 H2. split; [split|]; intros; contradiction. Qed.
(* depends on the codec only *)
Lemma margs_ok_env E E' f A : cdc E' = cdc E -> margs_ok E f A -> margs_ok E' f A.
Proof.
  intros He [[H1 H2] H3]. split; [split|exact H3].
  - intros Hf b Hb t Ht. rewrite He in Ht. exact (H1 Hf b Hb t Ht).
  - intros Hf a0 idx nb b Ha Hi Hnb Hp Hb t Ht. rewrite He in Ht. exact (H2 Hf a0 idx nb b Ha Hi Hnb Hp Hb t Ht).
Qed.

(* one output transfer to [dest] of a call of f *)
Definition ptr_ok (E : env) (f dest : bytes) (t : transfer) : Prop :=
  tr_data t = [] \/ shard_of E dest = self_shard E \/ (exists A, tr_data t = msg_data f A /\ margs_ok E f A).
Definition pout (E : env) (f : bytes) (o : output) : Prop :=
  forall oa t, In oa (o_accounts o) -> In t (oc_transfers oa) -> ptr_ok E f (oc_addr oa) t.

Section Emit.
  Variable E : env.
  Hypothesis Hc : codec_ok (cdc E).

  Definition all_local (o : output) : Prop :=
    forall oa, In oa (o_accounts o) -> shard_of E (oc_addr oa) = self_shard E.
  Lemma all_local_pout f o : all_local o -> pout E f o.
  Proof. intros H oa t Hoa _. right. left. apply H. exact Hoa. Qed.

  (* ---------------- ESDTNFTTransfer ---------------- *)
  Lemma nft_sender_same i s o s' dst : f_nft_transfer_sender E i s = (Ok o, s') ->
    nth_error (i_args i) 3 = Some dst -> self_shard E = shard_of E dst -> all_local o.
  Proof.
    intros H Hd Hs. unfold f_nft_transfer_sender in H.
    apply bind_ok in H as (d & s1 & H1 & H). apply arg_ok in H1 as (H1 & _ & ->).
    change (N.to_nat 3) with 3%nat in H1. rewrite Hd in H1. inversion H1; subst d. clear H1.
    rewrite Hs, N.eqb_refl in H. cbn [negb] in H.
    oinv; subst.
    all: intros oa Hoa; cbn in Hoa; try contradiction; destruct Hoa as [<-|[]]; cbn [oc_addr]; symmetry; exact Hs.
  Qed.
  Lemma nft_dest_local i s o s' : beqb (i_caller i) (i_rcpt i) = false -> f_nft_transfer E i s = (Ok o, s') ->
    i_dst i = true /\ forall oa, In oa (o_accounts o) -> oc_addr oa = i_rcpt i.
  Proof.
    intros Hcr H. unfold f_nft_transfer in H. rewrite Hcr in H. oinv; subst.
    all: split; [assumption|]; intros oa Hoa; cbn in Hoa; try contradiction; destruct Hoa as [<-|[]]; reflexivity.
  Qed.

  Lemma pout_nft i s o s' : dst_truthful E i -> f_nft_transfer E i s = (Ok o, s') -> pout E FNft o.
  Proof.
    intros Hp H. destruct (beqb (i_caller i) (i_rcpt i)) eqn:Ecr.
    - pose proof H as H0. unfold f_nft_transfer in H. rewrite Ecr in H.
      apply bind_ok in H as (u1 & s1 & H1 & H). apply bind_ok in H as (u2 & s2 & H2 & H).
      apply guard_ok in H2 as [Hlen ->].
      destruct (nth_error (i_args i) 3) as [dst|] eqn:Ed;
        [|apply nth_error_None in Ed; unfold alen in Hlen; lia].
      destruct (N.eq_dec (self_shard E) (shard_of E dst)) as [Hs|Hs].
      + apply all_local_pout. eapply nft_sender_same; eauto.
      + apply beqb_true in Ecr.
        destruct (emitted_payload_ok_nft E Hc i s o s' dst Ecr H0 Ed Hs) as (A & t0 & Ho & Ht & HA).
        intros oa t Hoa Ht'. rewrite Ho in Hoa. destruct Hoa as [<-|[]]. cbn [oc_transfers] in Ht'.
        destruct Ht' as [<-|[]]. right. right. exists A. split; [exact Ht|]. split; [split|].
        * intros _. exact HA.
        * intros Hf. vm_compute in Hf. discriminate.
        * intros Hf. vm_compute in Hf. discriminate.
    - destruct (nft_dest_local i s o s' Ecr H) as [Hd Ha]. apply all_local_pout. intros oa Hoa.
      rewrite (Ha oa Hoa). apply dst_truthful_local; assumption.
  Qed.

  (* ---------------- MultiESDTNFTTransfer ---------------- *)
  Lemma multi_sender_same i s o s' dst : f_multi_transfer_sender E i s = (Ok o, s') ->
    nth_error (i_args i) 0 = Some dst -> self_shard E = shard_of E dst -> all_local o.
  Proof.
    intros H Hd Hs. unfold f_multi_transfer_sender in H.
    apply bind_ok in H as (d & s1 & H1 & H). apply arg_ok in H1 as (H1 & _ & ->).
    change (N.to_nat 0) with 0%nat in H1. rewrite Hd in H1. inversion H1; subst d. clear H1.
    rewrite Hs, N.eqb_refl in H. cbn [negb] in H.
    oinv;
      try match goal with Hm : multi_out_args _ _ _ _ _ = (Ok (_, _), _) |- _ =>
            apply multi_out_args_accounts in Hm; cbn [o_accounts set_logs mk_out] in Hm end; subst.
    all: intros oa Hoa; cbn in Hoa; try (rewrite Hm in Hoa); try contradiction.
    all: try (destruct Hoa as [<-|[]]; cbn [oc_addr]; symmetry; exact Hs).
    all: match goal with Hm : o_accounts _ = [] |- _ => rewrite Hm in Hoa; destruct Hoa end.
  Qed.
  Lemma multi_dest_local i s o s' : beqb (i_caller i) (i_rcpt i) = false -> f_multi_transfer E i s = (Ok o, s') ->
    i_dst i = true /\ forall oa, In oa (o_accounts o) -> oc_addr oa = i_rcpt i.
  Proof.
    intros Hcr H. unfold f_multi_transfer in H. rewrite Hcr in H. oinv; subst.
    all: split; [assumption|]; intros oa Hoa; cbn in Hoa; try contradiction; destruct Hoa as [<-|[]]; reflexivity.
  Qed.

  (* the cross-shard sender side: [emitted_payload_ok_multi] (NoPanicEmit.v) plus the number of arguments of the
     emitted message: one fewer than the call's (the destination address is dropped) *)
  Lemma emitted_multi_ok i s o s' dst :
    i_caller i = i_rcpt i -> f_multi_transfer E i s = (Ok o, s') ->
    nth_error (i_args i) 0 = Some dst -> self_shard E <> shard_of E dst -> (alen (i_args i) < 2 ^ 40)%N ->
    exists args' t, o_accounts o = [{| oc_addr := dst; oc_delta := 0; oc_transfers := [t] |}]
      /\ tr_data t = msg_data FMulti args'
      /\ multi_payload_ok E args' /\ (alen args' < alen (i_args i))%N.
  Proof.
    intros Hcr H Hd Hsh Hlt. change (2 ^ 40)%N with 1099511627776%N in Hlt.
    unfold f_multi_transfer in H. rewrite Hcr, beqb_refl in H.
    apply bind_ok in H as (u1 & s1 & H1 & H). apply bind_ok in H as (u2 & s2 & H2 & H).
    apply guard_ok in H2 as [Hlen ->]. clear H1.
    unfold f_multi_transfer_sender in H. einv.
    assert (Hne : (self_shard E =? shard_of E dst)%N = false) by (apply N.eqb_neq; exact Hsh).
    match goal with Hx : nth_error (i_args i) (N.to_nat 0) = Some ?x |- _ =>
      change (N.to_nat 0) with 0%nat in Hx; rewrite Hd in Hx; inversion Hx; subst x end.
    rewrite Hne in *. cbn [negb] in *. einv.
    match goal with Hx : multi_sender_loop _ _ _ _ _ _ _ _ _ ?st = (Ok ?x, _) |- _ => destruct x as [lst logs] end.
    einv.
    match goal with Hx : multi_out_args _ _ _ _ ?st = (Ok ?x, _) |- _ => destruct x as [args1 o1] end.
    einv.
    eexists _, _. split; [reflexivity|]. split; [reflexivity|].
    match goal with Hx : multi_out_args _ _ _ _ _ = _ |- _ => apply (multi_out_args_ok E) in Hx; subst args1 end.
    match goal with Hx : multi_sender_loop _ _ _ _ _ _ _ _ _ _ = _ |- _ =>
      apply (multi_sender_loop_ok E Hc) in Hx as [Hgood Hl]; [|constructor] end.
    cbn [length plus] in Hl.
    match goal with |- context [u64_bytes (bigU64 ?a1)] => set (n := bigU64 a1) in * end.
    assert (Hn64 : (n < two64)%N) by apply bigU64_lt.
    split.
    - intros a0 idx nb b Ha0 Hidx Hnb Hpos Hb.
      cbn [app nth_error] in Ha0. inversion Ha0; subst a0. rewrite bigU64_u64_bytes, (u64_small _ Hn64) in Hidx.
      assert (Hi : (N.to_nat idx < length lst)%nat) by lia.
      destruct (nth_error lst (N.to_nat idx)) as [p|] eqn:Ep; [|apply nth_error_None in Ep; lia].
      replace (N.to_nat (1 + idx * 3 + 1)) with (S (3 * N.to_nat idx + 1)) in Hnb by lia.
      replace (N.to_nat (1 + idx * 3 + 2)) with (S (3 * N.to_nat idx + 2)) in Hb by lia.
      cbn [app nth_error] in Hnb, Hb.
      rewrite nth_error_app1 in Hnb by (rewrite (triples_length E); lia).
      rewrite nth_error_app1 in Hb by (rewrite (triples_length E); lia).
      rewrite (nth_triples E _ _ _ _ Ep) in Hnb by lia. rewrite (nth_triples E _ _ _ _ Ep) in Hb by lia.
      assert (Hp : tokgood p) by (eapply Forall_forall; [exact Hgood|eapply nth_error_In; exact Ep]).
      destruct Hp as [Hw Hv]. unfold triple in Hnb, Hb. destruct (t_meta (snd p)) as [m|] eqn:Em; cbn [nth_error] in Hnb, Hb.
      + inversion Hb; subst b. apply payload_good_valued, (payload_good_enc E Hc); [exact Hw|exact Hv|congruence].
      + inversion Hnb; subst nb. vm_compute in Hpos. discriminate.
    - (* the length: 1 + 3n + (len - (3n + 2)) *)
      unfold apt, C.bif_argumentsPerTransfer in *.
      assert (Hn : (n <= alen (i_args i) / 3)%N) by lia.
      pose proof (count_exact n (alen (i_args i)) 2%N Hn Hlt ltac:(lia)) as Hmin.
      unfold alen in *. rewrite !app_length, (triples_length E). cbn [length].
      match goal with
      | Hr : (if (?m <? _)%N then _ else _) _ = (Ok ?rest, _) |- _ =>
          destruct (m <? N.of_nat (length (i_args i)))%N eqn:Em
      end; einv; subst.
      + rewrite skipn_length. rewrite Hmin in *. lia.
      + cbn [length]. rewrite Hmin in *. lia.
  Qed.

  Lemma pout_multi i s o s' : dst_truthful E i -> (alen (i_args i) < 2 ^ 40)%N ->
    f_multi_transfer E i s = (Ok o, s') -> pout E FMulti o.
  Proof.
    intros Hp Hlt H. destruct (beqb (i_caller i) (i_rcpt i)) eqn:Ecr.
    - pose proof H as H0. unfold f_multi_transfer in H. rewrite Ecr in H.
      apply bind_ok in H as (u1 & s1 & H1 & H). apply bind_ok in H as (u2 & s2 & H2 & H).
      apply guard_ok in H2 as [Hlen ->].
      destruct (nth_error (i_args i) 0) as [dst|] eqn:Ed;
        [|apply nth_error_None in Ed; unfold alen in Hlen; lia].
      destruct (N.eq_dec (self_shard E) (shard_of E dst)) as [Hs|Hs].
      + apply all_local_pout. eapply multi_sender_same; eauto.
      + apply beqb_true in Ecr.
        destruct (emitted_multi_ok i s o s' dst Ecr H0 Ed Hs Hlt) as (A & t0 & Ho & Ht & HA & HL).
        intros oa t Hoa Ht'. rewrite Ho in Hoa. destruct Hoa as [<-|[]]. cbn [oc_transfers] in Ht'.
        destruct Ht' as [<-|[]]. right. right. exists A. split; [exact Ht|]. split; [split|].
        * intros Hf. vm_compute in Hf. discriminate.
        * intros _. exact HA.
        * intros _. lia.
    - destruct (multi_dest_local i s o s' Ecr H) as [Hd Ha]. apply all_local_pout. intros oa Hoa.
      rewrite (Ha oa Hoa). apply dst_truthful_local; assumption.
  Qed.

  (* ---------------- every function, through the dispatch ---------------- *)
  Lemma loc_pout f o : f <> FNft -> f <> FMulti -> loc E f o -> pout E f o.
  Proof.
    intros H1 H2 Hl oa t Hoa Ht. destruct (Hl oa t Hoa Ht) as [Hd|[(A & Hd)|Hs]].
    - left. exact Hd.
    - right. right. exists A. split; [exact Hd|apply margs_ok_plain; assumption].
    - right. left. exact Hs.
  Qed.

  Theorem exec_pout f i s o s' :
    (is_transfer_fn f = true -> dst_truthful E i) -> (f = FMulti -> (alen (i_args i) < 2 ^ 40)%N) ->
    exec E f i s = (Ok o, s') -> pout E f o /\ is_builtin f = true.
  Proof.
    intros Hp Hlt H. destruct (emit_local_or_cont E f i s o s' Hp H) as [Hl Hb]. split; [|exact Hb].
    destruct (beqb_spec f FNft) as [->|Hn1].
    - rewrite exec_nft_transfer in H. eapply pout_nft; [apply Hp; reflexivity|exact H].
    - destruct (beqb_spec f FMulti) as [->|Hn2].
      + rewrite exec_multi_transfer in H. eapply pout_multi; [apply Hp; reflexivity|apply Hlt; reflexivity|exact H].
      + apply loc_pout; assumption.
  Qed.
End Emit.

(* ------------------------------------------------------------------ *)
(* from output transfers to in-flight messages                          *)
(* ------------------------------------------------------------------ *)
Section Collect.
  Variable c : wcfg.
  Notation shof := (wc_shard_of c).

  (* the message-level form: independent of the shard *)
  Definition msg_pok (m : msg) : Prop := margs_ok (env_at c 0) (m_fn m) (m_args m).
  Lemma msg_pok_at sh m : msg_pok m <-> margs_ok (env_at c sh) (m_fn m) (m_args m).
  Proof. split; apply margs_ok_env; reflexivity. Qed.

  Lemma msg_of_transfer_pok sh f i id dest t m :
    is_builtin f = true -> ptr_ok (env_at c sh) f dest t ->
    msg_of_transfer c sh i id dest t = Some m -> m_fn m = f /\ msg_pok m.
  Proof.
    intros Hb Hok H. unfold msg_of_transfer in H. destruct (is_builtin_valid _ Hb) as (Hne & Hat).
    destruct Hok as [Hd|[Hl|(A & Hd & HA)]].
    - rewrite Hd in H. discriminate.
    - rewrite env_at_shard_of, env_at_self in Hl. destruct (tr_data t) as [|b r]; [discriminate|].
      destruct (parse_call_data (b :: r)) as [[fn args]|]; [|discriminate].
      destruct (negb (is_builtin fn)); [discriminate|].
      rewrite Hl, N.eqb_refl in H. destruct (beqb fn C.BuiltInFunctionESDTNFTCreateRoleTransfer); cbn in H; discriminate.
    - rewrite Hd in H. destruct (msg_data f A) eqn:Em; [discriminate|]. rewrite <- Em in H.
      rewrite (c07_msg_data_parses_back _ _ Hne Hat) in H. rewrite Hb in H. cbn [negb] in H.
      repeat match type of H with (if ?b then _ else _) = _ => destruct b; [discriminate|] end.
      inversion H. cbn [m_fn m_args]. split; [reflexivity|]. apply (msg_pok_at sh). exact HA.
  Qed.
  Lemma collect_transfers_pok sh f i dest ts : is_builtin f = true ->
    (forall t, In t ts -> ptr_ok (env_at c sh) f dest t) ->
    forall id m, In m (collect_transfers c sh i id dest ts) -> m_fn m = f /\ msg_pok m.
  Proof.
    intros Hb. induction ts as [|t r IH]; intros Hok id m Hin; [destruct Hin|].
    cbn [collect_transfers] in Hin. destruct (msg_of_transfer c sh i id dest t) as [m0|] eqn:Em.
    - destruct Hin as [<-|Hin].
      + eapply msg_of_transfer_pok; [exact Hb| |exact Em]. apply Hok. left. reflexivity.
      + eapply IH; [|exact Hin]. intros t' Ht'. apply Hok. right. exact Ht'.
    - eapply IH; [|exact Hin]. intros t' Ht'. apply Hok. right. exact Ht'.
  Qed.
  Lemma collect_accounts_pok sh f i oas : is_builtin f = true ->
    (forall oa t, In oa oas -> In t (oc_transfers oa) -> ptr_ok (env_at c sh) f (oc_addr oa) t) ->
    forall id m, In m (collect_accounts c sh i id oas) -> m_fn m = f /\ msg_pok m.
  Proof.
    intros Hb. induction oas as [|oa r IH]; intros Hok id m Hin; [destruct Hin|].
    cbn [collect_accounts] in Hin. apply in_app_or in Hin as [Hin|Hin].
    - eapply collect_transfers_pok; [exact Hb| |exact Hin]. intros t Ht. apply Hok; [left; reflexivity|exact Ht].
    - eapply IH; [|exact Hin]. intros oa' t Hoa Ht. apply Hok; [right; exact Hoa|exact Ht].
  Qed.

  (* every message that a successful call of f puts in flight is named f and satisfies the payload hypothesis *)
  Theorem collect_pok sh f i id o :
    is_builtin f = true -> pout (env_at c sh) f o ->
    forall m, In m (collect c sh f i id o) -> m_fn m = f /\ msg_pok m.
  Proof.
    intros Hb Hl m Hin. unfold collect in Hin.
    destruct (collect_accounts c sh i id (o_accounts o)) as [|m0 ms] eqn:Ec.
    - destruct (_ && travels f)%bool eqn:Et; [|destruct Hin]. destruct Hin as [<-|[]]. cbn [m_fn m_args].
      split; [reflexivity|]. unfold msg_pok; cbn [m_fn m_args]. apply andb_prop in Et as [_ Et]. apply margs_ok_plain; intros Hf; rewrite Hf in Et; vm_compute in Et; discriminate.
    - rewrite <- Ec in Hin. eapply collect_accounts_pok; [exact Hb|exact Hl|exact Hin].
  Qed.

  (* ... of a successful execution on shard sh *)
  Theorem exec_collect_pok (Hc : codec_ok (wc_cdc c)) sh f i s o s' id :
    (is_transfer_fn f = true -> i_dst i = (shof (i_rcpt i) =? sh)%N) ->
    (f = FMulti -> (alen (i_args i) < 2 ^ 40)%N) ->
    exec (env_at c sh) f i s = (Ok o, s') ->
    forall m, In m (collect c sh f i id o) -> m_fn m = f /\ msg_pok m.
  Proof.
    intros Hp Hlt H. destruct (exec_pout (env_at c sh) Hc f i s o s' Hp Hlt H) as [Ho Hb].
    apply collect_pok; assumption.
  Qed.
End Collect.

Print Assumptions exec_pout.
Print Assumptions exec_collect_pok.
