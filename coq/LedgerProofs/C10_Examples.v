(* C10: witnesses of the known findings F10 and F12 (the unguarded statements are FALSE), the divergence of the
   destination-side report on a crafted payload, and non-vacuity of the theorems, all on [ideal_codec] (which is
   [codec_ok]) by vm_compute.  Environment, accounts and state are those of Spec_Transfers_Examples.v:
   alice, carol on shard 0 (the executing shard of EI), bob on shard 1; alice holds 5 TOK and 3 of NFT nonce 1. *)
From Coq.Strings Require Import String.
From Coq Require Import Lia.
From EV Require Import Base.Bytes Base.Store Base.Monad gen.Consts Codec.Types Codec.Proto Codec.Ideal Codec.CodecOk
  Helpers.Helpers Parsers.Tokenize Parsers.CallArgs Parsers.Builder Parsers.EsdtTransferParser Parsers.EsdtTransferParserProofs
  Ledger.Types Ledger.Env Ledger.Funcs Ledger.Transfers Ledger.World Corr.Exec
  LedgerProofs.Defs LedgerProofs.EnvSpec LedgerProofs.WorldDefs
  LedgerProofs.Spec_Transfers_Base LedgerProofs.Spec_Transfers_Esdt LedgerProofs.Spec_Transfers_Nft
  LedgerProofs.Spec_Transfers_Multi LedgerProofs.Spec_Transfers LedgerProofs.Spec_Transfers_Examples
  LedgerProofs.C10_Emit LedgerProofs.C10_Parser LedgerProofs.C10_Accept.

(* a smart-contract address on shard 0 *)
Definition ctr : bytes := repeat x00 8 ++ repeat x05 24.
Example ctr_is_sc : is_sc ctr = true /\ shard_of EI ctr = 0%N /\ self_shard EI = 0%N. Proof. vm_compute. auto. Qed.

(* the same world seen from shard 1 (bob's) *)
Definition EI1 : env :=
  {| plan := plan EI; cdc := cdc EI; shard_of := shard_of EI; self_shard := 1%N;
     payable := payable EI; dns := dns EI; enable_change := enable_change EI; gas := gas EI |}.
Definition sB : mstate := state_of [(bob, mkacct [])].

Definition datas (r : res err output * mstate) : option (list (list bytes)) :=
  match r with
  | (Ok o, _) => Some (map (fun oa => map tr_data (oc_transfers oa)) (o_accounts o))
  | _ => None
  end.
Lemma datas_inv r l : datas r = Some l -> exists o s', r = (Ok o, s') /\ map (fun oa => map tr_data (oc_transfers oa)) (o_accounts o) = l.
Proof. destruct r as [[o|e|] s']; cbn [datas]; intros H; inversion H. eauto. Qed.
Lemma single_data o d : map (fun oa => map tr_data (oc_transfers oa)) (o_accounts o) = [[d]] ->
  exists oa t, In oa (o_accounts o) /\ In t (oc_transfers oa) /\ tr_data t = d.
Proof.
  destruct (o_accounts o) as [|oa [|oa2 l]]; cbn [map]; intros H; try discriminate H.
  inversion H as [H1]. destruct (oc_transfers oa) as [|t [|t2 l2]] eqn:Et; cbn [map] in H1; try discriminate H1.
  inversion H1. exists oa, t. rewrite Et. cbn [In]. auto.
Qed.

(* ================================================================ *)
(* F10: an attached function name with '@', or empty                  *)
(* ================================================================ *)
Definition in_f10 := mkin alice ctr [tokA; u64_bytes 1; str "a@bb"%string; [xcc]] true true.
Definition in_f10_empty := mkin alice ctr [tokA; u64_bytes 1; []; [xcc]] true true.

Example f10_run :
  datas (exec EI C.BuiltInFunctionESDTTransfer in_f10 s0) = Some [[str "a@bb@cc"%string]]
  /\ attached_index C.BuiltInFunctionESDTTransfer in_f10 = Some 2%N
  /\ attached_at in_f10 2 (str "a@bb"%string) [[xcc]]
  /\ msg_data (str "a@bb"%string) [[xcc]] = str "a@bb@cc"%string
  /\ parse_call_data (str "a@bb@cc"%string) = Some (str "a"%string, [[xbb]; [xcc]]).
Proof. repeat split. Qed.
Example f10_run_empty :
  datas (exec EI C.BuiltInFunctionESDTTransfer in_f10_empty s0) = Some [[str "@cc"%string]]
  /\ attached_at in_f10_empty 2 [] [[xcc]]
  /\ msg_data [] [[xcc]] = str "@cc"%string
  /\ parse_call_data (str "@cc"%string) = None.
Proof. repeat split. Qed.
(* the same on the other two functions and on the destination side of a cross-shard message *)
Example f10_run_nft_multi_dest :
  datas (exec EI C.BuiltInFunctionESDTNFTTransfer
           (mkin alice alice [nftA; u64_bytes 1; u64_bytes 2; ctr; str "a@bb"%string; [xcc]] true true) s0)
    = Some [[str "a@bb@cc"%string]]
  /\ datas (exec EI C.BuiltInFunctionMultiESDTNFTTransfer
           (mkin alice alice [ctr; u64_bytes 1; tokA; []; u64_bytes 3; str "a@bb"%string; [xcc]] true true) s0)
    = Some [[str "a@bb@cc"%string]]
  /\ datas (exec EI C.BuiltInFunctionMultiESDTNFTTransfer
           (mkin bob ctr [u64_bytes 1; tokA; [x00]; u64_bytes 3; []; [xcc]] false true) s0)
    = Some [[str "@cc"%string]].
Proof. repeat split. Qed.

(* emitted_data_parses_back without [valid_fname] is false *)
Theorem emitted_data_parses_back_refuted :
  ~ (forall E, codec_ok (cdc E) -> forall f i s o s', exec E f i s = (Ok o, s') ->
       forall oa t, In oa (o_accounts o) -> In t (oc_transfers oa) -> tr_data t <> [] ->
       forall k fn args, attached_index f i = Some k -> attached_at i k fn args -> tr_data t = msg_data fn args ->
       parse_call_data (tr_data t) = Some (fn, args)).
Proof.
  intros H. destruct f10_run as (Hr & Hk & Ha & Hm & Hp).
  apply datas_inv in Hr as (o & s' & Hx & Hd). apply single_data in Hd as (oa & t & Hoa & Ht & Hdt).
  specialize (H EI EI_ok _ _ _ _ _ Hx oa t Hoa Ht).
  rewrite Hdt in H. specialize (H ltac:(discriminate) _ _ _ Hk Ha (eq_sym Hm)). rewrite Hp in H. discriminate H.
Qed.
(* ... and even "some (fn, args) parses back" is false when the name is empty: the data does not tokenise *)
Theorem emitted_data_parses_back_refuted_empty :
  ~ (forall E, codec_ok (cdc E) -> forall f i s o s', exec E f i s = (Ok o, s') ->
       forall oa t, In oa (o_accounts o) -> In t (oc_transfers oa) -> tr_data t <> [] ->
       exists fn args, parse_call_data (tr_data t) = Some (fn, args)).
Proof.
  intros H. destruct f10_run_empty as (Hr & _ & _ & Hp).
  apply datas_inv in Hr as (o & s' & Hx & Hd). apply single_data in Hd as (oa & t & Hoa & Ht & Hdt).
  destruct (H EI EI_ok _ _ _ _ _ Hx oa t Hoa Ht) as (fn & args & Hq); [rewrite Hdt; discriminate|].
  rewrite Hdt, Hp in Hq. discriminate Hq.
Qed.

(* ================================================================ *)
(* F12: a transfer count that is not a uint64                         *)
(* ================================================================ *)
Definition count_f12 : bytes := hx "010000000000000002"%string.          (* 2^64 + 2 *)
Definition in_f12 := mkin alice alice [bob; count_f12; nftA; u64_bytes 1; u64_bytes 2; tokA; []; u64_bytes 3] true true.
Example f12_run :
  be_to_N count_f12 = (2 ^ 64 + 2)%N /\ multi_n_snd in_f12 = 2%N
  /\ match f_multi_transfer EI in_f12 s0 with
     | (Ok o, s') => (balance EI s' alice (nft_key (P ++ nftA) 1) =? 1)%Z && (balance EI s' alice (P ++ tokA) =? 2)%Z
     | _ => false
     end = true
  /\ parse_esdt_transfers (dec_tok (cdc EI)) alice alice C.BuiltInFunctionMultiESDTNFTTransfer (i_args in_f12)
     = Err ErrNotEnoughArguments.
Proof. repeat split. Qed.
Example f12_consistent : triples_consistent EI s0 alice (multi_snd_triples in_f12).
Proof.
  assert (Ht : multi_snd_triples in_f12 = [(nftA, u64_bytes 1, u64_bytes 2); (tokA, [], u64_bytes 3)]) by (vm_compute; reflexivity).
  rewrite Ht. repeat constructor; intros t Hx; vm_compute in Hx; inversion Hx; subst; reflexivity.
Qed.
(* parser_agrees_sender_multi without the hypothesis [be_to_N count < 2^64] is false *)
Theorem parser_agrees_sender_refuted :
  ~ (forall E, codec_ok (cdc E) -> forall i s o s',
       f_multi_transfer E i s = (Ok o, s') -> i_caller i = i_rcpt i -> go_slice_len (i_args i) ->
       triples_consistent E s (i_caller i) (multi_snd_triples i) ->
       (multi_same E i = true -> nonneg_balances E s (multi_dst i)) ->
       exists r, parse_esdt_transfers (dec_tok (cdc E)) (i_caller i) (i_rcpt i) C.BuiltInFunctionMultiESDTNFTTransfer (i_args i) = Ok r).
Proof.
  intros H. destruct f12_run as (_ & _ & Hr & Hp).
  destruct (f_multi_transfer EI in_f12 s0) as [[o|e|] s'] eqn:Ex; try discriminate.
  destruct (H EI EI_ok _ _ _ _ Ex eq_refl) as (r & Hq).
  - vm_compute. reflexivity.
  - exact f12_consistent.
  - intros Hs. vm_compute in Hs. discriminate.
  - cbn [i_caller i_rcpt in_f12 mkin] in Hq. rewrite Hp in Hq. discriminate.
Qed.

(* ================================================================ *)
(* a crafted destination-side payload: the single-NFT parser reports argument 2, the ledger credits the payload *)
(* ================================================================ *)
(* not reachable by a transaction: destination-side inputs are deliveries of emitted messages (C11 delivered_input),
   and emitted payloads are faithful (emitted_nft_payload_faithful) *)
Definition in_crafted := mkin bob carol [nftA; u64_bytes 1; u64_bytes 2; enc_token (nf 7)] false true.
Example parser_agrees_dest_nft_crafted :
  match f_nft_transfer EI in_crafted s0 with
  | (Ok o, s') => (balance EI s' carol (nft_key (P ++ nftA) 1) =? 7)%Z
  | _ => false
  end = true
  /\ (exists r, parse_esdt_transfers (dec_tok (cdc EI)) bob carol C.BuiltInFunctionESDTNFTTransfer (i_args in_crafted) = Ok r
        /\ report_moves r = [(nft_key (P ++ nftA) 1, 2%Z)])
  /\ ~ nft_payload_faithful EI in_crafted.
Proof.
  split; [vm_compute; reflexivity|]. split.
  - eexists. split; [vm_compute; reflexivity|]. vm_compute. reflexivity.
  - intros H. destruct (H (nf 7)) as [_ Hv]; [vm_compute; reflexivity|]. vm_compute in Hv. discriminate.
Qed.

(* ================================================================ *)
(* non-vacuity 1: a cross-shard multi-transfer of ONE token emits a 4-argument message (F2), which parses back *)
(* and is accepted by the destination side                              *)
(* ================================================================ *)
Definition in_one := mkin alice alice [bob; u64_bytes 1; tokA; []; u64_bytes 3] true true.
Definition msg_one_args : list bytes := [u64_bytes 1; tokA; [x00]; u64_bytes 3].
Definition in_one_delivered := mkin alice bob msg_one_args false true.
Example one_token_message :
  datas (exec EI C.BuiltInFunctionMultiESDTNFTTransfer in_one s0)
    = Some [[msg_data C.BuiltInFunctionMultiESDTNFTTransfer msg_one_args]]
  /\ length msg_one_args = 4%nat
  /\ parse_call_data (msg_data C.BuiltInFunctionMultiESDTNFTTransfer msg_one_args)
     = Some (C.BuiltInFunctionMultiESDTNFTTransfer, msg_one_args)
  /\ match exec EI1 C.BuiltInFunctionMultiESDTNFTTransfer in_one_delivered sB with
     | (Ok o, s') => (balance EI1 s' bob (P ++ tokA) =? 3)%Z
     | _ => false
     end = true.
Proof. repeat split. Qed.
(* the theorems, instantiated on this call *)
Example inst_one_token_shape :
  exists o s' args' t,
    f_multi_transfer EI in_one s0 = (Ok o, s')
    /\ o_accounts o = [{| oc_addr := bob; oc_delta := 0; oc_transfers := [t] |}]
    /\ tr_data t = msg_data C.BuiltInFunctionMultiESDTNFTTransfer args' /\ alen args' = 4%N
    /\ forall i', i_args i' = args' -> delivered_shape i' -> multi_dest_guards EI1 i'.
Proof.
  destruct (f_multi_transfer EI in_one s0) as [[o|e|] s'] eqn:Ex;
    try (exfalso; assert (Hd : datas (f_multi_transfer EI in_one s0) <> None) by (vm_compute; discriminate);
         rewrite Ex in Hd; apply Hd; reflexivity).
  destruct (continuation_accepted_shape_multi EI EI1 EI_ok eq_refl _ _ _ _ Ex eq_refl) as (args' & t & Ho & Hd & _ & H4 & Hg).
  { vm_compute. reflexivity. }
  exists o, s', args', t. split; [reflexivity|]. split; [exact Ho|]. split; [exact Hd|].
  split; [apply H4; vm_compute; reflexivity|]. intros i' Hi' Hs. apply (Hg i' Hi' Hs).
Qed.

(* ================================================================ *)
(* non-vacuity 2: parser report = debits for a 2-token multi-transfer with an attached call (same shard, contract) *)
(* ================================================================ *)
Definition in_two :=
  mkin alice alice [ctr; u64_bytes 2; nftA; u64_bytes 1; u64_bytes 2; tokA; []; u64_bytes 3; str "fn"%string; [x09]] true true.
Example two_token_report :
  parse_esdt_transfers (dec_tok (cdc EI)) alice alice C.BuiltInFunctionMultiESDTNFTTransfer (i_args in_two)
  = Ok {| pt_transfers := [ {| et_value := 2; et_token := nftA; et_type := 1; et_nonce := 1 |};
                            {| et_value := 3; et_token := tokA; et_type := 0; et_nonce := 0 |} ];
          pt_rcv := ctr; pt_call_args := [[x09]]; pt_call_function := str "fn"%string |}
  /\ datas (exec EI C.BuiltInFunctionMultiESDTNFTTransfer in_two s0) = Some [[str "fn@09"%string]]
  /\ match f_multi_transfer EI in_two s0 with
     | (Ok o, s') =>
       (balance EI s' alice (nft_key (P ++ nftA) 1) =? 3 - 2)%Z && (balance EI s' alice (P ++ tokA) =? 5 - 3)%Z
       && (balance EI s' ctr (nft_key (P ++ nftA) 1) =? 2)%Z && (balance EI s' ctr (P ++ tokA) =? 3)%Z
     | _ => false
     end = true.
Proof. repeat split. Qed.
Example inst_two_token_agreement :
  exists o s' r,
    f_multi_transfer EI in_two s0 = (Ok o, s')
    /\ parse_esdt_transfers (dec_tok (cdc EI)) alice alice C.BuiltInFunctionMultiESDTNFTTransfer (i_args in_two) = Ok r
    /\ pt_rcv r = ctr
    /\ report_moves r = [(nft_key (P ++ nftA) 1, 2%Z); (P ++ tokA, 3%Z)]
    /\ ledger_moved EI s0 s' (Some alice) (Some ctr) (report_moves r)
    /\ pt_call_function r = str "fn"%string /\ pt_call_args r = [[x09]].
Proof.
  destruct (f_multi_transfer EI in_two s0) as [[o|e|] s'] eqn:Ex;
    try (exfalso; assert (Hd : datas (f_multi_transfer EI in_two s0) <> None) by (vm_compute; discriminate);
         rewrite Ex in Hd; apply Hd; reflexivity).
  assert (Htr : multi_snd_triples in_two = [(nftA, u64_bytes 1, u64_bytes 2); (tokA, [], u64_bytes 3)]) by (vm_compute; reflexivity).
  destruct (parser_agrees_sender_multi EI EI_ok _ _ _ _ Ex eq_refl) as (r & Hp & Hr & Hm & Hl & _).
  - vm_compute. reflexivity.
  - vm_compute. reflexivity.
  - rewrite Htr. repeat constructor; intros t Hx; vm_compute in Hx; inversion Hx; subst; reflexivity.
  - intros _ k. change (multi_dst in_two) with ctr. rewrite balance_acct_bal.
    replace (acct s0 ctr) with empty_account by (vm_compute; reflexivity). rewrite acct_bal_empty. lia.
  - exists o, s', r. split; [reflexivity|]. split; [exact Hp|].
    assert (Hs : multi_same EI in_two = true) by (vm_compute; reflexivity). rewrite Hs in Hl.
    assert (Hrc : pt_rcv r = ctr) by (rewrite Hr; reflexivity). rewrite Hrc in Hl.
    split; [exact Hrc|]. split; [rewrite Hm, Htr; vm_compute; reflexivity|]. split; [exact Hl|].
    rewrite Hr. split; vm_compute; reflexivity.
Qed.

Print Assumptions emitted_data_parses_back_refuted.
Print Assumptions emitted_data_parses_back_refuted_empty.
Print Assumptions parser_agrees_sender_refuted.
Print Assumptions parser_agrees_dest_nft_crafted.
Print Assumptions inst_one_token_shape.
Print Assumptions inst_two_token_agreement.
