(* C04 — toggling a flag on and off again.
     freeze_unfreeze_identity     ESDTFreeze then ESDTUnFreeze of the same (account, token) by the system contract:
                                  every balance as before, flag clear, the entry is the original one up to its
                                  Properties bytes (now flag_bytes false = [0;0]; an absent entry stays absent, an entry
                                  of value 0 is deleted), nothing else touched
     freeze_unfreeze_restores_observables   ... hence, if the entry was not frozen before, every observable the
                                  gates and the funds checks read (frozen_at, paused_at, balance) is as before
     pause_unpause_identity       ESDTPause then ESDTUnPause of the same token: flag clear (the cell holds
                                  flag_bytes false), every other cell untouched
     gate_reads_flag_only / stored_or_deleted_by_flags   the two places where Properties are read look at them only
                                  through [frozen_props] and [all_zero]
   That exec as a whole returns the same status, output and balances from two states that differ only in such
   Properties bytes is proved in C04_Sim.v (props_irrelevance). *)
From EV Require Import Base.Bytes Base.Store Base.Monad gen.Consts Codec.Types Helpers.Helpers
  Ledger.Types Ledger.Env Ledger.Funcs Ledger.Transfers LedgerProofs.Defs LedgerProofs.EnvSpec
  LedgerProofs.Spec_Transfers_Base LedgerProofs.Spec_System LedgerProofs.C04_Core.

Lemma set_props_set_props t p q : set_props (set_props t p) q = set_props t q.
Proof. reflexivity. Qed.
Lemma set_props_fields t p :
  t_type (set_props t p) = t_type t /\ t_value (set_props t p) = t_value t
  /\ t_meta (set_props t p) = t_meta t /\ t_reserved (set_props t p) = t_reserved t /\ t_props (set_props t p) = p.
Proof. repeat split. Qed.

Section Toggle.
  Variable E : env.
  Hypothesis Hc : codec_ok (cdc E).

  Theorem freeze_unfreeze_identity i1 i2 s o1 s1 o2 s2 :
    exec E C.BuiltInFunctionESDTFreeze i1 s = (Ok o1, s1) ->
    exec E C.BuiltInFunctionESDTUnFreeze i2 s1 = (Ok o2, s2) ->
    i_rcpt i2 = i_rcpt i1 -> i_args i2 = i_args i1 ->
    let a := i_rcpt i1 in
    let key := P ++ argn i1 0 in
    (forall a' k, balance E s2 a' k = balance E s a' k)
    /\ frozen_at E s1 a key = true
    /\ frozen_at E s2 a key = false
    /\ tok_at E s2 a key =
       match tok_at E s a key with
       | Some t => if (balance E s a key =? 0)%Z then None else Some (set_props t (flag_bytes false))
       | None => None
       end
    /\ unchanged_except (fun a' k => a' = a /\ k = key) (fun _ => False) s s2
    /\ (a <> SYS -> forall k, paused_at s2 k = paused_at s k).
  Proof.
    rewrite exec_freeze, exec_unfreeze. intros H1 H2 Hr Ha. cbv zeta.
    pose proof (system_balance_effect_freeze E Hc _ _ _ _ _ H1) as B1.
    pose proof (system_balance_effect_freeze E Hc _ _ _ _ _ H2) as B2.
    apply (freeze_spec E Hc) in H1 as (_ & tok & t & A1 & _ & T1 & _ & _ & K1 & _ & F1 & U1 & _).
    apply (freeze_spec E Hc) in H2 as (_ & tok2 & t2 & A2 & _ & T2 & _ & _ & K2 & _ & F2 & U2 & _).
    rewrite Ha, A1 in A2. inversion A2; subst tok2. rewrite Hr in *.
    rewrite (argn0_single _ _ A1).
    assert (U : unchanged_except (fun a' k => a' = i_rcpt i1 /\ k = P ++ tok) (fun _ => False) s s2)
      by (eapply unchanged_except_trans; eauto).
    split; [intros a' k; rewrite B2, B1; reflexivity|]. split; [exact F1|]. split; [exact F2|].
    split; [|split; [exact U|]].
    - rewrite K2, B1. cbn [negb]. rewrite Bool.andb_true_r.
      rewrite Bool.andb_false_r in K1.
      apply (tok_at_tod E) in K1. rewrite K1 in T2. inversion T2; subst t2. rewrite set_props_set_props.
      destruct (tod_cases E _ _ _ _ T1) as [(_ & -> & Hn)|(_ & Hs)].
      + rewrite Hn. rewrite (balance_tok_at_none E _ _ _ Hn). reflexivity.
      + rewrite Hs. reflexivity.
    - intros Hsys k. apply (ue_paused_at _ _ _ _ U). intros [Hx _]. apply Hsys. symmetry. exact Hx.
  Qed.

  (* starting from an entry that is not frozen: all observables read by gates and funds checks are restored *)
  Corollary freeze_unfreeze_restores_observables i1 i2 s o1 s1 o2 s2 :
    exec E C.BuiltInFunctionESDTFreeze i1 s = (Ok o1, s1) ->
    exec E C.BuiltInFunctionESDTUnFreeze i2 s1 = (Ok o2, s2) ->
    i_rcpt i2 = i_rcpt i1 -> i_args i2 = i_args i1 ->
    frozen_at E s (i_rcpt i1) (P ++ argn i1 0) = false ->
    (forall a k, balance E s2 a k = balance E s a k)
    /\ (forall a k, frozen_at E s2 a k = frozen_at E s a k)
    /\ (i_rcpt i1 <> SYS -> forall k, paused_at s2 k = paused_at s k).
  Proof.
    intros H1 H2 Hr Ha Hf.
    destruct (freeze_unfreeze_identity _ _ _ _ _ _ _ H1 H2 Hr Ha) as (B & _ & F2 & _ & U & Pz).
    split; [exact B|]. split; [|exact Pz].
    intros a k. destruct (beqb_spec a (i_rcpt i1)) as [->|Hna]; [destruct (beqb_spec k (P ++ argn i1 0)) as [->|Hnk]|].
    - rewrite F2, Hf. reflexivity.
    - apply (ue_frozen_at E _ _ _ _ U). intros [_ Hx]. contradiction.
    - apply (ue_frozen_at E _ _ _ _ U). intros [Hx _]. contradiction.
  Qed.

  Theorem pause_unpause_identity i1 i2 s o1 s1 o2 s2 :
    exec E C.BuiltInFunctionESDTPause i1 s = (Ok o1, s1) ->
    exec E C.BuiltInFunctionESDTUnPause i2 s1 = (Ok o2, s2) ->
    i_args i2 = i_args i1 ->
    let key := P ++ argn i1 0 in
    paused_at s1 key = true
    /\ paused_at s2 key = false
    /\ cell s2 SYS key = flag_bytes false
    /\ unchanged_except (fun a k => a = SYS /\ k = key) (fun _ => False) s s2
    /\ (forall a k, ~ (a = SYS /\ k = key) -> balance E s2 a k = balance E s a k)
    /\ (forall a k, ~ (a = SYS /\ k = key) -> frozen_at E s2 a k = frozen_at E s a k)
    /\ (forall k, k <> key -> paused_at s2 k = paused_at s k).
  Proof.
    rewrite exec_pause, exec_unpause. intros H1 H2 Ha. cbv zeta.
    apply pause_spec in H1 as (_ & tok & A1 & _ & _ & P1 & _ & U1 & _).
    apply pause_spec in H2 as (_ & tok2 & A2 & _ & C2 & P2 & _ & U2 & _).
    rewrite Ha, A1 in A2. inversion A2; subst tok2. rewrite (argn0_single _ _ A1).
    assert (U : unchanged_except (fun a k => a = SYS /\ k = P ++ tok) (fun _ => False) s s2)
      by (eapply unchanged_except_trans; eauto).
    split; [exact P1|]. split; [exact P2|]. split; [exact C2|]. split; [exact U|].
    split; [intros a k Hn; apply (ue_balance E _ _ _ _ U); exact Hn|].
    split; [intros a k Hn; apply (ue_frozen_at E _ _ _ _ U); exact Hn|].
    intros k Hn. apply (ue_paused_at _ _ _ _ U). intros [_ Hx]. contradiction.
  Qed.

  (* starting from a token that is not paused: the observables are restored (the cell of the system account that
     carries the flag itself is excluded from the balance clause: F8) *)
  Corollary pause_unpause_restores_observables i1 i2 s o1 s1 o2 s2 :
    exec E C.BuiltInFunctionESDTPause i1 s = (Ok o1, s1) ->
    exec E C.BuiltInFunctionESDTUnPause i2 s1 = (Ok o2, s2) ->
    i_args i2 = i_args i1 ->
    paused_at s (P ++ argn i1 0) = false ->
    (forall k, paused_at s2 k = paused_at s k)
    /\ (forall a k, ~ (a = SYS /\ k = P ++ argn i1 0) -> balance E s2 a k = balance E s a k /\ frozen_at E s2 a k = frozen_at E s a k).
  Proof.
    intros H1 H2 Ha Hp. destruct (pause_unpause_identity _ _ _ _ _ _ _ H1 H2 Ha) as (_ & P2 & _ & _ & B & F & Pk).
    split.
    - intros k. destruct (beqb_spec k (P ++ argn i1 0)) as [->|Hn]; [rewrite P2, Hp; reflexivity|apply Pk; exact Hn].
    - intros a k Hn. split; [apply B|apply F]; exact Hn.
  Qed.

  (* ---- the two readers of the Properties bytes ---- *)
  (* the gate looks at them through [frozen_props] only *)
  Lemma gate_reads_flag_only addr key t p rae :
    frozen_props p = frozen_props (t_props t) ->
    check_froze_and_pause addr key (set_props t p) rae = check_froze_and_pause addr key t rae.
  Proof. intros H. unfold check_froze_and_pause. cbn [set_props t_props]. rewrite H. reflexivity. Qed.
  (* the store/delete decision of the fungible save looks at them through [all_zero] only: the cell is deleted
     exactly when the value is 0 and all_zero holds *)
  Lemma stored_or_deleted_by_flags a t key s u s' :
    save_esdt_data E a t key s = (Ok u, s') ->
    exists v, t_value t = Some v
      /\ cell s' a key = (if ((v =? 0)%Z && all_zero (t_props t))%bool then [] else enc_tok (cdc E) t).
  Proof.
    intros H. apply save_esdt_data_ok in H as (v & Hv & Hw). exists v. split; [exact Hv|].
    eapply wr_cell_eq; eauto.
  Qed.
  (* after freeze ; unfreeze the Properties are flag_bytes false: not frozen, all zero *)
  Lemma toggled_props_neutral : frozen_props (flag_bytes false) = false /\ all_zero (flag_bytes false) = true.
  Proof. split; [apply frozen_props_flag_bytes|apply all_zero_flag_bytes]. Qed.
End Toggle.

Print Assumptions freeze_unfreeze_identity.
Print Assumptions freeze_unfreeze_restores_observables.
Print Assumptions pause_unpause_identity.
Print Assumptions pause_unpause_restores_observables.
