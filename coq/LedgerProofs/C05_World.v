(* C05, part 3: the frame over the WHOLE world state (Ledger/World.v): one step of the node model
   executes at most one built-in call, on one shard; it changes only that shard, there only the cells and
   account fields of the call's footprint, and nothing at all when the call is rejected.
     op_call c w op        the execution a step attempts: (shard, function name, input), or None
     wstep_shards          exact characterisation of the account part of the world after a step
     wstep_other_shards    every shard other than the executing one is untouched
     wstep_rejected        no execution or a failed execution: no account of any shard changes
     wrun_other_shards     a shard on which no step of a history executes is unchanged by the history
     wstep_frame           the three facts in one statement, with the footprint of C05_Footprint.v *)
From EV Require Import Base.Bytes Base.Store Base.Monad gen.Consts Codec.Types Helpers.Helpers
  Ledger.Types Ledger.Env Ledger.Funcs Ledger.Transfers Ledger.World LedgerProofs.Defs LedgerProofs.EnvSpec
  LedgerProofs.WorldSpec LedgerProofs.C05_Footprint.

Section WorldFrame.
  Variable c : wcfg.

  (* which call does the step execute?  (mirrors the guards of [wstep], nothing else) *)
  Definition op_call (w : world) (op : wop) : option (N * bytes * input) :=
    match op with
    | OCall sh fn i => if (sh <? wc_nshards c)%N then Some (sh, fn, i) else None
    | ODeliver id gas | ORedeliver id gas =>
      match find_msg (inflight w) id with
      | None => None
      | Some m =>
        let sh := wc_shard_of c (m_dest m) in
        if (sh <? wc_nshards c)%N then Some (sh, m_fn m, deliver_input c m sh gas) else None
      end
    | ORefund id gas =>
      match find_msg (inflight w) id with
      | None => None
      | Some m =>
        let sh := wc_shard_of c (m_sender m) in
        if (nat_in id (failed w) && (sh <? wc_nshards c)%N)%bool then Some (sh, m_fn m, refund_input c m sh gas) else None
      end
    end.

  (* the account part of the world after one step *)
  Theorem wstep_shards w op :
    shards (wstep c w op) =
    match op_call w op with
    | None => shards w
    | Some (sh, fn, i) =>
      match exec (env_at c sh) fn i (mk_state (shard_accts w sh)) with
      | (Ok _, s') => set_nth (N.to_nat sh) (accts s') (shards w)       (* commit *)
      | _ => shards w                                                  (* rolled back *)
      end
    end.
  Proof.
    destruct op as [sh fn i|id gas|id gas|id gas]; cbn [wstep op_call].
    - destruct (sh <? wc_nshards c)%N; cbn [negb]; [|reflexivity].
      unfold run_on, mk_state. destruct (exec _ fn i _) as [[o|e|] s']; reflexivity.
    - destruct (find_msg (inflight w) id) as [m|]; [|reflexivity]. cbv zeta.
      destruct (wc_shard_of c (m_dest m) <? wc_nshards c)%N; cbn [negb]; [|reflexivity].
      unfold run_on, mk_state. destruct (exec _ (m_fn m) _ _) as [[o|e|] s']; reflexivity.
    - destruct (find_msg (inflight w) id) as [m|]; [|reflexivity]. cbv zeta.
      destruct (wc_shard_of c (m_dest m) <? wc_nshards c)%N; cbn [negb]; [|reflexivity].
      unfold run_on, mk_state. destruct (exec _ (m_fn m) _ _) as [[o|e|] s']; reflexivity.
    - destruct (find_msg (inflight w) id) as [m|]; [|reflexivity]. cbv zeta.
      destruct (nat_in id (failed w)); cbn [negb andb]; [|reflexivity].
      destruct (wc_shard_of c (m_sender m) <? wc_nshards c)%N; cbn [negb]; [|reflexivity].
      unfold run_on, mk_state. destruct (exec _ (m_fn m) _ _) as [[o|e|] s']; reflexivity.
  Qed.

  Lemma shard_accts_shards w w' sh : shards w' = shards w -> shard_accts w' sh = shard_accts w sh.
  Proof. unfold shard_accts. intros ->. reflexivity. Qed.
  Lemma shard_accts_set_nth_ne w w' sh sh' m :
    shards w' = set_nth (N.to_nat sh) m (shards w) -> sh' <> sh -> shard_accts w' sh' = shard_accts w sh'.
  Proof.
    unfold shard_accts. intros -> Hne. apply nth_set_nth_ne. intros Heq. apply Hne. apply N2Nat.inj. symmetry. exact Heq.
  Qed.

  (* every shard other than the one the step executes on is untouched *)
  Theorem wstep_other_shards w op sh' :
    (forall fn i, op_call w op <> Some (sh', fn, i)) ->
    shard_accts (wstep c w op) sh' = shard_accts w sh'.
  Proof.
    intros Hn. pose proof (wstep_shards w op) as Hs.
    destruct (op_call w op) as [[[sh fn] i]|]; [|apply shard_accts_shards; exact Hs].
    destruct (exec (env_at c sh) fn i (mk_state (shard_accts w sh))) as [[o|e|] s'];
      try (apply shard_accts_shards; exact Hs).
    eapply shard_accts_set_nth_ne; [exact Hs|]. intros ->. apply (Hn fn i). reflexivity.
  Qed.

  (* a step that executes nothing, or whose execution fails (error or panic), changes no account at all *)
  Theorem wstep_rejected w op :
    match op_call w op with
    | None => True
    | Some (sh, fn, i) => forall o, fst (exec (env_at c sh) fn i (mk_state (shard_accts w sh))) <> Ok o
    end ->
    shards (wstep c w op) = shards w.
  Proof.
    intros H. rewrite wstep_shards. destruct (op_call w op) as [[[sh fn] i]|]; [|reflexivity].
    destruct (exec (env_at c sh) fn i (mk_state (shard_accts w sh))) as [[o|e|] s']; try reflexivity.
    exfalso. apply (H o). reflexivity.
  Qed.

  (* over a whole history: a shard on which no step of the history executes is the same at the end *)
  Fixpoint never_on (w : world) (ops : list wop) (sh' : N) : Prop :=
    match ops with
    | [] => True
    | op :: r => (forall fn i, op_call w op <> Some (sh', fn, i)) /\ never_on (wstep c w op) r sh'
    end.
  Theorem wrun_other_shards ops : forall w sh', never_on w ops sh' ->
    shard_accts (wrun c w ops) sh' = shard_accts w sh'.
  Proof.
    induction ops as [|op r IH]; intros w sh' H; [reflexivity|]. destruct H as [H1 H2].
    rewrite wrun_cons, (IH _ _ H2). apply wstep_other_shards. exact H1.
  Qed.

  Hypothesis Hc : codec_ok (wc_cdc c).

  (* the frame of one step over the whole world *)
  Theorem wstep_frame w op :
    let w' := wstep c w op in
    match op_call w op with
    | None => shards w' = shards w
    | Some (sh, fn, i) =>
      let E := env_at c sh in
      let s0 := mk_state (shard_accts w sh) in
      (* other shards *)
      (forall sh', sh' <> sh -> shard_accts w' sh' = shard_accts w sh')
      (* the executing shard *)
      /\ match fst (exec E fn i s0) with
         | Ok _ => unchanged_except (fp_cells (footprint E fn i s0)) (fp_accts (footprint E fn i s0))
                                    s0 (mk_state (shard_accts w' sh))
         | _ => shards w' = shards w
         end
    end.
  Proof.
    cbv zeta. pose proof (wstep_shards w op) as Hs.
    destruct (op_call w op) as [[[sh fn] i]|] eqn:Eop; [|exact Hs].
    split.
    - intros sh' Hne. apply wstep_other_shards. rewrite Eop. intros fn' i' [= -> _ _]. apply Hne. reflexivity.
    - destruct (exec (env_at c sh) fn i (mk_state (shard_accts w sh))) as [[o|e|] s'] eqn:Ex; cbn [fst]; try exact Hs.
      destruct (Nat.lt_ge_cases (N.to_nat sh) (length (shards w))) as [Hlt|Hge].
      + assert (Ha : shard_accts (wstep c w op) sh = accts s').
        { unfold shard_accts. rewrite Hs. apply nth_set_nth_eq. exact Hlt. }
        rewrite Ha. assert (Hcd : codec_ok (cdc (env_at c sh))) by exact Hc.
        pose proof (exec_frame (env_at c sh) Hcd _ _ _ _ _ Ex) as Hu.
        eapply unchanged_except_trans; [exact Hu|]. apply unchanged_except_accts. reflexivity.
      + rewrite set_nth_out in Hs by exact Hge. rewrite (shard_accts_shards _ _ sh Hs). apply unchanged_except_refl.
  Qed.

  (* spelled out for one cell / one account anywhere in the world *)
  Definition wcell (w : world) (sh : N) (a k : bytes) : bytes := cell (mk_state (shard_accts w sh)) a k.
  Definition wacct (w : world) (sh : N) (a : bytes) : account := acct (mk_state (shard_accts w sh)) a.
  Corollary wstep_frame_cell w op sh a k :
    (forall fn i o s', op_call w op = Some (sh, fn, i) ->
       exec (env_at c sh) fn i (mk_state (shard_accts w sh)) = (Ok o, s') ->
       ~ fp_cells (footprint (env_at c sh) fn i (mk_state (shard_accts w sh))) a k) ->
    wcell (wstep c w op) sh a k = wcell w sh a k.
  Proof.
    intros Hn. unfold wcell. pose proof (wstep_frame w op) as Hf. cbv zeta in Hf.
    destruct (op_call w op) as [[[sh0 fn] i]|] eqn:Eop.
    - destruct Hf as [Ho He]. destruct (N.eq_dec sh sh0) as [->|Hne]; [|rewrite (Ho _ Hne); reflexivity].
      destruct (exec (env_at c sh0) fn i (mk_state (shard_accts w sh0))) as [[o|e|] s'] eqn:Ex; cbn [fst] in He;
        try (rewrite (shard_accts_shards _ _ sh0 He); reflexivity).
      apply (ue_cell _ _ _ _ He). eapply Hn; eauto.
    - rewrite (shard_accts_shards _ _ sh Hf). reflexivity.
  Qed.
  Corollary wstep_frame_acct w op sh a :
    (forall fn i o s', op_call w op = Some (sh, fn, i) ->
       exec (env_at c sh) fn i (mk_state (shard_accts w sh)) = (Ok o, s') ->
       ~ fp_accts (footprint (env_at c sh) fn i (mk_state (shard_accts w sh))) a) ->
    acct_fields_eq (wacct (wstep c w op) sh a) (wacct w sh a).
  Proof.
    intros Hn. unfold wacct. pose proof (wstep_frame w op) as Hf. cbv zeta in Hf.
    destruct (op_call w op) as [[[sh0 fn] i]|] eqn:Eop.
    - destruct Hf as [Ho He]. destruct (N.eq_dec sh sh0) as [->|Hne]; [|rewrite (Ho _ Hne); apply acct_fields_eq_refl].
      destruct (exec (env_at c sh0) fn i (mk_state (shard_accts w sh0))) as [[o|e|] s'] eqn:Ex; cbn [fst] in He;
        try (rewrite (shard_accts_shards _ _ sh0 He); apply acct_fields_eq_refl).
      apply (ue_fields _ _ _ _ He). eapply Hn; eauto.
    - rewrite (shard_accts_shards _ _ sh Hf). apply acct_fields_eq_refl.
  Qed.
End WorldFrame.

Print Assumptions wstep_shards.
Print Assumptions wstep_other_shards.
Print Assumptions wstep_rejected.
Print Assumptions wrun_other_shards.
Print Assumptions wstep_frame.
Print Assumptions wstep_frame_cell.
Print Assumptions wstep_frame_acct.
