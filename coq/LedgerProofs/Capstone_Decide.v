(* Capstone, part 6: what the property files Properties/C*_capstone.v need on top of Capstone_Check.v / Capstone_Examples.v.

   1. A boolean decider of [no_supply_ops] (Supply_Step.v: no operation of the history is a SUCCESSFUL mint / create /
      add-quantity / burn / wipe / issuing transfer), evaluated along the run, with its soundness lemma -- the one
      hypothesis of [capstone_conservation] for which Capstone_Check.v has no checker.
   2. [k_history2] = Capstone_Examples.k_history (31 operations from the EMPTY two-shard world under ideal_codec)
      followed by three more: the system contract gives bob (shard 1, holder of NFT#2) the roles ESDTRoleNFTAddURI and
      ESDTRoleNFTUpdateAttributes, bob calls ESDTNFTAddURI and ESDTNFTUpdateAttributes on NFT#2.  34 operations: role
      grants, issue, mint, two creations, same-shard and cross-shard single and multi transfers with deliveries, a
      rejected delivery and its refund, the pause broadcast, burns, the role hand-over, the two metadata updates.
      [honest_ops] / [honest_ops7] are decided along the run by vm_compute; every capstone theorem is instantiated; the
      quantities the conclusions speak about are computed.
   3. [k_transfers]: operations 5..11 of the history (transfers, deliveries, the rejected delivery, its refund) executed
      from the world reached after operations 0..4 -- a NON-EMPTY start world satisfying the joint invariant; honest and
      without supply operation, both decided; the totals before and after are computed. *)
From Coq.Strings Require Import String.
From Coq Require Import Lia List Sorted.
From EV Require Import Base.Bytes Base.Store Base.Monad gen.Consts Codec.Types Codec.Proto Codec.Ideal Codec.CodecOk
  Helpers.Helpers Ledger.Types Ledger.Env Ledger.Funcs Ledger.Transfers Ledger.World Corr.Exec
  LedgerProofs.Defs LedgerProofs.EnvSpec LedgerProofs.WorldDefs LedgerProofs.WorldSpec
  LedgerProofs.Spec_Transfers_Base LedgerProofs.Spec_Supply
  LedgerProofs.C01_World LedgerProofs.C02_Effects LedgerProofs.C07_Exec LedgerProofs.C07_World LedgerProofs.C07_Histories
  LedgerProofs.C15_Inv LedgerProofs.C15_World LedgerProofs.C15_Examples
  LedgerProofs.NoPanicWorldEmit LedgerProofs.NoPanicWorld
  LedgerProofs.Supply_Base LedgerProofs.Supply_Calls LedgerProofs.Supply_Step
  LedgerProofs.Capstone_Defs LedgerProofs.Capstone_Step LedgerProofs.Capstone_Histories LedgerProofs.Capstone_Check
  LedgerProofs.Capstone_Examples.
Import ListNotations.

(* ================================================================ *)
(* 1. a decider of [no_supply_ops]                                    *)
(* ================================================================ *)
Section Decide.
  Variable c : wcfg.

  Definition no_supply_op_b (w : world) (op : wop) : bool :=
    match step_call c w op with
    | None => true
    | Some (sh, fn, i) =>
      match exec (env_at c sh) fn i (mk_state (shard_accts w sh)) with
      | (Ok _, _) =>
        negb (bytes_in fn supply_changing_funs)
        && match op with OCall _ fn0 i0 => negb (issue_shape fn0 i0) | _ => true end
      | _ => true
      end
    end.
  Lemma no_supply_op_b_ok w op : no_supply_op_b w op = true -> ~ supply_op c w op.
  Proof.
    unfold no_supply_op_b. intros H (sh & fn & i & o & s' & Hcall & Hx & Hor). rewrite Hcall, Hx in H.
    apply andb_prop in H as [H1 H2]. destruct Hor as [Hin|(sh0 & i0 & -> & Hsh)].
    - apply bytes_in_true in Hin. rewrite Hin in H1. discriminate H1.
    - rewrite Hsh in H2. discriminate H2.
  Qed.
  Fixpoint no_supply_ops_b (w : world) (ops : list wop) : bool :=
    match ops with
    | [] => true
    | op :: r => no_supply_op_b w op && no_supply_ops_b (wstep c w op) r
    end.
  Lemma no_supply_ops_b_ok ops : forall w, no_supply_ops_b w ops = true -> no_supply_ops c w ops.
  Proof.
    induction ops as [|op r IH]; intros w H; [exact I|]. cbn [no_supply_ops_b] in H. apply andb_prop in H as [H1 H2].
    split; [apply no_supply_op_b_ok; exact H1|apply IH; exact H2].
  Qed.

  (* conservation with every hypothesis on the history decided by computation *)
  Theorem capstone_conservation_checked (Hc : codec_ok (wc_cdc c)) (Hf : flag_undec (wc_cdc c)) w ops x :
    JInv c w -> honest_ops_b c w ops = true -> no_supply_ops_b w ops = true ->
    total c (P ++ x) (wrun c w ops) = total c (P ++ x) w.
  Proof.
    intros HJ H1 H2. apply (capstone_conservation c Hc Hf); [exact HJ|apply honest_ops_b_ok; exact H1
                                                              |apply no_supply_ops_b_ok; exact H2|apply pkey_P].
  Qed.
End Decide.

(* ================================================================ *)
(* 2. the extended history                                            *)
(* ================================================================ *)
Definition k_tail : list wop :=
  [ (* 31 *) OCall 1 FSetRole (k_in SC k_bob [k_nft; C.ESDTRoleNFTAddURI; C.ESDTRoleNFTUpdateAttributes] false true);
    (* 32 *) OCall 1 FAddURI (k_in k_bob k_bob [k_nft; k_num 2; str "uri2"%string] true true);
    (* 33 *) OCall 1 FUpdAttr (k_in k_bob k_bob [k_nft; k_num 2; str "attr2"%string] true true) ].
Definition k_history2 : list wop := k_history ++ k_tail.

(* the entry bob holds under NFT#2 *)
Definition k_meta (w : world) (sh : N) (a : bytes) (n : N) : option metadata :=
  match tok_at (env_at kc sh) (sstate w sh) a (nft_key (P ++ k_nft) n) with Some t => t_meta t | None => None end.

(* ---------------- the hypotheses ---------------- *)
Example capstone2_length : length k_history2 = 34%nat.
Proof. reflexivity. Qed.
Example capstone2_checked : honest_ops_b kc kw0 k_history2 = true /\ honest_ops7_b kc [] kw0 k_history2 = true.
Proof. vm_compute. split; reflexivity. Qed.
Example capstone2_honest : honest_ops kc kw0 k_history2 /\ honest_ops7 kc [] kw0 k_history2.
Proof. split; [apply honest_ops_b_ok|apply honest_ops7_b_ok]; apply capstone2_checked. Qed.
Example capstone2_start : JInv kc kw0.
Proof. apply JInv_empty. vm_compute. discriminate. Qed.
Example capstone2_init : forall tok, init_ok kc tok kw0.
Proof. intros tok. apply (init_ok_empty kc tok 2). reflexivity. Qed.
Example capstone2_hypotheses :
  codec_ok (wc_cdc kc) /\ flag_undec (wc_cdc kc) /\ JInv kc kw0 /\ (forall tok, init_ok kc tok kw0)
  /\ honest_ops kc kw0 k_history2 /\ honest_ops7 kc [] kw0 k_history2.
Proof.
  exact (conj kc_ok (conj kc_flag (conj capstone2_start (conj capstone2_init capstone2_honest)))).
Qed.

(* ---------------- the theorems, instantiated ---------------- *)
Example capstone2_invariant : forall n, JInv kc (wrun kc kw0 (firstn n k_history2)).
Proof. intros n. apply (capstone_invariant kc kc_ok kc_flag); [apply capstone2_start|apply capstone2_honest]. Qed.
Example capstone2_no_panic :
  Forall (fun st => st <> Some SPanic) (statuses kc kw0 k_history2) /\ Forall step_total (results kc kw0 k_history2).
Proof. apply (capstone_no_panic kc kc_ok kc_flag); [apply capstone2_start|apply capstone2_honest]. Qed.
Example capstone2_supply : forall x,
  total kc (P ++ x) (wrun kc kw0 k_history2) = (total kc (P ++ x) kw0 + supply_sum kc kw0 k_history2 (P ++ x))%Z.
Proof.
  intros x. apply (capstone_supply kc kc_ok kc_flag); [apply capstone2_start|apply capstone2_honest|apply pkey_P].
Qed.
Example capstone2_supply_nonneg : forall x, (0 <= total kc (P ++ x) (wrun kc kw0 k_history2))%Z.
Proof.
  intros x. apply (capstone_supply_nonneg kc kc_ok kc_flag); [apply capstone2_start|apply capstone2_honest|apply pkey_P].
Qed.
Example capstone2_wellformed : forall n sh,
  let s := sstate (wrun kc kw0 (firstn n k_history2)) sh in
  Inv (env_at kc sh) s /\ forall a x, (0 <= balance (env_at kc sh) s a (P ++ x))%Z.
Proof.
  intros n sh. apply (capstone_wellformed kc kc_ok kc_flag); [apply capstone2_start|apply capstone2_honest].
Qed.
Example capstone2_nonces_unique : forall tok,
  let L := issued tok (snd (wrun_log kc kw0 k_history2)) in NoDup L /\ StronglySorted N.lt L.
Proof.
  intros tok. apply (capstone_nonces_unique kc kc_ok kc_flag); [apply capstone2_start|apply capstone2_init|apply capstone2_honest].
Qed.
Example capstone2_disciplined : forall tok,
  C07_World.disciplined kc tok false kw0 k_history2 /\ nowrap kc tok kw0 k_history2.
Proof.
  intros tok. apply (honest7_disciplined kc kc_ok kc_flag tok k_history2 [] kw0); [apply capstone2_start|apply capstone2_honest].
Qed.
Example capstone2_creator_invariant : forall tok,
  exists g', CInv kc tok g' (wrun kc kw0 k_history2) ([] ++ issued tok (snd (wrun_log kc kw0 k_history2))).
Proof.
  intros tok. apply (capstone_creator_invariant kc kc_ok kc_flag tok [] kw0 []);
    [apply capstone2_start|apply (CInv_init kc tok kw0 (capstone2_init tok))|apply capstone2_honest].
Qed.

(* ---------------- what happened, computed ---------------- *)
Example capstone2_statuses :
  statuses kc kw0 k_history2 =
  [Some SOk; Some SOk; Some SOk; Some SOk; Some SOk; Some SOk; Some SOk; Some SOk; Some SOk; Some SOk;
   Some SErr; Some SOk; Some SOk; Some SOk; Some SErr; Some SErr; Some SOk; Some SOk; Some SOk; Some SOk;
   Some SOk; Some SOk; Some SOk; Some SOk; Some SOk; Some SErr; Some SOk; None; None; Some SErr; Some SOk;
   Some SOk; Some SOk; Some SOk].
Proof. vm_compute. reflexivity. Qed.
Example capstone2_deltas :
  k_deltas kw0 k_history2 k_kTok
    = [100; 0; 10; 0; 0; 0; 0; 0; 0; 0; 0; 0; 0; 0; 0; 0; 0; 0; -5; 0; 0; 0; 0; 0; 0; 0; -2; 0; 0; 0; 0; 0; 0; 0]%Z
  /\ k_deltas kw0 k_history2 k_kN1
    = [0; 0; 0; 0; 4; 0; 0; 0; 0; 0; 0; 0; 0; 0; 0; 0; 0; 0; 0; -1; 0; 0; 0; 0; 0; 0; 0; 0; 0; 0; 0; 0; 0; 0]%Z
  /\ k_deltas kw0 k_history2 k_kN2
    = [0; 0; 0; 0; 0; 0; 0; 0; 0; 0; 0; 0; 0; 0; 0; 0; 0; 0; 0; 0; 0; 0; 0; 0; 1; 0; 0; 0; 0; 0; 0; 0; 0; 0]%Z.
Proof. vm_compute. repeat split; reflexivity. Qed.
(* both sides of the accounting equation *)
Example capstone2_computed :
  total kc k_kTok kw0 = 0%Z /\ total kc k_kN1 kw0 = 0%Z /\ total kc k_kN2 kw0 = 0%Z
  /\ total kc k_kTok (wrun kc kw0 k_history2) = 103%Z /\ supply_sum kc kw0 k_history2 k_kTok = 103%Z
  /\ total kc k_kN1 (wrun kc kw0 k_history2) = 3%Z /\ supply_sum kc kw0 k_history2 k_kN1 = 3%Z
  /\ total kc k_kN2 (wrun kc kw0 k_history2) = 1%Z /\ supply_sum kc kw0 k_history2 k_kN2 = 1%Z.
Proof. vm_compute. repeat split; reflexivity. Qed.
(* where the tokens are at the end, the nonces issued, the ghost list of granted create roles, bob's NFT#2 metadata
   before and after the two updates *)
Example capstone2_final :
  let w' := wrun kc kw0 k_history2 in
  inflight w' = [] /\ failed w' = []
  /\ k_bal w' 0 k_alice k_kTok = 72%Z /\ k_bal w' 1 k_bob k_kTok = 31%Z
  /\ k_bal w' 0 k_alice k_kN1 = 0%Z /\ k_bal w' 1 k_bob k_kN1 = 3%Z /\ k_bal w' 1 k_bob k_kN2 = 1%Z
  /\ issued k_nft (snd (wrun_log kc kw0 k_history2)) = [1; 2]%N
  /\ issued k_tok (snd (wrun_log kc kw0 k_history2)) = []
  /\ fold_left granted_after k_history2 [] = [k_nft]
  /\ option_map md_uris (k_meta (wrun kc kw0 k_history) 1 k_bob 2) = Some [str "uri"%string]
  /\ option_map md_uris (k_meta w' 1 k_bob 2) = Some [str "uri"%string; str "uri2"%string]
  /\ option_map md_attributes (k_meta (wrun kc kw0 k_history) 1 k_bob 2) = Some (str "attr"%string)
  /\ option_map md_attributes (k_meta w' 1 k_bob 2) = Some (str "attr2"%string)
  /\ has_role (env_at kc 1) (sstate w' 1) k_bob k_nft C.ESDTRoleNFTCreate = true
  /\ has_role (env_at kc 0) (sstate w' 0) k_alice k_nft C.ESDTRoleNFTCreate = false.
Proof. vm_compute. repeat split; reflexivity. Qed.
(* no balance under a protocol key is negative, evaluated on the five holdings of the final world; the invariant's
   shard count *)
Example capstone2_balances_nonneg :
  let w' := wrun kc kw0 k_history2 in
  forallb (fun p => (0 <=? k_bal w' (fst (fst p)) (snd (fst p)) (snd p))%Z)
    [(0%N, k_alice, k_kTok); (1%N, k_bob, k_kTok); (1%N, k_dave, k_kTok); (0%N, k_alice, k_kN1); (1%N, k_bob, k_kN1);
     (1%N, k_bob, k_kN2); (0%N, k_carol, k_kTok); (0%N, SYS, k_kTok); (1%N, SYS, k_kTok)] = true
  /\ length (shards w') = 2%nat.
Proof. vm_compute. split; reflexivity. Qed.

(* ================================================================ *)
(* 3. conservation on a transfer-only segment, from a non-empty world *)
(* ================================================================ *)
Definition kw5 : world := wrun kc kw0 (firstn 5 k_history).
Definition k_transfers : list wop := firstn 7 (skipn 5 k_history).

Example capstone2_transfers_listed :
  k_transfers =
  [ OCall 0 FEsdt (k_in k_alice k_bob [k_tok; k_num 30] true false);
    ODeliver 0 k_gas;
    OCall 0 FNft (k_in k_alice k_alice [k_nft; k_num 1; k_num 2; k_bob] true true);
    ODeliver 1 k_gas;
    OCall 0 FEsdt (k_in k_alice k_dave [k_tok; k_num 5] true false);
    ODeliver 2 k_gas;
    ORefund 2 k_gas ].
Proof. reflexivity. Qed.
Example capstone2_transfers_start : JInv kc kw5.
Proof. apply (capstone_example_invariant 5). Qed.
Example capstone2_transfers_checked : honest_ops_b kc kw5 k_transfers = true /\ no_supply_ops_b kc kw5 k_transfers = true.
Proof. vm_compute. split; reflexivity. Qed.
Example capstone2_transfers_hypotheses : JInv kc kw5 /\ honest_ops kc kw5 k_transfers /\ no_supply_ops kc kw5 k_transfers.
Proof.
  split; [exact capstone2_transfers_start|]. split; [apply honest_ops_b_ok|apply no_supply_ops_b_ok]; apply capstone2_transfers_checked.
Qed.
Example capstone2_transfers_conserved : forall x, total kc (P ++ x) (wrun kc kw5 k_transfers) = total kc (P ++ x) kw5.
Proof.
  intros x. apply (capstone_conservation_checked kc kc_ok kc_flag); [exact capstone2_transfers_start| |]; apply capstone2_transfers_checked.
Qed.
(* both sides, and the movement inside: 30 TOK and 2 of NFT#1 reach bob, dave's 5 come back *)
Example capstone2_transfers_computed :
  total kc k_kTok kw5 = 110%Z /\ total kc k_kTok (wrun kc kw5 k_transfers) = 110%Z
  /\ total kc k_kN1 kw5 = 4%Z /\ total kc k_kN1 (wrun kc kw5 k_transfers) = 4%Z
  /\ k_bal kw5 0 k_alice k_kTok = 110%Z /\ k_bal (wrun kc kw5 k_transfers) 0 k_alice k_kTok = 80%Z
  /\ k_bal (wrun kc kw5 k_transfers) 1 k_bob k_kTok = 30%Z /\ k_bal (wrun kc kw5 k_transfers) 1 k_dave k_kTok = 0%Z
  /\ k_bal (wrun kc kw5 k_transfers) 0 k_alice k_kN1 = 2%Z /\ k_bal (wrun kc kw5 k_transfers) 1 k_bob k_kN1 = 2%Z
  /\ total kc k_kTok (wrun kc kw5 (firstn 1 k_transfers)) = 110%Z
  /\ k_bal (wrun kc kw5 (firstn 1 k_transfers)) 0 k_alice k_kTok = 80%Z
  /\ length (inflight (wrun kc kw5 (firstn 1 k_transfers))) = 1%nat.
Proof. vm_compute. repeat split; reflexivity. Qed.
(* the decider refuses a history that contains a successful mint *)
Example capstone2_supply_op_refused : no_supply_ops_b kc kw0 (firstn 3 k_history) = false.
Proof. vm_compute. reflexivity. Qed.

Print Assumptions no_supply_ops_b_ok.
Print Assumptions capstone_conservation_checked.
Print Assumptions capstone2_hypotheses.
Print Assumptions capstone2_invariant.
Print Assumptions capstone2_no_panic.
Print Assumptions capstone2_supply.
Print Assumptions capstone2_nonces_unique.
Print Assumptions capstone2_creator_invariant.
Print Assumptions capstone2_transfers_conserved.
