(* C07, part 5 (histories with repeated deliveries): a more permissive discipline in which a hand-over message may be
   delivered ANY number of times, by ODeliver, ORedeliver or ORefund, as long as every delivery after the first
   effective one finds the carried counter and the create role still in place at its destination (the only
   re-deliveries that are harmless: [redelivery_idempotent]; everything else is F9).  Stale copies of hand-over
   messages may therefore stay in flight for ever; the invariant [RInv] says which message is live.
   The at-most-once discipline of C07_World.v is the special case without ORedeliver. *)
From Coq Require Import Lia List Sorted.
From EV Require Import Base.Bytes Base.Store Base.Monad gen.Consts Codec.Types Helpers.Helpers
  Ledger.Types Ledger.Env Ledger.Funcs Ledger.Transfers Ledger.World
  LedgerProofs.Defs LedgerProofs.EnvSpec LedgerProofs.WorldDefs LedgerProofs.WorldSpec
  LedgerProofs.Spec_Transfers_Base LedgerProofs.Spec_System LedgerProofs.C07_Exec LedgerProofs.C07_Emit
  LedgerProofs.C07_World.
Import ListNotations.

Section Redeliver.
  Variable c : wcfg.
  Hypothesis Hc : codec_ok (wc_cdc c).
  Variable tok : bytes.
  Notation shof := (wc_shard_of c).

  Definition no_holder (w : world) : Prop := forall sh a, ~ holder c w tok sh a.
  (* shape of a hand-over message for tok *)
  Definition hform (m : msg) : Prop := exists n, (n < two64)%N /\ m_args m = [tok; u64_bytes n].

  (* ---------------- the discipline ---------------- *)
  Definition step_ok_r (g : bool) (w : world) (op : wop) : Prop :=
    dst_ok c op /\
    match op_exec c w op with
    | None => True
    | Some (sh, fn, i) =>
      (grants tok fn i -> g = false /\ cnt CR (tl (i_args i)) = 1%nat)
      /\ ~ revokes tok fn i
      /\ (hands tok fn i ->
            match op with
            | OCall _ _ _ => i_caller i = SC /\ holder c w tok sh (i_rcpt i)
            | ODeliver id _ | ORedeliver id _ | ORefund id _ =>
              (* the first effective delivery: nobody holds the role and the message is the latest hand-over message *)
              (no_holder w /\ forall m, find_msg (inflight w) id = Some m -> exists l, hmsgs tok (inflight w) = l ++ [m])
              (* or a repeated delivery that finds the carried counter and the role in place *)
              \/ (holder c w tok sh (i_rcpt i) /\ wcounter w tok sh (i_rcpt i) = bigU64 (argn i 1))
            end)
    end.
  Fixpoint disciplined_r (g : bool) (w : world) (ops : list wop) : Prop :=
    match ops with
    | [] => True
    | op :: r => step_ok_r g w op /\ disciplined_r (g || grant_attempt c tok w op) (wstep c w op) r
    end.

  (* ---------------- the invariant ---------------- *)
  Record RInv (g : bool) (w : world) (L : list N) : Prop := {
    ri_wf : wf_world c w;
    ri_cnt : forall sh a, (ncreate c w tok sh a <= 1)%nat;
    ri_one : forall sh a sh' a', holder c w tok sh a -> holder c w tok sh' a' -> sh = sh' /\ a = a';
    ri_bound : forall sh a, holder c w tok sh a -> Forall (fun n => (n <= wcounter w tok sh a)%N) L;
    ri_form : Forall hform (hmsgs tok (inflight w));
    (* when nobody holds the role, the LAST hand-over message in flight is the live one *)
    ri_live : no_holder w -> forall l m n, hmsgs tok (inflight w) = l ++ [m] -> m_args m = [tok; u64_bytes n] ->
              Forall (fun k => (k <= n)%N) L;
    ri_fresh : g = false -> L = [] /\ hmsgs tok (inflight w) = [] /\ no_holder w;
    ri_sorted : StronglySorted N.lt L }.

  Lemma RInv_init w : init_ok c tok w -> RInv false w [].
  Proof.
    intros (Hwf & Hm & Hh). constructor; auto.
    - intros sh a. specialize (Hh sh a). unfold holder in Hh. lia.
    - intros sh a sh' a' H. exfalso. eapply Hh. exact H.
    - rewrite Hm. constructor.
    - constructor.
  Qed.
  Lemma RInv_g g g' w L : (g' = false -> g = false) -> RInv g w L -> RInv g' w L.
  Proof. intros Hg H. destruct H. constructor; auto. Qed.

  (* same observables for tok *)
  Lemma RInv_same g w w' L :
    length (shards w') = length (shards w) ->
    (forall sh a, ncreate c w' tok sh a = ncreate c w tok sh a) ->
    (forall sh a, wcounter w' tok sh a = wcounter w tok sh a) ->
    hmsgs tok (inflight w') = hmsgs tok (inflight w) ->
    RInv g w L -> RInv g w' L.
  Proof.
    intros Hlen Hn Hcn Hm H. destruct H.
    assert (Hh : forall sh a, holder c w' tok sh a <-> holder c w tok sh a) by (intros; unfold holder; rewrite Hn; tauto).
    assert (Hnh : no_holder w' <-> no_holder w).
    { unfold no_holder. split; intros H sh a Hx; apply Hh in Hx; eapply H; eauto. }
    constructor.
    - unfold wf_world in *. rewrite Hlen. assumption.
    - intros. rewrite Hn. auto.
    - intros sh a sh' a' H1 H2. apply Hh in H1. apply Hh in H2. auto.
    - intros sh a H1. apply Hh in H1. rewrite Hcn. auto.
    - rewrite Hm. assumption.
    - rewrite Hm. intros Hno. apply Hnh in Hno. eauto.
    - intros Hg. destruct (ri_fresh0 Hg) as (H1 & H2 & H3). split; [exact H1|]. split; [rewrite Hm; exact H2|].
      apply Hnh. exact H3.
    - assumption.
  Qed.
  (* same observables, somebody holds the role, the hand-over messages in flight only got fewer *)
  Lemma RInv_held g w w' L sh0 a0 :
    length (shards w') = length (shards w) ->
    (forall sh a, ncreate c w' tok sh a = ncreate c w tok sh a) ->
    (forall sh a, wcounter w' tok sh a = wcounter w tok sh a) ->
    (forall m, In m (hmsgs tok (inflight w')) -> In m (hmsgs tok (inflight w))) ->
    holder c w tok sh0 a0 ->
    RInv g w L -> RInv g w' L.
  Proof.
    intros Hlen Hn Hcn Hm Hh0 H. destruct H.
    assert (Hh : forall sh a, holder c w' tok sh a <-> holder c w tok sh a) by (intros; unfold holder; rewrite Hn; tauto).
    constructor.
    - unfold wf_world in *. rewrite Hlen. assumption.
    - intros. rewrite Hn. auto.
    - intros sh a sh' a' H1 H2. apply Hh in H1. apply Hh in H2. auto.
    - intros sh a H1. apply Hh in H1. rewrite Hcn. auto.
    - rewrite Forall_forall in *. intros m Hin. apply ri_form0. apply Hm. exact Hin.
    - intros Hno. exfalso. eapply Hno. apply Hh. exact Hh0.
    - intros Hg. destruct (ri_fresh0 Hg) as (_ & _ & H3). exfalso. eapply H3. exact Hh0.
    - assumption.
  Qed.
  Lemma RInv_ext g w w' L : shards w' = shards w -> inflight w' = inflight w -> RInv g w L -> RInv g w' L.
  Proof.
    intros Hs Hi. apply RInv_same; unfold ncreate, wcounter, wroles, wst, shard_accts; rewrite ?Hs, ?Hi; reflexivity.
  Qed.

  Lemma hmsgs_kept_sub w op m : In m (hmsgs tok (kept w op)) -> In m (hmsgs tok (inflight w)).
  Proof.
    destruct op as [sh0 fn0 i0|id gas|id gas|id gas]; cbn [kept]; auto; unfold hmsgs; rewrite !filter_In;
      intros [H1 H2]; split; auto; eapply in_drop_msg; eauto.
  Qed.

  (* ================================================================ *)
  (* one committed execution                                            *)
  (* ================================================================ *)
  Section RStep.
    Variables (g : bool) (w : world) (op : wop) (L : list N) (sh : N) (fn : bytes) (i : input) (o : output) (s' : mstate).
    Hypothesis HI : RInv g w L.
    Hypothesis Hok : step_ok_r g w op.
    Hypothesis Hop : op_exec c w op = Some (sh, fn, i).
    Hypothesis Hex : exec (env_at c sh) fn i (wst w sh) = (Ok o, s').
    Let w' := wstep c w op.
    Notation E := (env_at c sh).
    Notation s := (wst w sh).
    Let Hwf : wf_world c w := ri_wf _ _ _ HI.
    Let Hdst : dst_ok c op := proj1 Hok.

    Ltac cne := apply beqb_false_iff; reflexivity.

    Lemma r_len : length (shards w') = length (shards w).
    Proof. exact (step_len c w op sh fn i o s' Hop Hex). Qed.
    Lemma r_wroles t sh1 a : wroles c w' t sh1 a = if (sh1 =? sh)%N then roles_at E s' a t else wroles c w t sh1 a.
    Proof. exact (step_wroles c w op sh fn i o s' Hwf Hop Hex t sh1 a). Qed.
    Lemma r_wcounter t sh1 a : wcounter w' t sh1 a = if (sh1 =? sh)%N then counter_at s' a t else wcounter w t sh1 a.
    Proof. exact (step_wcounter c w op sh fn i o s' Hwf Hop Hex t sh1 a). Qed.
    Lemma r_ncreate_frame sh1 a : (sh1 = sh -> ~ role_writer E fn i a tok) -> ncreate c w' tok sh1 a = ncreate c w tok sh1 a.
    Proof. exact (step_ncreate_frame c Hc tok w op sh fn i o s' Hwf Hop Hex sh1 a). Qed.
    Lemma r_wcounter_frame sh1 a : (sh1 = sh -> ~ counter_writer E fn i a tok) -> wcounter w' tok sh1 a = wcounter w tok sh1 a.
    Proof. exact (step_wcounter_frame c Hc tok w op sh fn i o s' Hwf Hop Hex sh1 a). Qed.
    Lemma r_hmsgs_other : ~ hands0 tok fn i -> hmsgs tok (inflight w') = hmsgs tok (inflight w).
    Proof. exact (step_hmsgs_other c Hc tok w op sh fn i o s' Hdst Hop Hex). Qed.
    Lemma r_infl : inflight w' = kept w op ++ emitted c op sh fn i (next_id w) o.
    Proof. exact (proj2 (proj2 (step_facts c w op sh fn i o s' Hop Hex))). Qed.

    (* ---------- the call writes no role / counter cell of tok ---------- *)
    Lemma r_other : ~ touches_tok tok fn i -> RInv g w' L.
    Proof.
      intros Hn. apply (RInv_same g w w' L); [apply r_len| | | |exact HI].
      - intros sh1 a. apply r_ncreate_frame. intros _ (Ht & [[[Hx|Hx] _]|[Hx _]]); apply Hn; split; auto.
      - intros sh1 a. apply r_wcounter_frame. intros _ (Ht & [[Hx _]|[Hx _]]); apply Hn; split; auto.
      - apply r_hmsgs_other. intros [Hx Ht]. apply Hn. split; auto.
    Qed.

    (* ---------- ESDTNFTCreate for tok ---------- *)
    Lemma r_create : fn = FCreate -> argn i 0 = tok -> step_nowrap c tok w op ->
      bigU64 (hd [] (o_returnData o)) = (wcounter w tok sh (i_caller i) + 1)%N
      /\ RInv g w' (L ++ [(wcounter w tok sh (i_caller i) + 1)%N]).
    Proof.
      intros Hf Ht Hnw.
      assert (Hex' : exec E FCreate i s = (Ok o, s')) by (rewrite <- Hf; exact Hex).
      pose proof (create_returns_counter_succ E Hc _ _ _ _ Hex') as H. cbv zeta in H. rewrite Ht in H.
      destruct H as (Hrole & _ & Hret & _ & Hcnt & Hn).
      unfold step_nowrap in Hnw. rewrite Hop in Hnw. specialize (Hnw Hf Ht).
      change (counter_at s (i_caller i) tok) with (wcounter w tok sh (i_caller i)) in *.
      specialize (Hn Hnw). rewrite Hn in *.
      assert (Hhold : holder c w tok sh (i_caller i)) by (apply holder_has_role; exact Hrole).
      assert (Hnc : forall sh1 a, ncreate c w' tok sh1 a = ncreate c w tok sh1 a).
      { intros. apply r_ncreate_frame. intros _ (_ & [[[Hx|Hx] _]|[Hx _]]); rewrite Hf in Hx; revert Hx; cne. }
      assert (Hh : forall sh1 a, holder c w' tok sh1 a <-> holder c w tok sh1 a) by (intros; unfold holder; rewrite Hnc; tauto).
      assert (Hcn1 : wcounter w' tok sh (i_caller i) = (wcounter w tok sh (i_caller i) + 1)%N).
      { rewrite r_wcounter, N.eqb_refl. exact Hcnt. }
      assert (Hm : hmsgs tok (inflight w') = hmsgs tok (inflight w)).
      { apply r_hmsgs_other. intros [Hx _]. rewrite Hf in Hx. revert Hx. cne. }
      assert (Hbound : Forall (fun k => (k <= wcounter w tok sh (i_caller i))%N) L) by (apply (ri_bound _ _ _ HI); exact Hhold).
      split; [exact Hret|]. pose proof HI as HI'. destruct HI'. constructor.
      - unfold wf_world. rewrite r_len. exact ri_wf0.
      - intros. rewrite Hnc. auto.
      - intros sh1 a sh2 a2 H1 H2. apply Hh in H1. apply Hh in H2. auto.
      - intros sh1 a H1. apply Hh in H1. destruct (ri_one0 _ _ _ _ H1 Hhold) as [-> ->]. rewrite Hcn1.
        apply Forall_app. split; [|constructor; [lia|constructor]].
        eapply Forall_impl; [|exact Hbound]. cbv beta. intros; lia.
      - rewrite Hm. exact ri_form0.
      - intros Hno. exfalso. eapply Hno. apply Hh. exact Hhold.
      - intros Hg. destruct (ri_fresh0 Hg) as (_ & _ & Hno). exfalso. eapply Hno. exact Hhold.
      - apply sorted_snoc; [exact ri_sorted0|]. eapply Forall_impl; [|exact Hbound]. cbv beta. intros; lia.
    Qed.

    (* ---------- SetESDTRole / UnSetESDTRole for tok ---------- *)
    Lemma r_roles (set : bool) : fn = (if set then FSetRole else FUnSetRole) -> argn i 0 = tok ->
      RInv (g || (if set then beqb (i_caller i) SC && bytes_in CR (tl (i_args i)) else false)) w' L.
    Proof.
      intros Hf Ht.
      assert (Hex' : exec E (if set then FSetRole else FUnSetRole) i s = (Ok o, s')) by (rewrite <- Hf; exact Hex).
      destruct (set_role_effect E Hc set _ _ _ _ Hex') as (Hsc & _ & _ & Hr). rewrite Ht in Hr.
      assert (Hfn : fn <> FCreate /\ fn <> CRT).
      { rewrite Hf. destruct set; split; cne. }
      destruct Hfn as (Hf1 & Hf2).
      assert (Hcn : forall sh1 a, wcounter w' tok sh1 a = wcounter w tok sh1 a).
      { intros. apply r_wcounter_frame. intros _ (_ & [[Hx _]|[Hx _]]); congruence. }
      assert (Hm : hmsgs tok (inflight w') = hmsgs tok (inflight w)).
      { apply r_hmsgs_other. intros [Hx _]. congruence. }
      assert (Hnc_other : forall sh1 a, ~ (sh1 = sh /\ a = i_rcpt i) -> ncreate c w' tok sh1 a = ncreate c w tok sh1 a).
      { intros sh1 a Hne. apply r_ncreate_frame. intros -> (_ & [[_ Hx]|[Hx _]]); [apply Hne; auto|congruence]. }
      assert (Hnc_rcpt : ncreate c w' tok sh (i_rcpt i) =
                         cnt CR (if set then wroles c w tok sh (i_rcpt i) ++ tl (i_args i)
                                 else delete_roles (wroles c w tok sh (i_rcpt i)) (tl (i_args i)))).
      { unfold ncreate. rewrite r_wroles, N.eqb_refl, Hr. reflexivity. }
      rewrite Hsc, beqb_refl. cbn [andb].
      destruct (bytes_in CR (tl (i_args i))) eqn:Ein.
      - apply bytes_in_true in Ein. pose proof Hok as (_ & Hs). rewrite Hop in Hs. destruct Hs as (Hgr & Hrv & _).
        destruct set; [|exfalso; apply Hrv; split; [exact Hf|auto]].
        destruct (Hgr (conj Hf (conj Hsc (conj Ht Ein)))) as (Hg & Hone). rewrite Hg. cbn [orb].
        pose proof HI as HI'. destruct HI'. destruct (ri_fresh0 Hg) as (HL & Hnom & Hnoh).
        assert (H0 : forall sh1 a, ncreate c w tok sh1 a = 0%nat).
        { intros sh1 a. specialize (Hnoh sh1 a). unfold holder in Hnoh. lia. }
        assert (H1 : ncreate c w' tok sh (i_rcpt i) = 1%nat).
        { rewrite Hnc_rcpt, cnt_app. fold (ncreate c w tok sh (i_rcpt i)). rewrite H0, Hone. reflexivity. }
        assert (Hh : forall sh1 a, holder c w' tok sh1 a -> sh1 = sh /\ a = i_rcpt i).
        { intros sh1 a Hh. destruct (N.eq_dec sh1 sh) as [->|Hs1]; [destruct (beqb_spec a (i_rcpt i)) as [->|Ha]|]; auto;
            exfalso; unfold holder in Hh; rewrite Hnc_other, H0 in Hh by (intros [? ?]; congruence); lia. }
        constructor.
        + unfold wf_world. rewrite r_len. exact ri_wf0.
        + intros sh1 a. destruct (N.eq_dec sh1 sh) as [->|Hs1]; [destruct (beqb_spec a (i_rcpt i)) as [->|Ha]|];
            [rewrite H1; lia| |]; rewrite Hnc_other, H0 by (intros [? ?]; congruence); lia.
        + intros sh1 a sh2 a2 Ha Hb. apply Hh in Ha. apply Hh in Hb. destruct Ha, Hb. subst. auto.
        + intros. rewrite HL. constructor.
        + rewrite Hm, Hnom. constructor.
        + intros. rewrite HL. constructor.
        + discriminate.
        + exact ri_sorted0.
      - replace (g || (if set then false else false))%bool with g by (destruct g, set; reflexivity).
        apply (RInv_same g w w' L); [apply r_len| |exact Hcn|exact Hm|exact HI].
        intros sh1 a. destruct (N.eq_dec sh1 sh) as [->|Hs1]; [destruct (beqb_spec a (i_rcpt i)) as [->|Ha]|];
          try (apply Hnc_other; intros [? ?]; congruence).
        rewrite Hnc_rcpt. unfold ncreate. apply cnt_zero_notin in Ein. destruct set.
        + rewrite cnt_app, Ein. lia.
        + apply cnt_delete_roles_other. intros Hx. apply bytes_in_true in Hx. apply cnt_pos_in in Hx. lia.
    Qed.

    (* ---------- the system contract's hand-over at the current holder ---------- *)
    Lemma r_hand_sc : fn = CRT -> argn i 0 = tok -> i_caller i = SC -> holder c w tok sh (i_rcpt i) ->
      kept w op = inflight w -> emitted c op sh fn i (next_id w) o = collect c sh fn i (next_id w) o ->
      RInv g w' L.
    Proof.
      intros Hf Ht Hsc Hhold Hkept Hemit.
      assert (Hex' : exec E CRT i s = (Ok o, s')) by (rewrite <- Hf; exact Hex).
      pose proof HI as HI'. destruct HI'.
      assert (Hold1 : ncreate c w tok sh (i_rcpt i) = 1%nat).
      { specialize (ri_cnt0 sh (i_rcpt i)). unfold holder in Hhold. lia. }
      assert (Hbound : Forall (fun k => (k <= wcounter w tok sh (i_rcpt i))%N) L) by (apply ri_bound0; exact Hhold).
      assert (Hg : g = true).
      { destruct g; [reflexivity|]. destruct (ri_fresh0 eq_refl) as (_ & _ & Hno). exfalso. eapply Hno. exact Hhold. }
      assert (Honly : forall sh1 a, holder c w tok sh1 a -> sh1 = sh /\ a = i_rcpt i) by (intros; eapply ri_one0; eauto).
      pose proof r_infl as Hinfl. rewrite Hkept, Hemit, Hf in Hinfl.
      pose proof Hex' as Hex2. change (exec E CRT i) with (f_create_role_transfer E i) in Hex2.
      apply (role_transfer_owner_spec E Hc) in Hex2 as (_ & tk & nw & Ha2 & _ & Ho & _); [|exact Hsc].
      assert (Enw : nw = argn i 1) by (unfold argn; rewrite Ha2; reflexivity).
      assert (Etk : tk = tok) by (rewrite <- Ht; unfold argn; rewrite Ha2; reflexivity).
      rewrite (collect_handover c sh i (next_id w) o nw tk (counter_at s (i_rcpt i) tk)) in Hinfl
        by (rewrite Ho, Hsc; reflexivity).
      rewrite Enw, Etk in Hinfl. change (counter_at s (i_rcpt i) tok) with (wcounter w tok sh (i_rcpt i)) in Hinfl.
      assert (Hfr_n : forall sh1 a, ~ (sh1 = sh /\ (a = i_rcpt i \/ (a = argn i 1 /\ shof (argn i 1) = sh))) ->
                                    ncreate c w' tok sh1 a = ncreate c w tok sh1 a).
      { intros sh1 a Hne. apply r_ncreate_frame. intros -> (_ & [[[Hx|Hx] _]|[_ Hx]]).
        - rewrite Hf in Hx. revert Hx. cne.
        - rewrite Hf in Hx. revert Hx. cne.
        - apply Hne. split; [reflexivity|]. destruct Hx as [Hx|(Hx & _ & Hy)]; [left; exact Hx|right; split; [exact Hx|exact Hy]]. }
      destruct (shof (argn i 1) =? sh)%N eqn:Es.
      - (* same shard *)
        pose proof (handover_moves_counter_same_shard E Hc _ _ _ _ Hex' Hsc Es) as H. cbv zeta in H. rewrite Ht in H.
        destruct H as (_ & Hcn & _ & Hold & Hrn & _).
        assert (Hnew1 : ncreate c w' tok sh (argn i 1) = 1%nat).
        { unfold ncreate. rewrite r_wroles, N.eqb_refl, Hrn. apply cnt_add_create_le1.
          destruct (beqb (argn i 1) (i_rcpt i)).
          - rewrite cnt_del_create. fold (wroles c w tok sh (i_rcpt i)). fold (ncreate c w tok sh (i_rcpt i)). lia.
          - apply (ri_cnt0 sh (argn i 1)). }
        assert (Hcnew : wcounter w' tok sh (argn i 1) = wcounter w tok sh (i_rcpt i)).
        { rewrite r_wcounter, N.eqb_refl. exact Hcn. }
        assert (Hold0 : argn i 1 <> i_rcpt i -> ncreate c w' tok sh (i_rcpt i) = 0%nat).
        { intros Hne. destruct (Hold Hne) as (_ & Hr & _). unfold ncreate. rewrite r_wroles, N.eqb_refl, Hr, cnt_del_create.
          fold (wroles c w tok sh (i_rcpt i)). fold (ncreate c w tok sh (i_rcpt i)). lia. }
        assert (Hh : forall sh1 a, holder c w' tok sh1 a -> sh1 = sh /\ a = argn i 1).
        { intros sh1 a Hh. destruct (N.eq_dec sh1 sh) as [->|Hs1].
          - destruct (beqb_spec a (argn i 1)) as [->|Ha]; [auto|]. exfalso.
            destruct (beqb_spec a (i_rcpt i)) as [->|Ha2'].
            + unfold holder in Hh. rewrite Hold0 in Hh by congruence. lia.
            + unfold holder in Hh. rewrite Hfr_n in Hh by (intros (_ & [?|(? & _)]); congruence).
              apply Honly in Hh. destruct Hh. congruence.
          - exfalso. unfold holder in Hh. rewrite Hfr_n in Hh by (intros (? & _); congruence).
            apply Honly in Hh. destruct Hh. congruence. }
        assert (Hhnew : holder c w' tok sh (argn i 1)) by (unfold holder; rewrite Hnew1; lia).
        constructor.
        + unfold wf_world. rewrite r_len. exact ri_wf0.
        + intros sh1 a. destruct (N.eq_dec sh1 sh) as [->|Hs1].
          * destruct (beqb_spec a (argn i 1)) as [->|Ha]; [rewrite Hnew1; lia|].
            destruct (beqb_spec a (i_rcpt i)) as [->|Ha2']; [rewrite Hold0 by congruence; lia|].
            rewrite Hfr_n by (intros (_ & [?|(? & _)]); congruence). apply ri_cnt0.
          * rewrite Hfr_n by (intros (? & _); congruence). apply ri_cnt0.
        + intros sh1 a sh2 a2 H1 H2. apply Hh in H1. apply Hh in H2. destruct H1, H2. subst. auto.
        + intros sh1 a H1. apply Hh in H1. destruct H1 as [-> ->]. rewrite Hcnew. exact Hbound.
        + rewrite Hinfl, app_nil_r. exact ri_form0.
        + intros Hno. exfalso. eapply Hno. exact Hhnew.
        + intros Hg'. congruence.
        + exact ri_sorted0.
      - (* cross shard *)
        pose proof (handover_moves_counter_cross_shard E Hc _ _ _ _ Hex' Hsc Es) as H. cbv zeta in H. rewrite Ht in H.
        destruct H as (_ & _ & _ & Hr & _).
        assert (Hold0 : ncreate c w' tok sh (i_rcpt i) = 0%nat).
        { unfold ncreate. rewrite r_wroles, N.eqb_refl, Hr, cnt_del_create.
          fold (wroles c w tok sh (i_rcpt i)). fold (ncreate c w tok sh (i_rcpt i)). lia. }
        assert (Hnew : shof (argn i 1) <> sh) by (apply N.eqb_neq; exact Es).
        assert (Hh : forall sh1 a, ~ holder c w' tok sh1 a).
        { intros sh1 a Hh. destruct (N.eq_dec sh1 sh) as [->|Hs1].
          - destruct (beqb_spec a (i_rcpt i)) as [->|Ha2']; [unfold holder in Hh; rewrite Hold0 in Hh; lia|].
            unfold holder in Hh. rewrite Hfr_n in Hh by (intros (_ & [?|(_ & ?)]); congruence).
            apply Honly in Hh. destruct Hh. congruence.
          - unfold holder in Hh. rewrite Hfr_n in Hh by (intros (? & _); congruence).
            apply Honly in Hh. destruct Hh. congruence. }
        set (mnew := handover_message c sh i (next_id w) (argn i 1) tok (wcounter w tok sh (i_rcpt i))) in *.
        assert (Eh : is_hmsg tok mnew = true).
        { unfold is_hmsg, mnew. cbn [handover_message m_fn m_args nth]. rewrite !beqb_refl. reflexivity. }
        assert (Hhm : hmsgs tok (inflight w') = hmsgs tok (inflight w) ++ [mnew]).
        { rewrite Hinfl, hmsgs_app. cbn [hmsgs filter]. rewrite Eh. reflexivity. }
        constructor.
        + unfold wf_world. rewrite r_len. exact ri_wf0.
        + intros sh1 a. specialize (Hh sh1 a). unfold holder in Hh. lia.
        + intros sh1 a sh2 a2 H1. exfalso. eapply Hh. exact H1.
        + intros sh1 a H1. exfalso. eapply Hh. exact H1.
        + rewrite Hhm. apply Forall_app. split; [exact ri_form0|]. constructor; [|constructor].
          exists (wcounter w tok sh (i_rcpt i)). split; [apply counter_at_lt|reflexivity].
        + intros _ l m n Hl Hma. rewrite Hhm in Hl. apply app_inj_tail in Hl as [_ <-].
          unfold mnew in Hma. cbn [handover_message m_args] in Hma. inversion Hma as [Hn].
          apply u64_bytes_inj in Hn. rewrite <- Hn. exact Hbound.
        + intros Hg'. congruence.
        + exact ri_sorted0.
    Qed.

    (* ---------- a hand-over message for tok is delivered ---------- *)
    (* the delivered message has the shape of a hand-over message, so the system-contract branch rejects it *)
    Lemma r_not_sc m : fn = CRT -> argn i 0 = tok -> fn = m_fn m -> i_args i = m_args m -> In m (inflight w) ->
      i_caller i <> SC /\ exists n, (n < two64)%N /\ m_args m = [tok; u64_bytes n].
    Proof.
      intros Hf Ht Hfn Hargs Hin.
      assert (Hm : is_hmsg tok m = true) by (apply (is_hmsg_hands tok m fn i Hfn Hargs); split; assumption).
      pose proof (ri_form _ _ _ HI) as Hform. rewrite Forall_forall in Hform.
      destruct (Hform m (hmsgs_in tok _ _ Hin Hm)) as (n & Hn & Hma). split; [|eauto].
      intros Hsc. assert (Hex' : exec E CRT i s = (Ok o, s')) by (rewrite <- Hf; exact Hex).
      change (exec E CRT i) with (f_create_role_transfer E i) in Hex'.
      apply (role_transfer_owner_spec E Hc) in Hex' as (_ & tk & nw & Ha2 & Hz & _); [|exact Hsc].
      rewrite Hargs, Hma in Ha2. inversion Ha2; subst tk nw.
      rewrite Hsc, zlen_SC in Hz. pose proof (u64_bytes_len n Hn). lia.
    Qed.
    Lemma r_emitted_deliver : fn = CRT -> i_caller i <> SC -> (match op with OCall _ _ _ => False | _ => True end) ->
      emitted c op sh fn i (next_id w) o = [].
    Proof.
      intros Hf Hsc Hop'. assert (Hex' : exec E CRT i s = (Ok o, s')) by (rewrite <- Hf; exact Hex).
      apply (handover_delivered E Hc) in Hex' as (_ & Ho & _); [|exact Hsc].
      destruct op; cbn [emitted]; try reflexivity; try contradiction; rewrite Hf; apply collect_no_accounts;
        try (rewrite Ho; reflexivity); reflexivity.
    Qed.

    (* the first effective delivery *)
    Lemma r_hand_first m : fn = CRT -> argn i 0 = tok -> fn = m_fn m -> i_args i = m_args m -> In m (inflight w) ->
      (match op with OCall _ _ _ => False | _ => True end) ->
      no_holder w -> (exists l, hmsgs tok (inflight w) = l ++ [m]) -> RInv g w' L.
    Proof.
      intros Hf Ht Hfn Hargs Hin Hnc Hno (l & Hl).
      destruct (r_not_sc m Hf Ht Hfn Hargs Hin) as (Hsc & n & Hn & Hma).
      assert (Hex' : exec E CRT i s = (Ok o, s')) by (rewrite <- Hf; exact Hex).
      pose proof HI as HI'. destruct HI'.
      pose proof (ri_live0 Hno l m n Hl Hma) as HLn.
      assert (Hg : g = true).
      { destruct g; [reflexivity|]. destruct (ri_fresh0 eq_refl) as (_ & Hx & _). rewrite Hx in Hl.
        destruct l; discriminate Hl. }
      assert (Ha1 : argn i 1 = u64_bytes n) by (unfold argn; rewrite Hargs, Hma; reflexivity).
      pose proof (handover_delivered E Hc _ _ _ _ Hex' Hsc) as H. cbv zeta in H. rewrite Ht, Ha1 in H.
      destruct H as (_ & Ho & Hcn & Hr & _ & _).
      rewrite bigU64_u64_bytes, (u64_small n Hn) in Hcn.
      assert (H0 : forall sh1 a, ncreate c w tok sh1 a = 0%nat).
      { intros sh1 a. specialize (Hno sh1 a). unfold holder in Hno. lia. }
      assert (Hfr_n : forall sh1 a, ~ (sh1 = sh /\ a = i_rcpt i) -> ncreate c w' tok sh1 a = 0%nat).
      { intros sh1 a Hne. rewrite r_ncreate_frame; [apply H0|]. intros -> (_ & [[[Hx|Hx] _]|[_ Hx]]).
        - rewrite Hf in Hx. revert Hx. cne.
        - rewrite Hf in Hx. revert Hx. cne.
        - destruct Hx as [Hx|(_ & Hx & _)]; [apply Hne; auto|contradiction]. }
      assert (H1 : ncreate c w' tok sh (i_rcpt i) = 1%nat).
      { unfold ncreate. rewrite r_wroles, N.eqb_refl, Hr. apply cnt_add_create_le1. apply (ri_cnt0 sh (i_rcpt i)). }
      assert (Hc1 : wcounter w' tok sh (i_rcpt i) = n) by (rewrite r_wcounter, N.eqb_refl; exact Hcn).
      assert (Hh : forall sh1 a, holder c w' tok sh1 a -> sh1 = sh /\ a = i_rcpt i).
      { intros sh1 a Hh. destruct (N.eq_dec sh1 sh) as [->|Hs1]; [destruct (beqb_spec a (i_rcpt i)) as [->|Ha]|]; auto;
          exfalso; unfold holder in Hh; rewrite Hfr_n in Hh by (intros [? ?]; congruence); lia. }
      pose proof r_infl as Hinfl. rewrite (r_emitted_deliver Hf Hsc Hnc), app_nil_r in Hinfl.
      constructor.
      - unfold wf_world. rewrite r_len. exact ri_wf0.
      - intros sh1 a. destruct (N.eq_dec sh1 sh) as [->|Hs1]; [destruct (beqb_spec a (i_rcpt i)) as [->|Ha]|];
          [rewrite H1; lia| |]; rewrite Hfr_n by (intros [? ?]; congruence); lia.
      - intros sh1 a sh2 a2 Hx Hy. apply Hh in Hx. apply Hh in Hy. destruct Hx, Hy. subst. auto.
      - intros sh1 a Hx. apply Hh in Hx. destruct Hx as [-> ->]. rewrite Hc1. exact HLn.
      - rewrite Hinfl. rewrite Forall_forall in *. intros m0 Hm0. apply ri_form0. apply (hmsgs_kept_sub w op). exact Hm0.
      - intros Hno'. exfalso. apply (Hno' sh (i_rcpt i)). unfold holder. rewrite H1. lia.
      - intros Hg'. congruence.
      - exact ri_sorted0.
    Qed.

    (* a repeated delivery that finds counter and role in place *)
    Lemma r_hand_again m : fn = CRT -> argn i 0 = tok -> fn = m_fn m -> i_args i = m_args m -> In m (inflight w) ->
      (match op with OCall _ _ _ => False | _ => True end) ->
      holder c w tok sh (i_rcpt i) -> wcounter w tok sh (i_rcpt i) = bigU64 (argn i 1) -> RInv g w' L.
    Proof.
      intros Hf Ht Hfn Hargs Hin Hnc Hhold Hcn.
      destruct (r_not_sc m Hf Ht Hfn Hargs Hin) as (Hsc & _).
      assert (Hex' : exec E CRT i s = (Ok o, s')) by (rewrite <- Hf; exact Hex).
      rewrite <- Ht in Hhold, Hcn.
      destruct (handover_delivered_idempotent E Hc _ _ _ _ Hex' Hsc Hcn (proj1 (holder_has_role c w _ sh _) Hhold)) as (H1 & H2).
      rewrite Ht in Hhold.
      pose proof r_infl as Hinfl. rewrite (r_emitted_deliver Hf Hsc Hnc), app_nil_r in Hinfl.
      apply (RInv_held g w w' L sh (i_rcpt i)); [apply r_len| | | |exact Hhold|exact HI].
      - intros sh1 a. unfold ncreate. rewrite r_wroles. destruct (sh1 =? sh)%N eqn:E0; [|reflexivity].
        apply N.eqb_eq in E0. subst sh1. rewrite H2. reflexivity.
      - intros sh1 a. rewrite r_wcounter. destruct (sh1 =? sh)%N eqn:E0; [|reflexivity].
        apply N.eqb_eq in E0. subst sh1. rewrite H1. reflexivity.
      - intros m0. rewrite Hinfl. apply hmsgs_kept_sub.
    Qed.
  End RStep.

  (* ================================================================ *)
  (* one disciplined step preserves the invariant                       *)
  (* ================================================================ *)
  Theorem RInv_step g w op L : RInv g w L -> step_ok_r g w op -> step_nowrap c tok w op ->
    RInv (g || grant_attempt c tok w op) (wstep c w op) (L ++ issued tok (opt_list (step_log c w op))).
  Proof.
    intros HI Hok Hnw. pose proof (wstep_shape c w op) as Hsh. unfold step_log, grant_attempt.
    destruct (op_exec c w op) as [[[sh fn] i]|] eqn:Hop.
    2:{ destruct Hsh as (H1 & H2). cbn [opt_list issued flat_map]. rewrite app_nil_r, Bool.orb_false_r.
        apply (RInv_ext g w); assumption. }
    destruct Hsh as (Hlt & Hsh).
    destruct (exec (env_at c sh) fn i (wst w sh)) as [[o|e|] s'] eqn:Hex.
    2:{ destruct Hsh as (H1 & H2). cbn [opt_list issued flat_map]. rewrite app_nil_r.
        eapply RInv_g; [|apply (RInv_ext g w); eassumption]. intros Hg. apply Bool.orb_false_iff in Hg. tauto. }
    2:{ destruct Hsh as (H1 & H2). cbn [opt_list issued flat_map]. rewrite app_nil_r.
        eapply RInv_g; [|apply (RInv_ext g w); eassumption]. intros Hg. apply Bool.orb_false_iff in Hg. tauto. }
    clear Hsh. cbn [opt_list issued flat_map]. rewrite app_nil_r. unfold issued_of. cbn [x_fn x_in x_out].
    assert (Hmono : forall b, (g || b)%bool = false -> g = false) by (intros b Hg; apply Bool.orb_false_iff in Hg; tauto).
    destruct (beqb_spec (argn i 0) tok) as [Ht|Ht].
    - destruct (beqb_spec fn FCreate) as [Hf|Hf1].
      { cbn [andb]. destruct (r_create g w op L sh fn i o s' HI Hok Hop Hex Hf Ht Hnw) as (Hret & H).
        rewrite Hret. eapply RInv_g; [apply Hmono|exact H]. }
      cbn [andb]. rewrite app_nil_r.
      destruct (beqb_spec fn FSetRole) as [Hf|Hf2].
      { cbn [andb]. rewrite Bool.andb_true_r. exact (r_roles g w op L sh fn i o s' HI Hok Hop Hex true Hf Ht). }
      cbn [andb].
      destruct (beqb_spec fn FUnSetRole) as [Hf|Hf3].
      { eapply RInv_g; [apply Hmono|]. pose proof (r_roles g w op L sh fn i o s' HI Hok Hop Hex false Hf Ht) as H.
        rewrite Bool.orb_false_r in H. exact H. }
      destruct (beqb_spec fn CRT) as [Hf|Hf4].
      { eapply RInv_g; [apply Hmono|]. pose proof Hok as (_ & Hs). rewrite Hop in Hs. destruct Hs as (_ & _ & Hh).
        assert (Hsnd : i_snd i = false).
        { pose proof Hex as Hex2. rewrite Hf in Hex2. apply role_transfer_requires_exec in Hex2. tauto. }
        specialize (Hh (conj (conj Hf Ht) Hsnd)). pose proof (op_exec_msg c _ _ _ _ _ Hop) as Hm.
        destruct op as [sh0 fn0 i0|id gas|id gas|id gas].
        - destruct Hh as (Hsc & Hhold).
          apply (r_hand_sc g w _ L sh fn i o s' HI Hok Hop Hex Hf Ht Hsc Hhold); reflexivity.
        - destruct Hm as (m & Hfind & Hfn & Ha). pose proof (find_msg_In _ _ _ Hfind) as (Hin & _).
          destruct Hh as [(Hno & Hl)|(Hhold & Hcn)].
          + apply (r_hand_first g w _ L sh fn i o s' HI Hok Hop Hex m Hf Ht Hfn Ha Hin I Hno (Hl m Hfind)).
          + apply (r_hand_again g w _ L sh fn i o s' HI Hok Hop Hex m Hf Ht Hfn Ha Hin I Hhold Hcn).
        - destruct Hm as (m & Hfind & Hfn & Ha). pose proof (find_msg_In _ _ _ Hfind) as (Hin & _).
          destruct Hh as [(Hno & Hl)|(Hhold & Hcn)].
          + apply (r_hand_first g w _ L sh fn i o s' HI Hok Hop Hex m Hf Ht Hfn Ha Hin I Hno (Hl m Hfind)).
          + apply (r_hand_again g w _ L sh fn i o s' HI Hok Hop Hex m Hf Ht Hfn Ha Hin I Hhold Hcn).
        - destruct Hm as (m & Hfind & Hfn & Ha). pose proof (find_msg_In _ _ _ Hfind) as (Hin & _).
          destruct Hh as [(Hno & Hl)|(Hhold & Hcn)].
          + apply (r_hand_first g w _ L sh fn i o s' HI Hok Hop Hex m Hf Ht Hfn Ha Hin I Hno (Hl m Hfind)).
          + apply (r_hand_again g w _ L sh fn i o s' HI Hok Hop Hex m Hf Ht Hfn Ha Hin I Hhold Hcn). }
      eapply RInv_g; [apply Hmono|]. apply (r_other g w op L sh fn i o s' HI Hok Hop Hex).
      intros (_ & [?|[?|[?|?]]]); contradiction.
    - rewrite !Bool.andb_false_r. cbn [andb]. rewrite app_nil_r. eapply RInv_g; [apply Hmono|].
      apply (r_other g w op L sh fn i o s' HI Hok Hop Hex). intros (? & _). contradiction.
  Qed.



  Theorem RInv_run : forall ops g w L, RInv g w L -> disciplined_r g w ops -> nowrap c tok w ops ->
    exists g', RInv g' (wrun c w ops) (L ++ issued tok (snd (wrun_log c w ops))).
  Proof.
    induction ops as [|op r IH]; intros g w L HI Hd Hn.
    - exists g. cbn. rewrite app_nil_r. exact HI.
    - destruct Hd as (Hok & Hd). destruct Hn as (Hnw & Hn). rewrite wrun_cons. cbn [wrun_log snd].
      rewrite issued_app, app_assoc. eapply IH; [|exact Hd|exact Hn]. apply RInv_step; assumption.
  Qed.

  (* uniqueness for histories with repeated (harmless) deliveries of hand-over messages *)
  Theorem nonces_unique_histories_redelivery w0 ops : init_ok c tok w0 -> disciplined_r false w0 ops -> nowrap c tok w0 ops ->
    let L := issued tok (snd (wrun_log c w0 ops)) in
    NoDup L /\ StronglySorted N.lt L
    /\ (forall sh a, holder c (wrun c w0 ops) tok sh a -> Forall (fun n => (n <= wcounter (wrun c w0 ops) tok sh a)%N) L).
  Proof.
    intros Hi Hd Hn. cbv zeta. destruct (RInv_run ops false w0 [] (RInv_init _ Hi) Hd Hn) as (g' & H). cbn [app] in H.
    destruct H. split; [apply sorted_lt_NoDup; assumption|]. split; assumption.
  Qed.

  (* the at-most-once discipline is a special case *)
  Lemma step_ok_r_of_step_ok g w op L : CInv c tok g w L -> step_ok c tok g w op -> step_ok_r g w op.
  Proof.
    intros HI (Hd & Hs). split; [exact Hd|]. destruct (op_exec c w op) as [[[sh fn] i]|] eqn:Hop; [|exact I].
    destruct Hs as (H1 & H2 & H3). split; [exact H1|]. split; [exact H2|]. intros Hh. specialize (H3 Hh).
    pose proof (op_exec_msg c _ _ _ _ _ Hop) as Hm.
    destruct op as [sh0 fn0 i0|id gas|id gas|id gas]; [exact H3| |destruct H3|].
    - left. destruct Hm as (m & Hfind & Hfn & Ha).
      assert (Him : is_hmsg tok m = true) by (apply (is_hmsg_hands tok m fn i Hfn Ha); exact (proj1 Hh)).
      pose proof (find_msg_In _ _ _ Hfind) as (Hin & _). pose proof (hmsgs_in tok _ _ Hin Him) as Hin'.
      pose proof (ci_msgs _ _ _ _ _ HI) as Hmsgs.
      destruct (hmsgs tok (inflight w)) as [|m0 [|m2 r]] eqn:Ehm; [destruct Hin'| |contradiction].
      destruct Hin' as [->|[]]. destruct Hmsgs as (Hno & _). split; [exact Hno|].
      intros m' Hf'. rewrite Hfind in Hf'. inversion Hf'. exists []. reflexivity.
    - left. destruct Hm as (m & Hfind & Hfn & Ha).
      assert (Him : is_hmsg tok m = true) by (apply (is_hmsg_hands tok m fn i Hfn Ha); exact (proj1 Hh)).
      pose proof (find_msg_In _ _ _ Hfind) as (Hin & _). pose proof (hmsgs_in tok _ _ Hin Him) as Hin'.
      pose proof (ci_msgs _ _ _ _ _ HI) as Hmsgs.
      destruct (hmsgs tok (inflight w)) as [|m0 [|m2 r]] eqn:Ehm; [destruct Hin'| |contradiction].
      destruct Hin' as [->|[]]. destruct Hmsgs as (Hno & _). split; [exact Hno|].
      intros m' Hf'. rewrite Hfind in Hf'. inversion Hf'. exists []. reflexivity.
  Qed.
  Theorem disciplined_r_of_disciplined : forall ops g w L, CInv c tok g w L -> disciplined c tok g w ops -> nowrap c tok w ops ->
    disciplined_r g w ops.
  Proof.
    induction ops as [|op r IH]; intros g w L HI Hd Hn; [exact I|].
    destruct Hd as (Hok & Hd). destruct Hn as (Hnw & Hn). split.
    - eapply step_ok_r_of_step_ok; eauto.
    - eapply IH; [|exact Hd|exact Hn]. apply (CInv_step c Hc tok); eassumption.
  Qed.
End Redeliver.

Print Assumptions RInv_step.
Print Assumptions nonces_unique_histories_redelivery.
Print Assumptions disciplined_r_of_disciplined.
