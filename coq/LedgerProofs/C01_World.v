(* C01, part 1: arithmetic of the world total, what [collect] turns an output into, the world
   invariant [WInv] and the per-step consistency hypothesis (F4b).  No reasoning about the three
   transfer functions yet (C01_Step.v). *)
From Coq.Strings Require Import String.
From EV Require Import Base.Bytes Base.Store Base.Monad gen.Consts Codec.Types Helpers.Helpers
  Parsers.Tokenize Parsers.CallArgs Parsers.Builder Parsers.ParsersProofs
  Ledger.Types Ledger.Env Ledger.Funcs Ledger.Transfers Ledger.World
  LedgerProofs.Defs LedgerProofs.EnvSpec LedgerProofs.WorldDefs LedgerProofs.WorldSpec
  LedgerProofs.Spec_Transfers_Base LedgerProofs.Spec_Transfers_Esdt LedgerProofs.Spec_Transfers_Nft
  LedgerProofs.Spec_Transfers_Multi LedgerProofs.Spec_Transfers.

(* ================================================================ *)
(* 1. totals                                                          *)
(* ================================================================ *)
Section Totals.
  Variable c : wcfg.

  Lemma shards_total_set_nth k m : forall n l, (n < length l)%nat ->
    shards_total c k (set_nth n m l) = (shards_total c k l - shard_total c k (nth n l []) + shard_total c k m)%Z.
  Proof.
    induction n as [|n IH]; destruct l as [|y r]; cbn [length set_nth nth shards_total fold_right]; intros H; try lia.
    fold (shards_total c k r). fold (shards_total c k (set_nth n m r)). rewrite (IH r) by lia. lia.
  Qed.

  Lemma inflight_total_app k l1 l2 : inflight_total c k (l1 ++ l2) = (inflight_total c k l1 + inflight_total c k l2)%Z.
  Proof.
    induction l1 as [|x r IH]; [reflexivity|].
    change (inflight_total c k ((x :: r) ++ l2)) with (qty c k x + inflight_total c k (r ++ l2))%Z.
    change (inflight_total c k (x :: r)) with (qty c k x + inflight_total c k r)%Z. lia.
  Qed.

  (* find_msg and drop_msg agree on the FIRST message with the id: no freshness of ids is needed *)
  Lemma inflight_total_drop k l id m : find_msg l id = Some m ->
    inflight_total c k (drop_msg l id) = (inflight_total c k l - qty c k m)%Z.
  Proof.
    induction l as [|x r IH]; cbn [find_msg drop_msg]; [discriminate|].
    destruct (Nat.eqb (m_id x) id); intros H.
    - inversion H; subst. cbn [inflight_total fold_right]. fold (inflight_total c k r). lia.
    - cbn [inflight_total fold_right]. fold (inflight_total c k r). fold (inflight_total c k (drop_msg r id)).
      rewrite IH by exact H. lia.
  Qed.

  Lemma forall_drop_msg (Q : msg -> Prop) l id : Forall Q l -> Forall Q (drop_msg l id).
  Proof.
    intros H. apply Forall_forall. intros x Hx. apply in_drop_msg in Hx. rewrite Forall_forall in H. auto.
  Qed.

  (* the total after committing one execution on shard sh *)
  Lemma total_commit k w sh m ms fl nid : (N.to_nat sh < nshards w)%nat ->
    total c k (with_msgs (set_shard w sh m) ms fl nid)
    = (shards_total c k (shards w) - shard_total c k (shard_accts w sh) + shard_total c k m + inflight_total c k ms)%Z.
  Proof.
    intros H. unfold total. cbn [with_msgs shards inflight set_shard].
    rewrite shards_total_set_nth by exact H. reflexivity.
  Qed.

  Lemma qty_list_app k l1 l2 : qty_list k (l1 ++ l2) = (qty_list k l1 + qty_list k l2)%Z.
  Proof.
    induction l1 as [|x r IH]; [reflexivity|].
    change (qty_list k ((x :: r) ++ l2)) with ((if beqb (fst x) k then snd x else 0) + qty_list k (r ++ l2))%Z.
    change (qty_list k (x :: r)) with ((if beqb (fst x) k then snd x else 0) + qty_list k r)%Z. lia.
  Qed.
  Lemma qty_list_single k k' v : qty_list k [(k', v)] = (if beqb k k' then v else 0)%Z.
  Proof. cbn [qty_list fold_right fst snd]. rewrite (beqb_sym k' k). destruct (beqb k k'); lia. Qed.
End Totals.

(* ================================================================ *)
(* 2. what [collect] makes of an output                                *)
(* ================================================================ *)
Lemma msg_data_build_call fn args : msg_data fn args = build_call fn args.
Proof. reflexivity. Qed.
Lemma parse_msg_data fn args : fn <> [] -> ~ In x40 fn -> parse_call_data (msg_data fn args) = Some (fn, args).
Proof. intros H1 H2. rewrite msg_data_build_call. apply callargs_roundtrip; assumption. Qed.

Definition emittable (fn : bytes) : Prop :=
  fn <> [] /\ ~ In x40 fn /\ is_builtin fn = true /\ beqb fn C.BuiltInFunctionESDTNFTCreateRoleTransfer = false.
Ltac notin40 := let H := fresh in intros H; vm_compute in H; repeat (destruct H as [H|H]; [discriminate H|]); exact H.
Lemma emittable_esdt : emittable C.BuiltInFunctionESDTTransfer.
Proof. split; [discriminate|]. split; [notin40|]. split; vm_compute; reflexivity. Qed.
Lemma emittable_nft : emittable C.BuiltInFunctionESDTNFTTransfer.
Proof. split; [discriminate|]. split; [notin40|]. split; vm_compute; reflexivity. Qed.
Lemma emittable_multi : emittable C.BuiltInFunctionMultiESDTNFTTransfer.
Proof. split; [discriminate|]. split; [notin40|]. split; vm_compute; reflexivity. Qed.

Section Collect.
  Variable c : wcfg.
  Notation shof := (wc_shard_of c).

  (* a transfer to an address of the executing shard never becomes a message *)
  Lemma msg_of_transfer_local sh i id dest t : shof dest = sh -> msg_of_transfer c sh i id dest t = None.
  Proof.
    intros Hd. unfold msg_of_transfer. destruct (tr_data t) as [|b r]; [reflexivity|].
    destruct (parse_call_data (b :: r)) as [[fn args]|]; [|reflexivity].
    destruct (negb (is_builtin fn)); [reflexivity|]. rewrite Hd, N.eqb_refl. cbn [andb].
    destruct (beqb fn C.BuiltInFunctionESDTNFTCreateRoleTransfer); reflexivity.
  Qed.
  Lemma collect_transfers_local sh i id dest ts : shof dest = sh -> collect_transfers c sh i id dest ts = [].
  Proof.
    intros Hd. induction ts as [|t r IH]; [reflexivity|]. cbn [collect_transfers].
    rewrite msg_of_transfer_local by exact Hd. exact IH.
  Qed.
  Lemma collect_accounts_local sh i oas : forall id,
    (forall oa, In oa oas -> shof (oc_addr oa) = sh) -> collect_accounts c sh i id oas = [].
  Proof.
    induction oas as [|oa r IH]; intros id H; [reflexivity|]. cbn [collect_accounts]. cbv zeta.
    rewrite collect_transfers_local by (apply H; left; reflexivity). cbn [app length].
    apply IH. intros x Hx. apply H. right. exact Hx.
  Qed.
  (* all output transfers are local and the call itself does not travel: nothing is emitted *)
  Lemma collect_all_local sh fn i id o :
    (forall oa, In oa (o_accounts o) -> shof (oc_addr oa) = sh) ->
    shof (i_rcpt i) = sh \/ travels fn = false -> collect c sh fn i id o = [].
  Proof.
    intros H Ht. unfold collect. rewrite collect_accounts_local by exact H.
    destruct Ht as [Ht|Ht]; [rewrite Ht, N.eqb_refl; reflexivity|rewrite Ht, andb_false_r; reflexivity].
  Qed.

  (* one output transfer carrying a built-in call to another shard: exactly one message *)
  Lemma collect_one_cross sh fn i id o dest t fn' args' :
    o_accounts o = one_transfer dest t -> tr_data t = msg_data fn' args' -> emittable fn' ->
    shof dest <> sh -> shof (tr_sender t) = sh ->
    collect c sh fn i id o =
      [{| m_id := id; m_fn := fn'; m_caller := tr_sender t; m_dest := dest; m_args := args';
          m_callType := tr_callType t; m_gasLimit := tr_gasLimit t; m_locked := tr_gasLocked t;
          m_origin := sh; m_sender := i_caller i |}].
  Proof.
    intros Ho Hd (Hne & Hat & Hbi & Hcrt) Hdest Hsnd. unfold collect. rewrite Ho. unfold one_transfer.
    cbn [collect_accounts collect_transfers oc_addr oc_transfers]. cbv zeta.
    unfold msg_of_transfer. rewrite Hd.
    destruct (msg_data fn' args') as [|b r] eqn:Ed.
    { exfalso. unfold msg_data in Ed. apply app_eq_nil in Ed as [Ed _]. contradiction. }
    rewrite <- Ed, (parse_msg_data fn' args' Hne Hat), Hbi, Hcrt. cbn [negb andb].
    apply N.eqb_neq in Hdest. rewrite Hdest. cbn [andb].
    rewrite Hsnd, N.eqb_refl. reflexivity.
  Qed.

  (* no output transfer at all: the user transaction itself travels, or nothing *)
  Lemma collect_none sh fn i id o : o_accounts o = [] ->
    collect c sh fn i id o =
      if (negb (shof (i_rcpt i) =? sh) && negb (shof (i_rcpt i) =? META) && (shof (i_caller i) =? sh))%N%bool && travels fn
      then [{| m_id := id; m_fn := fn; m_caller := i_caller i; m_dest := i_rcpt i; m_args := i_args i;
               m_callType := i_callType i; m_gasLimit := i_gas i; m_locked := i_gasLocked i;
               m_origin := sh; m_sender := i_caller i |}]
      else [].
  Proof. intros Ho. unfold collect. rewrite Ho. reflexivity. Qed.
End Collect.

(* ================================================================ *)
(* 3. the world invariant and the consistency hypothesis               *)
(* ================================================================ *)
Section Inv.
  Variable c : wcfg.
  Notation shof := (wc_shard_of c).

  (* an in-flight message the destination side of a transfer function will process:
     - one of the three transfer functions (the INITIAL world may not hold messages of other built-ins);
     - its caller and the debited account (refund target) live on another shard than the destination, so that
       delivery and refund execute the destination side (no account object of the caller);
     - what it will credit is non-negative (a crafted negative NFT payload would be clamped by save_nft);
     - F12: the count of a multi-transfer message fits 64 bits (WorldDefs.credits says [] beyond; the ledger wraps) *)
  Record msg_ok (m : msg) : Prop := {
    mo_fn : is_transfer_fn (m_fn m) = true;
    mo_caller : shof (m_caller m) <> shof (m_dest m);
    mo_sender : shof (m_sender m) <> shof (m_dest m);
    mo_nonneg : Forall (fun kv => (0 <= snd kv)%Z) (credits c m);
    mo_count : m_fn m = C.BuiltInFunctionMultiESDTNFTTransfer -> (be_to_N (nth 0 (m_args m) []) < two64)%N }.

  Definition accts_nonneg (m : amap account) : Prop :=
    forall a k, (0 <= acct_balance c k (aget empty_account m a))%Z.

  Record WInv (w : world) : Prop := {
    wi_shards : (wc_nshards c <= N.of_nat (nshards w))%N;            (* every shard id below wc_nshards exists *)
    wi_nodup : forall sh, NoDup (map fst (shard_accts w sh));         (* one account object per address *)
    wi_nonneg : forall sh, accts_nonneg (shard_accts w sh);           (* no stored balance is negative *)
    wi_msgs : Forall msg_ok (inflight w) }.

  (* F4b: the sender-side NFT lookups of one origin call find entries whose metadata nonce is the requested one *)
  Definition call_consistent_at (m0 : amap account) (sh : N) (fn : bytes) (i : input) : Prop :=
    let E := env_at c sh in
    let s := mk_state m0 in
    (fn = C.BuiltInFunctionESDTNFTTransfer -> lookup_consistent E s (i_caller i) (nft_tkey i) (nft_nonce i))
    /\ (fn = C.BuiltInFunctionMultiESDTNFTTransfer -> triples_consistent E s (i_caller i) (multi_snd_triples i)).
  Definition call_consistent (w : world) (sh : N) (fn : bytes) (i : input) : Prop :=
    call_consistent_at (shard_accts w sh) sh fn i.
  Definition op_consistent (w : world) (op : wop) : Prop :=
    match op with OCall sh fn i => call_consistent w sh fn i | _ => True end.
  (* ... at every world the history goes through *)
  Fixpoint consistent_along (w : world) (ops : list wop) : Prop :=
    match ops with
    | [] => True
    | op :: r => op_consistent w op /\ consistent_along (wstep c w op) r
    end.

  Lemma accts_nonneg_nil : accts_nonneg [].
  Proof. intros a k. cbn [aget]. rewrite acct_balance_empty. lia. Qed.

  (* committing a shard's accounts *)
  Lemma WInv_commit w sh m ms fl nid : WInv w -> (sh <? wc_nshards c)%N = true ->
    NoDup (map fst m) -> accts_nonneg m -> Forall msg_ok ms ->
    WInv (with_msgs (set_shard w sh m) ms fl nid).
  Proof.
    intros [H1 H2 H3 H4] Hsh Hnd Hnn Hms.
    assert (Hin : (N.to_nat sh < nshards w)%nat) by (apply N.ltb_lt in Hsh; lia).
    constructor.
    - change (nshards (with_msgs (set_shard w sh m) ms fl nid)) with (nshards (set_shard w sh m)).
      rewrite nshards_set_shard. exact H1.
    - intros sh'. rewrite shard_accts_with_msgs. destruct (N.eq_dec sh' sh) as [->|Hne].
      + rewrite shard_accts_set_shard_eq by exact Hin. exact Hnd.
      + rewrite shard_accts_set_shard_ne by exact Hne. apply H2.
    - intros sh'. rewrite shard_accts_with_msgs. destruct (N.eq_dec sh' sh) as [->|Hne].
      + rewrite shard_accts_set_shard_eq by exact Hin. exact Hnn.
      + rewrite shard_accts_set_shard_ne by exact Hne. apply H3.
    - exact Hms.
  Qed.
  Lemma WInv_msgs w fl nid : WInv w -> WInv (with_msgs w (inflight w) fl nid).
  Proof. intros [H1 H2 H3 H4]. constructor; assumption. Qed.
End Inv.
