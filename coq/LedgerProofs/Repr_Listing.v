(* C13 — representation independence, part 5: the correspondence case format (Corr/Exec.v).

   The harness LISTS a shard state (per address: the live storage entries, sorted, and the four fields) and
   [state_of] builds the model state from the listing; the post-state is compared with [store_matches] /
   [acct_matches].  Both directions are sound up to [state_equiv]:
   acct_state_of          the account [state_of lst] holds at an address is the listed one (last entry wins);
   listing_represents     a listing that describes [s] cell by cell yields a state equivalent to [s]; hence
   exec_on_listing        executing on the state built from the listing is executing on [s] (same result,
                          equivalent post-states) - whatever representation [s] had;
   store_matches_sound / acct_matches_sound    the comparison used for the post-state implies [acct_eq]. *)
From EV Require Import Base.Bytes Base.Store Base.Monad gen.Consts Codec.Types Codec.Proto Helpers.Helpers
  Ledger.Types Ledger.Env Ledger.Funcs Ledger.Transfers Corr.Exec
  LedgerProofs.Defs LedgerProofs.Repr_Core LedgerProofs.Repr_Exec LedgerProofs.Repr_Canon.

Local Transparent sget sput.

Lemma has_acctl_app l1 l2 a : has_acctl (l1 ++ l2) a = has_acctl l1 a || has_acctl l2 a.
Proof.
  induction l1 as [|[k v] r IH]; [reflexivity|]. cbn [app has_acctl]. rewrite IH. apply Bool.orb_assoc.
Qed.
Lemma has_acctl_rev l a : has_acctl (rev l) a = has_acctl l a.
Proof.
  induction l as [|[k v] r IH]; [reflexivity|]. cbn [rev has_acctl]. rewrite has_acctl_app, IH. cbn [has_acctl].
  rewrite Bool.orb_false_r. apply Bool.orb_comm.
Qed.
Lemma find_acctl_app l1 l2 a :
  find_acctl (l1 ++ l2) a = if has_acctl l1 a then find_acctl l1 a else find_acctl l2 a.
Proof.
  induction l1 as [|[k v] r IH]; [reflexivity|]. cbn [app has_acctl find_acctl]. destruct (beqb a k); [reflexivity|exact IH].
Qed.
Lemma find_acctl_absent l a : has_acctl l a = false -> find_acctl l a = empty_acctl.
Proof.
  induction l as [|[k v] r IH]; [reflexivity|]. cbn [has_acctl find_acctl]. destruct (beqb a k); [discriminate|exact IH].
Qed.

Definition build (m : amap account) (l : list (bytes * acctl)) : amap account :=
  fold_left (fun m kv => aput m (fst kv) (account_of (snd kv))) l m.
Lemma aget_build l : forall m a,
  aget empty_account (build m l) a
  = if has_acctl l a then account_of (find_acctl (rev l) a) else aget empty_account m a.
Proof.
  induction l as [|[k v] r IH]; intros m a; [reflexivity|]. unfold build in *. cbn [fold_left fst snd].
  rewrite IH. cbn [has_acctl rev]. rewrite find_acctl_app, has_acctl_rev, aget_aput.
  destruct (has_acctl r a); [rewrite Bool.orb_true_r; reflexivity|]. rewrite Bool.orb_false_r.
  cbn [find_acctl]. destruct (beqb a k); reflexivity.
Qed.
(* the account of [state_of lst] at [a] is the one the listing names (the last entry for [a], else the empty account) *)
Theorem acct_state_of lst a : acct (state_of lst) a = account_of (find_acctl (rev lst) a).
Proof.
  unfold acct, state_of. cbn [accts]. change (fold_left _ lst []) with (build [] lst). rewrite aget_build.
  destruct (has_acctl lst a) eqn:Eh; [reflexivity|]. rewrite find_acctl_absent by (rewrite has_acctl_rev; exact Eh).
  reflexivity.
Qed.

(* a listing that describes s - cell by cell and field by field - represents s *)
Theorem listing_represents s lst :
  (forall a, acct_eq (acct s a) (account_of (find_acctl (rev lst) a))) -> state_equiv s (state_of lst).
Proof. intros H a. rewrite acct_state_of. apply H. Qed.
Theorem exec_on_listing E f i s lst :
  (forall a, acct_eq (acct s a) (account_of (find_acctl (rev lst) a))) -> calls s = 0 ->
  same_run E f i s (state_of lst).
Proof. intros H Hc. apply same_run_of_equiv; [apply listing_represents; exact H|exact Hc]. Qed.
(* in particular two listings of the same content in different orders build equivalent states *)
Corollary listings_equiv l1 l2 :
  (forall a, acct_eq (account_of (find_acctl (rev l1) a)) (account_of (find_acctl (rev l2) a))) ->
  state_equiv (state_of l1) (state_of l2).
Proof. intros H. apply listing_represents. intros a. rewrite acct_state_of. apply H. Qed.

(* ---------------- the post-state comparison ---------------- *)
Lemma sget_first (l : store) k : In k (map fst l) -> In (k, sget l k) l.
Proof.
  induction l as [|[k' v] r IH]; [intros []|]. cbn [map fst sget]. intros H.
  destruct (beqb_spec k k') as [->|Hne]; [left; reflexivity|]. right. apply IH. destruct H as [H|H]; [congruence|exact H].
Qed.
Theorem store_matches_sound s listing : store_matches s listing = true -> forall k, sget s k = sget listing k.
Proof.
  unfold store_matches. intros H k. apply andb_prop in H as [H1 H2]. rewrite forallb_forall in H1, H2.
  destruct (in_or_not k (map fst listing)) as [Hin|Hni].
  - specialize (H1 _ (sget_first listing k Hin)). cbn [fst snd] in H1. apply andb_prop in H1 as [H1 _].
    apply beqb_true in H1. exact H1.
  - rewrite (sget_notin listing k Hni). destruct (in_or_not k (skeys s)) as [Hs|Hs]; [|apply sget_notin; exact Hs].
    specialize (H2 _ Hs). apply Bool.orb_prop in H2 as [H2|H2]; [apply beqb_true in H2; exact H2|].
    apply bytes_in_true in H2. contradiction.
Qed.
Theorem acct_matches_sound x l : acct_matches x l = true -> acct_eq x (account_of l).
Proof.
  unfold acct_matches. intros H. do 4 (apply andb_prop in H as [H ?]).
  split; [intros k; apply store_matches_sound; exact H|].
  repeat split; cbn [account_of a_balance a_owner a_username a_devreward];
    first [apply Z.eqb_eq; assumption|apply beqb_true; assumption].
Qed.

Print Assumptions acct_state_of.
Print Assumptions listing_represents.
Print Assumptions exec_on_listing.
Print Assumptions store_matches_sound.
Print Assumptions acct_matches_sound.
