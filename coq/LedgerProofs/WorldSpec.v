(* Structural lemmas about the world model (Ledger/World.v): shards as a list, execution with
   rollback, and a case analysis of [wstep] that the history-level proofs (C01, C07, C15) share. *)
From EV Require Import Base.Bytes Base.Store Base.Monad gen.Consts Codec.Types Helpers.Helpers
  Ledger.Types Ledger.Env Ledger.Funcs Ledger.Transfers Ledger.World LedgerProofs.Defs.

Definition mk_state (m : amap account) : mstate := {| accts := m; calls := 0; allocs := 0 |}.

(* ---- set_nth / shards ---- *)
Lemma set_nth_length {A} (x : A) : forall n l, length (set_nth n x l) = length l.
Proof. induction n as [|n IH]; destruct l as [|y r]; simpl; auto. Qed.
Lemma nth_set_nth_eq {A} (x d : A) : forall n l, (n < length l)%nat -> nth n (set_nth n x l) d = x.
Proof. induction n as [|n IH]; destruct l as [|y r]; simpl; intros H; try lia; auto. apply IH. lia. Qed.
Lemma nth_set_nth_ne {A} (x d : A) : forall n m l, n <> m -> nth m (set_nth n x l) d = nth m l d.
Proof.
  induction n as [|n IH]; destruct l as [|y r]; destruct m as [|m]; simpl; intros H; auto; try congruence.
Qed.
Lemma set_nth_same {A} (d : A) : forall n l, (n < length l)%nat -> set_nth n (nth n l d) l = l.
Proof. induction n as [|n IH]; destruct l as [|y r]; simpl; intros H; try lia; auto. f_equal. apply IH. lia. Qed.
Lemma set_nth_out {A} (x : A) : forall n l, (length l <= n)%nat -> set_nth n x l = l.
Proof. induction n as [|n IH]; destruct l as [|y r]; simpl; intros H; try lia; auto. f_equal. apply IH. lia. Qed.

Definition nshards (w : world) : nat := length (shards w).
Lemma shards_set_shard w sh m : shards (set_shard w sh m) = set_nth (N.to_nat sh) m (shards w).
Proof. reflexivity. Qed.
Lemma nshards_set_shard w sh m : nshards (set_shard w sh m) = nshards w.
Proof. unfold nshards. rewrite shards_set_shard. apply set_nth_length. Qed.
Lemma shard_accts_set_shard_eq w sh m : (N.to_nat sh < nshards w)%nat -> shard_accts (set_shard w sh m) sh = m.
Proof. intros H. unfold shard_accts. rewrite shards_set_shard. apply nth_set_nth_eq. exact H. Qed.
Lemma shard_accts_set_shard_ne w sh sh' m : sh' <> sh -> shard_accts (set_shard w sh m) sh' = shard_accts w sh'.
Proof.
  intros H. unfold shard_accts. rewrite shards_set_shard. apply nth_set_nth_ne. intros E. apply H.
  apply N2Nat.inj. symmetry. exact E.
Qed.
Lemma set_shard_same w sh : set_shard w sh (shard_accts w sh) = w.
Proof.
  destruct w as [sl ms fl nid]. unfold set_shard, shard_accts. cbn [shards inflight failed next_id].
  f_equal. destruct (Nat.lt_ge_cases (N.to_nat sh) (length sl)); [apply set_nth_same; assumption|].
  apply set_nth_out. assumption.
Qed.
Lemma inflight_set_shard w sh m : inflight (set_shard w sh m) = inflight w. Proof. reflexivity. Qed.
Lemma failed_set_shard w sh m : failed (set_shard w sh m) = failed w. Proof. reflexivity. Qed.
Lemma next_id_set_shard w sh m : next_id (set_shard w sh m) = next_id w. Proof. reflexivity. Qed.
Lemma shards_with_msgs w ms fl nid : shards (with_msgs w ms fl nid) = shards w. Proof. reflexivity. Qed.
Lemma shard_accts_with_msgs w ms fl nid sh : shard_accts (with_msgs w ms fl nid) sh = shard_accts w sh. Proof. reflexivity. Qed.

(* ---- one execution with rollback ---- *)
Section Run.
  Variable c : wcfg.

  Lemma env_at_no_faults sh : no_faults (env_at c sh).
  Proof. intros n. reflexivity. Qed.
  Lemma env_at_cdc sh : cdc (env_at c sh) = wc_cdc c. Proof. reflexivity. Qed.
  Lemma env_at_shard_of sh : shard_of (env_at c sh) = wc_shard_of c. Proof. reflexivity. Qed.
  Lemma env_at_self sh : self_shard (env_at c sh) = sh. Proof. reflexivity. Qed.

  Lemma run_on_ok w sh fn i o m' : run_on c w sh fn i = (Ok o, m') ->
    exists s', exec (env_at c sh) fn i (mk_state (shard_accts w sh)) = (Ok o, s') /\ m' = accts s'.
  Proof.
    unfold run_on, mk_state. destruct (exec _ fn i _) as [[o'|e|] s'] eqn:Ex; intros H; inversion H; subst. eauto.
  Qed.
  Lemma run_on_not_ok w sh fn i r m' : run_on c w sh fn i = (r, m') -> (forall o, r <> Ok o) -> m' = shard_accts w sh.
  Proof.
    unfold run_on. destruct (exec _ fn i _) as [[o'|e|] s']; intros H Hn; inversion H; subst; auto.
    exfalso. eapply Hn. reflexivity.
  Qed.

  (* ---- case analysis of one world step ---- *)
  (* what a step can do: nothing; mark a delivery as failed; or commit one successful execution *)
  Inductive step_kind (w : world) (op : wop) (w' : world) : Prop :=
  | SK_skip : w' = w -> step_kind w op w'
  | SK_failed id gas m :
      (op = ODeliver id gas \/ op = ORedeliver id gas) -> find_msg (inflight w) id = Some m ->
      w' = with_msgs w (inflight w) (if nat_in id (failed w) then failed w else id :: failed w) (next_id w) ->
      step_kind w op w'
  | SK_call sh fn i o s' :
      op = OCall sh fn i -> (sh <? wc_nshards c)%N = true ->
      exec (env_at c sh) fn i (mk_state (shard_accts w sh)) = (Ok o, s') ->
      w' = with_msgs (set_shard w sh (accts s')) (inflight w ++ collect c sh fn i (next_id w) o) (failed w)
                     (next_id w + length (collect c sh fn i (next_id w) o)) ->
      step_kind w op w'
  | SK_deliver id gas m o s' (consume : bool) :
      op = (if consume then ODeliver id gas else ORedeliver id gas) ->
      find_msg (inflight w) id = Some m ->
      let sh := wc_shard_of c (m_dest m) in
      (sh <? wc_nshards c)%N = true ->
      exec (env_at c sh) (m_fn m) (deliver_input c m sh gas) (mk_state (shard_accts w sh)) = (Ok o, s') ->
      w' = with_msgs (set_shard w sh (accts s'))
             ((if consume then drop_msg (inflight w) id else inflight w)
                ++ collect c sh (m_fn m) (deliver_input c m sh gas) (next_id w) o)
             (failed w) (next_id w + length (collect c sh (m_fn m) (deliver_input c m sh gas) (next_id w) o)) ->
      step_kind w op w'
  | SK_refund id gas m o s' :
      op = ORefund id gas -> find_msg (inflight w) id = Some m -> nat_in id (failed w) = true ->
      let sh := wc_shard_of c (m_sender m) in
      (sh <? wc_nshards c)%N = true ->
      exec (env_at c sh) (m_fn m) (refund_input c m sh gas) (mk_state (shard_accts w sh)) = (Ok o, s') ->
      w' = with_msgs (set_shard w sh (accts s')) (drop_msg (inflight w) id) (nat_remove id (failed w)) (next_id w) ->
      step_kind w op w'.

  Lemma wstep_cases w op : step_kind w op (wstep c w op).
  Proof.
    destruct op as [sh fn i|id gas|id gas|id gas]; cbn [wstep].
    - destruct (sh <? wc_nshards c)%N eqn:Hsh; cbn [negb]; [|apply SK_skip; reflexivity].
      destruct (run_on c w sh fn i) as [[o|e|] m'] eqn:Hr; try (apply SK_skip; reflexivity).
      apply run_on_ok in Hr as (s' & Hex & ->). eapply SK_call; eauto.
    - destruct (find_msg (inflight w) id) as [m|] eqn:Hf; [|apply SK_skip; reflexivity].
      destruct (wc_shard_of c (m_dest m) <? wc_nshards c)%N eqn:Hsh; cbn [negb]; [|apply SK_skip; reflexivity].
      destruct (run_on c w _ (m_fn m) _) as [[o|e|] m'] eqn:Hr.
      + apply run_on_ok in Hr as (s' & Hex & ->). eapply (SK_deliver w _ _ id gas m o s' true); eauto.
      + eapply SK_failed; eauto.
      + eapply SK_failed; eauto.
    - destruct (find_msg (inflight w) id) as [m|] eqn:Hf; [|apply SK_skip; reflexivity].
      destruct (wc_shard_of c (m_dest m) <? wc_nshards c)%N eqn:Hsh; cbn [negb]; [|apply SK_skip; reflexivity].
      destruct (run_on c w _ (m_fn m) _) as [[o|e|] m'] eqn:Hr.
      + apply run_on_ok in Hr as (s' & Hex & ->). eapply (SK_deliver w _ _ id gas m o s' false); eauto.
      + eapply SK_failed; eauto.
      + eapply SK_failed; eauto.
    - destruct (find_msg (inflight w) id) as [m|] eqn:Hf; [|apply SK_skip; reflexivity].
      destruct (nat_in id (failed w)) eqn:Hfl; cbn [negb]; [|apply SK_skip; reflexivity].
      destruct (wc_shard_of c (m_sender m) <? wc_nshards c)%N eqn:Hsh; cbn [negb]; [|apply SK_skip; reflexivity].
      destruct (run_on c w _ (m_fn m) _) as [[o|e|] m'] eqn:Hr; try (apply SK_skip; reflexivity).
      apply run_on_ok in Hr as (s' & Hex & ->). eapply SK_refund; eauto.
  Qed.

  (* invariants over histories *)
  Lemma wrun_app w ops1 ops2 : wrun c w (ops1 ++ ops2) = wrun c (wrun c w ops1) ops2.
  Proof. unfold wrun. apply fold_left_app. Qed.
  Lemma wrun_cons w op ops : wrun c w (op :: ops) = wrun c (wstep c w op) ops.
  Proof. reflexivity. Qed.
  Lemma wrun_invariant (I : world -> Prop) (okop : wop -> Prop) :
    (forall w op, I w -> okop op -> I (wstep c w op)) ->
    forall ops w, I w -> Forall okop ops -> I (wrun c w ops).
  Proof.
    intros Hstep. induction ops as [|op ops IH]; intros w Hw Hops; [exact Hw|].
    inversion Hops; subst. rewrite wrun_cons. apply IH; [apply Hstep; assumption|assumption].
  Qed.

  (* ---- messages ---- *)
  Lemma find_msg_In l id m : find_msg l id = Some m -> In m l /\ m_id m = id.
  Proof.
    induction l as [|x r IH]; simpl; [discriminate|]. destruct (Nat.eqb (m_id x) id) eqn:E.
    - intros [= ->]. split; [left; reflexivity|apply Nat.eqb_eq; exact E].
    - intros H. destruct (IH H). split; [right|]; assumption.
  Qed.
  Lemma in_drop_msg l id m : In m (drop_msg l id) -> In m l.
  Proof.
    induction l as [|x r IH]; simpl; [auto|]. destruct (Nat.eqb (m_id x) id); simpl; intros H; auto.
    destruct H; auto.
  Qed.
End Run.
