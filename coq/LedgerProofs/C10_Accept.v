(* C10, part 2: a continuation message emitted by the sender side of a built-in function passes the argument-count
   and shape guards of the destination side of the SAME-NAMED function.
     [xxx_dest_guards E' i']     the early guards of the destination side, as a predicate on the delivered input
     [xxx_dest_guards_pass]      under the guards, f_xxx E' i' IS its state-dependent remainder (payability, frozen /
                                 paused, stored entry ...): every argument-count / shape guard has been discharged
     [continuation_accepted_shape_xxx]  the message emitted by an accepted sender-side call satisfies the guards,
                                 for EVERY delivered input that carries the message's arguments.
   Acceptance of the remainder (modulo frozen / paused / not payable / other hash) is C01's liveness theorem
   (deliver_accepts_or_refund); it is not redone here.
   E = the sender's environment, E' = the destination's: same codec, coordinator, gas schedule and DNS list
   (Ledger/World.v: env_at c sh differs in self_shard only).
   ESDTBurn's message is addressed to the system smart contract on the metachain (not a function of this library) and
   ClaimDeveloperRewards emits empty data: they have no destination side here. *)
From Coq.Strings Require Import String.
From Coq Require Import Lia.
From EV Require Import Base.Bytes Base.Store Base.Monad gen.Consts Codec.Types Helpers.Helpers
  Parsers.Tokenize Parsers.EsdtTransferParser
  Ledger.Types Ledger.Env Ledger.Funcs Ledger.Transfers Ledger.World
  LedgerProofs.Defs LedgerProofs.EnvSpec LedgerProofs.WorldDefs LedgerProofs.Spec_System
  LedgerProofs.Spec_Transfers_Base LedgerProofs.Spec_Transfers_Esdt LedgerProofs.Spec_Transfers_Nft
  LedgerProofs.Spec_Transfers_Multi LedgerProofs.Spec_Transfers LedgerProofs.C10_Emit LedgerProofs.C10_Parser.

(* the presence discipline of a delivered message whose caller lives on another shard *)
Definition delivered_shape (i' : input) : Prop :=
  i_value i' = 0%Z /\ i_snd i' = false /\ i_dst i' = true /\ i_caller i' <> i_rcpt i'.

Lemma arg_argn i k s : (k < alen (i_args i))%N -> arg (i_args i) k s = (Ok (argn i (N.to_nat k)), s).
Proof.
  intros H. destruct (arg_succeeds (i_args i) k s H) as (x & Hx & ->). apply nth_error_argn in Hx. rewrite Hx. reflexivity.
Qed.
Lemma argn_eq i i' n : i_args i' = i_args i -> argn i' n = argn i n.
Proof. intros H. unfold argn. rewrite H. reflexivity. Qed.

Lemma bind_cong {Er S A B} (m : @M Er S A) (f g : A -> @M Er S B) s :
  (forall a s1, m s = (Ok a, s1) -> f a s1 = g a s1) -> bind m f s = bind m g s.
Proof. intros H. unfold bind. destruct (m s) as [[a|e|] s1]; auto. Qed.

(* forward evaluation of the monad *)
Ltac fwd_guard H := erewrite bind_eq; [|apply guard_true; exact H]; cbv beta.
Ltac fwd_arg := erewrite bind_eq; [|apply arg_argn; lia]; cbv beta.

Section Accept.
  Variables E E' : env.
  Hypothesis Hc : codec_ok (cdc E).
  Hypothesis Hcdc : cdc E' = cdc E.
  Hypothesis Hsh : shard_of E' = shard_of E.
  Hypothesis Hgas : gas E' = gas E.
  Hypothesis Hdns : dns E' = dns E.

  (* ================================================================ *)
  (* ESDTTransfer                                                       *)
  (* ================================================================ *)
  Definition esdt_dest_guards (i' : input) : Prop :=
    i_value i' = 0%Z /\ i_snd i' = false /\ i_dst i' = true
    /\ (2 <= alen (i_args i'))%N /\ shard_of E' (i_rcpt i') <> META /\ (0 < bigZ (argn i' 1))%Z.

  Lemma esdt_dest_guards_pass i' : esdt_dest_guards i' -> forall s,
    f_esdt_transfer E' i' s =
    (check_payable E' (must_verify_payable i' 2) (i_rcpt i') ;;;
     add_to_esdt_balance E' (i_rcpt i') (P ++ argn i' 0) (bigZ (argn i' 1)) (i_rae i') ;;;
     ret (esdt_transfer_out E' i')) s.
  Proof.
    intros (Hv & Hsnd & Hdst & Hn & Hm & Hpos) s. unfold f_esdt_transfer, check_basic. cbv zeta.
    change C.MinLenArgumentsESDTTransfer with 2%N.
    assert (G1 : (i_value i' =? 0)%Z = true) by lia.
    assert (G2 : (2 <=? alen (i_args i'))%N = true) by lia.
    assert (G3 : negb (shard_of E' (i_rcpt i') =? META)%N = true) by (apply Bool.negb_true_iff, N.eqb_neq; exact Hm).
    assert (G4 : (0 <? bigZ (argn i' 1))%Z = true) by lia.
    erewrite bind_eq; [|erewrite bind_eq; [|apply guard_true; exact G1]; apply guard_true; exact G2]. cbv beta.
    fwd_guard G3. fwd_arg. fwd_arg. change (N.to_nat 0) with 0%nat. change (N.to_nat 1) with 1%nat.
    fwd_guard G4. rewrite Hsnd, Hdst.
    erewrite bind_eq; [|reflexivity]. cbv beta.
    apply bind_cong. intros u s1 _. apply bind_cong. intros u2 s2 _.
    unfold esdt_transfer_out. cbv zeta. rewrite Hsnd, Hdst. unfold esdt_call_after, esdt_tok, esdt_val.
    destruct (is_sc (i_rcpt i') && (2 <? alen (i_args i'))%N)%bool eqn:Ea.
    - apply Bool.andb_true_iff in Ea as [_ Ea].
      fwd_arg. change (N.to_nat 2) with 2%nat.
      assert (Hca : forall st, (if (2 + 1 <? alen (i_args i'))%N then args_from (i_args i') (2 + 1) else ret []) st
                               = (Ok (skipn 3 (i_args i')), st)).
      { intros st. destruct (2 + 1 <? alen (i_args i'))%N eqn:E3.
        - rewrite args_from_succeeds by lia. reflexivity.
        - unfold ret. rewrite skipn_past; [reflexivity|]. unfold alen in E3. lia. }
      erewrite bind_eq; [|apply Hca]. cbv beta. reflexivity.
    - reflexivity.
  Qed.

  (* an accepted origin-side call whose recipient lives elsewhere: the same argument list passes the guards of
     the destination side; when the caller is a contract it is re-emitted as ESDTTransfer@... *)
  Theorem continuation_accepted_shape_esdt i s o s' :
    f_esdt_transfer E i s = (Ok o, s') -> i_dst i = false ->
    (is_sc (i_caller i) = true ->
       exists t, o_accounts o = [{| oc_addr := i_rcpt i; oc_delta := 0; oc_transfers := [t] |}]
                 /\ tr_data t = msg_data C.BuiltInFunctionESDTTransfer (i_args i))
    /\ forall i', i_args i' = i_args i -> i_rcpt i' = i_rcpt i ->
         i_value i' = 0%Z -> i_snd i' = false -> i_dst i' = true -> esdt_dest_guards i'.
  Proof.
    intros H Hd. pose proof (esdt_transfer_spec E Hc _ _ _ _ H) as Hp. destruct Hp. split.
    - intros Hsc. subst o. unfold esdt_transfer_out. cbv zeta. rewrite Hd, Hsc.
      eexists. split; reflexivity.
    - intros i' Ha Hr Hv Hs Hdd. unfold esdt_dest_guards. rewrite Ha, Hr, Hsh, (argn_eq i i' 1 Ha).
      repeat split; assumption.
  Qed.

  (* ================================================================ *)
  (* ESDTNFTTransfer                                                    *)
  (* ================================================================ *)
  Definition nft_dest_guards (i' : input) : Prop :=
    delivered_shape i' /\ (4 <= alen (i_args i'))%N
    /\ exists t m, dec_tok (cdc E') (argn i' 3) = Some t /\ t_value t <> None /\ t_meta t = Some m.

  Lemma nft_dest_guards_pass i' : nft_dest_guards i' -> forall s,
    f_nft_transfer E' i' s =
    (t <- unmarshal_tok E' (argn i' 3) ;;
     _ <- add_nft_to_destination E' (i_rcpt i') (P ++ argn i' 0) t (must_verify_payable i' 4) (i_rae i') ;;
     ret (nft_dest_out i' t)) s
    /\ exists t m, dec_tok (cdc E') (argn i' 3) = Some t /\ t_value t <> None /\ t_meta t = Some m.
  Proof.
    intros ((Hv & Hsnd & Hdst & Hne) & Hn & Hdec) s. split; [|exact Hdec].
    unfold f_nft_transfer, check_basic. cbv zeta.
    change C.MinLenArgumentsESDTTransfer with 2%N. change nft_min with 4%N.
    assert (G1 : (i_value i' =? 0)%Z = true) by lia.
    assert (G2 : (2 <=? alen (i_args i'))%N = true) by lia.
    assert (G3 : negb (alen (i_args i') <? 4)%N = true) by (apply Bool.negb_true_iff; lia).
    erewrite bind_eq; [|erewrite bind_eq; [|apply guard_true; exact G1]; apply guard_true; exact G2]. cbv beta.
    fwd_guard G3. rewrite (beqb_false _ _ Hne), Hsnd, Hdst.
    erewrite bind_eq; [|apply guard_true; reflexivity]. cbv beta.
    erewrite bind_eq; [|apply guard_true; reflexivity]. cbv beta.
    fwd_arg. fwd_arg. change (N.to_nat 0) with 0%nat. change (N.to_nat 3) with 3%nat.
    apply bind_cong. intros t s1 Eu.
    apply unmarshal_tok_ok in Eu as [Ed _]. destruct Hdec as (t0 & m & Hd0 & Hv0 & Hm0). rewrite Hd0 in Ed. inversion Ed; subst t0.
    apply bind_cong. intros t2 s2 _.
    unfold nft_dest_out, nft_call_after, nft_tok. cbv zeta.
    destruct ((4 <? alen (i_args i'))%N && is_sc (i_rcpt i'))%bool eqn:Ea.
    - apply Bool.andb_true_iff in Ea as [Ea _].
      assert (Hca : forall st, (if (4 + 1 <? alen (i_args i'))%N then args_from (i_args i') (4 + 1) else ret []) st
                               = (Ok (skipn 5 (i_args i')), st)).
      { intros st. destruct (4 + 1 <? alen (i_args i'))%N eqn:E3.
        - rewrite args_from_succeeds by lia. reflexivity.
        - unfold ret. rewrite skipn_past; [reflexivity|]. unfold alen in E3. lia. }
      erewrite bind_eq;
        [|erewrite bind_eq; [|apply arg_argn; lia]; cbv beta; erewrite bind_eq; [|apply Hca]; cbv beta; reflexivity].
      cbv beta. change (N.to_nat 4) with 4%nat.
      erewrite bind_eq; [|apply meta_of_succeeds; exact Hm0]. cbv beta.
      unfold tok_nonce. rewrite Hm0. reflexivity.
    - erewrite bind_eq; [|reflexivity]. cbv beta.
      erewrite bind_eq; [|apply meta_of_succeeds; exact Hm0]. cbv beta.
      unfold tok_nonce. rewrite Hm0. reflexivity.
  Qed.

  Theorem continuation_accepted_shape_nft i s o s' :
    f_nft_transfer E i s = (Ok o, s') -> i_caller i = i_rcpt i -> nft_same E i = false ->
    exists args' t,
      o_accounts o = [{| oc_addr := nft_dst i; oc_delta := 0; oc_transfers := [t] |}]
      /\ tr_data t = msg_data C.BuiltInFunctionESDTNFTTransfer args'
      /\ alen args' = alen (i_args i)
      /\ forall i', i_args i' = args' -> delivered_shape i' -> nft_dest_guards i'.
  Proof.
    intros H Heq Hs.
    pose proof (nft_transfer_spec E Hc _ _ _ _ H) as (_ & Hlen & _).
    destruct (nft_out_accounts_cross E Hc _ _ _ _ H Heq Hs) as (t & _ & Hwf & (m & Hm) & Ho). cbv zeta in Ho.
    eexists _, _. split; [exact Ho|]. split; [reflexivity|].
    assert (Hal : alen ([argn i 0; argn i 1; argn i 2] ++ [enc_tok (cdc E) (set_value t (Some (nft_qty i)))] ++ skipn 4 (i_args i))
                  = alen (i_args i)).
    { unfold alen in *. cbn [app length]. rewrite skipn_length. lia. }
    split; [exact Hal|].
    intros i' Hi' Hds. split; [exact Hds|]. split; [rewrite Hi', Hal; exact Hlen|].
    exists (set_value t (Some (nft_qty i))), m. unfold argn. rewrite Hi'. cbn [app nth]. rewrite Hcdc.
    split; [apply (dec_enc_tok _ Hc); apply wf_set_value; exact Hwf|]. split; [discriminate|exact Hm].
  Qed.

  (* ================================================================ *)
  (* MultiESDTNFTTransfer (F2: the destination side used to demand 5 arguments; a 1-token message has 4) *)
  (* ================================================================ *)
  Definition multi_dest_guards (i' : input) : Prop :=
    delivered_shape i' /\ (4 <= alen (i_args i'))%N
    /\ multi_n_dst i' <> 0%N /\ (multi_n_dst i' <= alen (i_args i') / 3)%N
    /\ (multi_min 1 (multi_n_dst i') <= alen (i_args i'))%N
    /\ (1 + multi_n_dst i' * 3 <= alen (i_args i'))%N               (* every triple is there *)
    /\ Forall (fun x => (0 < rt_nonce x)%N ->                        (* every NFT payload decodes, with a value *)
                 exists t, dec_tok (cdc E') (rt_third x) = Some t /\ t_value t <> None) (multi_dst_triples i').

  Definition multi_dest_finish (i' : input) (logs : list logentry) : MT output :=
    let A := i_args i' in
    let minArgs := multi_min 1 (multi_n_dst i') in
    let o := set_logs (mk_out rcOk (i_gas i')) logs in
    if ((minArgs <? alen A)%N && is_sc (i_rcpt i'))%bool then
      fn <- arg A minArgs ;;
      callArgs <- (if (minArgs + 1 <? alen A)%N then args_from A (minArgs + 1) else ret []) ;;
      ret (add_output_transfer (i_caller i') fn callArgs (i_rcpt i') (i_gasLocked i') (i_callType i') o)
    else ret o.

  Lemma multi_dest_guards_pass i' : multi_dest_guards i' -> forall s,
    f_multi_transfer E' i' s =
    (alloc (multi_n_dst i') ;;;
     logs <- multi_dest_loop E' (N.to_nat (multi_n_dst i')) i' (multi_min 1 (multi_n_dst i')) 0 [] ;;
     multi_dest_finish i' logs) s.
  Proof.
    intros ((Hv & Hsnd & Hdst & Hne) & Hn & Hpos & Hle & Hmin & _) s.
    unfold f_multi_transfer, check_basic. cbv zeta.
    change C.MinLenArgumentsESDTTransfer with 2%N. change apt with 3%N.
    assert (G1 : (i_value i' =? 0)%Z = true) by lia.
    assert (G2 : (2 <=? alen (i_args i'))%N = true) by lia.
    assert (G3 : negb (alen (i_args i') <? 4)%N = true) by (apply Bool.negb_true_iff; lia).
    erewrite bind_eq; [|erewrite bind_eq; [|apply guard_true; exact G1]; apply guard_true; exact G2]. cbv beta.
    fwd_guard G3. rewrite (beqb_false _ _ Hne), Hsnd, Hdst.
    erewrite bind_eq; [|apply guard_true; reflexivity]. cbv beta.
    erewrite bind_eq; [|apply guard_true; reflexivity]. cbv beta.
    fwd_arg. change (N.to_nat 0) with 0%nat. fold (multi_n_dst i'). fold (multi_min 1 (multi_n_dst i')).
    assert (G4 : negb (multi_n_dst i' =? 0)%N = true) by (apply Bool.negb_true_iff, N.eqb_neq; exact Hpos).
    assert (G5 : negb (alen (i_args i') / 3 <? multi_n_dst i')%N = true) by (apply Bool.negb_true_iff; lia).
    assert (G6 : negb (alen (i_args i') <? multi_min 1 (multi_n_dst i'))%N = true) by (apply Bool.negb_true_iff; lia).
    fwd_guard G4. fwd_guard G5. fwd_guard G6. reflexivity.
  Qed.

  Lemma snd_steps_valued caller dst dl verify rae trs s s' lst : snd_steps E caller dst dl verify rae trs s s' lst ->
    Forall (fun p => t_value (snd p) <> None) lst.
  Proof.
    induction 1 as [s|x rest s s1 s' t t2 l Hp Hs IH]; [constructor|].
    constructor; [|exact IH]. cbn [snd]. destruct Hp. rewrite os_travel. discriminate.
  Qed.

  Theorem continuation_accepted_shape_multi i s o s' :
    f_multi_transfer E i s = (Ok o, s') -> i_caller i = i_rcpt i -> multi_same E i = false ->
    exists args' t,
      o_accounts o = [{| oc_addr := multi_dst i; oc_delta := 0; oc_transfers := [t] |}]
      /\ tr_data t = msg_data C.BuiltInFunctionMultiESDTNFTTransfer args'
      /\ (4 <= alen args')%N /\ (multi_n_snd i = 1%N -> alen (i_args i) = 5%N -> alen args' = 4%N)
      /\ forall i', i_args i' = args' -> delivered_shape i' ->
           multi_dest_guards i' /\ multi_n_dst i' = multi_n_snd i.
  Proof.
    intros H Heq Hs. destruct (multi_sender_post E Hc _ _ _ _ H Heq) as (lst & Hp).
    pose proof (multi_out_accounts_cross E _ _ _ _ _ Hp Hs) as Ho. cbv zeta in Ho.
    eexists _, _. split; [exact Ho|]. split; [reflexivity|].
    destruct Hp. destruct mp_steps as (s0 & s1 & _ & Hsteps & _).
    destruct (snd_steps_wf E _ _ _ _ _ _ _ _ _ Hsteps) as [Hlen Hwf].
    pose proof (snd_steps_valued _ _ _ _ _ _ _ _ _ Hsteps) as Hval.
    unfold multi_snd_triples in Hlen. rewrite multi_triples_length in Hlen.
    set (n := multi_n_snd i) in *. set (rest := skipn (N.to_nat (multi_min 2 n)) (i_args i)).
    pose proof (bigU64_lt (argn i 1)) as Hn. fold (multi_n_snd i) in Hn. fold n in Hn.
    assert (Hal : alen ((u64_bytes n :: out_args_pure E lst) ++ rest) = (1 + 3 * n + alen rest)%N).
    { unfold alen. cbn [app length]. rewrite app_length, out_args_pure_length, Hlen. lia. }
    split; [rewrite Hal; lia|]. split.
    { intros H1 H5. rewrite Hal. unfold rest, alen. rewrite skipn_length. unfold alen in H5.
      rewrite H1. change (multi_min 2 1) with 5%N. lia. }
    intros i' Hi' Hds.
    assert (A0 : argn i' 0 = u64_bytes n) by (unfold argn; rewrite Hi'; reflexivity).
    assert (N0 : multi_n_dst i' = n).
    { unfold multi_n_dst. rewrite A0, bigU64_u64_bytes. apply u64_small. exact Hn. }
    split; [|exact N0].
    assert (Hmm : (multi_min 1 n <= 1 + n * 3)%N).
    { unfold multi_min. pose proof (u64_le (u64 (n * 3) + 1)). pose proof (u64_le (n * 3)). lia. }
    unfold multi_dest_guards. rewrite N0, Hi', Hal.
    split; [exact Hds|]. split; [lia|]. split; [exact mp_n_pos|]. split; [apply N.div_le_lower_bound; lia|].
    split; [lia|]. split; [lia|].
    unfold multi_dst_triples. rewrite N0, <- Hlen. change 0%N with (N.of_nat 0).
    rewrite (multi_triples_out_args E i' lst [u64_bytes n] rest 0); [|rewrite Hi'; reflexivity|reflexivity].
    clear - Hwf Hval Hc Hcdc. induction lst as [|p r IH]; [constructor|].
    inversion Hwf; subst. inversion Hval; subst. cbn [map]. constructor; [|apply IH; assumption].
    unfold raw_of, rt_nonce, rt_third. destruct (t_meta (snd p)); cbn [fst snd].
    - intros _. exists (snd p). rewrite Hcdc. split; [apply (dec_enc_tok _ Hc); assumption|assumption].
    - intros Hpos. vm_compute in Hpos. discriminate.
  Qed.

  (* ================================================================ *)
  (* ESDTNFTCreateRoleTransfer: the hand-over message                   *)
  (* ================================================================ *)
  (* caller <> SC: the delivered message's caller is the emitting call's recipient (the old owner), because the
     OutputTransfer's SenderAddress (the system contract) does not live on the emitting shard *)
  Definition role_dest_guards (i' : input) : Prop :=
    i_value i' = 0%Z /\ i_snd i' = false /\ i_dst i' = true /\ i_caller i' <> SC /\ alen (i_args i') = 2%N.

  Lemma role_dest_guards_pass i' : role_dest_guards i' -> forall s,
    f_create_role_transfer E' i' s =
    (save_latest_nonce E' (i_rcpt i') (argn i' 0) (bigU64 (argn i' 1)) ;;;
     add_create_role E' (i_rcpt i') (RP ++ argn i' 0) ;;;
     ret (mk_out rcOk 0)) s.
  Proof.
    intros (Hv & Hsnd & Hdst & Hsc & Hn) s. unfold f_create_role_transfer, check_basic. cbv zeta.
    change C.MinLenArgumentsESDTTransfer with 2%N.
    assert (G1 : (i_value i' =? 0)%Z = true) by lia.
    assert (G2 : (2 <=? alen (i_args i'))%N = true) by lia.
    assert (G3 : (alen (i_args i') =? 2)%N = true) by lia.
    erewrite bind_eq; [|erewrite bind_eq; [|apply guard_true; exact G1]; apply guard_true; exact G2]. cbv beta.
    rewrite Hsnd, Hdst, (beqb_false _ _ Hsc).
    erewrite bind_eq; [|apply guard_true; reflexivity]. cbv beta.
    erewrite bind_eq; [|apply guard_true; reflexivity]. cbv beta.
    fwd_guard G3. fwd_arg. fwd_arg. reflexivity.
  Qed.

  Theorem continuation_accepted_shape_role i s o s' :
    f_create_role_transfer E i s = (Ok o, s') -> i_caller i = SC ->
    exists tok newOwner t,
      i_args i = [tok; newOwner]
      /\ o_accounts o = [{| oc_addr := newOwner; oc_delta := 0; oc_transfers := [t] |}]
      /\ tr_data t = msg_data C.BuiltInFunctionESDTNFTCreateRoleTransfer [tok; u64_bytes (counter_at s (i_rcpt i) tok)]
      /\ forall i', i_args i' = [tok; u64_bytes (counter_at s (i_rcpt i) tok)] ->
           i_value i' = 0%Z -> i_snd i' = false -> i_dst i' = true -> i_caller i' <> SC ->
           role_dest_guards i' /\ argn i' 0 = tok /\ bigU64 (argn i' 1) = counter_at s (i_rcpt i) tok.
  Proof.
    intros H Hsc. destruct (role_transfer_owner_spec E Hc _ _ _ _ H Hsc) as (_ & tok & no & Ha & _ & Ho & _).
    exists tok, no. eexists. split; [exact Ha|]. subst o. split; [reflexivity|]. split; [reflexivity|].
    intros i' Hi' Hv Hs Hd Hne. split.
    - unfold role_dest_guards. rewrite Hi'. repeat split; assumption.
    - unfold argn. rewrite Hi'. cbn [nth]. split; [reflexivity|]. rewrite bigU64_u64_bytes. apply u64_small, counter_at_lt.
  Qed.

  (* ================================================================ *)
  (* SetUserName                                                        *)
  (* ================================================================ *)
  Definition username_dest_guards (i' : input) : Prop :=
    i_value i' = 0%Z /\ i_dst i' = true /\ (g_SaveUserName (gas E') <= i_gas i')%N
    /\ In (i_caller i') (dns E') /\ alen (i_args i') = 1%N.

  Lemma In_bytes_in x l : In x l -> bytes_in x l = true.
  Proof.
    unfold bytes_in. intros H. apply existsb_exists. exists x. split; [exact H|apply beqb_refl].
  Qed.

  Lemma username_dest_guards_pass i' : username_dest_guards i' -> forall s,
    f_set_user_name E' i' s =
    (d <- get_acct (i_rcpt i') ;;
     guard (enable_change E' || match a_username d with [] => true | _ => false end) EUserNameChangeIsDisabled ;;;
     upd_acct (i_rcpt i') (fun a => {| a_store := a_store a; a_balance := a_balance a; a_owner := a_owner a;
                                       a_username := argn i' 0; a_devreward := a_devreward a |}) ;;;
     ret (mk_out rcOk (sub64 (i_gas i') (g_SaveUserName (gas E'))))) s.
  Proof.
    intros (Hv & Hdst & Hg & Hd & Hn) s. unfold f_set_user_name. cbv zeta.
    assert (G1 : (i_value i' =? 0)%Z = true) by lia.
    assert (G2 : negb (i_gas i' <? g_SaveUserName (gas E'))%N = true) by (apply Bool.negb_true_iff; lia).
    assert (G3 : bytes_in (i_caller i') (dns E') = true) by (apply In_bytes_in; exact Hd).
    assert (G4 : (alen (i_args i') =? 1)%N = true) by lia.
    fwd_guard G1. fwd_guard G2. fwd_guard G3. fwd_guard G4. fwd_arg. rewrite Hdst. reflexivity.
  Qed.

  (* the message carries the origin's gas as its gas limit: the gas guard of the destination is the origin's *)
  Theorem continuation_accepted_shape_username i s o s' :
    f_set_user_name E i s = (Ok o, s') -> i_dst i = false ->
    exists a0 t,
      i_args i = [a0]
      /\ o_accounts o = [{| oc_addr := i_rcpt i; oc_delta := 0; oc_transfers := [t] |}]
      /\ tr_data t = msg_data C.BuiltInFunctionSetUserName [a0] /\ tr_gasLimit t = i_gas i /\ tr_sender t = i_caller i
      /\ forall i', i_args i' = [a0] -> i_value i' = 0%Z -> i_dst i' = true ->
           i_gas i' = tr_gasLimit t -> i_caller i' = tr_sender t -> username_dest_guards i'.
  Proof.
    intros H Hd. destruct (set_user_name_spec E _ _ _ _ H) as ((_ & Hg & Hin) & a0 & Ha & Ho & _).
    destruct (Ho Hd) as [_ ->]. exists a0. eexists. split; [exact Ha|]. split; [reflexivity|].
    split; [reflexivity|]. split; [reflexivity|]. split; [reflexivity|].
    intros i' Hi' Hv Hdd Hgas' Hcal. unfold username_dest_guards. rewrite Hi', Hgas', Hcal, Hgas, Hdns.
    cbn [username_msg tr_gasLimit tr_sender]. repeat split; assumption.
  Qed.
End Accept.

(* ================================================================ *)
(* bridge to the world model (Ledger/World.v): the message [collect] builds from a continuation transfer carries  *)
(* exactly (f, args), and its delivery is an input of the delivered shape                                         *)
(* ================================================================ *)
Section WorldBridge.
  Variable c : wcfg.
  Notation shof := (wc_shard_of c).

  Lemma continuation_is_builtin f : continuation_name f = true -> is_builtin f = true.
  Proof.
    intros H. apply bytes_in_In in H. unfold continuation_names in H. cbn [In] in H.
    repeat (destruct H as [<-|H]; [vm_compute; reflexivity|]). contradiction.
  Qed.

  Lemma msg_of_continuation sh i id dest t f args :
    tr_data t = msg_data f args -> continuation_name f = true -> (shof dest =? sh)%N = false ->
    msg_of_transfer c sh i id dest t =
    Some {| m_id := id; m_fn := f; m_caller := if (shof (tr_sender t) =? sh)%N then tr_sender t else i_rcpt i;
            m_dest := dest; m_args := args; m_callType := tr_callType t; m_gasLimit := tr_gasLimit t;
            m_locked := tr_gasLocked t; m_origin := sh; m_sender := i_caller i |}.
  Proof.
    intros Hd Hcn Hsh. unfold msg_of_transfer.
    pose proof (continuation_name_valid f Hcn) as Hv.
    pose proof (msg_data_parses_back f args Hv) as Hp. rewrite <- Hd in Hp.
    destruct (tr_data t) as [|b r] eqn:Et.
    { symmetry in Hd. apply msg_data_nil in Hd as [Hf _]. destruct Hv as [Hv _]. contradiction. }
    rewrite Hp. rewrite (continuation_is_builtin f Hcn), Hsh. cbn [negb andb]. rewrite Bool.andb_false_r. reflexivity.
  Qed.

  Lemma deliver_input_shape m sh gas :
    (shof (m_caller m) =? sh)%N = false -> m_caller m <> m_dest m ->
    let i' := deliver_input c m sh gas in
    delivered_shape i' /\ i_args i' = m_args m /\ i_caller i' = m_caller m /\ i_rcpt i' = m_dest m /\ i_gas i' = gas.
  Proof. intros Hs Hne. cbv zeta. unfold delivered_shape, deliver_input. cbn. repeat split; assumption. Qed.

  (* the environments of two shards of one world differ in self_shard only *)
  Lemma env_at_same sh sh' :
    cdc (env_at c sh') = cdc (env_at c sh) /\ shard_of (env_at c sh') = shard_of (env_at c sh)
    /\ gas (env_at c sh') = gas (env_at c sh) /\ dns (env_at c sh') = dns (env_at c sh).
  Proof. repeat split. Qed.

  (* composition, for the multi-transfer: an accepted origin-side call on shard sh towards another shard puts exactly
     one message in flight, and its delivery (any gas) passes the destination's guards *)
  Theorem world_continuation_accepted_shape_multi sh i s o s' id :
    codec_ok (wc_cdc c) ->
    exec (env_at c sh) C.BuiltInFunctionMultiESDTNFTTransfer i s = (Ok o, s') ->
    i_caller i = i_rcpt i -> shof (i_caller i) = sh -> shof (multi_dst i) <> sh ->
    exists m, collect_accounts c sh i id (o_accounts o) = [m]
      /\ m_fn m = C.BuiltInFunctionMultiESDTNFTTransfer /\ m_dest m = multi_dst i /\ m_caller m = i_caller i
      /\ forall gas, multi_dest_guards (env_at c (shof (m_dest m))) (deliver_input c m (shof (m_dest m)) gas).
  Proof.
    intros Hc H Heq Hsh Hne. change (exec (env_at c sh) C.BuiltInFunctionMultiESDTNFTTransfer i) with (f_multi_transfer (env_at c sh) i) in H.
    assert (Hs : multi_same (env_at c sh) i = false).
    { unfold multi_same. cbn [self_shard shard_of env_at]. apply N.eqb_neq. fold (multi_dst i). congruence. }
    destruct (continuation_accepted_shape_multi (env_at c sh) (env_at c (shof (multi_dst i))) Hc eq_refl _ _ _ _ H Heq Hs)
      as (args' & t & Ho & Hd & _ & _ & Hg).
    assert (Hts : tr_sender t = i_caller i /\ tr_data t = msg_data C.BuiltInFunctionMultiESDTNFTTransfer args').
    { destruct (multi_sender_post (env_at c sh) Hc _ _ _ _ H Heq) as (lst & Hp).
      pose proof (multi_out_accounts_cross (env_at c sh) _ _ _ _ _ Hp Hs) as Ho'. cbv zeta in Ho'.
      rewrite Ho in Ho'. unfold one_transfer in Ho'. inversion Ho' as [Ht]. split; [reflexivity|]. rewrite <- Ht. exact Hd. }
    destruct Hts as [Hts Hd'].
    assert (Hsh' : (shof (multi_dst i) =? sh)%N = false) by (apply N.eqb_neq; exact Hne).
    eexists. split.
    { rewrite Ho. cbn [collect_accounts collect_transfers oc_addr oc_transfers].
      rewrite (msg_of_continuation sh i id (multi_dst i) t _ args' Hd' eq_refl Hsh'). cbn [app]. reflexivity. }
    cbn [m_fn m_dest m_caller]. rewrite Hts, Hsh, N.eqb_refl.
    split; [reflexivity|]. split; [reflexivity|]. split; [reflexivity|].
    intros gas. apply Hg; [reflexivity|].
    apply deliver_input_shape; cbn [m_caller m_dest].
    - rewrite Hsh. apply N.eqb_neq. congruence.
    - intros Hx. apply Hne. rewrite <- Hx. exact Hsh.
  Qed.
End WorldBridge.

Print Assumptions msg_of_continuation.
Print Assumptions world_continuation_accepted_shape_multi.
Print Assumptions continuation_accepted_shape_esdt.
Print Assumptions continuation_accepted_shape_nft.
Print Assumptions continuation_accepted_shape_multi.
Print Assumptions continuation_accepted_shape_role.
Print Assumptions continuation_accepted_shape_username.
Print Assumptions esdt_dest_guards_pass.
Print Assumptions nft_dest_guards_pass.
Print Assumptions multi_dest_guards_pass.
Print Assumptions role_dest_guards_pass.
Print Assumptions username_dest_guards_pass.
